package main

import (
	"verif/harness/eng"
	_ "verif/harness/mon/c16"
)

func main() { eng.WorkerMain() }
