package main

import (
	"verif/harness/eng"
	_ "verif/harness/mon/c19"
)

func main() { eng.WorkerMain() }
