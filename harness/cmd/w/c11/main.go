package main

import (
	"verif/harness/eng"
	_ "verif/harness/mon/c11"
)

func main() { eng.WorkerMain() }
