package main

import (
	"verif/harness/eng"
	_ "verif/harness/mon/c13"
)

func main() { eng.WorkerMain() }
