package main

import (
	"verif/harness/eng"
	_ "verif/harness/mon/c05"
)

func main() { eng.WorkerMain() }
