package main

import (
	"verif/harness/eng"
	_ "verif/harness/mon/c12"
)

func main() { eng.WorkerMain() }
