package main

import (
	"verif/harness/eng"
	_ "verif/harness/mon/c15"
)

func main() { eng.WorkerMain() }
