package main

import (
	"verif/harness/eng"
	_ "verif/harness/mon/c01"
)

func main() { eng.WorkerMain() }
