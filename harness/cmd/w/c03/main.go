package main

import (
	"verif/harness/eng"
	_ "verif/harness/mon/c03"
)

func main() { eng.WorkerMain() }
