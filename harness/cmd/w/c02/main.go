package main

import (
	"verif/harness/eng"
	_ "verif/harness/mon/c02"
)

func main() { eng.WorkerMain() }
