package main

import (
	"verif/harness/eng"
	_ "verif/harness/mon/c07"
)

func main() { eng.WorkerMain() }
