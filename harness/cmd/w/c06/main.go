package main

import (
	"verif/harness/eng"
	_ "verif/harness/mon/c06"
)

func main() { eng.WorkerMain() }
