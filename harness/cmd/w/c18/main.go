package main

import (
	"verif/harness/eng"
	_ "verif/harness/mon/c18"
)

func main() { eng.WorkerMain() }
