package main

import (
	"verif/harness/eng"
	_ "verif/harness/mon/c14"
)

func main() { eng.WorkerMain() }
