package main

import (
	"verif/harness/eng"
	_ "verif/harness/mon/c08"
)

func main() { eng.WorkerMain() }
