package main

import (
	"verif/harness/eng"
	_ "verif/harness/mon/c17"
)

func main() { eng.WorkerMain() }
