package main

import (
	"verif/harness/eng"
	"verif/harness/mon/c10"
)

func main() {
	c10.RaceExitCode()
	eng.WorkerMain()
}
