package main

import (
	"verif/harness/eng"
	_ "verif/harness/mon/c09"
)

func main() { eng.WorkerMain() }
