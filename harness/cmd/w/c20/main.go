package main

import (
	"verif/harness/eng"
	_ "verif/harness/mon/c20"
)

func main() { eng.WorkerMain() }
