package main

import (
	"verif/harness/eng"
	_ "verif/harness/mon/c04"
)

func main() { eng.WorkerMain() }
