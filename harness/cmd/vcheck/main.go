// vcheck: driver. Rebuilds the worker from /repo's current working tree, fans the case list of one
// monitor out to child processes, attributes child deaths through intent logs, applies
// /verif/known_findings.json, writes /verif/evidence/<id>.json and prints the verdict lines.
package main

import (
	"bufio"
	"bytes"
	"context"
	"crypto/sha256"
	"encoding/hex"
	"encoding/json"
	"fmt"
	"os"
	"os/exec"
	"path/filepath"
	"regexp"
	"sort"
	"strconv"
	"strings"
	"sync"
	"time"
)

const verifDir = "/verif"

type violation struct {
	Case      string `json:"case"`
	Signature string `json:"signature"`
	Detail    string `json:"detail"`
	Witness   any    `json:"witness,omitempty"`
}

type result struct {
	Prop         string           `json:"prop"`
	Cases        int              `json:"cases"`
	Evaluations  int64            `json:"evaluations"`
	Distinct     []uint64         `json:"distinct"`
	DistinctAll  int              `json:"distinct_all"`
	Counters     map[string]int64 `json:"counters"`
	Samples      []any            `json:"samples"`
	Violations   []violation      `json:"violations"`
	Inconclusive []string         `json:"inconclusive"`
	Done         bool             `json:"done"`
}

type info struct {
	ID          string   `json:"id"`
	Level       string   `json:"level"`
	Rule        string   `json:"rule"`
	Assumptions []string `json:"assumptions"`
	NCases      int      `json:"ncases"`
	NRace       int      `json:"nrace"`
	MemLimitMB  int      `json:"memlimit_mb"`
}

type finding struct {
	Property  string `json:"property"`
	Signature string `json:"signature"`
	Status    string `json:"status"` // known | fixed
	Commit    string `json:"commit,omitempty"`
	What      string `json:"what"`
}

func goEnv() []string {
	env := os.Environ()
	env = append(env, "GOFLAGS=-mod=mod", "GOPROXY=off", "GOSUMDB=off", "GOTOOLCHAIN=local", "CGO_ENABLED=1")
	return env
}

// build compiles the worker of one property against the lattigo tree (default /repo; VERIF_REPO
// points it at a scratch copy for mutation checks, through a generated -modfile).
func build(prop string, race bool) (string, error) {
	suffix := ""
	if r := os.Getenv("VERIF_REPO"); r != "" && r != "/repo" {
		h := sha256.Sum256([]byte(r))
		suffix = "-alt" + hex.EncodeToString(h[:3])
	}
	// concurrent sweeps (VERIF_WORK_SUFFIX) get their own binary so that a rebuild never replaces a running one
	out := filepath.Join(verifDir, "bin", "worker-"+prop+suffix+os.Getenv("VERIF_WORK_SUFFIX"))
	args := []string{"build", "-tags", "verif"}
	if race {
		out += "-race"
		args = append(args, "-race")
	}
	if r := os.Getenv("VERIF_REPO"); r != "" && r != "/repo" {
		mf := filepath.Join(verifDir, "work", "modfile"+suffix)
		os.MkdirAll(mf, 0o755)
		gm, err := os.ReadFile(filepath.Join(verifDir, "harness", "go.mod"))
		if err != nil {
			return "", err
		}
		gm = bytes.ReplaceAll(gm, []byte("=> /repo"), []byte("=> "+r))
		os.WriteFile(filepath.Join(mf, "go.mod"), gm, 0o644)
		gs, _ := os.ReadFile(filepath.Join(verifDir, "harness", "go.sum"))
		os.WriteFile(filepath.Join(mf, "go.sum"), gs, 0o644)
		args = append(args, "-modfile="+filepath.Join(mf, "go.mod"))
	}
	args = append(args, "-o", out, "./cmd/w/"+strings.ToLower(prop))
	cmd := exec.Command("go", args...)
	cmd.Dir = filepath.Join(verifDir, "harness")
	cmd.Env = goEnv()
	b, err := cmd.CombinedOutput()
	if err != nil {
		return "", fmt.Errorf("go %v: %v\n%s", args, err, b)
	}
	return out, nil
}

type shardOutcome struct {
	res        []result
	violations []violation
	inconcl    []string
	crashes    int
	raceBlocks []string
}

func tail(path string, n int) string {
	b, err := os.ReadFile(path)
	if err != nil {
		return ""
	}
	if len(b) > n {
		b = b[len(b)-n:]
	}
	return string(b)
}

func head(path string, n int) string {
	b, err := os.ReadFile(path)
	if err != nil {
		return ""
	}
	if len(b) > n {
		b = b[:n]
	}
	return string(b)
}

func lastIntent(path string) (id, sig string) {
	b, err := os.ReadFile(path)
	if err != nil {
		return "", ""
	}
	lines := strings.Split(strings.TrimSpace(string(b)), "\n")
	if len(lines) == 0 || lines[len(lines)-1] == "" {
		return "", ""
	}
	f := strings.SplitN(lines[len(lines)-1], "\t", 2)
	if len(f) == 2 {
		return f[0], f[1]
	}
	return f[0], ""
}

func readResult(path string) (result, bool) {
	var r result
	b, err := os.ReadFile(path)
	if err != nil {
		return r, false
	}
	if json.Unmarshal(b, &r) != nil {
		return r, false
	}
	return r, true
}

// classify a fatal death from the stderr text, to make signatures discriminate
func fatalClass(stderr string) string {
	switch {
	case strings.Contains(stderr, "stack overflow") || strings.Contains(stderr, "goroutine stack exceeds"):
		return "stack-overflow"
	case strings.Contains(stderr, "out of memory") || strings.Contains(stderr, "cannot allocate memory"):
		return "out-of-memory"
	case strings.Contains(stderr, "concurrent map"):
		return "concurrent-map"
	case strings.Contains(stderr, "checkptr"):
		return "checkptr"
	case strings.Contains(stderr, "fatal error:"):
		return "fatal"
	case strings.Contains(stderr, "panic:"):
		return "panic"
	}
	return "died"
}

var raceFrame = regexp.MustCompile(`^\s+(github\.com/tuneinsight/lattigo/v6/[^\s(]+(?:\([^)]*\))?[^\s(]*)\(`)

// parse race logs: return deduplicated signatures -> first block text
func parseRace(dir, prefix string) map[string]string {
	out := map[string]string{}
	files, _ := filepath.Glob(filepath.Join(dir, prefix+"*"))
	for _, f := range files {
		b, err := os.ReadFile(f)
		if err != nil {
			continue
		}
		blocks := strings.Split(string(b), "==================")
		for _, blk := range blocks {
			if !strings.Contains(blk, "WARNING: DATA RACE") {
				continue
			}
			// the first lattigo frame of each of the first two stacks
			var firsts []string
			secs := regexp.MustCompile(`(?m)^(Write|Read|Previous write|Previous read|Goroutine)[^\n]*$`).Split(blk, -1)
			for i, s := range secs {
				if i == 0 || len(firsts) >= 2 {
					continue
				}
				sc := bufio.NewScanner(strings.NewReader(s))
				for sc.Scan() {
					l := sc.Text()
					if strings.Contains(l, "github.com/tuneinsight/lattigo/v6/") && !strings.HasPrefix(l, "      ") {
						fn := strings.TrimSpace(l)
						if i := strings.LastIndex(fn, "("); i > 0 {
							fn = fn[:i]
						}
						fn = strings.TrimPrefix(fn, "github.com/tuneinsight/lattigo/v6/")
						firsts = append(firsts, fn)
						break
					}
				}
			}
			sort.Strings(firsts)
			sig := "race|" + strings.Join(firsts, "|")
			if _, ok := out[sig]; !ok {
				if len(blk) > 3000 {
					blk = blk[:3000]
				}
				out[sig] = blk
			}
		}
	}
	return out
}

func runShard(ctx context.Context, bin string, prop, tier string, seed int64, shard, nshards int, work string, race bool, extraEnv []string) shardOutcome {
	var oc shardOutcome
	tag := fmt.Sprintf("%d", shard)
	if race {
		tag = "r" + tag
	}
	skip := ""
	for attempt := 0; attempt < 40; attempt++ {
		outp := filepath.Join(work, fmt.Sprintf("res_%s_%d.json", tag, attempt))
		intent := filepath.Join(work, fmt.Sprintf("intent_%s_%d.log", tag, attempt))
		stderrp := filepath.Join(work, fmt.Sprintf("stderr_%s_%d.log", tag, attempt))
		args := []string{"-prop", prop, "-tier", tier, "-seed", strconv.FormatInt(seed, 10), "-shard", strconv.Itoa(shard),
			"-nshards", strconv.Itoa(nshards), "-out", outp, "-intent", intent}
		if race {
			args = append(args, "-raceonly")
		} else {
			args = append(args, "-norace")
		}
		if skip != "" {
			args = append(args, "-skipthrough", skip)
		}
		cmd := exec.CommandContext(ctx, bin, args...)
		cmd.Env = append(os.Environ(), extraEnv...)
		if race {
			cmd.Env = append(cmd.Env, "GORACE=halt_on_error=0 exitcode=0 log_path="+filepath.Join(work, "race_"+tag))
		}
		ef, _ := os.Create(stderrp)
		cmd.Stdout = ef
		cmd.Stderr = ef
		err := cmd.Run()
		ef.Close()
		r, ok := readResult(outp)
		if ok {
			oc.res = append(oc.res, r)
		}
		if err == nil && ok && r.Done {
			return oc
		}
		if ctx.Err() != nil {
			id, _ := lastIntent(intent)
			oc.inconcl = append(oc.inconcl, fmt.Sprintf("watchdog expired in shard %s at case %q", tag, id))
			return oc
		}
		// the child died: attribute to the last intent
		id, sig := lastIntent(intent)
		if id == "" {
			oc.inconcl = append(oc.inconcl, fmt.Sprintf("shard %s died before any case: %v: %s", tag, err, tail(stderrp, 400)))
			return oc
		}
		oc.crashes++
		// confirm by running the case alone
		conf := filepath.Join(work, fmt.Sprintf("confirm_%s_%d", tag, attempt))
		cargs := []string{"-prop", prop, "-tier", tier, "-seed", strconv.FormatInt(seed, 10), "-only", id, "-out", conf + ".json", "-intent", conf + ".intent"}
		ccmd := exec.CommandContext(ctx, bin, cargs...)
		ccmd.Env = cmd.Env
		cf, _ := os.Create(conf + ".stderr")
		ccmd.Stdout = cf
		ccmd.Stderr = cf
		cerr := ccmd.Run()
		cf.Close()
		cr, cok := readResult(conf + ".json")
		if cerr == nil && cok && cr.Done {
			// not reproducible alone; keep what the solo run observed
			oc.res = append(oc.res, cr)
			oc.inconcl = append(oc.inconcl, fmt.Sprintf("case %q killed its shard once (%s) but ran to completion alone", id, fatalClass(head(stderrp, 4000))))
		} else if ctx.Err() != nil {
			oc.inconcl = append(oc.inconcl, fmt.Sprintf("watchdog expired while confirming case %q", id))
			return oc
		} else {
			st := head(conf+".stderr", 6000)
			oc.violations = append(oc.violations, violation{Case: id, Signature: sig + "|" + fatalClass(st),
				Detail: "child process died (confirmed by running the case alone): " + firstLines(st, 25)})
		}
		skip = id
	}
	oc.inconcl = append(oc.inconcl, "shard "+tag+": too many child deaths")
	return oc
}

func firstLines(s string, n int) string {
	l := strings.Split(s, "\n")
	if len(l) > n {
		l = l[:n]
	}
	return strings.Join(l, "\n")
}

func loadFindings() []finding {
	var f struct {
		Findings []finding `json:"findings"`
	}
	paths := []string{filepath.Join(verifDir, "known_findings.json")}
	more, _ := filepath.Glob(filepath.Join(verifDir, "known_findings.d", "*.json"))
	paths = append(paths, more...)
	var all []finding
	for _, p := range paths {
		b, err := os.ReadFile(p)
		if err != nil {
			continue
		}
		f.Findings = nil
		if err := json.Unmarshal(b, &f); err != nil {
			fmt.Fprintln(os.Stderr, p+":", err)
			os.Exit(2)
		}
		all = append(all, f.Findings...)
	}
	return all
}

func main() {
	if len(os.Args) < 2 {
		fmt.Fprintln(os.Stderr, "usage: vcheck <property> [--tier quick|thorough] [--replay path] [--shards n]")
		os.Exit(2)
	}
	prop := os.Args[1]
	tier := os.Getenv("VERIF_TIER")
	replay := ""
	nsh := 16
	keepWork := false
	for i := 2; i < len(os.Args); i++ {
		switch os.Args[i] {
		case "--tier":
			i++
			tier = os.Args[i]
		case "--replay":
			i++
			replay = os.Args[i]
		case "--shards":
			i++
			nsh, _ = strconv.Atoi(os.Args[i])
		case "--keep":
			keepWork = true
		}
	}
	if tier != "thorough" {
		tier = "quick"
	}
	seed := int64(1)
	if s := os.Getenv("VERIF_SEED"); s != "" {
		if v, err := strconv.ParseInt(s, 10, 64); err == nil {
			seed = v
		}
	}
	start := time.Now()

	bin, err := build(prop, false)
	if err != nil {
		fmt.Fprintln(os.Stderr, "BUILD FAILED (worker does not compile against /repo's tree):\n", err)
		os.Exit(2)
	}

	if replay != "" {
		os.Exit(doReplay(bin, prop, replay))
	}

	ib, err := exec.Command(bin, "-prop", prop, "-tier", tier, "-seed", strconv.FormatInt(seed, 10), "-info").Output()
	if err != nil {
		fmt.Fprintln(os.Stderr, "worker -info failed:", err)
		os.Exit(2)
	}
	var inf info
	if err := json.Unmarshal(ib, &inf); err != nil {
		fmt.Fprintln(os.Stderr, "worker -info:", err)
		os.Exit(2)
	}
	var rbin string
	if inf.NRace > 0 {
		rbin, err = build(prop, true)
		if err != nil {
			fmt.Fprintln(os.Stderr, "BUILD FAILED (race worker):\n", err)
			os.Exit(2)
		}
	}

	work := filepath.Join(verifDir, "work", prop+"-"+tier+os.Getenv("VERIF_WORK_SUFFIX"))
	os.RemoveAll(work)
	os.MkdirAll(work, 0o755)

	wd := 25 * time.Minute
	if tier == "thorough" {
		wd = 4 * time.Hour
	}
	if s := os.Getenv("VERIF_WATCHDOG_S"); s != "" {
		if v, err := strconv.Atoi(s); err == nil {
			wd = time.Duration(v) * time.Second
		}
	}
	ctx, cancel := context.WithTimeout(context.Background(), wd)
	defer cancel()

	n := nsh
	if inf.NCases < n {
		n = inf.NCases
	}
	nr := 0
	if inf.NRace > 0 {
		nr = 4
		if inf.NRace < nr {
			nr = inf.NRace
		}
	}
	outs := make([]shardOutcome, n+nr)
	var wg sync.WaitGroup
	sem := make(chan struct{}, 16)
	for i := 0; i < n; i++ {
		wg.Add(1)
		go func(i int) {
			defer wg.Done()
			sem <- struct{}{}
			defer func() { <-sem }()
			var extra []string
			if inf.MemLimitMB > 0 {
				extra = []string{fmt.Sprintf("VERIF_RLIMIT_AS_MB=%d", inf.MemLimitMB)}
			}
			outs[i] = runShard(ctx, bin, prop, tier, seed, i, n, work, false, extra)
		}(i)
	}
	for i := 0; i < nr; i++ {
		wg.Add(1)
		go func(i int) {
			defer wg.Done()
			// race shards use many goroutines themselves: take 4 slots each
			for k := 0; k < 4; k++ {
				sem <- struct{}{}
			}
			defer func() {
				for k := 0; k < 4; k++ {
					<-sem
				}
			}()
			outs[n+i] = runShard(ctx, rbin, prop, tier, seed, i, nr, work, true, nil)
		}(i)
	}
	wg.Wait()

	// merge
	total := result{Counters: map[string]int64{}}
	distinct := map[uint64]bool{}
	var viols []violation
	var inconcl []string
	crashes := 0
	for _, oc := range outs {
		for _, r := range oc.res {
			total.Cases += r.Cases
			total.Evaluations += r.Evaluations
			for _, d := range r.Distinct {
				distinct[d] = true
			}
			for k, v := range r.Counters {
				if strings.HasPrefix(k, "max_") {
					if v > total.Counters[k] {
						total.Counters[k] = v
					}
				} else {
					total.Counters[k] += v
				}
			}
			if len(total.Samples) < 6 {
				for _, s := range r.Samples {
					if len(total.Samples) < 6 {
						total.Samples = append(total.Samples, s)
					}
				}
			}
			viols = append(viols, r.Violations...)
			inconcl = append(inconcl, r.Inconclusive...)
		}
		viols = append(viols, oc.violations...)
		inconcl = append(inconcl, oc.inconcl...)
		crashes += oc.crashes
	}
	raceReports := 0
	if nr > 0 {
		rs := parseRace(work, "race_")
		var keys []string
		for k := range rs {
			keys = append(keys, k)
		}
		sort.Strings(keys)
		for _, k := range keys {
			raceReports++
			viols = append(viols, violation{Case: "race-detector", Signature: k, Detail: rs[k]})
		}
		total.Counters["race_reports_distinct"] = int64(raceReports)
	}
	total.Counters["child_deaths_attributed"] = int64(crashes)
	total.Counters["cases"] = int64(total.Cases)
	total.Counters["inconclusive"] = int64(len(inconcl))

	// known findings
	findings := loadFindings()
	known := map[string]finding{}
	for _, f := range findings {
		if f.Property == prop && f.Status == "known" {
			known[f.Signature] = f
		}
	}
	printedKnown := map[string]bool{}
	var unlisted []violation
	knownHits := 0
	for _, v := range viols {
		if f, ok := known[v.Signature]; ok {
			knownHits++
			if !printedKnown[v.Signature] {
				printedKnown[v.Signature] = true
				fmt.Printf("KNOWN-FINDING: property=%s %s [signature %s]\n", prop, f.What, v.Signature)
			}
			continue
		}
		unlisted = append(unlisted, v)
	}

	// witnesses for unlisted violations (one per signature)
	exit := 0
	seenSig := map[string]bool{}
	os.MkdirAll(filepath.Join(verifDir, "witness"), 0o755)
	for _, v := range unlisted {
		if seenSig[v.Signature] {
			continue
		}
		seenSig[v.Signature] = true
		h := sha256.Sum256([]byte(v.Signature + "\x00" + v.Case))
		wp := filepath.Join(verifDir, "witness", fmt.Sprintf("%s-%s.json", prop, hex.EncodeToString(h[:6])))
		wb, _ := json.MarshalIndent(map[string]any{"property": prop, "tier": tier, "seed": seed, "case": v.Case,
			"signature": v.Signature, "detail": v.Detail, "witness": v.Witness}, "", " ")
		os.WriteFile(wp, wb, 0o644)
		fmt.Printf("VIOLATION property=%s replay=%s\n", prop, wp)
		fmt.Printf("  signature: %s\n  case: %s\n  detail: %s\n", v.Signature, v.Case, indent(v.Detail))
		exit = 1
	}
	for _, s := range inconcl {
		fmt.Printf("INCONCLUSIVE-CASE property=%s %s\n", prop, s)
	}

	// evidence
	wall := time.Since(start).Seconds()
	cov := map[string]any{
		"evaluations":         total.Evaluations,
		"distinct_nontrivial": len(distinct),
		"rule":                inf.Rule,
		"samples":             total.Samples,
		"violations_unlisted": len(unlisted),
		"known_finding_hits":  knownHits,
	}
	for k, v := range total.Counters {
		cov[k] = v
	}
	if v, ok := total.Counters["exhaustive_subspaces"]; ok && v > 0 {
		cov["exhaustive_subspaces"] = v
	}
	ev := map[string]any{
		"property_id": prop, "tier": tier, "seed": seed, "level": inf.Level, "coverage": cov,
		"assumptions": inf.Assumptions, "wall_s": float64(int(wall*10)) / 10, "violations": len(seenSig),
	}
	if inf.Assumptions == nil {
		ev["assumptions"] = []string{}
	}
	evb, _ := json.MarshalIndent(ev, "", " ")
	evPath := filepath.Join(verifDir, "evidence", prop+".json")
	if r := os.Getenv("VERIF_REPO"); r != "" && r != "/repo" {
		// mutation check against a scratch copy: never touch the committed evidence
		evPath = filepath.Join(work, "evidence-"+prop+".json")
	} else if d := os.Getenv("VERIF_EVIDENCE_DIR"); d != "" {
		// background sweeps (other seeds / tiers) keep their evidence apart
		evPath = filepath.Join(d, prop+".json")
	}
	os.MkdirAll(filepath.Dir(evPath), 0o755)
	bad := ""
	if total.Evaluations < 1 {
		bad = "no evaluations"
	} else if len(distinct) < 2 {
		bad = "fewer than 2 distinct non-trivial cases"
	} else if len(total.Samples) < 1 {
		bad = "no samples"
	}
	if err := os.WriteFile(evPath, append(evb, '\n'), 0o644); err != nil {
		fmt.Fprintln(os.Stderr, "cannot write evidence:", err)
		os.Exit(2)
	}
	fmt.Printf("%s tier=%s seed=%d cases=%d evaluations=%d distinct_nontrivial=%d violations=%d known_hits=%d inconclusive=%d child_deaths=%d wall=%.1fs\n",
		prop, tier, seed, total.Cases, total.Evaluations, len(distinct), len(seenSig), knownHits, len(inconcl), crashes, wall)
	if exit == 0 && bad != "" {
		fmt.Printf("INCONCLUSIVE property=%s %s\n", prop, bad)
		os.Exit(3)
	}
	if !keepWork && exit == 0 && len(inconcl) == 0 {
		os.RemoveAll(work)
	}
	os.Exit(exit)
}

func indent(s string) string {
	return strings.ReplaceAll(s, "\n", "\n    ")
}

func doReplay(bin, prop, path string) int {
	b, err := os.ReadFile(path)
	if err != nil {
		fmt.Fprintln(os.Stderr, err)
		return 2
	}
	var w struct {
		Tier      string `json:"tier"`
		Seed      int64  `json:"seed"`
		Case      string `json:"case"`
		Signature string `json:"signature"`
	}
	if err := json.Unmarshal(b, &w); err != nil {
		fmt.Fprintln(os.Stderr, err)
		return 2
	}
	if w.Case == "race-detector" {
		fmt.Println("race reports are replayed by re-running the check (schedule dependent)")
		return 2
	}
	dir, _ := os.MkdirTemp(filepath.Join(verifDir, "work"), "replay")
	defer os.RemoveAll(dir)
	out := filepath.Join(dir, "res.json")
	cmd := exec.Command(bin, "-prop", prop, "-tier", w.Tier, "-seed", strconv.FormatInt(w.Seed, 10), "-only", w.Case, "-out", out, "-intent", filepath.Join(dir, "intent"))
	var eb bytes.Buffer
	cmd.Stderr = &eb
	cmd.Stdout = &eb
	err = cmd.Run()
	r, ok := readResult(out)
	if err != nil || !ok || !r.Done {
		fmt.Printf("replay: child died: %v\n%s\n", err, firstLines(eb.String(), 30))
		fmt.Printf("VIOLATION property=%s replay=%s\n", prop, path)
		return 1
	}
	rc := 0
	for _, v := range r.Violations {
		fmt.Printf("replayed violation: signature=%s\n  %s\n", v.Signature, indent(v.Detail))
		if v.Signature == w.Signature {
			rc = 1
		}
	}
	if rc == 1 {
		fmt.Printf("VIOLATION property=%s replay=%s\n", prop, path)
	} else {
		fmt.Println("replay: the recorded violation did not reproduce")
	}
	return rc
}
