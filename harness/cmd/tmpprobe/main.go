package main

import (
	"fmt"
	"math"
	"math/big"

	"github.com/tuneinsight/lattigo/v6/ring"
	"github.com/tuneinsight/lattigo/v6/utils/sampling"
	"verif/harness/gen"
)

func largestBelow(bound, nth uint64) uint64 {
	for x := (bound-1)/nth*nth + 1; x > nth; x -= nth {
		if gen.IsPrime(x) {
			return x
		}
	}
	return 0
}

func main() {
	logN := 8
	N := 1 << logN
	nth := uint64(2 << logN)
	prng, _ := sampling.NewPRNG()
	for _, bound := range []uint64{1 << 61, 1<<61 + 1<<57, math.MaxUint64 / 7, math.MaxUint64 / 6} {
		p := largestBelow(bound, nth)
		q := gen.Primes(55, nth, 3, gen.PosBelow, nil)
		rq, _ := ring.NewRing(N, q)
		rp, _ := ring.NewRing(N, []uint64{p})
		be := ring.NewBasisExtender(rq, rp)
		us := ring.NewUniformSampler(prng, rq)
		up := ring.NewUniformSampler(prng, rp)
		fails := map[string]int{}
		for it := 0; it < 50; it++ {
			a := us.ReadNew()
			// ModUpQtoP
			ap := rp.NewPoly()
			be.ModUpQtoP(2, 0, a, ap)
			big1 := make([]*big.Int, N)
			for i := range big1 {
				big1[i] = new(big.Int)
			}
			rq.PolyToBigintCentered(a, 1, big1)
			pb := new(big.Int).SetUint64(p)
			for i := 0; i < N; i++ {
				w := new(big.Int).Mod(big1[i], pb).Uint64()
				if ap.Coeffs[0][i]%p != w {
					fails["ModUpQtoP"]++
					break
				}
			}
			// NTT roundtrip on P
			b := up.ReadNew()
			c := rp.NewPoly()
			rp.NTT(b, c)
			rp.INTT(c, c)
			if !c.Equal(&b) {
				fails["NTT-P"]++
			}
			// lazy mul acc
			x, y := up.ReadNew(), up.ReadNew()
			rp.MForm(y, y)
			acc := rp.NewPoly()
			rp.MulCoeffsMontgomeryLazy(x, y, acc)
			rp.MulCoeffsMontgomeryLazyThenAddLazy(x, y, acc)
			rp.MulCoeffsMontgomeryLazyThenAddLazy(x, y, acc)
			rp.Reduce(acc, acc)
			ex := rp.NewPoly()
			rp.MulCoeffsMontgomery(x, y, ex)
			rp.MulScalar(ex, 3, ex)
			if !ex.Equal(&acc) {
				fails["lazyacc3"]++
			}
			// ModDown
			aq := us.ReadNew()
			apq := up.ReadNew()
			out := rq.NewPoly()
			be.ModDownQPtoQ(2, 0, aq, apq, out)
			// exact: (X - (X mod P centered)) / P where X = crt(aq, apq)
			mods := append(append([]uint64{}, q...), p)
			_ = mods
			// check per limb: out*P + apc == aq mod qi where apc is centered apq (rounding) -> allow both floor/round conventions
			okAll := true
			for l, qi := range q {
				for i := 0; i < N && okAll; i++ {
					pm := p % qi
					lhs := new(big.Int).Mul(new(big.Int).SetUint64(out.Coeffs[l][i]), new(big.Int).SetUint64(pm))
					found := false
					for _, apc := range []*big.Int{new(big.Int).SetUint64(apq.Coeffs[0][i]), new(big.Int).Sub(new(big.Int).SetUint64(apq.Coeffs[0][i]), pb)} {
						t := new(big.Int).Add(lhs, apc)
						t.Sub(t, new(big.Int).SetUint64(aq.Coeffs[l][i]))
						t.Mod(t, new(big.Int).SetUint64(qi))
						if t.Sign() == 0 {
							found = true
						}
					}
					if !found || out.Coeffs[l][i] >= qi {
						okAll = false
					}
				}
			}
			if !okAll {
				fails["ModDownQPtoQ"]++
			}
			// ModDownNTT
			aqn, apn := rq.NewPoly(), rp.NewPoly()
			rq.NTT(aq, aqn)
			rp.NTT(apq, apn)
			out2 := rq.NewPoly()
			be.ModDownQPtoQNTT(2, 0, aqn, apn, out2)
			rq.INTT(out2, out2)
			if !out2.Equal(&out) {
				fails["ModDownQPtoQNTT-vs-coef"]++
			}
		}
		fmt.Printf("p=%d 2^64/p=%.3f fails=%v\n", p, math.Pow(2, 64)/float64(p), fails)
	}
}
