package c09

import (
	"math/big"
	"strings"

	"github.com/tuneinsight/lattigo/v6/core/rlwe"
	"github.com/tuneinsight/lattigo/v6/ring"
	"github.com/tuneinsight/lattigo/v6/schemes/bgv"

	"verif/harness/eng"
)

// pcfg is one parameter set (JSON-able: it is part of the case descriptor).
type pcfg struct {
	Scheme   string   `json:"scheme"` // bgv | bfv | ckks | rlwe
	Ring     string   `json:"ring,omitempty"`
	LogN     int      `json:"logN"`
	Q        []uint64 `json:"q"`
	P        []uint64 `json:"p"`
	T        uint64   `json:"t,omitempty"`
	LogScale int      `json:"logScale,omitempty"`
	Pow2     int      `json:"pow2,omitempty"`
	NTT      bool     `json:"ntt,omitempty"`
	Name     string   `json:"name"`
	// EvkNoP: the evaluation keys are generated at LevelP = -1 although the parameters have an auxiliary modulus
	EvkNoP bool `json:"evkNoP,omitempty"`
}

// evkParams returns the evaluation-key parameterisation of a parameter set (nil: the default one).
func (p pcfg) evkParams() []rlwe.EvaluationKeyParameters {
	if p.Pow2 == 0 && !p.EvkNoP {
		return nil
	}
	ep := rlwe.EvaluationKeyParameters{}
	if p.Pow2 > 0 {
		pw := p.Pow2
		ep.BaseTwoDecomposition = &pw
	}
	if p.EvkNoP {
		m := -1
		ep.LevelP = &m
	}
	return []rlwe.EvaluationKeyParameters{ep}
}

func (p pcfg) tag() string { return p.Name }

type bgvEnv struct {
	cfg   pcfg
	p     bgv.Parameters
	kgen  *rlwe.KeyGenerator
	sk    *rlwe.SecretKey
	sk2   *rlwe.SecretKey
	pk    *rlwe.PublicKey
	evk   *rlwe.MemEvaluationKeySet
	swk   *rlwe.EvaluationKey // sk -> sk2
	enc   *rlwe.Encryptor
	dec   *rlwe.Decryptor
	ecd   *bgv.Encoder
	inv   bool // scale-invariant (BFV) evaluator
	rots  []int
	rnd   *eng.Rand
	evkPs []rlwe.EvaluationKeyParameters
	fixed map[int]*rlwe.Ciphertext
}

func newBGVEnv(cfg pcfg, r *eng.Rand) (*bgvEnv, error) {
	p, err := bgv.NewParametersFromLiteral(bgv.ParametersLiteral{LogN: cfg.LogN, Q: cfg.Q, P: cfg.P, PlaintextModulus: cfg.T})
	if err != nil {
		return nil, err
	}
	e := &bgvEnv{cfg: cfg, p: p, inv: cfg.Scheme == "bfv", rnd: r}
	e.kgen = rlwe.NewKeyGenerator(p)
	e.sk, e.pk = e.kgen.GenKeyPairNew()
	e.sk2 = e.kgen.GenSecretKeyNew()
	e.evkPs = cfg.evkParams()
	rlk := e.kgen.GenRelinearizationKeyNew(e.sk, e.evkPs...)
	e.rots = []int{1, 2, 3, 4, 5, 8, 16, -1, -2}
	galEls := p.GaloisElements(e.rots)
	galEls = append(galEls, p.GaloisElementForRowRotation())
	galEls = append(galEls, p.GaloisElementsForInnerSum(1, p.MaxSlots()>>1)...)
	galEls = append(galEls, p.GaloisElementsForInnerSum(2, 3)...)
	galEls = append(galEls, p.GaloisElementsForInnerSum(2, 4)...)
	galEls = append(galEls, p.GaloisElementsForReplicate(2, 3)...)
	seen := map[uint64]bool{}
	var gks []*rlwe.GaloisKey
	for _, g := range galEls {
		if !seen[g] && g != 1 {
			seen[g] = true
			gks = append(gks, e.kgen.GenGaloisKeyNew(g, e.sk, e.evkPs...))
		}
	}
	e.evk = rlwe.NewMemEvaluationKeySet(rlk, gks...)
	e.swk = e.kgen.GenEvaluationKeyNew(e.sk, e.sk2, e.evkPs...)
	e.enc = rlwe.NewEncryptor(p, e.sk)
	e.dec = rlwe.NewDecryptor(p, e.sk)
	e.ecd = bgv.NewEncoder(p)
	return e, nil
}

func (e *bgvEnv) vals() []uint64 {
	v := make([]uint64, e.p.MaxSlots())
	for i := range v {
		v[i] = e.rnd.U64() % e.p.PlaintextModulus()
	}
	return v
}

func (e *bgvEnv) pt(level int, scale uint64) *rlwe.Plaintext {
	pt := bgv.NewPlaintext(e.p, level)
	pt.Scale = e.p.NewScale(scale)
	if err := e.ecd.Encode(e.vals(), pt); err != nil {
		panic(err)
	}
	return pt
}

func (e *bgvEnv) ct(level int, scale uint64, deg int) *rlwe.Ciphertext {
	if deg == 2 {
		ev := bgv.NewEvaluator(e.p, e.evk)
		x, y := e.ct(level, scale, 1), e.ct(level, 1, 1)
		out := bgv.NewCiphertext(e.p, 2, level)
		if err := ev.Mul(x, y, out); err != nil {
			panic(err)
		}
		return out
	}
	ct, err := e.enc.EncryptNew(e.pt(level, scale))
	if err != nil {
		panic(err)
	}
	return ct
}

func (e *bgvEnv) scheme() *scheme[*bgv.Evaluator] {
	name := "bgv"
	if e.inv {
		name = "bfv"
	}
	return &scheme[*bgv.Evaluator]{
		name:    name,
		rq:      e.p.RingQ(),
		maxLvl:  e.p.MaxLevel(),
		newEval: func() *bgv.Evaluator { return bgv.NewEvaluator(e.p, e.evk, e.inv) },
		poison:  func(p *poisoner, ev *bgv.Evaluator) { p.bgvEval(ev) },
		warm: func(ev *bgv.Evaluator) {
			x, y := e.ct(e.p.MaxLevel(), 1, 1), e.ct(e.p.MaxLevel(), 5, 1)
			o := bgv.NewCiphertext(e.p, 2, e.p.MaxLevel())
			eng.Panics(func() { _ = ev.Mul(x, y, o) })
			eng.Panics(func() { _ = ev.MulRelin(x, y, o) })
			eng.Panics(func() { _ = ev.Add(x, y, o) })
			eng.Panics(func() { _ = ev.RotateColumns(x, 1, o) })
			eng.Panics(func() { _ = ev.Add(x, e.vals(), o) })
		},
		newCt: func(deg, lvl int) *rlwe.Ciphertext { return bgv.NewCiphertext(e.p, deg, lvl) },
		dirty: func(r *eng.Rand, deg int) *rlwe.Ciphertext {
			ct := bgv.NewCiphertext(e.p, deg, e.p.MaxLevel())
			fillResidues(e.p.RingQ(), ct, r)
			ct.Scale = e.p.NewScale(7)
			ct.LogDimensions = ring.Dimensions{Rows: 0, Cols: 2}
			ct.IsBatched = false
			return ct
		},
		derived: []derivedEval[*bgv.Evaluator]{
			{name: "shallowcopy", mk: func(p *poisoner) *bgv.Evaluator {
				parent := bgv.NewEvaluator(e.p, e.evk, e.inv)
				p.bgvEval(parent)
				child := parent.ShallowCopy()
				p.bgvEval(parent) // the parent keeps being used: nothing of it may reach the copy
				return child
			}},
			{name: "withkey", mk: func(p *poisoner) *bgv.Evaluator {
				// WithKey shares the (used) buffers of its receiver and rebuilds the key-dependent tables
				parent := bgv.NewEvaluator(e.p, nil, e.inv)
				p.bgvEval(parent)
				return parent.WithKey(e.evkClone())
			}},
		},
	}
}

// evkClone returns a distinct evaluation-key set object holding the same keys.
func (e *bgvEnv) evkClone() *rlwe.MemEvaluationKeySet { return cloneKeySet(e.evk) }

func cloneKeySet(evk *rlwe.MemEvaluationKeySet) *rlwe.MemEvaluationKeySet {
	var gks []*rlwe.GaloisKey
	for _, g := range evk.GetGaloisKeysList() {
		k, _ := evk.GetGaloisKey(g)
		gks = append(gks, k)
	}
	return rlwe.NewMemEvaluationKeySet(evk.RelinearizationKey, gks...)
}

func fillResidues(rq *ring.Ring, ct *rlwe.Ciphertext, r *eng.Rand) {
	s := r.U64() | 1
	for i := range ct.Value {
		for j, row := range ct.Value[i].Coeffs {
			q := rq.SubRings[j].Modulus
			for k := range row {
				s ^= s << 13
				s ^= s >> 7
				s ^= s << 17
				row[k] = s % q
			}
		}
	}
}

func (e *bgvEnv) operands(level int, scale uint64) []opnd {
	t := e.p.PlaintextModulus()
	ct1, ct2, pt := e.ct(level, scale, 1), e.ct(level, scale, 2), e.pt(level, scale)
	vu := e.vals()
	vi := make([]int64, len(vu))
	for i := range vi {
		vi[i] = int64(vu[i]) - int64(t/2)
	}
	bi := new(big.Int).SetUint64(e.rnd.U64())
	bi.Lsh(bi, 70).Add(bi, big.NewInt(12345))
	if e.rnd.Bool() {
		bi.Neg(bi)
	}
	u := e.rnd.U64()%(t-3) + 2
	return []opnd{
		{kind: "ct1", class: "ct", ptrish: true, mk: func() rlwe.Operand { return ct1.CopyNew() }},
		{kind: "ct2", class: "ct", ptrish: true, mk: func() rlwe.Operand { return ct2.CopyNew() }},
		{kind: "pt", class: "pt", ptrish: true, mk: func() rlwe.Operand { return pt.CopyNew() }},
		{kind: "*big.Int", class: "scalar", ptrish: true, mk: func() rlwe.Operand { return new(big.Int).Set(bi) }},
		{kind: "*big.Int", class: "scalar", ptrish: true, mk: func() rlwe.Operand { return new(big.Int).SetUint64(3) }},
		{kind: "uint64", class: "scalar", mk: func() rlwe.Operand { return u }},
		{kind: "int64", class: "scalar", mk: func() rlwe.Operand { return -int64(u) }},
		{kind: "int", class: "scalar", mk: func() rlwe.Operand { return int(u) }},
		{kind: "[]uint64", class: "vector", ptrish: true, mk: func() rlwe.Operand { return append([]uint64(nil), vu...) }},
		{kind: "[]int64", class: "vector", ptrish: true, mk: func() rlwe.Operand { return append([]int64(nil), vi...) }},
		// boundary values of every scalar kind, vectors shorter than the slot count, unreduced entries
		{kind: "uint64", sub: "zero", class: "scalar", mk: func() rlwe.Operand { return uint64(0) }},
		{kind: "uint64", sub: "one", class: "scalar", mk: func() rlwe.Operand { return uint64(1) }},
		{kind: "uint64", sub: "t-1", class: "scalar", mk: func() rlwe.Operand { return t - 1 }},
		{kind: "uint64", sub: "max", class: "scalar", mk: func() rlwe.Operand { return ^uint64(0) }},
		{kind: "int64", sub: "minus-one", class: "scalar", mk: func() rlwe.Operand { return int64(-1) }},
		{kind: "int64", sub: "min", class: "scalar", mk: func() rlwe.Operand { return int64(-1 << 63) }},
		{kind: "int", sub: "zero", class: "scalar", mk: func() rlwe.Operand { return int(0) }},
		{kind: "int", sub: "min", class: "scalar", mk: func() rlwe.Operand { return int(-1 << 63) }},
		{kind: "*big.Int", sub: "zero", class: "scalar", ptrish: true, mk: func() rlwe.Operand { return new(big.Int) }},
		{kind: "*big.Int", sub: "minus-one", class: "scalar", ptrish: true, mk: func() rlwe.Operand { return big.NewInt(-1) }},
		{kind: "*big.Int", sub: "t", class: "scalar", ptrish: true, mk: func() rlwe.Operand { return new(big.Int).SetUint64(t) }},
		{kind: "*big.Int", sub: "neg-huge", class: "scalar", ptrish: true, mk: func() rlwe.Operand {
			return new(big.Int).Neg(new(big.Int).Lsh(big.NewInt(0x7654321), 300))
		}},
		{kind: "[]uint64", sub: "len3", class: "vector", ptrish: true, mk: func() rlwe.Operand { return append([]uint64(nil), vu[:3]...) }},
		{kind: "[]uint64", sub: "len1", class: "vector", ptrish: true, mk: func() rlwe.Operand { return []uint64{vu[0]} }},
		{kind: "[]uint64", sub: "unreduced", class: "vector", ptrish: true, mk: func() rlwe.Operand {
			o := append([]uint64(nil), vu...)
			for i := range o {
				o[i] = ^uint64(0) - o[i]
			}
			return o
		}},
		{kind: "[]int64", sub: "min", class: "vector", ptrish: true, mk: func() rlwe.Operand {
			o := append([]int64(nil), vi[:len(vi)/2]...)
			for i := range o {
				if i&1 == 0 {
					o[i] = -1 << 63
				} else {
					o[i] = 1<<63 - 1
				}
			}
			return o
		}},
		{kind: "[]int64", sub: "zeros", class: "vector", ptrish: true, mk: func() rlwe.Operand { return make([]int64, len(vi)) }},
	}
}

func maxi(a, b int) int {
	if a > b {
		return a
	}
	return b
}

var bgvBinary = []brow[*bgv.Evaluator]{
	{api: "bgv.Evaluator.Add", outDeg: maxi, call: func(ev *bgv.Evaluator, a *rlwe.Ciphertext, b rlwe.Operand, o *rlwe.Ciphertext) error {
		return ev.Add(a, b, o)
	}},
	{api: "bgv.Evaluator.Sub", outDeg: maxi, call: func(ev *bgv.Evaluator, a *rlwe.Ciphertext, b rlwe.Operand, o *rlwe.Ciphertext) error {
		return ev.Sub(a, b, o)
	}},
	{api: "bgv.Evaluator.Mul", outDeg: func(a, b int) int { return a + b }, call: func(ev *bgv.Evaluator, a *rlwe.Ciphertext, b rlwe.Operand, o *rlwe.Ciphertext) error {
		return ev.Mul(a, b, o)
	}},
	{api: "bgv.Evaluator.MulRelin", outDeg: func(a, b int) int { return 1 }, call: func(ev *bgv.Evaluator, a *rlwe.Ciphertext, b rlwe.Operand, o *rlwe.Ciphertext) error {
		return ev.MulRelin(a, b, o)
	}},
	{api: "bgv.Evaluator.MulScaleInvariant", outDeg: func(a, b int) int { return a + b }, call: func(ev *bgv.Evaluator, a *rlwe.Ciphertext, b rlwe.Operand, o *rlwe.Ciphertext) error {
		return ev.MulScaleInvariant(a, b, o)
	}},
	{api: "bgv.Evaluator.MulRelinScaleInvariant", outDeg: func(a, b int) int { return 1 }, call: func(ev *bgv.Evaluator, a *rlwe.Ciphertext, b rlwe.Operand, o *rlwe.Ciphertext) error {
		return ev.MulRelinScaleInvariant(a, b, o)
	}},
	{api: "bgv.Evaluator.MulThenAdd", accum: true, call: func(ev *bgv.Evaluator, a *rlwe.Ciphertext, b rlwe.Operand, o *rlwe.Ciphertext) error {
		return ev.MulThenAdd(a, b, o)
	}},
	{api: "bgv.Evaluator.MulRelinThenAdd", accum: true, call: func(ev *bgv.Evaluator, a *rlwe.Ciphertext, b rlwe.Operand, o *rlwe.Ciphertext) error {
		return ev.MulRelinThenAdd(a, b, o)
	}},
}

func bgvRowNames() (n []string) {
	for _, r := range bgvBinary {
		n = append(n, r.api)
	}
	return
}

// runBGVBinary: one case = one method of one parameter set.
func runBGVBinary(c *eng.Ctx, cfg pcfg, api string) {
	e, err := newBGVEnv(cfg, c.Rand())
	if err != nil {
		c.Inconclusive("parameters rejected: " + err.Error())
		return
	}
	t := &T{c: c, tag: cfg.tag()}
	s := e.scheme()
	var row brow[*bgv.Evaluator]
	for _, r := range bgvBinary {
		if r.api == api {
			row = r
		}
	}
	L := e.p.MaxLevel()
	c.Sample(map[string]any{"params": cfg, "method": row.api, "patterns": "fresh,out=op0,out=op1,op0=op1,op0=op1=out,hist-poison0..2,hist-warm,hist-out"})
	type variant struct {
		name     string
		la, lb   int
		sa, sb   uint64
		da       int
		accLvl   int
		accScale uint64
		accDeg   int
		onlyCt   bool
		withSame bool
	}
	vs := []variant{
		{name: "eq", la: L, lb: L, sa: 1, sb: 1, da: 1, accLvl: L, accScale: 1, accDeg: 1, withSame: true},
		{name: "lvl-a>b", la: L, lb: L - 1, sa: 1, sb: 1, da: 1, accLvl: L, accScale: 1, accDeg: 2},
		{name: "lvl-a<b", la: L - 1, lb: L, sa: 1, sb: 1, da: 1, accLvl: L - 1, accScale: 1, accDeg: 1},
		{name: "scale-ne", la: L, lb: L, sa: 1, sb: 3, da: 1, accLvl: L, accScale: 5, accDeg: 1, withSame: true},
		{name: "scale-ne/lvl-a>b", la: L, lb: L - 1, sa: 3, sb: 1, da: 1, accLvl: L - 1, accScale: 1, accDeg: 2, onlyCt: true},
		{name: "deg-a2", la: L, lb: L, sa: 1, sb: 1, da: 2, accLvl: L, accScale: 1, accDeg: 2, onlyCt: true},
		{name: "deg-a2/scale-ne", la: L, lb: L, sa: 1, sb: 3, da: 2, accLvl: L, accScale: 1, accDeg: 2, onlyCt: true},
		// the single-modulus level
		{name: "lvl0", la: 0, lb: 0, sa: 1, sb: 3, da: 1, accLvl: 0, accScale: 1, accDeg: 1, withSame: true},
	}
	for _, v := range vs {
		a := e.ct(v.la, v.sa, v.da)
		var acc *rlwe.Ciphertext
		if row.accum {
			acc = e.ct(v.accLvl, v.accScale, v.accDeg)
		}
		for _, b := range e.operands(v.lb, v.sb) {
			if v.onlyCt && b.class != "ct" && b.class != "pt" {
				continue
			}
			vn := v.name
			if b.sub != "" {
				// boundary values: once per method, at the top level
				if v.name != "eq" {
					continue
				}
				vn += "/x:" + b.sub
				c.Count("boundary_operand_rows", 1)
			}
			ws := v.withSame && b.kind == "ct1" && b.sub == ""
			runBinary(t, s, row, vn, a, b, acc, ws)
		}
	}
}

type bgvUnary struct {
	name string
	deg  int // degree of the input
	row  func(e *bgvEnv) urow[*bgv.Evaluator]
}

func same1(d int) int { return d }

var bgvUnaries = []bgvUnary{
	{name: "bgv.Evaluator.Rescale", deg: 1, row: func(e *bgvEnv) urow[*bgv.Evaluator] {
		return urow[*bgv.Evaluator]{outDeg: same1, outLvl: func(l int) int { return l - 1 }, call: func(ev *bgv.Evaluator, in, out *rlwe.Ciphertext) error { return ev.Rescale(in, out) }}
	}},
	{name: "bgv.Evaluator.Rescale/deg2", deg: 2, row: func(e *bgvEnv) urow[*bgv.Evaluator] {
		return urow[*bgv.Evaluator]{outDeg: same1, outLvl: func(l int) int { return l - 1 }, call: func(ev *bgv.Evaluator, in, out *rlwe.Ciphertext) error { return ev.Rescale(in, out) }}
	}},
	{name: "bgv.Evaluator.Relinearize", deg: 2, row: func(e *bgvEnv) urow[*bgv.Evaluator] {
		return urow[*bgv.Evaluator]{outDeg: func(int) int { return 1 }, call: func(ev *bgv.Evaluator, in, out *rlwe.Ciphertext) error { return ev.Relinearize(in, out) }}
	}},
	{name: "bgv.Evaluator.RotateColumns", deg: 1, row: func(e *bgvEnv) urow[*bgv.Evaluator] {
		return urow[*bgv.Evaluator]{outDeg: same1, call: func(ev *bgv.Evaluator, in, out *rlwe.Ciphertext) error { return ev.RotateColumns(in, 3, out) }}
	}},
	{name: "bgv.Evaluator.RotateColumns/k0", deg: 1, row: func(e *bgvEnv) urow[*bgv.Evaluator] {
		return urow[*bgv.Evaluator]{outDeg: same1, call: func(ev *bgv.Evaluator, in, out *rlwe.Ciphertext) error { return ev.RotateColumns(in, 0, out) }}
	}},
	{name: "bgv.Evaluator.RotateRows", deg: 1, row: func(e *bgvEnv) urow[*bgv.Evaluator] {
		return urow[*bgv.Evaluator]{outDeg: same1, call: func(ev *bgv.Evaluator, in, out *rlwe.Ciphertext) error { return ev.RotateRows(in, out) }}
	}},
	{name: "bgv.Evaluator.InnerSum", deg: 1, row: func(e *bgvEnv) urow[*bgv.Evaluator] {
		return urow[*bgv.Evaluator]{outDeg: same1, call: func(ev *bgv.Evaluator, in, out *rlwe.Ciphertext) error { return ev.InnerSum(in, 2, 4, out) }}
	}},
	{name: "bgv.Evaluator.InnerSum/full", deg: 1, row: func(e *bgvEnv) urow[*bgv.Evaluator] {
		return urow[*bgv.Evaluator]{outDeg: same1, call: func(ev *bgv.Evaluator, in, out *rlwe.Ciphertext) error {
			return ev.InnerSum(in, 1, e.p.MaxSlots(), out)
		}}
	}},
	{name: "bgv.Evaluator.InnerSum/n1", deg: 1, row: func(e *bgvEnv) urow[*bgv.Evaluator] {
		return urow[*bgv.Evaluator]{outDeg: same1, call: func(ev *bgv.Evaluator, in, out *rlwe.Ciphertext) error {
			return ev.InnerSum(in, e.p.MaxSlots(), 1, out)
		}}
	}},
	{name: "bgv.Evaluator.RotateAndAdd", deg: 1, row: func(e *bgvEnv) urow[*bgv.Evaluator] {
		return urow[*bgv.Evaluator]{outDeg: same1, call: func(ev *bgv.Evaluator, in, out *rlwe.Ciphertext) error { return ev.RotateAndAdd(in, 2, 3, out) }}
	}},
	{name: "bgv.Evaluator.Replicate", deg: 1, row: func(e *bgvEnv) urow[*bgv.Evaluator] {
		return urow[*bgv.Evaluator]{outDeg: same1, call: func(ev *bgv.Evaluator, in, out *rlwe.Ciphertext) error { return ev.Replicate(in, 2, 3, out) }}
	}},
	{name: "bgv.Evaluator.ApplyEvaluationKey", deg: 1, row: func(e *bgvEnv) urow[*bgv.Evaluator] {
		return urow[*bgv.Evaluator]{outDeg: same1, call: func(ev *bgv.Evaluator, in, out *rlwe.Ciphertext) error { return ev.ApplyEvaluationKey(in, e.swk, out) }}
	}},
}

func bgvUnaryNames() (n []string) {
	for _, r := range bgvUnaries {
		n = append(n, r.name)
	}
	return
}

func apiOf(name string) string {
	if i := strings.IndexByte(name, '/'); i >= 0 {
		return name[:i]
	}
	return name
}

func runBGVUnary(c *eng.Ctx, cfg pcfg, name string) {
	e, err := newBGVEnv(cfg, c.Rand())
	if err != nil {
		c.Inconclusive("parameters rejected: " + err.Error())
		return
	}
	t := &T{c: c, tag: cfg.tag()}
	s := e.scheme()
	var u bgvUnary
	for _, r := range bgvUnaries {
		if r.name == name {
			u = r
		}
	}
	row := u.row(e)
	row.api = apiOf(name)
	L := e.p.MaxLevel()
	c.Sample(map[string]any{"params": cfg, "method": name, "patterns": "fresh,out=in,hist-poison0..2,hist-warm,hist-out"})
	extra := []named{{"evk", e.evk}, {"swk", e.swk}}
	for _, v := range []struct {
		name  string
		lvl   int
		scale uint64
	}{{"top", L, 1}, {"lvl-1", L - 1, 3}, {"lvl1", 1, 1}, {"lvl0", 0, 5}} {
		if e.inv && row.api == "bgv.Evaluator.Rescale" {
			// documented: Rescale is a nop for a scale-invariant (BFV) evaluator
			c.Count("skipped_bfv_rescale_nop", 1)
			continue
		}
		if row.outLvl != nil && row.outLvl(v.lvl) < 0 {
			continue // no level left to consume
		}
		a := e.ct(v.lvl, v.scale, u.deg)
		sub := ""
		if i := strings.IndexByte(name, '/'); i >= 0 {
			sub = name[i:]
		}
		runUnary(t, s, row, sub, v.name, a, extra)
	}
}
