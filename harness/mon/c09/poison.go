package c09

// Adversarial residue for scratch buffers. A correct operation writes a scratch buffer before it
// reads it, so filling every scratch buffer of an evaluator / encoder / encryptor with garbage
// (all-ones words, random 64-bit words, huge big.Int / big.Float values) cannot change the result
// of a correct operation.

import (
	"math/big"
	"reflect"
	"strings"
	"unsafe"

	"github.com/tuneinsight/lattigo/v6/core/rlwe"
	"github.com/tuneinsight/lattigo/v6/ring"
	"github.com/tuneinsight/lattigo/v6/ring/ringqp"
	"github.com/tuneinsight/lattigo/v6/schemes/bgv"
	"github.com/tuneinsight/lattigo/v6/schemes/ckks"

	"verif/harness/eng"
)

type poisoner struct {
	s    uint64
	mode int // 0: all ones, 1: random words, 2: alternate
	n    int64
}

func newPoisoner(r *eng.Rand, mode int) *poisoner { return &poisoner{s: r.U64() | 1, mode: mode} }

func (p *poisoner) next() uint64 {
	p.s ^= p.s << 13
	p.s ^= p.s >> 7
	p.s ^= p.s << 17
	return p.s
}

func (p *poisoner) words(v []uint64) {
	p.n += int64(len(v))
	switch p.mode {
	case 0:
		for i := range v {
			v[i] = ^uint64(0)
		}
	case 1:
		for i := range v {
			v[i] = p.next()
		}
	default:
		for i := range v {
			if i&1 == 0 {
				v[i] = ^uint64(0)
			} else {
				v[i] = p.next()
			}
		}
	}
}

func (p *poisoner) poly(pol ring.Poly) {
	for i := range pol.Coeffs {
		p.words(pol.Coeffs[i])
	}
}

func (p *poisoner) polyQP(pol ringqp.Poly) {
	p.poly(pol.Q)
	p.poly(pol.P)
}

// value fills everything reachable from v: []uint64, *big.Int, *big.Float, complex128, float64.
func (p *poisoner) value(v reflect.Value, depth int) {
	if depth > 12 || !v.IsValid() {
		return
	}
	v = rw(v)
	switch v.Type() {
	case tBigInt:
		if v.CanAddr() {
			b := (*big.Int)(unsafe.Pointer(v.UnsafeAddr()))
			b.SetUint64(p.next())
			b.Lsh(b, 700)
			b.Add(b, new(big.Int).SetUint64(p.next()))
			if p.next()&1 == 1 {
				b.Neg(b)
			}
			p.n++
		}
		return
	case tBigFloat:
		if v.CanAddr() {
			f := (*big.Float)(unsafe.Pointer(v.UnsafeAddr()))
			prec := f.Prec()
			if prec == 0 {
				prec = 128
			}
			// (SetMantExp copies the precision of its argument: go through Set to keep f's precision)
			f.SetPrec(prec).Set(new(big.Float).SetMantExp(new(big.Float).SetUint64(p.next()|1), 400))
			p.n++
		}
		return
	}
	switch v.Kind() {
	case reflect.Ptr, reflect.Interface:
		if !v.IsNil() {
			p.value(v.Elem(), depth+1)
		}
	case reflect.Struct:
		for i := 0; i < v.NumField(); i++ {
			p.value(v.Field(i), depth+1)
		}
	case reflect.Slice:
		if v.IsNil() || v.Len() == 0 {
			return
		}
		switch v.Type().Elem().Kind() {
		case reflect.Uint64:
			p.words(unsafe.Slice((*uint64)(unsafe.Pointer(v.Pointer())), v.Len()))
		case reflect.Complex128:
			c := unsafe.Slice((*complex128)(unsafe.Pointer(v.Pointer())), v.Len())
			for i := range c {
				c[i] = complex(1e300, -1e300)
			}
			p.n += int64(len(c))
		case reflect.Float64:
			c := unsafe.Slice((*float64)(unsafe.Pointer(v.Pointer())), v.Len())
			for i := range c {
				c[i] = 1e300
			}
			p.n += int64(len(c))
		default:
			for i := 0; i < v.Len(); i++ {
				p.value(v.Index(i), depth+1)
			}
		}
	case reflect.Array:
		for i := 0; i < v.Len(); i++ {
			p.value(v.Index(i), depth+1)
		}
	}
}

// fields poisons the named (possibly unexported) fields of the struct that obj points to. A name
// may be a dotted path ("evaluatorBuffers.buffQMul"); pointers and embedded structs are followed.
func (p *poisoner) fields(obj any, names ...string) {
	root := reflect.ValueOf(obj)
	for _, name := range names {
		v := root
		ok := true
		for _, part := range strings.Split(name, ".") {
			for v.IsValid() && (v.Kind() == reflect.Ptr || v.Kind() == reflect.Interface) {
				if v.IsNil() {
					ok = false
					break
				}
				v = v.Elem()
			}
			if !ok || !v.IsValid() || v.Kind() != reflect.Struct {
				ok = false
				break
			}
			v = rw(v)
			f := v.FieldByName(part)
			if !f.IsValid() {
				panic("c09: poison: no field " + part + " in " + v.Type().String())
			}
			v = f
		}
		if ok {
			p.value(v, 0)
		}
	}
}

func (p *poisoner) rlweEval(ev *rlwe.Evaluator) {
	if ev == nil {
		return
	}
	b := ev.EvaluatorBuffers
	if b != nil {
		if b.BuffCt != nil {
			for i := range b.BuffCt.Value {
				p.poly(b.BuffCt.Value[i])
			}
		}
		for i := range b.BuffQP {
			p.polyQP(b.BuffQP[i])
		}
		p.poly(b.BuffInvNTT)
		for i := range b.BuffDecompQP {
			p.polyQP(b.BuffDecompQP[i])
		}
		p.words(b.BuffBitDecomp)
	}
	if ev.BasisExtender != nil {
		p.fields(ev.BasisExtender, "buffQ", "buffP")
	}
}

func (p *poisoner) bgvEncoder(ecd *bgv.Encoder) {
	p.fields(ecd, "bufQ", "bufT", "bufB")
}

func (p *poisoner) ckksEncoder(ecd *ckks.Encoder) {
	p.fields(ecd, "buff", "buffCmplx", "bigintCoeffs")
}

func (p *poisoner) bgvEval(ev *bgv.Evaluator) {
	p.fields(ev, "evaluatorBuffers.buffQ", "evaluatorBuffers.buffQMul", "evaluatorBase.basisExtenderQ1toQ2.buffQ", "evaluatorBase.basisExtenderQ1toQ2.buffP")
	p.bgvEncoder(ev.Encoder)
	p.rlweEval(ev.Evaluator)
}

func (p *poisoner) ckksEval(ev *ckks.Evaluator) {
	p.fields(ev, "evaluatorBuffers.buffQ")
	p.ckksEncoder(ev.Encoder)
	p.rlweEval(ev.Evaluator)
}

func (p *poisoner) encryptor(enc *rlwe.Encryptor) {
	p.fields(enc, "encryptorBuffers")
	p.fields(enc, "basisextender.buffQ", "basisextender.buffP")
}

func (p *poisoner) decryptor(dec *rlwe.Decryptor) { p.fields(dec, "buff") }

func (p *poisoner) keygen(kg *rlwe.KeyGenerator) {
	p.fields(kg, "bufSkIn", "bufSkOut")
	p.encryptor(kg.Encryptor)
}

func reflectValueOf(x any) reflect.Value { return reflect.ValueOf(x) }
