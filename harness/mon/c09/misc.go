package c09

// The allocating ("…New") variants and the multi-output hoisted rotations: inputs intact, and the
// value returned equals the one the in-place-signature method writes into a fresh output.

import (
	"fmt"

	"github.com/tuneinsight/lattigo/v6/core/rlwe"
	"github.com/tuneinsight/lattigo/v6/schemes/bgv"
	"github.com/tuneinsight/lattigo/v6/schemes/ckks"

	"verif/harness/eng"
)

type newRow struct {
	api string
	ins func() []named
	run func() (*rlwe.Ciphertext, error)
	ref func() (*rlwe.Ciphertext, error) // nil: no reference
}

func runNewRows[E any](t *T, s *scheme[E], rows []newRow) {
	for _, r := range rows {
		t.distinct(r.api, "fresh", "ct", "-", true)
		var out *rlwe.Ciphertext
		o := t.guarded(r.api, "", r.api+" fresh", r.ins(), func() (err error) { out, err = r.run(); return })
		if !o.ok() || out == nil {
			continue
		}
		if r.ref == nil {
			t.independent(r.api, r.api+" fresh", out, r.ins())
			continue
		}
		var ref *rlwe.Ciphertext
		if protect(func() (err error) { ref, err = r.ref(); return }).ok() && ref != nil {
			t.same(r.api, "new-vs-inplace", "", r.api, canonCt(s.rq, ref), canonCt(s.rq, out))
		}
		t.independent(r.api, r.api+" fresh", out, r.ins())
	}
}

func runCKKSMisc(c *eng.Ctx, cfg pcfg) {
	e, err := newCKKSEnv(cfg, c.Rand())
	if err != nil {
		c.Inconclusive("parameters rejected: " + err.Error())
		return
	}
	t := &T{c: c, tag: cfg.tag()}
	s := e.scheme()
	p := e.p
	L := p.MaxLevel()
	c.Sample(map[string]any{"params": cfg, "area": "ckks New-variants and hoisted rotations"})
	a, b := e.ct(L, "", 1), e.ct(L-1, "x3", 1)
	a2 := e.ct(L, "", 2)
	pt := e.pt(L, "")
	ins := func(x ...named) func() []named {
		return func() []named { return append([]named{{"op0", a}, {"evk", e.evk}}, x...) }
	}
	mk := func() *ckks.Evaluator { return s.newEval() }
	fresh := func(deg, lvl int) *rlwe.Ciphertext { return ckks.NewCiphertext(p, deg, lvl) }
	rows := []newRow{
		{"ckks.Evaluator.AddNew", ins(named{"op1", b}), func() (*rlwe.Ciphertext, error) { return mk().AddNew(a, b) }, func() (*rlwe.Ciphertext, error) { o := fresh(1, L-1); return o, mk().Add(a, b, o) }},
		{"ckks.Evaluator.SubNew", ins(named{"op1", pt}), func() (*rlwe.Ciphertext, error) { return mk().SubNew(a, pt) }, func() (*rlwe.Ciphertext, error) { o := fresh(1, L); return o, mk().Sub(a, pt, o) }},
		{"ckks.Evaluator.MulNew", ins(named{"op1", b}), func() (*rlwe.Ciphertext, error) { return mk().MulNew(a, b) }, func() (*rlwe.Ciphertext, error) { o := fresh(2, L-1); return o, mk().Mul(a, b, o) }},
		{"ckks.Evaluator.MulRelinNew", ins(named{"op1", b}), func() (*rlwe.Ciphertext, error) { return mk().MulRelinNew(a, b) }, func() (*rlwe.Ciphertext, error) { o := fresh(1, L-1); return o, mk().MulRelin(a, b, o) }},
		{"ckks.Evaluator.RelinearizeNew", func() []named { return []named{{"op0", a2}, {"evk", e.evk}} }, func() (*rlwe.Ciphertext, error) { return mk().RelinearizeNew(a2) }, func() (*rlwe.Ciphertext, error) { o := fresh(1, L); return o, mk().Relinearize(a2, o) }},
		{"ckks.Evaluator.RotateNew", ins(), func() (*rlwe.Ciphertext, error) { return mk().RotateNew(a, 3) }, func() (*rlwe.Ciphertext, error) { o := fresh(1, L); return o, mk().Rotate(a, 3, o) }},
		{"ckks.Evaluator.ConjugateNew", ins(), func() (*rlwe.Ciphertext, error) { return mk().ConjugateNew(a) }, func() (*rlwe.Ciphertext, error) { o := fresh(1, L); return o, mk().Conjugate(a, o) }},
		{"ckks.Evaluator.ApplyEvaluationKeyNew", ins(named{"swk", e.swk}), func() (*rlwe.Ciphertext, error) { return mk().ApplyEvaluationKeyNew(a, e.swk) }, func() (*rlwe.Ciphertext, error) { o := fresh(1, L); return o, mk().ApplyEvaluationKey(a, e.swk, o) }},
		{"ckks.Evaluator.ScaleUpNew", ins(), func() (*rlwe.Ciphertext, error) { return mk().ScaleUpNew(a, rlwe.NewScale(1<<10)) }, func() (*rlwe.Ciphertext, error) { o := fresh(1, L); return o, mk().ScaleUp(a, rlwe.NewScale(1<<10), o) }},
		{"ckks.Evaluator.DropLevelNew", ins(), func() (*rlwe.Ciphertext, error) { return mk().DropLevelNew(a, 1), nil }, nil},
	}
	runNewRows(t, s, rows)
	// hoisted rotations into a map of outputs: inputs intact, no dependence on buffers / old outputs
	rots := []int{1, 2, 5}
	runHoisted := func(dirty bool) (string, error) {
		ev := mk()
		outs := map[int]*rlwe.Ciphertext{}
		for _, k := range rots {
			if dirty {
				outs[k] = s.dirty(c.Rand(), 1)
			} else {
				outs[k] = fresh(1, L)
			}
		}
		if dirty {
			s.poison(newPoisoner(c.Rand(), 1), ev)
		}
		err := ev.RotateHoisted(a, rots, outs)
		t.out(outs) // (the map is the caller's: every element must still be the caller's object, with arrays of its own)
		str := ""
		for _, k := range rots {
			str += fmt.Sprintf("%d:%s;", k, cvalString(canonCt(s.rq, outs[k])))
		}
		return str, err
	}
	t.runSimple(simple{api: "ckks.Evaluator.RotateHoisted", variant: "-", build: func(dirty bool) ([]named, func() (string, error)) {
		rr := append([]int(nil), rots...)
		_ = rr
		return []named{{"ctIn", a}, {"rotations", &rots}, {"evk", e.evk}}, func() (string, error) { return runHoisted(dirty) }
	}})
}

func runBGVMisc(c *eng.Ctx, cfg pcfg) {
	e, err := newBGVEnv(cfg, c.Rand())
	if err != nil {
		c.Inconclusive("parameters rejected: " + err.Error())
		return
	}
	t := &T{c: c, tag: cfg.tag()}
	s := e.scheme()
	p := e.p
	L := p.MaxLevel()
	c.Sample(map[string]any{"params": cfg, "area": "bgv New-variants, MatchScalesAndLevel"})
	a, b := e.ct(L, 1, 1), e.ct(L-1, 3, 1)
	a2 := e.ct(L, 1, 2)
	pt := e.pt(L, 1)
	ins := func(x ...named) func() []named {
		return func() []named { return append([]named{{"op0", a}, {"evk", e.evk}}, x...) }
	}
	mk := func() *bgv.Evaluator { return s.newEval() }
	fresh := func(deg, lvl int) *rlwe.Ciphertext { return bgv.NewCiphertext(p, deg, lvl) }
	rows := []newRow{
		{"bgv.Evaluator.AddNew", ins(named{"op1", b}), func() (*rlwe.Ciphertext, error) { return mk().AddNew(a, b) }, func() (*rlwe.Ciphertext, error) { o := fresh(1, L-1); return o, mk().Add(a, b, o) }},
		{"bgv.Evaluator.SubNew", ins(named{"op1", pt}), func() (*rlwe.Ciphertext, error) { return mk().SubNew(a, pt) }, func() (*rlwe.Ciphertext, error) { o := fresh(1, L); return o, mk().Sub(a, pt, o) }},
		{"bgv.Evaluator.MulNew", ins(named{"op1", b}), func() (*rlwe.Ciphertext, error) { return mk().MulNew(a, b) }, func() (*rlwe.Ciphertext, error) { o := fresh(2, L-1); return o, mk().Mul(a, b, o) }},
		{"bgv.Evaluator.MulRelinNew", ins(named{"op1", b}), func() (*rlwe.Ciphertext, error) { return mk().MulRelinNew(a, b) }, func() (*rlwe.Ciphertext, error) { o := fresh(1, L-1); return o, mk().MulRelin(a, b, o) }},
		{"bgv.Evaluator.MulScaleInvariantNew", ins(named{"op1", b}), func() (*rlwe.Ciphertext, error) { return mk().MulScaleInvariantNew(a, b) }, func() (*rlwe.Ciphertext, error) { o := fresh(2, L-1); return o, mk().MulScaleInvariant(a, b, o) }},
		{"bgv.Evaluator.MulRelinScaleInvariantNew", ins(named{"op1", b}), func() (*rlwe.Ciphertext, error) { return mk().MulRelinScaleInvariantNew(a, b) }, func() (*rlwe.Ciphertext, error) { o := fresh(1, L-1); return o, mk().MulRelinScaleInvariant(a, b, o) }},
		{"bgv.Evaluator.RelinearizeNew", func() []named { return []named{{"op0", a2}, {"evk", e.evk}} }, func() (*rlwe.Ciphertext, error) { return mk().RelinearizeNew(a2) }, func() (*rlwe.Ciphertext, error) { o := fresh(1, L); return o, mk().Relinearize(a2, o) }},
		{"bgv.Evaluator.RotateColumnsNew", ins(), func() (*rlwe.Ciphertext, error) { return mk().RotateColumnsNew(a, 3) }, func() (*rlwe.Ciphertext, error) { o := fresh(1, L); return o, mk().RotateColumns(a, 3, o) }},
		{"bgv.Evaluator.RotateRowsNew", ins(), func() (*rlwe.Ciphertext, error) { return mk().RotateRowsNew(a) }, func() (*rlwe.Ciphertext, error) { o := fresh(1, L); return o, mk().RotateRows(a, o) }},
		{"bgv.Evaluator.ApplyEvaluationKeyNew", ins(named{"swk", e.swk}), func() (*rlwe.Ciphertext, error) { return mk().ApplyEvaluationKeyNew(a, e.swk) }, func() (*rlwe.Ciphertext, error) { o := fresh(1, L); return o, mk().ApplyEvaluationKey(a, e.swk, o) }},
	}
	runNewRows(t, s, rows)
	// MatchScalesAndLevel is documented to update both arguments; it must not depend on the buffers
	t.runSimple(simple{api: "bgv.Evaluator.MatchScalesAndLevel", variant: "-", build: func(dirty bool) ([]named, func() (string, error)) {
		ev := mk()
		if dirty {
			s.poison(newPoisoner(c.Rand(), 1), ev)
		}
		x, y := a.CopyNew(), b.CopyNew()
		return []named{{"evk", e.evk}}, func() (string, error) {
			ev.MatchScalesAndLevel(x, y)
			return cvalString(canonCt(s.rq, x)) + "|" + cvalString(canonCt(s.rq, y)), nil
		}
	}})
}
