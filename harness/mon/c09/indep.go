package c09

// Output independence for the rows that do not go through the evaluator judges of core.go (multiparty
// protocols, key generator, encryptor / decryptor, encoders, rlwe.Element functions, ring operations,
// basis extension, RGSW functions, circuit front ends): the OBJECT a call produces (key, share, plaintext,
// ciphertext, polynomial, additive share) must not share storage with an argument of the call. A call such
// as GenPublicKey(share, crp, pk) that stores the arrays of share / crp into pk instead of copying them
// gives the right value, leaves its inputs intact and does not depend on any history - the defect only shows
// when the caller reuses the share buffer afterwards. It is made visible the way core.go/independent does
// for ciphertext outputs: once the value of the output of the reference run has been taken,
//
//	(a) every []uint64 backing array reachable from the output object(s) is collected by reflection
//	    (ring.Poly rows, ringqp.Poly, structs.Vector / Matrix of them, GadgetCiphertext, maps and slices of
//	    elements; the words of the *big.Int of a big-integer additive share; every rlwe.MetaData),
//	(b) the arguments are snapshotted (snap.go),
//	(c) every collected word is XORed with a pattern, every collected MetaData is replaced by other values,
//	(d) the arguments are snapshotted again: a difference means that the output shares storage with that
//	    argument -> C09|<api>|output-shares-storage|<argument>,
//	(e) the words are XORed again and the metadata put back, so that the row goes on undisturbed.
//
// A row exposes its output object(s) with t.out(...) (in its build closure when the caller allocates the
// output, in its run closure when the call returns it); runSimple / runPatterns / aggPatterns judge the
// objects exposed by the reference ("fresh") run only: in the aliasing patterns the output IS an argument.
// Rows whose output is a plain value (a string, a number, a scale, a []uint64 / []int64 / []complex128
// slice of the caller: a callee cannot re-point a slice it received by value) expose nothing.
//
// Not exposed, because the sharing is the documented behaviour (doc comments in /repo):
//   - rlwe.NewElementAtLevelFromPoly ("the returned Element will share its backing array of coefficients");
//   - in-place operations (Evaluator.SetScale, DropLevel, MatchScalesAndLevel on both arguments,
//     Encoder.FFT / IFFT, Element.Resize): the output is the argument;
//   - accumulators and out=in / out=share patterns: only the run with distinct objects is judged.
//
// The mantissa words of big.Float scales are deliberately left alone: rlwe.Scale and rlwe.MetaData are
// value types that the library copies with plain assignments (`*out.MetaData = *in.MetaData`), which shares
// the (immutable by convention) mantissa slice of the scale between the copies.

import (
	"fmt"
	"math/big"
	"reflect"
	"sort"
	"unsafe"

	"github.com/tuneinsight/lattigo/v6/core/rlwe"
	"github.com/tuneinsight/lattigo/v6/ring"
)

const flipPattern = 0x5A5A5A5A5A5A5A5A

var tMetaData = reflect.TypeOf(rlwe.MetaData{})

// out exposes output objects of the row that is being built / run (pointers, or maps / slices of pointers).
func (t *T) out(objs ...any) { t.outs = append(t.outs, objs...) }

// takeOuts returns the output objects exposed since the last call and forgets them.
func (t *T) takeOuts() []any {
	o := t.outs
	t.outs = nil
	return o
}

type wordRange struct {
	addr uintptr
	w    []uint64
}

// storage is what is reachable from a set of output objects.
type storage struct {
	ranges []wordRange
	metas  []*rlwe.MetaData
	seen   map[ptrKey]bool
}

type ptrKey struct {
	addr uintptr
	typ  reflect.Type
}

// skipType: types that are never part of the value of an output (rings and parameters hold shared
// read-only tables; big.Float / big.Rat see the file comment).
func skipType(t reflect.Type) bool {
	if t == tBigFloat || t == tBigRat {
		return true
	}
	switch t.PkgPath() {
	case "github.com/tuneinsight/lattigo/v6/ring":
		switch t.Name() {
		case "Ring", "SubRing", "NTTTable", "BasisExtender", "Decomposer":
			return true
		}
	case "github.com/tuneinsight/lattigo/v6/ring/ringqp":
		return t.Name() == "Ring"
	case "github.com/tuneinsight/lattigo/v6/core/rlwe", "github.com/tuneinsight/lattigo/v6/schemes/ckks", "github.com/tuneinsight/lattigo/v6/schemes/bgv":
		switch t.Name() {
		case "Parameters", "ParametersLiteral":
			return true
		}
	}
	return false
}

func (st *storage) addWords(addr uintptr, w []uint64) {
	if len(w) > 0 {
		st.ranges = append(st.ranges, wordRange{addr, w})
	}
}

func (st *storage) collect(v reflect.Value, depth int) {
	if depth > 24 || !v.IsValid() {
		return
	}
	v = rw(v)
	t := v.Type()
	if skipType(t) {
		return
	}
	switch t {
	case tBigInt:
		if v.CanAddr() {
			b := (*big.Int)(unsafe.Pointer(v.UnsafeAddr()))
			if bits := b.Bits(); len(bits) > 0 && unsafe.Sizeof(bits[0]) == 8 {
				st.addWords(uintptr(unsafe.Pointer(&bits[0])), unsafe.Slice((*uint64)(unsafe.Pointer(&bits[0])), len(bits)))
			}
		}
		return
	case tMetaData:
		if v.CanAddr() {
			md := (*rlwe.MetaData)(unsafe.Pointer(v.UnsafeAddr()))
			if k := (ptrKey{uintptr(unsafe.Pointer(md)), tMetaData}); !st.seen[k] {
				st.seen[k] = true
				st.metas = append(st.metas, md)
			}
		}
		return
	}
	switch v.Kind() {
	case reflect.Ptr:
		if v.IsNil() {
			return
		}
		if t.Elem() != tMetaData {
			// (cycle / repetition guard; the MetaData case does its own bookkeeping)
			k := ptrKey{v.Pointer(), t}
			if st.seen[k] {
				return
			}
			st.seen[k] = true
		}
		st.collect(v.Elem(), depth+1)
	case reflect.Interface:
		if v.IsNil() {
			return
		}
		e := v.Elem()
		if e.Kind() != reflect.Ptr && e.Kind() != reflect.Slice && e.Kind() != reflect.Map {
			p := reflect.New(e.Type())
			p.Elem().Set(e)
			e = p.Elem()
		}
		st.collect(e, depth+1)
	case reflect.Struct:
		for i := 0; i < v.NumField(); i++ {
			st.collect(v.Field(i), depth+1)
		}
	case reflect.Slice:
		if v.IsNil() || v.Len() == 0 {
			return
		}
		if t.Elem().Kind() == reflect.Uint64 {
			st.addWords(v.Pointer(), unsafe.Slice((*uint64)(unsafe.Pointer(v.Pointer())), v.Len()))
			return
		}
		switch t.Elem().Kind() {
		case reflect.Ptr, reflect.Interface, reflect.Struct, reflect.Slice, reflect.Array, reflect.Map:
			for i := 0; i < v.Len(); i++ {
				st.collect(v.Index(i), depth+1)
			}
		}
	case reflect.Array:
		switch t.Elem().Kind() {
		case reflect.Ptr, reflect.Interface, reflect.Struct, reflect.Slice, reflect.Array, reflect.Map:
			for i := 0; i < v.Len(); i++ {
				st.collect(v.Index(i), depth+1)
			}
		}
	case reflect.Map:
		if v.IsNil() {
			return
		}
		for _, k := range v.MapKeys() {
			e := v.MapIndex(k)
			if e.Kind() != reflect.Ptr && e.Kind() != reflect.Slice && e.Kind() != reflect.Map && e.Kind() != reflect.Interface {
				// (a struct stored by value: its copy still points to the same backing arrays)
				p := reflect.New(e.Type())
				p.Elem().Set(e)
				e = p.Elem()
			}
			st.collect(e, depth+1)
		}
	}
}

// storageOf collects the storage reachable from the objects; overlapping word ranges (two slice headers
// over one array) are reduced to disjoint ones, so that every word is flipped exactly once.
func storageOf(objs []any) *storage {
	st := &storage{seen: map[ptrKey]bool{}}
	for _, o := range objs {
		if o == nil {
			continue
		}
		v := reflect.ValueOf(o)
		if v.Kind() != reflect.Ptr && v.Kind() != reflect.Map && v.Kind() != reflect.Slice {
			// a value: its copy still points to the same backing arrays
			p := reflect.New(v.Type())
			p.Elem().Set(v)
			v = p.Elem()
		}
		st.collect(v, 0)
	}
	sort.Slice(st.ranges, func(i, j int) bool { return st.ranges[i].addr < st.ranges[j].addr })
	var out []wordRange
	var end uintptr
	for _, r := range st.ranges {
		if r.addr < end {
			skip := int((end - r.addr + 7) / 8)
			if skip >= len(r.w) {
				continue
			}
			r = wordRange{r.addr + uintptr(8*skip), r.w[skip:]}
		}
		out = append(out, r)
		end = r.addr + uintptr(8*len(r.w))
	}
	st.ranges = out
	return st
}

func (st *storage) nWords() (n int64) {
	for _, r := range st.ranges {
		n += int64(len(r.w))
	}
	return
}

func (st *storage) flipWords() {
	for _, r := range st.ranges {
		for i := range r.w {
			r.w[i] ^= flipPattern
		}
	}
}

// independentAny: see the file comment. outs are the output objects of a call that has returned and whose
// value has been taken; ins are its arguments. The output is left as it was found.
func (t *T) independentAny(api, where string, outs []any, ins []named) {
	if len(outs) == 0 || len(ins) == 0 {
		return
	}
	st := storageOf(outs)
	if len(st.ranges) == 0 && len(st.metas) == 0 {
		return
	}
	before := make([]snapshot, len(ins))
	for i := range ins {
		before[i] = snap(ins[i].obj)
	}
	st.flipWords()
	saved := make([]rlwe.MetaData, len(st.metas))
	for i, md := range st.metas {
		saved[i] = *md
		md.Scale = rlwe.NewScale(12345)
		md.IsNTT, md.IsMontgomery, md.IsBatched, md.IsBitReversed = !md.IsNTT, !md.IsMontgomery, !md.IsBatched, !md.IsBitReversed
		md.LogDimensions = ring.Dimensions{Rows: md.LogDimensions.Rows + 3, Cols: md.LogDimensions.Cols + 5}
	}
	t.c.Count("output_objects_overwritten", int64(len(outs)))
	t.c.Count("output_words_overwritten", st.nWords())
	for i := range ins {
		t.c.Eval(1)
		t.c.Count("output_independence_checks", 1)
		if d := before[i].diff(snap(ins[i].obj)); d != "" {
			t.c.Violate("C09|"+api+"|output-shares-storage|"+ins[i].name, fmt.Sprintf("%s [%s]: the output object shares storage with argument %s: overwriting the output after the call changed the argument: %s", where, t.tag, ins[i].name, d), nil)
		}
	}
	for i, md := range st.metas {
		*md = saved[i]
	}
	st.flipWords()
}
