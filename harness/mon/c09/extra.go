package c09

// Entry points of the anchor files that the method x pattern tables of the other files do not reach:
// scale arguments (rlwe.Scale is passed by value but shares its mantissa and modulus with the caller),
// SetScale / DropLevel, the hoisted rotations into newly allocated maps, GadgetProductHoisted,
// rlwe.Element functions (Copy, Resize, ring-degree switching), InitOutputBinaryOp / InitOutputUnaryOp,
// ApplyEvaluationKey between ring degrees.

import (
	"fmt"
	"math/big"
	"sort"
	"strings"

	"github.com/tuneinsight/lattigo/v6/core/rlwe"
	"github.com/tuneinsight/lattigo/v6/ring"
	"github.com/tuneinsight/lattigo/v6/ring/ringqp"
	"github.com/tuneinsight/lattigo/v6/schemes/bgv"
	"github.com/tuneinsight/lattigo/v6/schemes/ckks"

	"verif/harness/eng"
)

// patClass maps a pattern name to the failure class used in signatures.
func patClass(pat string) string {
	switch {
	case strings.HasPrefix(pat, "hist-poison"):
		return "history-buffers"
	case strings.HasPrefix(pat, "hist-derived-"):
		return "history-derived-" + strings.TrimPrefix(pat, "hist-derived-")
	case pat == "hist-warm":
		return "history-evaluator"
	case pat == "hist-out" || pat == "hist-dirty":
		return "history-out"
	case pat == "hist-out-low":
		return "history-out-low"
	case pat == "hist-repeat":
		return "history-repeat"
	case strings.Contains(pat, "="):
		return "alias-" + pat
	}
	return pat
}

// runPatterns: build("fresh") is the reference run (distinct objects, clean state; its inputs are
// snapshotted before / after); every other pattern must produce the same canonical string. An alias
// pattern may be rejected by an error; a history pattern may not (the reference was accepted).
// build may return a nil run for a pattern that does not apply. The output objects that the fresh run exposes
// with t.out(...) must not share storage with its inputs (indep.go); what the other patterns expose is dropped
// (there the output may be an argument).
func (t *T) runPatterns(api, variant, pred string, pats []string, build func(pat string) (ins []named, run func() (string, error))) {
	t.distinct(api, "fresh", "-", variant, true)
	t.takeOuts()
	ins, run := build("fresh")
	var v0 string
	o := t.guarded(api, pred, api+" fresh "+variant, ins, func() (err error) { v0, err = run(); return })
	outs := t.takeOuts()
	if !o.ok() {
		return
	}
	t.independentAny(api, api+" fresh "+variant, outs, ins)
	defer t.takeOuts()
	for _, pat := range pats {
		ins, run := build(pat)
		if run == nil {
			continue
		}
		t.distinct(api, pat, "-", variant, true)
		var v1 string
		alias := strings.Contains(pat, "=")
		var o2 outcome
		if alias {
			// the inputs that are not aliased with the output are still inputs
			o2 = t.guarded(api, pred, api+" "+pat+" "+variant, ins, func() (err error) { v1, err = run(); return })
		} else {
			o2 = protect(func() (err error) { v1, err = run(); return })
		}
		t.c.Eval(1)
		t.c.Count("outputs_compared", 1)
		sig := strings.TrimRight("C09|"+api+"|"+patClass(pat)+"|"+pred, "|")
		switch {
		case o2.panicked && alias:
			// (guarded has reported the panic)
		case o2.panicked:
			t.c.Violate(sig+"|panic", fmt.Sprintf("%s %s pattern=%s [%s]: panic (the run with distinct fresh objects and clean state is accepted): %v at %s", api, variant, pat, t.tag, o2.pval, o2.stack), nil)
		case o2.err != nil && alias:
			t.c.Count("alias_rejected_by_error", 1)
		case o2.err != nil:
			t.c.Violate(sig+"|error", fmt.Sprintf("%s %s pattern=%s [%s]: error (the run with distinct fresh objects and clean state is accepted): %v", api, variant, pat, t.tag, o2.err), nil)
		case v0 != v1:
			t.c.Violate(sig, fmt.Sprintf("%s %s pattern=%s [%s]: result differs from the run with distinct fresh objects and clean state: %s", api, variant, pat, t.tag, firstDiff(v0, v1)), nil)
		}
	}
}

func ctString(rq *ring.Ring, ct *rlwe.Ciphertext) string { return cvalString(canonCt(rq, ct)) }

func mapString[K ~int, V any](m map[K]V, f func(V) string) string {
	keys := make([]int, 0, len(m))
	for k := range m {
		keys = append(keys, int(k))
	}
	sort.Ints(keys)
	var sb strings.Builder
	for _, k := range keys {
		fmt.Fprintf(&sb, "%d:%s;", k, f(m[K(k)]))
	}
	return sb.String()
}

// newDecompBuffer allocates a caller-owned RNS decomposition buffer (what DecomposeNTT fills).
func newDecompBuffer(p rlwe.Parameters) []ringqp.Poly {
	n := p.BaseRNSDecompositionVectorSize(p.MaxLevelQ(), 0)
	out := make([]ringqp.Poly, n)
	for i := range out {
		out[i] = p.RingQP().NewPoly()
	}
	return out
}

var histPats = []string{"hist-poison0", "hist-poison1", "hist-poison2", "hist-warm", "hist-derived-shallowcopy", "hist-derived-withkey"}

// evalFor returns the evaluator of a history pattern (nil when the pattern is not an evaluator pattern).
func evalFor[E any](t *T, s *scheme[E], pat string) (ev E, ok bool) {
	rnd := t.c.Rand()
	switch {
	case pat == "fresh" || strings.Contains(pat, "=") || pat == "hist-out" || pat == "hist-out-low":
		return s.newEval(), true
	case strings.HasPrefix(pat, "hist-poison"):
		ev = s.newEval()
		p := newPoisoner(rnd, int(pat[len(pat)-1]-'0'))
		s.poison(p, ev)
		t.c.Count("poisoned_words", p.n)
		return ev, true
	case pat == "hist-warm":
		ev = s.newEval()
		if s.warm != nil {
			s.warm(ev)
		}
		return ev, true
	case strings.HasPrefix(pat, "hist-derived-"):
		name := strings.TrimPrefix(pat, "hist-derived-")
		for _, d := range s.derived {
			if d.name == name {
				okk := protect(func() error { ev = d.mk(newPoisoner(rnd, 1)); return nil }).ok()
				return ev, okk
			}
		}
	}
	return ev, false
}

// ---------------------------------------------------------------------------------------------

func runCKKSMisc2(c *eng.Ctx, cfg pcfg) {
	e, err := newCKKSEnv(cfg, c.Rand())
	if err != nil {
		c.Inconclusive("parameters rejected: " + err.Error())
		return
	}
	t := &T{c: c, tag: cfg.tag()}
	s := e.scheme()
	p := e.p
	rq := p.RingQ()
	L := p.MaxLevel()
	rnd := c.Rand()
	c.Sample(map[string]any{"params": cfg, "area": "ckks scale arguments, SetScale, DropLevel, hoisted rotations into new maps", "patterns": "fresh,out=in,hist-poison0..2,hist-warm,hist-derived,hist-out"})
	a := e.ct(L, "", 1)
	aSq := e.ct(L, "sq", 1)
	aSq3 := e.ct(L, "sq", 1) // a scale that is not a power of two: 3*Delta^2
	aSq3.Scale = aSq3.Scale.Mul(rlwe.NewScale(3))
	mkScale := func(v string) rlwe.Scale {
		// a scale object of the caller: its mantissa / modulus are shared with every by-value copy
		sc := e.scaleOf(v)
		return rlwe.Scale{Value: *new(big.Float).Copy(&sc.Value), Mod: sc.Mod}
	}
	// ---- scale arguments: ScaleUp, RescaleTo, SetScale
	for _, v := range []struct{ name, sc string }{{"int", "x3"}, {"default", ""}, {"near", "near"}} {
		v := v
		t.runPatterns("ckks.Evaluator.ScaleUp", "scale-arg/"+v.name, "scale", append([]string{"out=in", "hist-out"}, histPats...), func(pat string) ([]named, func() (string, error)) {
			ev, ok := evalFor(t, s, pat)
			if !ok {
				return nil, nil
			}
			in, sc := copyCt(a), mkScale(v.sc)
			out := ckks.NewCiphertext(p, 1, L)
			switch pat {
			case "out=in":
				out = in
			case "hist-out":
				out = s.dirty(rnd, 2)
			}
			ins := []named{{"scale", &sc}, {"evk", e.evk}}
			if out != in {
				ins = append(ins, named{"op0", in})
			}
			t.out(out)
			return ins, func() (string, error) { err := ev.ScaleUp(in, sc, out); return ctString(rq, out), err }
		})
		t.runPatterns("ckks.Evaluator.RescaleTo", "scale-arg/"+v.name, "scale", append([]string{"out=in", "hist-out"}, histPats...), func(pat string) ([]named, func() (string, error)) {
			ev, ok := evalFor(t, s, pat)
			if !ok {
				return nil, nil
			}
			in, sc := copyCt(aSq), mkScale(v.sc)
			out := ckks.NewCiphertext(p, 1, L)
			switch pat {
			case "out=in":
				out = in
			case "hist-out":
				out = s.dirty(rnd, 2)
			}
			ins := []named{{"minScale", &sc}}
			if out != in {
				ins = append(ins, named{"op0", in})
			}
			t.out(out)
			return ins, func() (string, error) { err := ev.RescaleTo(in, sc, out); return ctString(rq, out), err }
		})
		// SetScale is documented in place on ct; the scale argument and the keys are inputs
		t.runPatterns("ckks.Evaluator.SetScale", "scale-arg/"+v.name, "scale", histPats, func(pat string) ([]named, func() (string, error)) {
			ev, ok := evalFor(t, s, pat)
			if !ok {
				return nil, nil
			}
			ct, sc := copyCt(aSq3), mkScale(v.sc)
			return []named{{"scale", &sc}}, func() (string, error) { err := ev.SetScale(ct, sc); return ctString(rq, ct), err }
		})
	}
	// the scale argument may be the scale of the ciphertext itself (SetScale(ct, ct.Scale), ScaleUp(ct, ct.Scale, ct))
	t.runPatterns("ckks.Evaluator.SetScale", "scale=ct.Scale", "scale", []string{"scale=ct.Scale"}, func(pat string) ([]named, func() (string, error)) {
		ct := copyCt(a)
		sc := mkScale("")
		if pat != "fresh" {
			sc = ct.Scale
		}
		return nil, func() (string, error) { err := s.newEval().SetScale(ct, sc); return ctString(rq, ct), err }
	})
	t.runPatterns("ckks.Evaluator.ScaleUp", "scale=ct.Scale", "scale", []string{"scale=ct.Scale=out.Scale"}, func(pat string) ([]named, func() (string, error)) {
		ct := copyCt(a)
		ct.Scale = rlwe.NewScale(1 << 20)
		sc := rlwe.NewScale(1 << 20)
		out := ckks.NewCiphertext(p, 1, L)
		if pat != "fresh" {
			sc, out = ct.Scale, ct
		}
		return nil, func() (string, error) { err := s.newEval().ScaleUp(ct, sc, out); return ctString(rq, out), err }
	})
	// ---- DropLevel (in place) against DropLevelNew and against a used evaluator
	for _, k := range []int{0, 1, L} {
		k := k
		t.runPatterns("ckks.Evaluator.DropLevel", fmt.Sprintf("levels%d", k), "", []string{"new-vs-inplace", "hist-poison1"}, func(pat string) ([]named, func() (string, error)) {
			ev, _ := evalFor(t, s, strings.Replace(pat, "new-vs-inplace", "fresh", 1))
			ct := copyCt(a)
			if pat == "new-vs-inplace" {
				return []named{{"op0", ct}}, func() (string, error) { return ctString(rq, ev.DropLevelNew(ct, k)), nil }
			}
			return nil, func() (string, error) { ev.DropLevel(ct, k); return ctString(rq, ct), nil }
		})
	}
	// ---- hoisted rotations into newly allocated maps
	if p.PCount() > 0 && cfg.Pow2 == 0 {
		rots := []int{1, 2, 5, 0}
		t.runPatterns("ckks.Evaluator.RotateHoistedNew", "-", "", append([]string{"new-vs-inplace"}, histPats...), func(pat string) ([]named, func() (string, error)) {
			ev, ok := evalFor(t, s, strings.Replace(pat, "new-vs-inplace", "fresh", 1))
			if !ok {
				return nil, nil
			}
			in := copyCt(a)
			rr := append([]int(nil), rots[:3]...)
			f := func(ct *rlwe.Ciphertext) string { return ctString(rq, ct) }
			if pat == "new-vs-inplace" {
				return nil, func() (string, error) {
					outs := map[int]*rlwe.Ciphertext{}
					for _, k := range rr {
						outs[k] = ckks.NewCiphertext(p, 1, L)
					}
					err := ev.RotateHoisted(in, rr, outs)
					return mapString(outs, f), err
				}
			}
			return []named{{"ctIn", in}, {"rotations", &rr}, {"evk", e.evk}}, func() (string, error) {
				outs, err := ev.RotateHoistedNew(in, rr)
				t.out(outs)
				return mapString(outs, f), err
			}
		})
		for _, lvl := range []int{L, L - 1, 0} {
			lvl := lvl
			t.runPatterns("ckks.Evaluator.RotateHoistedLazyNew", fmt.Sprintf("lvl%d", lvl), "", histPats, func(pat string) ([]named, func() (string, error)) {
				ev, ok := evalFor(t, s, pat)
				if !ok {
					return nil, nil
				}
				in := e.ctFixed(lvl)
				rr := append([]int(nil), rots...)
				dec := newDecompBuffer(p.Parameters)
				// the decomposition is an argument: computed by a clean evaluator into a caller-owned buffer
				s.newEval().DecomposeNTT(lvl, p.MaxLevelP(), p.PCount(), in.Value[1], in.IsNTT, dec)
				rqp := p.RingQP().AtLevel(lvl, p.MaxLevelP())
				return []named{{"ct", in}, {"rotations", &rr}, {"c2DecompQP", &dec}, {"evk", e.evk}}, func() (string, error) {
					outs, err := ev.RotateHoistedLazyNew(lvl, rr, in, dec)
					t.out(outs)
					return mapString(outs, func(x *rlwe.Element[ringqp.Poly]) string { return cvalString(canonElQP(&rqp, x)) }), err
				}
			})
		}
	}
}

// ctFixed returns a ciphertext with fixed (per case) content at the given level.
func (e *ckksEnv) ctFixed(level int) *rlwe.Ciphertext {
	if e.fixed == nil {
		e.fixed = map[int]*rlwe.Ciphertext{}
	}
	if ct, ok := e.fixed[level]; ok {
		return ct.CopyNew()
	}
	ct := e.ct(level, "", 1)
	e.fixed[level] = ct
	return ct.CopyNew()
}

func (e *bgvEnv) ctFixed(level int) *rlwe.Ciphertext {
	if e.fixed == nil {
		e.fixed = map[int]*rlwe.Ciphertext{}
	}
	if ct, ok := e.fixed[level]; ok {
		return ct.CopyNew()
	}
	ct := e.ct(level, 3, 1)
	e.fixed[level] = ct
	return ct.CopyNew()
}

func runBGVMisc2(c *eng.Ctx, cfg pcfg) {
	e, err := newBGVEnv(cfg, c.Rand())
	if err != nil {
		c.Inconclusive("parameters rejected: " + err.Error())
		return
	}
	t := &T{c: c, tag: cfg.tag()}
	s := e.scheme()
	p := e.p
	rq := p.RingQ()
	L := p.MaxLevel()
	c.Sample(map[string]any{"params": cfg, "area": "bgv scale arguments, DropLevel, hoisted rotations into new maps", "patterns": "fresh,hist-poison0..2,hist-warm,hist-derived"})
	a := e.ct(L, 3, 1)
	// ---- the free function MulScaleInvariant: its scale arguments are the caller's
	for _, lvl := range []int{L, 0} {
		lvl := lvl
		t.runPatterns("bgv.MulScaleInvariant", fmt.Sprintf("lvl%d", lvl), "scale", []string{"a=b"}, func(pat string) ([]named, func() (string, error)) {
			x, y := p.NewScale(3), p.NewScale(3)
			if pat == "a=b" {
				y = x
			}
			return []named{{"a", &x}, {"b", &y}}, func() (string, error) {
				r := bgv.MulScaleInvariant(p, x, y, lvl)
				return snapString(&r), nil
			}
		})
	}
	for _, k := range []int{0, 1, L} {
		k := k
		t.runPatterns("bgv.Evaluator.DropLevel", fmt.Sprintf("levels%d", k), "", []string{"hist-poison1", "hist-derived-shallowcopy"}, func(pat string) ([]named, func() (string, error)) {
			ev, ok := evalFor(t, s, pat)
			if !ok {
				return nil, nil
			}
			ct := copyCt(a)
			return nil, func() (string, error) { ev.DropLevel(ct, k); return ctString(rq, ct), nil }
		})
	}
	if p.PCount() > 0 && cfg.Pow2 == 0 {
		rots := []int{1, 2, 5, 0}
		for _, lvl := range []int{L, L - 1, 0} {
			lvl := lvl
			t.runPatterns("bgv.Evaluator.RotateHoistedLazyNew", fmt.Sprintf("lvl%d", lvl), "", histPats, func(pat string) ([]named, func() (string, error)) {
				ev, ok := evalFor(t, s, pat)
				if !ok {
					return nil, nil
				}
				in := e.ctFixed(lvl)
				rr := append([]int(nil), rots...)
				dec := newDecompBuffer(p.Parameters)
				s.newEval().DecomposeNTT(lvl, p.MaxLevelP(), p.PCount(), in.Value[1], in.IsNTT, dec)
				rqp := p.RingQP().AtLevel(lvl, p.MaxLevelP())
				return []named{{"op0", in}, {"rotations", &rr}, {"c2DecompQP", &dec}, {"evk", e.evk}}, func() (string, error) {
					outs, err := ev.RotateHoistedLazyNew(lvl, rr, in, dec)
					t.out(outs)
					return mapString(outs, func(x *rlwe.Element[ringqp.Poly]) string { return cvalString(canonElQP(&rqp, x)) }), err
				}
			})
		}
	}
	// MatchScalesAndLevel (documented to update both arguments) on derived / warm evaluators, other level pairs
	for _, v := range []struct {
		name   string
		la, lb int
		sa, sb uint64
	}{{"lvl-a>b", L, L - 1, 1, 3}, {"lvl-a<b", 0, L, 5, 7}, {"same-scale", L, L, 3, 3}} {
		v := v
		x0, y0 := e.ct(v.la, v.sa, 1), e.ct(v.lb, v.sb, 2)
		t.runPatterns("bgv.Evaluator.MatchScalesAndLevel", v.name, "", histPats, func(pat string) ([]named, func() (string, error)) {
			ev, ok := evalFor(t, s, pat)
			if !ok {
				return nil, nil
			}
			x, y := copyCt(x0), copyCt(y0)
			return []named{{"evk", e.evk}}, func() (string, error) {
				ev.MatchScalesAndLevel(x, y)
				return ctString(rq, x) + "|" + ctString(rq, y), nil
			}
		})
	}
}
