package c09

import (
	"math/big"
	"strings"

	"github.com/tuneinsight/lattigo/v6/core/rlwe"
	"github.com/tuneinsight/lattigo/v6/ring"
	"github.com/tuneinsight/lattigo/v6/schemes/ckks"
	"github.com/tuneinsight/lattigo/v6/utils/bignum"

	"verif/harness/eng"
)

type ckksEnv struct {
	cfg   pcfg
	p     ckks.Parameters
	kgen  *rlwe.KeyGenerator
	sk    *rlwe.SecretKey
	sk2   *rlwe.SecretKey
	pk    *rlwe.PublicKey
	evk   *rlwe.MemEvaluationKeySet
	swk   *rlwe.EvaluationKey
	enc   *rlwe.Encryptor
	dec   *rlwe.Decryptor
	ecd   *ckks.Encoder
	rots  []int
	rnd   *eng.Rand
	evkPs []rlwe.EvaluationKeyParameters
	fixed map[int]*rlwe.Ciphertext
}

// ptSparse encodes slots/4 values in a plaintext with LogDimensions.Cols-2 (sparse packing).
func (e *ckksEnv) ptSparse(level int, scale string) *rlwe.Plaintext {
	pt := ckks.NewPlaintext(e.p, level)
	pt.Scale = e.scaleOf(scale)
	if pt.LogDimensions.Cols >= 2 {
		pt.LogDimensions.Cols -= 2
	}
	if err := e.ecd.Encode(e.vals()[:1<<pt.LogDimensions.Cols], pt); err != nil {
		panic(err)
	}
	return pt
}

func newCKKSEnv(cfg pcfg, r *eng.Rand) (*ckksEnv, error) {
	rt := ring.Standard
	if cfg.Ring == "ci" {
		rt = ring.ConjugateInvariant
	}
	p, err := ckks.NewParametersFromLiteral(ckks.ParametersLiteral{LogN: cfg.LogN, Q: cfg.Q, P: cfg.P, LogDefaultScale: cfg.LogScale, RingType: rt})
	if err != nil {
		return nil, err
	}
	e := &ckksEnv{cfg: cfg, p: p, rnd: r}
	e.kgen = rlwe.NewKeyGenerator(p)
	e.sk, e.pk = e.kgen.GenKeyPairNew()
	e.sk2 = e.kgen.GenSecretKeyNew()
	e.evkPs = cfg.evkParams()
	rlk := e.kgen.GenRelinearizationKeyNew(e.sk, e.evkPs...)
	e.rots = []int{1, 2, 3, 4, 5, 8, -1, -2}
	galEls := p.GaloisElements(e.rots)
	if rt == ring.Standard {
		galEls = append(galEls, p.GaloisElementOrderTwoOrthogonalSubgroup())
	}
	galEls = append(galEls, rlwe.GaloisElementsForInnerSum(p, 2, 3)...)
	galEls = append(galEls, rlwe.GaloisElementsForInnerSum(p, 2, 4)...)
	galEls = append(galEls, rlwe.GaloisElementsForReplicate(p, 2, 3)...)
	seen := map[uint64]bool{}
	var gks []*rlwe.GaloisKey
	for _, g := range galEls {
		if !seen[g] && g != 1 {
			seen[g] = true
			gks = append(gks, e.kgen.GenGaloisKeyNew(g, e.sk, e.evkPs...))
		}
	}
	e.evk = rlwe.NewMemEvaluationKeySet(rlk, gks...)
	e.swk = e.kgen.GenEvaluationKeyNew(e.sk, e.sk2, e.evkPs...)
	e.enc = rlwe.NewEncryptor(p, e.sk)
	e.dec = rlwe.NewDecryptor(p, e.sk)
	e.ecd = ckks.NewEncoder(p)
	return e, nil
}

func (e *ckksEnv) vals() []complex128 {
	v := make([]complex128, e.p.MaxSlots())
	for i := range v {
		v[i] = complex(2*e.rnd.F64()-1, 2*e.rnd.F64()-1)
		if e.p.RingType() == ring.ConjugateInvariant {
			v[i] = complex(real(v[i]), 0)
		}
	}
	return v
}

// scaleOf returns the scale of a named variant relative to the default scale.
func (e *ckksEnv) scaleOf(v string) rlwe.Scale {
	d := e.p.DefaultScale()
	switch v {
	case "x3":
		return d.Mul(rlwe.NewScale(3))
	case "near":
		f := new(big.Float).SetPrec(128).SetFloat64(1 + 1.0/(1<<20))
		return d.Mul(rlwe.NewScale(f))
	case "sq":
		return d.Mul(d)
	case "xq":
		return d.Mul(rlwe.NewScale(e.p.Q()[e.p.MaxLevel()]))
	}
	return d
}

func (e *ckksEnv) pt(level int, scale string) *rlwe.Plaintext {
	pt := ckks.NewPlaintext(e.p, level)
	pt.Scale = e.scaleOf(scale)
	if err := e.ecd.Encode(e.vals(), pt); err != nil {
		panic(err)
	}
	return pt
}

func (e *ckksEnv) ct(level int, scale string, deg int) *rlwe.Ciphertext {
	if deg == 2 {
		ev := ckks.NewEvaluator(e.p, e.evk)
		x, y := e.ct(level, "", 1), e.ct(level, "", 1)
		out := ckks.NewCiphertext(e.p, 2, level)
		if err := ev.Mul(x, y, out); err != nil {
			panic(err)
		}
		out.Scale = e.scaleOf(scale) // the scale is only bookkeeping for the properties checked here
		return out
	}
	ct, err := e.enc.EncryptNew(e.pt(level, scale))
	if err != nil {
		panic(err)
	}
	return ct
}

func (e *ckksEnv) scheme() *scheme[*ckks.Evaluator] {
	return &scheme[*ckks.Evaluator]{
		name:    "ckks",
		rq:      e.p.RingQ(),
		maxLvl:  e.p.MaxLevel(),
		newEval: func() *ckks.Evaluator { return ckks.NewEvaluator(e.p, e.evk) },
		poison:  func(p *poisoner, ev *ckks.Evaluator) { p.ckksEval(ev) },
		warm: func(ev *ckks.Evaluator) {
			L := e.p.MaxLevel()
			x, y := e.ct(L, "", 1), e.ct(L, "x3", 1)
			o := ckks.NewCiphertext(e.p, 2, L)
			eng.Panics(func() { _ = ev.Mul(x, y, o) })
			eng.Panics(func() { _ = ev.MulRelin(x, y, o) })
			eng.Panics(func() { _ = ev.Add(x, y, o) })
			eng.Panics(func() { _ = ev.Rotate(x, 1, o) })
			eng.Panics(func() { _ = ev.Add(x, e.vals(), o) })
			eng.Panics(func() { _ = ev.Rescale(x, o) })
		},
		newCt: func(deg, lvl int) *rlwe.Ciphertext { return ckks.NewCiphertext(e.p, deg, lvl) },
		dirty: func(r *eng.Rand, deg int) *rlwe.Ciphertext {
			ct := ckks.NewCiphertext(e.p, deg, e.p.MaxLevel())
			fillResidues(e.p.RingQ(), ct, r)
			ct.Scale = e.p.DefaultScale().Mul(rlwe.NewScale(7))
			ct.LogDimensions = ring.Dimensions{Rows: 0, Cols: 2}
			ct.IsBatched = false
			return ct
		},
		derived: []derivedEval[*ckks.Evaluator]{
			{name: "shallowcopy", mk: func(p *poisoner) *ckks.Evaluator {
				parent := ckks.NewEvaluator(e.p, e.evk)
				p.ckksEval(parent)
				child := parent.ShallowCopy()
				p.ckksEval(parent)
				return child
			}},
			{name: "withkey", mk: func(p *poisoner) *ckks.Evaluator {
				parent := ckks.NewEvaluator(e.p, nil)
				p.ckksEval(parent)
				return parent.WithKey(cloneKeySet(e.evk))
			}},
		},
	}
}

func (e *ckksEnv) operands(level int, scale string) []opnd {
	ct1, ct2, pt := e.ct(level, scale, 1), e.ct(level, scale, 2), e.pt(level, scale)
	ptSp := e.ptSparse(level, scale)
	ctSp, err := e.enc.EncryptNew(ptSp)
	if err != nil {
		panic(err)
	}
	vc := e.vals()
	vf := make([]float64, len(vc))
	vbf := make([]*big.Float, len(vc))
	vbc := make([]*bignum.Complex, len(vc))
	for i := range vc {
		vf[i] = real(vc[i])
		vbf[i] = new(big.Float).SetPrec(128).SetFloat64(real(vc[i]))
		vbc[i] = &bignum.Complex{new(big.Float).SetPrec(128).SetFloat64(real(vc[i])), new(big.Float).SetPrec(128).SetFloat64(imag(vc[i]))}
	}
	cpBF := func() []*big.Float {
		o := make([]*big.Float, len(vbf))
		for i := range o {
			o[i] = new(big.Float).Copy(vbf[i])
		}
		return o
	}
	cpBC := func() []*bignum.Complex {
		o := make([]*bignum.Complex, len(vbc))
		for i := range o {
			o[i] = &bignum.Complex{new(big.Float).Copy(vbc[i][0]), new(big.Float).Copy(vbc[i][1])}
		}
		return o
	}
	bi := new(big.Int).SetUint64(e.rnd.U64() >> 40)
	bf := new(big.Float).SetPrec(128).SetFloat64(0.3721)
	bc := &bignum.Complex{new(big.Float).SetPrec(128).SetFloat64(-0.61), new(big.Float).SetPrec(128).SetFloat64(0.27)}
	cplx := complex(0.4, -0.7)
	if e.p.RingType() == ring.ConjugateInvariant {
		cplx = complex(0.4, 0)
		bc[1].SetFloat64(0)
	}
	return []opnd{
		{kind: "ct1", class: "ct", ptrish: true, mk: func() rlwe.Operand { return ct1.CopyNew() }},
		{kind: "ct2", class: "ct", ptrish: true, mk: func() rlwe.Operand { return ct2.CopyNew() }},
		{kind: "pt", class: "pt", ptrish: true, mk: func() rlwe.Operand { return pt.CopyNew() }},
		{kind: "complex128", class: "scalar", mk: func() rlwe.Operand { return cplx }},
		{kind: "float64", class: "scalar", mk: func() rlwe.Operand { return 0.37 }},
		{kind: "int", class: "scalar", mk: func() rlwe.Operand { return int(-3) }},
		{kind: "int64", class: "scalar", mk: func() rlwe.Operand { return int64(5) }},
		{kind: "uint64", class: "scalar", mk: func() rlwe.Operand { return uint64(7) }},
		{kind: "*big.Int", class: "scalar", ptrish: true, mk: func() rlwe.Operand { return new(big.Int).Set(bi) }},
		{kind: "*big.Float", class: "scalar", ptrish: true, mk: func() rlwe.Operand { return new(big.Float).Copy(bf) }},
		{kind: "*bignum.Complex", class: "scalar", ptrish: true, mk: func() rlwe.Operand {
			return &bignum.Complex{new(big.Float).Copy(bc[0]), new(big.Float).Copy(bc[1])}
		}},
		{kind: "[]complex128", class: "vector", ptrish: true, mk: func() rlwe.Operand { return append([]complex128(nil), vc...) }},
		{kind: "[]float64", class: "vector", ptrish: true, mk: func() rlwe.Operand { return append([]float64(nil), vf...) }},
		{kind: "[]*big.Float", class: "vector", ptrish: true, mk: func() rlwe.Operand { return cpBF() }},
		{kind: "[]*bignum.Complex", class: "vector", ptrish: true, mk: func() rlwe.Operand { return cpBC() }},
		// the remaining accepted scalar kind, boundary values of every kind, short vectors, sparse packing
		{kind: "uint", class: "scalar", mk: func() rlwe.Operand { return uint(11) }},
		{kind: "complex128", sub: "zero", class: "scalar", mk: func() rlwe.Operand { return complex(0, 0) }},
		{kind: "complex128", sub: "unit", class: "scalar", mk: func() rlwe.Operand {
			if e.p.RingType() == ring.ConjugateInvariant {
				return complex(-1, 0)
			}
			return complex(0, 1)
		}},
		{kind: "float64", sub: "zero", class: "scalar", mk: func() rlwe.Operand { return float64(0) }},
		{kind: "float64", sub: "minus-one", class: "scalar", mk: func() rlwe.Operand { return float64(-1) }},
		{kind: "float64", sub: "tiny", class: "scalar", mk: func() rlwe.Operand { return float64(1e-30) }},
		{kind: "int", sub: "zero", class: "scalar", mk: func() rlwe.Operand { return int(0) }},
		{kind: "int", sub: "one", class: "scalar", mk: func() rlwe.Operand { return int(1) }},
		{kind: "int", sub: "min", class: "scalar", mk: func() rlwe.Operand { return int(-1 << 63) }},
		{kind: "int64", sub: "min", class: "scalar", mk: func() rlwe.Operand { return int64(-1 << 63) }},
		{kind: "uint64", sub: "zero", class: "scalar", mk: func() rlwe.Operand { return uint64(0) }},
		{kind: "uint64", sub: "max", class: "scalar", mk: func() rlwe.Operand { return ^uint64(0) }},
		{kind: "*big.Int", sub: "zero", class: "scalar", ptrish: true, mk: func() rlwe.Operand { return new(big.Int) }},
		{kind: "*big.Int", sub: "neg-huge", class: "scalar", ptrish: true, mk: func() rlwe.Operand {
			return new(big.Int).Neg(new(big.Int).Lsh(big.NewInt(0x7654321), 100))
		}},
		{kind: "*big.Float", sub: "zero", class: "scalar", ptrish: true, mk: func() rlwe.Operand { return new(big.Float).SetPrec(128) }},
		{kind: "*big.Float", sub: "prec53", class: "scalar", ptrish: true, mk: func() rlwe.Operand { return big.NewFloat(-2.5) }},
		{kind: "*bignum.Complex", sub: "zero", class: "scalar", ptrish: true, mk: func() rlwe.Operand {
			return &bignum.Complex{new(big.Float).SetPrec(128), new(big.Float).SetPrec(128)}
		}},
		// a scalar that already has the working precision of the encoder (nothing has to be converted: the evaluator
		// may be tempted to work on the caller's numbers)
		{kind: "*bignum.Complex", sub: "encoder-precision", class: "scalar", ptrish: true, mk: func() rlwe.Operand {
			pr := e.p.EncodingPrecision()
			return &bignum.Complex{new(big.Float).SetPrec(pr).SetFloat64(-0.61), new(big.Float).SetPrec(pr).SetFloat64(0.27)}
		}},
		{kind: "*big.Float", sub: "encoder-precision", class: "scalar", ptrish: true, mk: func() rlwe.Operand {
			return new(big.Float).SetPrec(e.p.EncodingPrecision()).SetFloat64(0.3721)
		}},
		{kind: "[]complex128", sub: "len3", class: "vector", ptrish: true, mk: func() rlwe.Operand { return append([]complex128(nil), vc[:3]...) }},
		{kind: "[]float64", sub: "len1", class: "vector", ptrish: true, mk: func() rlwe.Operand { return []float64{vf[0]} }},
		{kind: "[]float64", sub: "zeros", class: "vector", ptrish: true, mk: func() rlwe.Operand { return make([]float64, len(vf)) }},
		{kind: "[]*big.Float", sub: "len2", class: "vector", ptrish: true, mk: func() rlwe.Operand { return cpBF()[:2] }},
		{kind: "[]*bignum.Complex", sub: "len2", class: "vector", ptrish: true, mk: func() rlwe.Operand { return cpBC()[:2] }},
		{kind: "pt", sub: "sparse", class: "pt", ptrish: true, mk: func() rlwe.Operand { return ptSp.CopyNew() }},
		{kind: "ct1", sub: "sparse", class: "ct", ptrish: true, mk: func() rlwe.Operand { return ctSp.CopyNew() }},
	}
}

var ckksBinary = []brow[*ckks.Evaluator]{
	{api: "ckks.Evaluator.Add", outDeg: maxi, call: func(ev *ckks.Evaluator, a *rlwe.Ciphertext, b rlwe.Operand, o *rlwe.Ciphertext) error {
		return ev.Add(a, b, o)
	}},
	{api: "ckks.Evaluator.Sub", outDeg: maxi, call: func(ev *ckks.Evaluator, a *rlwe.Ciphertext, b rlwe.Operand, o *rlwe.Ciphertext) error {
		return ev.Sub(a, b, o)
	}},
	{api: "ckks.Evaluator.Mul", outDeg: func(a, b int) int { return a + b }, call: func(ev *ckks.Evaluator, a *rlwe.Ciphertext, b rlwe.Operand, o *rlwe.Ciphertext) error {
		return ev.Mul(a, b, o)
	}},
	{api: "ckks.Evaluator.MulRelin", outDeg: func(a, b int) int { return 1 }, call: func(ev *ckks.Evaluator, a *rlwe.Ciphertext, b rlwe.Operand, o *rlwe.Ciphertext) error {
		return ev.MulRelin(a, b, o)
	}},
	{api: "ckks.Evaluator.MulThenAdd", accum: true, call: func(ev *ckks.Evaluator, a *rlwe.Ciphertext, b rlwe.Operand, o *rlwe.Ciphertext) error {
		return ev.MulThenAdd(a, b, o)
	}},
	{api: "ckks.Evaluator.MulRelinThenAdd", accum: true, call: func(ev *ckks.Evaluator, a *rlwe.Ciphertext, b rlwe.Operand, o *rlwe.Ciphertext) error {
		return ev.MulRelinThenAdd(a, b, o)
	}},
}

func ckksRowNames() (n []string) {
	for _, r := range ckksBinary {
		n = append(n, r.api)
	}
	return
}

func runCKKSBinary(c *eng.Ctx, cfg pcfg, api string) {
	e, err := newCKKSEnv(cfg, c.Rand())
	if err != nil {
		c.Inconclusive("parameters rejected: " + err.Error())
		return
	}
	t := &T{c: c, tag: cfg.tag()}
	s := e.scheme()
	var row brow[*ckks.Evaluator]
	for _, r := range ckksBinary {
		if r.api == api {
			row = r
		}
	}
	L := e.p.MaxLevel()
	c.Sample(map[string]any{"params": cfg, "method": row.api, "patterns": "fresh,out=op0,out=op1,op0=op1,op0=op1=out,hist-poison0..2,hist-warm,hist-out"})
	type variant struct {
		name     string
		la, lb   int
		sa, sb   string
		da       int
		accLvl   int
		accScale string
		accDeg   int
		onlyCt   bool
		withSame bool
	}
	vs := []variant{
		{name: "eq", la: L, lb: L, da: 1, accLvl: L, accScale: "sq", accDeg: 1, withSame: true},
		{name: "eq/acc-same-scale", la: L, lb: L, da: 1, accLvl: L, accScale: "", accDeg: 2},
		{name: "eq/acc-xq", la: L, lb: L, da: 1, accLvl: L, accScale: "xq", accDeg: 1},
		{name: "lvl-a>b", la: L, lb: L - 1, da: 1, accLvl: L, accScale: "sq", accDeg: 2},
		{name: "lvl-a<b", la: L - 1, lb: L, da: 1, accLvl: L - 1, accScale: "sq", accDeg: 1},
		{name: "scale-ne", la: L, lb: L, sa: "", sb: "x3", da: 1, accLvl: L, accScale: "sq", accDeg: 1, withSame: true},
		{name: "scale-ne/a>b", la: L, lb: L - 1, sa: "x3", sb: "", da: 1, accLvl: L - 1, accScale: "sq", accDeg: 2, onlyCt: true},
		{name: "scale-near", la: L, lb: L, sa: "", sb: "near", da: 1, accLvl: L, accScale: "sq", accDeg: 1, onlyCt: true},
		{name: "scale-near/a>b", la: L - 1, lb: L, sa: "near", sb: "", da: 1, accLvl: L, accScale: "sq", accDeg: 1, onlyCt: true},
		{name: "deg-a2", la: L, lb: L, da: 2, accLvl: L, accScale: "sq", accDeg: 2, onlyCt: true},
		{name: "deg-a2/scale-ne", la: L, lb: L, sa: "", sb: "x3", da: 2, accLvl: L, accScale: "sq", accDeg: 2, onlyCt: true},
		// the single-modulus level
		{name: "lvl0", la: 0, lb: 0, da: 1, accLvl: 0, accScale: "sq", accDeg: 1, withSame: true},
	}
	for _, v := range vs {
		if !row.accum && strings.Contains(v.name, "/acc-") {
			continue
		}
		a := e.ct(v.la, v.sa, v.da)
		var acc *rlwe.Ciphertext
		if row.accum {
			acc = e.ct(v.accLvl, v.accScale, v.accDeg)
		}
		for _, b := range e.operands(v.lb, v.sb) {
			if v.onlyCt && b.class != "ct" && b.class != "pt" {
				continue
			}
			vn := v.name
			if b.sub != "" {
				// boundary values: once per method, at the top level
				if v.name != "eq" {
					continue
				}
				vn += "/x:" + b.sub
				c.Count("boundary_operand_rows", 1)
			}
			ws := v.withSame && b.kind == "ct1" && b.sub == ""
			runBinary(t, s, row, vn, a, b, acc, ws)
		}
	}
}

type ckksUnary struct {
	name string
	deg  int
	row  func(e *ckksEnv) urow[*ckks.Evaluator]
}

var ckksUnaries = []ckksUnary{
	{name: "ckks.Evaluator.Rescale", deg: 1, row: func(e *ckksEnv) urow[*ckks.Evaluator] {
		return urow[*ckks.Evaluator]{outDeg: same1, outLvl: func(l int) int { return l - 1 }, call: func(ev *ckks.Evaluator, in, out *rlwe.Ciphertext) error { return ev.Rescale(in, out) }}
	}},
	{name: "ckks.Evaluator.Rescale/deg2", deg: 2, row: func(e *ckksEnv) urow[*ckks.Evaluator] {
		return urow[*ckks.Evaluator]{outDeg: same1, outLvl: func(l int) int { return l - 1 }, call: func(ev *ckks.Evaluator, in, out *rlwe.Ciphertext) error { return ev.Rescale(in, out) }}
	}},
	{name: "ckks.Evaluator.RescaleTo", deg: 1, row: func(e *ckksEnv) urow[*ckks.Evaluator] {
		return urow[*ckks.Evaluator]{outDeg: same1, outLvl: func(l int) int { return l - 1 }, call: func(ev *ckks.Evaluator, in, out *rlwe.Ciphertext) error {
			return ev.RescaleTo(in, e.p.DefaultScale(), out)
		}}
	}},
	{name: "ckks.Evaluator.ScaleUp", deg: 1, row: func(e *ckksEnv) urow[*ckks.Evaluator] {
		return urow[*ckks.Evaluator]{outDeg: same1, call: func(ev *ckks.Evaluator, in, out *rlwe.Ciphertext) error {
			return ev.ScaleUp(in, rlwe.NewScale(1<<20), out)
		}}
	}},
	{name: "ckks.Evaluator.Relinearize", deg: 2, row: func(e *ckksEnv) urow[*ckks.Evaluator] {
		return urow[*ckks.Evaluator]{outDeg: func(int) int { return 1 }, call: func(ev *ckks.Evaluator, in, out *rlwe.Ciphertext) error { return ev.Relinearize(in, out) }}
	}},
	{name: "ckks.Evaluator.Rotate", deg: 1, row: func(e *ckksEnv) urow[*ckks.Evaluator] {
		return urow[*ckks.Evaluator]{outDeg: same1, call: func(ev *ckks.Evaluator, in, out *rlwe.Ciphertext) error { return ev.Rotate(in, 3, out) }}
	}},
	{name: "ckks.Evaluator.Rotate/k0", deg: 1, row: func(e *ckksEnv) urow[*ckks.Evaluator] {
		return urow[*ckks.Evaluator]{outDeg: same1, call: func(ev *ckks.Evaluator, in, out *rlwe.Ciphertext) error { return ev.Rotate(in, 0, out) }}
	}},
	{name: "ckks.Evaluator.Conjugate", deg: 1, row: func(e *ckksEnv) urow[*ckks.Evaluator] {
		return urow[*ckks.Evaluator]{outDeg: same1, call: func(ev *ckks.Evaluator, in, out *rlwe.Ciphertext) error { return ev.Conjugate(in, out) }}
	}},
	{name: "ckks.Evaluator.InnerSum", deg: 1, row: func(e *ckksEnv) urow[*ckks.Evaluator] {
		return urow[*ckks.Evaluator]{outDeg: same1, call: func(ev *ckks.Evaluator, in, out *rlwe.Ciphertext) error { return ev.InnerSum(in, 2, 4, out) }}
	}},
	{name: "ckks.Evaluator.InnerSum/n1", deg: 1, row: func(e *ckksEnv) urow[*ckks.Evaluator] {
		return urow[*ckks.Evaluator]{outDeg: same1, call: func(ev *ckks.Evaluator, in, out *rlwe.Ciphertext) error { return ev.InnerSum(in, 4, 1, out) }}
	}},
	{name: "ckks.Evaluator.RotateAndAdd", deg: 1, row: func(e *ckksEnv) urow[*ckks.Evaluator] {
		return urow[*ckks.Evaluator]{outDeg: same1, call: func(ev *ckks.Evaluator, in, out *rlwe.Ciphertext) error { return ev.RotateAndAdd(in, 2, 3, out) }}
	}},
	{name: "ckks.Evaluator.Replicate", deg: 1, row: func(e *ckksEnv) urow[*ckks.Evaluator] {
		return urow[*ckks.Evaluator]{outDeg: same1, call: func(ev *ckks.Evaluator, in, out *rlwe.Ciphertext) error { return ev.Replicate(in, 2, 3, out) }}
	}},
	{name: "ckks.Evaluator.ApplyEvaluationKey", deg: 1, row: func(e *ckksEnv) urow[*ckks.Evaluator] {
		return urow[*ckks.Evaluator]{outDeg: same1, call: func(ev *ckks.Evaluator, in, out *rlwe.Ciphertext) error { return ev.ApplyEvaluationKey(in, e.swk, out) }}
	}},
}

func ckksUnaryNames() (n []string) {
	for _, r := range ckksUnaries {
		n = append(n, r.name)
	}
	return
}

func runCKKSUnary(c *eng.Ctx, cfg pcfg, name string) {
	e, err := newCKKSEnv(cfg, c.Rand())
	if err != nil {
		c.Inconclusive("parameters rejected: " + err.Error())
		return
	}
	t := &T{c: c, tag: cfg.tag()}
	s := e.scheme()
	var u ckksUnary
	for _, r := range ckksUnaries {
		if r.name == name {
			u = r
		}
	}
	row := u.row(e)
	row.api = apiOf(name)
	L := e.p.MaxLevel()
	c.Sample(map[string]any{"params": cfg, "method": name, "patterns": "fresh,out=in,hist-poison0..2,hist-warm,hist-out"})
	extra := []named{{"evk", e.evk}, {"swk", e.swk}}
	sub := ""
	if i := strings.IndexByte(name, '/'); i >= 0 {
		sub = name[i:]
	}
	for _, v := range []struct {
		name  string
		lvl   int
		scale string
	}{{"top", L, "sq"}, {"lvl-1", L - 1, "x3"}, {"lvl1", 1, ""}, {"lvl0", 0, ""}} {
		if e.cfg.Ring == "ci" && strings.HasSuffix(apiOf(name), "Conjugate") {
			continue
		}
		if row.outLvl != nil && row.outLvl(v.lvl) < 0 {
			continue // no level left to consume
		}
		a := e.ct(v.lvl, v.scale, u.deg)
		runUnary(t, s, row, sub, v.name, a, extra)
	}
}
