package c09

// ring.Ring operations (ring/operations.go, ring/scaling.go, ring/ntt.go): inputs intact and every
// aliasing pattern of (p1, p2, p3) gives the result of the run with distinct polynomials.

import (
	"fmt"
	"math/big"

	"github.com/tuneinsight/lattigo/v6/ring"

	"verif/harness/eng"
)

type ringRow struct {
	name  string
	arity int  // number of polynomial inputs besides the output (1 or 2)
	accum bool // the output is read (…ThenAdd…)
	noAli bool // aliasing documented as unsupported
	drop  int  // the output may be this many levels below the input (scaling ops)
	ntt   bool
	call  func(r *ring.Ring, x *ringAux, p1, p2, p3 ring.Poly)
}

type ringAux struct {
	u    uint64
	big  *big.Int
	s0   ring.RNSScalar
	s1   ring.RNSScalar
	sm   ring.RNSScalar
	vec  []uint64
	buff ring.Poly
	idx  []uint64
	gal  uint64
	k    int
}

func (x *ringAux) inputs() []named {
	return []named{{"scalar:*big.Int", x.big}, {"scalar0:RNSScalar", &x.s0}, {"scalar1:RNSScalar", &x.s1}, {"scalar:RNSScalar", &x.sm}, {"vector:[]uint64", &x.vec}, {"index:[]uint64", &x.idx}}
}

var ringRows = []ringRow{
	{name: "Add", arity: 2, call: func(r *ring.Ring, x *ringAux, a, b, c ring.Poly) { r.Add(a, b, c) }},
	{name: "AddLazy", arity: 2, call: func(r *ring.Ring, x *ringAux, a, b, c ring.Poly) { r.AddLazy(a, b, c) }},
	{name: "Sub", arity: 2, call: func(r *ring.Ring, x *ringAux, a, b, c ring.Poly) { r.Sub(a, b, c) }},
	{name: "SubLazy", arity: 2, call: func(r *ring.Ring, x *ringAux, a, b, c ring.Poly) { r.SubLazy(a, b, c) }},
	{name: "MulCoeffsBarrett", arity: 2, call: func(r *ring.Ring, x *ringAux, a, b, c ring.Poly) { r.MulCoeffsBarrett(a, b, c) }},
	{name: "MulCoeffsBarrettLazy", arity: 2, call: func(r *ring.Ring, x *ringAux, a, b, c ring.Poly) { r.MulCoeffsBarrettLazy(a, b, c) }},
	{name: "MulCoeffsBarrettThenAdd", arity: 2, accum: true, call: func(r *ring.Ring, x *ringAux, a, b, c ring.Poly) { r.MulCoeffsBarrettThenAdd(a, b, c) }},
	{name: "MulCoeffsBarrettThenAddLazy", arity: 2, accum: true, call: func(r *ring.Ring, x *ringAux, a, b, c ring.Poly) { r.MulCoeffsBarrettThenAddLazy(a, b, c) }},
	{name: "MulCoeffsMontgomery", arity: 2, call: func(r *ring.Ring, x *ringAux, a, b, c ring.Poly) { r.MulCoeffsMontgomery(a, b, c) }},
	{name: "MulCoeffsMontgomeryLazy", arity: 2, call: func(r *ring.Ring, x *ringAux, a, b, c ring.Poly) { r.MulCoeffsMontgomeryLazy(a, b, c) }},
	{name: "MulCoeffsMontgomeryLazyThenNeg", arity: 2, call: func(r *ring.Ring, x *ringAux, a, b, c ring.Poly) { r.MulCoeffsMontgomeryLazyThenNeg(a, b, c) }},
	{name: "MulCoeffsMontgomeryThenAdd", arity: 2, accum: true, call: func(r *ring.Ring, x *ringAux, a, b, c ring.Poly) { r.MulCoeffsMontgomeryThenAdd(a, b, c) }},
	{name: "MulCoeffsMontgomeryThenAddLazy", arity: 2, accum: true, call: func(r *ring.Ring, x *ringAux, a, b, c ring.Poly) { r.MulCoeffsMontgomeryThenAddLazy(a, b, c) }},
	{name: "MulCoeffsMontgomeryLazyThenAddLazy", arity: 2, accum: true, call: func(r *ring.Ring, x *ringAux, a, b, c ring.Poly) { r.MulCoeffsMontgomeryLazyThenAddLazy(a, b, c) }},
	{name: "MulCoeffsMontgomeryThenSub", arity: 2, accum: true, call: func(r *ring.Ring, x *ringAux, a, b, c ring.Poly) { r.MulCoeffsMontgomeryThenSub(a, b, c) }},
	{name: "MulCoeffsMontgomeryThenSubLazy", arity: 2, accum: true, call: func(r *ring.Ring, x *ringAux, a, b, c ring.Poly) { r.MulCoeffsMontgomeryThenSubLazy(a, b, c) }},
	{name: "MulCoeffsMontgomeryLazyThenSubLazy", arity: 2, accum: true, call: func(r *ring.Ring, x *ringAux, a, b, c ring.Poly) { r.MulCoeffsMontgomeryLazyThenSubLazy(a, b, c) }},
	{name: "Neg", arity: 1, call: func(r *ring.Ring, x *ringAux, a, b, c ring.Poly) { r.Neg(a, c) }},
	{name: "Reduce", arity: 1, call: func(r *ring.Ring, x *ringAux, a, b, c ring.Poly) { r.Reduce(a, c) }},
	{name: "ReduceLazy", arity: 1, call: func(r *ring.Ring, x *ringAux, a, b, c ring.Poly) { r.ReduceLazy(a, c) }},
	{name: "MForm", arity: 1, call: func(r *ring.Ring, x *ringAux, a, b, c ring.Poly) { r.MForm(a, c) }},
	{name: "MFormLazy", arity: 1, call: func(r *ring.Ring, x *ringAux, a, b, c ring.Poly) { r.MFormLazy(a, c) }},
	{name: "IMForm", arity: 1, call: func(r *ring.Ring, x *ringAux, a, b, c ring.Poly) { r.IMForm(a, c) }},
	{name: "NTT", arity: 1, call: func(r *ring.Ring, x *ringAux, a, b, c ring.Poly) { r.NTT(a, c) }},
	{name: "NTTLazy", arity: 1, call: func(r *ring.Ring, x *ringAux, a, b, c ring.Poly) { r.NTTLazy(a, c) }},
	{name: "INTT", arity: 1, call: func(r *ring.Ring, x *ringAux, a, b, c ring.Poly) { r.INTT(a, c) }},
	{name: "INTTLazy", arity: 1, call: func(r *ring.Ring, x *ringAux, a, b, c ring.Poly) { r.INTTLazy(a, c) }},
	{name: "AddScalar", arity: 1, call: func(r *ring.Ring, x *ringAux, a, b, c ring.Poly) { r.AddScalar(a, x.u, c) }},
	{name: "AddScalarBigint", arity: 1, call: func(r *ring.Ring, x *ringAux, a, b, c ring.Poly) { r.AddScalarBigint(a, x.big, c) }},
	{name: "SubScalar", arity: 1, call: func(r *ring.Ring, x *ringAux, a, b, c ring.Poly) { r.SubScalar(a, x.u, c) }},
	{name: "SubScalarBigint", arity: 1, call: func(r *ring.Ring, x *ringAux, a, b, c ring.Poly) { r.SubScalarBigint(a, x.big, c) }},
	{name: "MulScalar", arity: 1, call: func(r *ring.Ring, x *ringAux, a, b, c ring.Poly) { r.MulScalar(a, x.u, c) }},
	{name: "MulScalarThenAdd", arity: 1, accum: true, call: func(r *ring.Ring, x *ringAux, a, b, c ring.Poly) { r.MulScalarThenAdd(a, x.u, c) }},
	{name: "MulScalarThenSub", arity: 1, accum: true, call: func(r *ring.Ring, x *ringAux, a, b, c ring.Poly) { r.MulScalarThenSub(a, x.u, c) }},
	{name: "MulScalarBigint", arity: 1, call: func(r *ring.Ring, x *ringAux, a, b, c ring.Poly) { r.MulScalarBigint(a, x.big, c) }},
	{name: "MulScalarBigintThenAdd", arity: 1, accum: true, call: func(r *ring.Ring, x *ringAux, a, b, c ring.Poly) { r.MulScalarBigintThenAdd(a, x.big, c) }},
	{name: "MulRNSScalarMontgomery", arity: 1, call: func(r *ring.Ring, x *ringAux, a, b, c ring.Poly) { r.MulRNSScalarMontgomery(a, x.sm, c) }},
	{name: "AddDoubleRNSScalar", arity: 1, call: func(r *ring.Ring, x *ringAux, a, b, c ring.Poly) { r.AddDoubleRNSScalar(a, x.s0, x.s1, c) }},
	{name: "SubDoubleRNSScalar", arity: 1, call: func(r *ring.Ring, x *ringAux, a, b, c ring.Poly) { r.SubDoubleRNSScalar(a, x.s0, x.s1, c) }},
	{name: "MulDoubleRNSScalar", arity: 1, call: func(r *ring.Ring, x *ringAux, a, b, c ring.Poly) { r.MulDoubleRNSScalar(a, x.s0, x.s1, c) }},
	{name: "MulDoubleRNSScalarThenAdd", arity: 1, accum: true, call: func(r *ring.Ring, x *ringAux, a, b, c ring.Poly) { r.MulDoubleRNSScalarThenAdd(a, x.s0, x.s1, c) }},
	{name: "Shift", arity: 1, call: func(r *ring.Ring, x *ringAux, a, b, c ring.Poly) { r.Shift(a, x.k, c) }},
	{name: "MultByMonomial", arity: 1, call: func(r *ring.Ring, x *ringAux, a, b, c ring.Poly) { r.MultByMonomial(a, x.k, c) }},
	{name: "MulByVectorMontgomery", arity: 1, call: func(r *ring.Ring, x *ringAux, a, b, c ring.Poly) { r.MulByVectorMontgomery(a, x.vec, c) }},
	{name: "MulByVectorMontgomeryThenAddLazy", arity: 1, accum: true, call: func(r *ring.Ring, x *ringAux, a, b, c ring.Poly) { r.MulByVectorMontgomeryThenAddLazy(a, x.vec, c) }},
	{name: "EvalPolyScalar", arity: 2, call: func(r *ring.Ring, x *ringAux, a, b, c ring.Poly) { r.EvalPolyScalar([]ring.Poly{a, b}, x.u, c) }},
	// documented: "the result cannot be in-place"
	{name: "Automorphism", arity: 1, noAli: true, call: func(r *ring.Ring, x *ringAux, a, b, c ring.Poly) { r.Automorphism(a, x.gal, c) }},
	{name: "AutomorphismNTT", arity: 1, noAli: true, call: func(r *ring.Ring, x *ringAux, a, b, c ring.Poly) { r.AutomorphismNTT(a, x.gal, c) }},
	{name: "AutomorphismNTTWithIndex", arity: 1, noAli: true, call: func(r *ring.Ring, x *ringAux, a, b, c ring.Poly) { r.AutomorphismNTTWithIndex(a, x.idx, c) }},
	{name: "AutomorphismNTTWithIndexThenAddLazy", arity: 1, noAli: true, accum: true, call: func(r *ring.Ring, x *ringAux, a, b, c ring.Poly) {
		r.AutomorphismNTTWithIndexThenAddLazy(a, x.idx, c)
	}},
	// scaling (the output may be one / nbRescales levels lower)
	{name: "DivFloorByLastModulus", arity: 1, drop: 1, call: func(r *ring.Ring, x *ringAux, a, b, c ring.Poly) { r.DivFloorByLastModulus(a, c) }},
	{name: "DivFloorByLastModulusNTT", arity: 1, drop: 1, call: func(r *ring.Ring, x *ringAux, a, b, c ring.Poly) { r.DivFloorByLastModulusNTT(a, x.buff, c) }},
	{name: "DivFloorByLastModulusMany", arity: 1, drop: 2, call: func(r *ring.Ring, x *ringAux, a, b, c ring.Poly) { r.DivFloorByLastModulusMany(2, a, x.buff, c) }},
	{name: "DivFloorByLastModulusMany/1", arity: 1, drop: 1, call: func(r *ring.Ring, x *ringAux, a, b, c ring.Poly) { r.DivFloorByLastModulusMany(1, a, x.buff, c) }},
	{name: "DivFloorByLastModulusManyNTT", arity: 1, drop: 2, call: func(r *ring.Ring, x *ringAux, a, b, c ring.Poly) { r.DivFloorByLastModulusManyNTT(2, a, x.buff, c) }},
	{name: "DivRoundByLastModulus", arity: 1, drop: 1, call: func(r *ring.Ring, x *ringAux, a, b, c ring.Poly) { r.DivRoundByLastModulus(a, c) }},
	{name: "DivRoundByLastModulusNTT", arity: 1, drop: 1, call: func(r *ring.Ring, x *ringAux, a, b, c ring.Poly) { r.DivRoundByLastModulusNTT(a, x.buff, c) }},
	{name: "DivRoundByLastModulusMany", arity: 1, drop: 2, call: func(r *ring.Ring, x *ringAux, a, b, c ring.Poly) { r.DivRoundByLastModulusMany(2, a, x.buff, c) }},
	{name: "DivRoundByLastModulusMany/1", arity: 1, drop: 1, call: func(r *ring.Ring, x *ringAux, a, b, c ring.Poly) { r.DivRoundByLastModulusMany(1, a, x.buff, c) }},
	{name: "DivRoundByLastModulusManyNTT", arity: 1, drop: 2, call: func(r *ring.Ring, x *ringAux, a, b, c ring.Poly) { r.DivRoundByLastModulusManyNTT(2, a, x.buff, c) }},
	{name: "DivRoundByLastModulusManyNTT/1", arity: 1, drop: 1, call: func(r *ring.Ring, x *ringAux, a, b, c ring.Poly) { r.DivRoundByLastModulusManyNTT(1, a, x.buff, c) }},
	// (appended rows: the case ids rowsNN of the rows above stay what they were)
	{name: "DivFloorByLastModulusManyNTT/1", arity: 1, drop: 1, call: func(r *ring.Ring, x *ringAux, a, b, c ring.Poly) { r.DivFloorByLastModulusManyNTT(1, a, x.buff, c) }},
	{name: "DivFloorByLastModulusMany/0", arity: 1, call: func(r *ring.Ring, x *ringAux, a, b, c ring.Poly) { r.DivFloorByLastModulusMany(0, a, x.buff, c) }},
	{name: "DivFloorByLastModulusManyNTT/0", arity: 1, call: func(r *ring.Ring, x *ringAux, a, b, c ring.Poly) { r.DivFloorByLastModulusManyNTT(0, a, x.buff, c) }},
	{name: "DivRoundByLastModulusMany/0", arity: 1, call: func(r *ring.Ring, x *ringAux, a, b, c ring.Poly) { r.DivRoundByLastModulusMany(0, a, x.buff, c) }},
	{name: "DivRoundByLastModulusManyNTT/0", arity: 1, call: func(r *ring.Ring, x *ringAux, a, b, c ring.Poly) { r.DivRoundByLastModulusManyNTT(0, a, x.buff, c) }},
}

// rows whose auxiliary arguments (scalars, vectors, shifts) are also run at their boundary values
var ringAuxRows = map[string]bool{"AddScalar": true, "AddScalarBigint": true, "SubScalar": true, "SubScalarBigint": true, "MulScalar": true,
	"MulScalarThenAdd": true, "MulScalarThenSub": true, "MulScalarBigint": true, "MulScalarBigintThenAdd": true, "MulRNSScalarMontgomery": true,
	"AddDoubleRNSScalar": true, "SubDoubleRNSScalar": true, "MulDoubleRNSScalar": true, "MulDoubleRNSScalarThenAdd": true, "Shift": true,
	"MultByMonomial": true, "MulByVectorMontgomery": true, "MulByVectorMontgomeryThenAddLazy": true, "EvalPolyScalar": true}

func randPoly(r *ring.Ring, rnd *eng.Rand) ring.Poly {
	p := r.NewPoly()
	s := rnd.U64() | 1
	for i := range p.Coeffs {
		q := r.SubRings[i].Modulus
		for j := range p.Coeffs[i] {
			s ^= s << 13
			s ^= s >> 7
			s ^= s << 17
			p.Coeffs[i][j] = s % q
		}
	}
	return p
}

func cpPoly(p ring.Poly) ring.Poly { return *p.CopyNew() }

func runRingOps(c *eng.Ctx, cfg pcfg, lo, hi int) {
	rt := ring.Standard
	if cfg.Ring == "ci" {
		rt = ring.ConjugateInvariant
	}
	rFull, err := ring.NewRingFromType(1<<cfg.LogN, cfg.Q, rt)
	if err != nil {
		c.Inconclusive("ring rejected: " + err.Error())
		return
	}
	t := &T{c: c, tag: cfg.tag()}
	rnd := c.Rand()
	c.Sample(map[string]any{"ring": cfg, "rows": fmt.Sprintf("%d..%d of %d", lo, hi, len(ringRows)), "patterns": "fresh,p3=p1,p3=p2,p1=p2,p1=p2=p3"})
	type lvlAux struct {
		level int
		aux   string
	}
	// the two highest levels (as before), then the single-modulus level and the boundary values of the
	// auxiliary arguments (zero / maximal, unreduced scalars, shifts by 0, N-1 and beyond 2N)
	plan := []lvlAux{{rFull.MaxLevel(), ""}, {rFull.MaxLevel() - 1, ""}}
	if rFull.MaxLevel()-1 > 0 {
		plan = append(plan, lvlAux{0, ""})
	}
	plan = append(plan, lvlAux{rFull.MaxLevel(), "zero"}, lvlAux{rFull.MaxLevel(), "max"}, lvlAux{0, "max"})
	for _, la := range plan {
		level, auxKind := la.level, la.aux
		r := rFull.AtLevel(level)
		for ri := lo; ri < hi && ri < len(ringRows); ri++ {
			row := ringRows[ri]
			if row.drop > level {
				continue
			}
			if auxKind != "" && !ringAuxRows[row.name] {
				continue
			}
			api := "ring.Ring." + apiOf(row.name)
			variant := fmt.Sprintf("lvl%d", level)
			if auxKind != "" {
				variant += "/x:" + auxKind
				c.Count("boundary_operand_rows", 1)
			}
			// operands at the level of the ring
			A, B, C := randPoly(r, rnd), randPoly(r, rnd), randPoly(r, rnd)
			gal := uint64(5)
			idx, _ := ring.AutomorphismNTTIndex(r.N(), r.NthRoot(), gal)
			mkAux := func() *ringAux {
				x := &ringAux{u: 0x9E3779B97F4A7C15 % r.SubRings[0].Modulus, big: new(big.Int).Lsh(big.NewInt(-0x1234567), 90), gal: gal, k: 3,
					idx: append([]uint64(nil), idx...), buff: rFull.NewPoly()}
				x.s0, x.s1, x.sm = r.NewRNSScalarFromUInt64(11), r.NewRNSScalarFromUInt64(1<<40+3), r.NewRNSScalarFromUInt64(77)
				r.MFormRNSScalar(x.sm, x.sm)
				x.vec = append([]uint64(nil), A.Coeffs[0]...)
				for i := range x.vec {
					x.vec[i] %= minMod(r)
				}
				switch auxKind {
				case "zero":
					x.u, x.big, x.k = 0, new(big.Int), 0
					x.s0, x.s1, x.sm = r.NewRNSScalarFromUInt64(0), r.NewRNSScalarFromUInt64(0), r.NewRNSScalarFromUInt64(0)
					for i := range x.vec {
						x.vec[i] = 0
					}
				case "max":
					x.u, x.big, x.k = ^uint64(0), new(big.Int).Lsh(big.NewInt(0x7654321), 200), -(2*r.N() + 3)
					x.s0, x.s1 = r.NewRNSScalarFromBigint(big.NewInt(-1)), r.NewRNSScalarFromBigint(big.NewInt(-2))
					x.sm = r.NewRNSScalarFromBigint(big.NewInt(-1))
					r.MFormRNSScalar(x.sm, x.sm)
					for i := range x.vec {
						x.vec[i] = minMod(r) - 1
					}
				}
				p := newPoisoner(rnd, 1)
				p.poly(x.buff)
				return x
			}
			outLike := func() ring.Poly {
				// freshly allocated output at the lowest level the operation documents
				if row.accum {
					return cpPoly(C)
				}
				return ring.NewPoly(r.N(), level-row.drop)
			}
			rOut := rFull.AtLevel(level - row.drop)
			canon := func(p ring.Poly) cval {
				q := ring.Poly{Coeffs: p.Coeffs[:level-row.drop+1]}
				return canonPoly(rOut, q)
			}
			where := func(p string) string {
				return fmt.Sprintf("%s pattern=%s level=%d N=%d", api, p, level, r.N())
			}
			pred := ""
			if i := len(apiOf(row.name)); i < len(row.name) {
				pred = row.name[i+1:]
			}
			// baseline
			a1, b1, o1 := cpPoly(A), cpPoly(B), outLike()
			x1 := mkAux()
			t.distinct(api, "fresh", "poly", variant+row.name, true)
			in0 := "p1"
			if row.drop > 0 {
				in0 = "p0" // the scaling operations name their input p0
			}
			ins := append([]named{{in0, &a1}}, x1.inputs()...)
			if row.arity == 2 {
				ins = append(ins, named{"p2", &b1})
			}
			if !t.guarded(api, "", where("fresh"), ins, func() error { row.call(r, x1, a1, b1, o1); return nil }).ok() {
				continue
			}
			r0 := canon(o1)
			// the rows of the output polynomial must still be the caller's (p3.Coeffs[i] = p1.Coeffs[i] would share them)
			t.independentAny(api, where("fresh"), []any{&o1}, ins)
			if row.noAli {
				continue
			}
			// reference with the accumulator initialised as a copy of the aliased input
			refWith := func(init ring.Poly, sameP12 bool) cval {
				a, b, o := cpPoly(A), cpPoly(B), cpPoly(init)
				if sameP12 {
					b = cpPoly(A)
				}
				row.call(r, mkAux(), a, b, o)
				return canon(o)
			}
			// p3 == p1
			{
				t.distinct(api, "p3=p1", "poly", variant+row.name, true)
				ref := r0
				if row.accum {
					ref = refWith(A, false)
				}
				a, b := cpPoly(A), cpPoly(B)
				x := mkAux()
				ins := x.inputs()
				if row.arity == 2 {
					ins = append(ins, named{"p2", &b})
				}
				if t.guarded(api, pred, where("p3=p1"), ins, func() error { row.call(r, x, a, b, a); return nil }).ok() {
					t.same(api, "alias-out-p1", pred, where("p3=p1"), ref, canon(a))
				}
			}
			if row.arity == 2 {
				{
					t.distinct(api, "p3=p2", "poly", variant+row.name, true)
					ref := r0
					if row.accum {
						ref = refWith(B, false)
					}
					a, b := cpPoly(A), cpPoly(B)
					x := mkAux()
					if t.guarded(api, pred, where("p3=p2"), append(x.inputs(), named{"p1", &a}), func() error { row.call(r, x, a, b, b); return nil }).ok() {
						t.same(api, "alias-out-p2", pred, where("p3=p2"), ref, canon(b))
					}
				}
				{
					t.distinct(api, "p1=p2", "poly", variant+row.name, true)
					ref := refWith(func() ring.Poly {
						if row.accum {
							return C
						}
						return outLike()
					}(), true)
					a, o := cpPoly(A), outLike()
					x := mkAux()
					if t.guarded(api, pred, where("p1=p2"), append(x.inputs(), named{"p1", &a}), func() error { row.call(r, x, a, a, o); return nil }).ok() {
						t.same(api, "alias-p1-p2", pred, where("p1=p2"), ref, canon(o))
					}
					t.distinct(api, "p1=p2=p3", "poly", variant+row.name, true)
					refA := ref
					if row.accum {
						refA = refWith(A, true)
					}
					a2 := cpPoly(A)
					if o := protect(func() error { row.call(r, mkAux(), a2, a2, a2); return nil }); o.ok() {
						t.same(api, "alias-all", pred, where("p1=p2=p3"), refA, canon(a2))
					} else {
						t.c.Violate("C09|"+api+"|panic|alias-all", fmt.Sprintf("%s: panic: %v at %s", where("p1=p2=p3"), o.pval, o.stack), nil)
					}
				}
			}
			// output with residue / higher level than needed
			if !row.accum {
				t.distinct(api, "hist-out", "poly", variant+row.name, true)
				a, b := cpPoly(A), cpPoly(B)
				o := randPoly(r, rnd)
				if protect(func() error { row.call(r, mkAux(), a, b, o); return nil }).ok() {
					t.same(api, "history-out", pred, where("hist-out"), r0, canon(o))
				}
			}
		}
	}
}

func minMod(r *ring.Ring) uint64 {
	m := r.SubRings[0].Modulus
	for _, s := range r.SubRings[:r.Level()+1] {
		if s.Modulus < m {
			m = s.Modulus
		}
	}
	return m
}

// runRingMapDim: the free function MapSmallDimensionToLargerDimensionNTT (ring/operations.go).
func runRingMapDim(c *eng.Ctx, cfg pcfg) {
	rt := ring.Standard
	if cfg.Ring == "ci" {
		rt = ring.ConjugateInvariant
	}
	logS := cfg.LogN - 2
	if logS < 3 {
		logS = cfg.LogN - 1
	}
	rL, err1 := ring.NewRingFromType(1<<cfg.LogN, cfg.Q, rt)
	if err1 != nil {
		c.Inconclusive("ring rejected: " + err1.Error())
		return
	}
	rS, err2 := ring.NewRingFromType(1<<logS, cfg.Q, rt)
	if err2 != nil {
		// no smaller ring over these moduli: nothing to map from
		c.Count("rows_not_applicable", 1)
		return
	}
	t := &T{c: c, tag: cfg.tag()}
	rnd := c.Rand()
	c.Sample(map[string]any{"ring": cfg, "area": "ring.MapSmallDimensionToLargerDimensionNTT", "patterns": "fresh,hist-out"})
	for _, v := range []struct {
		name   string
		ls, ll int
	}{{"top", rL.MaxLevel(), rL.MaxLevel()}, {"small-lower", 0, rL.MaxLevel()}, {"large-lower", rL.MaxLevel(), 0}} {
		v := v
		S := randPoly(rS.AtLevel(v.ls), rnd)
		t.runPatterns("ring.MapSmallDimensionToLargerDimensionNTT", v.name, "", []string{"hist-out"}, func(pat string) ([]named, func() (string, error)) {
			in := cpPoly(S)
			out := rL.AtLevel(v.ll).NewPoly()
			if pat == "hist-out" {
				out = randPoly(rL.AtLevel(v.ll), rnd)
			}
			lo := min(v.ls, v.ll)
			t.out(&out)
			return []named{{"polSmall", &in}}, func() (string, error) {
				ring.MapSmallDimensionToLargerDimensionNTT(in, out)
				// (only the rows of the common levels are outputs)
				return cvalString(canonPoly(rL, ring.Poly{Coeffs: out.Coeffs[:lo+1]})), nil
			}
		})
	}
}
