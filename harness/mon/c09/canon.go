package c09

// Canonical values of operation outputs. Two outputs are "the same value" iff they have the same
// level, the same metadata (scale compared as an exact number), the same degree after removing
// trailing components that are identically zero, and the same residues once every coefficient is
// reduced modulo its q_i (two lazily reduced representatives of one residue are not a difference).

import (
	"fmt"

	"github.com/tuneinsight/lattigo/v6/core/rlwe"
	"github.com/tuneinsight/lattigo/v6/ring"
	"github.com/tuneinsight/lattigo/v6/ring/ringqp"
)

type cval struct {
	Degree int
	Level  int
	LevelP int
	Meta   string
	Comp   []uint64 // hash of the canonical residues of each component
	Head   [][]uint64
	N      int
}

func metaString(m *rlwe.MetaData) string {
	if m == nil {
		return "nil"
	}
	mod := "nil"
	if m.Scale.Mod != nil {
		mod = m.Scale.Mod.Text(10)
	}
	return fmt.Sprintf("scale=%s mod=%s dims=%d,%d batched=%v bitrev=%v ntt=%v mont=%v", m.Scale.Value.Text('p', 0), mod,
		m.LogDimensions.Rows, m.LogDimensions.Cols, m.IsBatched, m.IsBitReversed, m.IsNTT, m.IsMontgomery)
}

// canonRows reduces rows 0..len(rows)-1 by the moduli of r and hashes them; zero reports whether all
// residues are zero.
func canonRows(r *ring.Ring, rows [][]uint64) (h uint64, zero bool, head []uint64) {
	zero = true
	red := make([]uint64, 0, 64)
	acc := uint64(1469598103934665603)
	for i, row := range rows {
		var q uint64
		if r != nil && i < len(r.SubRings) {
			q = r.SubRings[i].Modulus
		}
		red = red[:0]
		for _, x := range row {
			if q != 0 {
				x %= q
			}
			if x != 0 {
				zero = false
			}
			red = append(red, x)
		}
		if i == 0 {
			k := 4
			if len(red) < k {
				k = len(red)
			}
			head = append([]uint64(nil), red[:k]...)
		}
		acc = acc*1099511628211 ^ hashU64(red) ^ uint64(len(red))<<48 ^ uint64(i)
	}
	return acc, zero, head
}

func canonPoly(r *ring.Ring, p ring.Poly) cval {
	h, _, head := canonRows(r, p.Coeffs)
	n := 0
	if len(p.Coeffs) > 0 {
		n = len(p.Coeffs[0])
	}
	return cval{Degree: 0, Level: p.Level(), LevelP: -1, Meta: "-", Comp: []uint64{h}, Head: [][]uint64{head}, N: n}
}

func canonPolyQP(r *ringqp.Ring, p ringqp.Poly) cval {
	h, _, head := canonRows(r.RingQ, p.Q.Coeffs)
	var hp uint64
	if r.RingP != nil {
		hp, _, _ = canonRows(r.RingP, p.P.Coeffs)
	}
	return cval{Level: p.LevelQ(), LevelP: p.LevelP(), Meta: "-", Comp: []uint64{h, hp}, Head: [][]uint64{head}}
}

// canonEl is the canonical value of a ciphertext / plaintext element over Q.
func canonEl(rq *ring.Ring, el *rlwe.Element[ring.Poly]) cval {
	c := cval{LevelP: -1, Meta: metaString(el.MetaData)}
	if len(el.Value) == 0 {
		c.Degree, c.Level = -1, -1
		return c
	}
	c.Level = el.Value[0].Level()
	c.N = el.Value[0].N()
	zeros := make([]bool, len(el.Value))
	for i := range el.Value {
		h, z, head := canonRows(rq, el.Value[i].Coeffs)
		// a component whose level differs from component 0 is a structural difference: mix it in
		h ^= uint64(el.Value[i].Level()+1) << 56
		c.Comp = append(c.Comp, h)
		c.Head = append(c.Head, head)
		zeros[i] = z
	}
	k := len(el.Value)
	for k > 1 && zeros[k-1] {
		k--
	}
	c.Comp = c.Comp[:k]
	c.Head = c.Head[:k]
	c.Degree = k - 1
	return c
}

func canonCt(rq *ring.Ring, ct *rlwe.Ciphertext) cval { return canonEl(rq, &ct.Element) }

func canonElQP(r *ringqp.Ring, el *rlwe.Element[ringqp.Poly]) cval {
	c := cval{Meta: metaString(el.MetaData)}
	if len(el.Value) == 0 {
		return c
	}
	c.Level, c.LevelP = el.Value[0].LevelQ(), el.Value[0].LevelP()
	for i := range el.Value {
		h, _, head := canonRows(r.RingQ, el.Value[i].Q.Coeffs)
		var hp uint64
		if r.RingP != nil {
			hp, _, _ = canonRows(r.RingP, el.Value[i].P.Coeffs)
		}
		c.Comp = append(c.Comp, h^hp*31)
		c.Head = append(c.Head, head)
	}
	c.Degree = len(el.Value) - 1
	return c
}

// cmp returns ("", "") when equal, otherwise (class, detail) with class in
// {degree, level, metadata, value}.
func (a cval) cmp(b cval) (class, detail string) {
	if a.Level != b.Level || a.LevelP != b.LevelP {
		return "level", fmt.Sprintf("level %d/%d vs %d/%d", a.Level, a.LevelP, b.Level, b.LevelP)
	}
	if a.Degree != b.Degree {
		return "degree", fmt.Sprintf("degree (after removing zero components) %d vs %d", a.Degree, b.Degree)
	}
	if a.N != b.N {
		return "degree", fmt.Sprintf("ring degree %d vs %d", a.N, b.N)
	}
	for i := range a.Comp {
		if a.Comp[i] != b.Comp[i] {
			return "value", fmt.Sprintf("component %d differs: %v... vs %v...", i, a.Head[i], b.Head[i])
		}
	}
	if a.Meta != b.Meta {
		return "metadata", fmt.Sprintf("metadata {%s} vs {%s}", a.Meta, b.Meta)
	}
	return "", ""
}
