package c09

// Generic judges: guarded calls (deep snapshot of every non-output argument before / after),
// aliasing patterns and history patterns for the evaluator method shapes
//     f(op0 *Ciphertext, op1 Operand, out *Ciphertext) error        (binary)
//     f(in *Ciphertext, out *Ciphertext) error                       (unary)

import (
	"fmt"
	"runtime/debug"
	"strings"

	"github.com/tuneinsight/lattigo/v6/core/rlwe"
	"github.com/tuneinsight/lattigo/v6/ring"

	"verif/harness/eng"
)

type named struct {
	name string
	obj  any
}

type outcome struct {
	err      error
	panicked bool
	pval     any
	stack    string
}

func (o outcome) ok() bool { return !o.panicked && o.err == nil }

func protect(f func() error) (o outcome) {
	defer func() {
		if r := recover(); r != nil {
			o.panicked = true
			o.pval = r
			o.stack = shortStack()
		}
	}()
	o.err = f()
	return
}

func shortStack() string {
	lines := strings.Split(string(debug.Stack()), "\n")
	var out []string
	for _, l := range lines {
		if strings.Contains(l, "/repo") && strings.Contains(l, ".go:") {
			out = append(out, strings.TrimSpace(l))
			if len(out) >= 5 {
				break
			}
		}
	}
	return strings.Join(out, " <- ")
}

// T carries the per-case state.
type T struct {
	c   *eng.Ctx
	tag string // parameter-set tag, goes into distinct keys and details (never into signatures)
	// outs: output objects exposed by the row that is being built / run (indep.go)
	outs []any
}

func (t *T) distinct(api, pattern, kind, variant string, nontrivial bool) {
	t.c.Distinct(api+"/"+pattern+"/"+kind+"/"+variant+"/"+t.tag, nontrivial)
	t.c.Count("rows_"+pattern, 1)
}

// guarded runs f with a deep snapshot of every input taken before and compared after.
// where = description of the call for the detail text; pred = signature predicate.
func (t *T) guarded(api, pred, where string, ins []named, f func() error) outcome {
	before := make([]snapshot, len(ins))
	for i := range ins {
		before[i] = snap(ins[i].obj)
	}
	o := protect(f)
	for i := range ins {
		after := snap(ins[i].obj)
		t.c.Eval(1)
		t.c.Count("input_snapshots_compared", 1)
		if d := before[i].diff(after); d != "" {
			t.c.Violate(strings.TrimRight("C09|"+api+"|input-modified|"+ins[i].name+":"+sigKind(pred), ":"),
				fmt.Sprintf("%s: argument %s (not the designated output) changed during the call [%s]: %s (call returned err=%v panicked=%v)", where, ins[i].name, t.tag, d, o.err, o.panicked), nil)
		}
	}
	if o.panicked {
		if strings.Contains(where, "fresh") {
			// a panic of the plain call with distinct, fresh arguments is not an aliasing / history
			// matter (other properties judge it); it is only counted
			t.c.Count("baseline_panics_not_judged", 1)
			t.c.Count("baseline_panic:"+api, 1)
		} else {
			t.c.Violate(strings.TrimRight("C09|"+api+"|panic|"+sigPred(pred), "|"), fmt.Sprintf("%s [%s]: panic: %v at %s", where, t.tag, o.pval, o.stack), nil)
		}
	}
	if o.err != nil {
		t.c.Count("errors_observed", 1)
		if strings.Contains(where, "fresh") {
			t.c.Count("baseline_error:"+api, 1)
		}
	}
	return o
}

// independent: the output of a call must not share storage with an argument (a later write into the
// output object would modify the argument): the output is overwritten (every residue, the metadata
// replaced by other values) and the arguments are snapshotted before / after. Call it once the value of
// the output has been taken.
func (t *T) independent(api, where string, out *rlwe.Ciphertext, ins []named) {
	if out == nil {
		return
	}
	before := make([]snapshot, len(ins))
	for i := range ins {
		before[i] = snap(ins[i].obj)
	}
	for i := range out.Value {
		for j := range out.Value[i].Coeffs {
			row := out.Value[i].Coeffs[j]
			for k := range row {
				row[k] ^= 0x5A5A5A5A5A5A5A5A
			}
		}
	}
	if out.MetaData != nil {
		out.Scale = rlwe.NewScale(12345)
		out.IsNTT, out.IsMontgomery, out.IsBatched, out.IsBitReversed = !out.IsNTT, !out.IsMontgomery, !out.IsBatched, !out.IsBitReversed
		out.LogDimensions.Rows, out.LogDimensions.Cols = out.LogDimensions.Rows+3, out.LogDimensions.Cols+5
	}
	for i := range ins {
		t.c.Eval(1)
		t.c.Count("output_independence_checks", 1)
		if d := before[i].diff(snap(ins[i].obj)); d != "" {
			t.c.Violate("C09|"+api+"|output-shares-storage|"+ins[i].name, fmt.Sprintf("%s [%s]: the output object shares storage with argument %s: overwriting the output after the call changed the argument: %s", where, t.tag, ins[i].name, d), nil)
		}
	}
}

// same judges an output against the reference value.
func (t *T) same(api, class, pred, where string, ref, got cval) bool {
	t.c.Eval(1)
	t.c.Count("outputs_compared", 1)
	if cl, d := ref.cmp(got); cl != "" {
		t.c.Violate(strings.TrimRight("C09|"+api+"|"+class+"|"+cl+"|"+sigPred(pred), "|"), fmt.Sprintf("%s [%s]: result differs from the run with distinct objects / clean state: %s", where, t.tag, d), nil)
		return false
	}
	return true
}

// scheme adapts one evaluator type.
type scheme[E any] struct {
	name    string
	rq      *ring.Ring
	maxLvl  int
	newEval func() E
	poison  func(p *poisoner, ev E)
	warm    func(ev E)
	newCt   func(deg, lvl int) *rlwe.Ciphertext
	// dirty returns an output object that previously held a degree-2 value at the maximum level
	// with other metadata.
	dirty func(r *eng.Rand, deg int) *rlwe.Ciphertext
	// derived lists the other ways of obtaining an evaluator than the constructor (ShallowCopy /
	// WithKey of an evaluator that was used and whose buffers hold residue): an operation run on
	// such an evaluator must give the result of the run on a freshly constructed one.
	derived []derivedEval[E]
}

type derivedEval[E any] struct {
	name string // shallowcopy | withkey | withkey-parent
	mk   func(p *poisoner) E
}

// dirtyLow returns a reused output object (residue in every row, other metadata) of the given degree
// whose level is lvl (below the level of the operands): the level of the output object takes part in
// the level of the result, its previous content must not.
func dirtyLow[E any](s *scheme[E], r *eng.Rand, deg, lvl int) *rlwe.Ciphertext {
	ct := s.dirty(r, deg)
	ct.Resize(deg, lvl)
	return ct
}

type opnd struct {
	kind   string // ct1 ct2 pt bigint uint64 ... vec-uint64 ...
	class  string // ct | pt | scalar | vector
	mk     func() rlwe.Operand
	ptrish bool // pointer / slice argument (a mutation would be visible to the caller)
	// sub names a boundary value of the kind (zero, one, minus-one, MinInt64, unreduced, short vector,
	// sparse plaintext ...): it goes into the variant (distinct key, detail text), never into a signature.
	sub string
}

func (o opnd) isCt() bool { return o.class == "ct" }

func copyCt(ct *rlwe.Ciphertext) *rlwe.Ciphertext { return ct.CopyNew() }

type brow[E any] struct {
	api    string
	call   func(ev E, a *rlwe.Ciphertext, b rlwe.Operand, out *rlwe.Ciphertext) error
	outDeg func(da, db int) int
	accum  bool
}

func degOf(b rlwe.Operand) int {
	if e, ok := b.(rlwe.ElementInterface[ring.Poly]); ok {
		return e.Degree()
	}
	return 0
}

func lvlOf(a *rlwe.Ciphertext, b rlwe.Operand) int {
	l := a.Level()
	if e, ok := b.(rlwe.ElementInterface[ring.Poly]); ok && e.Level() < l {
		l = e.Level()
	}
	return l
}

// runBinary walks every aliasing and history pattern of one (method, operand kind, variant).
// acc is the initial content of the accumulator for accumulating methods (nil otherwise).
func runBinary[E any](t *T, s *scheme[E], row brow[E], variant string, a *rlwe.Ciphertext, b opnd, acc *rlwe.Ciphertext, withSame bool) {
	api := row.api
	pred := b.kind + "/" + variant
	if !b.isCt() && b.class != "pt" {
		pred = b.kind // scalars and vectors carry no scale
	}
	predS := pred
	if !b.isCt() && b.class != "pt" {
		predS = b.class
	}
	rnd := t.c.Rand()
	freshOut := func(bb rlwe.Operand) *rlwe.Ciphertext {
		if row.accum {
			return copyCt(acc)
		}
		return s.newCt(row.outDeg(a.Degree(), degOf(bb)), lvlOf(a, bb))
	}
	desc := func(p string) string {
		return fmt.Sprintf("%s(op0=ct[deg %d lvl %d], op1=%s, out) pattern=%s variant=%s", api, a.Degree(), a.Level(), b.kind, p, variant)
	}

	// ---- baseline: distinct objects, clean evaluator, fresh output; inputs must stay intact
	a1, b1 := copyCt(a), b.mk()
	out := freshOut(b1)
	t.distinct(api, "fresh", b.kind, variant, b.ptrish || b.isCt())
	o := t.guarded(api, pred, desc("fresh"), []named{{"op0", a1}, {"op1", b1}}, func() error { return row.call(s.newEval(), a1, b1, out) })
	if !o.ok() {
		return
	}
	r0 := canonCt(s.rq, out)
	t.independent(api, desc("fresh"), out, []named{{"op0", a1}, {"op1", b1}})

	// ---- out == op0
	{
		t.distinct(api, "out=op0", b.kind, variant, true)
		a2, b2 := copyCt(a), b.mk()
		ref := r0
		okRef := true
		if row.accum {
			// reference: the accumulator is a distinct copy of op0
			ac := copyCt(a)
			okRef = protect(func() error { return row.call(s.newEval(), copyCt(a), b.mk(), ac) }).ok()
			ref = canonCt(s.rq, ac)
		}
		if okRef {
			o := t.guarded(api, pred+"/out=op0", desc("out=op0"), []named{{"op1", b2}}, func() error { return row.call(s.newEval(), a2, b2, a2) })
			if o.ok() {
				t.same(api, "alias-out-op0", predS, desc("out=op0"), ref, canonCt(s.rq, a2))
			} else if o.err != nil {
				t.c.Count("alias_rejected_by_error", 1)
			}
		}
	}
	if b.isCt() {
		// ---- out == op1
		t.distinct(api, "out=op1", b.kind, variant, true)
		a2 := copyCt(a)
		b2 := b.mk().(*rlwe.Ciphertext)
		ref := r0
		okRef := true
		if row.accum {
			ac := b.mk().(*rlwe.Ciphertext)
			okRef = protect(func() error { return row.call(s.newEval(), copyCt(a), b.mk(), ac) }).ok()
			ref = canonCt(s.rq, ac)
		}
		if okRef {
			o := t.guarded(api, pred+"/out=op1", desc("out=op1"), []named{{"op0", a2}}, func() error { return row.call(s.newEval(), a2, b2, b2) })
			if o.ok() {
				t.same(api, "alias-out-op1", pred, desc("out=op1"), ref, canonCt(s.rq, b2))
			} else if o.err != nil {
				t.c.Count("alias_rejected_by_error", 1)
			}
		}
	}
	if withSame {
		// ---- op0 == op1 (reference: op1 is a distinct copy of op0), then all three equal
		t.distinct(api, "op0=op1", "ct", variant, true)
		x, y := copyCt(a), copyCt(a)
		var refOut *rlwe.Ciphertext
		if row.accum {
			refOut = copyCt(acc)
		} else {
			refOut = s.newCt(row.outDeg(a.Degree(), a.Degree()), a.Level())
		}
		if protect(func() error { return row.call(s.newEval(), x, y, refOut) }).ok() {
			ref := canonCt(s.rq, refOut)
			x2 := copyCt(a)
			var o2 *rlwe.Ciphertext
			if row.accum {
				o2 = copyCt(acc)
			} else {
				o2 = s.newCt(row.outDeg(a.Degree(), a.Degree()), a.Level())
			}
			o := t.guarded(api, "ct/op0=op1", desc("op0=op1"), []named{{"op0", x2}}, func() error { return row.call(s.newEval(), x2, x2, o2) })
			if o.ok() {
				t.same(api, "alias-op0-op1", "ct/"+variant, desc("op0=op1"), ref, canonCt(s.rq, o2))
			} else if o.err != nil {
				t.c.Count("alias_rejected_by_error", 1)
			}
			// all three equal
			t.distinct(api, "op0=op1=out", "ct", variant, true)
			refA := ref
			okRef := true
			if row.accum {
				ac := copyCt(a)
				okRef = protect(func() error { return row.call(s.newEval(), copyCt(a), copyCt(a), ac) }).ok()
				refA = canonCt(s.rq, ac)
			}
			if okRef {
				x3 := copyCt(a)
				o := protect(func() error { return row.call(s.newEval(), x3, x3, x3) })
				if o.panicked {
					t.c.Violate("C09|"+api+"|panic|ct/op0=op1=out", fmt.Sprintf("%s [%s]: panic: %v at %s", desc("op0=op1=out"), t.tag, o.pval, o.stack), nil)
				} else if o.err == nil {
					t.same(api, "alias-all", "ct/"+variant, desc("op0=op1=out"), refA, canonCt(s.rq, x3))
				} else {
					t.c.Count("alias_rejected_by_error", 1)
				}
			}
		}
	}

	// ---- history: scratch buffers filled with adversarial residue
	for mode := 0; mode < 3; mode++ {
		t.distinct(api, fmt.Sprintf("hist-poison%d", mode), b.kind, variant, true)
		ev := s.newEval()
		p := newPoisoner(rnd, mode)
		s.poison(p, ev)
		t.c.Count("poisoned_words", p.n)
		a2, b2 := copyCt(a), b.mk()
		o2 := freshOut(b2)
		o := protect(func() error { return row.call(ev, a2, b2, o2) })
		if o.panicked {
			t.c.Violate("C09|"+api+"|history-buffers|panic|"+sigPred(pred), fmt.Sprintf("%s [%s]: panic with poisoned scratch buffers: %v at %s", desc("hist-poison"), t.tag, o.pval, o.stack), nil)
		} else if o.err != nil {
			t.c.Violate("C09|"+api+"|history-buffers|error|"+sigPred(pred), fmt.Sprintf("%s [%s]: error only with poisoned scratch buffers: %v", desc("hist-poison"), t.tag, o.err), nil)
		} else {
			t.same(api, "history-buffers", predS, desc(fmt.Sprintf("hist-poison%d", mode)), r0, canonCt(s.rq, o2))
		}
	}
	// ---- history: evaluator used for larger operations before
	if s.warm != nil {
		t.distinct(api, "hist-warm", b.kind, variant, true)
		ev := s.newEval()
		s.warm(ev)
		a2, b2 := copyCt(a), b.mk()
		o2 := freshOut(b2)
		if protect(func() error { return row.call(ev, a2, b2, o2) }).ok() {
			t.same(api, "history-evaluator", predS, desc("hist-warm"), r0, canonCt(s.rq, o2))
		}
	}
	// ---- history: output object that held a degree-2 value at the top level before
	if !row.accum {
		t.distinct(api, "hist-out", b.kind, variant, true)
		for _, dd := range []int{2, row.outDeg(a.Degree(), degOf(b1))} {
			a2, b2 := copyCt(a), b.mk()
			o2 := s.dirty(rnd, dd)
			what := fmt.Sprintf("hist-out(deg %d, top level)", dd)
			o := protect(func() error { return row.call(s.newEval(), a2, b2, o2) })
			if o.panicked {
				t.c.Violate("C09|"+api+"|history-out|panic", fmt.Sprintf("%s [%s]: panic when the output object previously held a degree-%d top-level value: %v at %s", desc(what), t.tag, dd, o.pval, o.stack), nil)
			} else if o.err == nil {
				t.same(api, "history-out", "", desc(what), r0, canonCt(s.rq, o2))
			} else {
				t.c.Count("dirty_out_rejected_by_error", 1)
				continue
			}
			break
		}
	}
	// ---- history: output object that held a degree-2 top-level value and was then shrunk in place to the
	// shape a fresh output (resp. the accumulator) has: its slices keep the old content in their capacity
	{
		t.distinct(api, "hist-shrunk", b.kind, variant, true)
		a2, b2 := copyCt(a), b.mk()
		model := freshOut(b2)
		o2 := s.dirty(rnd, 2)
		o2.Resize(model.Degree(), model.Level())
		o2.Copy(model)
		o := protect(func() error { return row.call(s.newEval(), a2, b2, o2) })
		if o.panicked {
			t.c.Violate("C09|"+api+"|history-shrunk-out|panic", fmt.Sprintf("%s [%s]: panic when the output object was shrunk in place from a degree-2 top-level value: %v at %s", desc("hist-shrunk"), t.tag, o.pval, o.stack), nil)
		} else if o.err == nil {
			t.same(api, "history-shrunk-out", "", desc("hist-shrunk"), r0, canonCt(s.rq, o2))
		}
	}
	// ---- history: evaluator obtained through ShallowCopy / WithKey of a used evaluator
	for _, d := range s.derived {
		t.distinct(api, "hist-derived-"+d.name, b.kind, variant, true)
		p := newPoisoner(rnd, 1)
		var ev E
		if !protect(func() error { ev = d.mk(p); return nil }).ok() {
			t.c.Count("derived_evaluator_unavailable", 1)
			continue
		}
		a2, b2 := copyCt(a), b.mk()
		o2 := freshOut(b2)
		o := protect(func() error { return row.call(ev, a2, b2, o2) })
		if o.panicked {
			t.c.Violate("C09|"+api+"|history-derived-"+d.name+"|panic|"+sigPred(pred), fmt.Sprintf("%s [%s]: panic on an evaluator obtained through %s of a used evaluator: %v at %s", desc("hist-derived-"+d.name), t.tag, d.name, o.pval, o.stack), nil)
		} else if o.err != nil {
			t.c.Violate("C09|"+api+"|history-derived-"+d.name+"|error|"+sigPred(pred), fmt.Sprintf("%s [%s]: error only on an evaluator obtained through %s of a used evaluator: %v", desc("hist-derived-"+d.name), t.tag, d.name, o.err), nil)
		} else {
			t.same(api, "history-derived-"+d.name, predS, desc("hist-derived-"+d.name), r0, canonCt(s.rq, o2))
		}
	}
	// ---- history: reused output object whose level is BELOW the level of the operands (the level of the
	// output takes part in the level of the result): reference = freshly allocated output of that level
	if !row.accum {
		model := freshOut(b.mk())
		if low := model.Level() - 1; low >= 0 {
			t.distinct(api, "hist-out-low", b.kind, variant, true)
			ref := s.newCt(model.Degree(), low)
			if protect(func() error { return row.call(s.newEval(), copyCt(a), b.mk(), ref) }).ok() {
				rLow := canonCt(s.rq, ref)
				t.c.Count("low_output_references", 1)
				for _, dd := range []int{2, model.Degree()} {
					a2, b2 := copyCt(a), b.mk()
					o2 := dirtyLow(s, rnd, dd, low)
					what := fmt.Sprintf("hist-out-low(deg %d, level-1)", dd)
					o := protect(func() error { return row.call(s.newEval(), a2, b2, o2) })
					if o.panicked {
						t.c.Violate("C09|"+api+"|history-out-low|panic", fmt.Sprintf("%s [%s]: panic when the output object is a reused degree-%d object one level below the operands (a fresh output of that level is accepted): %v at %s", desc(what), t.tag, dd, o.pval, o.stack), nil)
					} else if o.err == nil {
						t.same(api, "history-out-low", "", desc(what), rLow, canonCt(s.rq, o2))
					} else {
						t.c.Count("dirty_out_rejected_by_error", 1)
						continue
					}
					break
				}
			}
		}
	}
}

type urow[E any] struct {
	api    string
	call   func(ev E, in *rlwe.Ciphertext, out *rlwe.Ciphertext) error
	outDeg func(d int) int
	outLvl func(l int) int // level of the freshly allocated output (nil: same level)
	noAli  bool            // aliasing documented as unsupported
}

func runUnary[E any](t *T, s *scheme[E], row urow[E], sub, lvlVariant string, a *rlwe.Ciphertext, extra []named) {
	variant := lvlVariant + sub
	pred := strings.TrimPrefix(sub, "/")
	api := row.api
	rnd := t.c.Rand()
	freshOut := func() *rlwe.Ciphertext {
		l := a.Level()
		if row.outLvl != nil {
			l = row.outLvl(l)
		}
		return s.newCt(row.outDeg(a.Degree()), l)
	}
	desc := func(p string) string {
		return fmt.Sprintf("%s(in=ct[deg %d lvl %d], out) pattern=%s variant=%s", api, a.Degree(), a.Level(), p, variant)
	}
	a1 := copyCt(a)
	out := freshOut()
	t.distinct(api, "fresh", "ct", variant, true)
	ins := append([]named{{"in", a1}}, extra...)
	o := t.guarded(api, pred, desc("fresh"), ins, func() error { return row.call(s.newEval(), a1, out) })
	if !o.ok() {
		return
	}
	r0 := canonCt(s.rq, out)
	t.independent(api, desc("fresh"), out, ins)
	if !row.noAli {
		t.distinct(api, "out=in", "ct", variant, true)
		a2 := copyCt(a)
		o := t.guarded(api, pred, desc("out=in"), extra, func() error { return row.call(s.newEval(), a2, a2) })
		if o.ok() {
			t.same(api, "alias-out-in", pred, desc("out=in"), r0, canonCt(s.rq, a2))
		} else if o.err != nil {
			t.c.Count("alias_rejected_by_error", 1)
		}
	}
	for mode := 0; mode < 3; mode++ {
		t.distinct(api, fmt.Sprintf("hist-poison%d", mode), "ct", variant, true)
		ev := s.newEval()
		p := newPoisoner(rnd, mode)
		s.poison(p, ev)
		t.c.Count("poisoned_words", p.n)
		a2 := copyCt(a)
		o2 := freshOut()
		o := protect(func() error { return row.call(ev, a2, o2) })
		if o.panicked {
			t.c.Violate("C09|"+api+"|history-buffers|panic|"+pred, fmt.Sprintf("%s [%s]: panic with poisoned scratch buffers: %v at %s", desc("hist-poison"), t.tag, o.pval, o.stack), nil)
		} else if o.err != nil {
			t.c.Violate("C09|"+api+"|history-buffers|error|"+pred, fmt.Sprintf("%s [%s]: error only with poisoned scratch buffers: %v", desc("hist-poison"), t.tag, o.err), nil)
		} else {
			t.same(api, "history-buffers", pred, desc(fmt.Sprintf("hist-poison%d", mode)), r0, canonCt(s.rq, o2))
		}
	}
	if s.warm != nil {
		t.distinct(api, "hist-warm", "ct", variant, true)
		ev := s.newEval()
		s.warm(ev)
		a2 := copyCt(a)
		o2 := freshOut()
		if protect(func() error { return row.call(ev, a2, o2) }).ok() {
			t.same(api, "history-evaluator", pred, desc("hist-warm"), r0, canonCt(s.rq, o2))
		}
	}
	{
		t.distinct(api, "hist-out", "ct", variant, true)
		for _, dd := range []int{2, row.outDeg(a.Degree())} {
			a2 := copyCt(a)
			o2 := s.dirty(rnd, dd)
			what := fmt.Sprintf("hist-out(deg %d, top level)", dd)
			o := protect(func() error { return row.call(s.newEval(), a2, o2) })
			if o.panicked {
				t.c.Violate("C09|"+api+"|history-out|panic", fmt.Sprintf("%s [%s]: panic when the output object previously held a degree-%d top-level value: %v at %s", desc(what), t.tag, dd, o.pval, o.stack), nil)
			} else if o.err == nil {
				t.same(api, "history-out", "", desc(what), r0, canonCt(s.rq, o2))
			} else {
				t.c.Count("dirty_out_rejected_by_error", 1)
				continue
			}
			break
		}
	}
	for _, d := range s.derived {
		t.distinct(api, "hist-derived-"+d.name, "ct", variant, true)
		p := newPoisoner(rnd, 1)
		var ev E
		if !protect(func() error { ev = d.mk(p); return nil }).ok() {
			t.c.Count("derived_evaluator_unavailable", 1)
			continue
		}
		a2 := copyCt(a)
		o2 := freshOut()
		o := protect(func() error { return row.call(ev, a2, o2) })
		if o.panicked {
			t.c.Violate(strings.TrimRight("C09|"+api+"|history-derived-"+d.name+"|panic|"+pred, "|"), fmt.Sprintf("%s [%s]: panic on an evaluator obtained through %s of a used evaluator: %v at %s", desc("hist-derived-"+d.name), t.tag, d.name, o.pval, o.stack), nil)
		} else if o.err != nil {
			t.c.Violate(strings.TrimRight("C09|"+api+"|history-derived-"+d.name+"|error|"+pred, "|"), fmt.Sprintf("%s [%s]: error only on an evaluator obtained through %s of a used evaluator: %v", desc("hist-derived-"+d.name), t.tag, d.name, o.err), nil)
		} else {
			t.same(api, "history-derived-"+d.name, pred, desc("hist-derived-"+d.name), r0, canonCt(s.rq, o2))
		}
	}
	// reused output object one level below the level a fresh output gets
	if model := freshOut(); model.Level()-1 >= 0 {
		low := model.Level() - 1
		t.distinct(api, "hist-out-low", "ct", variant, true)
		ref := s.newCt(model.Degree(), low)
		if protect(func() error { return row.call(s.newEval(), copyCt(a), ref) }).ok() {
			rLow := canonCt(s.rq, ref)
			t.c.Count("low_output_references", 1)
			for _, dd := range []int{2, model.Degree()} {
				a2 := copyCt(a)
				o2 := dirtyLow(s, rnd, dd, low)
				what := fmt.Sprintf("hist-out-low(deg %d, level-1)", dd)
				o := protect(func() error { return row.call(s.newEval(), a2, o2) })
				if o.panicked {
					t.c.Violate("C09|"+api+"|history-out-low|panic", fmt.Sprintf("%s [%s]: panic when the output object is a reused degree-%d object one level below the fresh output (a fresh output of that level is accepted): %v at %s", desc(what), t.tag, dd, o.pval, o.stack), nil)
				} else if o.err == nil {
					t.same(api, "history-out-low", "", desc(what), rLow, canonCt(s.rq, o2))
				} else {
					t.c.Count("dirty_out_rejected_by_error", 1)
					continue
				}
				break
			}
		}
	}
}

// sigKind keeps the operand kind of a predicate "kind/variant/pattern".
func sigKind(pred string) string {
	if i := strings.IndexByte(pred, '/'); i >= 0 {
		return pred[:i]
	}
	return pred
}

// sigPred reduces a predicate "kind/variant[/pattern]" to the stable, coarse form used in
// signatures: operand kind plus the scale relation (levels, degrees and parameter sets never enter
// a signature, so that one defect keeps one signature).
func sigPred(pred string) string {
	k := sigKind(pred)
	if strings.Contains(pred, "scale-ne") {
		return k + "/scale-ne"
	}
	if strings.Contains(pred, "scale-near") {
		return k + "/scale-near"
	}
	return k
}
