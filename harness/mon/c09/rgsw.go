package c09

import (
	"fmt"
	"strings"

	"github.com/tuneinsight/lattigo/v6/core/rgsw"
	"github.com/tuneinsight/lattigo/v6/core/rlwe"
	"github.com/tuneinsight/lattigo/v6/ring"
	"github.com/tuneinsight/lattigo/v6/ring/ringqp"

	"verif/harness/eng"
)

// runRGSW: external product RLWE x RGSW -> RLWE (fresh output, out == op0, poisoned buffers, reused
// output object) and RGSW encryption (plaintext intact, reused RGSW ciphertext).
func runRGSW(c *eng.Ctx, cfg pcfg) {
	e, err := newRLWEEnv(cfg, c.Rand())
	if err != nil {
		c.Inconclusive("parameters rejected: " + err.Error())
		return
	}
	t := &T{c: c, tag: cfg.tag()}
	rnd := c.Rand()
	p := e.p
	rq := p.RingQ()
	L, LP := p.MaxLevel(), p.MaxLevelP()
	c.Sample(map[string]any{"params": cfg, "area": "rgsw", "patterns": "fresh,out=op0,hist-poison,hist-out,hist-dirty"})
	reseed := func(tag string) { eng.SeedCryptoRand("c09-rgsw", c.CaseID, tag) }
	pt := rlwe.NewPlaintext(p, L)
	copyRows(pt.Value, randPoly(rq, rnd))
	pt.IsNTT = true
	mkRGSW := func() *rgsw.Ciphertext {
		reseed("rgsw-ct")
		ct := rgsw.NewCiphertext(p, L, LP, cfg.Pow2)
		if err := rgsw.NewEncryptor(p, e.sk).Encrypt(pt.CopyNew(), ct); err != nil {
			panic(err)
		}
		return ct
	}
	t.runSimple(simple{api: "rgsw.Encryptor.Encrypt", variant: "-", build: func(dirty bool) ([]named, func() (string, error)) {
		reseed("rgsw-enc")
		enc := rgsw.NewEncryptor(p, e.sk)
		ct := rgsw.NewCiphertext(p, L, LP, cfg.Pow2)
		if dirty {
			po := newPoisoner(rnd, 1)
			po.value(reflectValueOf(&ct.Value), 0)
			po.fields(enc, "buffQP")
			po.encryptor(enc.Encryptor)
		}
		x := pt.CopyNew()
		t.out(ct)
		return []named{{"pt", x}, {"sk", e.sk}}, func() (string, error) { err := enc.Encrypt(x, ct); return snapString(ct), err }
	}})
	g := mkRGSW()
	s := &scheme[*rgsw.Evaluator]{name: "rgsw", rq: rq, maxLvl: L,
		newEval: func() *rgsw.Evaluator { return rgsw.NewEvaluator(p, nil) },
		poison:  func(po *poisoner, ev *rgsw.Evaluator) { po.rlweEval(&ev.Evaluator) },
		newCt:   func(deg, l int) *rlwe.Ciphertext { return rlwe.NewCiphertext(p, deg, l) },
		// ExternalProduct documents no resizing: the reused output has the right shape, other content
		dirty: func(r *eng.Rand, deg int) *rlwe.Ciphertext {
			if deg != 1 {
				return rlwe.NewCiphertext(p, 0, L) // rejected below by the harness wrapper
			}
			ct := rlwe.NewCiphertext(p, 1, L)
			fillResidues(rq, ct, r)
			return ct
		},
		derived: []derivedEval[*rgsw.Evaluator]{
			{name: "shallowcopy", mk: func(po *poisoner) *rgsw.Evaluator {
				parent := rgsw.NewEvaluator(p, nil)
				po.rlweEval(&parent.Evaluator)
				child := parent.ShallowCopy()
				po.rlweEval(&parent.Evaluator)
				return child
			}},
			{name: "withkey", mk: func(po *poisoner) *rgsw.Evaluator {
				parent := rgsw.NewEvaluator(p, nil)
				po.rlweEval(&parent.Evaluator)
				return parent.WithKey(rlwe.NewMemEvaluationKeySet(nil))
			}},
		},
	}
	row := urow[*rgsw.Evaluator]{api: "rgsw.Evaluator.ExternalProduct", outDeg: same1, call: func(ev *rgsw.Evaluator, in, out *rlwe.Ciphertext) error {
		if out.Degree() != 1 || out.Level() != in.Level() {
			return fmt.Errorf("harness: ExternalProduct needs an output of the shape of the input")
		}
		*out.MetaData = *in.MetaData
		ev.ExternalProduct(in, g, out)
		return nil
	}}
	a := e.ct(L, 1)
	a.IsNTT = true
	runUnary(t, s, row, "", "top", a, []named{{"rgsw", g}})
	// an RGSW ciphertext (and operand) one level lower, resp. with one auxiliary prime less
	for _, v := range []struct {
		name    string
		lq, lp  int
		applies bool
	}{{"lvl-1", L - 1, LP, L >= 1}, {"lvlP-1", L, LP - 1, LP >= 1}} {
		if !v.applies {
			continue
		}
		reseed("rgsw-ct" + v.name)
		g2 := rgsw.NewCiphertext(p, v.lq, v.lp, cfg.Pow2)
		pt2 := rlwe.NewPlaintext(p, v.lq)
		copyRows(pt2.Value, randPoly(rq.AtLevel(v.lq), rnd))
		pt2.IsNTT = true
		if err := rgsw.NewEncryptor(p, e.sk).Encrypt(pt2, g2); err != nil {
			t.c.Count("rows_not_applicable", 1)
			continue
		}
		row2 := row
		row2.call = func(ev *rgsw.Evaluator, in, out *rlwe.Ciphertext) error {
			if out.Degree() != 1 || out.Level() != in.Level() {
				return fmt.Errorf("harness: ExternalProduct needs an output of the shape of the input")
			}
			*out.MetaData = *in.MetaData
			ev.ExternalProduct(in, g2, out)
			return nil
		}
		s2 := *s
		lq := v.lq
		s2.dirty = func(r *eng.Rand, deg int) *rlwe.Ciphertext {
			if deg != 1 {
				return rlwe.NewCiphertext(p, 0, lq)
			}
			ct := rlwe.NewCiphertext(p, 1, lq)
			fillResidues(rq, ct, r)
			return ct
		}
		a2 := e.ct(v.lq, 1)
		a2.IsNTT = true
		runUnary(t, &s2, row2, "", v.name, a2, []named{{"rgsw", g2}})
	}
	runRGSWFree(t, e, cfg)
}

// rgswString: canonical residues of every polynomial of an RGSW ciphertext.
func rgswString(rqp *ringqp.Ring, ct *rgsw.Ciphertext) string {
	var sb strings.Builder
	for k := range ct.Value {
		for i := range ct.Value[k].Value {
			for j := range ct.Value[k].Value[i] {
				for u := range ct.Value[k].Value[i][j] {
					c := canonPolyQP(rqp, ct.Value[k].Value[i][j][u])
					fmt.Fprintf(&sb, "%d.%d.%d.%d=%x/%d/%d;", k, i, j, u, c.Comp, c.Level, c.LevelP)
				}
			}
		}
	}
	return sb.String()
}

// runRGSWFree: the exported functions of core/rgsw/evaluator.go that combine RGSW ciphertexts
// (AddLazy, Reduce, MulByXPowAlphaMinusOneLazy, MulByXPowAlphaMinusOneThenAddLazy): the operand is
// intact, and the output aliased with the operand gives the value of the run with distinct objects.
func runRGSWFree(t *T, e *rlweEnv, cfg pcfg) {
	p := e.p
	rnd := t.c.Rand()
	L, LP := p.MaxLevel(), p.MaxLevelP()
	rqp := p.RingQP().AtLevel(L, LP)
	mk := func() *rgsw.Ciphertext {
		// (uniform residues: these functions are plain ring arithmetic on the components)
		ct := rgsw.NewCiphertext(p, L, LP, cfg.Pow2)
		s := rnd.U64() | 1
		fill := func(pol ring.Poly, r *ring.Ring) {
			for i := range pol.Coeffs {
				q := r.SubRings[i].Modulus
				for j := range pol.Coeffs[i] {
					s ^= s << 13
					s ^= s >> 7
					s ^= s << 17
					pol.Coeffs[i][j] = s % q
				}
			}
		}
		for k := range ct.Value {
			for i := range ct.Value[k].Value {
				for j := range ct.Value[k].Value[i] {
					for u := range ct.Value[k].Value[i][j] {
						fill(ct.Value[k].Value[i][j][u].Q, rqp.RingQ)
						if rqp.RingP != nil {
							fill(ct.Value[k].Value[i][j][u].P, rqp.RingP)
						}
					}
				}
			}
		}
		return ct
	}
	cp := func(ct *rgsw.Ciphertext) *rgsw.Ciphertext {
		o := &rgsw.Ciphertext{}
		for k := range ct.Value {
			o.Value[k] = *ct.Value[k].CopyNew()
		}
		return o
	}
	A, B := mk(), mk()
	pw := rqp.NewPoly()
	{
		po := newPoisoner(rnd, 1)
		po.polyQP(pw)
		for i := range pw.Q.Coeffs {
			for j := range pw.Q.Coeffs[i] {
				pw.Q.Coeffs[i][j] %= rqp.RingQ.SubRings[i].Modulus
			}
		}
		for i := range pw.P.Coeffs {
			for j := range pw.P.Coeffs[i] {
				pw.P.Coeffs[i][j] %= rqp.RingP.SubRings[i].Modulus
			}
		}
	}
	type row struct {
		name  string
		accum bool
		call  func(in *rgsw.Ciphertext, pw ringqp.Poly, out *rgsw.Ciphertext)
	}
	rows := []row{
		{"rgsw.AddLazy", true, func(in *rgsw.Ciphertext, pw ringqp.Poly, out *rgsw.Ciphertext) { rgsw.AddLazy(in, rqp, out) }},
		{"rgsw.Reduce", false, func(in *rgsw.Ciphertext, pw ringqp.Poly, out *rgsw.Ciphertext) { rgsw.Reduce(in, rqp, out) }},
		{"rgsw.MulByXPowAlphaMinusOneLazy", false, func(in *rgsw.Ciphertext, pw ringqp.Poly, out *rgsw.Ciphertext) {
			rgsw.MulByXPowAlphaMinusOneLazy(in, pw, rqp, out)
		}},
		{"rgsw.MulByXPowAlphaMinusOneThenAddLazy", true, func(in *rgsw.Ciphertext, pw ringqp.Poly, out *rgsw.Ciphertext) {
			rgsw.MulByXPowAlphaMinusOneThenAddLazy(in, pw, rqp, out)
		}},
	}
	for _, r := range rows {
		r := r
		pats := []string{"out=in"}
		if !r.accum {
			pats = append(pats, "hist-out")
		}
		// the reference of out=in for an accumulating function: the accumulator is a distinct copy of the operand
		t.runPatterns(r.name, "-", "", pats[1:], func(pat string) ([]named, func() (string, error)) {
			in, w, out := cp(A), *pw.CopyNew(), cp(B)
			if !r.accum {
				out = rgsw.NewCiphertext(p, L, LP, cfg.Pow2)
				if pat == "hist-out" {
					out = mk()
				}
			}
			t.out(out)
			return []named{{"ctIn", in}, {"powXMinusOne", &w}}, func() (string, error) { r.call(in, w, out); return rgswString(&rqp, out), nil }
		})
		t.runPatterns(r.name, "alias", "", []string{"out=in"}, func(pat string) ([]named, func() (string, error)) {
			in, w := cp(A), *pw.CopyNew()
			out := cp(A)
			if !r.accum {
				out = rgsw.NewCiphertext(p, L, LP, cfg.Pow2)
			}
			if pat == "out=in" {
				out = in
			}
			return []named{{"powXMinusOne", &w}}, func() (string, error) { r.call(in, w, out); return rgswString(&rqp, out), nil }
		})
	}
	// AddLazy with an RGSW plaintext operand
	if pt, err := rgsw.NewPlaintext(p, uint64(3), L, LP, cfg.Pow2); err == nil {
		t.runPatterns("rgsw.AddLazy", "plaintext", "pt", nil, func(pat string) ([]named, func() (string, error)) {
			x := &rgsw.Plaintext{}
			for i := range pt.Value {
				x.Value = append(x.Value, *pt.Value[i].CopyNew())
			}
			out := cp(B)
			t.out(out)
			return []named{{"op", x}}, func() (string, error) { rgsw.AddLazy(x, rqp, out); return rgswString(&rqp, out), nil }
		})
	}
}
