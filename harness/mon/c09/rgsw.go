package c09

import (
	"fmt"

	"github.com/tuneinsight/lattigo/v6/core/rgsw"
	"github.com/tuneinsight/lattigo/v6/core/rlwe"

	"verif/harness/eng"
)

// runRGSW: external product RLWE x RGSW -> RLWE (fresh output, out == op0, poisoned buffers, reused
// output object) and RGSW encryption (plaintext intact, reused RGSW ciphertext).
func runRGSW(c *eng.Ctx, cfg pcfg) {
	e, err := newRLWEEnv(cfg, c.Rand())
	if err != nil {
		c.Inconclusive("parameters rejected: " + err.Error())
		return
	}
	t := &T{c: c, tag: cfg.tag()}
	rnd := c.Rand()
	p := e.p
	rq := p.RingQ()
	L, LP := p.MaxLevel(), p.MaxLevelP()
	c.Sample(map[string]any{"params": cfg, "area": "rgsw", "patterns": "fresh,out=op0,hist-poison,hist-out,hist-dirty"})
	reseed := func(tag string) { eng.SeedCryptoRand("c09-rgsw", c.CaseID, tag) }
	pt := rlwe.NewPlaintext(p, L)
	copyRows(pt.Value, randPoly(rq, rnd))
	pt.IsNTT = true
	mkRGSW := func() *rgsw.Ciphertext {
		reseed("rgsw-ct")
		ct := rgsw.NewCiphertext(p, L, LP, cfg.Pow2)
		if err := rgsw.NewEncryptor(p, e.sk).Encrypt(pt.CopyNew(), ct); err != nil {
			panic(err)
		}
		return ct
	}
	t.runSimple(simple{api: "rgsw.Encryptor.Encrypt", variant: "-", build: func(dirty bool) ([]named, func() (string, error)) {
		reseed("rgsw-enc")
		enc := rgsw.NewEncryptor(p, e.sk)
		ct := rgsw.NewCiphertext(p, L, LP, cfg.Pow2)
		if dirty {
			po := newPoisoner(rnd, 1)
			po.value(reflectValueOf(&ct.Value), 0)
			po.fields(enc, "buffQP")
			po.encryptor(enc.Encryptor)
		}
		x := pt.CopyNew()
		return []named{{"pt", x}, {"sk", e.sk}}, func() (string, error) { err := enc.Encrypt(x, ct); return snapString(ct), err }
	}})
	g := mkRGSW()
	s := &scheme[*rgsw.Evaluator]{name: "rgsw", rq: rq, maxLvl: L,
		newEval: func() *rgsw.Evaluator { return rgsw.NewEvaluator(p, nil) },
		poison:  func(po *poisoner, ev *rgsw.Evaluator) { po.rlweEval(&ev.Evaluator) },
		newCt:   func(deg, l int) *rlwe.Ciphertext { return rlwe.NewCiphertext(p, deg, l) },
		// ExternalProduct documents no resizing: the reused output has the right shape, other content
		dirty: func(r *eng.Rand, deg int) *rlwe.Ciphertext {
			if deg != 1 {
				return rlwe.NewCiphertext(p, 0, L) // rejected below by the harness wrapper
			}
			ct := rlwe.NewCiphertext(p, 1, L)
			fillResidues(rq, ct, r)
			return ct
		},
	}
	row := urow[*rgsw.Evaluator]{api: "rgsw.Evaluator.ExternalProduct", outDeg: same1, call: func(ev *rgsw.Evaluator, in, out *rlwe.Ciphertext) error {
		if out.Degree() != 1 || out.Level() != in.Level() {
			return fmt.Errorf("harness: ExternalProduct needs an output of the shape of the input")
		}
		*out.MetaData = *in.MetaData
		ev.ExternalProduct(in, g, out)
		return nil
	}}
	a := e.ct(L, 1)
	a.IsNTT = true
	runUnary(t, s, row, "", "top", a, []named{{"rgsw", g}})
}
