package c09

// Multiparty protocols: GenShare / AggregateShares / finalisation steps. Inputs (secret keys,
// common random polynomials, shares, ciphertexts) stay intact; AggregateShares with the output
// aliased to either input gives the result of the run with three distinct shares; the output does
// not depend on the previous content of the output object. Randomised steps are repeated with an
// identically re-seeded crypto/rand so that two runs are bit-identical.

import (
	"fmt"

	"github.com/tuneinsight/lattigo/v6/core/rlwe"
	"github.com/tuneinsight/lattigo/v6/multiparty"
	"github.com/tuneinsight/lattigo/v6/ring"
	"github.com/tuneinsight/lattigo/v6/utils/sampling"

	"verif/harness/eng"
)

// aggPatterns judges out=f(a,b) for the three-share aggregation shape. mk(i) returns a fresh copy
// of share number i (0,1) — identical content at every call; alloc returns a zero share.
func aggPatterns[S any](t *T, api string, mk func(i int) S, alloc func(dirty bool) S, call func(a, b S, out *S) error) {
	a, b, o := mk(0), mk(1), alloc(false)
	t.distinct(api, "fresh", "share", "-", true)
	if !t.guarded(api, "", api+" fresh", []named{{"share1", &a}, {"share2", &b}}, func() error { return call(a, b, &o) }).ok() {
		return
	}
	r0 := snapString(&o)
	// the aggregate allocated by the caller must not end up sharing storage with either share
	t.independentAny(api, api+" fresh", []any{&o}, []named{{"share1", &a}, {"share2", &b}})
	chk := func(pat string, got any) {
		t.c.Eval(1)
		t.c.Count("outputs_compared", 1)
		if g := snapString(got); g != r0 {
			t.c.Violate("C09|"+api+"|alias-"+pat, fmt.Sprintf("%s pattern %s [%s]: result differs from the run with three distinct shares: %s", api, pat, t.tag, firstDiff(r0, g)), nil)
		}
	}
	{
		t.distinct(api, "out=share1", "share", "-", true)
		a, b := mk(0), mk(1)
		if t.guarded(api, "", api+" out=share1", []named{{"share2", &b}}, func() error { return call(a, b, &a) }).ok() {
			chk("out=share1", &a)
		}
	}
	{
		t.distinct(api, "out=share2", "share", "-", true)
		a, b := mk(0), mk(1)
		if t.guarded(api, "", api+" out=share2", []named{{"share1", &a}}, func() error { return call(a, b, &b) }).ok() {
			chk("out=share2", &b)
		}
	}
	{
		t.distinct(api, "hist-out", "share", "-", true)
		a, b, o := mk(0), mk(1), alloc(true)
		if protect(func() error { return call(a, b, &o) }).ok() {
			t.c.Eval(1)
			if g := snapString(&o); g != r0 {
				t.c.Violate("C09|"+api+"|history-out", fmt.Sprintf("%s [%s]: result depends on the previous content of the output share: %s", api, t.tag, firstDiff(r0, g)), nil)
			}
		}
	}
	{
		// share1 == share2 (reference: two distinct copies of share 0)
		t.distinct(api, "share1=share2", "share", "-", true)
		x, y, o := mk(0), mk(0), alloc(false)
		if protect(func() error { return call(x, y, &o) }).ok() {
			ref := snapString(&o)
			z, o2 := mk(0), alloc(false)
			if t.guarded(api, "", api+" share1=share2", nil, func() error { return call(z, z, &o2) }).ok() {
				t.c.Eval(1)
				if g := snapString(&o2); g != ref {
					t.c.Violate("C09|"+api+"|alias-share1=share2", fmt.Sprintf("%s [%s]: %s", api, t.tag, firstDiff(ref, g)), nil)
				}
			}
			w := mk(0)
			if protect(func() error { return call(w, w, &w) }).ok() {
				t.c.Eval(1)
				if g := snapString(&w); g != ref {
					t.c.Violate("C09|"+api+"|alias-all", fmt.Sprintf("%s [%s]: %s", api, t.tag, firstDiff(ref, g)), nil)
				}
			}
		}
	}
}

func runMultiparty(c *eng.Ctx, cfg pcfg) {
	e, err := newRLWEEnv(cfg, c.Rand())
	if err != nil {
		c.Inconclusive("parameters rejected: " + err.Error())
		return
	}
	t := &T{c: c, tag: cfg.tag()}
	rnd := c.Rand()
	p := e.p
	rq := p.RingQ()
	L := p.MaxLevel()
	c.Sample(map[string]any{"params": cfg, "area": "multiparty", "patterns": "fresh,out=share1,out=share2,share1=share2,all,hist-out,hist-dirty"})
	reseed := func(tag string) { eng.SeedCryptoRand("c09-mp", c.CaseID, tag) }
	crs := func(tag string) multiparty.CRS {
		prng, err := sampling.NewKeyedPRNG([]byte("c09-crs-" + tag))
		if err != nil {
			panic(err)
		}
		return prng
	}
	sks := []*rlwe.SecretKey{e.sk, e.sk2}
	noise := ring.DiscreteGaussian{Sigma: 3.2, Bound: 19}
	dirtyAny := func(x any) { newPoisoner(rnd, 1).value(reflectValueOf(x), 0) }

	// ---- collective public key
	{
		mkP := func(tag string) multiparty.PublicKeyGenProtocol {
			reseed(tag)
			return multiparty.NewPublicKeyGenProtocol(p)
		}
		crp := mkP("x").SampleCRP(crs("cpk"))
		mkShare := func(i int) multiparty.PublicKeyGenShare {
			pr := mkP(fmt.Sprint("cpk", i))
			s := pr.AllocateShare()
			pr.GenShare(sks[i], crp, &s)
			return s
		}
		t.runSimple(simple{api: "multiparty.PublicKeyGenProtocol.GenShare", variant: "-", build: func(dirty bool) ([]named, func() (string, error)) {
			pr := mkP("cpk-gen")
			s := pr.AllocateShare()
			if dirty {
				dirtyAny(&s)
			}
			sk := e.sk.CopyNew()
			crpc := crp
			t.out(&s)
			return []named{{"sk", sk}, {"crp", &crpc}}, func() (string, error) { pr.GenShare(sk, crpc, &s); return snapString(&s), nil }
		}})
		pr := mkP("agg")
		aggPatterns(t, "multiparty.PublicKeyGenProtocol.AggregateShares", mkShare, func(d bool) multiparty.PublicKeyGenShare {
			s := pr.AllocateShare()
			if d {
				dirtyAny(&s)
			}
			return s
		}, func(a, b multiparty.PublicKeyGenShare, o *multiparty.PublicKeyGenShare) error {
			pr.AggregateShares(a, b, o)
			return nil
		})
		t.runSimple(simple{api: "multiparty.PublicKeyGenProtocol.GenPublicKey", variant: "-", build: func(dirty bool) ([]named, func() (string, error)) {
			s := mkShare(0)
			pk := rlwe.NewPublicKey(p)
			if dirty {
				dirtyAny(&pk.Value)
			}
			crpc := crp
			t.out(pk)
			return []named{{"share", &s}, {"crp", &crpc}}, func() (string, error) { pr.GenPublicKey(s, crpc, pk); return snapString(pk), nil }
		}})
	}
	// ---- Galois key / evaluation key
	{
		mkP := func(tag string) multiparty.GaloisKeyGenProtocol {
			reseed(tag)
			return multiparty.NewGaloisKeyGenProtocol(p)
		}
		crp := mkP("x").SampleCRP(crs("gkg"), e.evkPs...)
		mkShare := func(i int) multiparty.GaloisKeyGenShare {
			pr := mkP(fmt.Sprint("gkg", i))
			s := pr.AllocateShare(e.evkPs...)
			if err := pr.GenShare(sks[i], e.galEl, crp, &s); err != nil {
				panic(err)
			}
			return s
		}
		if ok, _ := eng.Panics(func() { mkShare(0) }); !ok {
			t.runSimple(simple{api: "multiparty.GaloisKeyGenProtocol.GenShare", variant: "-", build: func(dirty bool) ([]named, func() (string, error)) {
				pr := mkP("gkg-gen")
				s := pr.AllocateShare(e.evkPs...)
				if dirty {
					dirtyAny(&s.EvaluationKeyGenShare)
					s.GaloisElement = 999
				}
				sk := e.sk.CopyNew()
				crpc := crp
				t.out(&s)
				return []named{{"sk", sk}, {"crp", &crpc}}, func() (string, error) { err := pr.GenShare(sk, e.galEl, crpc, &s); return snapString(&s), err }
			}})
			pr := mkP("agg")
			aggPatterns(t, "multiparty.GaloisKeyGenProtocol.AggregateShares", mkShare, func(d bool) multiparty.GaloisKeyGenShare {
				s := pr.AllocateShare(e.evkPs...)
				if d {
					dirtyAny(&s.EvaluationKeyGenShare)
				}
				return s
			}, func(a, b multiparty.GaloisKeyGenShare, o *multiparty.GaloisKeyGenShare) error {
				return pr.AggregateShares(a, b, o)
			})
			t.runSimple(simple{api: "multiparty.GaloisKeyGenProtocol.GenGaloisKey", variant: "-", build: func(dirty bool) ([]named, func() (string, error)) {
				s := mkShare(0)
				gk := rlwe.NewGaloisKey(p, e.evkPs...)
				if dirty {
					dirtyAny(&gk.GadgetCiphertext.Value)
					gk.NthRoot = 3
				}
				crpc := crp
				t.out(gk)
				return []named{{"share", &s}, {"crp", &crpc}}, func() (string, error) { err := pr.GenGaloisKey(s, crpc, gk); return snapString(gk), err }
			}})
		} else {
			c.Count("rows_not_applicable", 1)
		}
	}
	{
		mkP := func(tag string) multiparty.EvaluationKeyGenProtocol {
			reseed(tag)
			return multiparty.NewEvaluationKeyGenProtocol(p)
		}
		crp := mkP("x").SampleCRP(crs("evk"), e.evkPs...)
		mkShare := func(i int) multiparty.EvaluationKeyGenShare {
			pr := mkP(fmt.Sprint("evk", i))
			s := pr.AllocateShare(e.evkPs...)
			if err := pr.GenShare(sks[i], sks[1-i], crp, &s); err != nil {
				panic(err)
			}
			return s
		}
		t.runSimple(simple{api: "multiparty.EvaluationKeyGenProtocol.GenShare", variant: "-", build: func(dirty bool) ([]named, func() (string, error)) {
			pr := mkP("evk-gen")
			s := pr.AllocateShare(e.evkPs...)
			if dirty {
				dirtyAny(&s)
			}
			sk, sk2 := e.sk.CopyNew(), e.sk2.CopyNew()
			crpc := crp
			t.out(&s)
			return []named{{"skIn", sk}, {"skOut", sk2}, {"crp", &crpc}}, func() (string, error) { err := pr.GenShare(sk, sk2, crpc, &s); return snapString(&s), err }
		}})
		// a key that does not use the auxiliary modulus, with a power-of-two decomposition (the generator walks the
		// digits by scaling a copy of the input secret: the caller's key is an input)
		{
			lq, lp, w := p.MaxLevel(), -1, 5
			evpNoP := rlwe.EvaluationKeyParameters{LevelQ: &lq, LevelP: &lp, BaseTwoDecomposition: &w}
			crpNoP := mkP("x-nop").SampleCRP(crs("evk-nop"), evpNoP)
			t.runSimple(simple{api: "multiparty.EvaluationKeyGenProtocol.GenShare", variant: "levelP=-1/base-two", build: func(dirty bool) ([]named, func() (string, error)) {
				pr := mkP("evk-gen-nop")
				s := pr.AllocateShare(evpNoP)
				if dirty {
					dirtyAny(&s)
				}
				sk, sk2 := e.sk.CopyNew(), e.sk2.CopyNew()
				crpc := crpNoP
				t.out(&s)
				return []named{{"skIn", sk}, {"skOut", sk2}, {"crp", &crpc}}, func() (string, error) { err := pr.GenShare(sk, sk2, crpc, &s); return snapString(&s), err }
			}})
		}
		pr := mkP("agg")
		aggPatterns(t, "multiparty.EvaluationKeyGenProtocol.AggregateShares", mkShare, func(d bool) multiparty.EvaluationKeyGenShare {
			s := pr.AllocateShare(e.evkPs...)
			if d {
				dirtyAny(&s)
			}
			return s
		}, func(a, b multiparty.EvaluationKeyGenShare, o *multiparty.EvaluationKeyGenShare) error {
			return pr.AggregateShares(a, b, o)
		})
		t.runSimple(simple{api: "multiparty.EvaluationKeyGenProtocol.GenEvaluationKey", variant: "-", build: func(dirty bool) ([]named, func() (string, error)) {
			s := mkShare(0)
			evk := rlwe.NewEvaluationKey(p, e.evkPs...)
			if dirty {
				dirtyAny(&evk.GadgetCiphertext.Value)
			}
			crpc := crp
			t.out(evk)
			return []named{{"share", &s}, {"crp", &crpc}}, func() (string, error) { err := pr.GenEvaluationKey(s, crpc, evk); return snapString(evk), err }
		}})
	}
	// ---- relinearization key (two rounds)
	{
		mkP := func(tag string) multiparty.RelinearizationKeyGenProtocol {
			reseed(tag)
			return multiparty.NewRelinearizationKeyGenProtocol(p)
		}
		crp := mkP("x").SampleCRP(crs("rkg"), e.evkPs...)
		type r12 struct {
			eph    *rlwe.SecretKey
			r1, r2 multiparty.RelinearizationKeyGenShare
		}
		mk := func(i int) r12 {
			pr := mkP(fmt.Sprint("rkg", i))
			eph, r1, r2 := pr.AllocateShare(e.evkPs...)
			pr.GenShareRoundOne(sks[i], crp, eph, &r1)
			pr.GenShareRoundTwo(eph, sks[i], r1, &r2)
			return r12{eph, r1, r2}
		}
		t.runSimple(simple{api: "multiparty.RelinearizationKeyGenProtocol.GenShareRoundOne", variant: "-", build: func(dirty bool) ([]named, func() (string, error)) {
			pr := mkP("rkg-1")
			eph, r1, _ := pr.AllocateShare(e.evkPs...)
			if dirty {
				dirtyAny(&r1)
				dirtyAny(&eph.Value)
			}
			sk := e.sk.CopyNew()
			crpc := crp
			t.out(&r1, eph) // both are outputs of round one (the call samples the ephemeral secret)
			return []named{{"sk", sk}, {"crp", &crpc}}, func() (string, error) {
				pr.GenShareRoundOne(sk, crpc, eph, &r1)
				return snapString(&r1) + snapString(eph), nil
			}
		}})
		t.runSimple(simple{api: "multiparty.RelinearizationKeyGenProtocol.GenShareRoundTwo", variant: "-", build: func(dirty bool) ([]named, func() (string, error)) {
			x := mk(0)
			pr := mkP("rkg-2")
			_, _, r2 := pr.AllocateShare(e.evkPs...)
			if dirty {
				dirtyAny(&r2)
			}
			sk := e.sk.CopyNew()
			t.out(&r2)
			return []named{{"sk", sk}, {"ephSk", x.eph}, {"round1", &x.r1}}, func() (string, error) {
				pr.GenShareRoundTwo(x.eph, sk, x.r1, &r2)
				return snapString(&r2), nil
			}
		}})
		pr := mkP("agg")
		aggPatterns(t, "multiparty.RelinearizationKeyGenProtocol.AggregateShares", func(i int) multiparty.RelinearizationKeyGenShare { return mk(i).r1 },
			func(d bool) multiparty.RelinearizationKeyGenShare {
				_, s, _ := pr.AllocateShare(e.evkPs...)
				if d {
					dirtyAny(&s)
				}
				return s
			}, func(a, b multiparty.RelinearizationKeyGenShare, o *multiparty.RelinearizationKeyGenShare) error {
				pr.AggregateShares(a, b, o)
				return nil
			})
		t.runSimple(simple{api: "multiparty.RelinearizationKeyGenProtocol.GenRelinearizationKey", variant: "-", build: func(dirty bool) ([]named, func() (string, error)) {
			x := mk(0)
			rlk := rlwe.NewRelinearizationKey(p, e.evkPs...)
			if dirty {
				dirtyAny(&rlk.GadgetCiphertext.Value)
			}
			t.out(rlk)
			return []named{{"round1", &x.r1}, {"round2", &x.r2}}, func() (string, error) {
				pr.GenRelinearizationKey(x.r1, x.r2, rlk)
				return snapString(rlk), nil
			}
		}})
	}
	// ---- collective key switching
	for _, lvl := range []int{L, 1} {
		lvl := lvl
		ct0 := e.ct(lvl, 1)
		mkP := func(tag string) multiparty.KeySwitchProtocol {
			reseed(tag)
			pr, err := multiparty.NewKeySwitchProtocol(p, noise)
			if err != nil {
				panic(err)
			}
			return pr
		}
		mkShare := func(i int) multiparty.KeySwitchShare {
			pr := mkP(fmt.Sprint("cks", i, lvl))
			s := pr.AllocateShare(lvl)
			pr.GenShare(sks[i], sks[1-i], ct0.CopyNew(), &s)
			return s
		}
		variant := fmt.Sprintf("lvl%d", lvl)
		t.runSimple(simple{api: "multiparty.KeySwitchProtocol.GenShare", variant: variant, build: func(dirty bool) ([]named, func() (string, error)) {
			pr := mkP("cks-gen" + variant)
			var s multiparty.KeySwitchShare
			if dirty {
				s = pr.AllocateShare(L)
				dirtyAny(&s)
				s.Value.Resize(lvl)
			} else {
				s = pr.AllocateShare(lvl)
			}
			sk, sk2, ct := e.sk.CopyNew(), e.sk2.CopyNew(), ct0.CopyNew()
			t.out(&s)
			return []named{{"skInput", sk}, {"skOutput", sk2}, {"ct", ct}}, func() (string, error) {
				pr.GenShare(sk, sk2, ct, &s)
				return cvalString(canonPoly(rq, s.Value)), nil
			}
		}})
		pr := mkP("agg")
		aggPatterns(t, "multiparty.KeySwitchProtocol.AggregateShares", mkShare, func(d bool) multiparty.KeySwitchShare {
			s := pr.AllocateShare(lvl)
			if d {
				dirtyAny(&s)
			}
			return s
		}, func(a, b multiparty.KeySwitchShare, o *multiparty.KeySwitchShare) error {
			return pr.AggregateShares(a, b, o)
		})
		// KeySwitch(ctIn, combined, opOut): unary shape with out == in
		s := &scheme[multiparty.KeySwitchProtocol]{name: "mp", rq: rq, maxLvl: L,
			newEval: func() multiparty.KeySwitchProtocol { return mkP("ks") },
			poison:  func(po *poisoner, pr multiparty.KeySwitchProtocol) { po.fields(&pr, "buf", "bufDelta") },
			newCt:   func(deg, l int) *rlwe.Ciphertext { return rlwe.NewCiphertext(p, deg, l) },
			dirty:   e.scheme().dirty,
		}
		sh := mkShare(0)
		runUnary(t, s, urow[multiparty.KeySwitchProtocol]{api: "multiparty.KeySwitchProtocol.KeySwitch", outDeg: same1,
			call: func(pr multiparty.KeySwitchProtocol, in, out *rlwe.Ciphertext) error {
				pr.KeySwitch(in, sh, out)
				return nil
			}}, "", variant, ct0, []named{{"combined", &sh}})

		// public-key switching
		mkPP := func(tag string) multiparty.PublicKeySwitchProtocol {
			reseed(tag)
			pr, err := multiparty.NewPublicKeySwitchProtocol(p, noise)
			if err != nil {
				panic(err)
			}
			return pr
		}
		mkPShare := func(i int) multiparty.PublicKeySwitchShare {
			pr := mkPP(fmt.Sprint("pcks", i, lvl))
			s := pr.AllocateShare(lvl)
			pr.GenShare(sks[i], e.pk, ct0.CopyNew(), &s)
			return s
		}
		t.runSimple(simple{api: "multiparty.PublicKeySwitchProtocol.GenShare", variant: variant, build: func(dirty bool) ([]named, func() (string, error)) {
			pr := mkPP("pcks-gen" + variant)
			s := pr.AllocateShare(lvl)
			if dirty {
				dirtyAny(&s.Value)
			}
			sk, ct := e.sk.CopyNew(), ct0.CopyNew()
			t.out(&s)
			return []named{{"sk", sk}, {"pk", e.pk}, {"ct", ct}}, func() (string, error) {
				pr.GenShare(sk, e.pk, ct, &s)
				return cvalString(canonEl(rq, &s.Element)), nil
			}
		}})
		ppr := mkPP("agg")
		aggPatterns(t, "multiparty.PublicKeySwitchProtocol.AggregateShares", mkPShare, func(d bool) multiparty.PublicKeySwitchShare {
			s := ppr.AllocateShare(lvl)
			if d {
				dirtyAny(&s.Value)
			}
			return s
		}, func(a, b multiparty.PublicKeySwitchShare, o *multiparty.PublicKeySwitchShare) error {
			return ppr.AggregateShares(a, b, o)
		})
		ps := &scheme[multiparty.PublicKeySwitchProtocol]{name: "mp", rq: rq, maxLvl: L,
			newEval: func() multiparty.PublicKeySwitchProtocol { return mkPP("pks") },
			poison:  func(po *poisoner, pr multiparty.PublicKeySwitchProtocol) { po.fields(&pr, "buf") },
			newCt:   func(deg, l int) *rlwe.Ciphertext { return rlwe.NewCiphertext(p, deg, l) },
			dirty:   e.scheme().dirty,
		}
		psh := mkPShare(0)
		runUnary(t, ps, urow[multiparty.PublicKeySwitchProtocol]{api: "multiparty.PublicKeySwitchProtocol.KeySwitch", outDeg: same1,
			call: func(pr multiparty.PublicKeySwitchProtocol, in, out *rlwe.Ciphertext) error {
				pr.KeySwitch(in, psh, out)
				return nil
			}}, "", variant, ct0, []named{{"combined", &psh}})
	}
	// ---- threshold secret sharing
	{
		thr := multiparty.NewThresholdizer(p)
		reseed("shamir")
		poly, err := thr.GenShamirPolynomial(2, e.sk)
		if err == nil {
			// the Shamir polynomial returned by the call holds a copy of the secret (its constant term)
			t.runSimple(simple{api: "multiparty.Thresholdizer.GenShamirPolynomial", variant: "-", build: func(dirty bool) ([]named, func() (string, error)) {
				reseed("shamir-poly")
				th := multiparty.NewThresholdizer(p)
				sk := e.sk.CopyNew()
				return []named{{"secret", sk}}, func() (string, error) {
					sp, err := th.GenShamirPolynomial(2, sk)
					t.out(&sp)
					return snapString(&sp), err
				}
			}})
			mkShare := func(i int) multiparty.ShamirSecretShare {
				s := thr.AllocateThresholdSecretShare()
				thr.GenShamirSecretShare(multiparty.ShamirPublicPoint(i+1), poly, &s)
				return s
			}
			t.runSimple(simple{api: "multiparty.Thresholdizer.GenShamirSecretShare", variant: "-", build: func(dirty bool) ([]named, func() (string, error)) {
				s := thr.AllocateThresholdSecretShare()
				if dirty {
					dirtyAny(&s)
				}
				t.out(&s)
				return []named{{"secretPoly", &poly}}, func() (string, error) {
					thr.GenShamirSecretShare(3, poly, &s)
					return snapString(&s), nil
				}
			}})
			aggPatterns(t, "multiparty.Thresholdizer.AggregateShares", mkShare, func(d bool) multiparty.ShamirSecretShare {
				s := thr.AllocateThresholdSecretShare()
				if d {
					dirtyAny(&s)
				}
				return s
			}, func(a, b multiparty.ShamirSecretShare, o *multiparty.ShamirSecretShare) error {
				return thr.AggregateShares(a, b, o)
			})
			pts := []multiparty.ShamirPublicPoint{1, 2, 3}
			t.runSimple(simple{api: "multiparty.Combiner.GenAdditiveShare", variant: "-", build: func(dirty bool) ([]named, func() (string, error)) {
				cmb := multiparty.NewCombiner(p, 1, pts, 2)
				own := mkShare(0)
				sk := rlwe.NewSecretKey(p)
				if dirty {
					dirtyAny(&sk.Value)
				}
				act := append([]multiparty.ShamirPublicPoint(nil), pts[:2]...)
				t.out(sk)
				return []named{{"activePoints", &act}, {"ownShare", &own}}, func() (string, error) {
					err := cmb.GenAdditiveShare(act, 1, own, sk)
					return snapString(sk), err
				}
			}})
			// history of the Combiner itself: threshold 3 of 4, the same object has served another active set (and the
			// same one) before; the share must be the one a new Combiner gives
			if poly3, err3 := thr.GenShamirPolynomial(3, e.sk); err3 == nil {
				pts4 := []multiparty.ShamirPublicPoint{1, 2, 3, 4}
				t.runSimple(simple{api: "multiparty.Combiner.GenAdditiveShare", variant: "t3-combiner-used-before", build: func(dirty bool) ([]named, func() (string, error)) {
					cmb := multiparty.NewCombiner(p, 1, pts4, 3)
					own := thr.AllocateThresholdSecretShare()
					thr.GenShamirSecretShare(1, poly3, &own)
					sk := rlwe.NewSecretKey(p)
					act := []multiparty.ShamirPublicPoint{1, 2, 3}
					if dirty {
						tmp := rlwe.NewSecretKey(p)
						_ = cmb.GenAdditiveShare([]multiparty.ShamirPublicPoint{1, 3, 4}, 1, own, tmp)
						_ = cmb.GenAdditiveShare([]multiparty.ShamirPublicPoint{3, 2, 1}, 1, own, tmp)
						_ = cmb.GenAdditiveShare([]multiparty.ShamirPublicPoint{2, 4, 1}, 1, own, tmp)
						t.c.Count("combiner_history_runs", 1)
					}
					t.out(sk)
					return []named{{"activePoints", &act}, {"ownShare", &own}}, func() (string, error) {
						err := cmb.GenAdditiveShare(act, 1, own, sk)
						return snapString(sk), err
					}
				}})
			}
		}
	}
}
