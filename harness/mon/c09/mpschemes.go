package c09

// Scheme-level multiparty protocols (multiparty/mpckks, multiparty/mpbgv): encryption-to-shares,
// shares-to-encryption, collective refresh and masked (linear) transformation. Inputs (secret keys,
// ciphertexts, common reference polynomials, shares, the transformation) stay intact; an output aliased
// with an input gives the value of the run with distinct objects; no dependence on the buffers of the
// protocol object, on a ShallowCopy of a used one, nor on the previous content of the outputs.
// Randomised steps are repeated under an identically re-seeded crypto/rand.

import (
	"fmt"
	"math/big"

	"github.com/tuneinsight/lattigo/v6/core/rlwe"
	"github.com/tuneinsight/lattigo/v6/multiparty"
	"github.com/tuneinsight/lattigo/v6/multiparty/mpbgv"
	"github.com/tuneinsight/lattigo/v6/multiparty/mpckks"
	"github.com/tuneinsight/lattigo/v6/ring"
	"github.com/tuneinsight/lattigo/v6/schemes/bgv"
	"github.com/tuneinsight/lattigo/v6/schemes/ckks"
	"github.com/tuneinsight/lattigo/v6/utils/bignum"
	"github.com/tuneinsight/lattigo/v6/utils/sampling"

	"verif/harness/eng"
)

func bigShareString(s *multiparty.AdditiveShareBigint) string {
	out := ""
	for _, v := range s.Value {
		if v == nil {
			out += "nil,"
		} else {
			out += v.Text(16) + ","
		}
	}
	return out
}

func cpBigShare(s multiparty.AdditiveShareBigint) multiparty.AdditiveShareBigint {
	o := multiparty.AdditiveShareBigint{Value: make([]*big.Int, len(s.Value))}
	for i := range o.Value {
		o.Value[i] = new(big.Int).Set(s.Value[i])
	}
	return o
}

func cpRefreshShare(s multiparty.RefreshShare) multiparty.RefreshShare {
	o := multiparty.RefreshShare{EncToShareShare: multiparty.KeySwitchShare{Value: cpPoly(s.EncToShareShare.Value)}, ShareToEncShare: multiparty.KeySwitchShare{Value: cpPoly(s.ShareToEncShare.Value)}}
	o.MetaData = *s.MetaData.CopyNew()
	return o
}

func refreshShareString(rIn, rOut *ring.Ring, s *multiparty.RefreshShare) string {
	return cvalString(canonPoly(rIn, s.EncToShareShare.Value)) + "|" + cvalString(canonPoly(rOut, s.ShareToEncShare.Value)) + "|" + metaString(&s.MetaData)
}

func keyedPRNG(tag string) sampling.PRNG {
	prng, err := sampling.NewKeyedPRNG([]byte("c09-mps-" + tag))
	if err != nil {
		panic(err)
	}
	return prng
}

func runMPCKKS(c *eng.Ctx, cfg pcfg) {
	e, err := newCKKSEnv(cfg, c.Rand())
	if err != nil {
		c.Inconclusive("parameters rejected: " + err.Error())
		return
	}
	t := &T{c: c, tag: cfg.tag()}
	rnd := c.Rand()
	p := e.p
	rq := p.RingQ()
	L := p.MaxLevel()
	lvlIn := 1
	const logBound = 70
	noise := ring.DiscreteGaussian{Sigma: 3.2, Bound: 19}
	c.Sample(map[string]any{"params": cfg, "area": "multiparty/mpckks", "patterns": "fresh,hist-dirty,out=in,out=share1,out=share2,hist-derived-shallowcopy"})
	reseed := func(tag string) { eng.SeedCryptoRand("c09-mpckks", c.CaseID, tag) }
	dirtyAny := func(x any) { newPoisoner(rnd, 1).value(reflectValueOf(x), 0) }
	ct0 := e.ct(lvlIn+1, "", 1)

	mkE2S := func(tag string, dirty bool) mpckks.EncToShareProtocol {
		reseed(tag)
		pr, err := mpckks.NewEncToShareProtocol(p, noise)
		if err != nil {
			panic(err)
		}
		if dirty {
			po := newPoisoner(rnd, 1)
			po.fields(&pr, "maskBigint", "buff", "KeySwitchProtocol.buf", "KeySwitchProtocol.bufDelta")
		}
		return pr
	}
	// ---- encryption to shares
	e2sOut := func(tag string, dirty bool) (multiparty.AdditiveShareBigint, multiparty.KeySwitchShare) {
		pr := mkE2S(tag, false)
		ss := mpckks.NewAdditiveShare(p, ct0.LogSlots())
		pub := pr.AllocateShare(lvlIn)
		if err := pr.GenShare(e.sk, logBound, ct0.CopyNew(), &ss, &pub); err != nil {
			panic(err)
		}
		return ss, pub
	}
	t.runPatterns("mpckks.EncToShareProtocol.GenShare", "-", "", []string{"hist-dirty"}, func(pat string) ([]named, func() (string, error)) {
		pr := mkE2S("e2s-gen", pat == "hist-dirty")
		ss := mpckks.NewAdditiveShare(p, ct0.LogSlots())
		pub := pr.AllocateShare(lvlIn)
		if pat == "hist-dirty" {
			dirtyAny(&ss)
			dirtyAny(&pub)
		}
		sk, ct := e.sk.CopyNew(), ct0.CopyNew()
		t.out(&ss, &pub)
		return []named{{"sk", sk}, {"ct", ct}}, func() (string, error) {
			err := pr.GenShare(sk, logBound, ct, &ss, &pub)
			return bigShareString(&ss) + "|" + cvalString(canonPoly(rq, pub.Value)), err
		}
	})
	ss0, pub0 := e2sOut("e2s-0", false)
	t.runPatterns("mpckks.EncToShareProtocol.GetShare", "-", "", []string{"out=secretShare", "hist-dirty", "hist-derived-shallowcopy"}, func(pat string) ([]named, func() (string, error)) {
		pr := mkE2S("e2s-get", pat != "fresh" && pat != "out=secretShare")
		if pat == "hist-derived-shallowcopy" {
			pr = pr.ShallowCopy()
		}
		in := cpBigShare(ss0)
		out := mpckks.NewAdditiveShare(p, ct0.LogSlots())
		pub := multiparty.KeySwitchShare{Value: cpPoly(pub0.Value)}
		ct := ct0.CopyNew()
		ins := []named{{"aggregatePublicShare", &pub}, {"ct", ct}}
		switch pat {
		case "out=secretShare":
			out = in
		case "hist-dirty":
			dirtyAny(&out)
			ins = append(ins, named{"secretShare", &in})
		default:
			ins = append(ins, named{"secretShare", &in})
		}
		t.out(&out)
		return ins, func() (string, error) { pr.GetShare(&in, pub, ct, &out); return bigShareString(&out), nil }
	})
	// ---- shares to encryption
	mkS2E := func(tag string, dirty bool) mpckks.ShareToEncProtocol {
		reseed(tag)
		pr, err := mpckks.NewShareToEncProtocol(p, noise)
		if err != nil {
			panic(err)
		}
		if dirty {
			newPoisoner(rnd, 1).fields(&pr, "tmp", "KeySwitchProtocol.buf", "KeySwitchProtocol.bufDelta")
		}
		return pr
	}
	crp0 := mkS2E("crp", false).SampleCRP(L, keyedPRNG("s2e"))
	t.runPatterns("mpckks.ShareToEncProtocol.GenShare", "-", "", []string{"hist-dirty"}, func(pat string) ([]named, func() (string, error)) {
		pr := mkS2E("s2e-gen", pat == "hist-dirty")
		out := pr.AllocateShare(L)
		if pat == "hist-dirty" {
			dirtyAny(&out)
		}
		sk, ss := e.sk.CopyNew(), cpBigShare(ss0)
		crp := multiparty.KeySwitchCRP{Value: cpPoly(crp0.Value)}
		md := ct0.MetaData.CopyNew()
		t.out(&out)
		return []named{{"sk", sk}, {"crs", &crp}, {"metadata", md}, {"secretShare", &ss}}, func() (string, error) {
			err := pr.GenShare(sk, crp, md, ss, &out)
			return cvalString(canonPoly(rq, out.Value)), err
		}
	})
	t.runPatterns("mpckks.ShareToEncProtocol.GetEncryption", "-", "", []string{"hist-out", "hist-derived-shallowcopy"}, func(pat string) ([]named, func() (string, error)) {
		pr := mkS2E("s2e-get", pat != "fresh")
		if pat == "hist-derived-shallowcopy" {
			pr = pr.ShallowCopy()
		}
		agg := multiparty.KeySwitchShare{Value: randPoly(rq, eng.NewRand("c09-agg", 7))}
		crp := multiparty.KeySwitchCRP{Value: cpPoly(crp0.Value)}
		out := ckks.NewCiphertext(p, 1, L)
		if pat == "hist-out" {
			// (the metadata of the output is the caller's: GetEncryption has no metadata argument)
			fillResidues(rq, out, rnd)
		}
		t.out(out)
		return []named{{"c0Agg", &agg}, {"crs", &crp}}, func() (string, error) {
			err := pr.GetEncryption(agg, crp, out)
			return ctString(rq, out), err
		}
	})
	// ---- collective refresh and masked linear transformation (output parameters: the same ring, then a smaller one)
	pSmall, errS := ckks.NewParametersFromLiteral(ckks.ParametersLiteral{LogN: cfg.LogN - 1, Q: cfg.Q, P: cfg.P, LogDefaultScale: cfg.LogScale, RingType: p.RingType()})
	skSmall := (*rlwe.SecretKey)(nil)
	if errS == nil {
		skSmall = rlwe.NewKeyGenerator(pSmall).GenSecretKeyNew()
	}
	transform := &mpckks.MaskedLinearTransformationFunc{Decode: true, Encode: true, Func: func(v []*bignum.Complex) {
		for i := range v {
			v[i][0].Add(v[i][0], v[i][0])
		}
	}}
	for _, v := range []struct {
		name  string
		pOut  ckks.Parameters
		skOut *rlwe.SecretKey
		tr    *mpckks.MaskedLinearTransformationFunc
		ok    bool
	}{{"refresh", p, e.sk, nil, true}, {"transform", p, e.sk2, transform, true}, {"transform/smaller-ring", pSmall, skSmall, transform, errS == nil}} {
		if !v.ok {
			c.Count("rows_not_applicable", 1)
			continue
		}
		v := v
		rqOut := v.pOut.RingQ()
		LOut := v.pOut.MaxLevel()
		ct0 := ct0
		if v.pOut.N() != p.N() {
			// (a ciphertext whose slots fit in the smaller output ring: sparse packing)
			sp, err := e.enc.EncryptNew(e.ptSparse(lvlIn+1, ""))
			if err != nil {
				panic(err)
			}
			ct0 = sp
		}
		mk := func(tag string, dirty bool) mpckks.MaskedLinearTransformationProtocol {
			reseed(tag + v.name)
			pr, err := mpckks.NewMaskedLinearTransformationProtocol(p, v.pOut, 128, noise)
			if err != nil {
				panic(err)
			}
			if dirty {
				po := newPoisoner(rnd, 1)
				po.fields(&pr, "mask", "e2s.maskBigint", "e2s.buff", "e2s.KeySwitchProtocol.buf", "e2s.KeySwitchProtocol.bufDelta", "s2e.tmp", "s2e.KeySwitchProtocol.buf", "s2e.KeySwitchProtocol.bufDelta")
			}
			return pr
		}
		crp := mk("crp", false).SampleCRP(LOut, keyedPRNG("mlt"+v.name))
		mkShare := func(i int) multiparty.RefreshShare {
			pr := mk(fmt.Sprint("share", i), false)
			s := pr.AllocateShare(lvlIn, LOut)
			sk := []*rlwe.SecretKey{e.sk, e.sk2}[i]
			if err := pr.GenShare(sk, v.skOut, logBound, ct0.CopyNew(), crp, v.tr, &s); err != nil {
				panic(err)
			}
			return s
		}
		if ok, _ := eng.Panics(func() { mkShare(0) }); ok {
			c.Count("rows_not_applicable", 1)
			continue
		}
		api := "mpckks.MaskedLinearTransformationProtocol"
		t.runPatterns(api+".GenShare", v.name, "", []string{"hist-dirty"}, func(pat string) ([]named, func() (string, error)) {
			pr := mk("gen", pat == "hist-dirty")
			s := pr.AllocateShare(lvlIn, LOut)
			if pat == "hist-dirty" {
				dirtyAny(&s.EncToShareShare)
				dirtyAny(&s.ShareToEncShare)
				s.MetaData.Scale = rlwe.NewScale(7)
			}
			skIn, skOut, ct := e.sk.CopyNew(), v.skOut.CopyNew(), ct0.CopyNew()
			cr := multiparty.KeySwitchCRP{Value: cpPoly(crp.Value)}
			t.out(&s)
			return []named{{"skIn", skIn}, {"skOut", skOut}, {"ct", ct}, {"crs", &cr}}, func() (string, error) {
				err := pr.GenShare(skIn, skOut, logBound, ct, cr, v.tr, &s)
				return refreshShareString(rq, rqOut, &s), err
			}
		})
		s0, s1 := mkShare(0), mkShare(1)
		t.runPatterns(api+".AggregateShares", v.name, "", []string{"out=share1", "out=share2", "hist-out"}, func(pat string) ([]named, func() (string, error)) {
			pr := mk("agg", false)
			a, b := cpRefreshShare(s0), cpRefreshShare(s1)
			o := pr.AllocateShare(lvlIn, LOut)
			out := &o
			ins := []named{}
			switch pat {
			case "out=share1":
				out, ins = &a, []named{{"share2", &b}}
			case "out=share2":
				out, ins = &b, []named{{"share1", &a}}
			case "hist-out":
				dirtyAny(&o.EncToShareShare)
				dirtyAny(&o.ShareToEncShare)
				fallthrough
			default:
				ins = []named{{"share1", &a}, {"share2", &b}}
			}
			return ins, func() (string, error) {
				t.out(out)
				err := pr.AggregateShares(&a, &b, out)
				// (the metadata of an aggregated share is the caller's business: AggregateShares adds the two polynomials)
				return cvalString(canonPoly(rq, out.EncToShareShare.Value)) + "|" + cvalString(canonPoly(rqOut, out.ShareToEncShare.Value)), err
			}
		})
		sameRing := v.pOut.N() == p.N()
		pats := []string{"hist-out", "hist-dirty", "hist-derived-shallowcopy"}
		if sameRing {
			pats = append(pats, "out=in")
		}
		t.runPatterns(api+".Transform", v.name, "", pats, func(pat string) ([]named, func() (string, error)) {
			pr := mk("transform", pat == "hist-dirty" || pat == "hist-derived-shallowcopy")
			if pat == "hist-derived-shallowcopy" {
				reseed("sc" + v.name)
				pr = pr.ShallowCopy()
			}
			ct := ct0.CopyNew()
			sh := cpRefreshShare(s0)
			cr := multiparty.KeySwitchCRP{Value: cpPoly(crp.Value)}
			out := ckks.NewCiphertext(v.pOut, 1, LOut)
			ins := []named{{"crs", &cr}, {"share", &sh}}
			switch pat {
			case "out=in":
				out = ct
			case "hist-out", "hist-dirty":
				fillResidues(rqOut, out, rnd)
				out.Scale = rlwe.NewScale(7)
				out.IsBatched = false
				fallthrough
			default:
				ins = append(ins, named{"ct", ct})
			}
			return ins, func() (string, error) {
				t.out(out)
				err := pr.Transform(ct, v.tr, cr, sh, out)
				return ctString(rqOut, out), err
			}
		})
	}
}

func runMPBGV(c *eng.Ctx, cfg pcfg) {
	e, err := newBGVEnv(cfg, c.Rand())
	if err != nil {
		c.Inconclusive("parameters rejected: " + err.Error())
		return
	}
	t := &T{c: c, tag: cfg.tag()}
	rnd := c.Rand()
	p := e.p
	rq := p.RingQ()
	rt := p.RingT()
	L := p.MaxLevel()
	lvlIn := 1
	noise := ring.DiscreteGaussian{Sigma: 3.2, Bound: 19}
	c.Sample(map[string]any{"params": cfg, "area": "multiparty/mpbgv", "patterns": "fresh,hist-dirty,out=in,out=share1,out=share2,hist-derived-shallowcopy"})
	reseed := func(tag string) { eng.SeedCryptoRand("c09-mpbgv", c.CaseID, tag) }
	dirtyAny := func(x any) { newPoisoner(rnd, 1).value(reflectValueOf(x), 0) }
	ct0 := e.ct(lvlIn+1, 3, 1)
	shareT := func(s *multiparty.AdditiveShare) string { return cvalString(canonPoly(rt, s.Value)) }
	cpShareT := func(s multiparty.AdditiveShare) multiparty.AdditiveShare {
		return multiparty.AdditiveShare{Value: cpPoly(s.Value)}
	}

	t.runPatterns("mpbgv.EncToShareProtocol.GenShare", "-", "", []string{"hist-dirty"}, func(pat string) ([]named, func() (string, error)) {
		pr := mkE2SNoEnc(t, p, noise, reseed, "e2s-gen", pat == "hist-dirty", rnd)
		ss := mpbgv.NewAdditiveShare(p)
		pub := pr.AllocateShare(lvlIn)
		if pat == "hist-dirty" {
			dirtyAny(&ss)
			dirtyAny(&pub)
		}
		sk, ct := e.sk.CopyNew(), ct0.CopyNew()
		t.out(&ss, &pub)
		return []named{{"sk", sk}, {"ct", ct}}, func() (string, error) {
			pr.GenShare(sk, ct, &ss, &pub)
			return shareT(&ss) + "|" + cvalString(canonPoly(rq, pub.Value)), nil
		}
	})
	ss0 := mpbgv.NewAdditiveShare(p)
	pub0 := multiparty.KeySwitchShare{}
	{
		pr := mkE2SNoEnc(t, p, noise, reseed, "e2s-0", false, rnd)
		pub0 = pr.AllocateShare(lvlIn)
		pr.GenShare(e.sk, ct0.CopyNew(), &ss0, &pub0)
	}
	t.runPatterns("mpbgv.EncToShareProtocol.GetShare", "-", "", []string{"out=secretShare", "hist-dirty", "hist-derived-shallowcopy"}, func(pat string) ([]named, func() (string, error)) {
		pr := mkE2SNoEnc(t, p, noise, reseed, "e2s-get", pat != "fresh" && pat != "out=secretShare", rnd)
		if pat == "hist-derived-shallowcopy" {
			pr = pr.ShallowCopy()
		}
		in := cpShareT(ss0)
		out := mpbgv.NewAdditiveShare(p)
		pub := multiparty.KeySwitchShare{Value: cpPoly(pub0.Value)}
		ct := ct0.CopyNew()
		ins := []named{{"aggregatePublicShare", &pub}, {"ct", ct}}
		switch pat {
		case "out=secretShare":
			out = in
		case "hist-dirty":
			dirtyAny(&out)
			ins = append(ins, named{"secretShare", &in})
		default:
			ins = append(ins, named{"secretShare", &in})
		}
		t.out(&out)
		return ins, func() (string, error) { pr.GetShare(&in, pub, ct, &out); return shareT(&out), nil }
	})
	mkS2E := func(tag string, dirty bool) mpbgv.ShareToEncProtocol {
		reseed(tag)
		pr, err := mpbgv.NewShareToEncProtocol(p, noise)
		if err != nil {
			panic(err)
		}
		if dirty {
			newPoisoner(rnd, 1).fields(&pr, "tmpPlaintextRingQ", "KeySwitchProtocol.buf", "KeySwitchProtocol.bufDelta", "encoder.bufQ", "encoder.bufT", "encoder.bufB")
		}
		return pr
	}
	crp0 := mkS2E("crp", false).SampleCRP(L, keyedPRNG("s2e"))
	t.runPatterns("mpbgv.ShareToEncProtocol.GenShare", "-", "", []string{"hist-dirty"}, func(pat string) ([]named, func() (string, error)) {
		pr := mkS2E("s2e-gen", pat == "hist-dirty")
		out := pr.AllocateShare(L)
		if pat == "hist-dirty" {
			dirtyAny(&out)
		}
		sk, ss := e.sk.CopyNew(), cpShareT(ss0)
		crp := multiparty.KeySwitchCRP{Value: cpPoly(crp0.Value)}
		t.out(&out)
		return []named{{"sk", sk}, {"crp", &crp}, {"secretShare", &ss}}, func() (string, error) {
			err := pr.GenShare(sk, crp, ss, &out)
			return cvalString(canonPoly(rq, out.Value)), err
		}
	})
	t.runPatterns("mpbgv.ShareToEncProtocol.GetEncryption", "-", "", []string{"hist-out", "hist-derived-shallowcopy"}, func(pat string) ([]named, func() (string, error)) {
		pr := mkS2E("s2e-get", pat != "fresh")
		if pat == "hist-derived-shallowcopy" {
			pr = pr.ShallowCopy()
		}
		agg := multiparty.KeySwitchShare{Value: randPoly(rq, eng.NewRand("c09-agg", 7))}
		crp := multiparty.KeySwitchCRP{Value: cpPoly(crp0.Value)}
		out := bgv.NewCiphertext(p, 1, L)
		if pat == "hist-out" {
			fillResidues(rq, out, rnd)
		}
		t.out(out)
		return []named{{"c0Agg", &agg}, {"crp", &crp}}, func() (string, error) {
			err := pr.GetEncryption(agg, crp, out)
			return ctString(rq, out), err
		}
	})
	transform := &mpbgv.MaskedTransformFunc{Decode: true, Encode: true, Func: func(v []uint64) {
		for i := range v {
			v[i] = (v[i] * 3) % p.PlaintextModulus()
		}
	}}
	for _, v := range []struct {
		name  string
		skOut *rlwe.SecretKey
		tr    *mpbgv.MaskedTransformFunc
	}{{"refresh", e.sk, nil}, {"transform", e.sk2, transform}} {
		v := v
		mk := func(tag string, dirty bool) mpbgv.MaskedTransformProtocol {
			reseed(tag + v.name)
			pr, err := mpbgv.NewMaskedTransformProtocol(p, p, noise)
			if err != nil {
				panic(err)
			}
			if dirty {
				po := newPoisoner(rnd, 1)
				po.fields(&pr, "tmpPt", "tmpMask", "tmpMaskPerm", "e2s.tmpPlaintextRingT", "e2s.tmpPlaintextRingQ", "e2s.KeySwitchProtocol.buf", "e2s.KeySwitchProtocol.bufDelta",
					"e2s.encoder.bufQ", "e2s.encoder.bufT", "e2s.encoder.bufB", "s2e.tmpPlaintextRingQ", "s2e.KeySwitchProtocol.buf", "s2e.KeySwitchProtocol.bufDelta", "s2e.encoder.bufQ", "s2e.encoder.bufT", "s2e.encoder.bufB")
			}
			return pr
		}
		prc := mk("crp", false)
		crp := prc.SampleCRP(L, keyedPRNG("mt"+v.name))
		mkShare := func(i int) multiparty.RefreshShare {
			pr := mk(fmt.Sprint("share", i), false)
			s := pr.AllocateShare(lvlIn, L)
			sk := []*rlwe.SecretKey{e.sk, e.sk2}[i]
			if err := pr.GenShare(sk, v.skOut, ct0.CopyNew(), crp, v.tr, &s); err != nil {
				panic(err)
			}
			return s
		}
		if ok, _ := eng.Panics(func() { mkShare(0) }); ok {
			c.Count("rows_not_applicable", 1)
			continue
		}
		api := "mpbgv.MaskedTransformProtocol"
		t.runPatterns(api+".GenShare", v.name, "", []string{"hist-dirty"}, func(pat string) ([]named, func() (string, error)) {
			pr := mk("gen", pat == "hist-dirty")
			s := pr.AllocateShare(lvlIn, L)
			if pat == "hist-dirty" {
				dirtyAny(&s.EncToShareShare)
				dirtyAny(&s.ShareToEncShare)
				s.MetaData.Scale = rlwe.NewScale(7)
			}
			skIn, skOut, ct := e.sk.CopyNew(), v.skOut.CopyNew(), ct0.CopyNew()
			cr := multiparty.KeySwitchCRP{Value: cpPoly(crp.Value)}
			t.out(&s)
			return []named{{"skIn", skIn}, {"skOut", skOut}, {"ct", ct}, {"crs", &cr}}, func() (string, error) {
				err := pr.GenShare(skIn, skOut, ct, cr, v.tr, &s)
				return refreshShareString(rq, rq, &s), err
			}
		})
		s0, s1 := mkShare(0), mkShare(1)
		t.runPatterns(api+".AggregateShares", v.name, "", []string{"out=share1", "out=share2", "hist-out"}, func(pat string) ([]named, func() (string, error)) {
			pr := mk("agg", false)
			a, b := cpRefreshShare(s0), cpRefreshShare(s1)
			o := pr.AllocateShare(lvlIn, L)
			out := &o
			ins := []named{}
			switch pat {
			case "out=share1":
				out, ins = &a, []named{{"share2", &b}}
			case "out=share2":
				out, ins = &b, []named{{"share1", &a}}
			case "hist-out":
				dirtyAny(&o.EncToShareShare)
				dirtyAny(&o.ShareToEncShare)
				fallthrough
			default:
				ins = []named{{"share1", &a}, {"share2", &b}}
			}
			return ins, func() (string, error) {
				t.out(out)
				err := pr.AggregateShares(a, b, out)
				return cvalString(canonPoly(rq, out.EncToShareShare.Value)) + "|" + cvalString(canonPoly(rq, out.ShareToEncShare.Value)), err
			}
		})
		t.runPatterns(api+".Transform", v.name, "", []string{"out=in", "hist-out", "hist-dirty", "hist-derived-shallowcopy"}, func(pat string) ([]named, func() (string, error)) {
			pr := mk("transform", pat == "hist-dirty" || pat == "hist-derived-shallowcopy")
			if pat == "hist-derived-shallowcopy" {
				reseed("sc" + v.name)
				pr = pr.ShallowCopy()
			}
			ct := ct0.CopyNew()
			sh := cpRefreshShare(s0)
			cr := multiparty.KeySwitchCRP{Value: cpPoly(crp.Value)}
			out := bgv.NewCiphertext(p, 1, L)
			ins := []named{{"crs", &cr}, {"share", &sh}}
			switch pat {
			case "out=in":
				out = ct
			case "hist-out", "hist-dirty":
				fillResidues(rq, out, rnd)
				out.Scale = p.NewScale(7)
				out.IsBatched = false
				fallthrough
			default:
				ins = append(ins, named{"ct", ct})
			}
			return ins, func() (string, error) {
				t.out(out)
				err := pr.Transform(ct, v.tr, cr, sh, out)
				return ctString(rq, out), err
			}
		})
	}
}

// mkE2SNoEnc builds a (possibly used) mpbgv encryption-to-shares protocol object.
func mkE2SNoEnc(t *T, p bgv.Parameters, noise ring.DistributionParameters, reseed func(string), tag string, dirty bool, rnd *eng.Rand) mpbgv.EncToShareProtocol {
	reseed(tag)
	pr, err := mpbgv.NewEncToShareProtocol(p, noise)
	if err != nil {
		panic(err)
	}
	if dirty {
		newPoisoner(rnd, 1).fields(&pr, "tmpPlaintextRingT", "tmpPlaintextRingQ", "KeySwitchProtocol.buf", "KeySwitchProtocol.bufDelta", "encoder.bufQ", "encoder.bufT", "encoder.bufB")
	}
	return pr
}
