package c09

// core/rlwe/element.go (Copy, CopyNew, Resize, NewElementAtLevelFromPoly, ring-degree switching),
// rlwe.Evaluator.InitOutputBinaryOp / InitOutputUnaryOp, ApplyEvaluationKey between two ring degrees,
// GadgetProductHoisted and DecomposeNTT.

import (
	"fmt"

	"github.com/tuneinsight/lattigo/v6/core/rlwe"
	"github.com/tuneinsight/lattigo/v6/ring"
	"github.com/tuneinsight/lattigo/v6/ring/ringqp"

	"verif/harness/eng"
)

func elString(rq *ring.Ring, el *rlwe.Element[ring.Poly]) string { return cvalString(canonEl(rq, el)) }

func runRLWEElement(c *eng.Ctx, cfg pcfg) {
	e, err := newRLWEEnv(cfg, c.Rand())
	if err != nil {
		c.Inconclusive("parameters rejected: " + err.Error())
		return
	}
	t := &T{c: c, tag: cfg.tag()}
	s := e.scheme()
	rnd := c.Rand()
	p := e.p
	rq := p.RingQ()
	L := p.MaxLevel()
	c.Sample(map[string]any{"params": cfg, "area": "rlwe.Element, InitOutput*, ring-degree switching, hoisted gadget product", "patterns": "fresh,out=in,hist-out,hist-poison,hist-derived"})

	// ---- Element.Copy / CopyNew / Resize
	for _, v := range []struct {
		name     string
		lvl, deg int
	}{{"top/deg1", L, 1}, {"lvl0/deg2", 0, 2}, {"lvl1/deg0", min(1, L), 0}} {
		v := v
		src := e.ct(v.lvl, v.deg)
		t.runPatterns("rlwe.Element.Copy", v.name, "", []string{"out=in", "hist-out", "hist-out/other-level", "hist-out/nil-metadata"}, func(pat string) ([]named, func() (string, error)) {
			in := copyCt(src)
			out := rlwe.NewCiphertext(p, v.deg, v.lvl)
			ins := []named{{"opCopy", in}}
			switch pat {
			case "out=in":
				out, ins = in, nil
			case "hist-out":
				out = s.dirty(rnd, v.deg)
				out.Resize(v.deg, v.lvl)
			case "hist-out/other-level":
				// (Copy gives every polynomial of the receiver the level of its source)
				out = s.dirty(rnd, v.deg)
				out.Resize(v.deg, (v.lvl+1)%(L+1))
			case "hist-out/nil-metadata":
				out.MetaData = nil
			}
			t.out(out) // (out=in: the output is the argument, only the fresh run is judged)
			return ins, func() (string, error) { out.Element.Copy(&in.Element); return elString(rq, &out.Element), nil }
		})
		t.runPatterns("rlwe.Element.CopyNew", v.name, "", []string{"new-vs-copy"}, func(pat string) ([]named, func() (string, error)) {
			in := copyCt(src)
			if pat == "new-vs-copy" {
				out := rlwe.NewCiphertext(p, v.deg, v.lvl)
				return nil, func() (string, error) { out.Element.Copy(&in.Element); return elString(rq, &out.Element), nil }
			}
			return []named{{"op", in}}, func() (string, error) {
				cp := in.Element.CopyNew()
				t.out(cp)
				return elString(rq, cp), nil
			}
		})
		// Resize is in place; growing must give zero rows / components whatever the object held before
		for _, to := range []struct{ deg, lvl int }{{2, L}, {1, L}, {0, 0}, {v.deg, v.lvl}} {
			to := to
			t.runPatterns("rlwe.Element.Resize", fmt.Sprintf("%s->deg%d/lvl%d", v.name, to.deg, to.lvl), "", []string{"hist-out"}, func(pat string) ([]named, func() (string, error)) {
				x := copyCt(src)
				if pat == "hist-out" {
					// the same value in an object that was larger before
					x = s.dirty(rnd, 2)
					x.Resize(v.deg, v.lvl)
					x.Element.Copy(&src.Element)
				}
				return nil, func() (string, error) { x.Resize(to.deg, to.lvl); return elString(rq, &x.Element), nil }
			})
		}
	}
	// ---- NewElementAtLevelFromPoly: the polynomials are inputs (documented: "the returned Element will share its
	// backing array of coefficients": the result is NOT exposed to the output-independence check)
	for _, lvl := range []int{L, 0} {
		lvl := lvl
		src := e.ct(L, 2)
		t.runPatterns("rlwe.NewElementAtLevelFromPoly", fmt.Sprintf("lvl%d", lvl), "", nil, func(pat string) ([]named, func() (string, error)) {
			in := copyCt(src)
			polys := []ring.Poly(in.Value)
			return []named{{"poly", &polys}}, func() (string, error) {
				el, err := rlwe.NewElementAtLevelFromPoly(lvl, polys)
				if err != nil {
					return "", err
				}
				el.MetaData = &rlwe.MetaData{}
				return elString(rq, el), nil
			}
		})
	}
	// ---- InitOutputBinaryOp / InitOutputUnaryOp: op0, op1 are inputs; only the metadata of opOut is written
	{
		mk := func(lvl, deg int, rows, cols int, batched bool) *rlwe.Ciphertext {
			ct := e.ct(lvl, deg)
			ct.LogDimensions = ring.Dimensions{Rows: rows, Cols: cols}
			ct.IsBatched = batched
			return ct
		}
		for _, v := range []struct {
			name       string
			a, b       *rlwe.Ciphertext
			oDeg, oLvl int
		}{
			{"eq", mk(L, 1, 0, 3, true), mk(L, 1, 1, 2, true), 1, L},
			{"deg/lvl-differ", mk(L, 2, 0, 3, false), mk(max(L-1, 0), 0, 1, 2, false), 0, 0},
			{"out-larger", mk(0, 1, 1, 1, true), mk(L, 0, 0, 0, true), 2, L},
		} {
			v := v
			res := func(deg, lvl int, err error, out *rlwe.Ciphertext) (string, error) {
				return fmt.Sprintf("deg=%d lvl=%d out=%s", deg, lvl, elString(rq, &out.Element)), err
			}
			t.runPatterns("rlwe.Evaluator.InitOutputBinaryOp", v.name, "", []string{"hist-poison1", "hist-derived-shallowcopy"}, func(pat string) ([]named, func() (string, error)) {
				ev, ok := evalFor(t, s, pat)
				if !ok {
					return nil, nil
				}
				a, b := copyCt(v.a), copyCt(v.b)
				out := rlwe.NewCiphertext(p, v.oDeg, v.oLvl)
				fillResidues(rq, out, eng.NewRand("c09-initout", 1))
				t.out(out)
				return []named{{"op0", a}, {"op1", b}}, func() (string, error) {
					d, l, err := ev.InitOutputBinaryOp(a.El(), b.El(), 2, out.El())
					return res(d, l, err, out)
				}
			})
			// aliased forms, each against the call in which the aliased objects are distinct copies of each other
			for _, pat := range []string{"out=op0", "out=op1", "op0=op1"} {
				pat := pat
				t.runPatterns("rlwe.Evaluator.InitOutputBinaryOp", v.name+"/"+pat, "", []string{pat}, func(pp string) ([]named, func() (string, error)) {
					a, b := copyCt(v.a), copyCt(v.b)
					var out *rlwe.Ciphertext
					switch pat {
					case "out=op0":
						out = copyCt(v.a)
						if pp != "fresh" {
							out = a
						}
					case "out=op1":
						out = copyCt(v.b)
						if pp != "fresh" {
							out = b
						}
					default:
						out = rlwe.NewCiphertext(p, v.oDeg, v.oLvl)
						b = copyCt(v.a)
						if pp != "fresh" {
							b = a
						}
					}
					var ins []named
					if out != a {
						ins = append(ins, named{"op0", a})
					}
					if out != b && b != a {
						ins = append(ins, named{"op1", b})
					}
					if out != a && out != b {
						t.out(out)
					}
					return ins, func() (string, error) {
						d, l, err := s.newEval().InitOutputBinaryOp(a.El(), b.El(), 4, out.El())
						return res(d, l, err, out)
					}
				})
			}
			t.runPatterns("rlwe.Evaluator.InitOutputUnaryOp", v.name, "", []string{"hist-poison1", "hist-derived-withkey"}, func(pat string) ([]named, func() (string, error)) {
				ev, ok := evalFor(t, s, pat)
				if !ok {
					return nil, nil
				}
				a := copyCt(v.a)
				out := rlwe.NewCiphertext(p, v.oDeg, v.oLvl)
				t.out(out)
				return []named{{"op0", a}}, func() (string, error) {
					d, l, err := ev.InitOutputUnaryOp(a.El(), out.El())
					return res(d, l, err, out)
				}
			})
		}
	}
	// ---- DecomposeNTT into a caller-owned buffer, GadgetProductHoisted
	if p.PCount() > 0 && cfg.Pow2 == 0 {
		LP := p.MaxLevelP()
		gk, err := e.evk.GetGaloisKey(e.galEl)
		if err != nil {
			panic(err)
		}
		for _, lvl := range []int{L, max(L-1, 0), 0} {
			lvl := lvl
			src := e.ct(lvl, 1)
			rqp := p.RingQP().AtLevel(lvl, LP)
			decString := func(dec []ringqp.Poly) string {
				out := ""
				for i := 0; i < p.BaseRNSDecompositionVectorSize(lvl, LP); i++ {
					// (only the rows of the levels asked for are outputs)
					d := ringqp.Poly{Q: ring.Poly{Coeffs: dec[i].Q.Coeffs[:lvl+1]}, P: ring.Poly{Coeffs: dec[i].P.Coeffs[:LP+1]}}
					out += cvalString(canonPolyQP(&rqp, d)) + "|"
				}
				return out
			}
			t.runPatterns("rlwe.Evaluator.DecomposeNTT", fmt.Sprintf("lvl%d", lvl), "", append([]string{"hist-out"}, histPats...), func(pat string) ([]named, func() (string, error)) {
				ev, ok := evalFor(t, s, pat)
				if !ok {
					return nil, nil
				}
				in := copyCt(src)
				dec := newDecompBuffer(p)
				if pat == "hist-out" {
					po := newPoisoner(rnd, 1)
					for i := range dec {
						po.polyQP(dec[i])
					}
				}
				t.out(&dec)
				return []named{{"c2", &in.Value[1]}}, func() (string, error) {
					ev.DecomposeNTT(lvl, LP, LP+1, in.Value[1], in.IsNTT, dec)
					return decString(dec), nil
				}
			})
			t.runPatterns("rlwe.Evaluator.GadgetProductHoisted", fmt.Sprintf("lvl%d", lvl), "", append([]string{"hist-out"}, histPats...), func(pat string) ([]named, func() (string, error)) {
				ev, ok := evalFor(t, s, pat)
				if !ok {
					return nil, nil
				}
				in := copyCt(src)
				dec := newDecompBuffer(p)
				s.newEval().DecomposeNTT(lvl, LP, LP+1, in.Value[1], in.IsNTT, dec)
				out := rlwe.NewCiphertext(p, 1, lvl)
				if pat == "hist-out" {
					fillResidues(rq, out, rnd)
				}
				*out.MetaData = *in.MetaData
				t.out(out)
				return []named{{"BuffQPDecompQP", &dec}, {"gadgetCt", &gk.GadgetCiphertext}}, func() (string, error) {
					ev.GadgetProductHoisted(lvl, dec, &gk.GadgetCiphertext, out)
					return ctString(rq, out), nil
				}
			})
		}
	}
	runRingDegreeSwitch(t, e, s)
}

// runRingDegreeSwitch: SwitchCiphertextRingDegree[NTT] and ApplyEvaluationKey between the ring of the
// parameters (degree N) and the ring of degree N/2 over the same moduli.
func runRingDegreeSwitch(t *T, e *rlweEnv, s *scheme[*rlwe.Evaluator]) {
	cfg := e.cfg
	rnd := t.c.Rand()
	pL := e.p
	if cfg.LogN < 4 {
		return
	}
	pS, err := rlwe.NewParametersFromLiteral(rlwe.ParametersLiteral{LogN: cfg.LogN - 1, Q: cfg.Q, P: cfg.P, RingType: pL.RingType(), NTTFlag: cfg.NTT})
	if err != nil {
		t.c.Count("rows_not_applicable", 1)
		return
	}
	rqL, rqS := pL.RingQ(), pS.RingQ()
	L := pL.MaxLevel()
	skS := rlwe.NewKeyGenerator(pS).GenSecretKeyNew()
	mkCt := func(p rlwe.Parameters, lvl int, dirty bool) *rlwe.Ciphertext {
		ct := rlwe.NewCiphertext(p, 1, lvl)
		if dirty {
			fillResidues(p.RingQ(), ct, rnd)
			ct.Scale = rlwe.NewScale(7)
			ct.IsBatched = false
		}
		return ct
	}
	srcL := map[int]*rlwe.Ciphertext{}
	srcS := map[int]*rlwe.Ciphertext{}
	for _, lvl := range []int{L, 0} {
		srcL[lvl] = e.ct(lvl, 1)
		x := rlwe.NewCiphertext(pS, 1, lvl)
		fillResidues(rqS, x, rnd)
		*x.MetaData = *srcL[lvl].MetaData
		srcS[lvl] = x
	}
	for _, lvl := range []int{L, 0} {
		lvl := lvl
		for _, dir := range []string{"large->small", "small->large"} {
			dir := dir
			pIn, pOut, src, rqOut := pL, pS, srcL[lvl], rqS
			if dir == "small->large" {
				pIn, pOut, src, rqOut = pS, pL, srcS[lvl], rqL
			}
			_ = pIn
			variant := fmt.Sprintf("%s/lvl%d", dir, lvl)
			// the free functions
			t.runPatterns("rlwe.SwitchCiphertextRingDegree", variant, dir, []string{"hist-out"}, func(pat string) ([]named, func() (string, error)) {
				in := copyCt(src)
				in.IsNTT = false
				out := mkCt(pOut, lvl, pat == "hist-out")
				t.out(out)
				return []named{{"ctIn", in}}, func() (string, error) {
					rlwe.SwitchCiphertextRingDegree(in.El(), out.El())
					return elString(rqOut, out.El()), nil
				}
			})
			t.runPatterns("rlwe.SwitchCiphertextRingDegreeNTT", variant, dir, []string{"hist-out"}, func(pat string) ([]named, func() (string, error)) {
				in := copyCt(src)
				in.IsNTT = true
				out := mkCt(pOut, lvl, pat == "hist-out")
				var rl *ring.Ring
				if dir == "large->small" {
					rl = rqL.AtLevel(lvl)
				}
				t.out(out)
				return []named{{"ctIn", in}}, func() (string, error) {
					rlwe.SwitchCiphertextRingDegreeNTT(in.El(), rl, out.El())
					return elString(rqOut, out.El()), nil
				}
			})
			// ApplyEvaluationKey across the two rings (the evaluator and the key are those of the large ring)
			var swk *rlwe.EvaluationKey
			if dir == "large->small" {
				swk = e.kgen.GenEvaluationKeyNew(e.sk, skS, e.evkPs...)
			} else {
				swk = e.kgen.GenEvaluationKeyNew(skS, e.sk, e.evkPs...)
			}
			dom := "ntt"
			if !cfg.NTT {
				dom = "coeff"
			}
			t.runPatterns("rlwe.Evaluator.ApplyEvaluationKey", "ring-degree/"+variant, "ring-degree/"+dir+"/"+dom, append([]string{"hist-out", "hist-out-low"}, histPats...), func(pat string) ([]named, func() (string, error)) {
				ev, ok := evalFor(t, s, pat)
				if !ok {
					return nil, nil
				}
				in := copyCt(src)
				out := mkCt(pOut, lvl, false)
				switch pat {
				case "hist-out":
					out = mkCt(pOut, L, true)
				case "hist-out-low":
					return nil, nil
				}
				t.out(out)
				return []named{{"ctIn", in}, {"evk", swk}}, func() (string, error) {
					err := ev.ApplyEvaluationKey(in, swk, out)
					return ctString(rqOut, out), err
				}
			})
		}
	}
}
