package c09

// Histories: random programs on ONE evaluator and a small pool of ciphertext objects that are reused as
// operands and outputs (any aliasing form, any previous degree / level / metadata of the output object,
// the evaluator replaced now and then by a ShallowCopy / WithKey of itself). Every step is judged
// against the same call on a freshly constructed evaluator with distinct copies of the operands and a
// freshly allocated output of the level of the actual output object; every pool object that is not the
// designated output is snapshotted before / after the step.

import (
	"fmt"
	"strings"

	"github.com/tuneinsight/lattigo/v6/core/rlwe"
	"github.com/tuneinsight/lattigo/v6/schemes/bgv"
	"github.com/tuneinsight/lattigo/v6/schemes/ckks"

	"verif/harness/eng"
)

type seqCfg[E any] struct {
	bin     []brow[E]
	un      []urow[E]
	unDeg   []int // degree of the input each unary row is defined for
	pool    []*rlwe.Ciphertext
	renew   func(r *eng.Rand) *rlwe.Ciphertext // a new object (new encryption at some level)
	others  []opnd                             // non-ciphertext operands (plaintexts, scalars, vectors)
	extra   []named                            // keys: inputs of every step
	steps   int
	derive  []func(ev E) E
	deriveN []string
}

func aliasForm(i, j, k int, binary bool) string {
	switch {
	case binary && i == j && j == k:
		return "op0=op1=out"
	case binary && i == j:
		return "op0=op1"
	case k == i:
		return "out=op0"
	case binary && k == j:
		return "out=op1"
	}
	return "distinct"
}

func runSequence[E any](t *T, s *scheme[E], q seqCfg[E]) {
	rnd := t.c.Rand()
	ev := s.newEval()
	var prog []string
	trail := func() string {
		lo := 0
		if len(prog) > 12 {
			lo = len(prog) - 12
		}
		return strings.Join(prog[lo:], " ; ")
	}
	for step := 0; step < q.steps; step++ {
		r := rnd.N(100)
		switch {
		case r < 4:
			k := rnd.N(len(q.pool))
			q.pool[k] = q.renew(rnd)
			prog = append(prog, fmt.Sprintf("pool[%d]=new(lvl %d)", k, q.pool[k].Level()))
			continue
		case r < 10 && len(q.derive) > 0:
			d := rnd.N(len(q.derive))
			var nev E
			if protect(func() error { nev = q.derive[d](ev); return nil }).ok() {
				ev = nev
				prog = append(prog, "ev=ev."+q.deriveN[d])
				t.c.Count("sequence_evaluator_derivations", 1)
			}
			continue
		}
		binary := r < 75
		i, j, k := rnd.N(len(q.pool)), rnd.N(len(q.pool)), rnd.N(len(q.pool))
		// favour aliasing: half of the steps reuse an operand as output
		if rnd.N(2) == 0 {
			if rnd.N(2) == 0 || !binary {
				k = i
			} else {
				k = j
			}
		}
		var api, desc string
		var callRef, callReal func() error
		var refOut *rlwe.Ciphertext
		snapIdx := map[int]bool{}
		if binary {
			row := q.bin[rnd.N(len(q.bin))]
			api = row.api
			useOther := rnd.N(4) == 0 && len(q.others) > 0
			var oth opnd
			if useOther {
				oth = q.others[rnd.N(len(q.others))]
				j = -1
				if k != i && rnd.N(2) == 0 {
					k = i
				}
			}
			a := q.pool[i]
			var bReal, bRef rlwe.Operand
			bDeg := 0
			if useOther {
				bReal, bRef = oth.mk(), oth.mk()
				desc = fmt.Sprintf("%s(pool[%d], %s, pool[%d])", api, i, oth.kind, k)
			} else {
				bReal, bRef = q.pool[j], copyCt(q.pool[j])
				bDeg = q.pool[j].Degree()
				desc = fmt.Sprintf("%s(pool[%d], pool[%d], pool[%d])", api, i, j, k)
			}
			if row.accum {
				refOut = copyCt(q.pool[k])
			} else {
				refOut = s.newCt(row.outDeg(a.Degree(), bDeg), q.pool[k].Level())
			}
			aRef := copyCt(a)
			callRef = func() error { return row.call(s.newEval(), aRef, bRef, refOut) }
			callReal = func() error { return row.call(ev, a, bReal, q.pool[k]) }
		} else {
			ui := rnd.N(len(q.un))
			row := q.un[ui]
			api = row.api
			j = -1
			if q.pool[i].Degree() != q.unDeg[ui] {
				// the unary operations are defined for one input degree: take an operand that has it
				found := false
				for x := range q.pool {
					if q.pool[x].Degree() == q.unDeg[ui] {
						if k == i {
							k = x
						}
						i, found = x, true
						break
					}
				}
				if !found {
					t.c.Count("sequence_steps_no_operand_of_degree", 1)
					continue
				}
			}
			a := q.pool[i]
			desc = fmt.Sprintf("%s(pool[%d], pool[%d])", api, i, k)
			refOut = s.newCt(row.outDeg(a.Degree()), q.pool[k].Level())
			aRef := copyCt(a)
			callRef = func() error { return row.call(s.newEval(), aRef, refOut) }
			callReal = func() error { return row.call(ev, a, q.pool[k]) }
		}
		form := aliasForm(i, j, k, binary && j >= 0)
		desc += fmt.Sprintf(" [degs %s; lvls %s]", poolDegs(q.pool), poolLvls(q.pool))
		if !protect(callRef).ok() {
			t.c.Count("sequence_steps_reference_rejected", 1)
			continue
		}
		ref := canonCt(s.rq, refOut)
		// every pool object other than the output is an input of the step (also those the step does not name)
		ins := append([]named(nil), q.extra...)
		for x := range q.pool {
			if x != k {
				snapIdx[x] = true
				ins = append(ins, named{fmt.Sprintf("pool-object:%s", roleOf(x, i, j)), q.pool[x]})
			}
		}
		t.distinct(api, "sequence/"+form, "ct", fmt.Sprintf("deg-out%d", q.pool[k].Degree()), true)
		t.c.Count("sequence_steps_judged", 1)
		o := t.guarded(api, "sequence", "sequence step "+desc+" after: "+trail(), ins, callReal)
		prog = append(prog, desc)
		if o.panicked {
			// (guarded reported it: the same call with distinct fresh objects is accepted)
			q.pool[k] = q.renew(rnd)
			continue
		}
		if o.err != nil {
			// a reused output object of another degree, or an aliasing form, may be refused by an error
			t.c.Count("sequence_steps_refused_by_error", 1)
			continue
		}
		t.same(api, "sequence", form, "sequence step "+desc+" after: "+trail(), ref, canonCt(s.rq, q.pool[k]))
	}
}

func roleOf(x, i, j int) string {
	switch x {
	case i:
		return "op0"
	case j:
		return "op1"
	}
	return "bystander"
}

func poolDegs(p []*rlwe.Ciphertext) string {
	s := ""
	for _, c := range p {
		s += fmt.Sprint(c.Degree())
	}
	return s
}

func poolLvls(p []*rlwe.Ciphertext) string {
	s := ""
	for _, c := range p {
		s += fmt.Sprint(c.Level())
	}
	return s
}

func runBGVSequence(c *eng.Ctx, cfg pcfg, steps int) {
	e, err := newBGVEnv(cfg, c.Rand())
	if err != nil {
		c.Inconclusive("parameters rejected: " + err.Error())
		return
	}
	t := &T{c: c, tag: cfg.tag()}
	s := e.scheme()
	L := e.p.MaxLevel()
	c.Sample(map[string]any{"params": cfg, "area": "random program on one evaluator and a pool of reused ciphertext objects", "steps": steps})
	var un []urow[*bgv.Evaluator]
	var unDeg []int
	for _, u := range bgvUnaries {
		if e.inv && apiOf(u.name) == "bgv.Evaluator.Rescale" {
			continue // documented: Rescale is a nop for a scale-invariant (BFV) evaluator
		}
		row := u.row(e)
		row.api = apiOf(u.name)
		un = append(un, row)
		unDeg = append(unDeg, u.deg)
	}
	var others []opnd
	for _, o := range e.operands(L, 1) {
		if o.class != "ct" {
			others = append(others, o)
		}
	}
	pool := []*rlwe.Ciphertext{e.ct(L, 1, 1), e.ct(L, 3, 1), e.ct(L, 1, 2), e.ct(L-1, 5, 1), e.ct(L, 1, 1)}
	runSequence(t, s, seqCfg[*bgv.Evaluator]{bin: bgvBinary, un: un, unDeg: unDeg, pool: pool, others: others, steps: steps,
		extra: []named{{"evk", e.evk}, {"swk", e.swk}},
		renew: func(r *eng.Rand) *rlwe.Ciphertext { return e.ct(L-r.N(2), uint64(1+2*r.N(3)), 1) },
		derive: []func(ev *bgv.Evaluator) *bgv.Evaluator{
			func(ev *bgv.Evaluator) *bgv.Evaluator { return ev.ShallowCopy() },
			func(ev *bgv.Evaluator) *bgv.Evaluator { return ev.WithKey(e.evkClone()) },
		}, deriveN: []string{"ShallowCopy()", "WithKey(evk)"}})
}

func runCKKSSequence(c *eng.Ctx, cfg pcfg, steps int) {
	e, err := newCKKSEnv(cfg, c.Rand())
	if err != nil {
		c.Inconclusive("parameters rejected: " + err.Error())
		return
	}
	t := &T{c: c, tag: cfg.tag()}
	s := e.scheme()
	L := e.p.MaxLevel()
	c.Sample(map[string]any{"params": cfg, "area": "random program on one evaluator and a pool of reused ciphertext objects", "steps": steps})
	var un []urow[*ckks.Evaluator]
	var unDeg []int
	for _, u := range ckksUnaries {
		if cfg.Ring == "ci" && strings.HasSuffix(apiOf(u.name), "Conjugate") {
			continue
		}
		row := u.row(e)
		row.api = apiOf(u.name)
		un = append(un, row)
		unDeg = append(unDeg, u.deg)
	}
	var others []opnd
	for _, o := range e.operands(L, "") {
		if o.class != "ct" {
			others = append(others, o)
		}
	}
	pool := []*rlwe.Ciphertext{e.ct(L, "", 1), e.ct(L, "x3", 1), e.ct(L, "", 2), e.ct(L-1, "", 1), e.ct(L, "sq", 1)}
	scales := []string{"", "x3", "sq"}
	runSequence(t, s, seqCfg[*ckks.Evaluator]{bin: ckksBinary, un: un, unDeg: unDeg, pool: pool, others: others, steps: steps,
		extra: []named{{"evk", e.evk}, {"swk", e.swk}},
		renew: func(r *eng.Rand) *rlwe.Ciphertext { return e.ct(L-r.N(2), scales[r.N(3)], 1) },
		derive: []func(ev *ckks.Evaluator) *ckks.Evaluator{
			func(ev *ckks.Evaluator) *ckks.Evaluator { return ev.ShallowCopy() },
			func(ev *ckks.Evaluator) *ckks.Evaluator { return ev.WithKey(cloneKeySet(e.evk)) },
		}, deriveN: []string{"ShallowCopy()", "WithKey(evk)"}})
}
