package c09

import (
	"fmt"
	"strings"

	"github.com/tuneinsight/lattigo/v6/core/rlwe"
	"github.com/tuneinsight/lattigo/v6/ring"
	"github.com/tuneinsight/lattigo/v6/ring/ringqp"

	"verif/harness/eng"
)

type rlweEnv struct {
	cfg   pcfg
	p     rlwe.Parameters
	kgen  *rlwe.KeyGenerator
	sk    *rlwe.SecretKey
	sk2   *rlwe.SecretKey
	pk    *rlwe.PublicKey
	evk   *rlwe.MemEvaluationKeySet
	swk   *rlwe.EvaluationKey
	enc   *rlwe.Encryptor
	rnd   *eng.Rand
	galEl uint64
	evkPs []rlwe.EvaluationKeyParameters
}

func newRLWEEnv(cfg pcfg, r *eng.Rand) (*rlweEnv, error) {
	rt := ring.Standard
	if cfg.Ring == "ci" {
		rt = ring.ConjugateInvariant
	}
	p, err := rlwe.NewParametersFromLiteral(rlwe.ParametersLiteral{LogN: cfg.LogN, Q: cfg.Q, P: cfg.P, RingType: rt, NTTFlag: cfg.NTT})
	if err != nil {
		return nil, err
	}
	e := &rlweEnv{cfg: cfg, p: p, rnd: r}
	e.kgen = rlwe.NewKeyGenerator(p)
	e.sk, e.pk = e.kgen.GenKeyPairNew()
	e.sk2 = e.kgen.GenSecretKeyNew()
	e.evkPs = cfg.evkParams()
	rlk := e.kgen.GenRelinearizationKeyNew(e.sk, e.evkPs...)
	e.galEl = p.GaloisElement(3)
	galEls := []uint64{e.galEl, p.GaloisElement(1)}
	galEls = append(galEls, rlwe.GaloisElementsForInnerSum(p, 2, 3)...)
	galEls = append(galEls, rlwe.GaloisElementsForReplicate(p, 2, 3)...)
	if rt == ring.Standard {
		galEls = append(galEls, rlwe.GaloisElementsForTrace(p, 2)...)
	}
	seen := map[uint64]bool{}
	var gks []*rlwe.GaloisKey
	for _, g := range galEls {
		if !seen[g] && g != 1 {
			seen[g] = true
			gks = append(gks, e.kgen.GenGaloisKeyNew(g, e.sk, e.evkPs...))
		}
	}
	e.evk = rlwe.NewMemEvaluationKeySet(rlk, gks...)
	e.swk = e.kgen.GenEvaluationKeyNew(e.sk, e.sk2, e.evkPs...)
	e.enc = rlwe.NewEncryptor(p, e.sk)
	return e, nil
}

func (e *rlweEnv) ct(level, deg int) *rlwe.Ciphertext {
	ct := rlwe.NewCiphertext(e.p, deg, level)
	fillResidues(e.p.RingQ(), ct, e.rnd)
	ct.Scale = rlwe.NewScale(3)
	ct.IsBatched = true
	ct.LogDimensions = ring.Dimensions{Rows: 0, Cols: e.p.LogN() - 1}
	return ct
}

func (e *rlweEnv) scheme() *scheme[*rlwe.Evaluator] {
	return &scheme[*rlwe.Evaluator]{
		name:    "rlwe",
		rq:      e.p.RingQ(),
		maxLvl:  e.p.MaxLevel(),
		newEval: func() *rlwe.Evaluator { return rlwe.NewEvaluator(e.p, e.evk) },
		poison:  func(p *poisoner, ev *rlwe.Evaluator) { p.rlweEval(ev) },
		warm: func(ev *rlwe.Evaluator) {
			x := e.ct(e.p.MaxLevel(), 1)
			o := rlwe.NewCiphertext(e.p, 1, e.p.MaxLevel())
			eng.Panics(func() { _ = ev.Automorphism(x, e.galEl, o) })
			eng.Panics(func() { _ = ev.ApplyEvaluationKey(x, e.swk, o) })
			if len(e.cfg.P) > 0 && e.cfg.Pow2 == 0 && !e.cfg.EvkNoP {
				eng.Panics(func() { _ = ev.PartialTracesSum(x, 2, 3, o) })
			}
		},
		newCt: func(deg, lvl int) *rlwe.Ciphertext { return rlwe.NewCiphertext(e.p, deg, lvl) },
		dirty: func(r *eng.Rand, deg int) *rlwe.Ciphertext {
			ct := rlwe.NewCiphertext(e.p, deg, e.p.MaxLevel())
			fillResidues(e.p.RingQ(), ct, r)
			ct.Scale = rlwe.NewScale(7)
			ct.LogDimensions = ring.Dimensions{Rows: 1, Cols: 2}
			ct.IsBatched = false
			return ct
		},
		derived: []derivedEval[*rlwe.Evaluator]{
			{name: "shallowcopy", mk: func(p *poisoner) *rlwe.Evaluator {
				parent := rlwe.NewEvaluator(e.p, e.evk)
				p.rlweEval(parent)
				child := parent.ShallowCopy()
				p.rlweEval(parent)
				return child
			}},
			{name: "withkey", mk: func(p *poisoner) *rlwe.Evaluator {
				parent := rlwe.NewEvaluator(e.p, nil)
				p.rlweEval(parent)
				return parent.WithKey(cloneKeySet(e.evk))
			}},
		},
	}
}

type rlweUnary struct {
	name  string
	deg   int
	noP   bool // usable without auxiliary modulus
	stdOn bool // standard ring only
	row   func(e *rlweEnv) urow[*rlwe.Evaluator]
}

var rlweUnaries = []rlweUnary{
	{name: "rlwe.Evaluator.Automorphism", deg: 1, noP: true, row: func(e *rlweEnv) urow[*rlwe.Evaluator] {
		return urow[*rlwe.Evaluator]{outDeg: same1, call: func(ev *rlwe.Evaluator, in, out *rlwe.Ciphertext) error { return ev.Automorphism(in, e.galEl, out) }}
	}},
	{name: "rlwe.Evaluator.Automorphism/galEl1", deg: 1, noP: true, row: func(e *rlweEnv) urow[*rlwe.Evaluator] {
		return urow[*rlwe.Evaluator]{outDeg: same1, call: func(ev *rlwe.Evaluator, in, out *rlwe.Ciphertext) error { return ev.Automorphism(in, 1, out) }}
	}},
	{name: "rlwe.Evaluator.AutomorphismHoisted", deg: 1, row: func(e *rlweEnv) urow[*rlwe.Evaluator] {
		return urow[*rlwe.Evaluator]{outDeg: same1, call: func(ev *rlwe.Evaluator, in, out *rlwe.Ciphertext) error {
			lvl := in.Level()
			if out.Level() < lvl {
				lvl = out.Level()
			}
			ev.DecomposeNTT(lvl, e.p.MaxLevelP(), e.p.PCount(), in.Value[1], in.IsNTT, ev.BuffDecompQP)
			return ev.AutomorphismHoisted(lvl, in, ev.BuffDecompQP, e.galEl, out)
		}}
	}},
	{name: "rlwe.Evaluator.ApplyEvaluationKey", deg: 1, noP: true, row: func(e *rlweEnv) urow[*rlwe.Evaluator] {
		return urow[*rlwe.Evaluator]{outDeg: same1, call: func(ev *rlwe.Evaluator, in, out *rlwe.Ciphertext) error { return ev.ApplyEvaluationKey(in, e.swk, out) }}
	}},
	{name: "rlwe.Evaluator.Relinearize", deg: 2, noP: true, row: func(e *rlweEnv) urow[*rlwe.Evaluator] {
		return urow[*rlwe.Evaluator]{outDeg: func(int) int { return 1 }, call: func(ev *rlwe.Evaluator, in, out *rlwe.Ciphertext) error { return ev.Relinearize(in, out) }}
	}},
	{name: "rlwe.Evaluator.Trace", deg: 1, noP: true, stdOn: true, row: func(e *rlweEnv) urow[*rlwe.Evaluator] {
		return urow[*rlwe.Evaluator]{outDeg: same1, call: func(ev *rlwe.Evaluator, in, out *rlwe.Ciphertext) error { return ev.Trace(in, 2, out) }}
	}},
	{name: "rlwe.Evaluator.Trace/gap1", deg: 1, noP: true, stdOn: true, row: func(e *rlweEnv) urow[*rlwe.Evaluator] {
		return urow[*rlwe.Evaluator]{outDeg: same1, call: func(ev *rlwe.Evaluator, in, out *rlwe.Ciphertext) error { return ev.Trace(in, e.p.LogN()-1, out) }}
	}},
	{name: "rlwe.Evaluator.PartialTracesSum", deg: 1, row: func(e *rlweEnv) urow[*rlwe.Evaluator] {
		return urow[*rlwe.Evaluator]{outDeg: same1, call: func(ev *rlwe.Evaluator, in, out *rlwe.Ciphertext) error { return ev.PartialTracesSum(in, 2, 3, out) }}
	}},
	{name: "rlwe.Evaluator.PartialTracesSum/n1", deg: 1, row: func(e *rlweEnv) urow[*rlwe.Evaluator] {
		return urow[*rlwe.Evaluator]{outDeg: same1, call: func(ev *rlwe.Evaluator, in, out *rlwe.Ciphertext) error { return ev.PartialTracesSum(in, 2, 1, out) }}
	}},
	{name: "rlwe.Evaluator.Replicate", deg: 1, row: func(e *rlweEnv) urow[*rlwe.Evaluator] {
		return urow[*rlwe.Evaluator]{outDeg: same1, call: func(ev *rlwe.Evaluator, in, out *rlwe.Ciphertext) error { return ev.Replicate(in, 2, 3, out) }}
	}},
	{name: "rlwe.Evaluator.InnerFunction", deg: 1, noP: true, row: func(e *rlweEnv) urow[*rlwe.Evaluator] {
		return urow[*rlwe.Evaluator]{outDeg: same1, call: func(ev *rlwe.Evaluator, in, out *rlwe.Ciphertext) error {
			f := func(a, b, c *rlwe.Ciphertext) error {
				l := c.Level()
				if a.Level() < l {
					l = a.Level()
				}
				if b.Level() < l {
					l = b.Level()
				}
				rq := e.p.RingQ().AtLevel(l)
				rq.Add(a.Value[0], b.Value[0], c.Value[0])
				rq.Add(a.Value[1], b.Value[1], c.Value[1])
				return nil
			}
			return ev.InnerFunction(in, 2, 3, f, out)
		}}
	}},
	{name: "rlwe.Evaluator.GadgetProduct", deg: 1, noP: true, row: func(e *rlweEnv) urow[*rlwe.Evaluator] {
		return urow[*rlwe.Evaluator]{outDeg: same1, noAli: true, call: func(ev *rlwe.Evaluator, in, out *rlwe.Ciphertext) error {
			if out.Degree() != 1 {
				return fmt.Errorf("harness: GadgetProduct needs a degree-1 output")
			}
			lvl := in.Level()
			if out.Level() < lvl {
				lvl = out.Level()
			}
			out.Resize(1, lvl)
			*out.MetaData = *in.MetaData
			ev.GadgetProduct(lvl, in.Value[1], &e.swk.GadgetCiphertext, out)
			return nil
		}}
	}},
}

func rlweUnaryNames() (n []string) {
	for _, r := range rlweUnaries {
		n = append(n, r.name)
	}
	n = append(n, "rlwe.Evaluator.LazyQP")
	return
}

func runRLWEUnary(c *eng.Ctx, cfg pcfg, name string) {
	e, err := newRLWEEnv(cfg, c.Rand())
	if err != nil {
		c.Inconclusive("parameters rejected: " + err.Error())
		return
	}
	t := &T{c: c, tag: cfg.tag()}
	s := e.scheme()
	if name == "rlwe.Evaluator.LazyQP" {
		runRLWELazy(t, e, s)
		return
	}
	var u rlweUnary
	for _, r := range rlweUnaries {
		if r.name == name {
			u = r
		}
	}
	if ((len(cfg.P) == 0 || cfg.EvkNoP) && !u.noP) || (cfg.Ring == "ci" && u.stdOn) {
		c.Count("rows_not_applicable", 1)
		return
	}
	row := u.row(e)
	row.api = apiOf(name)
	L := e.p.MaxLevel()
	c.Sample(map[string]any{"params": cfg, "method": name, "patterns": "fresh,out=in,hist-poison0..2,hist-warm,hist-out"})
	extra := []named{{"evk", e.evk}, {"swk", e.swk}}
	sub := ""
	if i := strings.IndexByte(name, '/'); i >= 0 {
		sub = name[i:]
	}
	for _, v := range []struct {
		name string
		lvl  int
	}{{"top", L}, {"lvl-1", L - 1}, {"lvl0", 0}} {
		a := e.ct(v.lvl, u.deg)
		runUnary(t, s, row, sub, v.name, a, extra)
	}
}

// runRLWELazy: the operations whose output is an element modulo QP.
func runRLWELazy(t *T, e *rlweEnv, s *scheme[*rlwe.Evaluator]) {
	if len(e.cfg.P) == 0 || e.cfg.EvkNoP {
		t.c.Count("rows_not_applicable", 1)
		return
	}
	rqp := e.p.RingQP()
	L, LP := e.p.MaxLevel(), e.p.MaxLevelP()
	gk, err := e.evk.GetGaloisKey(e.galEl)
	if err != nil {
		panic(err)
	}
	for _, lvl := range []int{L, L - 1, 0} {
		a := e.ct(lvl, 1)
		newOut := func(dirty bool) *rlwe.Element[ringqp.Poly] {
			o := rlwe.NewElementExtended(e.p, 1, lvl, LP)
			o.IsNTT = a.IsNTT
			if dirty {
				p := newPoisoner(t.c.Rand(), 1)
				for i := range o.Value {
					p.polyQP(o.Value[i])
				}
			}
			return o
		}
		type lazy struct {
			api  string
			call func(ev *rlwe.Evaluator, in *rlwe.Ciphertext, out *rlwe.Element[ringqp.Poly]) error
		}
		rows := []lazy{
			{"rlwe.Evaluator.GadgetProductLazy", func(ev *rlwe.Evaluator, in *rlwe.Ciphertext, out *rlwe.Element[ringqp.Poly]) error {
				return ev.GadgetProductLazy(lvl, in.Value[1], &gk.GadgetCiphertext, out)
			}},
			{"rlwe.Evaluator.AutomorphismHoistedLazy", func(ev *rlwe.Evaluator, in *rlwe.Ciphertext, out *rlwe.Element[ringqp.Poly]) error {
				ev.DecomposeNTT(lvl, LP, LP+1, in.Value[1], in.IsNTT, ev.BuffDecompQP)
				return ev.AutomorphismHoistedLazy(lvl, in, ev.BuffDecompQP, e.galEl, out)
			}},
			{"rlwe.Evaluator.GadgetProductHoistedLazy", func(ev *rlwe.Evaluator, in *rlwe.Ciphertext, out *rlwe.Element[ringqp.Poly]) error {
				ev.DecomposeNTT(lvl, LP, LP+1, in.Value[1], in.IsNTT, ev.BuffDecompQP)
				return ev.GadgetProductHoistedLazy(lvl, ev.BuffDecompQP, &gk.GadgetCiphertext, out)
			}},
		}
		for _, row := range rows {
			if e.cfg.Pow2 > 0 && row.api != "rlwe.Evaluator.GadgetProductLazy" {
				continue // hoisted products are documented as unsupported with a base-2 decomposition
			}
			variant := fmt.Sprintf("lvl%d", lvl)
			a1 := copyCt(a)
			out := newOut(false)
			t.distinct(row.api, "fresh", "ct", variant, true)
			rq := rqp.AtLevel(lvl, LP)
			o := t.guarded(row.api, "", row.api+" "+variant, []named{{"in", a1}, {"evk", e.evk}}, func() error { return row.call(s.newEval(), a1, out) })
			if !o.ok() {
				continue
			}
			r0 := canonElQP(&rq, out)
			for mode := 0; mode < 3; mode++ {
				t.distinct(row.api, fmt.Sprintf("hist-poison%d", mode), "ct", variant, true)
				ev := s.newEval()
				p := newPoisoner(t.c.Rand(), mode)
				s.poison(p, ev)
				o2 := newOut(mode == 1)
				a2 := copyCt(a)
				if protect(func() error { return row.call(ev, a2, o2) }).ok() {
					t.same(row.api, "history-buffers", "", row.api+" "+variant+" poisoned buffers / dirty output", r0, canonElQP(&rq, o2))
				}
			}
		}
	}
}
