package c09

// Encoders, encryptor, decryptor, key generator: every argument other than the output is intact, and
// the output does not depend on the scratch buffers of the object nor on the previous content of the
// output object. Randomised operations are made repeatable by re-seeding crypto/rand identically
// before the object is constructed (sampling.NewPRNG keys itself from crypto/rand).

import (
	"fmt"
	"math/big"
	"strings"

	"github.com/tuneinsight/lattigo/v6/core/rlwe"
	"github.com/tuneinsight/lattigo/v6/ring"
	"github.com/tuneinsight/lattigo/v6/schemes/bgv"
	"github.com/tuneinsight/lattigo/v6/schemes/ckks"
	"github.com/tuneinsight/lattigo/v6/utils/bignum"

	"verif/harness/eng"
)

// snapString is the bit-exact canonical string of an object.
func snapString(x any) string {
	var sb strings.Builder
	for _, l := range snap(x) {
		sb.WriteString(l.path)
		sb.WriteByte('=')
		sb.WriteString(l.val)
		sb.WriteByte(';')
	}
	return sb.String()
}

// simple is one (API, variant): build() returns the inputs to guard, and a function that runs the
// call and returns the canonical value of the output. dirty=true must poison the object's scratch
// buffers and pre-fill the output object with residue of a previous, larger use. A row whose call
// produces an output OBJECT exposes it with t.out(...) in build (caller-allocated output) or in run
// (returned output): the objects exposed by the fresh run must not share storage with ins (indep.go).
type simple struct {
	api     string
	variant string
	pred    string
	build   func(dirty bool) (ins []named, run func() (string, error))
}

func (t *T) runSimple(s simple) {
	t.distinct(s.api, "fresh", "-", s.variant, true)
	t.takeOuts()
	ins, run := s.build(false)
	var v0 string
	o := t.guarded(s.api, s.pred, s.api+" fresh "+s.variant, ins, func() (err error) { v0, err = run(); return })
	outs := t.takeOuts()
	if !o.ok() {
		return
	}
	t.independentAny(s.api, s.api+" fresh "+s.variant, outs, ins)
	t.distinct(s.api, "hist-dirty", "-", s.variant, true)
	_, run2 := s.build(true)
	var v1 string
	o2 := protect(func() (err error) { v1, err = run2(); return })
	t.takeOuts()
	t.c.Eval(1)
	t.c.Count("outputs_compared", 1)
	sig := strings.TrimRight("C09|"+s.api+"|history|"+s.pred, "|")
	if o2.panicked {
		t.c.Violate(sig+"|panic", fmt.Sprintf("%s %s [%s]: panic with poisoned scratch buffers / reused output object: %v at %s", s.api, s.variant, t.tag, o2.pval, o2.stack), nil)
	} else if o2.err != nil {
		t.c.Violate(sig+"|error", fmt.Sprintf("%s %s [%s]: error only with poisoned scratch buffers / reused output object: %v", s.api, s.variant, t.tag, o2.err), nil)
	} else if v0 != v1 {
		t.c.Violate(sig, fmt.Sprintf("%s %s [%s]: the output depends on the previous content of the scratch buffers or of the output object: %s", s.api, s.variant, t.tag, firstDiff(v0, v1)), nil)
	}
}

func firstDiff(a, b string) string {
	x, y := strings.Split(a, ";"), strings.Split(b, ";")
	for i := 0; i < len(x) && i < len(y); i++ {
		if x[i] != y[i] {
			return fmt.Sprintf("%q vs %q", clip(x[i]), clip(y[i]))
		}
	}
	return fmt.Sprintf("%d vs %d leaves", len(x), len(y))
}

func clip(s string) string {
	if len(s) > 160 {
		return s[:160] + "…"
	}
	return s
}

func cvalString(c cval) string {
	return fmt.Sprintf("deg=%d;lvl=%d/%d;meta=%s;comp=%x", c.Degree, c.Level, c.LevelP, c.Meta, c.Comp)
}

// ptCanon: canonical value of a plaintext (rows 0..Level of pt.Value reduced, metadata).
func ptCanon(rq *ring.Ring, pt *rlwe.Plaintext) string {
	lvl := pt.Level()
	v := pt.Value
	if len(v.Coeffs) > lvl+1 {
		v = ring.Poly{Coeffs: v.Coeffs[:lvl+1]}
	}
	h, _, _ := canonRows(rq, v.Coeffs)
	return fmt.Sprintf("lvl=%d;meta=%s;h=%x;el=%s", lvl, metaString(pt.MetaData), h, cvalString(canonEl(rq, &pt.Element)))
}

func dirtyPt(p rlwe.ParameterProvider, level int, r *eng.Rand) *rlwe.Plaintext {
	pt := rlwe.NewPlaintext(p, level)
	po := newPoisoner(r, 1)
	rq := p.GetRLWEParameters().RingQ()
	for i := range pt.Value.Coeffs {
		po.words(pt.Value.Coeffs[i])
		for j := range pt.Value.Coeffs[i] {
			pt.Value.Coeffs[i][j] %= rq.SubRings[i].Modulus
		}
	}
	return pt
}

// ---------------------------------------------------------------------------------------------

func runBGVEncoder(c *eng.Ctx, cfg pcfg) {
	e, err := newBGVEnv(cfg, c.Rand())
	if err != nil {
		c.Inconclusive("parameters rejected: " + err.Error())
		return
	}
	t := &T{c: c, tag: cfg.tag()}
	rnd := c.Rand()
	p := e.p
	rq := p.RingQ()
	T := p.PlaintextModulus()
	c.Sample(map[string]any{"params": cfg, "area": "bgv.Encoder", "patterns": "fresh,hist-dirty"})
	vu := e.vals()
	vi := make([]int64, len(vu))
	for i := range vi {
		vi[i] = int64(vu[i]) - int64(T/2)
	}
	mkEcd := func(dirty bool) *bgv.Encoder {
		ecd := bgv.NewEncoder(p)
		if dirty {
			newPoisoner(rnd, 1).bgvEncoder(ecd)
			if rnd.Bool() {
				// a ShallowCopy of a used encoder, itself used
				ecd = ecd.ShallowCopy()
				newPoisoner(rnd, 1).bgvEncoder(ecd)
				c.Count("derived_encoders", 1)
			}
		}
		return ecd
	}
	for _, lvl := range []int{p.MaxLevel(), 1, 0} {
		for _, batched := range []bool{true, false} {
			for _, kind := range []string{"[]uint64", "[]int64"} {
				for _, n := range []int{len(vu), len(vu) / 2} {
					for _, scale := range []uint64{1, 3} {
						lvl, batched, kind, n, scale := lvl, batched, kind, n, scale
						variant := fmt.Sprintf("lvl%d/batched=%v/%s/n%d/scale%d", lvl, batched, kind, n, scale)
						mkVals := func() any {
							if kind == "[]uint64" {
								return append([]uint64(nil), vu[:n]...)
							}
							return append([]int64(nil), vi[:n]...)
						}
						mkPt := func(dirty bool) *rlwe.Plaintext {
							var pt *rlwe.Plaintext
							if dirty {
								pt = dirtyPt(p, lvl, rnd)
							} else {
								pt = rlwe.NewPlaintext(p, lvl)
							}
							pt.IsBatched = batched
							pt.Scale = p.NewScale(scale)
							pt.LogDimensions = p.LogMaxDimensions()
							return pt
						}
						t.runSimple(simple{api: "bgv.Encoder.Encode", variant: variant, pred: kind, build: func(dirty bool) ([]named, func() (string, error)) {
							vals, pt, ecd := mkVals(), mkPt(dirty), mkEcd(dirty)
							meta := pt.MetaData.CopyNew()
							t.out(pt)
							return []named{{"values", &vals}}, func() (string, error) {
								err := ecd.Encode(vals, pt)
								if d := snap(meta).diff(snap(pt.MetaData)); d != "" {
									return "", fmt.Errorf("metadata of the plaintext changed: %s", d)
								}
								return ptCanon(rq, pt), err
							}
						}})
						// Decode: the plaintext is an input
						ptRef := mkPt(false)
						if err := bgv.NewEncoder(p).Encode(mkVals(), ptRef); err != nil {
							continue
						}
						t.runSimple(simple{api: "bgv.Encoder.Decode", variant: variant, pred: kind, build: func(dirty bool) ([]named, func() (string, error)) {
							pt, ecd := ptRef.CopyNew(), mkEcd(dirty)
							var out any
							if kind == "[]uint64" {
								o := make([]uint64, p.MaxSlots())
								if dirty {
									newPoisoner(rnd, 1).words(o)
								}
								out = o
							} else {
								o := make([]int64, p.MaxSlots())
								if dirty {
									for i := range o {
										o[i] = -1 << 62
									}
								}
								out = o
							}
							return []named{{"pt", pt}}, func() (string, error) {
								err := ecd.Decode(pt, out)
								return fmt.Sprint(out), err
							}
						}})
					}
				}
			}
		}
		// RingT <-> RingQ conversions
		lvl := lvl
		for _, flag := range []bool{true, false} {
			flag := flag
			variant := fmt.Sprintf("lvl%d/flag=%v", lvl, flag)
			pT0 := p.RingT().NewPoly()
			copy(pT0.Coeffs[0], vu)
			t.runSimple(simple{api: "bgv.Encoder.RingT2Q", variant: variant, build: func(dirty bool) ([]named, func() (string, error)) {
				pT, ecd := cpPoly(pT0), mkEcd(dirty)
				pQ := rq.AtLevel(lvl).NewPoly()
				if dirty {
					newPoisoner(rnd, 1).poly(pQ)
				}
				t.out(&pQ)
				return []named{{"pT", &pT}}, func() (string, error) {
					ecd.RingT2Q(lvl, flag, pT, pQ)
					return cvalString(canonPoly(rq, pQ)), nil
				}
			}})
			pQ0 := randPoly(rq.AtLevel(lvl), rnd)
			t.runSimple(simple{api: "bgv.Encoder.RingQ2T", variant: variant, build: func(dirty bool) ([]named, func() (string, error)) {
				pQ, ecd := cpPoly(pQ0), mkEcd(dirty)
				pT := p.RingT().NewPoly()
				if dirty {
					newPoisoner(rnd, 1).poly(pT)
				}
				t.out(&pT)
				return []named{{"pQ", &pQ}}, func() (string, error) {
					ecd.RingQ2T(lvl, flag, pQ, pT)
					return cvalString(canonPoly(p.RingT(), pT)), nil
				}
			}})
		}
		for _, kind := range []string{"[]uint64", "[]int64"} {
			kind := kind
			variant := fmt.Sprintf("lvl%d/%s", lvl, kind)
			mkVals := func() any {
				if kind == "[]uint64" {
					return append([]uint64(nil), vu...)
				}
				return append([]int64(nil), vi...)
			}
			t.runSimple(simple{api: "bgv.Encoder.EncodeRingT", variant: variant, pred: kind, build: func(dirty bool) ([]named, func() (string, error)) {
				vals, ecd := mkVals(), mkEcd(dirty)
				pT := p.RingT().NewPoly()
				if dirty {
					newPoisoner(rnd, 1).poly(pT)
				}
				sc := p.NewScale(3)
				t.out(&pT)
				return []named{{"values", &vals}, {"scale", &sc}}, func() (string, error) {
					err := ecd.EncodeRingT(vals, sc, pT)
					return cvalString(canonPoly(p.RingT(), pT)), err
				}
			}})
			pT0 := p.RingT().NewPoly()
			copy(pT0.Coeffs[0], vu)
			t.runSimple(simple{api: "bgv.Encoder.DecodeRingT", variant: variant, pred: kind, build: func(dirty bool) ([]named, func() (string, error)) {
				pT, ecd := cpPoly(pT0), mkEcd(dirty)
				var out any
				if kind == "[]uint64" {
					out = make([]uint64, p.MaxSlots())
				} else {
					out = make([]int64, p.MaxSlots())
				}
				sc := p.NewScale(3)
				return []named{{"pT", &pT}, {"scale", &sc}}, func() (string, error) {
					err := ecd.DecodeRingT(pT, sc, out)
					return fmt.Sprint(out), err
				}
			}})
			// Embed into a QP polynomial (as the linear-transformation encoders do)
			if p.PCount() > 0 {
				t.runSimple(simple{api: "bgv.Encoder.Embed", variant: variant, pred: kind, build: func(dirty bool) ([]named, func() (string, error)) {
					vals, ecd := mkVals(), mkEcd(dirty)
					rqp := p.RingQP().AtLevel(lvl, p.MaxLevelP())
					out := rqp.NewPoly()
					if dirty {
						newPoisoner(rnd, 1).polyQP(out)
					}
					md := &rlwe.MetaData{}
					md.Scale, md.IsBatched, md.IsNTT, md.IsMontgomery, md.LogDimensions = p.NewScale(5), true, true, true, p.LogMaxDimensions()
					t.out(&out)
					return []named{{"values", &vals}, {"metadata", md}}, func() (string, error) {
						err := ecd.Embed(vals, md, out)
						return cvalString(canonPolyQP(&rqp, out)), err
					}
				}})
			}
		}
	}
}

// ---------------------------------------------------------------------------------------------

func runCKKSEncoder(c *eng.Ctx, cfg pcfg, prec uint) {
	e, err := newCKKSEnv(cfg, c.Rand())
	if err != nil {
		c.Inconclusive("parameters rejected: " + err.Error())
		return
	}
	t := &T{c: c, tag: fmt.Sprintf("%s/prec%d", cfg.tag(), prec)}
	rnd := c.Rand()
	p := e.p
	rq := p.RingQ()
	c.Sample(map[string]any{"params": cfg, "area": "ckks.Encoder", "prec": prec, "patterns": "fresh,hist-dirty"})
	vc := e.vals()
	mkEcd := func(dirty bool) *ckks.Encoder {
		var ecd *ckks.Encoder
		if prec > 0 {
			ecd = ckks.NewEncoder(p, prec)
		} else {
			ecd = ckks.NewEncoder(p)
		}
		if dirty {
			newPoisoner(rnd, 1).ckksEncoder(ecd)
			if rnd.Bool() {
				ecd = ecd.ShallowCopy()
				newPoisoner(rnd, 1).ckksEncoder(ecd)
				c.Count("derived_encoders", 1)
			}
		}
		return ecd
	}
	kinds := []string{"[]complex128", "[]float64", "[]*big.Float", "[]*bignum.Complex"}
	mkVals := func(kind string, n int) any {
		switch kind {
		case "[]complex128":
			return append([]complex128(nil), vc[:n]...)
		case "[]float64":
			o := make([]float64, n)
			for i := range o {
				o[i] = real(vc[i])
			}
			return o
		case "[]*big.Float":
			o := make([]*big.Float, n)
			for i := range o {
				o[i] = new(big.Float).SetPrec(128).SetFloat64(real(vc[i]))
			}
			return o
		default:
			o := make([]*bignum.Complex, n)
			for i := range o {
				o[i] = &bignum.Complex{new(big.Float).SetPrec(128).SetFloat64(real(vc[i])), new(big.Float).SetPrec(128).SetFloat64(imag(vc[i]))}
			}
			return o
		}
	}
	// a reused output slice holds the results of a previous Decode of the same encoder: its big.Float
	// elements have the precision that Decode gives to freshly allocated elements
	outPrec := uint(53)
	if prec > 53 {
		outPrec = prec
	}
	mkOut := func(kind string, n int, dirty bool) any {
		v := mkVals(kind, n)
		if !dirty {
			switch x := v.(type) {
			case []complex128:
				for i := range x {
					x[i] = 0
				}
			case []float64:
				for i := range x {
					x[i] = 0
				}
			case []*big.Float:
				for i := range x {
					x[i] = nil
				}
			case []*bignum.Complex:
				for i := range x {
					x[i] = nil
				}
			}
		} else {
			switch x := v.(type) {
			case []complex128:
				for i := range x {
					x[i] = complex(1e30, -1e30)
				}
			case []float64:
				for i := range x {
					x[i] = -1e30
				}
			case []*big.Float:
				for i := range x {
					x[i] = new(big.Float).SetPrec(outPrec).SetFloat64(1e30)
				}
			case []*bignum.Complex:
				for i := range x {
					x[i] = &bignum.Complex{new(big.Float).SetPrec(outPrec).SetFloat64(1e30), new(big.Float).SetPrec(outPrec).SetFloat64(1e30)}
				}
			}
		}
		return v
	}
	outString := func(v any) string {
		switch x := v.(type) {
		case []*big.Float:
			var sb strings.Builder
			for _, f := range x {
				if f == nil {
					sb.WriteString("nil,")
				} else {
					sb.WriteString(f.Text('p', 0) + ",")
				}
			}
			return sb.String()
		case []*bignum.Complex:
			var sb strings.Builder
			for _, f := range x {
				if f == nil || f[0] == nil {
					sb.WriteString("nil,")
				} else {
					sb.WriteString(f[0].Text('p', 0) + "|" + f[1].Text('p', 0) + ",")
				}
			}
			return sb.String()
		}
		return strings.ReplaceAll(fmt.Sprintf("%x", v), " ", ";")
	}
	for _, lvl := range []int{p.MaxLevel(), 1, 0} {
		for _, batched := range []bool{true, false} {
			for _, kind := range kinds {
				for _, n := range []int{p.MaxSlots(), p.MaxSlots() / 4, -p.MaxSlots() / 4} {
					lvl, batched, kind, n := lvl, batched, kind, n
					// n < 0: the sparse vector again, into a plaintext outside the NTT domain
					isNTT := n > 0
					if n < 0 {
						n = -n
						if !batched {
							continue
						}
					}
					if !batched && kind != "[]float64" && kind != "[]*big.Float" {
						continue // documented: coefficient encoding accepts real slices only
					}
					logSlots := p.LogMaxDimensions()
					if n != p.MaxSlots() {
						logSlots.Cols -= 2
					}
					variant := fmt.Sprintf("lvl%d/batched=%v/%s/n%d", lvl, batched, kind, n)
					if !isNTT {
						variant += "/outside-ntt"
					}
					mkPt := func(dirty bool) *rlwe.Plaintext {
						var pt *rlwe.Plaintext
						if dirty {
							pt = dirtyPt(p, lvl, rnd)
						} else {
							pt = rlwe.NewPlaintext(p, lvl)
						}
						pt.IsBatched = batched
						pt.IsNTT = isNTT
						pt.Scale = p.DefaultScale()
						pt.LogDimensions = logSlots
						return pt
					}
					t.runSimple(simple{api: "ckks.Encoder.Encode", variant: variant, pred: kind, build: func(dirty bool) ([]named, func() (string, error)) {
						vals, pt, ecd := mkVals(kind, n), mkPt(dirty), mkEcd(dirty)
						meta := pt.MetaData.CopyNew()
						t.out(pt)
						return []named{{"values", &vals}}, func() (string, error) {
							err := ecd.Encode(vals, pt)
							if d := snap(meta).diff(snap(pt.MetaData)); d != "" {
								return "", fmt.Errorf("metadata of the plaintext changed: %s", d)
							}
							return ptCanon(rq, pt), err
						}
					}})
					ptRef := mkPt(false)
					if err := ckks.NewEncoder(p).Encode(mkVals(kind, n), ptRef); err != nil {
						continue
					}
					t.runSimple(simple{api: "ckks.Encoder.Decode", variant: variant, pred: kind, build: func(dirty bool) ([]named, func() (string, error)) {
						pt, ecd := ptRef.CopyNew(), mkEcd(dirty)
						nOut := n
						if !batched {
							nOut = p.N()
							if kind == "[]float64" || kind == "[]*big.Float" {
								nOut = n
							}
						}
						out := mkOut(kind, nOut, dirty)
						return []named{{"pt", pt}}, func() (string, error) {
							err := ecd.Decode(pt, out)
							return outString(out), err
						}
					}})
				}
			}
		}
	}
	// FFT / IFFT are documented in place; the twiddle tables and the other encoder state are inputs
	for _, kind := range []string{"[]complex128", "[]*bignum.Complex"} {
		kind := kind
		if (kind == "[]complex128") != (prec <= 53) {
			continue
		}
		t.runSimple(simple{api: "ckks.Encoder.FFT", variant: kind, pred: kind, build: func(dirty bool) ([]named, func() (string, error)) {
			vals, ecd := mkVals(kind, p.MaxSlots()), mkEcd(dirty)
			return nil, func() (string, error) {
				if err := ecd.IFFT(vals, p.LogMaxSlots()); err != nil {
					return "", err
				}
				err := ecd.FFT(vals, p.LogMaxSlots())
				return outString(vals), err
			}
		}})
	}
}

// ---------------------------------------------------------------------------------------------

func runEncDec(c *eng.Ctx, cfg pcfg) {
	e, err := newRLWEEnv(cfg, c.Rand())
	if err != nil {
		c.Inconclusive("parameters rejected: " + err.Error())
		return
	}
	t := &T{c: c, tag: cfg.tag()}
	rnd := c.Rand()
	p := e.p
	rq := p.RingQ()
	L := p.MaxLevel()
	c.Sample(map[string]any{"params": cfg, "area": "rlwe.Encryptor/Decryptor/KeyGenerator", "patterns": "fresh,hist-dirty"})
	reseed := func(tag string) { eng.SeedCryptoRand("c09-reseed", c.CaseID, tag) }
	for _, keyKind := range []string{"sk", "pk"} {
		for _, lvl := range []int{L, 1, 0} {
			for _, ptLvl := range []int{lvl, L} {
				keyKind, lvl, ptLvl := keyKind, lvl, ptLvl
				variant := fmt.Sprintf("%s/ctlvl%d/ptlvl%d", keyKind, lvl, ptLvl)
				pt0 := rlwe.NewPlaintext(p, ptLvl)
				copyRows(pt0.Value, randPoly(rq.AtLevel(ptLvl), rnd))
				pt0.Scale = rlwe.NewScale(5)
				pt0.IsBatched = true
				mkEnc := func(dirty bool) (*rlwe.Encryptor, any) {
					reseed(variant)
					var key rlwe.EncryptionKey = e.sk
					if keyKind == "pk" {
						key = e.pk
					}
					enc := rlwe.NewEncryptor(p, key)
					if dirty {
						newPoisoner(rnd, 1).encryptor(enc)
					}
					return enc, key
				}
				for _, zero := range []bool{false, true} {
					zero := zero
					api := "rlwe.Encryptor.Encrypt"
					if zero {
						api = "rlwe.Encryptor.EncryptZero"
					}
					t.runSimple(simple{api: api, variant: variant, pred: keyKind, build: func(dirty bool) ([]named, func() (string, error)) {
						enc, key := mkEnc(dirty)
						pt := pt0.CopyNew()
						var ct *rlwe.Ciphertext
						if dirty {
							// an output object that held a top-level value before, resized to the wanted level
							ct = rlwe.NewCiphertext(p, 1, L)
							fillResidues(rq, ct, rnd)
							ct.Resize(1, lvl)
							ct.Scale = rlwe.NewScale(9)
						} else {
							ct = rlwe.NewCiphertext(p, 1, lvl)
						}
						if zero {
							ct.Scale = rlwe.NewScale(5)
							ct.IsBatched = true
						}
						t.out(ct)
						return []named{{"pt", pt}, {"key", key}}, func() (string, error) {
							var err error
							if zero {
								err = enc.EncryptZero(ct)
							} else {
								err = enc.Encrypt(pt, ct)
							}
							return cvalString(canonCt(rq, ct)), err
						}
					}})
				}
			}
			// decryption: the ciphertext is an input
			lvl := lvl
			for _, deg := range []int{1, 2} {
				for _, ptLvl := range []int{lvl, L} {
					deg, ptLvl := deg, ptLvl
					ct0 := e.ct(lvl, deg)
					variant := fmt.Sprintf("ctlvl%d/deg%d/ptlvl%d", lvl, deg, ptLvl)
					if keyKind == "pk" {
						continue
					}
					t.runSimple(simple{api: "rlwe.Decryptor.Decrypt", variant: variant, build: func(dirty bool) ([]named, func() (string, error)) {
						dec := rlwe.NewDecryptor(p, e.sk)
						var pt *rlwe.Plaintext
						if dirty {
							newPoisoner(rnd, 1).decryptor(dec)
							pt = dirtyPt(p, ptLvl, rnd)
							pt.Scale = rlwe.NewScale(11)
						} else {
							pt = rlwe.NewPlaintext(p, ptLvl)
						}
						ct := ct0.CopyNew()
						t.out(pt)
						return []named{{"ct", ct}, {"sk", e.sk}}, func() (string, error) {
							dec.Decrypt(ct, pt)
							return ptCanon(rq, pt), nil
						}
					}})
				}
			}
		}
	}
	// key generation
	mkKgen := func(dirty bool, tag string) *rlwe.KeyGenerator {
		reseed(tag)
		kg := rlwe.NewKeyGenerator(p)
		if dirty {
			newPoisoner(rnd, 1).keygen(kg)
		}
		return kg
	}
	dirtyQP := func(x any) {
		newPoisoner(rnd, 1).value(reflectValueOf(x), 0)
	}
	t.runSimple(simple{api: "rlwe.KeyGenerator.GenSecretKey", variant: "-", build: func(dirty bool) ([]named, func() (string, error)) {
		kg := mkKgen(dirty, "sk")
		sk := rlwe.NewSecretKey(p)
		if dirty {
			dirtyQP(&sk.Value)
		}
		return nil, func() (string, error) { kg.GenSecretKey(sk); return snapString(sk), nil }
	}})
	t.runSimple(simple{api: "rlwe.KeyGenerator.GenPublicKey", variant: "-", build: func(dirty bool) ([]named, func() (string, error)) {
		kg := mkKgen(dirty, "pk")
		pk := rlwe.NewPublicKey(p)
		if dirty {
			dirtyQP(&pk.Value)
		}
		sk := e.sk.CopyNew()
		t.out(pk)
		return []named{{"sk", sk}}, func() (string, error) { kg.GenPublicKey(sk, pk); return snapString(pk), nil }
	}})
	t.runSimple(simple{api: "rlwe.KeyGenerator.GenRelinearizationKey", variant: "-", build: func(dirty bool) ([]named, func() (string, error)) {
		kg := mkKgen(dirty, "rlk")
		rlk := rlwe.NewRelinearizationKey(p, e.evkPs...)
		if dirty {
			dirtyQP(&rlk.GadgetCiphertext.Value)
		}
		sk := e.sk.CopyNew()
		t.out(rlk)
		return []named{{"sk", sk}}, func() (string, error) { kg.GenRelinearizationKey(sk, rlk); return snapString(rlk), nil }
	}})
	t.runSimple(simple{api: "rlwe.KeyGenerator.GenGaloisKey", variant: "-", build: func(dirty bool) ([]named, func() (string, error)) {
		kg := mkKgen(dirty, "gk")
		gk := rlwe.NewGaloisKey(p, e.evkPs...)
		if dirty {
			dirtyQP(&gk.GadgetCiphertext.Value)
			gk.GaloisElement, gk.NthRoot = 12345, 7
		}
		sk := e.sk.CopyNew()
		t.out(gk)
		return []named{{"sk", sk}}, func() (string, error) { kg.GenGaloisKey(e.galEl, sk, gk); return snapString(gk), nil }
	}})
	t.runSimple(simple{api: "rlwe.KeyGenerator.GenEvaluationKey", variant: "-", build: func(dirty bool) ([]named, func() (string, error)) {
		kg := mkKgen(dirty, "evk")
		evk := rlwe.NewEvaluationKey(p, e.evkPs...)
		if dirty {
			dirtyQP(&evk.GadgetCiphertext.Value)
		}
		sk, sk2 := e.sk.CopyNew(), e.sk2.CopyNew()
		t.out(evk)
		return []named{{"skIn", sk}, {"skOut", sk2}}, func() (string, error) { kg.GenEvaluationKey(sk, sk2, evk); return snapString(evk), nil }
	}})
	t.runSimple(simple{api: "rlwe.KeyGenerator.GenEvaluationKey", variant: "skIn=skOut", pred: "skIn=skOut", build: func(dirty bool) ([]named, func() (string, error)) {
		kg := mkKgen(dirty, "evk2")
		evk := rlwe.NewEvaluationKey(p, e.evkPs...)
		sk := e.sk.CopyNew()
		sk2 := sk
		if dirty { // here "dirty" is the aliased run: the same object for both secrets
			sk2 = sk
		} else {
			sk2 = e.sk.CopyNew()
		}
		t.out(evk)
		return []named{{"skIn", sk}}, func() (string, error) { kg.GenEvaluationKey(sk, sk2, evk); return snapString(evk), nil }
	}})
}

func copyRows(dst, src ring.Poly) {
	for i := range dst.Coeffs {
		copy(dst.Coeffs[i], src.Coeffs[i])
	}
}

// ---------------------------------------------------------------------------------------------
// Allocating variants (EncryptNew, EncryptZeroNew, DecryptNew, Gen...New, GenGaloisKeys[New]) against the
// in-place forms, objects obtained through ShallowCopy / WithKey / WithPRNG against constructed ones, and
// reused outputs of a larger degree.

func runEncDec2(c *eng.Ctx, cfg pcfg) {
	e, err := newRLWEEnv(cfg, c.Rand())
	if err != nil {
		c.Inconclusive("parameters rejected: " + err.Error())
		return
	}
	t := &T{c: c, tag: cfg.tag()}
	rnd := c.Rand()
	p := e.p
	rq := p.RingQ()
	L := p.MaxLevel()
	c.Sample(map[string]any{"params": cfg, "area": "rlwe.Encryptor/Decryptor/KeyGenerator: New variants, derived objects", "patterns": "fresh,new-vs-inplace,hist-derived-*,hist-out"})
	reseed := func(tag string) { eng.SeedCryptoRand("c09-reseed2", c.CaseID, tag) }
	keyOf := func(kind string) rlwe.EncryptionKey {
		if kind == "pk" {
			return e.pk
		}
		return e.sk
	}
	for _, keyKind := range []string{"sk", "pk"} {
		for _, lvl := range []int{L, 0} {
			keyKind, lvl := keyKind, lvl
			variant := fmt.Sprintf("%s/lvl%d", keyKind, lvl)
			pt0 := rlwe.NewPlaintext(p, lvl)
			copyRows(pt0.Value, randPoly(rq.AtLevel(lvl), rnd))
			pt0.Scale = rlwe.NewScale(5)
			pt0.IsBatched = true
			// the encryptor of every pattern draws the same randomness: crypto/rand is re-seeded identically
			// right before the object that creates the PRNG is constructed
			mkEnc := func(pat string) *rlwe.Encryptor {
				switch pat {
				case "hist-derived-shallowcopy":
					parent := rlwe.NewEncryptor(p, keyOf(keyKind))
					newPoisoner(rnd, 1).encryptor(parent)
					reseed(variant)
					return parent.ShallowCopy()
				case "hist-derived-withkey":
					other := "sk"
					if keyKind == "sk" {
						other = "pk"
					}
					reseed(variant)
					parent := rlwe.NewEncryptor(p, keyOf(other))
					newPoisoner(rnd, 1).encryptor(parent)
					return parent.WithKey(keyOf(keyKind))
				case "hist-derived-withkey-nil":
					reseed(variant)
					parent := rlwe.NewEncryptor(p, keyOf(keyKind))
					return parent.WithKey(nil)
				}
				reseed(variant)
				return rlwe.NewEncryptor(p, keyOf(keyKind))
			}
			pats := []string{"new-vs-inplace", "hist-derived-shallowcopy", "hist-derived-withkey", "hist-derived-withkey-nil", "hist-out"}
			t.runPatterns("rlwe.Encryptor.EncryptNew", variant, keyKind, pats, func(pat string) ([]named, func() (string, error)) {
				enc := mkEnc(pat)
				pt := pt0.CopyNew()
				switch pat {
				case "new-vs-inplace":
					ct := rlwe.NewCiphertext(p, 1, lvl)
					return nil, func() (string, error) { err := enc.Encrypt(pt, ct); return ctString(rq, ct), err }
				case "hist-out":
					// a reused output of degree 2 that held a top-level value, through the in-place form
					ct := rlwe.NewCiphertext(p, 2, L)
					fillResidues(rq, ct, rnd)
					ct.Scale = rlwe.NewScale(9)
					return nil, func() (string, error) { err := enc.Encrypt(pt, ct); return ctString(rq, ct), err }
				}
				return []named{{"pt", pt}, {"key", keyOf(keyKind)}}, func() (string, error) {
					ct, err := enc.EncryptNew(pt)
					if err != nil {
						return "", err
					}
					t.out(ct)
					return ctString(rq, ct), nil
				}
			})
			t.runPatterns("rlwe.Encryptor.EncryptZeroNew", variant, keyKind, []string{"new-vs-inplace", "hist-derived-shallowcopy", "hist-out"}, func(pat string) ([]named, func() (string, error)) {
				enc := mkEnc(pat)
				switch pat {
				case "new-vs-inplace":
					ct := rlwe.NewCiphertext(p, 1, lvl)
					return nil, func() (string, error) { err := enc.EncryptZero(ct); return ctString(rq, ct), err }
				case "hist-out":
					ct := rlwe.NewCiphertext(p, 2, L)
					fillResidues(rq, ct, rnd)
					ct.Resize(2, lvl)
					return nil, func() (string, error) { err := enc.EncryptZero(ct); return ctString(rq, ct), err }
				}
				return []named{{"key", keyOf(keyKind)}}, func() (string, error) {
					ct := enc.EncryptZeroNew(lvl)
					t.out(ct)
					return ctString(rq, ct), nil
				}
			})
			// WithPRNG: two encryptors given identically keyed PRNGs produce the same uniform part, whatever they did before
			if keyKind == "sk" {
				t.runPatterns("rlwe.Encryptor.WithPRNG", variant, keyKind, []string{"hist-dirty"}, func(pat string) ([]named, func() (string, error)) {
					reseed(variant)
					enc := rlwe.NewEncryptor(p, e.sk)
					if pat == "hist-dirty" {
						newPoisoner(rnd, 1).encryptor(enc)
					}
					enc = enc.WithPRNG(keyedPRNG("withprng"))
					pt := pt0.CopyNew()
					return []named{{"pt", pt}, {"key", e.sk}}, func() (string, error) {
						ct, err := enc.EncryptNew(pt)
						if err != nil {
							return "", err
						}
						t.out(ct)
						return ctString(rq, ct), nil
					}
				})
			}
		}
	}
	// ---- decryption: DecryptNew, ShallowCopy / WithKey of a used decryptor
	for _, v := range []struct{ lvl, deg int }{{L, 1}, {0, 2}, {min(1, L), 1}} {
		v := v
		ct0 := e.ct(v.lvl, v.deg)
		t.runPatterns("rlwe.Decryptor.DecryptNew", fmt.Sprintf("lvl%d/deg%d", v.lvl, v.deg), "", []string{"new-vs-inplace", "hist-derived-shallowcopy", "hist-derived-withkey"}, func(pat string) ([]named, func() (string, error)) {
			dec := rlwe.NewDecryptor(p, e.sk)
			switch pat {
			case "hist-derived-shallowcopy":
				newPoisoner(rnd, 1).decryptor(dec)
				dec = dec.ShallowCopy()
			case "hist-derived-withkey":
				dec = rlwe.NewDecryptor(p, e.sk2)
				newPoisoner(rnd, 1).decryptor(dec)
				dec = dec.WithKey(e.sk)
			}
			ct := ct0.CopyNew()
			if pat == "new-vs-inplace" {
				pt := rlwe.NewPlaintext(p, v.lvl)
				return nil, func() (string, error) { dec.Decrypt(ct, pt); return ptCanon(rq, pt), nil }
			}
			return []named{{"ct", ct}, {"sk", e.sk}}, func() (string, error) {
				pt := dec.DecryptNew(ct)
				t.out(pt)
				return ptCanon(rq, pt), nil
			}
		})
	}
	// ---- key generation: New variants and the slice forms
	mkKgen := func(tag string) *rlwe.KeyGenerator { reseed(tag); return rlwe.NewKeyGenerator(p) }
	t.runPatterns("rlwe.KeyGenerator.GenSecretKeyNew", "-", "", []string{"new-vs-inplace"}, func(pat string) ([]named, func() (string, error)) {
		kg := mkKgen("sk")
		if pat == "new-vs-inplace" {
			sk := rlwe.NewSecretKey(p)
			return nil, func() (string, error) { kg.GenSecretKey(sk); return snapString(sk), nil }
		}
		return nil, func() (string, error) { return snapString(kg.GenSecretKeyNew()), nil }
	})
	t.runPatterns("rlwe.KeyGenerator.GenPublicKeyNew", "-", "", []string{"new-vs-inplace"}, func(pat string) ([]named, func() (string, error)) {
		kg := mkKgen("pk")
		sk := e.sk.CopyNew()
		if pat == "new-vs-inplace" {
			pk := rlwe.NewPublicKey(p)
			return nil, func() (string, error) { kg.GenPublicKey(sk, pk); return snapString(pk), nil }
		}
		return []named{{"sk", sk}}, func() (string, error) { k := kg.GenPublicKeyNew(sk); t.out(k); return snapString(k), nil }
	})
	t.runPatterns("rlwe.KeyGenerator.GenRelinearizationKeyNew", "-", "", []string{"new-vs-inplace"}, func(pat string) ([]named, func() (string, error)) {
		kg := mkKgen("rlk")
		sk := e.sk.CopyNew()
		if pat == "new-vs-inplace" {
			k := rlwe.NewRelinearizationKey(p, e.evkPs...)
			return nil, func() (string, error) { kg.GenRelinearizationKey(sk, k); return snapString(k), nil }
		}
		return []named{{"sk", sk}}, func() (string, error) {
			k := kg.GenRelinearizationKeyNew(sk, e.evkPs...)
			t.out(k)
			return snapString(k), nil
		}
	})
	t.runPatterns("rlwe.KeyGenerator.GenEvaluationKeyNew", "-", "", []string{"new-vs-inplace", "skIn=skOut"}, func(pat string) ([]named, func() (string, error)) {
		kg := mkKgen("evk")
		sk, sk2 := e.sk.CopyNew(), e.sk.CopyNew()
		switch pat {
		case "new-vs-inplace":
			k := rlwe.NewEvaluationKey(p, e.evkPs...)
			return nil, func() (string, error) { kg.GenEvaluationKey(sk, sk2, k); return snapString(k), nil }
		case "skIn=skOut":
			return []named{{"skIn", sk}}, func() (string, error) {
				k := kg.GenEvaluationKeyNew(sk, sk, e.evkPs...)
				t.out(k)
				return snapString(k), nil
			}
		}
		return []named{{"skIn", sk}, {"skOut", sk2}}, func() (string, error) {
			k := kg.GenEvaluationKeyNew(sk, sk2, e.evkPs...)
			t.out(k)
			return snapString(k), nil
		}
	})
	galEls0 := []uint64{e.galEl, p.GaloisElement(1), p.GaloisElement(2)}
	gksString := func(gks []*rlwe.GaloisKey) string {
		out := ""
		for _, k := range gks {
			out += snapString(k) + "#"
		}
		return out
	}
	t.runPatterns("rlwe.KeyGenerator.GenGaloisKeysNew", "-", "", []string{"new-vs-inplace", "new-vs-single", "hist-out"}, func(pat string) ([]named, func() (string, error)) {
		kg := mkKgen("gks")
		sk := e.sk.CopyNew()
		galEls := append([]uint64(nil), galEls0...)
		switch pat {
		case "new-vs-inplace", "hist-out":
			gks := make([]*rlwe.GaloisKey, len(galEls))
			for i := range gks {
				gks[i] = rlwe.NewGaloisKey(p, e.evkPs...)
				if pat == "hist-out" {
					newPoisoner(rnd, 1).value(reflectValueOf(&gks[i].GadgetCiphertext.Value), 0)
					gks[i].GaloisElement, gks[i].NthRoot = 99, 5
				}
			}
			return []named{{"galEls", &galEls}, {"sk", sk}}, func() (string, error) { kg.GenGaloisKeys(galEls, sk, gks); return gksString(gks), nil }
		case "new-vs-single":
			return nil, func() (string, error) {
				var gks []*rlwe.GaloisKey
				for _, g := range galEls {
					gks = append(gks, kg.GenGaloisKeyNew(g, sk, e.evkPs...))
				}
				return gksString(gks), nil
			}
		}
		return []named{{"galEls", &galEls}, {"sk", sk}}, func() (string, error) {
			gks := kg.GenGaloisKeysNew(galEls, sk, e.evkPs...)
			t.out(gks)
			return gksString(gks), nil
		}
	})
}
