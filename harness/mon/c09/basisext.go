package c09

import (
	"fmt"

	"github.com/tuneinsight/lattigo/v6/ring"

	"verif/harness/eng"
)

// runBasisExtender: ring.BasisExtender — inputs intact, output aliased with the Q (or P) input gives
// the same value, no dependence on the extender's buffers or on the previous content of the output.
func runBasisExtender(c *eng.Ctx, cfg pcfg) {
	n := 1 << cfg.LogN
	rQ, err1 := ring.NewRing(n, cfg.Q)
	rP, err2 := ring.NewRing(n, cfg.P)
	if err1 != nil || err2 != nil {
		c.Inconclusive("ring rejected")
		return
	}
	t := &T{c: c, tag: cfg.tag()}
	rnd := c.Rand()
	c.Sample(map[string]any{"ring": cfg, "area": "ring.BasisExtender", "patterns": "fresh,out=in,hist-poison,hist-out"})
	type row struct {
		name  string
		alias bool // the output may be the Q (resp. P) input
		call  func(be *ring.BasisExtender, lq, lp int, pq, pp, out ring.Poly)
		outP  bool
		inP   bool // the aliasable input is the P part
	}
	rows := []row{
		{name: "ModUpQtoP", outP: true, call: func(be *ring.BasisExtender, lq, lp int, pq, pp, out ring.Poly) { be.ModUpQtoP(lq, lp, pq, out) }},
		{name: "ModUpPtoQ", call: func(be *ring.BasisExtender, lq, lp int, pq, pp, out ring.Poly) { be.ModUpPtoQ(lp, lq, pp, out) }},
		{name: "ModDownQPtoQ", alias: true, call: func(be *ring.BasisExtender, lq, lp int, pq, pp, out ring.Poly) { be.ModDownQPtoQ(lq, lp, pq, pp, out) }},
		{name: "ModDownQPtoQNTT", alias: true, call: func(be *ring.BasisExtender, lq, lp int, pq, pp, out ring.Poly) {
			be.ModDownQPtoQNTT(lq, lp, pq, pp, out)
		}},
		{name: "ModDownQPtoP", alias: true, outP: true, inP: true, call: func(be *ring.BasisExtender, lq, lp int, pq, pp, out ring.Poly) { be.ModDownQPtoP(lq, lp, pq, pp, out) }},
	}
	for _, lq := range []int{rQ.MaxLevel(), 0} {
		for _, lp := range []int{rP.MaxLevel(), 0} {
			PQ, PP := randPoly(rQ.AtLevel(lq), rnd), randPoly(rP.AtLevel(lp), rnd)
			for _, r := range rows {
				api := "ring.BasisExtender." + r.name
				variant := fmt.Sprintf("lq%d/lp%d", lq, lp)
				rOut, lOut := rQ, lq
				if r.outP {
					rOut, lOut = rP, lp
				}
				mkOut := func(dirty bool) ring.Poly {
					if dirty {
						return randPoly(rOut.AtLevel(lOut), rnd)
					}
					return rOut.AtLevel(lOut).NewPoly()
				}
				pq, pp, out := cpPoly(PQ), cpPoly(PP), mkOut(false)
				t.distinct(api, "fresh", "poly", variant, true)
				if !t.guarded(api, "", api+" fresh "+variant, []named{{"pQ", &pq}, {"pP", &pp}}, func() error {
					r.call(ring.NewBasisExtender(rQ, rP), lq, lp, pq, pp, out)
					return nil
				}).ok() {
					continue
				}
				r0 := canonPoly(rOut, out)
				t.independentAny(api, api+" fresh "+variant, []any{&out}, []named{{"pQ", &pq}, {"pP", &pp}})
				if r.alias {
					t.distinct(api, "out=in", "poly", variant, true)
					pq, pp := cpPoly(PQ), cpPoly(PP)
					o := pq
					if r.inP {
						o = pp
					}
					if protect(func() error { r.call(ring.NewBasisExtender(rQ, rP), lq, lp, pq, pp, o); return nil }).ok() {
						t.same(api, "alias-out-in", "", api+" out=in "+variant, r0, canonPoly(rOut, o))
					}
				}
				t.distinct(api, "hist-dirty", "poly", variant, true)
				be := ring.NewBasisExtender(rQ, rP)
				newPoisoner(rnd, 1).fields(be, "buffQ", "buffP")
				pq2, pp2, o2 := cpPoly(PQ), cpPoly(PP), mkOut(true)
				if protect(func() error { r.call(be, lq, lp, pq2, pp2, o2); return nil }).ok() {
					t.same(api, "history", "", api+" poisoned buffers, reused output "+variant, r0, canonPoly(rOut, o2))
				}
			}
		}
	}
}
