// Package c09: operations leave their inputs intact and are insensitive to output aliasing and to
// the history of the evaluator / output object.
package c09

import (
	"fmt"

	"verif/harness/eng"
	"verif/harness/gen"
)

func mkChain(r *eng.Rand, logN int, ringT string, qbits, pbits []int) (q, p []uint64) {
	nth := uint64(2) << logN
	if ringT == "ci" {
		nth <<= 1
	}
	return gen.Chain(r, nth, qbits, pbits)
}

func paramSets(tier string, seed int64) []pcfg {
	r := eng.NewRand("c09-params", seed)
	var out []pcfg
	add := func(name, scheme string, logN int, qb, pb []int, t uint64, logScale, pow2 int, ringT string) {
		q, p := mkChain(r, logN, ringT, qb, pb)
		if q == nil {
			return
		}
		out = append(out, pcfg{Name: name, Scheme: scheme, LogN: logN, Q: q, P: p, T: t, LogScale: logScale, Pow2: pow2, Ring: ringT, NTT: true})
	}
	// quick tier: the whole method x pattern table at one parameter set per scheme (plus the boundary
	// sets that select other code paths: no auxiliary modulus with a base-2 decomposition, a single
	// auxiliary prime, conjugate-invariant ring, coefficient-domain parameters)
	add("bgvA", "bgv", 6, []int{45, 40, 40, 40}, []int{50, 50}, 65537, 0, 0, "")
	add("bfvA", "bfv", 6, []int{45, 40, 40, 40}, []int{50, 50}, 65537, 0, 0, "")
	add("bgvC", "bgv", 5, []int{50, 40, 40}, nil, 65537, 0, 12, "")
	add("ckksA", "ckks", 6, []int{55, 45, 45, 45}, []int{55, 55}, 0, 45, 0, "")
	add("ckksCI", "ckks", 6, []int{55, 45, 45, 45}, []int{55}, 0, 45, 0, "ci")
	add("ckksCircA", "ckks-circ", 6, []int{55, 45, 45, 45}, []int{55, 55}, 0, 45, 0, "")
	add("bgvCircA", "bgv-circ", 6, []int{45, 40, 40, 40}, []int{50, 50}, 65537, 0, 0, "")
	add("mpA", "mp", 5, []int{50, 40, 40}, []int{50, 50}, 0, 0, 0, "")
	add("mpP1w", "mp", 5, []int{50, 50}, []int{50}, 0, 0, 10, "")
	add("rgswA", "rgsw", 5, []int{50, 40}, []int{50, 50}, 0, 0, 0, "")
	add("rgswP1w", "rgsw", 5, []int{50, 50}, []int{50}, 0, 0, 10, "")
	add("rgswNoP", "rgsw", 5, []int{50, 50}, nil, 0, 0, 10, "")
	add("rgsw32", "rgsw", 5, []int{27}, nil, 0, 0, 7, "")
	add("bgvEncA", "bgv-enc", 6, []int{45, 40, 40}, []int{50}, 65537, 0, 0, "")
	add("bgvEncGap", "bgv-enc", 7, []int{45, 40}, []int{50}, 257, 0, 0, "")
	add("ckksEncA", "ckks-enc", 6, []int{55, 45, 45}, []int{55}, 0, 45, 0, "")
	add("ckksEncCI", "ckks-enc", 6, []int{55, 45, 45}, []int{55}, 0, 45, 0, "ci")
	add("encdecA", "encdec", 5, []int{50, 40, 40}, []int{50, 50}, 0, 0, 0, "")
	add("encdecNoP", "encdec", 5, []int{50, 40, 40}, nil, 0, 0, 11, "")
	add("ringBE", "ringbe", 5, []int{55, 45, 40}, []int{50, 61}, 0, 0, 0, "")
	add("ringA", "ring", 5, []int{55, 45, 40, 33}, nil, 0, 0, 0, "")
	add("ringCI", "ring", 5, []int{50, 40, 40}, nil, 0, 0, 0, "ci")
	add("rlweA", "rlwe", 6, []int{50, 40, 40, 40}, []int{50, 50}, 0, 0, 0, "")
	add("rlweCoef", "rlwe", 5, []int{50, 40, 40}, []int{50}, 0, 0, 0, "")
	out[len(out)-1].NTT = false
	add("rlweNoP", "rlwe", 5, []int{50, 40, 40}, nil, 0, 0, 10, "")
	add("rlweP1w", "rlwe", 6, []int{55, 45, 45}, []int{56}, 0, 0, 14, "")
	if tier == "thorough" {
		// six parameter sets per scheme: other ring degrees, prime sizes and counts
		add("bgvB", "bgv", 7, []int{55, 55, 55}, []int{56}, 65537, 0, 0, "")
		add("bgvD", "bgv", 8, []int{60, 45, 45, 45, 45}, []int{61, 61, 61}, 786433, 0, 0, "")
		add("bgvE", "bgv", 4, []int{36, 30, 30}, []int{40}, 97, 0, 0, "")
		add("bgvF", "bgv", 9, []int{50, 50, 50}, []int{55, 55}, 65537, 0, 0, "")
		add("bfvB", "bfv", 7, []int{55, 55, 55}, []int{56}, 65537, 0, 0, "")
		add("bfvC", "bfv", 5, []int{50, 40, 40}, nil, 65537, 0, 12, "")
		add("bfvD", "bfv", 8, []int{60, 45, 45, 45, 45}, []int{61, 61, 61}, 786433, 0, 0, "")
		add("ckksB", "ckks", 7, []int{60, 50, 50}, []int{60}, 0, 50, 0, "")
		add("ckksC", "ckks", 5, []int{50, 40, 40}, nil, 0, 40, 12, "")
		add("ckksD", "ckks", 8, []int{60, 40, 40, 40, 40, 40}, []int{61, 61}, 0, 40, 0, "")
		add("ckksE", "ckks", 9, []int{55, 45, 45, 45}, []int{55, 55}, 0, 45, 0, "")
		add("ckksF", "ckks", 4, []int{50, 35, 35}, []int{50}, 0, 35, 0, "")
		add("ckksCircB", "ckks-circ", 7, []int{60, 50, 50, 50}, []int{60}, 0, 50, 0, "")
		add("bgvCircB", "bgv-circ", 7, []int{55, 55, 55, 55}, []int{56}, 65537, 0, 0, "")
		add("rlweCI", "rlwe", 6, []int{50, 40, 40}, []int{50}, 0, 0, 0, "ci")
		add("rlweB", "rlwe", 8, []int{60, 60, 60}, []int{61, 61, 61}, 0, 0, 0, "")
		add("rlweC", "rlwe", 4, []int{40, 30}, []int{40}, 0, 0, 0, "")
		add("encdecCoef", "encdec", 5, []int{50, 40, 40}, []int{50}, 0, 0, 0, "")
		out[len(out)-1].NTT = false
		add("encdecB", "encdec", 8, []int{60, 50, 50}, []int{61}, 0, 0, 0, "")
		add("ringB", "ring", 7, []int{60, 60, 30}, nil, 0, 0, 0, "")
		add("ringC", "ring", 4, []int{61, 20, 45, 33, 55}, nil, 0, 0, 0, "")
		add("ringBE2", "ringbe", 7, []int{60, 60, 60, 60}, []int{61, 61, 61}, 0, 0, 0, "")
		add("mpB", "mp", 7, []int{55, 55, 55}, []int{56}, 0, 0, 0, "")
		add("bgvEncB", "bgv-enc", 8, []int{55, 55, 55}, []int{56}, 65537, 0, 0, "")
		add("ckksEncB", "ckks-enc", 8, []int{60, 50, 50}, []int{60}, 0, 50, 0, "")
	}
	// sets added later draw their primes from a stream of their own (the sets above keep the primes they had)
	r = eng.NewRand("c09-params-2", seed)
	add("mpckksA", "mp-ckks", 6, []int{55, 45, 45}, []int{55}, 0, 45, 0, "")
	add("mpbgvA", "mp-bgv", 6, []int{45, 40, 40}, []int{50}, 65537, 0, 0, "")
	// evaluation keys at LevelP = -1 under parameters that have an auxiliary modulus
	add("rlweEvkNoP", "rlwe", 5, []int{50, 40, 40}, []int{50}, 0, 0, 10, "")
	out[len(out)-1].EvkNoP = true
	if tier == "thorough" {
		add("ckksEvkNoP", "ckks", 5, []int{50, 40, 40}, []int{50}, 0, 40, 12, "")
		out[len(out)-1].EvkNoP = true
		add("bgvEvkNoP", "bgv", 5, []int{50, 40, 40}, []int{50}, 65537, 0, 12, "")
		out[len(out)-1].EvkNoP = true
		add("mpckksCI", "mp-ckks", 6, []int{55, 45, 45}, []int{55}, 0, 45, 0, "ci")
		add("mpckksB", "mp-ckks", 8, []int{60, 50, 50, 50}, []int{61, 61}, 0, 50, 0, "")
		add("mpbgvB", "mp-bgv", 8, []int{55, 55, 55}, []int{56}, 786433, 0, 0, "")
	}
	return out
}

// seqCases: number of random programs per parameter set.
func seqCases(tier string) int {
	if tier == "thorough" {
		return 8
	}
	return 4
}

func cases(tier string, seed int64) []eng.Case {
	var out []eng.Case
	for _, ps := range paramSets(tier, seed) {
		ps := ps
		switch ps.Scheme {
		case "bgv", "bfv":
			for _, api := range bgvRowNames() {
				api := api
				out = append(out, eng.Case{ID: fmt.Sprintf("%s/%s", ps.Name, api), Sig: "C09|" + api, Desc: ps, Run: func(c *eng.Ctx) { runBGVBinary(c, ps, api) }})
			}
			out = append(out, eng.Case{ID: ps.Name + "/bgv.Evaluator.New-variants", Sig: "C09|bgv.Evaluator", Desc: ps, Run: func(c *eng.Ctx) { runBGVMisc(c, ps) }})
			out = append(out, eng.Case{ID: ps.Name + "/bgv.Evaluator.scale-args-hoisted", Sig: "C09|bgv.Evaluator", Desc: ps, Run: func(c *eng.Ctx) { runBGVMisc2(c, ps) }})
			for k := 0; k < seqCases(tier); k++ {
				out = append(out, eng.Case{ID: fmt.Sprintf("%s/sequence/%d", ps.Name, k), Sig: "C09|bgv.Evaluator|sequence", Desc: ps, Run: func(c *eng.Ctx) { runBGVSequence(c, ps, 60) }})
			}
			for _, name := range bgvUnaryNames() {
				name := name
				out = append(out, eng.Case{ID: fmt.Sprintf("%s/%s", ps.Name, name), Sig: "C09|" + apiOf(name), Desc: ps, Run: func(c *eng.Ctx) { runBGVUnary(c, ps, name) }})
			}
		case "ckks-circ":
			for _, k := range []string{"naive", "naive-no0", "bsgs", "bsgs-no0"} {
				k := k
				out = append(out, eng.Case{ID: ps.Name + "/lintrans/" + k, Sig: "C09|lintrans.Evaluator", Desc: ps, Run: func(c *eng.Ctx) { runCKKSLinTrans(c, ps, k) }})
			}
			out = append(out, eng.Case{ID: ps.Name + "/polynomial", Sig: "C09|polynomial.Evaluator", Desc: ps, Run: func(c *eng.Ctx) { runCKKSPoly(c, ps) }})
		case "bgv-circ":
			for _, k := range []string{"naive", "naive-no0", "bsgs", "bsgs-no0"} {
				k := k
				out = append(out, eng.Case{ID: ps.Name + "/lintrans/" + k, Sig: "C09|lintrans.Evaluator", Desc: ps, Run: func(c *eng.Ctx) { runBGVLinTrans(c, ps, k) }})
			}
			out = append(out, eng.Case{ID: ps.Name + "/polynomial", Sig: "C09|polynomial.Evaluator", Desc: ps, Run: func(c *eng.Ctx) { runBGVPoly(c, ps) }})
		case "ringbe":
			out = append(out, eng.Case{ID: ps.Name + "/ring.BasisExtender", Sig: "C09|ring.BasisExtender", Desc: ps, Run: func(c *eng.Ctx) { runBasisExtender(c, ps) }})
		case "rgsw":
			out = append(out, eng.Case{ID: ps.Name + "/rgsw", Sig: "C09|rgsw", Desc: ps, Run: func(c *eng.Ctx) { runRGSW(c, ps) }})
		case "mp-ckks":
			out = append(out, eng.Case{ID: ps.Name + "/mpckks", Sig: "C09|mpckks", Desc: ps, Run: func(c *eng.Ctx) { runMPCKKS(c, ps) }})
		case "mp-bgv":
			out = append(out, eng.Case{ID: ps.Name + "/mpbgv", Sig: "C09|mpbgv", Desc: ps, Run: func(c *eng.Ctx) { runMPBGV(c, ps) }})
		case "mp":
			out = append(out, eng.Case{ID: ps.Name + "/multiparty", Sig: "C09|multiparty", Desc: ps, Run: func(c *eng.Ctx) { runMultiparty(c, ps) }})
		case "bgv-enc":
			out = append(out, eng.Case{ID: ps.Name + "/bgv.Encoder", Sig: "C09|bgv.Encoder", Desc: ps, Run: func(c *eng.Ctx) { runBGVEncoder(c, ps) }})
		case "ckks-enc":
			for _, prec := range []uint{0, 128} {
				prec := prec
				out = append(out, eng.Case{ID: fmt.Sprintf("%s/ckks.Encoder/prec%d", ps.Name, prec), Sig: "C09|ckks.Encoder", Desc: ps, Run: func(c *eng.Ctx) { runCKKSEncoder(c, ps, prec) }})
			}
		case "encdec":
			out = append(out, eng.Case{ID: ps.Name + "/rlwe.EncDecKeygen", Sig: "C09|rlwe.Encryptor", Desc: ps, Run: func(c *eng.Ctx) { runEncDec(c, ps) }})
			out = append(out, eng.Case{ID: ps.Name + "/rlwe.EncDecKeygen.new-derived", Sig: "C09|rlwe.Encryptor", Desc: ps, Run: func(c *eng.Ctx) { runEncDec2(c, ps) }})
		case "ring":
			for lo := 0; lo < len(ringRows); lo += 12 {
				lo := lo
				out = append(out, eng.Case{ID: fmt.Sprintf("%s/ring.Ring/rows%02d", ps.Name, lo), Sig: "C09|ring.Ring", Desc: ps, Run: func(c *eng.Ctx) { runRingOps(c, ps, lo, lo+12) }})
			}
			out = append(out, eng.Case{ID: ps.Name + "/ring.MapSmallDimensionToLargerDimensionNTT", Sig: "C09|ring.MapSmallDimensionToLargerDimensionNTT", Desc: ps, Run: func(c *eng.Ctx) { runRingMapDim(c, ps) }})
		case "rlwe":
			out = append(out, eng.Case{ID: ps.Name + "/rlwe.Element", Sig: "C09|rlwe.Element", Desc: ps, Run: func(c *eng.Ctx) { runRLWEElement(c, ps) }})
			for _, name := range rlweUnaryNames() {
				name := name
				out = append(out, eng.Case{ID: fmt.Sprintf("%s/%s", ps.Name, name), Sig: "C09|" + apiOf(name), Desc: ps, Run: func(c *eng.Ctx) { runRLWEUnary(c, ps, name) }})
			}
		case "ckks":
			for _, api := range ckksRowNames() {
				api := api
				out = append(out, eng.Case{ID: fmt.Sprintf("%s/%s", ps.Name, api), Sig: "C09|" + api, Desc: ps, Run: func(c *eng.Ctx) { runCKKSBinary(c, ps, api) }})
			}
			out = append(out, eng.Case{ID: ps.Name + "/ckks.Evaluator.New-variants", Sig: "C09|ckks.Evaluator", Desc: ps, Run: func(c *eng.Ctx) { runCKKSMisc(c, ps) }})
			out = append(out, eng.Case{ID: ps.Name + "/ckks.Evaluator.scale-args-hoisted", Sig: "C09|ckks.Evaluator", Desc: ps, Run: func(c *eng.Ctx) { runCKKSMisc2(c, ps) }})
			for k := 0; k < seqCases(tier); k++ {
				out = append(out, eng.Case{ID: fmt.Sprintf("%s/sequence/%d", ps.Name, k), Sig: "C09|ckks.Evaluator|sequence", Desc: ps, Run: func(c *eng.Ctx) { runCKKSSequence(c, ps, 60) }})
			}
			for _, name := range ckksUnaryNames() {
				name := name
				out = append(out, eng.Case{ID: fmt.Sprintf("%s/%s", ps.Name, name), Sig: "C09|" + apiOf(name), Desc: ps, Run: func(c *eng.Ctx) { runCKKSUnary(c, ps, name) }})
			}
		}
	}
	return out
}

func init() {
	eng.Register(&eng.Monitor{
		ID: "C09", Level: "exploration",
		Rule: "cases = (parameter set, public method or method group); a parameter set fixes scheme, ring type, logN, Q/P primes (drawn per seed), base-2 decomposition. Inside a case every row of the method x pattern table is executed on the real code: " +
			"patterns = fresh (distinct objects, freshly allocated output, clean evaluator; every non-output argument deep-snapshotted by reflection before/after, bit for bit incl. unexported fields, big.Int/big.Float contents and metadata), out=op0, out=op1, op0=op1, op0=op1=out (resp. out=in, p3=p1, p3=p2, p1=p2, out[k]=in, out=share1/2, share1=share2), hist-poison0..2 (all scratch buffers of the evaluator/encoder/encryptor filled with all-ones / random / mixed words, huge big.Int and big.Float values), hist-warm (larger operations run first on the same evaluator), hist-out (output object that held a degree-2 top-level value with other metadata), hist-dirty (both), " +
			"hist-derived-shallowcopy / -withkey (evaluator, encryptor, decryptor or protocol object obtained through ShallowCopy / WithKey / WithPRNG of a used one), hist-out-low (reused output object one level BELOW the operands, against a fresh output of that level), " +
			"new-vs-inplace (allocating ...New variant against the in-place form), boundary operands x:<name> (0, 1, -1, MinInt64, MaxUint64, unreduced, huge negative big.Int, short vectors, sparse plaintext / ciphertext; level 0; shifts 0, N-1, beyond 2N), " +
			"sequence/<alias form> (random 60-step programs on ONE evaluator - replaced now and then by a ShallowCopy / WithKey of itself - and a pool of 5 reused ciphertext objects: every step against the same call on a fresh evaluator with distinct copies and a fresh output of the level of the actual output; every other pool object snapshotted). " +
			"After the reference run of every evaluator row the output is overwritten and the arguments re-snapshotted (output-shares-storage). " +
			"The same holds for every other row whose call produces an output OBJECT (multiparty GenShare / AggregateShares / finalisers, Thresholdizer / Combiner, key generator, encryptor, decryptor, encoders, rlwe.Element functions, ring-degree switching, hoisted rotations, RGSW functions, ring.Ring operations, basis extension, linear-transformation and polynomial front ends): every []uint64 array reachable by reflection from the output (polynomial rows, gadget ciphertexts, maps / slices of elements, words of big-integer shares) is XORed with a pattern and every rlwe.MetaData of the output replaced, the arguments are re-snapshotted (output-shares-storage), then the output is put back. " +
			"Oracle: the output of every aliasing / history run must equal the output of the run with distinct fresh objects (canonical residues mod q_i, level, degree after removing identically-zero trailing components, metadata with the scale compared as an exact number); accumulating methods are compared with the run whose accumulator is a distinct copy; randomised operations are repeated under an identically re-seeded crypto/rand. An error returned for an aliased call is accepted, a panic is not. " +
			"distinct key = (API entry point, pattern, operand kind, scale/level/degree variant, parameter set); non-trivial = any key whose pattern is an aliasing or history pattern, or a fresh-pattern key whose checked argument is a pointer, slice, ciphertext, plaintext, key or share (value scalars such as int / float64 operands in the fresh pattern are trivial).",
		Cases: cases,
		Assumptions: []string{
			"reflection + unsafe deep snapshots see every word reachable from an argument (maps, slices, pointers, big.Int/big.Float internals)",
			"a mutation of an input that is exactly restored before the call returns is not observable",
			"output independence: documented sharing is not judged - rlwe.NewElementAtLevelFromPoly (\"the returned Element will share its backing array of coefficients\"), in-place operations and accumulators, the out=in / out=share patterns; rlwe.Scale / rlwe.MetaData are value types copied by assignment, so the mantissa words of a big.Float scale may be shared between an argument and the output; an output that shares storage with a scratch buffer of the evaluator / protocol object (not an argument) is left to the history patterns",
			"documented in-place methods are whitelisted: DropLevel, SetScale, MatchScalesAndLevel (both arguments), FFT/IFFT, accumulators of ...ThenAdd; ring automorphisms are documented as not in-place and only run with distinct polynomials; BFV Rescale is a documented nop",
			"operand domains are the documented ones (scales with integer or near-1 ratios, plaintext slices no longer than the slot count, levels >= the depth of the operation)",
			"a panic or error of the plain call with distinct fresh arguments is outside C09 (counted as baseline_panics_not_judged / errors_observed / baseline_error:<api>)",
			"the level of the output object is an input of the evaluator operations (documented: min over operands and output); its degree, content and metadata are not; metadata of the output of ShareToEncProtocol.GetEncryption and of aggregated shares is the caller's",
			"unary operations are run on inputs of the degree they are defined for (sequences pick an operand of that degree)",
			"scale arguments (rlwe.Scale by value) are snapshotted through a pointer to the caller's copy: the mantissa / modulus they share with the callee's copy must not change",
		},
	})
}
