package c09

// Deep snapshots by reflection (unexported fields included, through unsafe). A snapshot is a flat,
// ordered list of (path, value) leaves; two snapshots of the same object taken before and after a
// call are equal iff nothing reachable from the object changed bit-for-bit (slice lengths, every
// word of every []uint64, big.Int / big.Float contents, metadata flags, map contents).

import (
	"fmt"
	"hash/fnv"
	"math/big"
	"reflect"
	"sort"
	"unsafe"
)

type leaf struct {
	path string
	val  string
}

type snapshot []leaf

var (
	tBigInt   = reflect.TypeOf(big.Int{})
	tBigFloat = reflect.TypeOf(big.Float{})
	tBigRat   = reflect.TypeOf(big.Rat{})
)

func hashU64(v []uint64) uint64 {
	h := fnv.New64a()
	var b [8]byte
	for _, x := range v {
		b[0], b[1], b[2], b[3], b[4], b[5], b[6], b[7] = byte(x), byte(x>>8), byte(x>>16), byte(x>>24), byte(x>>32), byte(x>>40), byte(x>>48), byte(x>>56)
		h.Write(b[:])
	}
	return h.Sum64()
}

// snap takes a deep snapshot of x (x should be a pointer, or any value; values are copied into an
// addressable location first so that unexported fields can be read).
func snap(x any) snapshot {
	var s snapshot
	if x == nil {
		return snapshot{{"", "nil"}}
	}
	v := reflect.ValueOf(x)
	if v.Kind() != reflect.Ptr {
		p := reflect.New(v.Type())
		p.Elem().Set(v)
		v = p.Elem()
	}
	seen := map[uintptr]bool{}
	walk(v, "", &s, seen, 0)
	return s
}

// rw returns a readable (non read-only) view of v when v is addressable.
func rw(v reflect.Value) reflect.Value {
	if v.CanAddr() {
		return reflect.NewAt(v.Type(), unsafe.Pointer(v.UnsafeAddr())).Elem()
	}
	return v
}

func walk(v reflect.Value, path string, s *snapshot, seen map[uintptr]bool, depth int) {
	if depth > 40 {
		*s = append(*s, leaf{path, "<depth>"})
		return
	}
	if !v.IsValid() {
		*s = append(*s, leaf{path, "<invalid>"})
		return
	}
	v = rw(v)
	t := v.Type()
	switch t {
	case tBigInt:
		if v.CanAddr() {
			b := (*big.Int)(unsafe.Pointer(v.UnsafeAddr()))
			*s = append(*s, leaf{path, "big.Int:" + b.Text(16)})
			return
		}
	case tBigFloat:
		if v.CanAddr() {
			f := (*big.Float)(unsafe.Pointer(v.UnsafeAddr()))
			*s = append(*s, leaf{path, fmt.Sprintf("big.Float:%s/p%d/m%d", f.Text('p', 0), f.Prec(), f.Mode())})
			return
		}
	case tBigRat:
		if v.CanAddr() {
			f := (*big.Rat)(unsafe.Pointer(v.UnsafeAddr()))
			*s = append(*s, leaf{path, "big.Rat:" + f.String()})
			return
		}
	}
	switch v.Kind() {
	case reflect.Ptr:
		if v.IsNil() {
			*s = append(*s, leaf{path, "nil"})
			return
		}
		addr := v.Pointer()
		if seen[addr] && v.Elem().Kind() == reflect.Struct && v.Elem().NumField() > 0 {
			*s = append(*s, leaf{path, "<cycle>"})
			return
		}
		seen[addr] = true
		walk(v.Elem(), path+"*", s, seen, depth+1)
		delete(seen, addr)
	case reflect.Interface:
		if v.IsNil() {
			*s = append(*s, leaf{path, "nil"})
			return
		}
		e := v.Elem()
		if e.Kind() != reflect.Ptr && e.Kind() != reflect.Slice && e.Kind() != reflect.Map {
			p := reflect.New(e.Type())
			p.Elem().Set(e)
			e = p.Elem()
		}
		walk(e, path+"("+e.Type().String()+")", s, seen, depth+1)
	case reflect.Struct:
		for i := 0; i < v.NumField(); i++ {
			walk(v.Field(i), path+"."+t.Field(i).Name, s, seen, depth+1)
		}
	case reflect.Slice:
		if v.IsNil() {
			*s = append(*s, leaf{path, "nil-slice"})
			return
		}
		if t.Elem().Kind() == reflect.Uint64 {
			n := v.Len()
			var u []uint64
			if n > 0 {
				u = unsafe.Slice((*uint64)(unsafe.Pointer(v.Pointer())), n)
			}
			*s = append(*s, leaf{path, fmt.Sprintf("[]u64 len=%d h=%016x", n, hashU64(u))})
			return
		}
		*s = append(*s, leaf{path + ".len", fmt.Sprint(v.Len())})
		for i := 0; i < v.Len(); i++ {
			walk(v.Index(i), fmt.Sprintf("%s[%d]", path, i), s, seen, depth+1)
		}
	case reflect.Array:
		for i := 0; i < v.Len(); i++ {
			walk(v.Index(i), fmt.Sprintf("%s[%d]", path, i), s, seen, depth+1)
		}
	case reflect.Map:
		if v.IsNil() {
			*s = append(*s, leaf{path, "nil-map"})
			return
		}
		keys := v.MapKeys()
		sort.Slice(keys, func(i, j int) bool { return fmt.Sprint(keys[i]) < fmt.Sprint(keys[j]) })
		*s = append(*s, leaf{path + ".len", fmt.Sprint(len(keys))})
		for _, k := range keys {
			e := v.MapIndex(k)
			if e.Kind() != reflect.Ptr && e.Kind() != reflect.Slice && e.Kind() != reflect.Map && e.Kind() != reflect.Interface {
				p := reflect.New(e.Type())
				p.Elem().Set(e)
				e = p.Elem()
			}
			walk(e, fmt.Sprintf("%s{%v}", path, k), s, seen, depth+1)
		}
	case reflect.Func, reflect.Chan, reflect.UnsafePointer:
		*s = append(*s, leaf{path, "<" + v.Kind().String() + ">"})
	case reflect.Bool:
		*s = append(*s, leaf{path, fmt.Sprint(v.Bool())})
	case reflect.Int, reflect.Int8, reflect.Int16, reflect.Int32, reflect.Int64:
		*s = append(*s, leaf{path, fmt.Sprint(v.Int())})
	case reflect.Uint, reflect.Uint8, reflect.Uint16, reflect.Uint32, reflect.Uint64, reflect.Uintptr:
		*s = append(*s, leaf{path, fmt.Sprint(v.Uint())})
	case reflect.Float32, reflect.Float64:
		*s = append(*s, leaf{path, fmt.Sprintf("%x", v.Float())})
	case reflect.Complex64, reflect.Complex128:
		c := v.Complex()
		*s = append(*s, leaf{path, fmt.Sprintf("%x,%x", real(c), imag(c))})
	case reflect.String:
		*s = append(*s, leaf{path, v.String()})
	default:
		*s = append(*s, leaf{path, "<" + v.Kind().String() + ">"})
	}
}

// diff returns "" when equal, else a description of the first differences.
func (a snapshot) diff(b snapshot) string {
	n := len(a)
	if len(b) < n {
		n = len(b)
	}
	out := ""
	cnt := 0
	for i := 0; i < n; i++ {
		if a[i] != b[i] {
			if cnt < 3 {
				if a[i].path == b[i].path {
					out += fmt.Sprintf("%s: %s -> %s; ", a[i].path, a[i].val, b[i].val)
				} else {
					out += fmt.Sprintf("structure changed at %s / %s; ", a[i].path, b[i].path)
				}
			}
			cnt++
		}
	}
	if len(a) != len(b) {
		out += fmt.Sprintf("leaf count %d -> %d; ", len(a), len(b))
		cnt++
	}
	if cnt > 3 {
		out += fmt.Sprintf("(%d differences)", cnt)
	}
	return out
}

// firstPath returns the path of the first differing leaf, with indices removed (stable across runs).
func (a snapshot) firstPath(b snapshot) string {
	n := len(a)
	if len(b) < n {
		n = len(b)
	}
	for i := 0; i < n; i++ {
		if a[i] != b[i] {
			return a[i].path
		}
	}
	return "<shape>"
}
