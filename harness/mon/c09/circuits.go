package c09

// Linear transformations and polynomial evaluation (circuits/common/lintrans, .../polynomial) through
// their CKKS and BGV front ends.

import (
	"fmt"
	"strings"

	"github.com/tuneinsight/lattigo/v6/circuits/bgv/lintrans"
	bgvpoly "github.com/tuneinsight/lattigo/v6/circuits/bgv/polynomial"
	cklt "github.com/tuneinsight/lattigo/v6/circuits/ckks/lintrans"
	ckpoly "github.com/tuneinsight/lattigo/v6/circuits/ckks/polynomial"
	clt "github.com/tuneinsight/lattigo/v6/circuits/common/lintrans"
	cpoly "github.com/tuneinsight/lattigo/v6/circuits/common/polynomial"
	"github.com/tuneinsight/lattigo/v6/core/rlwe"
	"github.com/tuneinsight/lattigo/v6/ring"
	"github.com/tuneinsight/lattigo/v6/ring/ringqp"
	"github.com/tuneinsight/lattigo/v6/schemes"
	"github.com/tuneinsight/lattigo/v6/schemes/bgv"
	"github.com/tuneinsight/lattigo/v6/schemes/ckks"
	"github.com/tuneinsight/lattigo/v6/utils/bignum"

	"verif/harness/eng"
)

func addGalois(kgen *rlwe.KeyGenerator, sk *rlwe.SecretKey, evk *rlwe.MemEvaluationKeySet, galEls []uint64) *rlwe.MemEvaluationKeySet {
	gks := []*rlwe.GaloisKey{}
	seen := map[uint64]bool{}
	for _, g := range evk.GetGaloisKeysList() {
		k, _ := evk.GetGaloisKey(g)
		gks = append(gks, k)
		seen[g] = true
	}
	for _, g := range galEls {
		if !seen[g] && g != 1 {
			seen[g] = true
			gks = append(gks, kgen.GenGaloisKeyNew(g, sk))
		}
	}
	return rlwe.NewMemEvaluationKeySet(evk.RelinearizationKey, gks...)
}

var ltDiagSets = map[string][]int{"naive": {0, 1, 3}, "naive-no0": {1, 2}, "bsgs": {0, 1, 2, 3, 4, 5, 7, 9, 12}, "bsgs-no0": {1, 2, 5, 6, 8}}

func ltRatio(kind string) int {
	if kind[:4] == "bsgs" {
		return 1
	}
	return -1
}

func runCKKSLinTrans(c *eng.Ctx, cfg pcfg, kind string) {
	e, err := newCKKSEnv(cfg, c.Rand())
	if err != nil {
		c.Inconclusive("parameters rejected: " + err.Error())
		return
	}
	t := &T{c: c, tag: cfg.tag()}
	p := e.p
	L := p.MaxLevel()
	mkLT := func(diags []int, level int, seed uint64) cklt.LinearTransformation {
		d := cklt.Diagonals[complex128]{}
		for _, i := range diags {
			v := make([]complex128, p.MaxSlots())
			for j := range v {
				v[j] = complex(float64((seed+uint64(i*31+j*7))%17)/17-0.5, 0)
			}
			d[i] = v
		}
		ltp := cklt.Parameters{DiagonalsIndexList: d.DiagonalsIndexList(), LevelQ: level, LevelP: p.MaxLevelP(), Scale: rlwe.NewScale(p.Q()[level]),
			LogDimensions: p.LogMaxDimensions(), LogBabyStepGiantStepRatio: ltRatio(kind)}
		lt := cklt.NewTransformation(p, ltp)
		if err := cklt.Encode(ckks.NewEncoder(p), d, lt); err != nil {
			panic(err)
		}
		return lt
	}
	lt0, lt1 := mkLT(ltDiagSets[kind], L, 1), mkLT(ltDiagSets[kind], L-1, 5)
	e.evk = addGalois(e.kgen, e.sk, e.evk, append(lt0.GaloisElements(p), lt1.GaloisElements(p)...))
	s := e.scheme()
	c.Sample(map[string]any{"params": cfg, "area": "ckks lintrans " + kind, "patterns": "fresh,out=in,out[0]=in,hist-poison,hist-warm,hist-out"})
	extra := []named{{"linearTransformation", &lt0}, {"linearTransformation[1]", &lt1}, {"evk", e.evk}}
	rows := []struct {
		name string
		row  urow[*ckks.Evaluator]
	}{
		{"lintrans.Evaluator.Evaluate", urow[*ckks.Evaluator]{outDeg: same1, call: func(ev *ckks.Evaluator, in, out *rlwe.Ciphertext) error {
			return cklt.NewEvaluator(ev).Evaluate(in, lt0, out)
		}}},
		// (the level of the output object bounds the level every step works at: the fresh output is allocated
		// at the level of the input, the result lands two levels below)
		{"lintrans.Evaluator.EvaluateSequential", urow[*ckks.Evaluator]{outDeg: same1, call: func(ev *ckks.Evaluator, in, out *rlwe.Ciphertext) error {
			return cklt.NewEvaluator(ev).EvaluateSequential(in, []cklt.LinearTransformation{lt0, lt1}, out)
		}}},
	}
	for _, r := range rows {
		r.row.api = r.name
		for _, v := range []struct {
			name string
			lvl  int
		}{{"top", L}, {"lvl-1", L - 1}} {
			a := e.ct(v.lvl, "", 1)
			runUnary(t, s, r.row, "", v.name+"/"+kind, a, extra)
		}
	}
	// EvaluateMany with two transformations: out[0] aliased with the input
	runEvalMany(t, s, "lintrans.Evaluator.EvaluateMany", kind, e.ct(L, "", 1), func(ev *ckks.Evaluator, in *rlwe.Ciphertext, outs []*rlwe.Ciphertext) error {
		return cklt.NewEvaluator(ev).EvaluateMany(in, []cklt.LinearTransformation{lt0, lt1}, outs)
	})
	as := func(ev *ckks.Evaluator) schemes.Evaluator { return ev }
	for _, lvl := range []int{L, L - 1} {
		runDiagDirect(t, s, fmt.Sprintf("%s/lvl%d", kind, lvl), p.Parameters, e.ct(lvl, "", 1), clt.LinearTransformation(lt0), e.evk, as)
	}
	lts := []cklt.LinearTransformation{lt0, lt1}
	runLTNew(t, s, kind, e.ct(L, "", 1), ltNewFuncs[*ckks.Evaluator]{
		evalNew: func(ev *ckks.Evaluator, in *rlwe.Ciphertext) (*rlwe.Ciphertext, error) {
			return cklt.NewEvaluator(ev).EvaluateNew(in, lt0)
		},
		eval: func(ev *ckks.Evaluator, in, out *rlwe.Ciphertext) error {
			return cklt.NewEvaluator(ev).Evaluate(in, lt0, out)
		},
		manyNew: func(ev *ckks.Evaluator, in *rlwe.Ciphertext) ([]*rlwe.Ciphertext, error) {
			return cklt.NewEvaluator(ev).EvaluateManyNew(in, lts)
		},
		many: func(ev *ckks.Evaluator, in *rlwe.Ciphertext, outs []*rlwe.Ciphertext) error {
			return cklt.NewEvaluator(ev).EvaluateMany(in, lts, outs)
		},
		seqNew: func(ev *ckks.Evaluator, in *rlwe.Ciphertext) (*rlwe.Ciphertext, error) {
			return cklt.NewEvaluator(ev).EvaluateSequentialNew(in, lts)
		},
		seq: func(ev *ckks.Evaluator, in, out *rlwe.Ciphertext) error {
			return cklt.NewEvaluator(ev).EvaluateSequential(in, lts, out)
		},
		lvl0: lt0.LevelQ, lvl1: lt1.LevelQ, extra: func() []named { return extra },
	})
}

func runEvalMany[E any](t *T, s *scheme[E], api, kind string, a *rlwe.Ciphertext, call func(ev E, in *rlwe.Ciphertext, outs []*rlwe.Ciphertext) error) {
	a1 := copyCt(a)
	o0, o1 := s.newCt(1, a.Level()), s.newCt(1, a.Level())
	t.distinct(api, "fresh", "ct", kind, true)
	if !t.guarded(api, "", api+" fresh "+kind, []named{{"in", a1}}, func() error { return call(s.newEval(), a1, []*rlwe.Ciphertext{o0, o1}) }).ok() {
		return
	}
	r0, r1 := canonCt(s.rq, o0), canonCt(s.rq, o1)
	t.independentAny(api, api+" fresh "+kind, []any{o0, o1}, []named{{"in", a1}})
	for _, pat := range []string{"out[0]=in", "out[1]=in"} {
		t.distinct(api, pat, "ct", kind, true)
		a2 := copyCt(a)
		x0, x1 := s.newCt(1, a.Level()), s.newCt(1, a.Level())
		if pat == "out[0]=in" {
			x0 = a2
		} else {
			x1 = a2
		}
		o := protect(func() error { return call(s.newEval(), a2, []*rlwe.Ciphertext{x0, x1}) })
		if o.panicked {
			t.c.Violate("C09|"+api+"|panic|"+pat, fmt.Sprintf("%s %s [%s]: panic: %v at %s", api, pat, t.tag, o.pval, o.stack), nil)
			continue
		}
		if o.err != nil {
			t.c.Count("alias_rejected_by_error", 1)
			continue
		}
		t.same(api, "alias-"+pat+"|out[0]", "", api+" "+pat, r0, canonCt(s.rq, x0))
		t.same(api, "alias-"+pat+"|out[1]", "", api+" "+pat, r1, canonCt(s.rq, x1))
	}
	// history: used evaluator (poisoned buffers, ShallowCopy / WithKey of a used one), reused output objects
	for _, pat := range append([]string{"hist-out", "hist-out/mixed"}, histPats...) {
		ev, ok := evalFor(t, s, pat)
		if !ok {
			continue
		}
		t.distinct(api, pat, "ct", kind, true)
		a2 := copyCt(a)
		x0, x1 := s.newCt(1, a.Level()), s.newCt(1, a.Level())
		switch pat {
		case "hist-out":
			x0, x1 = s.dirty(t.c.Rand(), 2), s.dirty(t.c.Rand(), 2)
		case "hist-out/mixed":
			x1 = s.dirty(t.c.Rand(), 1)
		}
		o := protect(func() error { return call(ev, a2, []*rlwe.Ciphertext{x0, x1}) })
		cl := patClass(strings.TrimSuffix(pat, "/mixed"))
		if o.panicked {
			t.c.Violate("C09|"+api+"|"+cl+"|panic", fmt.Sprintf("%s %s [%s]: panic (the run with a clean evaluator and fresh outputs is accepted): %v at %s", api, pat, t.tag, o.pval, o.stack), nil)
			continue
		}
		if o.err != nil {
			if strings.HasPrefix(pat, "hist-out") {
				t.c.Count("dirty_out_rejected_by_error", 1)
			} else {
				t.c.Violate("C09|"+api+"|"+cl+"|error", fmt.Sprintf("%s %s [%s]: error (the run with a clean evaluator and fresh outputs is accepted): %v", api, pat, t.tag, o.err), nil)
			}
			continue
		}
		t.same(api, cl+"|out[0]", "", api+" "+pat+" "+kind, r0, canonCt(s.rq, x0))
		t.same(api, cl+"|out[1]", "", api+" "+pat+" "+kind, r1, canonCt(s.rq, x1))
	}
}

func runBGVLinTrans(c *eng.Ctx, cfg pcfg, kind string) {
	e, err := newBGVEnv(cfg, c.Rand())
	if err != nil {
		c.Inconclusive("parameters rejected: " + err.Error())
		return
	}
	t := &T{c: c, tag: cfg.tag()}
	p := e.p
	L := p.MaxLevel()
	mkLT := func(diags []int, level int, seed uint64) lintrans.LinearTransformation {
		d := lintrans.Diagonals[uint64]{}
		for _, i := range diags {
			v := make([]uint64, p.MaxSlots())
			for j := range v {
				v[j] = (seed + uint64(i*31+j*7)) % p.PlaintextModulus()
			}
			d[i] = v
		}
		ltp := lintrans.Parameters{DiagonalsIndexList: d.DiagonalsIndexList(), LevelQ: level, LevelP: p.MaxLevelP(), Scale: p.DefaultScale(),
			LogDimensions: p.LogMaxDimensions(), LogBabyStepGiantStepRatio: ltRatio(kind)}
		lt := lintrans.NewLinearTransformation(p, ltp)
		if err := lintrans.Encode(bgv.NewEncoder(p), d, lt); err != nil {
			panic(err)
		}
		return lt
	}
	lt0, lt1 := mkLT(ltDiagSets[kind], L, 1), mkLT(ltDiagSets[kind], L-1, 5)
	e.evk = addGalois(e.kgen, e.sk, e.evk, append(lt0.GaloisElements(p), lt1.GaloisElements(p)...))
	s := e.scheme()
	c.Sample(map[string]any{"params": cfg, "area": "bgv lintrans " + kind, "patterns": "fresh,out=in,out[0]=in,hist-poison,hist-warm,hist-out"})
	extra := []named{{"linearTransformation", &lt0}, {"linearTransformation[1]", &lt1}, {"evk", e.evk}}
	rows := []struct {
		name string
		row  urow[*bgv.Evaluator]
	}{
		{"lintrans.Evaluator.Evaluate", urow[*bgv.Evaluator]{outDeg: same1, call: func(ev *bgv.Evaluator, in, out *rlwe.Ciphertext) error {
			return lintrans.NewEvaluator(ev).Evaluate(in, lt0, out)
		}}},
		{"lintrans.Evaluator.EvaluateSequential", urow[*bgv.Evaluator]{outDeg: same1, call: func(ev *bgv.Evaluator, in, out *rlwe.Ciphertext) error {
			return lintrans.NewEvaluator(ev).EvaluateSequential(in, []lintrans.LinearTransformation{lt0, lt1}, out)
		}}},
	}
	for _, r := range rows {
		r.row.api = r.name
		for _, v := range []struct {
			name string
			lvl  int
		}{{"top", L}, {"lvl-1", L - 1}} {
			a := e.ct(v.lvl, 3, 1)
			runUnary(t, s, r.row, "", v.name+"/"+kind, a, extra)
		}
	}
	runEvalMany(t, s, "lintrans.Evaluator.EvaluateMany", kind, e.ct(L, 1, 1), func(ev *bgv.Evaluator, in *rlwe.Ciphertext, outs []*rlwe.Ciphertext) error {
		return lintrans.NewEvaluator(ev).EvaluateMany(in, []lintrans.LinearTransformation{lt0, lt1}, outs)
	})
	as := func(ev *bgv.Evaluator) schemes.Evaluator { return ev }
	for _, lvl := range []int{L, L - 1} {
		runDiagDirect(t, s, fmt.Sprintf("%s/lvl%d", kind, lvl), p.Parameters, e.ct(lvl, 3, 1), clt.LinearTransformation(lt0), e.evk, as)
	}
	lts := []lintrans.LinearTransformation{lt0, lt1}
	runLTNew(t, s, kind, e.ct(L, 3, 1), ltNewFuncs[*bgv.Evaluator]{
		evalNew: func(ev *bgv.Evaluator, in *rlwe.Ciphertext) (*rlwe.Ciphertext, error) {
			return lintrans.NewEvaluator(ev).EvaluateNew(in, lt0)
		},
		eval: func(ev *bgv.Evaluator, in, out *rlwe.Ciphertext) error {
			return lintrans.NewEvaluator(ev).Evaluate(in, lt0, out)
		},
		manyNew: func(ev *bgv.Evaluator, in *rlwe.Ciphertext) ([]*rlwe.Ciphertext, error) {
			return lintrans.NewEvaluator(ev).EvaluateManyNew(in, lts)
		},
		many: func(ev *bgv.Evaluator, in *rlwe.Ciphertext, outs []*rlwe.Ciphertext) error {
			return lintrans.NewEvaluator(ev).EvaluateMany(in, lts, outs)
		},
		seqNew: func(ev *bgv.Evaluator, in *rlwe.Ciphertext) (*rlwe.Ciphertext, error) {
			return lintrans.NewEvaluator(ev).EvaluateSequentialNew(in, lts)
		},
		seq: func(ev *bgv.Evaluator, in, out *rlwe.Ciphertext) error {
			return lintrans.NewEvaluator(ev).EvaluateSequential(in, lts, out)
		},
		lvl0: lt0.LevelQ, lvl1: lt1.LevelQ, extra: func() []named { return extra },
	})
}

// ---------------------------------------------------------------------------------------------
// polynomial evaluation: the outputs are always newly allocated; the input ciphertext, the
// polynomial and the keys are inputs; the result must not depend on the evaluator's history.

func runPoly[E any](t *T, s *scheme[E], api, variant string, a *rlwe.Ciphertext, ins func() []named, call func(ev E, in *rlwe.Ciphertext) (*rlwe.Ciphertext, error)) {
	rnd := t.c.Rand()
	a1 := copyCt(a)
	var out *rlwe.Ciphertext
	t.distinct(api, "fresh", "ct", variant, true)
	o := t.guarded(api, variant, api+" "+variant, append(ins(), named{"in", a1}), func() (err error) { out, err = call(s.newEval(), a1); return })
	if !o.ok() || out == nil {
		return
	}
	r0 := canonCt(s.rq, out)
	// the ciphertext returned must not share storage with the input ciphertext, the polynomial or the keys
	t.independentAny(api, api+" "+variant, []any{out}, append(ins(), named{"in", a1}))
	for mode := 0; mode < 3; mode++ {
		t.distinct(api, fmt.Sprintf("hist-poison%d", mode), "ct", variant, true)
		ev := s.newEval()
		p := newPoisoner(rnd, mode)
		s.poison(p, ev)
		var o2 *rlwe.Ciphertext
		if protect(func() (err error) { o2, err = call(ev, copyCt(a)); return }).ok() && o2 != nil {
			t.same(api, "history-buffers", variant, api+" poisoned "+variant, r0, canonCt(s.rq, o2))
		} else {
			t.c.Violate("C09|"+api+"|history-buffers|failure|"+variant, "evaluation fails only with poisoned scratch buffers", nil)
		}
	}
	t.distinct(api, "hist-warm", "ct", variant, true)
	ev := s.newEval()
	s.warm(ev)
	var o2 *rlwe.Ciphertext
	if protect(func() (err error) { o2, err = call(ev, copyCt(a)); return }).ok() && o2 != nil {
		t.same(api, "history-evaluator", variant, api+" warm "+variant, r0, canonCt(s.rq, o2))
	}
	// twice on the same evaluator
	t.distinct(api, "hist-repeat", "ct", variant, true)
	if protect(func() (err error) { o2, err = call(ev, copyCt(a)); return }).ok() && o2 != nil {
		t.same(api, "history-evaluator", variant, api+" repeated "+variant, r0, canonCt(s.rq, o2))
	}
}

func runCKKSPoly(c *eng.Ctx, cfg pcfg) {
	e, err := newCKKSEnv(cfg, c.Rand())
	if err != nil {
		c.Inconclusive("parameters rejected: " + err.Error())
		return
	}
	t := &T{c: c, tag: cfg.tag()}
	s := e.scheme()
	p := e.p
	c.Sample(map[string]any{"params": cfg, "area": "ckks polynomial", "patterns": "fresh,hist-poison,hist-warm,hist-repeat"})
	for _, v := range []struct {
		name   string
		basis  bignum.Basis
		coeffs []complex128
		itv    any
	}{
		{"monomial-deg5", bignum.Monomial, []complex128{0.1, 0.5, -0.25, 0.125, 0, 0.3}, nil},
		{"monomial-odd-deg3", bignum.Monomial, []complex128{0, 0.5, 0, 0.125}, nil},
		{"chebyshev-deg7", bignum.Chebyshev, []complex128{0.1, 0.5, -0.25, 0.125, 0.01, 0.3, 0.2, -0.1}, [2]float64{-1, 1}},
	} {
		v := v
		mkPoly := func() bignum.Polynomial {
			return bignum.NewPolynomial(v.basis, append([]complex128(nil), v.coeffs...), v.itv)
		}
		poly := mkPoly()
		a := e.ct(p.MaxLevel(), "", 1)
		runPoly(t, s, "polynomial.Evaluator.Evaluate", "ckks/"+v.name, a, func() []named { return []named{{"polynomial", &poly}, {"evk", e.evk}} },
			func(ev *ckks.Evaluator, in *rlwe.Ciphertext) (*rlwe.Ciphertext, error) {
				return ckpoly.NewEvaluator(p, ev).Evaluate(in, poly, p.DefaultScale())
			})
		// an input that has not been relinearised (the evaluator relinearises the powers it derives, not its input)
		a2 := e.ct(p.MaxLevel(), "", 2)
		t.c.Count("polynomial_inputs_degree2", 1)
		runPoly(t, s, "polynomial.Evaluator.Evaluate", "ckks/"+v.name+"/input-degree-2", a2, func() []named { return []named{{"polynomial", &poly}, {"evk", e.evk}} },
			func(ev *ckks.Evaluator, in *rlwe.Ciphertext) (*rlwe.Ciphertext, error) {
				return ckpoly.NewEvaluator(p, ev).Evaluate(in, poly, p.DefaultScale())
			})
		// the same evaluation from a power basis: X^1 and the polynomial are inputs (the basis caches the higher
		// powers by design); a basis that was used before gives the result of a new one
		t.runPatterns("polynomial.Evaluator.EvaluateFromPowerBasis", "ckks/"+v.name, "", []string{"ct-vs-powerbasis", "hist-repeat", "hist-poison1", "hist-derived-shallowcopy"}, func(pat string) ([]named, func() (string, error)) {
			ev, ok := evalFor(t, s, strings.NewReplacer("ct-vs-powerbasis", "fresh", "hist-repeat", "fresh").Replace(pat))
			if !ok {
				return nil, nil
			}
			pe := ckpoly.NewEvaluator(p, ev)
			if pat == "ct-vs-powerbasis" {
				return nil, func() (string, error) {
					o, err := pe.Evaluate(copyCt(a), poly, p.DefaultScale())
					if err != nil {
						return "", err
					}
					return ctString(s.rq, o), nil
				}
			}
			pb := cpoly.NewPowerBasis(copyCt(a), v.basis)
			if pat == "hist-repeat" {
				if _, err := pe.EvaluateFromPowerBasis(pb, poly, p.DefaultScale()); err != nil {
					return nil, nil
				}
			}
			return []named{{"polynomial", &poly}, {"X^1", pb.Value[1]}, {"evk", e.evk}}, func() (string, error) {
				o, err := pe.EvaluateFromPowerBasis(pb, poly, p.DefaultScale())
				if err != nil {
					return "", err
				}
				t.out(o)
				return ctString(s.rq, o), nil
			}
		})
	}
	// one polynomial evaluator reused for polynomial vectors with different slot mappings: the second result
	// must be the one a fresh polynomial evaluator gives (no residue of the first mapping in its buffers)
	{
		api, variant := "polynomial.Evaluator.Evaluate", "ckks/vector-after-vector"
		slots := p.MaxSlots()
		all := make([]int, slots)
		for i := range all {
			all[i] = i
		}
		pa := bignum.NewPolynomial(bignum.Monomial, []complex128{0.1, 0.5, -0.25, 0.125}, nil)
		pb := bignum.NewPolynomial(bignum.Monomial, []complex128{-0.3, 0.2, 0.4, -0.1}, nil)
		v1, e1 := ckpoly.NewPolynomialVector([]bignum.Polynomial{pa}, map[int][]int{0: all})
		v2, e2 := ckpoly.NewPolynomialVector([]bignum.Polynomial{pb}, map[int][]int{0: all[:max(1, min(8, slots/2))]})
		if e1 == nil && e2 == nil {
			a := e.ct(p.MaxLevel(), "", 1)
			t.distinct(api, "hist-polyeval", "ct", variant, true)
			var o0, o1 *rlwe.Ciphertext
			okF := protect(func() (err error) {
				o0, err = ckpoly.NewEvaluator(p, s.newEval()).Evaluate(copyCt(a), v2, p.DefaultScale())
				return
			}).ok()
			used := ckpoly.NewEvaluator(p, s.newEval())
			okU := protect(func() (err error) {
				if _, err = used.Evaluate(copyCt(a), v1, p.DefaultScale()); err != nil {
					return
				}
				o1, err = used.Evaluate(copyCt(a), v2, p.DefaultScale())
				return
			}).ok()
			if okF && okU && o0 != nil && o1 != nil {
				t.same(api, "history-polynomial-evaluator", variant, api+" vector (8 slots) after vector (all slots) on one polynomial evaluator", canonCt(s.rq, o0), canonCt(s.rq, o1))
			}
		}
	}
}

func runBGVPoly(c *eng.Ctx, cfg pcfg) {
	e, err := newBGVEnv(cfg, c.Rand())
	if err != nil {
		c.Inconclusive("parameters rejected: " + err.Error())
		return
	}
	t := &T{c: c, tag: cfg.tag()}
	s := e.scheme()
	p := e.p
	c.Sample(map[string]any{"params": cfg, "area": "bgv polynomial", "patterns": "fresh,hist-poison,hist-warm,hist-repeat"})
	for _, v := range []struct {
		name   string
		coeffs []uint64
	}{
		{"deg5", []uint64{3, 1, 4, 1, 5, 9}},
		{"deg3", []uint64{0, 2, 0, 7}},
	} {
		v := v
		poly := bgvpoly.NewPolynomial(append([]uint64(nil), v.coeffs...))
		a := e.ct(p.MaxLevel(), 1, 1)
		runPoly(t, s, "polynomial.Evaluator.Evaluate", s.name+"/"+v.name, a, func() []named { return []named{{"polynomial", &poly}, {"evk", e.evk}} },
			func(ev *bgv.Evaluator, in *rlwe.Ciphertext) (*rlwe.Ciphertext, error) {
				return bgvpoly.NewEvaluator(p, ev).Evaluate(in, poly, p.DefaultScale())
			})
		a2 := e.ct(p.MaxLevel(), 1, 2)
		t.c.Count("polynomial_inputs_degree2", 1)
		runPoly(t, s, "polynomial.Evaluator.Evaluate", s.name+"/"+v.name+"/input-degree-2", a2, func() []named { return []named{{"polynomial", &poly}, {"evk", e.evk}} },
			func(ev *bgv.Evaluator, in *rlwe.Ciphertext) (*rlwe.Ciphertext, error) {
				return bgvpoly.NewEvaluator(p, ev).Evaluate(in, poly, p.DefaultScale())
			})
		t.runPatterns("polynomial.Evaluator.EvaluateFromPowerBasis", s.name+"/"+v.name, "", []string{"ct-vs-powerbasis", "hist-repeat", "hist-poison1", "hist-derived-shallowcopy"}, func(pat string) ([]named, func() (string, error)) {
			ev, ok := evalFor(t, s, strings.NewReplacer("ct-vs-powerbasis", "fresh", "hist-repeat", "fresh").Replace(pat))
			if !ok {
				return nil, nil
			}
			pe := bgvpoly.NewEvaluator(p, ev)
			if pat == "ct-vs-powerbasis" {
				return nil, func() (string, error) {
					o, err := pe.Evaluate(copyCt(a), poly, p.DefaultScale())
					if err != nil {
						return "", err
					}
					return ctString(s.rq, o), nil
				}
			}
			pb := cpoly.NewPowerBasis(copyCt(a), bignum.Monomial)
			if pat == "hist-repeat" {
				if _, err := pe.EvaluateFromPowerBasis(pb, poly, p.DefaultScale()); err != nil {
					return nil, nil
				}
			}
			return []named{{"polynomial", &poly}, {"X^1", pb.Value[1]}, {"evk", e.evk}}, func() (string, error) {
				o, err := pe.EvaluateFromPowerBasis(pb, poly, p.DefaultScale())
				if err != nil {
					return "", err
				}
				t.out(o)
				return ctString(s.rq, o), nil
			}
		})
	}
	{
		api, variant := "polynomial.Evaluator.Evaluate", s.name+"/vector-after-vector"
		slots := p.MaxSlots()
		all := make([]int, slots)
		for i := range all {
			all[i] = i
		}
		v1, e1 := bgvpoly.NewPolynomialVector([][]uint64{{3, 1, 4, 1}}, map[int][]int{0: all})
		v2, e2 := bgvpoly.NewPolynomialVector([][]uint64{{2, 7, 1, 8}}, map[int][]int{0: all[:max(1, min(8, slots/2))]})
		if e1 == nil && e2 == nil {
			a := e.ct(p.MaxLevel(), 1, 1)
			t.distinct(api, "hist-polyeval", "ct", variant, true)
			var o0, o1 *rlwe.Ciphertext
			okF := protect(func() (err error) {
				o0, err = bgvpoly.NewEvaluator(p, s.newEval()).Evaluate(copyCt(a), v2, p.DefaultScale())
				return
			}).ok()
			used := bgvpoly.NewEvaluator(p, s.newEval())
			okU := protect(func() (err error) {
				if _, err = used.Evaluate(copyCt(a), v1, p.DefaultScale()); err != nil {
					return
				}
				o1, err = used.Evaluate(copyCt(a), v2, p.DefaultScale())
				return
			}).ok()
			if okF && okU && o0 != nil && o1 != nil {
				t.same(api, "history-polynomial-evaluator", variant, api+" vector (8 slots) after vector (all slots) on one polynomial evaluator", canonCt(s.rq, o0), canonCt(s.rq, o1))
			}
		}
	}
}

// ---------------------------------------------------------------------------------------------
// Direct calls of MultiplyByDiagMatrix / MultiplyByDiagMatrixBSGS with caller-owned decomposition
// buffer resp. pre-rotated ciphertexts (both are arguments: intact after the call), and the allocating
// front-end variants (EvaluateNew, EvaluateManyNew, EvaluateSequentialNew).

func runDiagDirect[E any](t *T, s *scheme[E], kind string, p rlwe.Parameters, a *rlwe.Ciphertext, lt clt.LinearTransformation, evk rlwe.EvaluationKeySet, asEval func(E) schemes.Evaluator) {
	rnd := t.c.Rand()
	bsgs := lt.N1 != 0
	api := "lintrans.Evaluator.MultiplyByDiagMatrix"
	if bsgs {
		api += "BSGS"
	}
	levelP := lt.LevelP
	for _, low := range []int{0, 1} {
		runDiagDirectAt(t, s, api, kind, p, a, lt, evk, asEval, bsgs, min(a.Level(), lt.LevelQ)-low, levelP, low == 1, rnd)
	}
}

// runDiagDirectAt: the output object has level levelQ (low: one level below the input and the matrix: the
// level of the output object bounds the level of the result; reference = fresh output of that level).
func runDiagDirectAt[E any](t *T, s *scheme[E], api, kind string, p rlwe.Parameters, a *rlwe.Ciphertext, lt clt.LinearTransformation, evk rlwe.EvaluationKeySet, asEval func(E) schemes.Evaluator, bsgs bool, levelQ, levelP int, low bool, rnd *eng.Rand) {
	if levelQ < 0 {
		return
	}
	pats := append([]string{"out=in", "hist-out"}, histPats...)
	if low {
		kind += "/out-low"
		pats = []string{"hist-out"}
	}
	t.runPatterns(api, kind, "", pats, func(pat string) ([]named, func() (string, error)) {
		ev, ok := evalFor(t, s, pat)
		if !ok {
			return nil, nil
		}
		lev := clt.Evaluator{Evaluator: asEval(ev)}
		in := copyCt(a)
		out := s.newCt(1, levelQ)
		switch pat {
		case "out=in":
			out = in
		case "hist-out":
			out = dirtyLow(s, rnd, 2, levelQ)
			if !low {
				out = s.dirty(rnd, 2)
			}
		}
		// the decomposition of the input is computed by a clean evaluator into a caller-owned buffer
		dec := newDecompBuffer(p)
		clean := s.newEval()
		asEval(clean).(interface {
			DecomposeNTT(levelQ, levelP, nbPi int, c2 ring.Poly, c2IsNTT bool, decompQP []ringqp.Poly)
		}).DecomposeNTT(levelQ, levelP, levelP+1, in.Value[1], in.IsNTT, dec)
		ins := []named{{"matrix", &lt}, {"evk", evk}}
		if out != in {
			ins = append(ins, named{"ctIn", in})
			t.out(out)
		}
		if !bsgs {
			ins = append(ins, named{"BuffDecompQP", &dec})
			return ins, func() (string, error) {
				err := lev.MultiplyByDiagMatrix(in, lt, dec, out)
				return ctString(s.rq, out), err
			}
		}
		_, _, rotN2 := lt.BSGSIndex()
		pre := map[int]*rlwe.Element[ringqp.Poly]{}
		if err := (clt.Evaluator{Evaluator: asEval(clean)}).PreRotatedCiphertextForDiagonalMatrixMultiplication(levelQ, levelP, in, dec, rotN2, pre); err != nil {
			return nil, nil
		}
		ins = append(ins, named{"ctInPreRot", &pre})
		return ins, func() (string, error) {
			err := lev.MultiplyByDiagMatrixBSGS(in, lt, pre, out)
			return ctString(s.rq, out), err
		}
	})
}

type ltNewFuncs[E any] struct {
	evalNew       func(ev E, in *rlwe.Ciphertext) (*rlwe.Ciphertext, error)
	eval          func(ev E, in, out *rlwe.Ciphertext) error
	manyNew       func(ev E, in *rlwe.Ciphertext) ([]*rlwe.Ciphertext, error)
	many          func(ev E, in *rlwe.Ciphertext, outs []*rlwe.Ciphertext) error
	seqNew        func(ev E, in *rlwe.Ciphertext) (*rlwe.Ciphertext, error)
	seq           func(ev E, in, out *rlwe.Ciphertext) error
	lvl0, lvl1    int // LevelQ of the two transformations
	extra         func() []named
	seqFreshLevel int
}

func runLTNew[E any](t *T, s *scheme[E], kind string, a *rlwe.Ciphertext, f ltNewFuncs[E]) {
	in := func() *rlwe.Ciphertext { return copyCt(a) }
	ins := func(x *rlwe.Ciphertext) []named { return append(f.extra(), named{"ctIn", x}) }
	t.runPatterns("lintrans.Evaluator.EvaluateNew", kind, "", []string{"new-vs-inplace", "hist-poison1"}, func(pat string) ([]named, func() (string, error)) {
		ev, _ := evalFor(t, s, strings.Replace(pat, "new-vs-inplace", "fresh", 1))
		x := in()
		if pat == "new-vs-inplace" {
			out := s.newCt(1, f.lvl0)
			return nil, func() (string, error) { err := f.eval(ev, x, out); return ctString(s.rq, out), err }
		}
		return ins(x), func() (string, error) {
			o, err := f.evalNew(ev, x)
			if err != nil {
				return "", err
			}
			t.out(o)
			return ctString(s.rq, o), nil
		}
	})
	t.runPatterns("lintrans.Evaluator.EvaluateManyNew", kind, "", []string{"new-vs-inplace", "hist-poison1"}, func(pat string) ([]named, func() (string, error)) {
		ev, _ := evalFor(t, s, strings.Replace(pat, "new-vs-inplace", "fresh", 1))
		x := in()
		str := func(o []*rlwe.Ciphertext) string {
			r := ""
			for i := range o {
				r += ctString(s.rq, o[i]) + "|"
			}
			return r
		}
		if pat == "new-vs-inplace" {
			outs := []*rlwe.Ciphertext{s.newCt(1, f.lvl0), s.newCt(1, f.lvl1)}
			return nil, func() (string, error) { err := f.many(ev, x, outs); return str(outs), err }
		}
		return ins(x), func() (string, error) {
			o, err := f.manyNew(ev, x)
			if err != nil {
				return "", err
			}
			t.out(o)
			return str(o), nil
		}
	})
	t.runPatterns("lintrans.Evaluator.EvaluateSequentialNew", kind, "", []string{"new-vs-inplace", "hist-poison1"}, func(pat string) ([]named, func() (string, error)) {
		ev, _ := evalFor(t, s, strings.Replace(pat, "new-vs-inplace", "fresh", 1))
		x := in()
		if pat == "new-vs-inplace" {
			out := s.newCt(1, f.lvl0)
			return nil, func() (string, error) { err := f.seq(ev, x, out); return ctString(s.rq, out), err }
		}
		return ins(x), func() (string, error) {
			o, err := f.seqNew(ev, x)
			if err != nil {
				return "", err
			}
			t.out(o)
			return ctString(s.rq, o), nil
		}
	})
}
