package c01

// Coverage extension, part 1: the exported scalar reductions of ring/modular_reduction.go called
// directly (family "scal"), and the SubRing vector kernels of ring/vec_ops.go /
// ring/subring_ops.go under the dimensions the base family does not reach (family "vecx"):
// slice lengths that differ from the ring degree ("iteration is done with respect to len(p1)"),
// outputs and second operands longer than p1 (the tail must stay untouched), sub-slices of larger
// arrays (as Ring.*DoubleRNSScalar pass them), exactly aliased operands (out = p1, out = p2,
// p1 = p2, the three forms in-tree callers use), plus the two exported kernels ZeroVec / MaskVec.

import (
	"fmt"
	"math/big"

	"github.com/tuneinsight/lattigo/v6/ring"

	"verif/harness/eng"
	"verif/harness/gen"
	"verif/harness/ref"
)

func vopByName(name string) *vop {
	for i := range vops {
		if vops[i].name == name {
			return &vops[i]
		}
	}
	panic("c01: no vop " + name)
}

// vopOK judges one output lane of a table operation (cin = initial output content for accumulators, else 0).
func vopOK(op *vop, q, a, b, cin, s0, s1, got uint64) bool {
	want := op.model(q, a, b, cin, s0, s1)
	if op.exact {
		return got == want
	}
	if got%q != want%q {
		return false
	}
	return op.rng == nil || got <= op.rng(q)
}

// ---------------------------------------------------------------------------------------------
// family "scal": MForm, MFormLazy, IMForm, IMFormLazy, MRed, MRedLazy, BRedAdd, BRedAddLazy, BRed,
// BRedLazy, CRed, GenBRedConstant, GenMRedConstant, called directly.
// ---------------------------------------------------------------------------------------------

func scalValues(rnd *eng.Rand, q uint64) (inQ, in2Q, anyv []uint64) {
	add := func(dst *[]uint64, top uint64, vs ...uint64) {
		for _, v := range vs {
			if v <= top {
				*dst = append(*dst, v)
			}
		}
	}
	base := []uint64{0, 1, 2, 3, q / 2, q/2 + 1, q - 2, q - 1, q - 3}
	add(&inQ, q-1, base...)
	for i := 0; i < 6; i++ {
		inQ = append(inQ, rnd.U64()%q)
	}
	in2Q = append(in2Q, inQ...)
	add(&in2Q, 2*q-1, q, q+1, q+q/2, 2*q-2, 2*q-1)
	for i := 0; i < 4; i++ {
		in2Q = append(in2Q, rnd.U64()%(2*q))
	}
	anyv = append(anyv, in2Q...)
	m := ^uint64(0)
	k := m / q
	anyv = append(anyv, 2*q, 2*q+1, 3*q-1, 1<<32-1, 1<<32, 1<<32+1, 1<<63-1, 1<<63, 1<<63+1, m, m-1, k*q, k*q-1, k*q+1, (k/2)*q, (k/2)*q-1)
	for i := 0; i < 6; i++ {
		anyv = append(anyv, rnd.U64())
	}
	return
}

func runScalar(c *eng.Ctx, rc ringCfg) {
	q := rc.Moduli[0]
	rnd := c.Rand()
	c.Sample(map[string]any{"kind": "scal", "q": q, "bits": rc.Bits[0], "pos": rc.Pos})
	var brc [2]uint64
	var mrc uint64
	if !c.Try("C01|ring.GenBRedConstant", func() { brc = ring.GenBRedConstant(q) }) || !c.Try("C01|ring.GenMRedConstant", func() { mrc = ring.GenMRedConstant(q) }) {
		return
	}
	u := new(big.Int).Lsh(big.NewInt(1), 128)
	u.Quo(u, new(big.Int).SetUint64(q))
	lo := new(big.Int).And(u, new(big.Int).SetUint64(^uint64(0))).Uint64()
	hi := new(big.Int).Rsh(u, 64).Uint64()
	c.Check(brc[0] == hi && brc[1] == lo, "C01|ring.GenBRedConstant|wrong-value", func() string {
		return fmt.Sprintf("q=%d got=%v want=[%d %d]", q, brc, hi, lo)
	})
	c.Check(mrc*q == 1, "C01|ring.GenMRedConstant|wrong-value", func() string { return fmt.Sprintf("q=%d got=%d (q*got mod 2^64 = %d)", q, mrc, mrc*q) })
	if brc[0] != hi || brc[1] != lo || mrc*q != 1 {
		return
	}
	inQ, in2Q, anyv := scalValues(rnd, q)
	R := ref.TwoTo64Mod(q)
	Ri := minv(q)
	key := fmt.Sprintf("scal/%d/%d", rc.Bits[0], rc.Pos)
	// unary functions
	type un struct {
		name string
		dom  []uint64
		f    func(a uint64) uint64
		want func(a uint64) uint64
		top  uint64 // inclusive documented range
	}
	uns := []un{
		{"MForm", anyv, func(a uint64) uint64 { return ring.MForm(a, q, brc) }, func(a uint64) uint64 { return ref.MulMod(a, R, q) }, q - 1},
		{"MFormLazy", anyv, func(a uint64) uint64 { return ring.MFormLazy(a, q, brc) }, func(a uint64) uint64 { return ref.MulMod(a, R, q) }, 2*q - 1},
		{"IMForm", in2Q, func(a uint64) uint64 { return ring.IMForm(a, q, mrc) }, func(a uint64) uint64 { return ref.MulMod(a, Ri, q) }, q - 1},
		{"IMFormLazy", in2Q, func(a uint64) uint64 { return ring.IMFormLazy(a, q, mrc) }, func(a uint64) uint64 { return ref.MulMod(a, Ri, q) }, 2*q - 1},
		{"BRedAdd", anyv, func(a uint64) uint64 { return ring.BRedAdd(a, q, brc) }, func(a uint64) uint64 { return a % q }, q - 1},
		{"BRedAddLazy", anyv, func(a uint64) uint64 { return ring.BRedAddLazy(a, q, brc) }, func(a uint64) uint64 { return a % q }, 2*q - 1},
		{"CRed", in2Q, func(a uint64) uint64 { return ring.CRed(a, q) }, func(a uint64) uint64 { return a % q }, q - 1},
	}
	for _, f := range uns {
		f := f
		c.Distinct(key+"/"+f.name, true)
		for _, a := range f.dom {
			a := a
			var got uint64
			if !c.Try("C01|ring."+f.name, func() { got = f.f(a) }) {
				break
			}
			want := f.want(a)
			if !c.Check(got%q == want && got <= f.top, "C01|ring."+f.name+"|wrong-value", func() string {
				return fmt.Sprintf("q=%d (%d bits) a=%d got=%d want=%d (mod q) range<=%d", q, ref.BitLen(q), a, got, want, f.top)
			}) {
				break
			}
		}
		c.Count("scalar_fn_inputs", int64(len(f.dom)))
	}
	// binary functions
	type bin struct {
		name   string
		d1, d2 []uint64
		f      func(x, y uint64) uint64
		want   func(x, y uint64) uint64
		top    uint64
	}
	bins := []bin{
		{"MRed", in2Q, inQ, func(x, y uint64) uint64 { return ring.MRed(x, y, q, mrc) }, func(x, y uint64) uint64 { return mred(x, y, q) }, q - 1},
		{"MRedLazy", in2Q, inQ, func(x, y uint64) uint64 { return ring.MRedLazy(x, y, q, mrc) }, func(x, y uint64) uint64 { return mred(x, y, q) }, 2*q - 1},
		{"BRed", inQ, inQ, func(x, y uint64) uint64 { return ring.BRed(x, y, q, brc) }, func(x, y uint64) uint64 { return ref.MulMod(x, y, q) }, q - 1},
		{"BRedLazy", inQ, inQ, func(x, y uint64) uint64 { return ring.BRedLazy(x, y, q, brc) }, func(x, y uint64) uint64 { return ref.MulMod(x, y, q) }, 2*q - 1},
	}
	for _, f := range bins {
		f := f
		c.Distinct(key+"/"+f.name, true)
		stop := false
		for _, x := range f.d1 {
			for _, y := range f.d2 {
				x, y := x, y
				var got uint64
				if !c.Try("C01|ring."+f.name, func() { got = f.f(x, y) }) {
					stop = true
					break
				}
				want := f.want(x, y)
				if !c.Check(got%q == want && got <= f.top, "C01|ring."+f.name+"|wrong-value", func() string {
					return fmt.Sprintf("q=%d (%d bits) x=%d y=%d got=%d want=%d (mod q) range<=%d", q, ref.BitLen(q), x, y, got, want, f.top)
				}) {
					stop = true
					break
				}
			}
			if stop {
				break
			}
		}
		c.Count("scalar_fn_inputs", int64(len(f.d1)*len(f.d2)))
	}
}

// ---------------------------------------------------------------------------------------------
// family "vecx"
// ---------------------------------------------------------------------------------------------

const sentinel = 0xA5A5A5A5A5A5A5A5

func minU(a, b uint64) uint64 {
	if a < b {
		return a
	}
	return b
}

func runVecX(c *eng.Ctx, rc ringCfg) {
	r, err := rc.build()
	if err != nil {
		c.Violate("C01|ring.NewRing|error-on-admissible", fmt.Sprintf("%v: %v", rc, err), rc)
		return
	}
	s := r.SubRings[0]
	q := s.Modulus
	n := r.N()
	rnd := c.Rand()
	c.Sample(map[string]any{"kind": "vecx", "ring": rc, "ops": len(vops)})
	layouts := []string{"len8", "len" + fmt.Sprint(n+8), "len" + fmt.Sprint(2*n+8), "sub", "alias-out-p1", "alias-out-p2", "alias-p1-p2"}
	for oi := range vops {
		op := &vops[oi]
		for li, layout := range layouts {
			pat := []int{gen.PatLaneTop, gen.PatTop, gen.PatUniform, gen.PatSmall}[(oi+li)%4]
			lane := (oi + 3*li) % 8
			L := n
			switch li {
			case 0:
				L = 8
			case 1:
				L = n + 8
			case 2:
				L = 2*n + 8
			case 3:
				L = []int{8, n, n + 8}[rnd.N(3)]
			}
			binary := op.d2 != nil
			acc := op.d3 != nil
			if layout == "alias-out-p1" && acc || layout == "alias-out-p2" && (acc || !binary) || layout == "alias-p1-p2" && !binary {
				continue
			}
			top1 := op.d1(q)
			top2 := uint64(0)
			if binary {
				top2 = op.d2(q)
			}
			if layout == "alias-p1-p2" {
				top1 = minU(top1, top2)
				top2 = top1
			}
			// logical operands
			a0 := gen.Vec(rnd, L, top1, pat, lane)
			var b0, c0 []uint64
			if binary {
				if layout == "alias-p1-p2" {
					b0 = a0
				} else {
					b0 = gen.Vec(rnd, L, top2, pat, lane)
				}
			} else {
				b0 = make([]uint64, L)
			}
			if acc {
				c0 = gen.Vec(rnd, L, op.d3(q), pat, lane)
			} else {
				c0 = gen.Vec(rnd, L, ^uint64(0), gen.PatUniform, 0) // residue in the output must not matter
			}
			var s0, s1 uint64
			if op.nscal > 0 {
				top := op.scalDom(q)
				s0 = eng.Pick(rnd, rnd.U64()%(top+1), top, 0, 1)
				s1 = eng.Pick(rnd, rnd.U64()%(top+1), top, 0, 1)
			}
			// physical buffers
			var pa, pb, pc []uint64   // slices handed to the kernel
			var ga, gb, gc [][]uint64 // guard regions that must stay at the sentinel
			mk := func(v []uint64, pre, post int) (sl []uint64, guards [][]uint64) {
				buf := make([]uint64, pre+len(v)+post)
				for i := range buf {
					buf[i] = sentinel
				}
				copy(buf[pre:], v)
				return buf[pre : pre+len(v) : pre+len(v)+post], [][]uint64{buf[:pre], buf[pre+len(v):]}
			}
			switch layout {
			case "sub":
				pa, ga = mk(a0, 8, 8)
				pb, gb = mk(b0, 16, 8)
				pc, gc = mk(c0, 8, 16)
			case "alias-out-p1":
				pa, ga = mk(a0, 0, 0)
				pb, gb = mk(b0, 0, 0)
				pc = pa
			case "alias-out-p2":
				pa, ga = mk(a0, 0, 0)
				pb, gb = mk(b0, 0, 0)
				pc = pb
			case "alias-p1-p2":
				pa, ga = mk(a0, 0, 0)
				pb = pa
				pc, gc = mk(c0, 0, 0)
			default:
				// p1 has exactly L entries, p2 and p3 are longer: the kernels iterate over len(p1)
				pa, ga = mk(a0, 0, 0)
				pb, gb = mk(b0, 0, 8)
				pb = pb[:L+8]
				pc, gc = mk(c0, 0, 8)
				pc = pc[:L+8]
				gb, gc = nil, nil
			}
			name := op.name
			c.Distinct(fmt.Sprintf("vecx/%s/%s/%d/%d/%s/%d", name, rc.Type, rc.Bits[0], rc.Pos, layout, pat), true)
			c.Count("vecx_"+layoutClass(layout), 1)
			if !c.Try("C01|SubRing."+name, func() { op.call(s, pa, pb, pc, s0, s1) }) {
				continue
			}
			c.Eval(1)
			bad := -1
			for j := 0; j < L; j++ {
				var cin uint64
				if acc {
					cin = c0[j]
				}
				if !vopOK(op, q, a0[j], b0[j], cin, s0, s1, pc[j]) {
					bad = j
					break
				}
			}
			if bad >= 0 {
				j := bad
				var cin uint64
				if acc {
					cin = c0[j]
				}
				c.Violate("C01|SubRing."+name+"|wrong-value", fmt.Sprintf("layout=%s len=%d q=%d (%d bits) lane=%d idx=%d a=%d b=%d c=%d s0=%d s1=%d got=%d want=%d (exact=%v, range<=%v)",
					layout, L, q, ref.BitLen(q), j%8, j, a0[j], b0[j], cin, s0, s1, pc[j], op.model(q, a0[j], b0[j], cin, s0, s1), op.exact, rngOf(*op, q)), rc)
			}
			// operands that are not the output are unchanged
			modified := false
			if layout != "alias-out-p1" && !eqv(pa[:L], a0) {
				modified = true
			}
			if binary && layout != "alias-out-p2" && layout != "alias-p1-p2" && !eqv(pb[:L], b0) {
				modified = true
			}
			if modified {
				c.Violate("C01|SubRing."+name+"|input-modified", fmt.Sprintf("layout=%s q=%d", layout, q), rc)
			}
			// nothing outside [0, len(p1)) is written
			outside := false
			for _, g := range [][][]uint64{ga, gb, gc} {
				for _, reg := range g {
					for _, v := range reg {
						if v != sentinel {
							outside = true
						}
					}
				}
			}
			if li <= 2 {
				for _, v := range pc[L:] {
					if v != sentinel {
						outside = true
					}
				}
				if binary {
					for _, v := range pb[L:] {
						if v != sentinel {
							outside = true
						}
					}
				}
			}
			if outside {
				c.Violate("C01|SubRing."+name+"|write-outside-len-p1", fmt.Sprintf("layout=%s len=%d q=%d", layout, L, q), rc)
			}
		}
	}
	// ZeroVec / MaskVec (exported kernels of vec_ops.go): exact model, every lane, lengths 8 .. 2N+8, sub-slices
	for _, L := range []int{8, n, n + 8, 2*n + 8} {
		buf := make([]uint64, L+16)
		for i := range buf {
			buf[i] = rnd.U64() | 1
		}
		b0 := append([]uint64(nil), buf...)
		if c.Try("C01|ring.ZeroVec", func() { ring.ZeroVec(buf[8 : 8+L]) }) {
			ok := eqv(buf[:8], b0[:8]) && eqv(buf[8+L:], b0[8+L:])
			for _, v := range buf[8 : 8+L] {
				ok = ok && v == 0
			}
			c.Check(ok, "C01|ring.ZeroVec|wrong-value", func() string { return fmt.Sprintf("len=%d", L) })
		}
		for _, w := range []int{0, 1, 7, 13, 31, 32, 60, 63} {
			for _, mask := range []uint64{0, 1, 0xff, 1<<13 - 1, 1<<32 - 1, ^uint64(0), rnd.U64()} {
				in := gen.Vec(rnd, L, ^uint64(0), eng.Pick(rnd, gen.PatUniform, gen.PatLaneTop, gen.PatTop), rnd.N(8))
				in0 := append([]uint64(nil), in...)
				o, g := func() ([]uint64, [][]uint64) {
					b := make([]uint64, L+16)
					for i := range b {
						b[i] = sentinel
					}
					return b[8 : 8+L], [][]uint64{b[:8], b[8+L:]}
				}()
				w, mask := w, mask
				if !c.Try("C01|ring.MaskVec", func() { ring.MaskVec(in, w, mask, o) }) {
					continue
				}
				ok := eqv(in, in0)
				for j := range o {
					ok = ok && o[j] == (in0[j]>>uint(w))&mask
				}
				for _, reg := range g {
					for _, v := range reg {
						ok = ok && v == sentinel
					}
				}
				c.Check(ok, "C01|ring.MaskVec|wrong-value", func() string { return fmt.Sprintf("len=%d w=%d mask=%#x", L, w, mask) })
			}
		}
		c.Distinct(fmt.Sprintf("vecx/maskzero/%d", L), true)
	}
}

func layoutClass(l string) string {
	switch l {
	case "sub":
		return "subslice"
	case "alias-out-p1", "alias-out-p2", "alias-p1-p2":
		return "aliased"
	}
	return "len_ne_N"
}
