package c01

// Coverage extension, part 2 (family "ringx"): the exported methods of ring/operations.go,
// ring/scalar.go, ring/automorphism.go, ring/conjugate_invariant.go and the Ring-level NTT entry
// points of ring/ntt.go that the base "ring" family does not call, on multi-modulus rings at every
// level, with polynomials allocated (i) at exactly the level of the ring and (ii) with more rows
// than the level (rows above the level must stay untouched).

import (
	"fmt"

	"github.com/tuneinsight/lattigo/v6/ring"

	"verif/harness/eng"
	"verif/harness/gen"
	"verif/harness/ref"
)

type rop struct {
	name string // Ring method
	vop  string // SubRing table entry that models one row
	vec  bool   // second operand is one []uint64 shared by all rows
	call func(r *ring.Ring, a, b, o ring.Poly, v []uint64)
}

var rops = []rop{
	{name: "Add", call: func(r *ring.Ring, a, b, o ring.Poly, _ []uint64) { r.Add(a, b, o) }},
	{name: "AddLazy", call: func(r *ring.Ring, a, b, o ring.Poly, _ []uint64) { r.AddLazy(a, b, o) }},
	{name: "Sub", call: func(r *ring.Ring, a, b, o ring.Poly, _ []uint64) { r.Sub(a, b, o) }},
	{name: "SubLazy", call: func(r *ring.Ring, a, b, o ring.Poly, _ []uint64) { r.SubLazy(a, b, o) }},
	{name: "Neg", call: func(r *ring.Ring, a, b, o ring.Poly, _ []uint64) { r.Neg(a, o) }},
	{name: "Reduce", call: func(r *ring.Ring, a, b, o ring.Poly, _ []uint64) { r.Reduce(a, o) }},
	{name: "ReduceLazy", call: func(r *ring.Ring, a, b, o ring.Poly, _ []uint64) { r.ReduceLazy(a, o) }},
	{name: "MulCoeffsBarrett", call: func(r *ring.Ring, a, b, o ring.Poly, _ []uint64) { r.MulCoeffsBarrett(a, b, o) }},
	{name: "MulCoeffsBarrettLazy", call: func(r *ring.Ring, a, b, o ring.Poly, _ []uint64) { r.MulCoeffsBarrettLazy(a, b, o) }},
	{name: "MulCoeffsBarrettThenAdd", call: func(r *ring.Ring, a, b, o ring.Poly, _ []uint64) { r.MulCoeffsBarrettThenAdd(a, b, o) }},
	{name: "MulCoeffsBarrettThenAddLazy", call: func(r *ring.Ring, a, b, o ring.Poly, _ []uint64) { r.MulCoeffsBarrettThenAddLazy(a, b, o) }},
	{name: "MulCoeffsMontgomery", call: func(r *ring.Ring, a, b, o ring.Poly, _ []uint64) { r.MulCoeffsMontgomery(a, b, o) }},
	{name: "MulCoeffsMontgomeryLazy", call: func(r *ring.Ring, a, b, o ring.Poly, _ []uint64) { r.MulCoeffsMontgomeryLazy(a, b, o) }},
	{name: "MulCoeffsMontgomeryLazyThenNeg", call: func(r *ring.Ring, a, b, o ring.Poly, _ []uint64) { r.MulCoeffsMontgomeryLazyThenNeg(a, b, o) }},
	{name: "MulCoeffsMontgomeryThenAdd", call: func(r *ring.Ring, a, b, o ring.Poly, _ []uint64) { r.MulCoeffsMontgomeryThenAdd(a, b, o) }},
	{name: "MulCoeffsMontgomeryThenAddLazy", call: func(r *ring.Ring, a, b, o ring.Poly, _ []uint64) { r.MulCoeffsMontgomeryThenAddLazy(a, b, o) }},
	{name: "MulCoeffsMontgomeryLazyThenAddLazy", call: func(r *ring.Ring, a, b, o ring.Poly, _ []uint64) { r.MulCoeffsMontgomeryLazyThenAddLazy(a, b, o) }},
	{name: "MulCoeffsMontgomeryThenSub", call: func(r *ring.Ring, a, b, o ring.Poly, _ []uint64) { r.MulCoeffsMontgomeryThenSub(a, b, o) }},
	{name: "MulCoeffsMontgomeryThenSubLazy", call: func(r *ring.Ring, a, b, o ring.Poly, _ []uint64) { r.MulCoeffsMontgomeryThenSubLazy(a, b, o) }},
	{name: "MulCoeffsMontgomeryLazyThenSubLazy", call: func(r *ring.Ring, a, b, o ring.Poly, _ []uint64) { r.MulCoeffsMontgomeryLazyThenSubLazy(a, b, o) }},
	{name: "MForm", call: func(r *ring.Ring, a, b, o ring.Poly, _ []uint64) { r.MForm(a, o) }},
	{name: "MFormLazy", call: func(r *ring.Ring, a, b, o ring.Poly, _ []uint64) { r.MFormLazy(a, o) }},
	{name: "IMForm", call: func(r *ring.Ring, a, b, o ring.Poly, _ []uint64) { r.IMForm(a, o) }},
	{name: "MulByVectorMontgomery", vop: "MulCoeffsMontgomery", vec: true, call: func(r *ring.Ring, a, b, o ring.Poly, v []uint64) { r.MulByVectorMontgomery(a, v, o) }},
	{name: "MulByVectorMontgomeryThenAddLazy", vop: "MulCoeffsMontgomeryThenAddLazy", vec: true, call: func(r *ring.Ring, a, b, o ring.Poly, v []uint64) { r.MulByVectorMontgomeryThenAddLazy(a, v, o) }},
}

// polyAt allocates a polynomial with rows+1 rows of n coefficients; row i is filled by fill(i) for i <= level
// and with the sentinel above.
func polyAt(n, rows, level int, fill func(i int) []uint64) ring.Poly {
	p := ring.NewPoly(n, rows)
	for i := range p.Coeffs {
		if i <= level && fill != nil {
			copy(p.Coeffs[i], fill(i))
		} else if i > level {
			for j := range p.Coeffs[i] {
				p.Coeffs[i][j] = sentinel
			}
		}
	}
	return p
}

// guardedPoly returns a polynomial with level+1 rows of n coefficients, each row being the head of a larger
// array whose remaining 16 words hold the sentinel; intact reports whether all of them still do.
func guardedPoly(n, level int, fill func(i int) []uint64) (p ring.Poly, intact func() bool) {
	bufs := make([][]uint64, level+1)
	rows := make([][]uint64, level+1)
	for i := range bufs {
		bufs[i] = make([]uint64, n+16)
		for j := range bufs[i] {
			bufs[i][j] = sentinel
		}
		rows[i] = bufs[i][:n:n]
		copy(rows[i], fill(i))
	}
	return ring.Poly{Coeffs: rows}, func() bool {
		for i := range bufs {
			for _, v := range bufs[i][n:] {
				if v != sentinel {
					return false
				}
			}
		}
		return true
	}
}

func rowsAboveIntact(p ring.Poly, level int) bool {
	for i := level + 1; i < len(p.Coeffs); i++ {
		for _, v := range p.Coeffs[i] {
			if v != sentinel {
				return false
			}
		}
	}
	return true
}

func polyEq(a, b ring.Poly, level int) bool {
	for i := 0; i <= level; i++ {
		if !eqv(a.Coeffs[i], b.Coeffs[i]) {
			return false
		}
	}
	return true
}

func minOf(v []uint64) uint64 {
	m := v[0]
	for _, x := range v {
		if x < m {
			m = x
		}
	}
	return m
}

func runRingX(c *eng.Ctx, rc ringCfg) {
	rfull, err := rc.build()
	if err != nil {
		c.Violate("C01|ring.NewRing|error-on-admissible", fmt.Sprintf("%+v: %v", rc, err), rc)
		return
	}
	rnd := c.Rand()
	n := rfull.N()
	nth := rfull.NthRoot()
	maxL := rfull.MaxLevel()
	allMods := rfull.ModuliChain()
	c.Sample(map[string]any{"kind": "ringx", "ring": rc})
	c.Max("max_rns_moduli", int64(len(allMods)))
	for level := 0; level <= maxL; level++ {
		r := rfull.AtLevel(level)
		mods := allMods[:level+1]
		minq := minOf(mods)
		c.Distinct(fmt.Sprintf("ringx/%s/%d/%v/%d", rc.Type, rc.LogN, rc.Bits, level), true)
		// ---- table operations: exact-level polynomials and over-allocated ones
		for ri := range rops {
			ro := &rops[ri]
			vn := ro.vop
			if vn == "" {
				vn = ro.name
			}
			op := vopByName(vn)
			for _, rows := range []int{level, maxL + 1} {
				pat := eng.Pick(rnd, gen.PatUniform, gen.PatTop, gen.PatLaneTop, gen.PatSmall)
				lane := rnd.N(8)
				a := polyAt(n, rows, level, func(i int) []uint64 { return gen.Vec(rnd, n, op.d1(mods[i]), pat, lane) })
				var b ring.Poly
				var vec []uint64
				if ro.vec {
					// one vector for all rows: inside the domain of every modulus
					vec = gen.Vec(rnd, n, minU(op.d2(minq), minq-1), pat, lane)
				} else if op.d2 != nil {
					b = polyAt(n, rows, level, func(i int) []uint64 { return gen.Vec(rnd, n, op.d2(mods[i]), pat, lane) })
				} else {
					b = polyAt(n, rows, level, nil)
				}
				o := polyAt(n, rows, level, func(i int) []uint64 {
					if op.d3 != nil {
						return gen.Vec(rnd, n, op.d3(mods[i]), pat, lane)
					}
					return gen.Vec(rnd, n, ^uint64(0), gen.PatUniform, 0)
				})
				a0, o0 := *a.CopyNew(), *o.CopyNew()
				var b0 ring.Poly
				if !ro.vec {
					b0 = *b.CopyNew()
				}
				vec0 := append([]uint64(nil), vec...)
				if !c.Try("C01|Ring."+ro.name, func() { ro.call(r, a, b, o, vec) }) {
					continue
				}
				c.Eval(1)
				c.Count("ringx_table_ops", 1)
				if rows > level {
					c.Count("ringx_overallocated_outputs", 1)
				}
				bad := false
				for i := 0; i <= level && !bad; i++ {
					q := mods[i]
					for j := 0; j < n; j++ {
						var bv, cin uint64
						if ro.vec {
							bv = vec0[j]
						} else {
							bv = b0.Coeffs[i][j]
						}
						if op.d3 != nil {
							cin = o0.Coeffs[i][j]
						}
						if !vopOK(op, q, a0.Coeffs[i][j], bv, cin, 0, 0, o.Coeffs[i][j]) {
							c.Violate("C01|Ring."+ro.name+"|wrong-value", fmt.Sprintf("level=%d/%d rows=%d modulus#%d q=%d idx=%d a=%d b=%d c=%d got=%d want=%d (exact=%v range<=%v)",
								level, maxL, rows+1, i, q, j, a0.Coeffs[i][j], bv, cin, o.Coeffs[i][j], op.model(q, a0.Coeffs[i][j], bv, cin, 0, 0), op.exact, rngOf(*op, q)), rc)
							bad = true
							break
						}
					}
				}
				if !rowsAboveIntact(o, level) {
					c.Violate("C01|Ring."+ro.name+"|rows-above-level-modified", fmt.Sprintf("level=%d rows=%d", level, rows+1), rc)
				}
				inOK := a.Equal(&a0)
				if ro.vec {
					inOK = inOK && eqv(vec, vec0)
				} else {
					inOK = inOK && b.Equal(&b0)
				}
				if !inOK {
					c.Violate("C01|Ring."+ro.name+"|input-modified", fmt.Sprintf("level=%d", level), rc)
				}
			}
		}
		newp := func(top func(q uint64) uint64) ring.Poly {
			pat := eng.Pick(rnd, gen.PatUniform, gen.PatTop, gen.PatLaneTop, gen.PatSmall)
			lane := rnd.N(8)
			return polyAt(n, level, level, func(i int) []uint64 { return gen.Vec(rnd, n, top(mods[i]), pat, lane) })
		}
		// generic row-wise judge: congruent to model and <= top(q) (inclusive)
		judge := func(name string, f func(), o ring.Poly, model func(i int, q uint64, j int) uint64, top func(q uint64) uint64, exact bool) {
			if !c.Try("C01|Ring."+name, f) {
				return
			}
			c.Eval(1)
			for i := 0; i <= level; i++ {
				q := mods[i]
				for j := 0; j < n; j++ {
					w := model(i, q, j)
					g := o.Coeffs[i][j]
					if exact && g != w || !exact && (g%q != w%q || g > top(q)) {
						c.Violate("C01|Ring."+name+"|wrong-value", fmt.Sprintf("level=%d/%d modulus#%d q=%d idx=%d got=%d want=%d exact=%v", level, maxL, i, q, j, g, w, exact), rc)
						return
					}
				}
			}
		}
		// ---- RNS scalars (scalar.go)
		{
			v := eng.Pick(rnd, rnd.U64(), ^uint64(0), 0, 1, uint64(1)<<63, minq, minq-1)
			var z, fu ring.RNSScalar
			if c.Try("C01|Ring.NewRNSScalar", func() { z = r.NewRNSScalar(); fu = r.NewRNSScalarFromUInt64(v) }) {
				okz := len(z) == level+1 && len(fu) == level+1
				for i := 0; okz && i <= level; i++ {
					okz = z[i] == 0 && fu[i] == v%mods[i]
				}
				c.Check(okz, "C01|Ring.NewRNSScalarFromUInt64|wrong-value", func() string { return fmt.Sprintf("level=%d v=%d got=%v zero=%v moduli=%v", level, v, fu, z, mods) })
			}
			s1 := make(ring.RNSScalar, level+1)
			s2 := make(ring.RNSScalar, level+1)
			s1l := make(ring.RNSScalar, level+1) // [0,2q-1]
			for i, q := range mods {
				s1[i] = eng.Pick(rnd, rnd.U64()%q, q-1, 0, 1)
				s2[i] = eng.Pick(rnd, rnd.U64()%q, q-1, 0, 1, s1[i])
				s1l[i] = eng.Pick(rnd, rnd.U64()%(2*q), 2*q-1, q, s1[i])
			}
			s10, s20, s1l0 := append(ring.RNSScalar(nil), s1...), append(ring.RNSScalar(nil), s2...), append(ring.RNSScalar(nil), s1l...)
			so := r.NewRNSScalar()
			chkS := func(name string, f func(), out ring.RNSScalar, model func(i int, q uint64) uint64, top func(q uint64) uint64) {
				if !c.Try("C01|Ring."+name, f) {
					return
				}
				c.Count("rns_scalar_ops", 1)
				ok := len(out) >= level+1
				for i := 0; ok && i <= level; i++ {
					q := mods[i]
					ok = out[i]%q == model(i, q)%q && out[i] <= top(q)
				}
				c.Check(ok, "C01|Ring."+name+"|wrong-value", func() string {
					return fmt.Sprintf("level=%d moduli=%v s1=%v s1lazy=%v s2=%v got=%v", level, mods, s10, s1l0, s20, out)
				})
			}
			chkS("MFormRNSScalar", func() { r.MFormRNSScalar(s1, so) }, so, func(i int, q uint64) uint64 { return ref.MulMod(s10[i], ref.TwoTo64Mod(q), q) }, rQ)
			so = r.NewRNSScalar()
			chkS("NegRNSScalar", func() { r.NegRNSScalar(s1, so) }, so, func(i int, q uint64) uint64 { return ref.NegMod(s10[i], q) }, rLeQ)
			so = r.NewRNSScalar()
			chkS("SubRNSScalar", func() { r.SubRNSScalar(s1, s2, so) }, so, func(i int, q uint64) uint64 { return ref.SubMod(s10[i], s20[i], q) }, rQ)
			so = r.NewRNSScalar()
			chkS("MulRNSScalar", func() { r.MulRNSScalar(s1l, s2, so) }, so, func(i int, q uint64) uint64 { return mred(s1l0[i], s20[i], q) }, r2Q1)
			c.Check(eqv(s1, s10) && eqv(s2, s20) && eqv(s1l, s1l0), "C01|Ring.*RNSScalar|input-modified", nil)
			// in place (as multiparty.Combiner uses them)
			t := append(ring.RNSScalar(nil), s1...)
			chkS("SubRNSScalar", func() { r.SubRNSScalar(t, s2, t) }, t, func(i int, q uint64) uint64 { return ref.SubMod(s10[i], s20[i], q) }, rQ)
			t2 := append(ring.RNSScalar(nil), s1l...)
			chkS("MulRNSScalar", func() { r.MulRNSScalar(t2, s2, t2) }, t2, func(i int, q uint64) uint64 { return mred(s1l0[i], s20[i], q) }, r2Q1)
			// Inverse: a*R -> a^-1*R (Montgomery form in, Montgomery form out), a != 0
			inv := make(ring.RNSScalar, level+1)
			av := make([]uint64, level+1)
			for i, q := range mods {
				av[i] = eng.Pick(rnd, 1+rnd.U64()%(q-1), q-1, 1, 2)
				inv[i] = ref.MulMod(av[i], ref.TwoTo64Mod(q), q)
			}
			chkS("Inverse", func() { r.Inverse(inv) }, inv, func(i int, q uint64) uint64 { return ref.MulMod(ref.InvMod(av[i], q), ref.TwoTo64Mod(q), q) }, rQ)
		}
		// ---- double RNS scalars: first half / second half of the coefficient vector. Rows live inside larger
		// arrays with guard words behind them: the kernels work on windows of 8 words and the halves of a
		// degree-8 ring have 4.
		{
			sfx := ""
			if n < 16 {
				sfx = "|N=8-half-row-shorter-than-kernel-window"
			}
			a, ga := guardedPoly(n, level, func(i int) []uint64 {
				return gen.Vec(rnd, n, mods[i]-1, eng.Pick(rnd, gen.PatUniform, gen.PatTop, gen.PatLaneTop), rnd.N(8))
			})
			a0 := *a.CopyNew()
			sc0, sc1 := r.NewRNSScalar(), r.NewRNSScalar()
			for i, q := range mods {
				sc0[i] = eng.Pick(rnd, rnd.U64()%q, q-1, 0, 1)
				sc1[i] = eng.Pick(rnd, rnd.U64()%q, q-1, 0, 1)
			}
			sel := func(i, j int) uint64 {
				if j < n/2 {
					return sc0[i]
				}
				return sc1[i]
			}
			dbl := func(name string, call func(o ring.Poly), accum bool, model func(q, x, s, acc uint64) uint64) {
				o, g := guardedPoly(n, level, func(i int) []uint64 {
					if accum {
						return gen.Vec(rnd, n, mods[i]-1, gen.PatUniform, 0)
					}
					return gen.Vec(rnd, n, ^uint64(0), gen.PatUniform, 0)
				})
				o0 := *o.CopyNew()
				if !c.Try("C01|Ring."+name, func() { call(o) }) {
					return
				}
				c.Eval(1)
				c.Count("double_rns_scalar_ops", 1)
				if !g() || !ga() {
					c.Violate("C01|Ring."+name+"|write-outside-row"+sfx, fmt.Sprintf("N=%d level=%d: words behind the row of the output (or input) were overwritten", n, level), rc)
				}
				for i := 0; i <= level; i++ {
					q := mods[i]
					for j := 0; j < n; j++ {
						w := model(q, a0.Coeffs[i][j], sel(i, j), o0.Coeffs[i][j])
						if got := o.Coeffs[i][j]; got%q != w || got >= q {
							c.Violate("C01|Ring."+name+"|wrong-value"+sfx, fmt.Sprintf("N=%d level=%d modulus#%d q=%d idx=%d a=%d scalar=%d acc=%d got=%d want=%d", n, level, i, q, j, a0.Coeffs[i][j], sel(i, j), o0.Coeffs[i][j], got, w), rc)
							return
						}
					}
				}
			}
			dbl("AddDoubleRNSScalar", func(o ring.Poly) { r.AddDoubleRNSScalar(a, sc0, sc1, o) }, false, func(q, x, s, _ uint64) uint64 { return ref.AddMod(x, s, q) })
			dbl("SubDoubleRNSScalar", func(o ring.Poly) { r.SubDoubleRNSScalar(a, sc0, sc1, o) }, false, func(q, x, s, _ uint64) uint64 { return ref.SubMod(x, s, q) })
			dbl("MulDoubleRNSScalar", func(o ring.Poly) { r.MulDoubleRNSScalar(a, sc0, sc1, o) }, false, func(q, x, s, _ uint64) uint64 { return ref.MulMod(x, s, q) })
			dbl("MulDoubleRNSScalarThenAdd", func(o ring.Poly) { r.MulDoubleRNSScalarThenAdd(a, sc0, sc1, o) }, true, func(q, x, s, acc uint64) uint64 { return ref.AddMod(acc, ref.MulMod(x, s, q), q) })
			c.Check(a.Equal(&a0), "C01|Ring.*DoubleRNSScalar|input-modified"+sfx, nil)
		}
		// ---- EvalPolyScalar: Horner evaluation of a polynomial with ring-element coefficients at a uint64 point
		{
			deg := 1 + rnd.N(4)
			ps := make([]ring.Poly, deg)
			ps0 := make([]ring.Poly, deg)
			for k := range ps {
				ps[k] = newp(dQ)
				ps0[k] = *ps[k].CopyNew()
			}
			pt := eng.Pick(rnd, rnd.U64(), ^uint64(0), 0, 1, 2, minq-1, minq)
			o := polyAt(n, level, level, func(int) []uint64 { return gen.Vec(rnd, n, ^uint64(0), gen.PatUniform, 0) })
			judge("EvalPolyScalar", func() { r.EvalPolyScalar(ps, pt, o) }, o, func(i int, q uint64, j int) uint64 {
				var acc uint64
				for k := deg - 1; k >= 0; k-- {
					acc = ref.AddMod(ref.MulMod(acc, pt, q), ps0[k].Coeffs[i][j], q)
				}
				return acc
			}, rLeQ, false)
			okIn := true
			for k := range ps {
				okIn = okIn && ps[k].Equal(&ps0[k])
			}
			c.Check(okIn, "C01|Ring.EvalPolyScalar|input-modified", nil)
			c.Count("evalpolyscalar_terms", int64(deg))
		}
		// ---- Shift: cyclic left rotation of the coefficient vector by k
		for _, k := range []int{0, 1, -1, n - 1, n, n + 1, -n, 3*n + 2, rnd.N(8*n) - 4*n} {
			a := newp(dQ)
			a0 := *a.CopyNew()
			o := polyAt(n, level, level, nil)
			kk := k
			judge("Shift", func() { r.Shift(a, kk, o) }, o, func(i int, q uint64, j int) uint64 { return a0.Coeffs[i][((j+kk)%n+n)%n] }, nil, true)
			c.Check(a.Equal(&a0), "C01|Ring.Shift|input-modified", nil)
		}
		// ---- MultByMonomial on exact-level polynomials (temporary of the method is level-sized)
		if rc.Type == "std" {
			for _, k := range []int{1, n, -1, -2*n - 1, 3*n + 1, rnd.N(8*n) - 4*n} {
				a := newp(dQ)
				a0 := *a.CopyNew()
				o := polyAt(n, maxL+1, level, nil)
				kk := k
				judge("MultByMonomial", func() { r.MultByMonomial(a, kk, o) }, o, func(i int, q uint64, j int) uint64 { return ref.MonomialMul(a0.Coeffs[i], kk, q)[j] }, rLeQ, false)
				c.Check(rowsAboveIntact(o, level), "C01|Ring.MultByMonomial|rows-above-level-modified", nil)
			}
		}
		// ---- automorphisms on several rows at once
		{
			gs := []uint64{1, 3, 5, nth - 1, nth - 3, nth/2 + 1, (rnd.U64() % nth) | 1, (rnd.U64() % nth) | 1}
			gs = append(gs, gs[rnd.N(len(gs))]+nth*(1+rnd.U64()%(1<<30)))
			for _, g := range gs {
				a := newp(dQ)
				a0 := *a.CopyNew()
				want := make([][]uint64, level+1)
				for i := range want {
					want[i] = modelAut(rc.Type, a0.Coeffs[i], g, mods[i])
				}
				o := polyAt(n, maxL+1, level, nil)
				judge("Automorphism", func() { r.Automorphism(a, g, o) }, o, func(i int, q uint64, j int) uint64 { return want[i][j] }, rLeQ, false)
				c.Check(rowsAboveIntact(o, level), "C01|Ring.Automorphism|rows-above-level-modified", nil)
				c.Count("ringx_automorphisms", 1)
				if rc.Type == "ci" && g&3 != 1 {
					continue
				}
				na := polyAt(n, level, level, nil)
				r.NTT(a, na)
				na0 := *na.CopyNew()
				no := polyAt(n, maxL+1, level, nil)
				if c.Try("C01|Ring.AutomorphismNTT", func() { r.AutomorphismNTT(na, g, no) }) {
					c.Check(rowsAboveIntact(no, level), "C01|Ring.AutomorphismNTT|rows-above-level-modified", nil)
					back := polyAt(n, level, level, nil)
					r.INTT(no, back)
					judge("AutomorphismNTT", func() {}, back, func(i int, q uint64, j int) uint64 { return want[i][j] }, rQ, true)
					idx, err := ring.AutomorphismNTTIndex(n, nth, g)
					if err != nil {
						c.Violate("C01|ring.AutomorphismNTTIndex|error", err.Error(), nil)
						continue
					}
					wi := polyAt(n, level, level, nil)
					if c.Try("C01|Ring.AutomorphismNTTWithIndex", func() { r.AutomorphismNTTWithIndex(na, idx, wi) }) {
						c.Check(polyEq(wi, no, level), "C01|Ring.AutomorphismNTTWithIndex|wrong-value", nil)
					}
					acc := newp(d2Q)
					acc0 := *acc.CopyNew()
					judge("AutomorphismNTTWithIndexThenAddLazy", func() { r.AutomorphismNTTWithIndexThenAddLazy(na, idx, acc) }, acc,
						func(i int, q uint64, j int) uint64 { return acc0.Coeffs[i][j] + no.Coeffs[i][j] }, nil, true)
					c.Check(na.Equal(&na0), "C01|Ring.AutomorphismNTT|input-modified", nil)
				}
			}
		}
		// ---- Ring-level lazy transforms and in-place transforms
		{
			a := newp(eng.Pick(rnd, dQ, d2Q))
			a0 := *a.CopyNew()
			ref1 := polyAt(n, level, level, nil)
			r.NTT(a, ref1) // judged by the ntt / ring families
			o := polyAt(n, maxL+1, level, nil)
			judge("NTTLazy", func() { r.NTTLazy(a, o) }, o, func(i int, q uint64, j int) uint64 { return ref1.Coeffs[i][j] }, func(q uint64) uint64 { return 6*q - 2 }, false)
			c.Check(rowsAboveIntact(o, level), "C01|Ring.NTTLazy|rows-above-level-modified", nil)
			o2 := polyAt(n, maxL+1, level, nil)
			judge("INTTLazy", func() { r.INTTLazy(ref1, o2) }, o2, func(i int, q uint64, j int) uint64 { return a0.Coeffs[i][j] }, r2Q1, false)
			c.Check(rowsAboveIntact(o2, level), "C01|Ring.INTTLazy|rows-above-level-modified", nil)
			// in place: p2 = p1
			ip := *a0.CopyNew()
			judge("NTT", func() { r.NTT(ip, ip) }, ip, func(i int, q uint64, j int) uint64 { return ref1.Coeffs[i][j] }, nil, true)
			judge("INTT", func() { r.INTT(ip, ip) }, ip, func(i int, q uint64, j int) uint64 { return a0.Coeffs[i][j] % mods[i] }, nil, true)
			ip = *a0.CopyNew()
			judge("NTTLazy", func() { r.NTTLazy(ip, ip) }, ip, func(i int, q uint64, j int) uint64 { return ref1.Coeffs[i][j] }, func(q uint64) uint64 { return 6*q - 2 }, false)
			ip = *ref1.CopyNew()
			judge("INTTLazy", func() { r.INTTLazy(ip, ip) }, ip, func(i int, q uint64, j int) uint64 { return a0.Coeffs[i][j] }, r2Q1, false)
			c.Count("ringx_inplace_transforms", 4)
		}
	}
	runDimSwitch(c, rc, rfull)
	runFoldUnfold(c, rc, rfull)
}

// runDimSwitch: MapSmallDimensionToLargerDimensionNTT maps a(Y), Y = X^{N/n}, given in the NTT domain of
// the ring of degree n, to a(X^{N/n}) in the NTT domain of the ring of degree N (same moduli).
func runDimSwitch(c *eng.Ctx, rc ringCfg, large *ring.Ring) {
	N := large.N()
	rnd := c.Rand()
	t := ring.Standard
	if rc.Type == "ci" {
		t = ring.ConjugateInvariant
	}
	for gap := 2; N/gap >= 8 && gap <= 8; gap <<= 1 {
		n := N / gap
		small, err := ring.NewRingFromType(n, rc.Moduli, t)
		if err != nil {
			c.Violate("C01|ring.NewRing|error-on-admissible", fmt.Sprintf("N=%d moduli=%v: %v", n, rc.Moduli, err), rc)
			return
		}
		maxL := large.MaxLevel()
		ls, ll := rnd.N(maxL+1), rnd.N(maxL+1)
		lm := ls
		if ll < lm {
			lm = ll
		}
		mods := large.ModuliChain()
		a := polyAt(n, ls, ls, func(i int) []uint64 {
			return gen.Vec(rnd, n, mods[i]-1, eng.Pick(rnd, gen.PatUniform, gen.PatTop, gen.PatOneHot), rnd.N(n))
		})
		na := polyAt(n, ls, ls, nil)
		small.AtLevel(ls).NTT(a, na)
		na0 := *na.CopyNew()
		out := polyAt(N, ll, lm, func(int) []uint64 { return gen.Vec(rnd, N, ^uint64(0), gen.PatUniform, 0) })
		c.Distinct(fmt.Sprintf("dimswitch/%s/%d/%d/%v", rc.Type, rc.LogN, gap, rc.Bits), true)
		if !c.Try("C01|ring.MapSmallDimensionToLargerDimensionNTT", func() { ring.MapSmallDimensionToLargerDimensionNTT(na, out) }) {
			continue
		}
		c.Count("dimension_switches", 1)
		ok := rowsAboveIntact(out, lm) && na.Equal(&na0)
		back := polyAt(N, lm, lm, nil)
		large.AtLevel(lm).INTT(polyAt(N, lm, lm, func(i int) []uint64 { return out.Coeffs[i] }), back)
		for i := 0; ok && i <= lm; i++ {
			for j := 0; j < N; j++ {
				var w uint64
				if j%gap == 0 {
					w = a.Coeffs[i][j/gap]
				}
				if back.Coeffs[i][j] != w {
					ok = false
					break
				}
			}
		}
		c.Check(ok, "C01|ring.MapSmallDimensionToLargerDimensionNTT|wrong-value", func() string {
			return fmt.Sprintf("type=%s N=%d n=%d levelSmall=%d levelLarge=%d moduli=%v", rc.Type, N, n, ls, ll, mods)
		})
	}
}

// runFoldUnfold: conjugate_invariant.go plus Ring.StandardRing / Ring.ConjugateInvariantRing.
//
//	U(p) = p_0 + sum_{0<i<N} p_i (X^i - X^{2N-i})               (UnfoldConjugateInvariantToStandard, NTT domain)
//	F(b) = first N coefficients of b(X) + b(X^-1)                (FoldStandardToConjugateInvariant, NTT domain)
func runFoldUnfold(c *eng.Ctx, rc ringCfg, rfull *ring.Ring) {
	rnd := c.Rand()
	var ci, std *ring.Ring
	var err error
	if rc.Type == "ci" {
		ci = rfull
		if !c.Try("C01|Ring.StandardRing", func() { std, err = rfull.StandardRing() }) {
			return
		}
	} else {
		if rfull.N() < 16 {
			return
		}
		std = rfull
		if !c.Try("C01|Ring.ConjugateInvariantRing", func() { ci, err = rfull.ConjugateInvariantRing() }) {
			return
		}
	}
	if err != nil {
		c.Violate("C01|Ring.StandardRing|error-on-admissible", err.Error(), rc)
		return
	}
	N := ci.N()
	c.Check(std.N() == 2*N && std.NthRoot() == ci.NthRoot() && ci.Type() == ring.ConjugateInvariant && std.Type() == ring.Standard && std.MaxLevel() == ci.MaxLevel(),
		"C01|Ring.StandardRing|wrong-shape", func() string {
			return fmt.Sprintf("std N=%d nth=%d ci N=%d nth=%d", std.N(), std.NthRoot(), ci.N(), ci.NthRoot())
		})
	mods := rfull.ModuliChain()
	// the derived ring multiplies correctly (its NTT tables were generated from the receiver's factor lists)
	{
		der, typ := std, "std"
		if rc.Type == "std" {
			der, typ = ci, "ci"
		}
		dn := der.N()
		if dn <= 128 {
			a := polyAt(dn, der.MaxLevel(), der.MaxLevel(), func(i int) []uint64 { return gen.Vec(rnd, dn, mods[i]-1, gen.PatUniform, 0) })
			b := polyAt(dn, der.MaxLevel(), der.MaxLevel(), func(i int) []uint64 { return gen.Vec(rnd, dn, mods[i]-1, eng.Pick(rnd, gen.PatUniform, gen.PatTop), 0) })
			na, nb, np := der.NewPoly(), der.NewPoly(), der.NewPoly()
			if c.Try("C01|Ring.NTT", func() {
				der.NTT(a, na)
				der.NTT(b, nb)
				der.MForm(nb, nb)
				der.MulCoeffsMontgomery(na, nb, np)
				der.INTT(np, np)
			}) {
				ok := true
				for i := range mods {
					ok = ok && eqv(np.Coeffs[i], modelMul(typ, a.Coeffs[i], b.Coeffs[i], mods[i]))
				}
				c.Check(ok, "C01|Ring.StandardRing|derived-ring-NTT-convolution-wrong", func() string { return fmt.Sprintf("derived type=%s N=%d moduli=%v", typ, dn, mods) })
				c.Count("derived_rings", 1)
			}
		}
	}
	idx, err := ring.AutomorphismNTTIndex(std.N(), std.NthRoot(), std.NthRoot()-1)
	if err != nil {
		c.Violate("C01|ring.AutomorphismNTTIndex|error", err.Error(), nil)
		return
	}
	for level := 0; level <= ci.MaxLevel(); level++ {
		c.Distinct(fmt.Sprintf("foldunfold/%s/%d/%v/%d", rc.Type, rc.LogN, rc.Bits, level), true)
		cil, stdl := ci.AtLevel(level), std.AtLevel(level)
		// Unfold
		p := polyAt(N, level, level, func(i int) []uint64 {
			return gen.Vec(rnd, N, mods[i]-1, eng.Pick(rnd, gen.PatUniform, gen.PatTop, gen.PatOneHot), rnd.N(N))
		})
		np := polyAt(N, level, level, nil)
		cil.NTT(p, np)
		np0 := *np.CopyNew()
		out := polyAt(2*N, ci.MaxLevel()+1, level, nil)
		if c.Try("C01|Ring.UnfoldConjugateInvariantToStandard", func() { stdl.UnfoldConjugateInvariantToStandard(np, out) }) {
			ok := rowsAboveIntact(out, level) && np.Equal(&np0)
			u := polyAt(2*N, level, level, func(i int) []uint64 {
				q := mods[i]
				v := make([]uint64, 2*N)
				v[0] = p.Coeffs[i][0]
				for j := 1; j < N; j++ {
					v[j] = p.Coeffs[i][j]
					v[2*N-j] = ref.NegMod(p.Coeffs[i][j], q)
				}
				return v
			})
			nu := polyAt(2*N, level, level, nil)
			stdl.NTT(u, nu)
			ok = ok && polyEq(out, nu, level)
			c.Check(ok, "C01|Ring.UnfoldConjugateInvariantToStandard|wrong-value", func() string { return fmt.Sprintf("N=%d level=%d moduli=%v", N, level, mods[:level+1]) })
			c.Count("fold_unfold", 1)
		}
		// Fold
		b := polyAt(2*N, level, level, func(i int) []uint64 {
			return gen.Vec(rnd, 2*N, mods[i]-1, eng.Pick(rnd, gen.PatUniform, gen.PatTop, gen.PatOneHot), rnd.N(2*N))
		})
		nb := polyAt(2*N, level, level, nil)
		stdl.NTT(b, nb)
		nb0 := *nb.CopyNew()
		fo := polyAt(N, ci.MaxLevel()+1, level, func(int) []uint64 { return gen.Vec(rnd, N, ^uint64(0), gen.PatUniform, 0) })
		if c.Try("C01|Ring.FoldStandardToConjugateInvariant", func() { cil.FoldStandardToConjugateInvariant(nb, idx, fo) }) {
			ok := rowsAboveIntact(fo, level) && nb.Equal(&nb0)
			back := polyAt(N, level, level, nil)
			cil.INTT(polyAt(N, level, level, func(i int) []uint64 { return fo.Coeffs[i] }), back)
			for i := 0; ok && i <= level; i++ {
				q := mods[i]
				for j := 0; j < N; j++ {
					var w uint64
					if j == 0 {
						w = ref.AddMod(b.Coeffs[i][0], b.Coeffs[i][0], q)
					} else {
						w = ref.SubMod(b.Coeffs[i][j], b.Coeffs[i][2*N-j], q)
					}
					if back.Coeffs[i][j] != w || fo.Coeffs[i][j] >= q {
						ok = false
						break
					}
				}
			}
			c.Check(ok, "C01|Ring.FoldStandardToConjugateInvariant|wrong-value", func() string { return fmt.Sprintf("N=%d level=%d moduli=%v", N, level, mods[:level+1]) })
			c.Count("fold_unfold", 1)
		}
	}
}
