package c01

// family "quot": operands at the boundary of the quotient estimate of the modular multiplications.
//
// Barrett and Montgomery products estimate a quotient and correct it with one conditional
// subtraction; the estimate is at its worst when the exact product is a multiple of q plus a tiny
// residue (the true quotient is an integer plus almost nothing, every truncated partial product
// can push the estimate below it) while the operands, and with them the dropped low-order partial
// products, are as large as the documented domain allows. Random operands meet that corner with
// probability ~2^-20 per lane, boundary patterns (q-1, 2q-1, ...) never. Here every lane is such a
// pair: a is drawn from the top sixteenth of its domain and b = r * a^-1 (Barrett flavours) or
// b = r * 2^64 * a^-1 (Montgomery flavours) for the tiny residues r = 1..64, so that the exact
// result of every lane is r. The primes are the usual (bit size, position) classes; the classes
// "just above 2^(b-1)" have Barrett constants whose low word is next to 2^64.

import (
	"fmt"
	"strings"

	"github.com/tuneinsight/lattigo/v6/ring"

	"verif/harness/eng"
	"verif/harness/ref"
)

// quotPairs returns L lanes (a, b) with a in the top sixteenth of [0, top1], b <= top2, and
// a*b*f = r (mod q) for r = 1 + (lane mod 64), where f = 1 (mont=false) or 2^-64 (mont=true).
func quotPairs(rnd *eng.Rand, q uint64, L int, top1, top2 uint64, mont bool) (a, b []uint64) {
	a = make([]uint64, L)
	b = make([]uint64, L)
	R := ref.TwoTo64Mod(q)
	for base := 0; base < L; base += 64 {
		var x uint64
		for {
			x = top1 - rnd.U64()%(top1/16+1)
			if x%q != 0 {
				break
			}
		}
		inv := ref.InvMod(x%q, q)
		if mont {
			inv = ref.MulMod(inv, R, q)
		}
		// b_r = r * inv mod q, lifted towards the top of its domain (same residue)
		lift := uint64(0)
		if top2 >= q {
			lift = (top2 - (q - 1)) / q * q
		}
		acc := uint64(0)
		for r := 0; r < 64 && base+r < L; r++ {
			acc = ref.AddMod(acc, inv, q)
			a[base+r] = x
			b[base+r] = acc
			if lift > 0 && rnd.N(2) == 0 {
				b[base+r] += lift
			}
		}
	}
	return
}

func runQuot(c *eng.Ctx, rc ringCfg) {
	r, err := rc.build()
	if err != nil {
		c.Violate("C01|ring.NewRing|error-on-admissible", fmt.Sprintf("%v: %v", rc, err), rc)
		return
	}
	s := r.SubRings[0]
	q := s.Modulus
	rnd := c.Rand()
	L := 1 << 15
	c.Sample(map[string]any{"kind": "quot", "ring": rc, "lanes": L})
	brc, mrc := s.BRedConstant, s.MRedConstant
	// scalar reductions called directly
	type bin struct {
		name string
		mont bool
		top1 uint64
		f    func(x, y uint64) uint64
		top  uint64
	}
	for _, f := range []bin{
		{"BRed", false, q - 1, func(x, y uint64) uint64 { return ring.BRed(x, y, q, brc) }, q - 1},
		{"BRedLazy", false, q - 1, func(x, y uint64) uint64 { return ring.BRedLazy(x, y, q, brc) }, 2*q - 1},
		{"MRed", true, 2*q - 1, func(x, y uint64) uint64 { return ring.MRed(x, y, q, mrc) }, q - 1},
		{"MRedLazy", true, 2*q - 1, func(x, y uint64) uint64 { return ring.MRedLazy(x, y, q, mrc) }, 2*q - 1},
	} {
		f := f
		a, b := quotPairs(rnd, q, L, f.top1, q-1, f.mont)
		c.Distinct(fmt.Sprintf("quot/%s/%d/%d", f.name, rc.Bits[0], rc.Pos), true)
		for i := range a {
			x, y := a[i], b[i]
			var got uint64
			if !c.Try("C01|ring."+f.name, func() { got = f.f(x, y) }) {
				break
			}
			want := uint64(1 + i%64)
			if !c.Check(got%q == want%q && got <= f.top, "C01|ring."+f.name+"|wrong-value", func() string {
				return fmt.Sprintf("q=%d (%d bits, pos %d) x=%d y=%d got=%d want=%d (mod q) range<=%d [tiny-residue product]", q, ref.BitLen(q), rc.Pos, x, y, got, want%q, f.top)
			}) {
				break
			}
		}
		c.Count("quotient_boundary_pairs", int64(L))
	}
	// vector kernels: every coefficient-wise product of the table, operands in their documented domains
	for oi := range vops {
		op := &vops[oi]
		if op.d2 == nil || op.nscal > 0 || !strings.HasPrefix(op.name, "MulCoeffs") || strings.HasPrefix(op.name, "MulCoeffsLazy") {
			continue
		}
		mont := strings.Contains(op.name, "Montgomery")
		a, b := quotPairs(rnd, q, L, op.d1(q), op.d2(q), mont)
		var c0 []uint64
		out := make([]uint64, L)
		if op.d3 != nil {
			top3 := op.d3(q)
			c0 = make([]uint64, L)
			for i := range c0 {
				c0[i] = eng.Pick(rnd, top3, top3-uint64(rnd.N(64)), rnd.U64()%(top3+1), 0)
			}
			copy(out, c0)
		} else {
			for i := range out {
				out[i] = rnd.U64()
			}
		}
		c.Distinct(fmt.Sprintf("quot/%s/%d/%d", op.name, rc.Bits[0], rc.Pos), true)
		if !c.Try("C01|SubRing."+op.name, func() { op.call(s, a, b, out, 0, 0) }) {
			continue
		}
		c.Eval(1)
		c.Count("quotient_boundary_pairs", int64(L))
		for j := 0; j < L; j++ {
			var cin uint64
			if c0 != nil {
				cin = c0[j]
			}
			if !vopOK(op, q, a[j], b[j], cin, 0, 0, out[j]) {
				c.Violate("C01|SubRing."+op.name+"|wrong-value", fmt.Sprintf("tiny-residue product: q=%d (%d bits, pos %d) idx=%d a=%d b=%d c=%d got=%d want=%d (exact=%v, range<=%v)",
					q, ref.BitLen(q), rc.Pos, j, a[j], b[j], cin, out[j], op.model(q, a[j], b[j], cin, 0, 0), op.exact, rngOf(*op, q)), rc)
				break
			}
		}
	}
}
