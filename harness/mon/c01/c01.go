// Package c01: RNS ring arithmetic equals exact arithmetic in Z_Q[X]/(X^N+1).
//
// Oracle: every SubRing / Ring / ringqp.Ring operation is run on pattern-generated inputs and
// each output lane is compared with an exact model (128-bit products + hardware division, naive
// O(N^2) negacyclic products, coefficient-domain automorphism maps). Ranges are checked only where
// the operation documents one.
package c01

import (
	"fmt"
	"math"
	"math/big"

	"github.com/tuneinsight/lattigo/v6/ring"
	"github.com/tuneinsight/lattigo/v6/ring/ringqp"

	"verif/harness/eng"
	"verif/harness/gen"
	"verif/harness/ref"
)

// domain upper bounds (inclusive) as function of q
func dQ(q uint64) uint64   { return q - 1 }   // [0,q)
func d2Q(q uint64) uint64  { return 2*q - 1 } // lazy range
func dAny(q uint64) uint64 { return ^uint64(0) }
func d32(q uint64) uint64  { return 1<<32 - 1 }

type vop struct {
	name       string
	d1, d2, d3 func(q uint64) uint64 // nil = unused (d3 = initial content of the output when it is an accumulator)
	nscal      int
	scalDom    func(q uint64) uint64
	call       func(s *ring.SubRing, p1, p2, p3 []uint64, s0, s1 uint64)
	// model returns the exact expected value; if exact is true the output must equal it as an
	// integer, otherwise it must be congruent mod q and <= rng(q) when rng != nil.
	model func(q, a, b, c, s0, s1 uint64) uint64
	exact bool
	rng   func(q uint64) uint64
}

func minv(q uint64) uint64 { return ref.InvMod(ref.TwoTo64Mod(q), q) } // (2^64)^-1 mod q

// mred model: x*y*2^-64 mod q
func mred(x, y, q uint64) uint64 { return ref.MulMod(ref.MulMod(x, y, q), minv(q), q) }

var rQ = func(q uint64) uint64 { return q - 1 }
var r2Q1 = func(q uint64) uint64 { return 2*q - 1 }
var r2Q2 = func(q uint64) uint64 { return 2*q - 2 }
var r3Q2 = func(q uint64) uint64 { return 3*q - 2 }
var rLeQ = func(q uint64) uint64 { return q }

var vops = []vop{
	{name: "Add", d1: dQ, d2: dQ, call: func(s *ring.SubRing, a, b, c []uint64, _, _ uint64) { s.Add(a, b, c) },
		model: func(q, a, b, c, _, _ uint64) uint64 { return ref.AddMod(a, b, q) }, rng: rQ},
	{name: "AddLazy", d1: d2Q, d2: d2Q, call: func(s *ring.SubRing, a, b, c []uint64, _, _ uint64) { s.AddLazy(a, b, c) },
		model: func(q, a, b, c, _, _ uint64) uint64 { return a + b }, exact: true},
	{name: "Sub", d1: dQ, d2: dQ, call: func(s *ring.SubRing, a, b, c []uint64, _, _ uint64) { s.Sub(a, b, c) },
		model: func(q, a, b, c, _, _ uint64) uint64 { return ref.SubMod(a, b, q) }, rng: rQ},
	{name: "SubLazy", d1: d2Q, d2: dQ, call: func(s *ring.SubRing, a, b, c []uint64, _, _ uint64) { s.SubLazy(a, b, c) },
		model: func(q, a, b, c, _, _ uint64) uint64 { return a + q - b }, exact: true},
	{name: "Neg", d1: dQ, call: func(s *ring.SubRing, a, b, c []uint64, _, _ uint64) { s.Neg(a, c) },
		model: func(q, a, b, c, _, _ uint64) uint64 { return ref.NegMod(a, q) }, rng: rLeQ},
	{name: "Reduce", d1: dAny, call: func(s *ring.SubRing, a, b, c []uint64, _, _ uint64) { s.Reduce(a, c) },
		model: func(q, a, b, c, _, _ uint64) uint64 { return a % q }, rng: rQ},
	{name: "ReduceLazy", d1: dAny, call: func(s *ring.SubRing, a, b, c []uint64, _, _ uint64) { s.ReduceLazy(a, c) },
		model: func(q, a, b, c, _, _ uint64) uint64 { return a % q }, rng: r2Q1},
	{name: "MulCoeffsLazy", d1: d32, d2: d32, call: func(s *ring.SubRing, a, b, c []uint64, _, _ uint64) { s.MulCoeffsLazy(a, b, c) },
		model: func(q, a, b, c, _, _ uint64) uint64 { return a * b }, exact: true},
	{name: "MulCoeffsLazyThenAddLazy", d1: d32, d2: func(uint64) uint64 { return 1<<31 - 1 }, d3: func(uint64) uint64 { return 1<<62 - 1 },
		call:  func(s *ring.SubRing, a, b, c []uint64, _, _ uint64) { s.MulCoeffsLazyThenAddLazy(a, b, c) },
		model: func(q, a, b, c, _, _ uint64) uint64 { return c + a*b }, exact: true},
	{name: "MulCoeffsBarrett", d1: dQ, d2: dQ, call: func(s *ring.SubRing, a, b, c []uint64, _, _ uint64) { s.MulCoeffsBarrett(a, b, c) },
		model: func(q, a, b, c, _, _ uint64) uint64 { return ref.MulMod(a, b, q) }, rng: rQ},
	{name: "MulCoeffsBarrettLazy", d1: dQ, d2: dQ, call: func(s *ring.SubRing, a, b, c []uint64, _, _ uint64) { s.MulCoeffsBarrettLazy(a, b, c) },
		model: func(q, a, b, c, _, _ uint64) uint64 { return ref.MulMod(a, b, q) }, rng: r2Q1},
	{name: "MulCoeffsBarrettThenAdd", d1: dQ, d2: dQ, d3: dQ, call: func(s *ring.SubRing, a, b, c []uint64, _, _ uint64) { s.MulCoeffsBarrettThenAdd(a, b, c) },
		model: func(q, a, b, c, _, _ uint64) uint64 { return ref.AddMod(c, ref.MulMod(a, b, q), q) }, rng: rQ},
	{name: "MulCoeffsBarrettThenAddLazy", d1: dQ, d2: dQ, d3: d2Q, call: func(s *ring.SubRing, a, b, c []uint64, _, _ uint64) { s.MulCoeffsBarrettThenAddLazy(a, b, c) },
		model: func(q, a, b, c, _, _ uint64) uint64 { return c + ref.MulMod(a, b, q) }, exact: true},
	{name: "MulCoeffsMontgomery", d1: dQ, d2: dQ, call: func(s *ring.SubRing, a, b, c []uint64, _, _ uint64) { s.MulCoeffsMontgomery(a, b, c) },
		model: func(q, a, b, c, _, _ uint64) uint64 { return mred(a, b, q) }, rng: rQ},
	{name: "MulCoeffsMontgomery/lazyfed", d1: d2Q, d2: dQ, call: func(s *ring.SubRing, a, b, c []uint64, _, _ uint64) { s.MulCoeffsMontgomery(a, b, c) },
		model: func(q, a, b, c, _, _ uint64) uint64 { return mred(a, b, q) }, rng: rQ},
	{name: "MulCoeffsMontgomeryLazy", d1: dQ, d2: dQ, call: func(s *ring.SubRing, a, b, c []uint64, _, _ uint64) { s.MulCoeffsMontgomeryLazy(a, b, c) },
		model: func(q, a, b, c, _, _ uint64) uint64 { return mred(a, b, q) }, rng: r2Q1},
	{name: "MulCoeffsMontgomeryLazy/lazyfed", d1: d2Q, d2: dQ, call: func(s *ring.SubRing, a, b, c []uint64, _, _ uint64) { s.MulCoeffsMontgomeryLazy(a, b, c) },
		model: func(q, a, b, c, _, _ uint64) uint64 { return mred(a, b, q) }, rng: r2Q1},
	{name: "MulCoeffsMontgomeryThenAdd", d1: dQ, d2: dQ, d3: dQ, call: func(s *ring.SubRing, a, b, c []uint64, _, _ uint64) { s.MulCoeffsMontgomeryThenAdd(a, b, c) },
		model: func(q, a, b, c, _, _ uint64) uint64 { return ref.AddMod(c, mred(a, b, q), q) }, rng: rQ},
	{name: "MulCoeffsMontgomeryThenAddLazy", d1: dQ, d2: dQ, d3: d2Q, call: func(s *ring.SubRing, a, b, c []uint64, _, _ uint64) { s.MulCoeffsMontgomeryThenAddLazy(a, b, c) },
		model: func(q, a, b, c, _, _ uint64) uint64 { return c + mred(a, b, q) }, exact: true},
	{name: "MulCoeffsMontgomeryLazyThenAddLazy", d1: dQ, d2: dQ, d3: dQ, call: func(s *ring.SubRing, a, b, c []uint64, _, _ uint64) { s.MulCoeffsMontgomeryLazyThenAddLazy(a, b, c) },
		model: func(q, a, b, c, _, _ uint64) uint64 { return ref.AddMod(c, mred(a, b, q), q) }, rng: r3Q2},
	{name: "MulCoeffsMontgomeryThenSub", d1: dQ, d2: dQ, d3: dQ, call: func(s *ring.SubRing, a, b, c []uint64, _, _ uint64) { s.MulCoeffsMontgomeryThenSub(a, b, c) },
		model: func(q, a, b, c, _, _ uint64) uint64 { return ref.SubMod(c, mred(a, b, q), q) }, rng: rQ},
	{name: "MulCoeffsMontgomeryThenSubLazy", d1: dQ, d2: dQ, d3: dQ, call: func(s *ring.SubRing, a, b, c []uint64, _, _ uint64) { s.MulCoeffsMontgomeryThenSubLazy(a, b, c) },
		model: func(q, a, b, c, _, _ uint64) uint64 { return ref.SubMod(c, mred(a, b, q), q) }, rng: r2Q1},
	{name: "MulCoeffsMontgomeryLazyThenSubLazy", d1: dQ, d2: dQ, d3: dQ, call: func(s *ring.SubRing, a, b, c []uint64, _, _ uint64) { s.MulCoeffsMontgomeryLazyThenSubLazy(a, b, c) },
		model: func(q, a, b, c, _, _ uint64) uint64 { return ref.SubMod(c, mred(a, b, q), q) }, rng: func(q uint64) uint64 { return 3*q - 1 }},
	{name: "MulCoeffsMontgomeryLazyThenNeg", d1: dQ, d2: dQ, call: func(s *ring.SubRing, a, b, c []uint64, _, _ uint64) { s.MulCoeffsMontgomeryLazyThenNeg(a, b, c) },
		model: func(q, a, b, c, _, _ uint64) uint64 { return ref.NegMod(mred(a, b, q), q) }, rng: func(q uint64) uint64 { return 2 * q }},
	{name: "AddLazyThenMulScalarMontgomery", d1: dQ, d2: dQ, nscal: 1, scalDom: dQ, call: func(s *ring.SubRing, a, b, c []uint64, s0, _ uint64) { s.AddLazyThenMulScalarMontgomery(a, b, s0, c) },
		model: func(q, a, b, c, s0, _ uint64) uint64 { return mred(ref.AddMod(a, b, q), s0, q) }, rng: rQ},
	{name: "AddScalarLazyThenMulScalarMontgomery", d1: dQ, nscal: 2, scalDom: dQ, call: func(s *ring.SubRing, a, b, c []uint64, s0, s1 uint64) {
		s.AddScalarLazyThenMulScalarMontgomery(a, s0, s1, c)
	}, model: func(q, a, b, c, s0, s1 uint64) uint64 { return mred(ref.AddMod(a, s0, q), s1, q) }, rng: rQ},
	{name: "AddScalar", d1: dQ, nscal: 1, scalDom: dQ, call: func(s *ring.SubRing, a, b, c []uint64, s0, _ uint64) { s.AddScalar(a, s0, c) },
		model: func(q, a, b, c, s0, _ uint64) uint64 { return ref.AddMod(a, s0, q) }, rng: rQ},
	{name: "AddScalarLazy", d1: d2Q, nscal: 1, scalDom: dQ, call: func(s *ring.SubRing, a, b, c []uint64, s0, _ uint64) { s.AddScalarLazy(a, s0, c) },
		model: func(q, a, b, c, s0, _ uint64) uint64 { return a + s0 }, exact: true},
	{name: "AddScalarLazyThenNegTwoModulusLazy", d1: d2Q, nscal: 1, scalDom: dQ, call: func(s *ring.SubRing, a, b, c []uint64, s0, _ uint64) {
		s.AddScalarLazyThenNegTwoModulusLazy(a, s0, c)
	}, model: func(q, a, b, c, s0, _ uint64) uint64 { return s0 + 2*q - a }, exact: true},
	{name: "SubScalar", d1: dQ, nscal: 1, scalDom: dQ, call: func(s *ring.SubRing, a, b, c []uint64, s0, _ uint64) { s.SubScalar(a, s0, c) },
		model: func(q, a, b, c, s0, _ uint64) uint64 { return ref.SubMod(a, s0, q) }, rng: rQ},
	{name: "MulScalarMontgomery", d1: dQ, nscal: 1, scalDom: dQ, call: func(s *ring.SubRing, a, b, c []uint64, s0, _ uint64) { s.MulScalarMontgomery(a, s0, c) },
		model: func(q, a, b, c, s0, _ uint64) uint64 { return mred(a, s0, q) }, rng: rQ},
	{name: "MulScalarMontgomeryLazy", d1: dQ, nscal: 1, scalDom: dQ, call: func(s *ring.SubRing, a, b, c []uint64, s0, _ uint64) { s.MulScalarMontgomeryLazy(a, s0, c) },
		model: func(q, a, b, c, s0, _ uint64) uint64 { return mred(a, s0, q) }, rng: r2Q1},
	{name: "MulScalarMontgomeryThenAdd", d1: dQ, d3: dQ, nscal: 1, scalDom: dQ, call: func(s *ring.SubRing, a, b, c []uint64, s0, _ uint64) { s.MulScalarMontgomeryThenAdd(a, s0, c) },
		model: func(q, a, b, c, s0, _ uint64) uint64 { return ref.AddMod(c, mred(a, s0, q), q) }, rng: rQ},
	{name: "MulScalarMontgomeryThenAddScalar", d1: dQ, nscal: 2, scalDom: dQ, call: func(s *ring.SubRing, a, b, c []uint64, s0, s1 uint64) {
		s.MulScalarMontgomeryThenAddScalar(a, s0, s1, c)
	}, model: func(q, a, b, c, s0, s1 uint64) uint64 { return ref.AddMod(s0, mred(a, s1, q), q) }, rng: rQ},
	{name: "SubThenMulScalarMontgomeryTwoModulus", d1: d2Q, d2: d2Q, nscal: 1, scalDom: dQ, call: func(s *ring.SubRing, a, b, c []uint64, s0, _ uint64) {
		s.SubThenMulScalarMontgomeryTwoModulus(a, b, s0, c)
	}, model: func(q, a, b, c, s0, _ uint64) uint64 { return mred(ref.SubMod(a, b, q), s0, q) }, rng: rQ},
	{name: "MForm", d1: dAny, call: func(s *ring.SubRing, a, b, c []uint64, _, _ uint64) { s.MForm(a, c) },
		model: func(q, a, b, c, _, _ uint64) uint64 { return ref.MulMod(a, ref.TwoTo64Mod(q), q) }, rng: rQ},
	{name: "MFormLazy", d1: dAny, call: func(s *ring.SubRing, a, b, c []uint64, _, _ uint64) { s.MFormLazy(a, c) },
		model: func(q, a, b, c, _, _ uint64) uint64 { return ref.MulMod(a, ref.TwoTo64Mod(q), q) }, rng: r2Q1},
	{name: "IMForm", d1: dQ, call: func(s *ring.SubRing, a, b, c []uint64, _, _ uint64) { s.IMForm(a, c) },
		model: func(q, a, b, c, _, _ uint64) uint64 { return ref.MulMod(a, minv(q), q) }, rng: rQ},
}

type ringCfg struct {
	Type   string   `json:"type"`
	LogN   int      `json:"logN"`
	Moduli []uint64 `json:"moduli"`
	Bits   []int    `json:"bits"`
	Pos    int      `json:"pos"`
}

func (rc ringCfg) build() (*ring.Ring, error) {
	t := ring.Standard
	if rc.Type == "ci" {
		t = ring.ConjugateInvariant
	}
	return ring.NewRingFromType(1<<rc.LogN, rc.Moduli, t)
}

var bitSizes = []int{20, 30, 31, 32, 33, 45, 55, 59, 60, 61}

func cases(tier string, seed int64) []eng.Case {
	r := eng.NewRand("c01-cases", seed)
	var out []eng.Case
	logNs := []int{3, 4, 5, 6, 8}
	if tier == "thorough" {
		logNs = []int{3, 4, 5, 6, 7, 8, 9, 10, 11}
	}
	reps := 1
	if tier == "thorough" {
		reps = 6
	}
	add := func(rc ringCfg, kind string) {
		for rep := 0; rep < reps; rep++ {
			id := fmt.Sprintf("%s/%s/logN%d/b%v/pos%d", kind, rc.Type, rc.LogN, rc.Bits, rc.Pos)
			if rep > 0 {
				if kind == "ring" {
					break
				}
				id += fmt.Sprintf("/rep%d", rep)
			}
			cfg := rc
			switch kind {
			case "vec":
				out = append(out, eng.Case{ID: id, Sig: "C01|vec", Desc: cfg, Run: func(c *eng.Ctx) { runVec(c, cfg) }})
			case "ntt":
				out = append(out, eng.Case{ID: id, Sig: "C01|ntt", Desc: cfg, Run: func(c *eng.Ctx) { runNTT(c, cfg) }})
			case "ring":
				out = append(out, eng.Case{ID: id, Sig: "C01|ring", Desc: cfg, Run: func(c *eng.Ctx) { runRing(c, cfg) }})
			}
		}
	}
	// 1. single-modulus configurations: every bit size x every position x ring type, small N (vec + ntt)
	for _, typ := range []string{"std", "ci"} {
		for _, logN := range logNs {
			nth := uint64(2) << logN
			if typ == "ci" {
				nth <<= 1
			}
			sizes := append([]int{}, bitSizes...)
			// smallest admissible size: bit length of nth+1
			sizes = append(sizes, ref.BitLen(nth)+1, ref.BitLen(nth)+2)
			for _, b := range sizes {
				for pos := 0; pos < 4; pos++ {
					if tier != "thorough" && (logN == 8 || logN == 6) && pos != int(r.N(4)) {
						continue
					}
					pr := gen.Primes(b, nth, 1, pos, nil)
					if len(pr) == 0 {
						continue
					}
					rc := ringCfg{Type: typ, LogN: logN, Moduli: pr, Bits: []int{b}, Pos: pos}
					add(rc, "ntt")
					if logN <= 4 || tier == "thorough" && logN <= 6 {
						add(rc, "vec")
					}
				}
			}
		}
	}
	// 2. multi-modulus rings (Ring and ringqp.Ring level handling, scalars, monomials, automorphisms)
	nmulti := 24
	if tier == "thorough" {
		nmulti = 1500
	}
	for i := 0; i < nmulti; i++ {
		typ := eng.Pick(r, "std", "std", "ci")
		logN := eng.Pick(r, 3, 4, 5, 6)
		nth := uint64(2) << logN
		if typ == "ci" {
			nth <<= 1
		}
		k := 2 + r.N(4)
		var bits []int
		for j := 0; j < k; j++ {
			bits = append(bits, eng.Pick(r, bitSizes...))
		}
		q, _ := gen.Chain(r, nth, bits, nil)
		if q == nil {
			continue
		}
		add(ringCfg{Type: typ, LogN: logN, Moduli: q, Bits: bits, Pos: i}, "ring")
	}
	// 3. coverage extension families (scal, vecx, nttx, ringx, qpx, refuse): see ext_*.go
	out = append(out, extCases(tier, seed)...)
	return out
}

func init() {
	eng.Register(&eng.Monitor{
		ID: "C01", Level: "exploration",
		Rule: "cases = (kind, ring type, logN, prime bit sizes, prime position in its size class); inside a case every table operation x input pattern x extreme-lane placement is evaluated against the exact model. distinct key = (op, ring type, logN, bit size, position, pattern, lane); non-trivial = the input contains an extreme value of the documented domain (q-1, 2q-1, 2^64-1, top of lazy range) or the op is lazy/accumulating or the case is an NTT/automorphism/monomial identity. " +
			"Extension families: quot = every Barrett/Montgomery product (scalar functions and SubRing kernels) on 2^15 lanes per op whose exact product is a multiple of q plus a tiny residue 1..64 with operands at the top of their domain (worst case of the quotient estimate), large primes at every position; scal = exported scalar reductions called directly on (bit size, position) primes with boundary values (0, q-1, q, 2q-1, multiples of q next to 2^64); vecx = every SubRing kernel x layout (len(p1) in {8, N+8, 2N+8} with longer p2/p3, sub-slices with guard words, out=p1, out=p2, p1=p2) plus ZeroVec/MaskVec; nttx = NTT tables / primitive roots / factor lists, in-place transforms, exported free transforms with a dimension N/2, N/4 below the ring's own (convolution theorem + differential against a ring of that degree); ringx = every exported ring.Ring method of operations.go / scalar.go / automorphism.go / conjugate_invariant.go / ntt.go on 1..8 RNS moduli (61-bit next to 20-bit) at every level, outputs allocated at exactly the level and over-allocated (rows above the level must stay intact), dimension switch, fold/unfold, derived Standard/ConjugateInvariant rings; qpx = every exported ringqp.Ring method at every (levelQ, levelP) incl. levelP=-1, two Q/P splits; refuse = documented constructor refusals; race/checkptr (thorough) = a sample of all of these in the -race worker (checkptr). distinct keys carry (family, entry point or layout, ring type, logN, bit sizes, level); all of them are non-trivial by construction (boundary layouts / levels / lazy ranges).",
		Cases: cases,
		Assumptions: []string{
			"model arithmetic (bits.Mul64/Div64, math/big) is correct",
			"input domains for operations without a documented domain are the narrowest ones used by in-tree callers (see DESIGN.md C01)",
			"kernels are judged on exactly aliased operands only in the three forms in-tree callers use (out=p1, out=p2, p1=p2)",
			"ringqp RNS-scalar operations are judged against the [Q..,P..] layout at the maximum levels (the only use in-tree); below the maximum level of Q only the consistency of NewRNSScalarFromUInt64 with SubRNSScalar is required",
			"PadDefaultRingToConjugateInvariant is not judged: no in-tree caller and its comment does not define the map",
		},
	})
}

func runVec(c *eng.Ctx, rc ringCfg) {
	r, err := rc.build()
	if err != nil {
		c.Violate("C01|ring.NewRing|error-on-admissible", fmt.Sprintf("%v: %v", rc, err), rc)
		return
	}
	s := r.SubRings[0]
	q := s.Modulus
	n := r.N()
	rnd := c.Rand()
	c.Sample(map[string]any{"kind": "vec", "ring": rc, "ops": len(vops)})
	for _, op := range vops {
		for pat := 0; pat < gen.NumPatterns; pat++ {
			lanes := []int{0}
			if pat == gen.PatLaneTop || pat == gen.PatOneHot {
				lanes = []int{0, 1, 2, 3, 4, 5, 6, 7}
			}
			for _, lane := range lanes {
				var a, b, cc []uint64
				a = gen.Vec(rnd, n, op.d1(q), pat, lane)
				if op.d2 != nil {
					b = gen.Vec(rnd, n, op.d2(q), pat, lane)
				} else {
					b = make([]uint64, n)
				}
				if op.d3 != nil {
					cc = gen.Vec(rnd, n, op.d3(q), pat, lane)
				} else {
					// residue in the output buffer must not matter
					cc = gen.Vec(rnd, n, ^uint64(0), gen.PatUniform, 0)
				}
				var s0, s1 uint64
				if op.nscal > 0 {
					top := op.scalDom(q)
					s0 = eng.Pick(rnd, rnd.U64()%(top+1), top, 0, 1)
					s1 = eng.Pick(rnd, rnd.U64()%(top+1), top, 0, 1)
				}
				a0 := append([]uint64(nil), a...)
				b0 := append([]uint64(nil), b...)
				c0 := append([]uint64(nil), cc...)
				name := op.name
				ok := c.Try("C01|SubRing."+name, func() { op.call(s, a, b, cc, s0, s1) })
				c.Distinct(fmt.Sprintf("%s/%s/%d/%d/%d/%d/%d", name, rc.Type, rc.LogN, rc.Bits[0], rc.Pos, pat, lane), pat != gen.PatUniform && pat != gen.PatZero || op.rng == nil || op.d3 != nil)
				if !ok {
					continue
				}
				c.Eval(1)
				bad := -1
				for j := 0; j < n; j++ {
					var cin uint64
					if op.d3 != nil {
						cin = c0[j]
					}
					want := op.model(q, a0[j], b0[j], cin, s0, s1)
					got := cc[j]
					if op.exact {
						if got != want {
							bad = j
						}
					} else {
						if got%q != want%q || (op.rng != nil && got > op.rng(q)) {
							bad = j
						}
					}
					if bad >= 0 {
						break
					}
				}
				if bad >= 0 {
					j := bad
					var cin uint64
					if op.d3 != nil {
						cin = c0[j]
					}
					c.Violate("C01|SubRing."+name+"|wrong-value", fmt.Sprintf("q=%d (%d bits) N=%d lane=%d idx=%d a=%d b=%d c=%d s0=%d s1=%d got=%d want=%d (exact=%v, range<=%v)",
						q, ref.BitLen(q), n, j%8, j, a0[j], b0[j], cin, s0, s1, cc[j], op.model(q, a0[j], b0[j], cin, s0, s1), op.exact, rngOf(op, q)), rc)
				}
				// inputs must be unchanged
				if !eqv(a, a0) || (op.d2 != nil && !eqv(b, b0)) {
					c.Violate("C01|SubRing."+name+"|input-modified", fmt.Sprintf("q=%d", q), rc)
				}
			}
		}
	}
}

func rngOf(op vop, q uint64) any {
	if op.rng == nil {
		return "none"
	}
	return op.rng(q)
}

func eqv(a, b []uint64) bool {
	if len(a) != len(b) {
		return false
	}
	for i := range a {
		if a[i] != b[i] {
			return false
		}
	}
	return true
}

func reduceAll(v []uint64, q uint64) []uint64 {
	o := make([]uint64, len(v))
	for i := range v {
		o[i] = v[i] % q
	}
	return o
}

func maxv(v []uint64) uint64 {
	var m uint64
	for _, x := range v {
		if x > m {
			m = x
		}
	}
	return m
}

// modelMul: product of two coefficient vectors in the ring of the given type.
func modelMul(typ string, a, b []uint64, q uint64) []uint64 {
	if typ == "ci" {
		return ref.ConjInvMul(a, b, q)
	}
	return ref.NegacyclicMul(a, b, q)
}

func modelAut(typ string, a []uint64, g, q uint64) []uint64 {
	if typ == "ci" {
		n := len(a)
		u := make([]uint64, 2*n)
		u[0] = a[0] % q
		for i := 1; i < n; i++ {
			u[i] = a[i] % q
			u[2*n-i] = ref.NegMod(a[i], q)
		}
		return ref.Automorphism(u, g, q)[:n]
	}
	return ref.Automorphism(a, g, q)
}

func runNTT(c *eng.Ctx, rc ringCfg) {
	r, err := rc.build()
	if err != nil {
		c.Violate("C01|ring.NewRing|error-on-admissible", fmt.Sprintf("%+v: %v", rc, err), rc)
		return
	}
	s := r.SubRings[0]
	q := s.Modulus
	n := r.N()
	rnd := c.Rand()
	c.Sample(map[string]any{"kind": "ntt", "ring": rc})
	pats := []int{gen.PatUniform, gen.PatTop, gen.PatOneHot, gen.PatLaneTop, gen.PatAlternate, gen.PatSmall}
	for _, pat := range pats {
		for _, dom := range []struct {
			name string
			top  uint64
		}{{"q", q - 1}, {"2q", 2*q - 1}} {
			lane := rnd.N(n)
			a := gen.Vec(rnd, n, dom.top, pat, lane)
			b := gen.Vec(rnd, n, q-1, eng.Pick(rnd, gen.PatUniform, gen.PatTop, gen.PatSmall), rnd.N(8))
			key := fmt.Sprintf("ntt/%s/%d/%d/%d/%d/%s", rc.Type, rc.LogN, rc.Bits[0], rc.Pos, pat, dom.name)
			c.Distinct(key, true)
			a0 := append([]uint64(nil), a...)
			na := make([]uint64, n)
			nb := make([]uint64, n)
			back := make([]uint64, n)
			if !c.Try("C01|SubRing.NTT", func() { s.NTT(a, na); s.NTT(b, nb) }) {
				continue
			}
			c.Check(eqv(a, a0), "C01|SubRing.NTT|input-modified", nil)
			c.Check(maxv(na) < q, "C01|SubRing.NTT|range", func() string { return fmt.Sprintf("q=%d max=%d dom=%s pat=%d", q, maxv(na), dom.name, pat) })
			// round trip
			c.Try("C01|SubRing.INTT", func() { s.INTT(na, back) })
			c.Check(eqv(back, reduceAll(a0, q)), "C01|NTT-roundtrip|wrong-value", func() string {
				return fmt.Sprintf("INTT(NTT(a)) != a: q=%d (%d bits) N=%d type=%s dom=%s pat=%d a=%s got=%s", q, ref.BitLen(q), n, rc.Type, dom.name, pat, eng.U64s(a0, 8), eng.U64s(back, 8))
			})
			// lazy forward: congruent and in [0, 6q-2]
			nl := make([]uint64, n)
			c.Try("C01|SubRing.NTTLazy", func() { s.NTTLazy(a0, nl) })
			c.Check(eqv(reduceAll(nl, q), na), "C01|SubRing.NTTLazy|wrong-value", func() string {
				return fmt.Sprintf("q=%d dom=%s pat=%d type=%s", q, dom.name, pat, rc.Type)
			})
			c.Max("max_nttlazy_over_q_x100_"+rc.Type+"_"+dom.name, int64(100*float64(maxv(nl))/float64(q)))
			c.Check(maxv(nl) <= 8*q-1, "C01|SubRing.NTTLazy|range-above-8q", func() string {
				return fmt.Sprintf("q=%d dom=%s pat=%d max=%d type=%s", q, dom.name, pat, maxv(nl), rc.Type)
			})
			c.Check(maxv(nl) <= 6*q-2, "C01|SubRing.NTTLazy|range-above-documented-6q-2|"+rc.Type, func() string {
				return fmt.Sprintf("q=%d dom=%s pat=%d max=%d = %.3f q, documented bound 6q-2=%d", q, dom.name, pat, maxv(nl), float64(maxv(nl))/float64(q), 6*q-2)
			})
			// lazy backward on [0,q) input and on the forward-lazy-reduced input: congruent, [0,2q-1]
			bl := make([]uint64, n)
			c.Try("C01|SubRing.INTTLazy", func() { s.INTTLazy(na, bl) })
			c.Check(eqv(reduceAll(bl, q), reduceAll(a0, q)) && maxv(bl) <= 2*q-1, "C01|SubRing.INTTLazy|wrong-value-or-range", func() string {
				return fmt.Sprintf("q=%d dom=%s pat=%d max=%d", q, dom.name, pat, maxv(bl))
			})
			if dom.name == "2q" {
				// INTT fed with a lazily reduced NTT vector (values in [0,2q-1])
				lz := make([]uint64, n)
				for i := range lz {
					lz[i] = na[i]
					if rnd.Bool() && na[i]+q <= 2*q-1 {
						lz[i] += q
					}
				}
				b2 := make([]uint64, n)
				c.Try("C01|SubRing.INTT", func() { s.INTT(lz, b2) })
				c.Check(eqv(b2, reduceAll(a0, q)), "C01|SubRing.INTT|lazy-fed-wrong-value", func() string {
					return fmt.Sprintf("q=%d pat=%d", q, pat)
				})
			}
			// convolution: INTT(NTT(a) . NTT(b)) == a*b (naive)
			if n <= 1024 {
				prod := make([]uint64, n)
				mb := make([]uint64, n)
				s.MForm(nb, mb)
				s.MulCoeffsMontgomery(na, mb, prod)
				res := make([]uint64, n)
				s.INTT(prod, res)
				want := modelMul(rc.Type, a0, b, q)
				c.Check(eqv(res, want), "C01|NTT-convolution|wrong-value", func() string {
					return fmt.Sprintf("INTT(NTT(a)*NTT(b)) != a*b: q=%d (%d bits) N=%d type=%s dom=%s pat=%d got=%s want=%s", q, ref.BitLen(q), n, rc.Type, dom.name, pat, eng.U64s(res, 8), eng.U64s(want, 8))
				})
			}
		}
	}
	// exported transformer objects agree with the SubRing entry points
	var tr ring.NumberTheoreticTransformer
	if rc.Type == "ci" {
		tr = ring.NewNumberTheoreticTransformerConjugateInvariant(s, n)
	} else {
		tr = ring.NewNumberTheoreticTransformerStandard(s, n)
	}
	a := gen.Vec(rnd, n, q-1, gen.PatUniform, 0)
	o1, o2, o3 := make([]uint64, n), make([]uint64, n), make([]uint64, n)
	c.Try("C01|NumberTheoreticTransformer", func() {
		tr.Forward(a, o1)
		s.NTT(a, o2)
		tr.Backward(o1, o3)
	})
	c.Check(eqv(o1, o2) && eqv(o3, a), "C01|NumberTheoreticTransformer|wrong-value", nil)
	tr.ForwardLazy(a, o1)
	c.Check(eqv(reduceAll(o1, q), o2), "C01|NumberTheoreticTransformer.ForwardLazy|wrong-value", nil)
	c.Check(maxv(o1) <= 6*q-2, "C01|SubRing.NTTLazy|range-above-documented-6q-2|"+rc.Type, func() string {
		return fmt.Sprintf("ForwardLazy: q=%d max=%d = %.3f q", q, maxv(o1), float64(maxv(o1))/float64(q))
	})
	tr.BackwardLazy(o2, o3)
	c.Check(eqv(reduceAll(o3, q), a) && maxv(o3) <= 2*q-1, "C01|NumberTheoreticTransformer.BackwardLazy|wrong-value-or-range", nil)

	// automorphisms, coefficient and NTT domain, every odd g for N<=32, sampled above
	nth := r.NthRoot()
	var gs []uint64
	if nth <= 128 {
		for g := uint64(1); g < nth; g += 2 {
			gs = append(gs, g)
		}
	} else {
		gs = []uint64{1, 3, 5, nth - 1, nth - 3, nth/2 + 1, nth/2 - 1}
		for i := 0; i < 12; i++ {
			gs = append(gs, (rnd.U64()%nth)|1)
		}
	}
	// the same group elements given by representatives that are not reduced modulo 2N (X -> X^g only depends
	// on g mod 2N; unreduced products such as 5^k or g1*g2 are natural arguments)
	ng := len(gs)
	for i := 0; i < 6; i++ {
		g := gs[rnd.N(ng)]
		k := []uint64{1, 2, 3, 1 + rnd.U64()%(1<<20), (math.MaxUint64-g)/nth - rnd.U64()%4, rnd.U64() % ((math.MaxUint64 - g) / nth)}[i]
		gs = append(gs, g+k*nth)
	}
	for _, g := range gs {
		pat := eng.Pick(rnd, gen.PatUniform, gen.PatTop, gen.PatOneHot, gen.PatLaneTop)
		a := gen.Vec(rnd, n, q-1, pat, rnd.N(n))
		pa := ring.Poly{Coeffs: [][]uint64{a}}
		po := r.NewPoly()
		want := modelAut(rc.Type, a, g, q)
		c.Distinct(fmt.Sprintf("aut/%s/%d/%d/%d/%d", rc.Type, rc.LogN, rc.Bits[0], rc.Pos, g), true)
		if g >= nth {
			c.Count("automorphisms_with_unreduced_galois_element", 1)
		}
		if c.Try("C01|Ring.Automorphism", func() { r.Automorphism(pa, g, po) }) {
			c.Check(eqv(reduceAll(po.Coeffs[0], q), want) && maxv(po.Coeffs[0]) <= q, "C01|Ring.Automorphism|wrong-value", func() string {
				return fmt.Sprintf("q=%d N=%d type=%s g=%d a=%s got=%s want=%s", q, n, rc.Type, g, eng.U64s(a, 8), eng.U64s(po.Coeffs[0], 8), eng.U64s(want, 8))
			})
		}
		// NTT-domain variant judged through INTT . AutNTT . NTT. In the conjugate-invariant ring g and -g
		// are the same map and the NTT index table is only defined for the representative = 1 mod 4
		// (the only ones the library's GaloisElement functions produce).
		if rc.Type == "ci" && g&3 != 1 {
			continue
		}
		pn := r.NewPoly()
		r.NTT(pa, pn)
		pn2 := r.NewPoly()
		if c.Try("C01|Ring.AutomorphismNTT", func() { r.AutomorphismNTT(pn, g, pn2) }) {
			r.INTT(pn2, pn2)
			c.Check(eqv(pn2.Coeffs[0], want), "C01|Ring.AutomorphismNTT|wrong-value", func() string {
				return fmt.Sprintf("q=%d N=%d type=%s g=%d got=%s want=%s", q, n, rc.Type, g, eng.U64s(pn2.Coeffs[0], 8), eng.U64s(want, 8))
			})
		}
		idx, err := ring.AutomorphismNTTIndex(n, nth, g)
		if err != nil {
			c.Violate("C01|ring.AutomorphismNTTIndex|error", err.Error(), nil)
			continue
		}
		acc := gen.Vec(rnd, n, q-1, gen.PatUniform, 0)
		pacc := ring.Poly{Coeffs: [][]uint64{append([]uint64(nil), acc...)}}
		if c.Try("C01|Ring.AutomorphismNTTWithIndexThenAddLazy", func() { r.AutomorphismNTTWithIndexThenAddLazy(pn, idx, pacc) }) {
			// expected: acc + AutNTT(pn) exactly (lazy add)
			tmp := r.NewPoly()
			r.AutomorphismNTTWithIndex(pn, idx, tmp)
			okk := true
			for j := 0; j < n; j++ {
				if pacc.Coeffs[0][j] != acc[j]+tmp.Coeffs[0][j] {
					okk = false
				}
			}
			c.Check(okk, "C01|Ring.AutomorphismNTTWithIndexThenAddLazy|wrong-value", nil)
		}
	}
}

func runRing(c *eng.Ctx, rc ringCfg) {
	rfull, err := rc.build()
	if err != nil {
		c.Violate("C01|ring.NewRing|error-on-admissible", fmt.Sprintf("%+v: %v", rc, err), rc)
		return
	}
	rnd := c.Rand()
	n := rfull.N()
	c.Sample(map[string]any{"kind": "ring", "ring": rc})
	for level := 0; level <= rfull.MaxLevel(); level++ {
		r := rfull.AtLevel(level)
		mods := r.ModuliChain()[:level+1]
		crt := ref.NewCRT(mods)
		c.Distinct(fmt.Sprintf("ring/%s/%d/%v/%d", rc.Type, rc.LogN, rc.Bits, level), true)
		newp := func(pat int, topf func(q uint64) uint64) ring.Poly {
			p := rfull.NewPoly()
			for i := range p.Coeffs {
				q := rfull.SubRings[i].Modulus
				copy(p.Coeffs[i], gen.Vec(rnd, n, topf(q), pat, rnd.N(8)))
			}
			return p
		}
		pat := eng.Pick(rnd, gen.PatUniform, gen.PatTop, gen.PatLaneTop, gen.PatSmall)
		a := newp(pat, dQ)
		b := newp(eng.Pick(rnd, gen.PatUniform, gen.PatTop), dQ)
		out := newp(gen.PatUniform, dQ)
		check := func(name string, f func(), model func(i int, q uint64, j int) uint64, o ring.Poly) {
			if !c.Try("C01|Ring."+name, f) {
				return
			}
			c.Eval(1)
			for i := 0; i <= level; i++ {
				q := mods[i]
				for j := 0; j < n; j++ {
					w := model(i, q, j)
					if o.Coeffs[i][j]%q != w%q || o.Coeffs[i][j] > q {
						c.Violate("C01|Ring."+name+"|wrong-value", fmt.Sprintf("level=%d modulus#%d q=%d idx=%d got=%d want=%d", level, i, q, j, o.Coeffs[i][j], w), rc)
						return
					}
				}
			}
		}
		check("Add", func() { r.Add(a, b, out) }, func(i int, q uint64, j int) uint64 { return ref.AddMod(a.Coeffs[i][j], b.Coeffs[i][j], q) }, out)
		check("Sub", func() { r.Sub(a, b, out) }, func(i int, q uint64, j int) uint64 { return ref.SubMod(a.Coeffs[i][j], b.Coeffs[i][j], q) }, out)
		check("Neg", func() { r.Neg(a, out) }, func(i int, q uint64, j int) uint64 { return ref.NegMod(a.Coeffs[i][j], q) }, out)
		check("MulCoeffsBarrett", func() { r.MulCoeffsBarrett(a, b, out) }, func(i int, q uint64, j int) uint64 { return ref.MulMod(a.Coeffs[i][j], b.Coeffs[i][j], q) }, out)
		check("MulCoeffsMontgomery", func() { r.MulCoeffsMontgomery(a, b, out) }, func(i int, q uint64, j int) uint64 { return mred(a.Coeffs[i][j], b.Coeffs[i][j], q) }, out)
		check("MForm", func() { r.MForm(a, out) }, func(i int, q uint64, j int) uint64 { return ref.MulMod(a.Coeffs[i][j], ref.TwoTo64Mod(q), q) }, out)
		check("IMForm", func() { r.IMForm(a, out) }, func(i int, q uint64, j int) uint64 { return ref.MulMod(a.Coeffs[i][j], minv(q), q) }, out)
		// scalars
		sc := eng.Pick(rnd, rnd.U64(), ^uint64(0), 0, 1, uint64(1)<<63)
		check("MulScalar", func() { r.MulScalar(a, sc, out) }, func(i int, q uint64, j int) uint64 { return ref.MulMod(a.Coeffs[i][j], sc, q) }, out)
		acc := newp(gen.PatUniform, dQ)
		acc0 := *acc.CopyNew()
		check("MulScalarThenAdd", func() { r.MulScalarThenAdd(a, sc, acc) }, func(i int, q uint64, j int) uint64 {
			return ref.AddMod(acc0.Coeffs[i][j], ref.MulMod(a.Coeffs[i][j], sc, q), q)
		}, acc)
		acc = *acc0.CopyNew()
		check("MulScalarThenSub", func() { r.MulScalarThenSub(a, sc, acc) }, func(i int, q uint64, j int) uint64 {
			return ref.SubMod(acc0.Coeffs[i][j], ref.MulMod(a.Coeffs[i][j], sc, q), q)
		}, acc)
		// scalar smaller than every modulus for the add/sub forms
		minq := mods[0]
		for _, q := range mods {
			if q < minq {
				minq = q
			}
		}
		ssc := eng.Pick(rnd, rnd.U64()%minq, minq-1, 0)
		check("AddScalar", func() { r.AddScalar(a, ssc, out) }, func(i int, q uint64, j int) uint64 { return ref.AddMod(a.Coeffs[i][j], ssc, q) }, out)
		check("SubScalar", func() { r.SubScalar(a, ssc, out) }, func(i int, q uint64, j int) uint64 { return ref.SubMod(a.Coeffs[i][j], ssc, q) }, out)
		// big-int scalars, incl. negative and larger than Q
		bs := new(big.Int).SetUint64(rnd.U64())
		bs.Lsh(bs, uint(rnd.N(200)))
		bs.Add(bs, new(big.Int).SetUint64(rnd.U64()))
		if rnd.Bool() {
			bs.Neg(bs)
		}
		bs0 := new(big.Int).Set(bs)
		check("MulScalarBigint", func() { r.MulScalarBigint(a, bs, out) }, func(i int, q uint64, j int) uint64 { return ref.MulMod(a.Coeffs[i][j], ref.ModU(bs0, q), q) }, out)
		check("AddScalarBigint", func() { r.AddScalarBigint(a, bs, out) }, func(i int, q uint64, j int) uint64 { return ref.AddMod(a.Coeffs[i][j], ref.ModU(bs0, q), q) }, out)
		check("SubScalarBigint", func() { r.SubScalarBigint(a, bs, out) }, func(i int, q uint64, j int) uint64 { return ref.SubMod(a.Coeffs[i][j], ref.ModU(bs0, q), q) }, out)
		acc = *acc0.CopyNew()
		check("MulScalarBigintThenAdd", func() { r.MulScalarBigintThenAdd(a, bs, acc) }, func(i int, q uint64, j int) uint64 {
			return ref.AddMod(acc0.Coeffs[i][j], ref.MulMod(a.Coeffs[i][j], ref.ModU(bs0, q), q), q)
		}, acc)
		c.Check(bs.Cmp(bs0) == 0, "C01|Ring.*Bigint|scalar-modified", nil)
		// RNS scalars
		rs := r.NewRNSScalarFromBigint(bs)
		okrs := true
		for i := 0; i <= level; i++ {
			if rs[i] != ref.ModU(bs0, mods[i]) {
				okrs = false
			}
		}
		c.Check(okrs, "C01|Ring.NewRNSScalarFromBigint|wrong-value", func() string { return fmt.Sprintf("bs=%v got=%v", bs0, rs) })
		rsm := r.NewRNSScalar()
		r.MFormRNSScalar(rs, rsm)
		check("MulRNSScalarMontgomery", func() { r.MulRNSScalarMontgomery(a, rsm, out) }, func(i int, q uint64, j int) uint64 { return ref.MulMod(a.Coeffs[i][j], ref.ModU(bs0, q), q) }, out)
		// monomial products through the whole polynomial (reconstructed by CRT to exercise cross-modulus consistency)
		ks := []int{0, 1, -1, n - 1, n, n + 1, 2*n - 1, 2 * n, 2*n + 1, -n, -2*n + 1, -2 * n, 3*n + 5, 4 * n, rnd.N(4*n) - 2*n, -2*n - 1, -3 * n, -3*n - 1, -4 * n, 1<<40 + 3, -(1<<40 + 3), rnd.N(16*n) - 8*n}
		if rc.Type == "ci" {
			ks = nil // X^k is not an element of Z[X+X^-1]
		}
		for _, k := range ks {
			kk := k
			o := rfull.NewPoly()
			check(fmt.Sprintf("MultByMonomial"), func() { r.MultByMonomial(a, kk, o) }, func(i int, q uint64, j int) uint64 {
				return ref.MonomialMul(a.Coeffs[i], kk, q)[j]
			}, o)
			c.Distinct(fmt.Sprintf("monomial/%s/%d/%d", rc.Type, rc.LogN, kk), true)
		}
		// NTT at ring level: each row transformed with its own modulus; product vs naive, cross-checked by CRT
		if n <= 64 {
			na, nb, np := rfull.NewPoly(), rfull.NewPoly(), rfull.NewPoly()
			c.Try("C01|Ring.NTT", func() {
				r.NTT(a, na)
				r.NTT(b, nb)
				r.MForm(nb, nb)
				r.MulCoeffsMontgomery(na, nb, np)
				r.INTT(np, np)
			})
			okp := true
			for i := 0; i <= level && okp; i++ {
				want := modelMul(rc.Type, a.Coeffs[i], b.Coeffs[i], mods[i])
				okp = eqv(np.Coeffs[i], want)
			}
			c.Check(okp, "C01|Ring.NTT-convolution|wrong-value", func() string { return fmt.Sprintf("level=%d moduli=%v", level, mods) })
			// consistency through CRT for small-norm inputs: product over Z (|a|,|b| small) equals reconstructed value
			sa, sb := rfull.NewPoly(), rfull.NewPoly()
			ia := make([]int64, n)
			ib := make([]int64, n)
			for j := 0; j < n; j++ {
				ia[j] = int64(rnd.N(7)) - 3
				ib[j] = int64(rnd.N(7)) - 3
				for i := 0; i <= level; i++ {
					sa.Coeffs[i][j] = ref.ModU(big.NewInt(ia[j]), mods[i])
					sb.Coeffs[i][j] = ref.ModU(big.NewInt(ib[j]), mods[i])
				}
			}
			if rc.Type == "std" && crt.Q.BitLen() > 12 {
				r.NTT(sa, na)
				r.NTT(sb, nb)
				r.MForm(nb, nb)
				r.MulCoeffsMontgomery(na, nb, np)
				r.INTT(np, np)
				okz := true
				for j := 0; j < n && okz; j++ {
					var z int64
					for x := 0; x < n; x++ {
						y := j - x
						sg := int64(1)
						if y < 0 {
							y += n
							sg = -1
						}
						z += sg * ia[x] * ib[y]
					}
					okz = crt.Centered(crt.Column(np.Coeffs, j)).Cmp(big.NewInt(z)) == 0
				}
				c.Check(okz, "C01|Ring.NTT-convolution|crt-inconsistent", func() string { return fmt.Sprintf("level=%d moduli=%v", level, mods) })
			}
		}
	}
	// ringqp: split the chain into Q (first half) and P (rest) and compare with per-part results
	if len(rc.Moduli) >= 2 {
		runRingQP(c, rc)
	}
}

func runRingQP(c *eng.Ctx, rc ringCfg) {
	t := ring.Standard
	if rc.Type == "ci" {
		t = ring.ConjugateInvariant
	}
	k := len(rc.Moduli) / 2
	n := 1 << rc.LogN
	rq, err1 := ring.NewRingFromType(n, rc.Moduli[:k], t)
	rp, err2 := ring.NewRingFromType(n, rc.Moduli[k:], t)
	if err1 != nil || err2 != nil {
		return
	}
	rnd := c.Rand()
	full := ringqp.Ring{RingQ: rq, RingP: rp}
	for lq := 0; lq <= rq.MaxLevel(); lq++ {
		for lp := -1; lp <= rp.MaxLevel(); lp++ {
			r := full.AtLevel(lq, lp)
			c.Distinct(fmt.Sprintf("ringqp/%s/%d/%v/%d/%d", rc.Type, rc.LogN, rc.Bits, lq, lp), true)
			a, b, o := full.NewPoly(), full.NewPoly(), full.NewPoly()
			fill := func(p ringqp.Poly) {
				for i := range p.Q.Coeffs {
					copy(p.Q.Coeffs[i], gen.Vec(rnd, n, rq.SubRings[i].Modulus-1, eng.Pick(rnd, gen.PatUniform, gen.PatTop), 0))
				}
				for i := range p.P.Coeffs {
					copy(p.P.Coeffs[i], gen.Vec(rnd, n, rp.SubRings[i].Modulus-1, eng.Pick(rnd, gen.PatUniform, gen.PatTop), 0))
				}
			}
			fill(a)
			fill(b)
			chk := func(name string, f func(), model func(q, x, y uint64) uint64) {
				if !c.Try("C01|ringqp.Ring."+name, f) {
					return
				}
				c.Eval(1)
				for i := 0; i <= lq; i++ {
					q := rq.SubRings[i].Modulus
					for j := 0; j < n; j++ {
						if w := model(q, a.Q.Coeffs[i][j], b.Q.Coeffs[i][j]); o.Q.Coeffs[i][j]%q != w%q || o.Q.Coeffs[i][j] > q {
							c.Violate("C01|ringqp.Ring."+name+"|wrong-value", fmt.Sprintf("Q row %d lq=%d lp=%d got=%d want=%d", i, lq, lp, o.Q.Coeffs[i][j], w), rc)
							return
						}
					}
				}
				for i := 0; i <= lp; i++ {
					q := rp.SubRings[i].Modulus
					for j := 0; j < n; j++ {
						if w := model(q, a.P.Coeffs[i][j], b.P.Coeffs[i][j]); o.P.Coeffs[i][j]%q != w%q || o.P.Coeffs[i][j] > q {
							c.Violate("C01|ringqp.Ring."+name+"|wrong-value", fmt.Sprintf("P row %d lq=%d lp=%d got=%d want=%d", i, lq, lp, o.P.Coeffs[i][j], w), rc)
							return
						}
					}
				}
			}
			chk("Add", func() { r.Add(a, b, o) }, func(q, x, y uint64) uint64 { return ref.AddMod(x, y, q) })
			chk("Sub", func() { r.Sub(a, b, o) }, func(q, x, y uint64) uint64 { return ref.SubMod(x, y, q) })
			chk("Neg", func() { r.Neg(a, o) }, func(q, x, y uint64) uint64 { return ref.NegMod(x, q) })
			chk("MulCoeffsMontgomery", func() { r.MulCoeffsMontgomery(a, b, o) }, func(q, x, y uint64) uint64 { return mred(x, y, q) })
			chk("MForm", func() { r.MForm(a, o) }, func(q, x, y uint64) uint64 { return ref.MulMod(x, ref.TwoTo64Mod(q), q) })
			chk("IMForm", func() { r.IMForm(a, o) }, func(q, x, y uint64) uint64 { return ref.MulMod(x, minv(q), q) })
			sc := rnd.U64()
			chk("MulScalar", func() { r.MulScalar(a, sc, o) }, func(q, x, y uint64) uint64 { return ref.MulMod(x, sc, q) })
			// NTT round trip
			o2 := full.NewPoly()
			if c.Try("C01|ringqp.Ring.NTT", func() { r.NTT(a, o); r.INTT(o, o2) }) {
				okk := true
				for i := 0; i <= lq; i++ {
					okk = okk && eqv(o2.Q.Coeffs[i], a.Q.Coeffs[i])
				}
				for i := 0; i <= lp; i++ {
					okk = okk && eqv(o2.P.Coeffs[i], a.P.Coeffs[i])
				}
				c.Check(okk, "C01|ringqp.Ring.NTT-roundtrip|wrong-value", func() string { return fmt.Sprintf("lq=%d lp=%d", lq, lp) })
			}
		}
	}
}
