package c01

// Coverage extension, part 3: ringqp.Ring methods the base family does not call (family "qpx"),
// the exported free transforms of ring/ntt.go used with a dimension smaller than the ring's own
// (as rlwe.SwitchCiphertextRingDegreeNTT does), in-place transforms, the NTT tables and primitive
// roots (family "nttx"), the refusal paths of the constructors (family "refuse"), and the case
// generator of all extension families.

import (
	"fmt"

	"github.com/tuneinsight/lattigo/v6/ring"
	"github.com/tuneinsight/lattigo/v6/ring/ringqp"

	"verif/harness/eng"
	"verif/harness/gen"
	"verif/harness/ref"
)

// ---------------------------------------------------------------------------------------------
// family "qpx"
// ---------------------------------------------------------------------------------------------

type qop struct {
	name string
	call func(r ringqp.Ring, a, b, o ringqp.Poly)
}

var qops = []qop{
	{"Add", func(r ringqp.Ring, a, b, o ringqp.Poly) { r.Add(a, b, o) }},
	{"AddLazy", func(r ringqp.Ring, a, b, o ringqp.Poly) { r.AddLazy(a, b, o) }},
	{"Sub", func(r ringqp.Ring, a, b, o ringqp.Poly) { r.Sub(a, b, o) }},
	{"Neg", func(r ringqp.Ring, a, b, o ringqp.Poly) { r.Neg(a, o) }},
	{"Reduce", func(r ringqp.Ring, a, b, o ringqp.Poly) { r.Reduce(a, o) }},
	{"MForm", func(r ringqp.Ring, a, b, o ringqp.Poly) { r.MForm(a, o) }},
	{"IMForm", func(r ringqp.Ring, a, b, o ringqp.Poly) { r.IMForm(a, o) }},
	{"MulCoeffsMontgomery", func(r ringqp.Ring, a, b, o ringqp.Poly) { r.MulCoeffsMontgomery(a, b, o) }},
	{"MulCoeffsMontgomeryLazy", func(r ringqp.Ring, a, b, o ringqp.Poly) { r.MulCoeffsMontgomeryLazy(a, b, o) }},
	{"MulCoeffsMontgomeryLazyThenAddLazy", func(r ringqp.Ring, a, b, o ringqp.Poly) { r.MulCoeffsMontgomeryLazyThenAddLazy(a, b, o) }},
	{"MulCoeffsMontgomeryThenSub", func(r ringqp.Ring, a, b, o ringqp.Poly) { r.MulCoeffsMontgomeryThenSub(a, b, o) }},
	{"MulCoeffsMontgomeryLazyThenSubLazy", func(r ringqp.Ring, a, b, o ringqp.Poly) { r.MulCoeffsMontgomeryLazyThenSubLazy(a, b, o) }},
	{"MulCoeffsMontgomeryThenAdd", func(r ringqp.Ring, a, b, o ringqp.Poly) { r.MulCoeffsMontgomeryThenAdd(a, b, o) }},
}

// qpPoly allocates a QP polynomial with rows (lq, lp) when !over, and with all rows of the full ring plus
// sentinel content above (lq, lp) when over; active rows are filled by fill(modulus).
func qpPoly(n, maxQ, maxP, lq, lp int, over bool, qm, pm []uint64, fill func(q uint64) []uint64) ringqp.Poly {
	rq, rp := lq, lp
	if over {
		rq, rp = maxQ, maxP
	}
	p := ringqp.NewPoly(n, rq, rp)
	for i := range p.Q.Coeffs {
		if i <= lq {
			if fill != nil {
				copy(p.Q.Coeffs[i], fill(qm[i]))
			}
		} else {
			for j := range p.Q.Coeffs[i] {
				p.Q.Coeffs[i][j] = sentinel
			}
		}
	}
	for i := range p.P.Coeffs {
		if i <= lp {
			if fill != nil {
				copy(p.P.Coeffs[i], fill(pm[i]))
			}
		} else {
			for j := range p.P.Coeffs[i] {
				p.P.Coeffs[i][j] = sentinel
			}
		}
	}
	return p
}

func qpRows(p ringqp.Poly, lq, lp int) [][]uint64 {
	rows := append([][]uint64{}, p.Q.Coeffs[:lq+1]...)
	if lp >= 0 {
		rows = append(rows, p.P.Coeffs[:lp+1]...)
	}
	return rows
}

func qpAboveIntact(p ringqp.Poly, lq, lp int) bool {
	return rowsAboveIntact(p.Q, lq) && rowsAboveIntact(p.P, lp)
}

func runQPX(c *eng.Ctx, rc ringCfg, k int) {
	t := ring.Standard
	if rc.Type == "ci" {
		t = ring.ConjugateInvariant
	}
	n := 1 << rc.LogN
	rq, err1 := ring.NewRingFromType(n, rc.Moduli[:k], t)
	rp, err2 := ring.NewRingFromType(n, rc.Moduli[k:], t)
	if err1 != nil || err2 != nil {
		c.Violate("C01|ring.NewRing|error-on-admissible", fmt.Sprintf("%+v: %v %v", rc, err1, err2), rc)
		return
	}
	rnd := c.Rand()
	nth := rq.NthRoot()
	full := ringqp.Ring{RingQ: rq, RingP: rp}
	qm, pm := rq.ModuliChain(), rp.ModuliChain()
	maxQ, maxP := rq.MaxLevel(), rp.MaxLevel()
	c.Sample(map[string]any{"kind": "qpx", "ring": rc, "split": k})
	for lq := 0; lq <= maxQ; lq++ {
		for lp := -1; lp <= maxP; lp++ {
			r := full.AtLevel(lq, lp)
			mods := append(append([]uint64{}, qm[:lq+1]...), pm[:lp+1]...)
			c.Distinct(fmt.Sprintf("qpx/%s/%d/%v/%d/%d/%d", rc.Type, rc.LogN, rc.Bits, k, lq, lp), true)
			if lp == -1 {
				c.Count("qpx_levelP_minus1", 1)
			}
			mk := func(over bool, top func(q uint64) uint64, pat, lane int) ringqp.Poly {
				return qpPoly(n, maxQ, maxP, lq, lp, over, qm, pm, func(q uint64) []uint64 { return gen.Vec(rnd, n, top(q), pat, lane) })
			}
			// ---- table operations
			for qi := range qops {
				qo := &qops[qi]
				op := vopByName(qo.name)
				for _, over := range []bool{false, true} {
					pat := eng.Pick(rnd, gen.PatUniform, gen.PatTop, gen.PatLaneTop, gen.PatSmall)
					lane := rnd.N(8)
					a := mk(over, op.d1, pat, lane)
					var b ringqp.Poly
					if op.d2 != nil {
						b = mk(over, op.d2, pat, lane)
					} else {
						b = mk(over, func(uint64) uint64 { return 0 }, gen.PatZero, 0)
					}
					var o ringqp.Poly
					if op.d3 != nil {
						o = mk(over, op.d3, pat, lane)
					} else {
						o = mk(over, dAny, gen.PatUniform, 0)
					}
					a0, b0, o0 := *a.CopyNew(), *b.CopyNew(), *o.CopyNew()
					if !c.Try("C01|ringqp.Ring."+qo.name, func() { qo.call(r, a, b, o) }) {
						continue
					}
					c.Eval(1)
					c.Count("qpx_table_ops", 1)
					ra, rb, ro, rc0 := qpRows(a0, lq, lp), qpRows(b0, lq, lp), qpRows(o, lq, lp), qpRows(o0, lq, lp)
					bad := false
					var maxOverQ float64
					for i, q := range mods {
						for j := 0; j < n && !bad; j++ {
							var cin uint64
							if op.d3 != nil {
								cin = rc0[i][j]
							}
							if !vopOK(op, q, ra[i][j], rb[i][j], cin, 0, 0, ro[i][j]) {
								c.Violate("C01|ringqp.Ring."+qo.name+"|wrong-value", fmt.Sprintf("lq=%d lp=%d row=%d q=%d idx=%d a=%d b=%d c=%d got=%d want=%d (exact=%v range<=%v)",
									lq, lp, i, q, j, ra[i][j], rb[i][j], cin, ro[i][j], op.model(q, ra[i][j], rb[i][j], cin, 0, 0), op.exact, rngOf(*op, q)), rc)
								bad = true
							}
							if f := float64(ro[i][j]) / float64(q); f > maxOverQ {
								maxOverQ = f
							}
						}
					}
					if qo.name == "MulCoeffsMontgomeryLazyThenAddLazy" {
						// documented (ringqp and ring.SubRing): product in [0, 2q-1] added on p3 without reduction, i.e.
						// [0, 3q-2] for a reduced accumulator
						over3q := false
						for i, q := range mods {
							over3q = over3q || maxv(ro[i]) > 3*q-2
						}
						c.Check(!over3q, "C01|ringqp.Ring.MulCoeffsMontgomeryLazyThenAddLazy|range-above-documented-3q-2", func() string {
							return fmt.Sprintf("accumulator in [0,q-1], operands in [0,q-1]: max output = %.3f q, documented [0, 3q-2] (lq=%d lp=%d moduli=%v)", maxOverQ, lq, lp, mods)
						})
					}
					if !qpAboveIntact(o, lq, lp) {
						c.Violate("C01|ringqp.Ring."+qo.name+"|rows-above-level-modified", fmt.Sprintf("lq=%d lp=%d", lq, lp), rc)
					}
					if !a.Equal(&a0) || !b.Equal(&b0) {
						c.Violate("C01|ringqp.Ring."+qo.name+"|input-modified", fmt.Sprintf("lq=%d lp=%d", lq, lp), rc)
					}
				}
			}
			// row-wise judge of a QP output
			judge := func(name string, f func(), o ringqp.Poly, model func(i int, q uint64, j int) uint64, top func(q uint64) uint64, exact bool) bool {
				if !c.Try("C01|ringqp.Ring."+name, f) {
					return false
				}
				c.Eval(1)
				rows := qpRows(o, lq, lp)
				for i, q := range mods {
					for j := 0; j < n; j++ {
						w, g := model(i, q, j), rows[i][j]
						if exact && g != w || !exact && (g%q != w%q || g > top(q)) {
							c.Violate("C01|ringqp.Ring."+name+"|wrong-value", fmt.Sprintf("lq=%d lp=%d row=%d q=%d idx=%d got=%d want=%d exact=%v", lq, lp, i, q, j, g, w, exact), rc)
							return false
						}
					}
				}
				if !qpAboveIntact(o, lq, lp) {
					c.Violate("C01|ringqp.Ring."+name+"|rows-above-level-modified", fmt.Sprintf("lq=%d lp=%d", lq, lp), rc)
				}
				return true
			}
			pat := eng.Pick(rnd, gen.PatUniform, gen.PatTop, gen.PatLaneTop)
			a := mk(false, eng.Pick(rnd, dQ, d2Q), pat, rnd.N(8))
			ar := qpRows(*a.CopyNew(), lq, lp)
			// ---- transforms: NTT judged through the ring family (row-wise SubRing.NTT is judged by the ntt family)
			na := mk(false, dQ, gen.PatZero, 0)
			r.NTT(a, na)
			nar := qpRows(*na.CopyNew(), lq, lp)
			okRef := true
			{
				// reference rows straight from the SubRings
				tmp := make([]uint64, n)
				for i := range mods {
					var s *ring.SubRing
					if i <= lq {
						s = rq.SubRings[i]
					} else {
						s = rp.SubRings[i-lq-1]
					}
					s.NTT(ar[i], tmp)
					okRef = okRef && eqv(tmp, nar[i])
				}
				c.Check(okRef, "C01|ringqp.Ring.NTT|wrong-value", func() string { return fmt.Sprintf("lq=%d lp=%d differs from SubRing.NTT row by row", lq, lp) })
			}
			if okRef {
				o := mk(true, dAny, gen.PatUniform, 0)
				if judge("NTTLazy", func() { r.NTTLazy(a, o) }, o, func(i int, q uint64, j int) uint64 { return nar[i][j] }, func(q uint64) uint64 { return 6*q - 2 }, false) {
					// documented range of NTTLazy: [0, 6q-2]
					over2q := false
					var mx float64
					for i, row := range qpRows(o, lq, lp) {
						over2q = over2q || maxv(row) > 6*mods[i]-2
						if f := float64(maxv(row)) / float64(mods[i]); f > mx {
							mx = f
						}
					}
					c.Check(!over2q, "C01|ringqp.Ring.NTTLazy|range-above-documented-6q-2", func() string {
						return fmt.Sprintf("max output = %.3f q, documented [0, 6q-2] (lq=%d lp=%d N=%d type=%s moduli=%v)", mx, lq, lp, n, rc.Type, mods)
					})
				}
				o = mk(true, dAny, gen.PatUniform, 0)
				judge("INTTLazy", func() { r.INTTLazy(na, o) }, o, func(i int, q uint64, j int) uint64 { return ar[i][j] }, r2Q1, false)
				o = mk(true, dAny, gen.PatUniform, 0)
				judge("INTT", func() { r.INTT(na, o) }, o, func(i int, q uint64, j int) uint64 { return ar[i][j] % q }, nil, true)
				// in place
				ip := *a.CopyNew()
				judge("NTT", func() { r.NTT(ip, ip) }, ip, func(i int, q uint64, j int) uint64 { return nar[i][j] }, nil, true)
				judge("INTTLazy", func() { r.INTTLazy(ip, ip) }, ip, func(i int, q uint64, j int) uint64 { return ar[i][j] }, r2Q1, false)
			}
			// ---- automorphisms
			{
				x := mk(false, dQ, eng.Pick(rnd, gen.PatUniform, gen.PatTop, gen.PatOneHot), rnd.N(n))
				xr := qpRows(*x.CopyNew(), lq, lp)
				for _, g := range []uint64{3, 5, nth - 1, (rnd.U64() % nth) | 1, ((rnd.U64() % nth) | 1) + nth*(1+rnd.U64()%1000)} {
					want := make([][]uint64, len(mods))
					for i, q := range mods {
						want[i] = modelAut(rc.Type, xr[i], g, q)
					}
					o := mk(true, dAny, gen.PatZero, 0)
					judge("Automorphism", func() { r.Automorphism(x, g, o) }, o, func(i int, q uint64, j int) uint64 { return want[i][j] }, rLeQ, false)
					if rc.Type == "ci" && g&3 != 1 {
						continue
					}
					nx := mk(false, dQ, gen.PatZero, 0)
					r.NTT(x, nx)
					no := mk(true, dAny, gen.PatZero, 0)
					if !c.Try("C01|ringqp.Ring.AutomorphismNTT", func() { r.AutomorphismNTT(nx, g, no) }) {
						continue
					}
					back := mk(false, dQ, gen.PatZero, 0)
					nor := qpRows(no, lq, lp)
					tmpIn := mk(false, dQ, gen.PatZero, 0)
					for i, row := range qpRows(tmpIn, lq, lp) {
						copy(row, nor[i])
					}
					r.INTT(tmpIn, back)
					judge("AutomorphismNTT", func() {}, back, func(i int, q uint64, j int) uint64 { return want[i][j] }, nil, true)
					c.Check(qpAboveIntact(no, lq, lp), "C01|ringqp.Ring.AutomorphismNTT|rows-above-level-modified", nil)
					idx, err := ring.AutomorphismNTTIndex(n, nth, g)
					if err != nil {
						c.Violate("C01|ring.AutomorphismNTTIndex|error", err.Error(), nil)
						continue
					}
					wi := mk(true, dAny, gen.PatZero, 0)
					judge("AutomorphismNTTWithIndex", func() { r.AutomorphismNTTWithIndex(nx, idx, wi) }, wi, func(i int, q uint64, j int) uint64 { return nor[i][j] }, nil, true)
					acc := mk(true, d2Q, gen.PatUniform, 0)
					accr := qpRows(*acc.CopyNew(), lq, lp)
					judge("AutomorphismNTTWithIndexThenAddLazy", func() { r.AutomorphismNTTWithIndexThenAddLazy(nx, idx, acc) }, acc,
						func(i int, q uint64, j int) uint64 { return accr[i][j] + nor[i][j] }, nil, true)
					c.Count("qpx_automorphisms", 1)
				}
			}
			// ---- EvalPolyScalar, MulRNSScalarMontgomery
			{
				deg := 1 + rnd.N(3)
				ps := make([]ringqp.Poly, deg)
				psr := make([][][]uint64, deg)
				for d := range ps {
					ps[d] = mk(false, dQ, eng.Pick(rnd, gen.PatUniform, gen.PatTop), 0)
					psr[d] = qpRows(*ps[d].CopyNew(), lq, lp)
				}
				pt := eng.Pick(rnd, rnd.U64(), ^uint64(0), 0, 1, 2, 3)
				o := mk(false, dAny, gen.PatUniform, 0)
				judge("EvalPolyScalar", func() { r.EvalPolyScalar(ps, pt, o) }, o, func(i int, q uint64, j int) uint64 {
					var acc uint64
					for d := deg - 1; d >= 0; d-- {
						acc = ref.AddMod(ref.MulMod(acc, pt, q), psr[d][i][j], q)
					}
					return acc
				}, rLeQ, false)
			}
			// ---- RNS scalars. In-tree callers (multiparty.Combiner) use them on the ring at its maximum levels:
			// layout [Q_0..Q_maxQ, P_0..P_maxP].
			if lq == maxQ && lp == maxP {
				x, y := rnd.U64(), eng.Pick(rnd, rnd.U64(), 1, 2, ^uint64(0))
				var this, that, z ring.RNSScalar
				if c.Try("C01|ringqp.Ring.NewRNSScalarFromUInt64", func() {
					this, that, z = r.NewRNSScalarFromUInt64(x), r.NewRNSScalarFromUInt64(y), r.NewRNSScalar()
				}) {
					ok := len(this) == len(mods) && len(z) == len(mods)
					for i := 0; ok && i < len(mods); i++ {
						ok = this[i] == x%mods[i] && that[i] == y%mods[i] && z[i] == 0
					}
					c.Check(ok, "C01|ringqp.Ring.NewRNSScalarFromUInt64|wrong-value", func() string { return fmt.Sprintf("x=%d got=%v moduli=%v", x, this, mods) })
					if ok {
						chk := func(name string, f func(), out ring.RNSScalar, model func(i int, q uint64) uint64, top func(q uint64) uint64) {
							if !c.Try("C01|ringqp.Ring."+name, f) {
								return
							}
							okk := true
							for i, q := range mods {
								okk = okk && out[i]%q == model(i, q)%q && out[i] <= top(q)
							}
							c.Count("qpx_rns_scalar_ops", 1)
							c.Check(okk, "C01|ringqp.Ring."+name+"|wrong-value", func() string { return fmt.Sprintf("x=%d y=%d moduli=%v got=%v", x, y, mods, out) })
						}
						d := r.NewRNSScalar()
						chk("SubRNSScalar", func() { r.SubRNSScalar(that, this, d) }, d, func(i int, q uint64) uint64 { return ref.SubMod(y, x, q) }, rQ)
						m := r.NewRNSScalar()
						chk("MulRNSScalar", func() { r.MulRNSScalar(that, this, m) }, m, func(i int, q uint64) uint64 { return mred(y, x, q) }, r2Q1)
						// Inverse: Montgomery form in and out; zero is not invertible
						inv := r.NewRNSScalar()
						av := make([]uint64, len(mods))
						for i, q := range mods {
							av[i] = 1 + rnd.U64()%(q-1)
							inv[i] = ref.MulMod(av[i], ref.TwoTo64Mod(q), q)
						}
						sm := append(ring.RNSScalar(nil), inv...)
						chk("Inverse", func() { r.Inverse(inv) }, inv, func(i int, q uint64) uint64 { return ref.MulMod(ref.InvMod(av[i], q), ref.TwoTo64Mod(q), q) }, rQ)
						o := mk(false, dAny, gen.PatUniform, 0)
						judge("MulRNSScalarMontgomery", func() { r.MulRNSScalarMontgomery(a, sm, o) }, o, func(i int, q uint64, j int) uint64 { return ref.MulMod(ar[i][j], av[i], q) }, rQ, false)
					}
				}
			} else if lq < maxQ && lp >= 0 {
				// Below the maximum level of Q, NewRNSScalarFromUInt64 returns the residues of the active moduli
				// only ([Q_0..Q_lq, P_0..P_lp]); the operations must use the same layout.
				x, y := rnd.U64(), rnd.U64()
				var d ring.RNSScalar
				pan, _ := eng.Panics(func() {
					this, that := r.NewRNSScalarFromUInt64(x), r.NewRNSScalarFromUInt64(y)
					d = r.NewRNSScalarFromUInt64(0)
					r.SubRNSScalar(that, this, d)
				})
				ok := !pan && len(d) == len(mods)
				for i := 0; ok && i < len(mods); i++ {
					ok = d[i] == ref.SubMod(y, x, mods[i])
				}
				c.Count("qpx_rns_scalar_reduced_level", 1)
				c.Check(ok, "C01|ringqp.Ring.SubRNSScalar|scalar-layout-below-max-levelQ", func() string {
					return fmt.Sprintf("ringqp.Ring at (levelQ=%d of %d, levelP=%d): NewRNSScalarFromUInt64 gives %d residues (active moduli), SubRNSScalar splits its arguments at the full length of the Q chain (%d): panic=%v got=%v moduli=%v", lq, maxQ, lp, len(mods), maxQ+1, pan, d, mods)
				})
			}
			// ---- ExtendBasisSmallNormAndCenter: small centred value given modulo Q_0 -> same value modulo every P_i
			if lp >= 0 {
				bound := minU(minU(minOf(pm[:lp+1])-1, qm[0]/2), 1<<20)
				vals := make([]int64, n)
				in := qpPoly(n, maxQ, maxP, lq, lp, false, qm, pm, nil)
				for j := range vals {
					v := int64(rnd.U64()%(2*bound+1)) - int64(bound)
					if j < 4 {
						v = []int64{int64(bound), -int64(bound), 0, -1}[j]
					}
					vals[j] = v
					for i := 0; i <= lq; i++ {
						in.Q.Coeffs[i][j] = smod(v, qm[i])
					}
				}
				for _, aliased := range []bool{true, false} {
					outQ := in.Q
					if !aliased {
						outQ = ring.NewPoly(n, lq)
					}
					outP := qpPoly(n, maxQ, maxP, lq, lp, true, qm, pm, func(q uint64) []uint64 { return gen.Vec(rnd, n, ^uint64(0), gen.PatUniform, 0) }).P
					in0 := *in.Q.CopyNew()
					if !c.Try("C01|ringqp.Ring.ExtendBasisSmallNormAndCenter", func() { r.ExtendBasisSmallNormAndCenter(in.Q, lp, outQ, outP) }) {
						continue
					}
					ok := in.Q.Equal(&in0) && polyEq(outQ, in0, lq) && rowsAboveIntact(outP, lp)
					for i := 0; ok && i <= lp; i++ {
						for j := 0; j < n; j++ {
							if outP.Coeffs[i][j] != smod(vals[j], pm[i]) {
								ok = false
								break
							}
						}
					}
					c.Check(ok, "C01|ringqp.Ring.ExtendBasisSmallNormAndCenter|wrong-value", func() string {
						return fmt.Sprintf("lq=%d lp=%d aliased=%v bound=%d Q0=%d P=%v", lq, lp, aliased, bound, qm[0], pm[:lp+1])
					})
				}
			}
		}
	}
}

// smod returns v mod q in [0,q) for a signed v.
func smod(v int64, q uint64) uint64 {
	if v >= 0 {
		return uint64(v) % q
	}
	m := uint64(-v) % q
	if m == 0 {
		return 0
	}
	return q - m
}

// ---------------------------------------------------------------------------------------------
// family "nttx"
// ---------------------------------------------------------------------------------------------

func runNTTX(c *eng.Ctx, rc ringCfg) {
	r, err := rc.build()
	if err != nil {
		c.Violate("C01|ring.NewRing|error-on-admissible", fmt.Sprintf("%+v: %v", rc, err), rc)
		return
	}
	s := r.SubRings[0]
	q := s.Modulus
	n := r.N()
	nth := r.NthRoot()
	rnd := c.Rand()
	isCI := rc.Type == "ci"
	c.Sample(map[string]any{"kind": "nttx", "ring": rc})
	key := fmt.Sprintf("nttx/%s/%d/%d/%d", rc.Type, rc.LogN, rc.Bits[0], rc.Pos)

	// ---- 1. tables and roots (state anchored by the property: NTT tables / reduction constants)
	{
		c.Distinct(key+"/tables", true)
		// Factors: exactly the distinct prime factors of q-1
		m := q - 1
		okF := len(s.Factors) > 0
		for _, f := range s.Factors {
			if f < 2 || !gen.IsPrime(f) || (q-1)%f != 0 {
				okF = false
				break
			}
			for m%f == 0 {
				m /= f
			}
		}
		okF = okF && m == 1
		c.Check(okF, "C01|SubRing.Factors|not-the-prime-factors-of-q-1", func() string { return fmt.Sprintf("q=%d factors=%v", q, s.Factors) })
		isPrimRoot := func(g uint64, fs []uint64) bool {
			if g%q == 0 {
				return false
			}
			for _, f := range fs {
				if ref.PowMod(g, (q-1)/f, q) == 1 {
					return false
				}
			}
			return true
		}
		if okF {
			c.Check(isPrimRoot(s.PrimitiveRoot, s.Factors), "C01|SubRing.PrimitiveRoot|not-primitive", func() string { return fmt.Sprintf("q=%d g=%d", q, s.PrimitiveRoot) })
			var g1, g2 uint64
			var f1 []uint64
			var e1, e2 error
			if c.Try("C01|ring.PrimitiveRoot", func() {
				g1, f1, e1 = ring.PrimitiveRoot(q, nil)
				g2, _, e2 = ring.PrimitiveRoot(q, append([]uint64(nil), s.Factors...))
			}) {
				c.Check(e1 == nil && e2 == nil && isPrimRoot(g1, s.Factors) && isPrimRoot(g2, s.Factors) && len(f1) == len(s.Factors), "C01|ring.PrimitiveRoot|wrong-value", func() string {
					return fmt.Sprintf("q=%d g(nil)=%d err=%v factors=%v g(factors)=%d err=%v", q, g1, e1, f1, g2, e2)
				})
			}
			c.Check(ring.CheckPrimitiveRoot(s.PrimitiveRoot, q, s.Factors) == nil, "C01|ring.CheckPrimitiveRoot|rejects-primitive-root", nil)
			// a square is never a primitive root of an odd prime
			sq := ref.MulMod(s.PrimitiveRoot, s.PrimitiveRoot, q)
			c.Check(ring.CheckPrimitiveRoot(sq, q, s.Factors) != nil, "C01|ring.CheckPrimitiveRoot|accepts-non-primitive", func() string { return fmt.Sprintf("q=%d g^2=%d", q, sq) })
			c.Check(ring.CheckFactors(q-1, s.Factors) == nil, "C01|ring.CheckFactors|rejects-complete-list", nil)
			if len(s.Factors) > 1 {
				c.Check(ring.CheckFactors(q-1, s.Factors[1:]) != nil, "C01|ring.CheckFactors|accepts-incomplete-list", nil)
				_, _, e := ring.PrimitiveRoot(q, s.Factors[1:])
				c.Check(e != nil, "C01|ring.PrimitiveRoot|accepts-incomplete-factor-list", nil)
			}
			c.Check(ring.CheckFactors(q-1, append([]uint64{4}, s.Factors...)) != nil, "C01|ring.CheckFactors|accepts-composite-factor", nil)
		}
		// reduction constants of the SubRing
		brc := ring.GenBRedConstant(q)
		c.Check(s.BRedConstant == brc && s.MRedConstant*q == 1 && s.Mask == uint64(1)<<uint(ref.BitLen(q-1))-1 && s.N == n && s.NthRoot == nth,
			"C01|SubRing|wrong-constant", func() string {
				return fmt.Sprintf("q=%d bred=%v mred=%d mask=%#x", q, s.BRedConstant, s.MRedConstant, s.Mask)
			})
		// roots: RootsForward[bitrev(j)] = psi^j * 2^64, psi a primitive NthRoot-th root of unity; backward = inverses
		half := int(nth >> 1)
		lg := ref.BitLen(uint64(half)) - 1
		okT := len(s.RootsForward) == half && len(s.RootsBackward) == half
		if okT {
			Ri := minv(q)
			brv := func(x, bits int) int {
				y := 0
				for i := 0; i < bits; i++ {
					y = y<<1 | (x>>i)&1
				}
				return y
			}
			psi := ref.MulMod(s.RootsForward[brv(1, lg)], Ri, q)
			okT = ref.PowMod(psi, nth/2, q) == q-1 // order exactly NthRoot
			pw := uint64(1)
			for j := 0; okT && j < half; j++ {
				k := brv(j, lg)
				f := ref.MulMod(s.RootsForward[k], Ri, q)
				b := ref.MulMod(s.RootsBackward[k], Ri, q)
				okT = s.RootsForward[k] < q && s.RootsBackward[k] < q && f == pw && ref.MulMod(f, b, q) == 1
				pw = ref.MulMod(pw, psi, q)
			}
		}
		c.Check(okT, "C01|SubRing.NTTTable|wrong-constant", func() string { return fmt.Sprintf("q=%d N=%d NthRoot=%d type=%s", q, n, nth, rc.Type) })
		c.Count("ntt_tables_checked", 1)
	}

	// ---- 2. in-place transforms equal out-of-place ones
	for _, pat := range []int{gen.PatUniform, gen.PatTop, gen.PatLaneTop, gen.PatOneHot} {
		for _, top := range []uint64{q - 1, 2*q - 1} {
			a := gen.Vec(rnd, n, top, pat, rnd.N(n))
			o1 := make([]uint64, n)
			s.NTT(a, o1) // judged by the ntt family
			c.Distinct(fmt.Sprintf("%s/inplace/%d/%v", key, pat, top == q-1), true)
			ip := append([]uint64(nil), a...)
			if c.Try("C01|SubRing.NTT", func() { s.NTT(ip, ip) }) {
				c.Check(eqv(ip, o1), "C01|SubRing.NTT|in-place-differs", func() string { return fmt.Sprintf("q=%d N=%d type=%s pat=%d", q, n, rc.Type, pat) })
			}
			ip = append([]uint64(nil), a...)
			if c.Try("C01|SubRing.NTTLazy", func() { s.NTTLazy(ip, ip) }) {
				c.Check(eqv(reduceAll(ip, q), o1) && maxv(ip) <= 6*q-2, "C01|SubRing.NTTLazy|in-place-differs", func() string { return fmt.Sprintf("q=%d N=%d type=%s pat=%d max=%d", q, n, rc.Type, pat, maxv(ip)) })
			}
			ip = append([]uint64(nil), o1...)
			if c.Try("C01|SubRing.INTT", func() { s.INTT(ip, ip) }) {
				c.Check(eqv(ip, reduceAll(a, q)), "C01|SubRing.INTT|in-place-differs", func() string { return fmt.Sprintf("q=%d N=%d type=%s pat=%d", q, n, rc.Type, pat) })
			}
			ip = append([]uint64(nil), o1...)
			if c.Try("C01|SubRing.INTTLazy", func() { s.INTTLazy(ip, ip) }) {
				c.Check(eqv(reduceAll(ip, q), reduceAll(a, q)) && maxv(ip) <= 2*q-1, "C01|SubRing.INTTLazy|in-place-differs", func() string { return fmt.Sprintf("q=%d N=%d type=%s pat=%d", q, n, rc.Type, pat) })
			}
			c.Count("inplace_transforms", 4)
			// documented range of the exported transformer types
			if isCI {
				tr := ring.NewNumberTheoreticTransformerConjugateInvariant(s, n)
				o := make([]uint64, n)
				if c.Try("C01|NumberTheoreticTransformerConjugateInvariant.ForwardLazy", func() { tr.ForwardLazy(a, o) }) {
					// documented range: [0, 6q-2]
					c.Check(maxv(o) <= 6*q-2, "C01|NumberTheoreticTransformerConjugateInvariant.ForwardLazy|range-above-documented-6q-2", func() string {
						return fmt.Sprintf("q=%d N=%d pat=%d input<=%d: max output %d = %.3f q, documented [0, 6q-2]", q, n, pat, top, maxv(o), float64(maxv(o))/float64(q))
					})
				}
			}
		}
	}

	// ---- 3. exported free transforms, also with a dimension below the ring's own (first entries of the root
	// tables are the tables of the smaller ring: rlwe.SwitchCiphertextRingDegreeNTT relies on it)
	t := ring.Standard
	if isCI {
		t = ring.ConjugateInvariant
	}
	for gap := 1; n/gap >= 8 && gap <= 4; gap <<= 1 {
		m := n / gap
		small := r
		if gap > 1 {
			if small, err = ring.NewRingFromType(m, rc.Moduli, t); err != nil {
				c.Violate("C01|ring.NewRing|error-on-admissible", fmt.Sprintf("N=%d q=%d: %v", m, q, err), rc)
				break
			}
		}
		ss := small.SubRings[0]
		c.Distinct(fmt.Sprintf("%s/free/%d", key, gap), true)
		if gap > 1 {
			c.Count("free_transforms_sub_dimension", 1)
		}
		fwd := func(p1, p2 []uint64) { ring.NTTStandard(p1, p2, m, q, s.MRedConstant, s.BRedConstant, s.RootsForward) }
		fwdL := func(p1, p2 []uint64) { ring.NTTStandardLazy(p1, p2, m, q, s.MRedConstant, s.RootsForward) }
		bwd := func(p1, p2 []uint64) { ring.INTTStandard(p1, p2, m, ss.NInv, q, s.MRedConstant, s.RootsBackward) }
		bwdL := func(p1, p2 []uint64) { ring.INTTStandardLazy(p1, p2, m, ss.NInv, q, s.MRedConstant, s.RootsBackward) }
		names := [4]string{"NTTStandard", "NTTStandardLazy", "INTTStandard", "INTTStandardLazy"}
		if isCI {
			fwd = func(p1, p2 []uint64) {
				ring.NTTConjugateInvariant(p1, p2, m, q, s.MRedConstant, s.BRedConstant, s.RootsForward)
			}
			fwdL = func(p1, p2 []uint64) { ring.NTTConjugateInvariantLazy(p1, p2, m, q, s.MRedConstant, s.RootsForward) }
			bwd = func(p1, p2 []uint64) {
				ring.INTTConjugateInvariant(p1, p2, m, ss.NInv, q, s.MRedConstant, s.RootsBackward)
			}
			bwdL = func(p1, p2 []uint64) {
				ring.INTTConjugateInvariantLazy(p1, p2, m, ss.NInv, q, s.MRedConstant, s.RootsBackward)
			}
			names = [4]string{"NTTConjugateInvariant", "NTTConjugateInvariantLazy", "INTTConjugateInvariant", "INTTConjugateInvariantLazy"}
		}
		for _, pat := range []int{gen.PatUniform, gen.PatTop, gen.PatOneHot} {
			a := gen.Vec(rnd, m, q-1, pat, rnd.N(m))
			b := gen.Vec(rnd, m, q-1, eng.Pick(rnd, gen.PatUniform, gen.PatTop), 0)
			a0 := append([]uint64(nil), a...)
			na, nb, nl, back, bl := make([]uint64, m), make([]uint64, m), make([]uint64, m), make([]uint64, m), make([]uint64, m)
			if !c.Try("C01|ring."+names[0], func() { fwd(a, na); fwd(b, nb) }) {
				continue
			}
			c.Eval(1)
			// (i) convolution theorem in dimension m (independent of any other ring object)
			if m <= 256 {
				prod, mb, res := make([]uint64, m), make([]uint64, m), make([]uint64, m)
				s.MForm(nb, mb)
				s.MulCoeffsMontgomery(na, mb, prod)
				if c.Try("C01|ring."+names[2], func() { bwd(prod, res) }) {
					want := modelMul(rc.Type, a0, b, q)
					c.Check(eqv(res, want) && eqv(a, a0) && maxv(na) < q, "C01|ring."+names[0]+"|convolution-wrong", func() string {
						return fmt.Sprintf("q=%d ring N=%d transform N=%d type=%s pat=%d got=%s want=%s", q, n, m, rc.Type, pat, eng.U64s(res, 8), eng.U64s(want, 8))
					})
				}
			}
			// (ii) differential against a ring of degree m built from scratch
			ref1 := make([]uint64, m)
			ss.NTT(a0, ref1)
			c.Check(eqv(na, ref1), "C01|ring."+names[0]+"|differs-from-ring-of-that-degree", func() string {
				return fmt.Sprintf("q=%d ring N=%d transform N=%d type=%s pat=%d", q, n, m, rc.Type, pat)
			})
			if c.Try("C01|ring."+names[1], func() { fwdL(a, nl) }) {
				c.Check(eqv(reduceAll(nl, q), na) && maxv(nl) <= 6*q-2, "C01|ring."+names[1]+"|wrong-value-or-range", func() string {
					return fmt.Sprintf("q=%d ring N=%d transform N=%d type=%s pat=%d max=%d", q, n, m, rc.Type, pat, maxv(nl))
				})
			}
			if c.Try("C01|ring."+names[2], func() { bwd(na, back) }) {
				c.Check(eqv(back, a0), "C01|ring."+names[2]+"|roundtrip-wrong", func() string {
					return fmt.Sprintf("q=%d ring N=%d transform N=%d type=%s pat=%d", q, n, m, rc.Type, pat)
				})
			}
			if c.Try("C01|ring."+names[3], func() { bwdL(na, bl) }) {
				c.Check(eqv(reduceAll(bl, q), a0) && maxv(bl) <= 2*q-1, "C01|ring."+names[3]+"|wrong-value-or-range", func() string {
					return fmt.Sprintf("q=%d ring N=%d transform N=%d type=%s pat=%d max=%d", q, n, m, rc.Type, pat, maxv(bl))
				})
			}
			// in place (as rlwe.SwitchCiphertextRingDegreeNTT calls it), on a slice of exactly m entries that is the
			// head of a longer array: nothing behind it may change
			buf := make([]uint64, m+8)
			for i := range buf {
				buf[i] = sentinel
			}
			copy(buf, a0)
			if c.Try("C01|ring."+names[0], func() { fwd(buf[:m:m], buf[:m:m]) }) {
				ok := eqv(buf[:m], na)
				for _, v := range buf[m:] {
					ok = ok && v == sentinel
				}
				c.Check(ok, "C01|ring."+names[0]+"|in-place-differs", func() string { return fmt.Sprintf("q=%d ring N=%d transform N=%d type=%s", q, n, m, rc.Type) })
			}
		}
	}
}

// ---------------------------------------------------------------------------------------------
// family "refuse": constructors must answer non NTT-enabling arguments with an error (documented), not with
// a panic and not with a ring.
// ---------------------------------------------------------------------------------------------

func runRefuse(c *eng.Ctx) {
	good := gen.Primes(30, 64, 2, gen.PosAbove, nil) // = 1 mod 64: fine for N=16 (std, ci) and N=32 (std)
	only2N := uint64(0)                              // prime = 1 mod 2N but not mod 4N, N = 16
	for p := uint64(33); only2N == 0; p += 32 {
		if p%64 != 1 && gen.IsPrime(p) && p > 1000 {
			only2N = p
		}
	}
	type tc struct {
		name string
		f    func() (*ring.Ring, error)
	}
	tcs := []tc{
		{"N=0", func() (*ring.Ring, error) { return ring.NewRing(0, good) }},
		{"N=1", func() (*ring.Ring, error) { return ring.NewRing(1, good) }},
		{"N=4", func() (*ring.Ring, error) { return ring.NewRing(4, good) }},
		{"N=12", func() (*ring.Ring, error) { return ring.NewRing(12, good) }},
		{"N=24", func() (*ring.Ring, error) { return ring.NewRing(24, good) }},
		{"N=-16", func() (*ring.Ring, error) { return ring.NewRing(-16, good) }},
		{"no-moduli", func() (*ring.Ring, error) { return ring.NewRing(16, nil) }},
		{"empty-moduli", func() (*ring.Ring, error) { return ring.NewRing(16, []uint64{}) }},
		{"duplicate-moduli", func() (*ring.Ring, error) { return ring.NewRing(16, []uint64{good[0], good[1], good[0]}) }},
		{"composite-modulus", func() (*ring.Ring, error) { return ring.NewRing(16, []uint64{good[0], 33 * 97}) }}, // 3201 = 1 mod 32
		{"prime-not-1-mod-2N", func() (*ring.Ring, error) { return ring.NewRing(16, []uint64{good[0], 1000003}) }},
		{"even-modulus", func() (*ring.Ring, error) { return ring.NewRing(16, []uint64{good[0], 1 << 20}) }},
		{"ci-prime-1-mod-2N-only", func() (*ring.Ring, error) { return ring.NewRingConjugateInvariant(16, []uint64{only2N}) }},
		{"fromtype-ci-prime-1-mod-2N-only", func() (*ring.Ring, error) { return ring.NewRingFromType(16, []uint64{only2N}, ring.ConjugateInvariant) }},
		{"invalid-ring-type", func() (*ring.Ring, error) { return ring.NewRingFromType(16, good, ring.Type(7)) }},
	}
	for _, t := range tcs {
		t := t
		var r *ring.Ring
		var err error
		c.Distinct("refuse/"+t.name, true)
		if !c.Try("C01|ring.NewRing|refusal|"+t.name, func() { r, err = t.f() }) {
			continue
		}
		c.Count("refusals_checked", 1)
		// (the constructors document "an error is returned with a nil *Ring"; they return the error together with a
		// partially initialised ring. Only the error is required here: a caller that checks it is safe.)
		_ = r
		c.Check(err != nil, "C01|ring.NewRing|accepts-inadmissible|"+t.name, func() string { return fmt.Sprintf("err=%v ring=%v", err, r != nil) })
	}
	// the accepted neighbours, so that the refusals above are not vacuous
	for _, f := range []func() (*ring.Ring, error){
		func() (*ring.Ring, error) { return ring.NewRing(16, good) },
		func() (*ring.Ring, error) { return ring.NewRing(32, good) },
		func() (*ring.Ring, error) { return ring.NewRingConjugateInvariant(16, good) },
		func() (*ring.Ring, error) { return ring.NewRing(16, []uint64{only2N}) },
	} {
		r, err := f()
		c.Check(err == nil && r != nil, "C01|ring.NewRing|error-on-admissible", func() string { return fmt.Sprint(err) })
	}
	// AutomorphismNTTIndex documents two error conditions
	for _, a := range [][3]uint64{{12, 32, 5}, {16, 24, 5}, {24, 48, 5}} {
		a := a
		var err error
		var idx []uint64
		if c.Try("C01|ring.AutomorphismNTTIndex|refusal", func() { idx, err = ring.AutomorphismNTTIndex(int(a[0]), a[1], a[2]) }) {
			c.Check(err != nil && idx == nil, "C01|ring.AutomorphismNTTIndex|accepts-inadmissible", func() string { return fmt.Sprintf("N=%d NthRoot=%d", a[0], a[1]) })
			c.Count("refusals_checked", 1)
		}
	}
}

// ---------------------------------------------------------------------------------------------
// case generator of the extension families
// ---------------------------------------------------------------------------------------------

// raceTier: the checkptr sample needs the -race worker, whose build does not fit the quick budget.
func raceTier(tier string) bool { return tier == "thorough" }

func extCases(tier string, seed int64) []eng.Case {
	r := eng.NewRand("c01-ext-cases", seed)
	thorough := tier == "thorough"
	var out []eng.Case
	reps := 1
	if thorough {
		reps = 4
	}
	add := func(kind string, id string, rc ringCfg, run func(c *eng.Ctx, rc ringCfg)) {
		for rep := 0; rep < reps; rep++ {
			cid := id
			if rep > 0 {
				cid += fmt.Sprintf("/rep%d", rep)
			}
			cfg := rc
			out = append(out, eng.Case{ID: cid, Sig: "C01|" + kind, Desc: cfg, Run: func(c *eng.Ctx) { run(c, cfg) }})
		}
	}
	// A. scalar reductions: every bit size x every position (primes = 1 mod 16)
	for _, b := range append([]int{5, 6, 7}, bitSizes...) {
		for pos := 0; pos < 4; pos++ {
			pr := gen.Primes(b, 16, 1, pos, nil)
			if len(pr) == 0 {
				continue
			}
			rc := ringCfg{Type: "std", LogN: 3, Moduli: pr, Bits: []int{b}, Pos: pos}
			add("scal", fmt.Sprintf("scal/b%d/pos%d", b, pos), rc, runScalar)
		}
	}
	// A2. quotient-estimate boundary of the modular products (tiny-residue pairs): large primes at every position
	qb := []int{61, 60, 59, 58, 55, 45, 31}
	if thorough {
		qb = bitSizes
	}
	for _, b := range qb {
		for pos := 0; pos < 4; pos++ {
			pr := gen.Primes(b, 16, 1+r.N(3), pos, nil)
			if len(pr) == 0 {
				continue
			}
			rc := ringCfg{Type: "std", LogN: 3, Moduli: pr[len(pr)-1:], Bits: []int{b}, Pos: pos}
			add("quot", fmt.Sprintf("quot/b%d/pos%d", b, pos), rc, runQuot)
		}
	}
	// ... and primes at a distance 2^40..2^53 from 2^64/j: the low word of floor(2^128/q) is next to its maximum
	// (above) or minimum (below) while the fraction the constant discards is generic (right next to 2^64/j or
	// to a power of two it vanishes, and with it the worst case of the estimate)
	js := []uint64{9, 10, 11, 12, 13, 14, 15, 17, 19, 23, 29, 31, 33, 47, 63, 65, 127, 1023, 1<<20 + 1}
	if thorough {
		for j := uint64(18); j < 64; j++ {
			js = append(js, j)
		}
	}
	for _, j := range js {
		for _, down := range []bool{false, true} {
			// q*j = 2^64 +- e: the low word of the constant is 2^64 - j*e resp. j*e, its discarded fraction
			// ~ j*e^2/2^64 mod 1 is generic once e >> 2^32
			e := uint64(1)<<40 + r.U64()%(uint64(1)<<(41+uint(r.N(12))))
			at := ^uint64(0)/j + e/j
			if down {
				at = ^uint64(0)/j - e/j
			}
			pr := gen.PrimesFrom(at, 16, 1+r.N(3), down)
			if len(pr) == 0 {
				continue
			}
			q := pr[len(pr)-1]
			rc := ringCfg{Type: "std", LogN: 3, Moduli: []uint64{q}, Bits: []int{ref.BitLen(q)}, Pos: 4}
			if down {
				rc.Pos = 5
			}
			add("quot", fmt.Sprintf("quot/j%d/down=%v", j, down), rc, runQuot)
		}
	}
	// B. vector kernels under length / sub-slice / aliasing layouts: N = 16, every bit size
	for _, b := range append([]int{6, 7}, bitSizes...) {
		for pos := 0; pos < 4; pos++ {
			if !thorough && pos != int(r.N(4)) && !(b == 61 && pos == gen.PosBelow) {
				continue
			}
			pr := gen.Primes(b, 32, 1, pos, nil)
			if len(pr) == 0 {
				continue
			}
			rc := ringCfg{Type: "std", LogN: 4, Moduli: pr, Bits: []int{b}, Pos: pos}
			add("vecx", fmt.Sprintf("vecx/b%d/pos%d", b, pos), rc, runVecX)
		}
	}
	// C. transforms: in place, free functions with sub-dimension, tables
	logNs := []int{3, 4, 5, 6}
	nsizes := []int{0, 30, 45, 60, 61} // 0 = smallest admissible
	if thorough {
		logNs = []int{3, 4, 5, 6, 7, 8, 10}
		nsizes = append([]int{0, 1}, bitSizes...)
	}
	for _, typ := range []string{"std", "ci"} {
		for _, logN := range logNs {
			nth := uint64(2) << logN
			if typ == "ci" {
				nth <<= 1
			}
			for _, b := range nsizes {
				if b < 2 {
					b = ref.BitLen(nth) + 1 + b
				}
				for pos := 0; pos < 4; pos++ {
					if !thorough && pos != int(r.N(4)) {
						continue
					}
					pr := gen.Primes(b, nth, 1, pos, nil)
					if len(pr) == 0 {
						continue
					}
					rc := ringCfg{Type: typ, LogN: logN, Moduli: pr, Bits: []int{b}, Pos: pos}
					add("nttx", fmt.Sprintf("nttx/%s/logN%d/b%d/pos%d", typ, logN, b, pos), rc, runNTTX)
				}
			}
		}
	}
	// D. multi-modulus rings: Ring-level and ringqp-level entry points at every level
	type mcfg struct {
		typ  string
		logN int
		bits []int
	}
	// fixed boundary configurations: single modulus, smallest degree, many RNS moduli mixing 61-bit and small primes
	fixed := []mcfg{
		{"std", 3, []int{61}},
		{"std", 3, []int{30, 61, 20}},
		{"ci", 3, []int{45, 61}},
		{"std", 4, []int{61, 20, 61, 31, 60, 33, 61, 45}},
		{"ci", 4, []int{61, 30, 60, 20, 55, 61}},
		{"std", 5, []int{60, 61, 59}},
		{"ci", 5, []int{32, 33}},
		{"std", 6, []int{61, 61, 61, 61}},
	}
	nmulti := 10
	if thorough {
		nmulti = 250
	}
	cfgs := append([]mcfg{}, fixed...)
	for i := 0; i < nmulti; i++ {
		k := 1 + r.N(6)
		var bits []int
		for j := 0; j < k; j++ {
			bits = append(bits, eng.Pick(r, bitSizes...))
		}
		cfgs = append(cfgs, mcfg{eng.Pick(r, "std", "std", "ci"), eng.Pick(r, 3, 4, 5, 6), bits})
	}
	for i, m := range cfgs {
		nth := uint64(2) << m.logN
		if m.typ == "ci" {
			nth <<= 1
		}
		// dimension switching needs the moduli to fit the ring only; fold/unfold doubles the degree with the same root
		q, _ := gen.Chain(r, nth, m.bits, nil)
		if q == nil {
			continue
		}
		rc := ringCfg{Type: m.typ, LogN: m.logN, Moduli: q, Bits: m.bits, Pos: i}
		add("ringx", fmt.Sprintf("ringx/%s/logN%d/b%v/%d", m.typ, m.logN, m.bits, i), rc, runRingX)
		if len(q) >= 2 {
			for _, k := range []int{len(q) / 2, len(q) - 1} {
				if k < 1 || (k == len(q)-1 && k == len(q)/2) {
					continue
				}
				kk := k
				add("qpx", fmt.Sprintf("qpx/%s/logN%d/b%v/%d/split%d", m.typ, m.logN, m.bits, i, kk), rc, func(c *eng.Ctx, rc ringCfg) { runQPX(c, rc, kk) })
			}
			if len(q) == 2 {
				add("qpx", fmt.Sprintf("qpx/%s/logN%d/b%v/%d/split1", m.typ, m.logN, m.bits, i), rc, func(c *eng.Ctx, rc ringCfg) { runQPX(c, rc, 1) })
			}
		}
	}
	// F. memory-safety half of the property (thorough tier): a sample of the unsafe-window kernels runs in the
	// worker built with -race, which enables checkptr; a kernel window that leaves its allocation is fatal there
	// and is attributed to the case. (The degree-8 DoubleRNSScalar calls run on rows backed by larger arrays
	// and are judged by their guard words, see runRingX.)
	if raceTier(tier) {
		for i, b := range []int{20, 45, 61} {
			if pr := gen.Primes(b, 32, 1, i, nil); len(pr) > 0 {
				rc := ringCfg{Type: "std", LogN: 4, Moduli: pr, Bits: []int{b}, Pos: i}
				out = append(out, eng.Case{ID: fmt.Sprintf("race/checkptr/vecx/b%d", b), Sig: "C01|checkptr|vecx", Desc: rc, Run: func(c *eng.Ctx) { runVecX(c, rc); runVec(c, rc) }})
			}
		}
		for _, typ := range []string{"std", "ci"} {
			for _, logN := range []int{3, 4, 5, 6} {
				nth := uint64(2) << logN
				if typ == "ci" {
					nth <<= 1
				}
				if pr := gen.Primes(61, nth, 1, gen.PosBelow, nil); len(pr) > 0 {
					rc := ringCfg{Type: typ, LogN: logN, Moduli: pr, Bits: []int{61}, Pos: gen.PosBelow}
					out = append(out, eng.Case{ID: fmt.Sprintf("race/checkptr/ntt/%s/logN%d", typ, logN), Sig: "C01|checkptr|ntt", Desc: rc, Run: func(c *eng.Ctx) { runNTTX(c, rc); runNTT(c, rc) }})
				}
			}
		}
		for i, m := range fixed {
			nth := uint64(2) << m.logN
			if m.typ == "ci" {
				nth <<= 1
			}
			q, _ := gen.Chain(r, nth, m.bits, nil)
			if q == nil || len(q) > 4 {
				continue
			}
			rc := ringCfg{Type: m.typ, LogN: m.logN, Moduli: q, Bits: m.bits, Pos: i}
			out = append(out, eng.Case{ID: fmt.Sprintf("race/checkptr/ring/%s/logN%d/b%v", m.typ, m.logN, m.bits), Sig: "C01|checkptr|ring", Desc: rc, Run: func(c *eng.Ctx) {
				runRingX(c, rc)
				runRing(c, rc)
				if len(rc.Moduli) >= 2 {
					runQPX(c, rc, len(rc.Moduli)/2)
				}
			}})
		}
	}
	// E. refusal paths
	out = append(out, eng.Case{ID: "refuse/constructors", Sig: "C01|refuse", Desc: "constructor refusals", Run: runRefuse})
	return out
}
