package c20

import (
	"fmt"
	"math/big"
	"testing"

	"github.com/tuneinsight/lattigo/v6/core/rgsw/blindrot"
	"github.com/tuneinsight/lattigo/v6/core/rlwe"
	"github.com/tuneinsight/lattigo/v6/ring"
	"verif/harness/eng"
	"verif/harness/obs"
	"verif/harness/ref"
)

func TestProbeBR(t *testing.T) {
	r := eng.NewRand("probe", 1)
	br, _ := mkParams(r, 7, []int{55}, nil, "p", true)
	lwe, _ := mkParams(r, 4, []int{26}, nil, "p", true)
	pBR, _ := br.params()
	pLWE, _ := lwe.params()
	skBR := rlwe.NewKeyGenerator(pBR).GenSecretKeyNew()
	skLWE := rlwe.NewKeyGenerator(pLWE).GenSecretKeyNew()
	sL := skCoeffs(pLWE, skLWE)
	w := 7
	brk := blindrot.GenEvaluationKeyNew(pBR, skBR, pLWE, skLWE, rlwe.EvaluationKeyParameters{BaseTwoDecomposition: &w})
	N := pBR.N()
	scale := float64(br.Q[0]) / 4
	f := func(x float64) float64 { return x }
	F := blindrot.InitTestPolynomial(f, rlwe.NewScale(scale), pBR.RingQ(), -1, 1)
	Fc := obs.Plain(pBR.RingQ(), F, true, false)
	ev := blindrot.NewEvaluator(pBR, pLWE)
	pt := rlwe.NewPlaintext(pLWE, 0)
	qL := lwe.Q[0]
	for i := 0; i < 16; i++ {
		y := -1 + float64(i)/8
		pt.Value.Coeffs[0][i] = ref.ModU(big.NewInt(int64(y*float64(qL)/4)), qL)
	}
	pLWE.RingQ().NTT(pt.Value, pt.Value)
	ct := rlwe.NewCiphertext(pLWE, 1, 0)
	rlwe.NewEncryptor(pLWE, skLWE).Encrypt(pt, ct)
	m := map[int]*ring.Poly{}
	for i := 0; i < 16; i++ {
		m[i] = &F
	}
	res, err := ev.Evaluate(ct, m, brk)
	fmt.Println(err)
	phiL := obs.Centered(pLWE.RingQ(), obs.Phase(pLWE, &ct.Element, skLWE))
	_ = sL
	for i := 0; i < 16; i++ {
		ph := obs.Phase(pBR, &res[i].Element, skBR)
		best, bestv := -1, 1e300
		for k := 0; k < 2*N; k++ {
			want := pBR.RingQ().NewPoly()
			copy(want.Coeffs[0], ref.MonomialMul(Fc.Coeffs[0], k, br.Q[0]))
			st := obs.Stat(obs.Diff(pBR.RingQ(), ph, want))
			if f64(st.Max) < bestv {
				best, bestv = k, f64(st.Max)
			}
		}
		// model
		twoN := uint64(2 * N)
		NL := 16
		c0 := obs.Plain(pLWE.RingQ(), ct.Value[0], true, false).Coeffs[0]
		c1 := obs.Plain(pLWE.RingQ(), ct.Value[1], true, false).Coeffs[0]
		sw := func(x uint64) uint64 {
			v := new(big.Int).Mul(new(big.Int).SetUint64(x), new(big.Int).SetUint64(twoN))
			v = ref.RoundHalfUpDiv(v, new(big.Int).SetUint64(qL))
			return v.Uint64() & (twoN - 1)
		}
		kA, kB := int64(sw(c0[i])), int64(sw(c0[i]))
		nm1 := 0
		for j := 0; j < NL; j++ {
			var a uint64
			if j <= i {
				a = sw(c1[i-j])
				if a&1 == 0 && a != 0 { a ^= 1 }
			} else {
				a = sw(c1[NL+i-j])
				if a&1 == 0 && a != 0 { a ^= 1 }
				a = (twoN - a) & (twoN - 1)
			}
			if a == 0 { a = 1 }
			kA += int64(a) * sL[j]
			if a == twoN-1 { a = 1; nm1++ }
			kB += int64(a) * sL[j]
		}
		fmt.Printf("   modelA %d modelB %d (#a=-1: %d)\n", ((kA%int64(twoN))+int64(twoN))%int64(twoN), ((kB%int64(twoN))+int64(twoN))%int64(twoN), nm1)
		kreal := f64(phiL[i]) * float64(2*N) / float64(qL)
		fmt.Printf("slot %d kreal %.2f bestk %d (centred %d) noise %.3g\n", i, kreal, best, func() int { if best >= N { return best - 2*N }; return best }(), bestv)
	}
}
