package c20

// Family brx (coverage-audit extension of br): blind rotations through the entry points and
// object histories the br family does not reach.
//   - GenEvaluationKeyNew with partially specified / absent EvaluationKeyParameters (the in-tree
//     callers give BaseTwoDecomposition only), both secrets left intact;
//   - Evaluate with the MemBlindRotationEvaluationKeySet itself (its own GetBlindRotationKey /
//     GetEvaluationKeySet), bit-for-bit differential against the recording key set;
//   - refusal paths: a Galois key the algorithm requests is absent, the RGSW key source fails,
//     the evaluation-key source fails -> error (no panic), operands intact, and the evaluator
//     gives the bit-identical result afterwards;
//   - the empty slot subset;
//   - BlindRotateCore called directly with a chosen mask vector (all classes equal, all -1, all 0,
//     pairwise distinct classes, mixed) on a noisy accumulator.

import (
	"fmt"
	"math"
	"math/big"
	"sort"

	"github.com/tuneinsight/lattigo/v6/core/rgsw"
	"github.com/tuneinsight/lattigo/v6/core/rgsw/blindrot"
	"github.com/tuneinsight/lattigo/v6/core/rlwe"
	"github.com/tuneinsight/lattigo/v6/ring"

	"verif/harness/eng"
	"verif/harness/obs"
	"verif/harness/ref"
)

type brxDesc struct {
	BR        pcfg    `json:"br"`
	LWE       pcfg    `json:"lwe"`
	EvkShape  string  `json:"evkShape"` // none | w | lp | both | lq | lqw
	EvkLevelQ int     `json:"evkLevelQ"`
	LevelP    int     `json:"evkLevelP"`
	W         int     `json:"evkBaseTwo"`
	Func      string  `json:"func"`
	A         float64 `json:"a"`
	B         float64 `json:"b"`
}

// failing key sources
type failBRK struct {
	inner    blindrot.BlindRotationEvaluationKeySet
	failKey  int  // GetBlindRotationKey(failKey) fails (-1: never)
	failEvk  bool // GetEvaluationKeySet fails
	keyCalls int
}

func (f *failBRK) GetBlindRotationKey(i int) (*rgsw.Ciphertext, error) {
	f.keyCalls++
	if i == f.failKey {
		return nil, fmt.Errorf("harness: blind rotation key %d unavailable", i)
	}
	return f.inner.GetBlindRotationKey(i)
}

func (f *failBRK) GetEvaluationKeySet() (rlwe.EvaluationKeySet, error) {
	if f.failEvk {
		return nil, fmt.Errorf("harness: evaluation key set unavailable")
	}
	return f.inner.GetEvaluationKeySet()
}

// lweSwitch recomputes the documented modulus switch of an LWE ciphertext: a'[j] (made odd),
// b'[j] in [0, 2N).
func lweSwitch(pLWE rlwe.Parameters, q []uint64, ct *rlwe.Ciphertext, twoN uint64) (ap, bp []uint64) {
	lvl := ct.Level()
	rqL := pLWE.RingQ().AtLevel(lvl)
	QL := rqL.ModulusAtLevel[lvl]
	crtL := ref.NewCRT(q[:lvl+1])
	n := pLWE.N()
	sw := func(x *big.Int) uint64 {
		v := new(big.Int).Mul(x, new(big.Int).SetUint64(twoN))
		v = ref.RoundHalfUpDiv(v, QL)
		return v.Uint64() & (twoN - 1)
	}
	ap, bp = make([]uint64, n), make([]uint64, n)
	p0 := obs.Plain(rqL, ct.Value[0], ct.IsNTT, false)
	p1 := obs.Plain(rqL, ct.Value[1], ct.IsNTT, false)
	for j := 0; j < n; j++ {
		ap[j] = sw(crtL.Reconstruct(crtL.Column(p1.Coeffs, j)))
		if ap[j]&1 == 0 && ap[j] != 0 {
			ap[j] ^= 1
		}
		bp[j] = sw(crtL.Reconstruct(crtL.Column(p0.Coeffs, j)))
	}
	return
}

// rotationOf: k = b'_s + sum_j A_s[j]*s_j mod 2N with A_s[j] = a'[s-j] (j<=s), -a'[N+s-j] (j>s);
// a mask value 0 is processed as 1.
func rotationOf(s int, ap, bp []uint64, sk []int64, twoN uint64) int {
	n := len(ap)
	k := int64(bp[s])
	for j := 0; j < n; j++ {
		var a uint64
		if j <= s {
			a = ap[s-j]
		} else {
			a = (twoN - ap[n+s-j]) & (twoN - 1)
		}
		if a == 0 {
			a = 1
		}
		k += int64(a) * sk[j]
	}
	return int(((k % int64(twoN)) + int64(twoN)) % int64(twoN))
}

func runBRX(c *eng.Ctx, d brxDesc) {
	eBR := newEnv(c, d.BR, "C20")
	eLWE := newEnv(c, d.LWE, "C20")
	if eBR == nil || eLWE == nil {
		return
	}
	rnd := c.Rand()
	pBR, pLWE := eBR.params, eLWE.params
	NBR, NLWE := pBR.N(), pLWE.N()
	twoN := uint64(2 * NBR)
	c.Sample(map[string]any{"family": "brx", "desc": d})
	cfgs := fmt.Sprintf("BR{logN=%d Q=%v P=%v ntt=%v xs=%s} LWE{logN=%d Q=%v ntt=%v xs=%s} evkParams{%s levelQ=%d levelP=%d w=%d} f=%s interval=[%g,%g]",
		d.BR.LogN, d.BR.Q, d.BR.P, d.BR.NTT, d.BR.Xs, d.LWE.LogN, d.LWE.Q, d.LWE.NTT, d.LWE.Xs, d.EvkShape, d.EvkLevelQ, d.LevelP, d.W, d.Func, d.A, d.B)
	pair := fmt.Sprintf("%s|%s|%s|lp%d|w%d", d.BR.short(), d.LWE.short(), d.EvkShape, d.LevelP, d.W)

	// ---------------- key generation with the requested shape of EvaluationKeyParameters
	lpIn, wIn, lqIn := d.LevelP, d.W, d.EvkLevelQ
	var evkArgs []rlwe.EvaluationKeyParameters
	lp, w := pBR.MaxLevelP(), 0 // documented defaults (ResolveEvaluationKeyParameters)
	lqBR := pBR.MaxLevelQ()
	switch d.EvkShape {
	case "w":
		evkArgs = []rlwe.EvaluationKeyParameters{{BaseTwoDecomposition: &wIn}}
		w = wIn
	case "lp":
		evkArgs = []rlwe.EvaluationKeyParameters{{LevelP: &lpIn}}
		lp = lpIn
	case "both":
		evkArgs = []rlwe.EvaluationKeyParameters{{LevelP: &lpIn, BaseTwoDecomposition: &wIn}}
		lp, w = lpIn, wIn
	case "lq":
		// keys below the top level: GenEvaluationKeyNew honours LevelQ and Evaluate works at the level of
		// the keys; the rows of Q_LevelQ of the result are judged (the level the result claims is not)
		evkArgs = []rlwe.EvaluationKeyParameters{{LevelQ: &lqIn}}
		lqBR = lqIn
	case "lqw":
		evkArgs = []rlwe.EvaluationKeyParameters{{LevelQ: &lqIn, BaseTwoDecomposition: &wIn}}
		lqBR, w = lqIn, wIn
	}
	lowKeys := lqBR < pBR.MaxLevelQ()
	skBR0, skLWE0 := eBR.sk.CopyNew(), eLWE.sk.CopyNew()
	var brk blindrot.MemBlindRotationEvaluationKeySet
	if !c.Try("C20|blindrot.GenEvaluationKeyNew", func() { brk = blindrot.GenEvaluationKeyNew(pBR, eBR.sk, pLWE, eLWE.sk, evkArgs...) }) {
		return
	}
	c.Check(eBR.sk.Equal(skBR0) && eLWE.sk.Equal(skLWE0), "C20|blindrot.GenEvaluationKeyNew|secret-key-modified", func() string { return cfgs })
	QBR := pBR.RingQ().ModulusAtLevel[lqBR]
	rqBR := pBR.RingQ().AtLevel(lqBR)
	if !c.Check(len(brk.BlindRotationKeys) == NLWE, "C20|blindrot.GenEvaluationKeyNew|wrong-number-of-rgsw-keys", func() string {
		return fmt.Sprintf("%s: %d keys for N_LWE=%d", cfgs, len(brk.BlindRotationKeys), NLWE)
	}) {
		return
	}
	okShape := true
	for i, k := range brk.BlindRotationKeys {
		if k == nil || k.LevelQ() != lqBR || k.LevelP() != lp || k.Value[0].BaseTwoDecomposition != w || k.Value[1].BaseTwoDecomposition != w {
			okShape = false
			c.Violate("C20|blindrot.GenEvaluationKeyNew|rgsw-key-shape|"+d.EvkShape, fmt.Sprintf("%s key %d: want levelQ=%d levelP=%d w=%d", cfgs, i, lqBR, lp, w), d)
			break
		}
	}
	c.Eval(1)
	for _, gk := range brk.AutomorphismKeys {
		if !c.Check(gk.LevelQ() == lqBR && gk.LevelP() == lp && gk.BaseTwoDecomposition == w, "C20|blindrot.GenEvaluationKeyNew|galois-key-shape|"+d.EvkShape, func() string {
			return fmt.Sprintf("%s galEl=%d: levelQ=%d levelP=%d w=%d, want (%d,%d,%d)", cfgs, gk.GaloisElement, gk.LevelQ(), gk.LevelP(), gk.BaseTwoDecomposition, lqBR, lp, w)
		}) {
			okShape = false
		}
	}
	if !okShape {
		return
	}
	c.Count("brx_keygen/"+d.EvkShape, 1)
	// every RGSW key encrypts X^{s_i}
	for _, i := range []int{0, NLWE - 1, rnd.N(NLWE)} {
		g := make([]int64, NBR)
		t := ((int(eLWE.s[i]) % (2 * NBR)) + 2*NBR) % (2 * NBR)
		if t < NBR {
			g[t] = 1
		} else {
			g[t-NBR] = -1
		}
		eBR.checkRGSW("blindrot.GenEvaluationKeyNew#"+d.EvkShape, brk.BlindRotationKeys[i], g, eBR.B, 6, fmt.Sprintf("brx/key/%s/s=%d", pair, eLWE.s[i]))
	}

	// ---------------- test polynomial and bounds
	scale := f64(QBR) / 4
	tab := make([]float64, 16)
	for i := range tab {
		tab[i] = float64(rnd.N(2001)-1000) / 1000
	}
	f := mkFunc(d.Func, d.A, d.B, tab)
	var poly ring.Poly
	if !c.Try("C20|blindrot.InitTestPolynomial", func() { poly = blindrot.InitTestPolynomial(f, rlwe.NewScale(scale), rqBR, d.A, d.B) }) {
		return
	}
	F := obs.Plain(rqBR, poly, true, false)
	poly0 := *poly.CopyNew()
	epb := eBR.epBound(lqBR, lp, w, eBR.B)
	ksb := eBR.ksBound(lqBR, lp, w)
	autMax := float64(NLWE + 2*((NBR/2-1)/brWindow+1) + 1)
	bound := float64(NLWE)*epb + autMax*ksb
	meaningful := bound < f64(QBR)/16
	pathc := eBR.epPathSig(lqBR, lp, w)

	judge := func(api, variant string, out *rlwe.Ciphertext, want ring.Poly, extra float64, key string) bool {
		if out != nil && lowKeys && out.Level() > lqBR {
			c.Count("brx_results_claiming_a_level_above_the_key_level", 1)
			out = out.CopyNew()
			out.Resize(1, lqBR)
		}
		okMeta := out != nil && out.Level() == lqBR && out.IsNTT == pBR.NTTFlag() && out.Degree() == 1
		if !c.Check(okMeta, "C20|"+api+"|result-metadata", func() string { return cfgs }) {
			return false
		}
		st := obs.Stat(obs.Diff(rqBR, obs.Phase(pBR, &out.Element, eBR.sk), want))
		c.Count("noise_measurements", 1)
		c.Distinct(key, meaningful)
		if meaningful {
			c.Count("meaningful_bounds", 1)
		}
		return c.Check(f64(st.Max) <= bound+extra, "C20|"+api+"|differs-from-rotation-model|"+pathc+"|"+variant, func() string {
			return fmt.Sprintf("%s: |phase - model|inf=2^%.1f bound=2^%.1f Q=2^%d", cfgs, st.MaxLog2, math.Log2(bound+extra), QBR.BitLen())
		})
	}

	// ---------------- one LWE ciphertext, a handful of slots
	lvl := pLWE.MaxLevelQ()
	rqL := pLWE.RingQ().AtLevel(lvl)
	QL := rqL.ModulusAtLevel[lvl]
	scaleL := f64(QL) / 4
	pt := rlwe.NewPlaintext(pLWE, lvl)
	for j := 0; j < NLWE; j++ {
		m, _ := big.NewFloat(math.Round((2*rnd.F64() - 1) * scaleL)).Int(nil)
		for u := 0; u <= lvl; u++ {
			pt.Value.Coeffs[u][j] = ref.ModU(m, d.LWE.Q[u])
		}
	}
	if pt.IsNTT {
		rqL.NTT(pt.Value, pt.Value)
	}
	ct := rlwe.NewCiphertext(pLWE, 1, lvl)
	if err := rlwe.NewEncryptor(pLWE, eLWE.sk).Encrypt(pt, ct); err != nil {
		c.Violate("C20|rlwe.Encryptor.Encrypt|error-on-admissible", err.Error(), d)
		return
	}
	ct0 := ct.CopyNew()
	set := map[int]bool{0: rnd.Bool(), NLWE - 1: true}
	for len(set) < 4 {
		set[rnd.N(NLWE)] = true
	}
	var slots []int
	tpm := map[int]*ring.Poly{}
	for s, on := range set {
		if on {
			slots = append(slots, s)
			tpm[s] = &poly
		}
	}
	sort.Ints(slots)
	ap, bp := lweSwitch(pLWE, d.LWE.Q, ct0, twoN)
	wantOf := func(k int) ring.Poly {
		wv := rqBR.NewPoly()
		for u := 0; u <= lqBR; u++ {
			copy(wv.Coeffs[u], ref.MonomialMul(F.Coeffs[u], k, d.BR.Q[u]))
		}
		return wv
	}

	// results of keys below the top level carry rows above the key level that nothing defines
	trim := func(ct *rlwe.Ciphertext) *rlwe.Ciphertext {
		if ct != nil && lowKeys && ct.Level() > lqBR {
			ct = ct.CopyNew()
			ct.Resize(1, lqBR)
		}
		return ct
	}
	var ev1, ev2 *blindrot.Evaluator
	if !c.Try("C20|blindrot.NewEvaluator", func() { ev1, ev2 = blindrot.NewEvaluator(pBR, pLWE), blindrot.NewEvaluator(pBR, pLWE) }) {
		return
	}
	memEvk := rlwe.NewMemEvaluationKeySet(nil, brk.AutomorphismKeys...)
	rec := &recBRK{keys: brk.BlindRotationKeys, evk: &recEvk{inner: memEvk, req: map[uint64]int{}}, req: map[int]int{}}
	var resA map[int]*rlwe.Ciphertext
	var err error
	api := "blindrot.Evaluator.Evaluate"
	if !c.Try("C20|"+api, func() { resA, err = ev1.Evaluate(ct, tpm, rec) }) {
		return
	}
	if err != nil {
		c.Violate("C20|"+api+"|error-on-admissible|"+d.EvkShape, fmt.Sprintf("%s: %v %v", cfgs, err, rec.evk.errs), d)
		return
	}
	if !c.Check(len(resA) == len(slots), "C20|"+api+"|result-slots", func() string { return fmt.Sprintf("%s: %d results for slots %v", cfgs, len(resA), slots) }) {
		return
	}
	for _, s := range slots {
		k := rotationOf(s, ap, bp, eLWE.s, twoN)
		judge(api, "evk-params-"+d.EvkShape, resA[s], wantOf(k), 0, fmt.Sprintf("brx/%s/%s/slot%d/k%d", pair, d.Func, s, k))
		c.Count("br_results_judged", 1)
	}

	// ---------------- the in-memory key set itself, on a second evaluator
	{
		var resB map[int]*rlwe.Ciphertext
		var errB error
		if c.Try("C20|"+api, func() { resB, errB = ev2.Evaluate(ct, tpm, brk) }) {
			if errB != nil {
				c.Violate("C20|"+api+"|error-on-admissible|MemBlindRotationEvaluationKeySet", fmt.Sprintf("%s: %v", cfgs, errB), d)
			} else {
				same := len(resB) == len(resA)
				for _, s := range slots {
					same = same && resB[s] != nil && trim(resB[s]).Equal(trim(resA[s]))
				}
				c.Check(same, "C20|"+api+"|MemBlindRotationEvaluationKeySet-differs-from-equivalent-key-source", func() string { return cfgs })
				c.Count("brx_mem_keyset_differentials", 1)
			}
		}
	}

	// ---------------- refusal paths on evaluator 1
	requested := make([]uint64, 0, len(rec.evk.req))
	for g := range rec.evk.req {
		requested = append(requested, g)
	}
	sort.Slice(requested, func(i, j int) bool { return requested[i] < requested[j] })
	type refusal struct {
		name string
		src  blindrot.BlindRotationEvaluationKeySet
	}
	var refusals []refusal
	if len(requested) > 0 {
		drop := requested[rnd.N(len(requested))]
		var kept []*rlwe.GaloisKey
		for _, gk := range brk.AutomorphismKeys {
			if gk.GaloisElement != drop {
				kept = append(kept, gk)
			}
		}
		refusals = append(refusals, refusal{"requested-galois-key-absent", blindrot.MemBlindRotationEvaluationKeySet{BlindRotationKeys: brk.BlindRotationKeys, AutomorphismKeys: kept}})
	}
	refusals = append(refusals,
		refusal{"rgsw-key-source-fails", &failBRK{inner: brk, failKey: eng.Pick(rnd, 0, 1, NLWE-1, rnd.N(NLWE))}},
		refusal{"evaluation-key-source-fails", &failBRK{inner: brk, failKey: -1, failEvk: true}},
	)
	for _, rf := range refusals {
		var res map[int]*rlwe.Ciphertext
		var rerr error
		pan, pv := eng.Panics(func() { res, rerr = ev1.Evaluate(ct, tpm, rf.src) })
		c.Count("brx_refusals", 1)
		c.Check(!pan && rerr != nil, "C20|"+api+"|missing-key-not-refused-with-error|"+rf.name, func() string {
			return fmt.Sprintf("%s: panic=%v (%v) err=%v results=%d", cfgs, pan, pv, rerr, len(res))
		})
		c.Check(ct.Equal(ct0) && poly.Equal(&poly0), "C20|"+api+"|operand-modified-by-refused-call|"+rf.name, func() string { return cfgs })
	}
	// the evaluator still computes the bit-identical result
	{
		var resC map[int]*rlwe.Ciphertext
		var errC error
		if c.Try("C20|"+api, func() { resC, errC = ev1.Evaluate(ct, tpm, brk) }) {
			same := errC == nil && len(resC) == len(resA)
			for _, s := range slots {
				same = same && resC[s] != nil && trim(resC[s]).Equal(trim(resA[s]))
			}
			c.Check(same, "C20|"+api+"|result-differs-after-refused-calls", func() string { return fmt.Sprintf("%s: err=%v", cfgs, errC) })
			c.Count("brx_history_differentials", 1)
		}
	}
	// empty slot subset
	{
		var resE map[int]*rlwe.Ciphertext
		var errE error
		if c.Try("C20|"+api, func() { resE, errE = ev1.Evaluate(ct, map[int]*ring.Poly{}, brk) }) {
			c.Check(errE == nil && len(resE) == 0, "C20|"+api+"|empty-slot-subset", func() string { return fmt.Sprintf("%s: err=%v results=%d", cfgs, errE, len(resE)) })
		}
	}
	c.Check(ct.Equal(ct0) && poly.Equal(&poly0), "C20|"+api+"|input-modified", func() string { return cfgs })

	// ---------------- BlindRotateCore directly: chosen mask vector, noisy accumulator
	// Evaluate documents acc = (T(X^{-g}), 0) -> T * X^{<a,s>}; by linearity an accumulator of
	// phase phi gives sigma_h(phi) * X^{<a,s>} with h = (-g)^{-1} mod 2N.
	var h uint64
	for x := uint64(1); x < twoN; x += 2 {
		if (x*(twoN-ring.GaloisGen))&(twoN-1) == 1 {
			h = x
			break
		}
	}
	oddOf := func(x int) uint64 { return uint64(x)&(twoN-1) | 1 }
	for _, kind := range []string{"all-same-class", "all-minus-one", "all-zero", "distinct-classes", "mixed"} {
		a := make([]uint64, NLWE)
		switch kind {
		case "all-same-class":
			v := oddOf(rnd.N(2 * NBR))
			for j := range a {
				a[j] = v
			}
		case "all-minus-one":
			for j := range a {
				a[j] = twoN - 1
			}
		case "all-zero":
		case "distinct-classes":
			perm := rnd.Perm(NBR)
			for j := range a {
				a[j] = uint64(2*perm[j%NBR] + 1)
			}
		default:
			special := []uint64{0, 1, twoN - 1, uint64(NBR) + 1, uint64(NBR) - 1, ring.GaloisGen, twoN - ring.GaloisGen, 3}
			for j := range a {
				if rnd.Bool() {
					a[j] = special[rnd.N(len(special))]
				} else {
					a[j] = oddOf(rnd.N(2 * NBR))
				}
			}
		}
		a0 := append([]uint64(nil), a...)
		k := int64(0)
		for j, v := range a {
			if v == 0 {
				v = 1
			}
			k += int64(v) * eLWE.s[j]
		}
		kk := int(((k % int64(twoN)) + int64(twoN)) % int64(twoN))
		// accumulator: a fresh NTT-domain encryption of a large message
		acc := rlwe.NewCiphertext(pBR, 1, lqBR)
		acc.IsNTT = true
		mpt := rlwe.NewPlaintext(pBR, lqBR)
		mpt.IsNTT = true
		for u := 0; u <= lqBR; u++ {
			copy(mpt.Value.Coeffs[u], F.Coeffs[u])
		}
		rqBR.NTT(mpt.Value, mpt.Value)
		if err := rlwe.NewEncryptor(pBR, eBR.sk).Encrypt(mpt, acc); err != nil {
			c.Violate("C20|rlwe.Encryptor.Encrypt|error-on-admissible", err.Error(), d)
			return
		}
		acc.IsNTT = true
		phi := obs.Phase(pBR, &acc.Element, eBR.sk)
		want := rqBR.NewPoly()
		for u := 0; u <= lqBR; u++ {
			q := d.BR.Q[u]
			copy(want.Coeffs[u], ref.MonomialMul(ref.Automorphism(phi.Coeffs[u], h, q), kk, q))
		}
		var cerr error
		if !c.Try("C20|blindrot.Evaluator.BlindRotateCore", func() { cerr = ev2.BlindRotateCore(a, acc, brk) }) {
			continue
		}
		if cerr != nil {
			c.Violate("C20|blindrot.Evaluator.BlindRotateCore|error-on-admissible|"+kind, fmt.Sprintf("%s: %v", cfgs, cerr), d)
			continue
		}
		c.Count("brx_core_direct_calls", 1)
		// out: NTT domain accumulator (BlindRotateCore does not leave the NTT domain)
		okMeta := acc.Level() == lqBR && acc.IsNTT && acc.Degree() == 1
		if c.Check(okMeta, "C20|blindrot.Evaluator.BlindRotateCore|accumulator-metadata", func() string { return cfgs }) {
			st := obs.Stat(obs.Diff(rqBR, obs.Phase(pBR, &acc.Element, eBR.sk), want))
			c.Count("noise_measurements", 1)
			c.Distinct(fmt.Sprintf("brx/core/%s/%s/k%d", pair, kind, kk), meaningful)
			c.Check(f64(st.Max) <= bound, "C20|blindrot.Evaluator.BlindRotateCore|differs-from-rotation-model|"+pathc+"|"+kind, func() string {
				return fmt.Sprintf("%s mask=%s: |phase - sigma_h(phase_in)*X^k|inf=2^%.1f bound=2^%.1f Q=2^%d k=%d", cfgs, kind, st.MaxLog2, math.Log2(bound), QBR.BitLen(), kk)
			})
		}
		same := true
		for j := range a {
			same = same && a[j] == a0[j]
		}
		c.Check(same, "C20|blindrot.Evaluator.BlindRotateCore|mask-vector-modified", func() string { return cfgs })
	}
}
