package c20

import (
	"fmt"
	"math"

	"github.com/tuneinsight/lattigo/v6/core/rgsw"
	"github.com/tuneinsight/lattigo/v6/core/rlwe"
	"github.com/tuneinsight/lattigo/v6/ring"

	"verif/harness/eng"
	"verif/harness/gen"
	"verif/harness/obs"
	"verif/harness/ref"
)

type epDesc struct {
	P      pcfg `json:"params"`
	Trials int  `json:"trials"`
}

type epTrial struct {
	lq, lp, w int
}

func minv(q uint64) uint64 { return ref.InvMod(ref.TwoTo64Mod(q), q) }

// epPath names the code path ExternalProduct documents for the configuration.
func (e *env) epPath(lq, lp int) string {
	if lp >= 1 {
		return "multiP"
	}
	if lq == 0 && lp == -1 && e.pc.Q[0]>>29 == 0 {
		return "fast32"
	}
	if lp == 0 {
		return "singleP"
	}
	return "noP"
}

// epPathSig refines epPath for signatures: on the fast path 2*ceil(bits(q)/w) products
// el*NTTLazy(digit) (el < q, NTTLazy documented up to 6q-2) are summed in uint64 without reduction.
func (e *env) epPathSig(lq, lp, w int) string {
	path := e.epPath(lq, lp)
	if path == "fast32" && w > 0 {
		q0 := float64(e.pc.Q[0])
		nd := float64((ref.BitLen(e.pc.Q[0]) + w - 1) / w)
		if 2*nd*(q0-1)*(6*q0-2) >= 0x1p64 {
			return "fast32-lazy-sum-can-exceed-64-bits"
		}
	}
	return path
}

var inPatterns = []string{"fresh", "uniform", "top", "digitmax", "onehot", "fresh", "uniform"}

// genInput builds an NTT-domain degree-1 ciphertext at level lq following the pattern.
func (e *env) genInput(rnd *eng.Rand, pat string, lq int) *rlwe.Ciphertext {
	rq := e.params.RingQ().AtLevel(lq)
	ct := rlwe.NewCiphertext(e.params, 1, lq)
	ct.IsNTT = true
	if pat == "fresh" {
		pt := rlwe.NewPlaintext(e.params, lq)
		pt.IsNTT = true
		for x := 0; x < e.n; x++ {
			v := int64(rnd.N(1<<16)) - 1<<15
			for u := 0; u <= lq; u++ {
				q := rq.SubRings[u].Modulus
				// message scaled into the upper half of the modulus
				pt.Value.Coeffs[u][x] = ref.MulMod(modI(v, q), (q>>17)%q, q)
			}
		}
		rq.NTT(pt.Value, pt.Value)
		if err := rlwe.NewEncryptor(e.params, e.sk).Encrypt(pt, ct); err != nil {
			panic(err)
		}
		return ct
	}
	for k := 0; k < 2; k++ {
		for u := 0; u <= lq; u++ {
			q := rq.SubRings[u].Modulus
			var v []uint64
			switch pat {
			case "uniform":
				v = gen.Vec(rnd, e.n, q-1, gen.PatUniform, 0)
			case "top":
				v = gen.Vec(rnd, e.n, q-1, gen.PatTop, 0)
			case "digitmax":
				v = gen.Vec(rnd, e.n, uint64(1)<<(ref.BitLen(q)-1)-1, gen.PatTop, 0)
			case "onehot":
				v = gen.Vec(rnd, e.n, q-1, gen.PatOneHot, rnd.N(e.n))
			}
			copy(ct.Value[k].Coeffs[u], v)
		}
		rq.NTT(ct.Value[k], ct.Value[k])
	}
	return ct
}

// mulSmall returns g*phi (g over Z) row by row with the naive negacyclic model.
func (e *env) mulSmall(g []int64, phi ring.Poly, level int) ring.Poly {
	rq := e.params.RingQ().AtLevel(level)
	out := rq.NewPoly()
	grows := rowsOf(e.params.RingQ(), level, g)
	for u := 0; u <= level; u++ {
		copy(out.Coeffs[u], ref.NegacyclicMul(grows[u], phi.Coeffs[u], rq.SubRings[u].Modulus))
	}
	return out
}

// exactSum recomputes sum_{k,i,j} digit_{i,j}(c_k) * rgsw[k][i][j][comp] in the NTT domain for
// every prime of Q (and the single prime of P when lp == 0). Valid for lp <= 0 only.
// c: coefficient-domain components of the input ciphertext.
func (e *env) exactSum(c [2]ring.Poly, rg *rgsw.Ciphertext, lq, lp, w int) (accQ [2][][]uint64, accP [2][]uint64) {
	rq := e.params.RingQ()
	n := e.n
	for comp := 0; comp < 2; comp++ {
		accQ[comp] = make([][]uint64, lq+1)
		for u := range accQ[comp] {
			accQ[comp][u] = make([]uint64, n)
		}
		if lp == 0 {
			accP[comp] = make([]uint64, n)
		}
	}
	mask := ^uint64(0)
	if w > 0 {
		mask = uint64(1)<<w - 1
	}
	d := make([]uint64, n)
	dn := make([]uint64, n)
	addRow := func(sub *ring.SubRing, el0, el1 []uint64, a0, a1 []uint64) {
		q := sub.Modulus
		mi := minv(q)
		for x := range d {
			dn[x] = d[x] % q
		}
		sub.NTT(dn, dn)
		for x := 0; x < n; x++ {
			a0[x] = ref.AddMod(a0[x], ref.MulMod(dn[x], ref.MulMod(el0[x]%q, mi, q), q), q)
			a1[x] = ref.AddMod(a1[x], ref.MulMod(dn[x], ref.MulMod(el1[x]%q, mi, q), q), q)
		}
	}
	for k := 0; k < 2; k++ {
		for i := range rg.Value[k].Value {
			for j := range rg.Value[k].Value[i] {
				for x := 0; x < n; x++ {
					d[x] = (c[k].Coeffs[i][x] >> (j * w)) & mask
				}
				el := rg.Value[k].Value[i][j]
				for u := 0; u <= lq; u++ {
					addRow(rq.SubRings[u], el[0].Q.Coeffs[u], el[1].Q.Coeffs[u], accQ[0][u], accQ[1][u])
				}
				if lp == 0 {
					addRow(e.params.RingP().SubRings[0], el[0].P.Coeffs[0], el[1].P.Coeffs[0], accP[0], accP[1])
				}
			}
		}
	}
	return
}

func cloneCt(ct *rlwe.Ciphertext) *rlwe.Ciphertext { return ct.CopyNew() }

func runEP(c *eng.Ctx, d epDesc) {
	e := newEnv(c, d.P, "C20")
	if e == nil {
		return
	}
	rnd := c.Rand()
	params := e.params
	c.Sample(map[string]any{"family": "ep", "params": d.P})
	enc := rgsw.NewEncryptor(params, e.sk)
	eval := rgsw.NewEvaluator(params, nil)
	lqMax, lpMax := params.MaxLevelQ(), params.MaxLevelP()

	// enumerate (levelQ, levelP) pairs, sample when there are many
	var trials []epTrial
	for lp := -1; lp <= lpMax; lp++ {
		for lq := 0; lq <= lqMax; lq++ {
			ws := []int{0}
			if lp <= 0 {
				ws = []int{eng.Pick(rnd, 1, 2, 3, 4, 5, 6, 7, 8), eng.Pick(rnd, 9, 11, 13, 16, 20, 24, 30), 0}
				if e.epPath(lq, lp) == "fast32" {
					ws = []int{eng.Pick(rnd, 1, 2, 3), eng.Pick(rnd, 4, 5, 6, 7, 8), eng.Pick(rnd, 9, 12, 15, 20, 28), 0}
				}
			} else if rnd.N(4) == 0 {
				ws = []int{0, 5} // documented as ignored when levelP > 0
			}
			for _, w := range ws {
				trials = append(trials, epTrial{lq, lp, w})
			}
		}
	}
	if len(trials) > d.Trials {
		perm := rnd.Perm(len(trials))
		keep := []epTrial{trials[len(trials)-1]}
		for _, p := range perm {
			if len(keep) >= d.Trials {
				break
			}
			keep = append(keep, trials[p])
		}
		trials = keep
	}
	chain := fmt.Sprintf("%d/%v/%v", d.P.LogN, d.P.QBits, d.P.PBits)

	for ti, t := range trials {
		lq, lp, w := t.lq, t.lp, t.w
		path := e.epPath(lq, lp)
		rq := params.RingQ().AtLevel(lq)
		Ql := rq.ModulusAtLevel[lq]
		gk := gKinds[(ti+rnd.N(len(gKinds)))%len(gKinds)]
		g := gPoly(rnd, gk, e.n)
		ntt, mont := rnd.Bool(), rnd.Bool()
		ptLevel := lq
		if rnd.N(3) == 0 {
			ptLevel = lqMax
		}
		var pt *rlwe.Plaintext
		if gk != "nil" {
			pt = e.gPlaintext(g, ptLevel, ntt, mont)
		}
		rg := rgsw.NewCiphertext(params, lq, lp, w)
		cfgs := fmt.Sprintf("levelQ=%d levelP=%d w=%d g=%s pt(ntt=%v,mont=%v,level=%d) path=%s Q=%v P=%v logN=%d", lq, lp, w, gk, ntt, mont, ptLevel, path, d.P.Q, d.P.P, d.P.LogN)
		// the four (IsNTT, IsMontgomery) combinations are distinct branches of Encrypt
		ptClass := "pt-coeff-or-plain"
		if ntt && mont {
			ptClass = "pt-ntt-montgomery"
		}
		var ptBefore *ring.Poly
		if pt != nil {
			ptBefore = pt.Value.CopyNew()
		}
		var eerr error
		if !c.Try("C20|rgsw.Encryptor.Encrypt", func() { eerr = enc.Encrypt(pt, rg) }) {
			continue
		}
		if eerr != nil {
			c.Violate("C20|rgsw.Encryptor.Encrypt|error-on-admissible", fmt.Sprintf("%s lq=%d lp=%d w=%d: %v", d.P.short(), lq, lp, w, eerr), d)
			continue
		}
		if pt != nil {
			c.Check(pt.Value.Equal(ptBefore), "C20|rgsw.Encryptor.Encrypt|plaintext-modified|"+ptClass, func() string { return cfgs })
		}
		if !e.checkRGSW("rgsw.Encryptor.Encrypt#"+ptClass, rg, g, e.B, 12, fmt.Sprintf("enc/%s/%d/%d/%d/%s/%v/%v", chain, lq, lp, w, gk, ntt, mont), cfgs) {
			continue
		}
		rg0 := copyRGSW(rg)
		// the fast path accumulates 2*ceil(bits(q)/w) products el*NTTLazy(digit) in 64-bit words without
		// reduction; el < q and NTTLazy is documented to return values up to 6q-2
		pathSig := e.epPathSig(lq, lp, w)
		bound := e.epBound(lq, lp, w, e.B)
		meaningful := bound < f64(Ql)/8
		// the exact model is vacuous only in the single-prime w=0 no-P configuration (noise >= Q by construction)
		exact := lp <= 0 && !(lp == -1 && w == 0 && lq == 0)

		for _, mode := range []string{"inplace", "outofplace", "outofplace-reused"} {
			pat := inPatterns[rnd.N(len(inPatterns))]
			ct := e.genInput(rnd, pat, lq)
			phi := obs.Phase(params, &ct.Element, e.sk)
			want := e.mulSmall(g, phi, lq)
			cin := [2]ring.Poly{obs.Plain(rq, ct.Value[0], true, false), obs.Plain(rq, ct.Value[1], true, false)}
			ct0 := cloneCt(ct)
			var out *rlwe.Ciphertext
			modeClass := "outofplace"
			api := "C20|rgsw.Evaluator.ExternalProduct"
			ok := true
			switch mode {
			case "inplace":
				modeClass = "inplace"
				out = ct
				ok = c.Try(api, func() { eval.ExternalProduct(ct, rg, ct) })
			default:
				if mode == "outofplace-reused" {
					// dirty the evaluator buffers with an unrelated in-place product first
					other := e.genInput(rnd, "uniform", lq)
					ok = c.Try(api, func() { eval.ExternalProduct(other, rg, other) })
				}
				out = rlwe.NewCiphertext(params, 1, lq)
				out.IsNTT = true
				for k := 0; k < 2; k++ {
					for u := 0; u <= lq; u++ {
						copy(out.Value[k].Coeffs[u], gen.Vec(rnd, e.n, rq.SubRings[u].Modulus-1, gen.PatUniform, 0))
					}
				}
				ok = ok && c.Try(api, func() { eval.ExternalProduct(ct, rg, out) })
				if ok {
					c.Check(ct.Equal(ct0), api+"|input-modified", func() string { return cfgs })
				}
			}
			if !ok {
				continue
			}
			key := fmt.Sprintf("ep/%s/%s/%d/%d/%d/%s/%s/%s", path, chain, lq, lp, w, gk, pat, mode)
			c.Distinct(key, meaningful || exact)
			c.Count("ep_products/"+path+"/"+modeClass, 1)
			// 1. noise against the worst-case bound
			ph := obs.Phase(params, &out.Element, e.sk)
			st := obs.Stat(obs.Diff(rq, ph, want))
			c.Count("noise_measurements", 1)
			if meaningful {
				c.Count("meaningful_bounds", 1)
				if f64(st.Max) <= bound {
					c.Max("max_passing_ep_noise_over_bound_x1000/"+path, int64(1000*f64(st.Max)/bound))
				}
			}
			c.Check(f64(st.Max) <= bound, api+"|noise-above-worst-case-bound|"+pathSig+"|"+modeClass, func() string {
				return fmt.Sprintf("%s input=%s mode=%s: |phase(out) - g*phase(in)|inf=2^%.1f bound=2^%.1f Q_level=2^%d", cfgs, pat, mode, st.MaxLog2, math.Log2(bound), Ql.BitLen())
			})
			// 2. exact gadget sum
			if exact {
				accQ, accP := e.exactSum(cin, rg0, lq, lp, w)
				c.Count("exact_model_evaluations", 1)
				bad := ""
				if lp == -1 {
					for comp := 0; comp < 2 && bad == ""; comp++ {
						for u := 0; u <= lq && bad == ""; u++ {
							q := rq.SubRings[u].Modulus
							for x := 0; x < e.n; x++ {
								if out.Value[comp].Coeffs[u][x]%q != accQ[comp][u][x] {
									bad = fmt.Sprintf("component %d prime #%d NTT index %d: got %d want %d", comp, u, x, out.Value[comp].Coeffs[u][x], accQ[comp][u][x])
									break
								}
							}
						}
					}
				} else {
					p0 := d.P.P[0]
					subP := params.RingP().SubRings[0]
					for comp := 0; comp < 2 && bad == ""; comp++ {
						o := obs.Plain(rq, out.Value[comp], true, false)
						xp := make([]uint64, e.n)
						subP.INTT(accP[comp], xp)
						xq := make([][]uint64, lq+1)
						for u := 0; u <= lq; u++ {
							xq[u] = make([]uint64, e.n)
							rq.SubRings[u].INTT(accQ[comp][u], xq[u])
						}
						for x := 0; x < e.n && bad == ""; x++ {
							found := false
							for delta := -1; delta <= 1 && !found; delta++ {
								all := true
								for u := 0; u <= lq; u++ {
									q := rq.SubRings[u].Modulus
									pm := p0 % q
									v := ref.AddMod(ref.MulMod(o.Coeffs[u][x]%q, pm, q), xp[x]%q, q)
									switch delta {
									case 1:
										v = ref.AddMod(v, pm, q)
									case -1:
										v = ref.SubMod(v, pm, q)
									}
									if v != xq[u][x] {
										all = false
										break
									}
								}
								found = all
							}
							if !found {
								bad = fmt.Sprintf("component %d coefficient %d: out*P + [X]_P + delta*P != X for delta in {-1,0,1}", comp, x)
							}
						}
					}
				}
				c.Check(bad == "", api+"|differs-from-exact-gadget-sum|"+pathSig+"|"+modeClass, func() string {
					return fmt.Sprintf("%s input=%s mode=%s: %s", cfgs, pat, mode, bad)
				})
			} else if lp <= 0 {
				c.Count("exact_model_vacuous_single_prime_w0", 1)
			}
		}
		c.Check(equalRGSW(rg, rg0), "C20|rgsw.Evaluator.ExternalProduct|rgsw-operand-modified", func() string { return cfgs })
	}
}
