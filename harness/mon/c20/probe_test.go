package c20

import (
	"fmt"
	"testing"

	"github.com/tuneinsight/lattigo/v6/core/rgsw"
	"github.com/tuneinsight/lattigo/v6/core/rlwe"
	"verif/harness/eng"
	"verif/harness/obs"
)

func TestProbeRows(t *testing.T) {
	r := eng.NewRand("probe", 1)
	pc, _ := mkParams(r, 8, []int{45}, nil, "h1", true)
	params, _ := pc.params()
	e := &env{pc: pc, params: params, n: params.N()}
	e.sk = rlwe.NewKeyGenerator(params).GenSecretKeyNew()
	e.s = skCoeffs(params, e.sk)
	e.B, _ = obs.ErrBound(params)
	enc := rgsw.NewEncryptor(params, e.sk)
	for _, gk := range []string{"one", "tern3", "tern3","tern3"} {
		for _, fl := range [][2]bool{{false, false}, {true, false}, {false, true}, {true, true}} {
			g := gPoly(r, gk, e.n)
			pt := e.gPlaintext(g, 0, fl[0], fl[1])
			rg := rgsw.NewCiphertext(params, 0, -1, 0)
			enc.Encrypt(pt, rg)
			rq := params.RingQ()
			m0 := rowsOf(rq, 0, g)
			m1 := rowsOf(rq, 0, negaI(g, e.s))
			fmt.Println(gk, fl, l1(g), f64(e.gadgetRowNoise(&rg.Value[0], 0, 0, m0)), f64(e.gadgetRowNoise(&rg.Value[1], 0, 0, m1)))
		}
	}
}
