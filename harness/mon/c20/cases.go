package c20

import (
	"fmt"

	"verif/harness/eng"
	"verif/harness/gen"
)

func mkParams(r *eng.Rand, logN int, qbits, pbits []int, xs string, ntt bool) (pcfg, bool) {
	q, p := gen.Chain(r, uint64(2)<<logN, qbits, pbits)
	if q == nil {
		return pcfg{}, false
	}
	return pcfg{LogN: logN, Q: q, P: p, QBits: qbits, PBits: pbits, Xs: xs, NTT: ntt}, true
}

var xsKinds = []string{"p", "h8", "hHalf", "hN", "gauss", "p", "h1"}

func cases(tier string, seed int64) []eng.Case {
	r := eng.NewRand("c20-cases", seed)
	thorough := tier == "thorough"
	var out []eng.Case

	// ------------------------------------------------------------ external products
	nEP, epTrials := 112, 7
	if thorough {
		nEP, epTrials = 1100, 12
	}
	qsz := []int{30, 36, 45, 50, 55, 58, 60}
	psz := []int{36, 45, 55, 60, 61}
	for i := 0; i < nEP; i++ {
		logN := eng.Pick(r, 4, 5, 6, 7, 8)
		var qb, pb []int
		switch i % 9 {
		case 8: // many RNS digits: lazy accumulation over >= 8 gadget rows with 61-bit auxiliary primes
			logN = eng.Pick(r, 4, 5)
			for j := 0; j < 8+r.N(3); j++ {
				qb = append(qb, eng.Pick(r, 45, 55, 60))
			}
			pb = []int{61, 61}
			if r.N(3) == 0 {
				pb = []int{61}
			}
			if (i/9)%2 == 1 {
				// small Q primes with 61-bit auxiliary primes and 6..8 digits: the overflow margin of P (2^64/p ~ 8)
				// is much smaller than the one of Q, so the P rows need their own, more frequent, reductions
				qb = qb[:0]
				nq := 12 + r.N(5)
				for j := 0; j < nq; j++ {
					qb = append(qb, eng.Pick(r, 36, 36, 40, 45))
				}
				pb = []int{61, 61}
				if r.N(3) == 0 {
					pb = []int{61, 61, 61}
					for j := 0; j < 6; j++ {
						qb = append(qb, 36)
					}
				}
			}
		case 0: // 32-bit fast path, prime just below 2^29 or smaller
			qb = []int{eng.Pick(r, 29, 29, 28, 27, 25, 20)}
			if r.N(3) == 0 {
				logN = eng.Pick(r, 9, 10)
			}
		case 1: // fast path reachable at level 0 of a larger chain
			qb = []int{eng.Pick(r, 29, 28, 26), eng.Pick(r, qsz...)}
			if r.Bool() {
				pb = []int{eng.Pick(r, psz...)}
			}
		case 2: // single prime, no P
			qb = []int{eng.Pick(r, qsz...)}
		case 3: // several primes of mixed sizes, no P
			for j := 0; j < 2+r.N(2); j++ {
				qb = append(qb, eng.Pick(r, qsz...))
			}
		case 4: // one auxiliary prime
			for j := 0; j < 1+r.N(3); j++ {
				qb = append(qb, eng.Pick(r, qsz...))
			}
			pb = []int{eng.Pick(r, psz...)}
		case 5, 6: // two auxiliary primes
			for j := 0; j < 1+r.N(4); j++ {
				qb = append(qb, eng.Pick(r, qsz...))
			}
			pb = []int{eng.Pick(r, 55, 60, 61), eng.Pick(r, psz...)}
		default: // three auxiliary primes
			for j := 0; j < 2+r.N(3); j++ {
				qb = append(qb, eng.Pick(r, qsz...))
			}
			pb = []int{eng.Pick(r, 55, 60, 61), eng.Pick(r, psz...), eng.Pick(r, psz...)}
		}
		pc, ok := mkParams(r, logN, qb, pb, eng.Pick(r, xsKinds...), true)
		if !ok {
			continue
		}
		d := epDesc{P: pc, Trials: epTrials}
		out = append(out, eng.Case{ID: fmt.Sprintf("ep/%d/%s", i, pc.short()), Sig: "C20|rgsw.Evaluator.ExternalProduct", Desc: d, Run: func(c *eng.Ctx) { runEP(c, d) }})
	}

	// ------------------------------------------------------------ RGSW algebra
	nAlg, algTrials := 32, 3
	if thorough {
		nAlg, algTrials = 300, 5
	}
	for i := 0; i < nAlg; i++ {
		logN := eng.Pick(r, 4, 5, 6)
		var qb, pb []int
		for j := 0; j < 1+r.N(3); j++ {
			qb = append(qb, eng.Pick(r, 28, 36, 45, 55, 60))
		}
		for j := 0; j < i%4; j++ {
			pb = append(pb, eng.Pick(r, psz...))
		}
		pc, ok := mkParams(r, logN, qb, pb, eng.Pick(r, xsKinds...), true)
		if !ok {
			continue
		}
		d := algDesc{P: pc, Trials: algTrials}
		out = append(out, eng.Case{ID: fmt.Sprintf("alg/%d/%s", i, pc.short()), Sig: "C20|rgsw.algebra", Desc: d, Run: func(c *eng.Ctx) { runAlg(c, d) }})
	}

	// ------------------------------------------------------------ blind rotations
	type brShape struct {
		qb, pb []int
		lp, w  int
	}
	shapes := []brShape{
		{[]int{28}, nil, -1, 4},                      // 32-bit fast path
		{[]int{29}, nil, -1, 3},                      // 32-bit fast path, prime just below 2^29
		{[]int{55}, nil, -1, 7},                      // general path, power-of-two digits
		{[]int{58}, nil, -1, 16},                     //
		{[]int{45, 45}, nil, -1, 0},                  // one prime per digit, no P
		{[]int{50}, []int{55}, 0, 0},                 // single P
		{[]int{50}, []int{55}, 0, 8},                 // single P with power-of-two digits
		{[]int{45, 45}, []int{60, 60}, 1, 0},         // two P
		{[]int{45, 45}, []int{60, 60}, 0, 0},         // keys at levelP 0 of a two-P chain
		{[]int{36, 36, 36}, []int{61, 61, 61}, 2, 0}, // three P
	}
	pairs := [][2]int{{4, 5}, {4, 6}, {5, 6}, {6, 6}, {4, 7}, {5, 7}, {6, 8}, {5, 8}, {6, 9}, {5, 9}, {7, 7}, {4, 8}}
	nBR := 44
	if thorough {
		nBR = 330
		pairs = append(pairs, [2]int{8, 9}, [2]int{9, 9}, [2]int{7, 10}, [2]int{9, 10}, [2]int{8, 11}, [2]int{6, 10})
	}
	funcSets := [][]string{{"sign"}, {"id"}, {"table"}, {"sign", "id", "table", "sq"}, {"step", "table"}, {"id", "sq"}}
	intervals := [][2]float64{{-1, 1}, {-1, 1}, {-4, 4}, {-2, 6}, {0, 1}, {-3, -1}}
	for i := 0; i < nBR; i++ {
		pr := pairs[i%len(pairs)]
		if !thorough && i%11 == 10 {
			pr = [2]int{eng.Pick(r, 7, 8), eng.Pick(r, 9, 10)}
		}
		sh := shapes[(i/2+i)%len(shapes)]
		lweXs := []string{"h1", "h8", "hHalf", "hN", "p", "gauss"}[i%6]
		brXs := eng.Pick(r, "p", "p", "hN", "h8", "gauss")
		br, ok := mkParams(r, pr[1], sh.qb, sh.pb, brXs, i%5 != 3)
		if !ok {
			continue
		}
		lweBits := []int{eng.Pick(r, pr[1]+4, pr[1]+6, 20, 26, 30)}
		lweLevel := 0
		if len(sh.qb) >= 2 && r.N(3) == 0 {
			// two-prime LWE chain, ciphertext at the top or at level 0
			lweBits = append(lweBits, eng.Pick(r, 20, 25))
			lweLevel = r.N(2)
		}
		lwe, ok := mkParams(r, pr[0], lweBits, nil, lweXs, i%3 != 2)
		if !ok {
			continue
		}
		iv := intervals[i%len(intervals)]
		kind := []string{"mixed", "ends", "grid", "mixed", "random"}[i%5]
		slotMode := []string{"all", "sparse", "first", "last", "sparse"}[(i/3)%5]
		ncts := 4
		if pr[0] >= 7 {
			slotMode = []string{"sparse", "first", "last"}[i%3]
		}
		if pr[0] <= 5 && kind == "grid" {
			slotMode = "all"
			ncts = min(20, (1<<pr[1]+1)/(1<<pr[0])+1) // every point of the discretisation grid
		}
		d := brDesc{BR: br, LWE: lwe, LevelP: sh.lp, W: sh.w, Funcs: funcSets[i%len(funcSets)], A: iv[0], B: iv[1], Kind: kind, SlotMode: slotMode, NCts: ncts, LWELevel: lweLevel}
		out = append(out, eng.Case{ID: fmt.Sprintf("br/%d/%s/%s/lp%d/w%d/%s/%s", i, br.short(), lwe.short(), sh.lp, sh.w, kind, slotMode), Sig: "C20|blindrot.Evaluator.Evaluate", Desc: d, Run: func(c *eng.Ctx) { runBR(c, d) }})
	}
	// stock parameters of blindrot_test.go (sign on 16 slot values, 32-bit fast path, N=1024)
	nStock := 1
	if thorough {
		nStock = 4
	}
	for i := 0; i < nStock; i++ {
		br := pcfg{LogN: 10, Q: []uint64{0x7fff801}, QBits: []int{27}, Xs: "p", NTT: i%2 == 0}
		lwe := pcfg{LogN: 9, Q: []uint64{0x3001}, QBits: []int{14}, Xs: "p", NTT: true}
		d := brDesc{BR: br, LWE: lwe, LevelP: -1, W: 7, Funcs: []string{"sign"}, A: -1, B: 1, Kind: "stock", SlotMode: "first", NCts: 1}
		out = append(out, eng.Case{ID: fmt.Sprintf("br/stock/%d", i), Sig: "C20|blindrot.Evaluator.Evaluate", Desc: d, Run: func(c *eng.Ctx) { runBR(c, d) }})
	}
	return append(out, extCases(tier, seed)...)
}

// extCases: families added by the coverage audit (ext.go, brx.go). They draw from their own
// stream so that the cases above are unchanged.
func extCases(tier string, seed int64) []eng.Case {
	r := eng.NewRand("c20-cases-ext", seed)
	thorough := tier == "thorough"
	var out []eng.Case
	qsz := []int{30, 36, 45, 50, 55, 58, 60}
	psz := []int{36, 45, 55, 60, 61}

	// ------------------------------------------------------------ epx
	nEPX, epxTrials := 20, 3
	if thorough {
		nEPX, epxTrials = 180, 5
	}
	for i := 0; i < nEPX; i++ {
		logN := eng.Pick(r, 4, 5, 6, 7)
		var qb, pb []int
		switch i % 7 {
		case 0: // 32-bit fast path
			qb = []int{eng.Pick(r, 29, 28, 27, 25)}
		case 1: // fast path at level 0 of a longer chain, with or without P
			qb = []int{eng.Pick(r, 29, 28, 26), eng.Pick(r, qsz...)}
			if r.Bool() {
				pb = []int{eng.Pick(r, psz...)}
			}
		case 2:
			qb = []int{eng.Pick(r, qsz...)}
			if r.Bool() {
				qb = append(qb, eng.Pick(r, qsz...), eng.Pick(r, qsz...))
			}
		case 3:
			for j := 0; j < 1+r.N(3); j++ {
				qb = append(qb, eng.Pick(r, qsz...))
			}
			pb = []int{eng.Pick(r, psz...)}
		case 4:
			for j := 0; j < 1+r.N(4); j++ {
				qb = append(qb, eng.Pick(r, qsz...))
			}
			pb = []int{eng.Pick(r, 55, 60, 61), eng.Pick(r, psz...)}
		case 5:
			for j := 0; j < 2+r.N(3); j++ {
				qb = append(qb, eng.Pick(r, qsz...))
			}
			pb = []int{61, eng.Pick(r, psz...), eng.Pick(r, psz...)}
		default: // many RNS digits
			logN = eng.Pick(r, 4, 5)
			for j := 0; j < 7+r.N(4); j++ {
				qb = append(qb, eng.Pick(r, 36, 45, 60))
			}
			pb = []int{61, 61}
		}
		pc, ok := mkParams(r, logN, qb, pb, eng.Pick(r, xsKinds...), true)
		if !ok {
			continue
		}
		d := epDesc{P: pc, Trials: epxTrials}
		out = append(out, eng.Case{ID: fmt.Sprintf("epx/%d/%s", i, pc.short()), Sig: "C20|rgsw.epx", Desc: d, Run: func(c *eng.Ctx) { runEPX(c, d) }})
	}

	// ------------------------------------------------------------ algx
	nAlgX, algxTrials := 12, 2
	if thorough {
		nAlgX, algxTrials = 110, 4
	}
	for i := 0; i < nAlgX; i++ {
		logN := eng.Pick(r, 4, 5, 6)
		var qb, pb []int
		for j := 0; j < 1+r.N(3); j++ {
			qb = append(qb, eng.Pick(r, 28, 36, 45, 55, 60))
		}
		for j := 0; j < i%4; j++ {
			pb = append(pb, eng.Pick(r, psz...))
		}
		pc, ok := mkParams(r, logN, qb, pb, eng.Pick(r, xsKinds...), true)
		if !ok {
			continue
		}
		d := algDesc{P: pc, Trials: algxTrials}
		out = append(out, eng.Case{ID: fmt.Sprintf("algx/%d/%s", i, pc.short()), Sig: "C20|rgsw.algebra", Desc: d, Run: func(c *eng.Ctx) { runAlgX(c, d) }})
	}

	// ------------------------------------------------------------ tpx
	nTPX, tpxTrials := 8, 6
	if thorough {
		nTPX, tpxTrials = 60, 10
	}
	for i := 0; i < nTPX; i++ {
		logN := eng.Pick(r, 4, 6, 8, 9, 10, 11)
		var qb []int
		for j := 0; j < 1+i%3; j++ {
			qb = append(qb, eng.Pick(r, 27, 36, 45, 55, 60))
		}
		pc, ok := mkParams(r, logN, qb, nil, "p", true)
		if !ok {
			continue
		}
		d := tpxDesc{P: pc, Trials: tpxTrials}
		out = append(out, eng.Case{ID: fmt.Sprintf("tpx/%d/%s", i, pc.short()), Sig: "C20|blindrot.InitTestPolynomial", Desc: d, Run: func(c *eng.Ctx) { runTPX(c, d) }})
	}

	// ------------------------------------------------------------ brx
	type brxShape struct {
		qb, pb []int
		shape  string
		lp, w  int
	}
	shapes := []brxShape{
		{[]int{28}, nil, "w", 0, 4},                  // 32-bit fast path, BaseTwoDecomposition only (as the in-tree callers do)
		{[]int{55}, nil, "w", 0, 7},                  // general path
		{[]int{50}, []int{55}, "w", 0, 8},            // LevelP defaults to the single P
		{[]int{50}, []int{55}, "none", 0, 0},         // no EvaluationKeyParameters at all
		{[]int{45, 45}, []int{60, 60}, "none", 0, 0}, // defaults to both P
		{[]int{45, 45}, []int{60, 60}, "lp", 0, 0},   // LevelP only
		{[]int{45, 45}, nil, "none", 0, 0},           // no P, one prime per digit
		{[]int{36, 36, 36}, []int{61, 61, 61}, "none", 0, 0},
		{[]int{58}, nil, "both", -1, 16},
		{[]int{45, 45}, []int{60}, "lp", -1, 0},    // keys at LevelP=-1 under parameters that have P
		{[]int{45, 50}, []int{60}, "both", -1, 9},  // the same with power-of-two digits
		{[]int{45, 45}, []int{60, 60}, "lq", 0, 0}, // keys at level 0 of a longer chain
		{[]int{28, 45}, nil, "lqw", 0, 5},          // keys at level 0: the 32-bit fast path inside a two-prime chain
	}
	pairs := [][2]int{{4, 6}, {4, 7}, {5, 6}, {5, 7}, {4, 5}, {5, 8}, {5, 5}}
	nBRX := 26
	if thorough {
		nBRX = 150
		pairs = append(pairs, [2]int{6, 8}, [2]int{6, 9}, [2]int{7, 8}, [2]int{4, 9})
	}
	funcs := []string{"sign", "id", "table", "sq", "step"}
	intervals := [][2]float64{{-1, 1}, {-4, 4}, {-2, 6}, {0, 1}}
	for i := 0; i < nBRX; i++ {
		pr := pairs[(i/len(shapes)+i)%len(pairs)]
		sh := shapes[i%len(shapes)]
		br, ok := mkParams(r, pr[1], sh.qb, sh.pb, eng.Pick(r, "p", "hN", "h8", "gauss"), i%4 != 3)
		if !ok {
			continue
		}
		lwe, ok := mkParams(r, pr[0], []int{eng.Pick(r, pr[1]+4, pr[1]+6, 20, 26)}, nil, []string{"h1", "h8", "hHalf", "hN", "p", "gauss"}[i%6], i%3 != 2)
		if !ok {
			continue
		}
		iv := intervals[i%len(intervals)]
		d := brxDesc{BR: br, LWE: lwe, EvkShape: sh.shape, EvkLevelQ: 0, LevelP: sh.lp, W: sh.w, Func: funcs[i%len(funcs)], A: iv[0], B: iv[1]}
		out = append(out, eng.Case{ID: fmt.Sprintf("brx/%d/%s/%s/%s/lp%d/w%d", i, br.short(), lwe.short(), sh.shape, sh.lp, sh.w), Sig: "C20|blindrot.brx", Desc: d, Run: func(c *eng.Ctx) { runBRX(c, d) }})
	}
	return out
}
