package c20

// Coverage-audit extensions (families epx, algx, tpx; brx lives in brx.go).
//
// epx: entry points and object histories of core/rgsw that the ep family does not reach:
//   - rgsw.NewCiphertext shape against the documented decomposition sizes;
//   - rgsw.Encryptor obtained through ShallowCopy, receivers that already hold another
//     encryption, EncryptZero on a used receiver, plaintexts with large coefficients;
//   - the delegation of Encrypt / EncryptZero to the rlwe ciphertext types (documented);
//   - rgsw.NoiseRGSWCiphertext against the exact error vectors (right and wrong plaintext);
//   - ExternalProduct through evaluators obtained by ShallowCopy / WithKey: bit-for-bit
//     differential against the evaluator made by the constructor.
// algx: Reduce out of place into a dirty receiver, AddLazy with aliased operands, a chain of
//     lazy operations with one final reduction, MulByXPowAlphaMinusOneLazy into a dirty
//     receiver, rgsw.NewPlaintext from larger scalars, from the documented *ring.Poly, and its
//     refusal of unsupported value types.
// tpx: blindrot.InitTestPolynomial on rings below the top level, other scales, other intervals.

import (
	"fmt"
	"math"
	"math/big"

	"github.com/tuneinsight/lattigo/v6/core/rgsw"
	"github.com/tuneinsight/lattigo/v6/core/rgsw/blindrot"
	"github.com/tuneinsight/lattigo/v6/core/rlwe"
	"github.com/tuneinsight/lattigo/v6/ring"

	"verif/harness/eng"
	"verif/harness/gen"
	"verif/harness/obs"
	"verif/harness/ref"
)

// gPolyX: gPoly plus kinds with large coefficients (the external-product oracle
// phase(out) - g*phase(in) does not depend on the size of g).
func gPolyX(rnd *eng.Rand, kind string, n int) []int64 {
	switch kind {
	case "big":
		g := make([]int64, n)
		for i := range g {
			g[i] = int64(rnd.N(1<<21)) - 1<<20
		}
		return g
	case "bigsparse":
		g := make([]int64, n)
		for t := 0; t < 3; t++ {
			g[rnd.N(n)] = int64(rnd.N(1<<31)) - 1<<30
		}
		return g
	}
	return gPoly(rnd, kind, n)
}

// gadgetErrSum returns, for every power-of-two digit j that all RNS digits have, the centred
// vector sum_i (phase(row i,j) - P*2^(w j)*msg on the primes of digit i) over Z.
func (e *env) gadgetErrSum(gc *rlwe.GadgetCiphertext, msg [][]uint64) [][]*big.Int {
	lq, lp := gc.LevelQ(), gc.LevelP()
	w := gc.BaseTwoDecomposition
	rqp := e.params.RingQP().AtLevel(lq, lp)
	nJ := len(gc.Value[0])
	for i := range gc.Value {
		nJ = min(nJ, len(gc.Value[i]))
	}
	var mods []uint64
	mods = append(mods, e.pc.Q[:lq+1]...)
	if lp >= 0 {
		mods = append(mods, e.pc.P[:lp+1]...)
	}
	crt := ref.NewCRT(mods)
	out := make([][]*big.Int, nJ)
	for j := 0; j < nJ; j++ {
		rowsv := make([][]uint64, len(mods))
		for u := range rowsv {
			rowsv[u] = make([]uint64, e.n)
		}
		for i := range gc.Value {
			el := gc.Value[i][j]
			ph := rqp.NewPoly()
			rqp.MulCoeffsMontgomery(el[1], e.sk.Value, ph)
			rqp.Add(ph, el[0], ph)
			rqp.INTT(ph, ph)
			rqp.IMForm(ph, ph)
			for u := 0; u <= lq; u++ {
				q := mods[u]
				for x := 0; x < e.n; x++ {
					rowsv[u][x] = ref.AddMod(rowsv[u][x], ph.Q.Coeffs[u][x]%q, q)
				}
			}
			for t := 0; t <= lp; t++ {
				q := mods[lq+1+t]
				for x := 0; x < e.n; x++ {
					rowsv[lq+1+t][x] = ref.AddMod(rowsv[lq+1+t][x], ph.P.Coeffs[t][x]%q, q)
				}
			}
		}
		// minus P * 2^(w j) * msg on every prime of Q (it vanishes modulo P)
		for u := 0; u <= lq; u++ {
			q := mods[u]
			f := ref.PowMod(2, uint64(w*j), q)
			for t := 0; t <= lp; t++ {
				f = ref.MulMod(f, e.pc.P[t]%q, q)
			}
			for x := 0; x < e.n; x++ {
				rowsv[u][x] = ref.SubMod(rowsv[u][x], ref.MulMod(f, msg[u][x], q), q)
			}
		}
		out[j] = make([]*big.Int, e.n)
		for x := 0; x < e.n; x++ {
			out[j][x] = crt.Centered(crt.Column(rowsv, x))
		}
	}
	return out
}

// log2StdModel is the documented statistic of rlwe.NoiseGadgetCiphertext: the largest, over the
// power-of-two digits, log2 of the sample standard deviation (N-1 denominator) of the summed
// error vector; never below 0 (the running maximum starts at 0).
func log2StdModel(errs [][]*big.Int) float64 {
	best := 0.0
	for _, v := range errs {
		n := float64(len(v))
		mean := 0.0
		for _, x := range v {
			mean += f64(x)
		}
		mean /= n
		s := 0.0
		for _, x := range v {
			d := f64(x) - mean
			s += d * d
		}
		l := math.Log2(math.Sqrt(s / (n - 1)))
		if l > best {
			best = l
		}
	}
	return best
}

func fillGarbage(rnd *eng.Rand, r *ring.Ring, level int, p ring.Poly) {
	for u := 0; u <= level; u++ {
		copy(p.Coeffs[u], gen.Vec(rnd, r.N(), r.SubRings[u].Modulus-1, gen.PatUniform, 0))
	}
}

func runEPX(c *eng.Ctx, d epDesc) {
	e := newEnv(c, d.P, "C20")
	if e == nil {
		return
	}
	rnd := c.Rand()
	params := e.params
	c.Sample(map[string]any{"family": "epx", "params": d.P})
	enc := rgsw.NewEncryptor(params, e.sk)
	var encSC *rgsw.Encryptor
	if !c.Try("C20|rgsw.Encryptor.ShallowCopy", func() { encSC = enc.ShallowCopy() }) {
		return
	}
	eval := rgsw.NewEvaluator(params, nil)
	lqMax, lpMax := params.MaxLevelQ(), params.MaxLevelP()
	chain := fmt.Sprintf("%d/%v/%v", d.P.LogN, d.P.QBits, d.P.PBits)

	trials := []epTrial{{lqMax, lpMax, 0}, {0, -1, eng.Pick(rnd, 3, 5, 8, 13)}}
	for len(trials) < d.Trials {
		lp := rnd.N(lpMax+2) - 1
		w := 0
		if lp <= 0 {
			w = eng.Pick(rnd, 0, 2, 4, 7, 11, 16, 27)
		}
		trials = append(trials, epTrial{rnd.N(lqMax + 1), lp, w})
	}

	for ti, t := range trials {
		lq, lp, w := t.lq, t.lp, t.w
		path := e.epPath(lq, lp)
		rq := params.RingQ().AtLevel(lq)
		Ql := rq.ModulusAtLevel[lq]
		cfgs := fmt.Sprintf("levelQ=%d levelP=%d w=%d path=%s Q=%v P=%v logN=%d xs=%s", lq, lp, w, path, d.P.Q, d.P.P, d.P.LogN, d.P.Xs)
		kp := fmt.Sprintf("%s/%d/%d/%d", chain, lq, lp, w)

		// ---- 1. shape of a new ciphertext
		var rg *rgsw.Ciphertext
		if !c.Try("C20|rgsw.NewCiphertext", func() { rg = rgsw.NewCiphertext(params, lq, lp, w) }) {
			continue
		}
		{
			nP := max(lp+1, 1)
			nRNS := (lq + nP) / nP
			bad := ""
			if rg.LevelQ() != lq || rg.LevelP() != lp {
				bad = fmt.Sprintf("LevelQ()=%d LevelP()=%d", rg.LevelQ(), rg.LevelP())
			}
			for h := 0; h < 2 && bad == ""; h++ {
				gc := &rg.Value[h]
				if len(gc.Value) != nRNS {
					bad = fmt.Sprintf("half %d: %d RNS digits, want %d", h, len(gc.Value), nRNS)
					break
				}
				if gc.BaseTwoDecomposition != w {
					bad = fmt.Sprintf("half %d: BaseTwoDecomposition=%d", h, gc.BaseTwoDecomposition)
					break
				}
				for i := range gc.Value {
					want := 1
					if w > 0 && lp <= 0 {
						want = (ref.BitLen(d.P.Q[i]) + w - 1) / w
					}
					if len(gc.Value[i]) != want {
						bad = fmt.Sprintf("half %d RNS digit %d: %d power-of-two digits, want %d", h, i, len(gc.Value[i]), want)
						break
					}
					for j := range gc.Value[i] {
						el := gc.Value[i][j]
						if len(el) != 2 || el[0].LevelQ() != lq || el[0].LevelP() != lp || el[1].LevelQ() != lq || el[1].LevelP() != lp {
							bad = fmt.Sprintf("half %d row (%d,%d): %d components at levels (%d,%d)", h, i, j, len(el), el[0].LevelQ(), el[0].LevelP())
						}
					}
				}
			}
			c.Check(bad == "", "C20|rgsw.NewCiphertext|shape-differs-from-documented-decomposition", func() string { return cfgs + ": " + bad })
			if bad != "" {
				continue
			}
		}

		// ---- 2. shallow-copied encryptor, then the original encryptor on the same (used) receiver
		g1 := gPolyX(rnd, eng.Pick(rnd, "big", "bigsparse", "dense"), e.n)
		gk := eng.Pick(rnd, "big", "bigsparse", "big", "tern3", "mono", "negone")
		g2 := gPolyX(rnd, gk, e.n)
		ntt, mont := rnd.Bool(), rnd.Bool()
		var err1, err2 error
		if !c.Try("C20|rgsw.Encryptor.Encrypt", func() { err1 = encSC.Encrypt(e.gPlaintext(g1, lq, rnd.Bool(), rnd.Bool()), rg) }) {
			continue
		}
		if err1 != nil {
			c.Violate("C20|rgsw.Encryptor.Encrypt|error-on-admissible", cfgs+": "+err1.Error(), d)
			continue
		}
		if !e.checkRGSW("rgsw.Encryptor.Encrypt#encryptor-from-ShallowCopy", rg, g1, e.B, 10, "epx/encsc/"+kp, cfgs) {
			continue
		}
		pt2 := e.gPlaintext(g2, lq, ntt, mont)
		if !c.Try("C20|rgsw.Encryptor.Encrypt", func() { err2 = enc.Encrypt(pt2, rg) }) {
			continue
		}
		if err2 != nil {
			c.Violate("C20|rgsw.Encryptor.Encrypt|error-on-admissible", cfgs+": "+err2.Error(), d)
			continue
		}
		if !e.checkRGSW("rgsw.Encryptor.Encrypt#receiver-held-another-encryption", rg, g2, e.B, 10, "epx/reuse/"+kp+"/"+gk, cfgs) {
			continue
		}
		c.Count("epx_encryptions_into_used_receiver", 1)
		rg0 := copyRGSW(rg)

		// ---- 3. NoiseRGSWCiphertext against the exact error vectors
		{
			msg := [2][][]uint64{rowsOf(params.RingQ(), lq, g2), rowsOf(params.RingQ(), lq, negaI(g2, e.s))}
			gw := addI(g2, gPolyX(rnd, "bigsparse", e.n)) // a plaintext the ciphertext does not encrypt
			msgW := [2][][]uint64{rowsOf(params.RingQ(), lq, gw), rowsOf(params.RingQ(), lq, negaI(gw, e.s))}
			for vi, v := range []struct {
				name string
				g    []int64
				m    [2][][]uint64
			}{{"encrypted-plaintext", g2, msg}, {"other-plaintext", gw, msgW}} {
				ptn := e.gPlaintext(v.g, lq, true, true)
				ptn0 := ptn.Value.CopyNew()
				sk0 := e.sk.CopyNew()
				var n0, n1 float64
				// rlwe.NoiseGadgetCiphertext sums row (i,j) into row (0,j): it needs digit 0 to have at
				// least as many power-of-two digits as every other RNS digit
				laterLonger := false
				for i := range rg.Value[0].Value {
					laterLonger = laterLonger || len(rg.Value[0].Value[i]) > len(rg.Value[0].Value[0])
				}
				if laterLonger {
					pan, pv := eng.Panics(func() { n0, n1 = rgsw.NoiseRGSWCiphertext(rg, ptn.Value, e.sk, params) })
					c.Count("epx_noise_util_later_prime_longer_than_first", 1)
					if !c.Check(!pan, "C20|rgsw.NoiseRGSWCiphertext|panic|power-of-two-digits-and-first-prime-shorter-than-a-later-one", func() string {
						return fmt.Sprintf("%s: %v", cfgs, pv)
					}) {
						break
					}
				} else if !c.Try("C20|rgsw.NoiseRGSWCiphertext", func() { n0, n1 = rgsw.NoiseRGSWCiphertext(rg, ptn.Value, e.sk, params) }) {
					break
				}
				m0 := log2StdModel(e.gadgetErrSum(&rg.Value[0], v.m[0]))
				m1 := log2StdModel(e.gadgetErrSum(&rg.Value[1], v.m[1]))
				tol := func(m float64) float64 { return 1e-6 * math.Max(1, math.Abs(m)) }
				c.Check(math.Abs(n0-m0) <= tol(m0) && math.Abs(n1-m1) <= tol(m1), "C20|rgsw.NoiseRGSWCiphertext|differs-from-exact-error-statistic|"+v.name, func() string {
					return fmt.Sprintf("%s g=%s: returned (%.9g, %.9g), exact error vectors give (%.9g, %.9g)", cfgs, gk, n0, n1, m0, m1)
				})
				if vi == 0 {
					// fresh encryption: sum over the RNS digits of errors bounded by B each
					nRNS := float64(len(rg.Value[0].Value))
					ub := math.Log2(nRNS*e.B) + 0.01
					c.Check(n0 <= ub && n1 <= ub, "C20|rgsw.NoiseRGSWCiphertext|fresh-noise-above-worst-case", func() string {
						return fmt.Sprintf("%s: (%.3f, %.3f) > log2(%v*%v)", cfgs, n0, n1, nRNS, e.B)
					})
				} else {
					c.Count("epx_noise_util_wrong_plaintext_log2_x10", int64(10*math.Min(n0, n1)))
				}
				c.Check(equalRGSW(rg, rg0) && ptn.Value.Equal(ptn0) && e.sk.Equal(sk0), "C20|rgsw.NoiseRGSWCiphertext|operand-modified", func() string { return cfgs })
				c.Count("epx_noise_util_evaluations", 1)
				c.Distinct("epx/noiseutil/"+kp+"/"+v.name, true)
			}
		}

		// ---- 4. EncryptZero on a used receiver
		{
			rgz := copyRGSW(rg)
			var err error
			if c.Try("C20|rgsw.Encryptor.EncryptZero", func() { err = eng.Pick(rnd, enc, encSC).EncryptZero(rgz) }) {
				if err != nil {
					c.Violate("C20|rgsw.Encryptor.EncryptZero|error-on-admissible", cfgs+": "+err.Error(), d)
				} else {
					e.checkRGSW("rgsw.Encryptor.EncryptZero#receiver-held-another-encryption", rgz, make([]int64, e.n), e.B, 10, "epx/enczero/"+kp, cfgs)
				}
			}
		}

		// ---- 5. external product: constructor-made evaluator, its ShallowCopy, its WithKey
		bound := e.epBound(lq, lp, w, e.B)
		meaningful := bound < f64(Ql)/8
		pat := inPatterns[(ti+rnd.N(len(inPatterns)))%len(inPatterns)]
		ct := e.genInput(rnd, pat, lq)
		ct0 := cloneCt(ct)
		phi := obs.Phase(params, &ct.Element, e.sk)
		want := e.mulSmall(g2, phi, lq)
		newOut := func() *rlwe.Ciphertext {
			o := rlwe.NewCiphertext(params, 1, lq)
			o.IsNTT = true
			fillGarbage(rnd, params.RingQ(), lq, o.Value[0])
			fillGarbage(rnd, params.RingQ(), lq, o.Value[1])
			return o
		}
		api := "C20|rgsw.Evaluator.ExternalProduct"
		out1 := newOut()
		if !c.Try(api, func() { eval.ExternalProduct(ct, rg, out1) }) {
			continue
		}
		st := obs.Stat(obs.Diff(rq, obs.Phase(params, &out1.Element, e.sk), want))
		c.Count("noise_measurements", 1)
		c.Distinct(fmt.Sprintf("epx/ep/%s/%s/%s/%s", path, kp, gk, pat), meaningful)
		c.Check(f64(st.Max) <= bound, api+"|noise-above-worst-case-bound|"+e.epPathSig(lq, lp, w)+"|outofplace|large-plaintext", func() string {
			return fmt.Sprintf("%s g=%s input=%s: |phase(out) - g*phase(in)|inf=2^%.1f bound=2^%.1f Q_level=2^%d", cfgs, gk, pat, st.MaxLog2, math.Log2(bound), Ql.BitLen())
		})
		// ShallowCopy: out of place and in place
		var evSC, evWK *rgsw.Evaluator
		if c.Try("C20|rgsw.Evaluator.ShallowCopy", func() { evSC = eval.ShallowCopy() }) {
			out2 := newOut()
			in3 := cloneCt(ct)
			if c.Try(api+"|evaluator-from-ShallowCopy", func() { evSC.ExternalProduct(ct, rg, out2); evSC.ExternalProduct(in3, rg, in3) }) {
				c.Check(out2.Equal(out1), api+"|evaluator-from-ShallowCopy-differs|"+path+"|outofplace", func() string { return cfgs + " input=" + pat })
				c.Check(in3.Equal(out1), api+"|evaluator-from-ShallowCopy-differs|"+path+"|inplace", func() string { return cfgs + " input=" + pat })
				c.Count("epx_products_via_ShallowCopy", 2)
			}
		}
		if c.Try("C20|rgsw.Evaluator.WithKey", func() { evWK = eval.WithKey(rlwe.NewMemEvaluationKeySet(nil)) }) {
			out2 := newOut()
			in3 := cloneCt(ct)
			if c.Try(api+"|evaluator-from-WithKey", func() { evWK.ExternalProduct(in3, rg, in3); evWK.ExternalProduct(ct, rg, out2) }) {
				c.Check(out2.Equal(out1), api+"|evaluator-from-WithKey-differs|"+path+"|outofplace", func() string { return cfgs + " input=" + pat })
				c.Check(in3.Equal(out1), api+"|evaluator-from-WithKey-differs|"+path+"|inplace", func() string { return cfgs + " input=" + pat })
				c.Count("epx_products_via_WithKey", 2)
			}
			// the receiver of WithKey shares its buffers: it must still work afterwards
			out4 := newOut()
			if c.Try(api, func() { eval.ExternalProduct(ct, rg, out4) }) {
				c.Check(out4.Equal(out1), api+"|evaluator-differs-after-WithKey|"+path, func() string { return cfgs + " input=" + pat })
			}
		}
		c.Check(ct.Equal(ct0), api+"|input-modified", func() string { return cfgs })
		c.Check(equalRGSW(rg, rg0), api+"|rgsw-operand-modified", func() string { return cfgs })
	}

	// ---- 6. the encryptor is documented to accept the rlwe ciphertext types as well
	for _, lvl := range []int{lqMax, 0} {
		cfgs := fmt.Sprintf("level=%d Q=%v P=%v logN=%d", lvl, d.P.Q, d.P.P, d.P.LogN)
		rq := params.RingQ().AtLevel(lvl)
		encX := eng.Pick(rnd, enc, encSC)
		{
			ct := rlwe.NewCiphertext(params, 1, lvl)
			fillGarbage(rnd, params.RingQ(), lvl, ct.Value[0])
			var err error
			p, _ := eng.Panics(func() { err = encX.EncryptZero(ct) })
			c.Count("epx_rlwe_delegations", 1)
			if c.Check(!p && err == nil, "C20|rgsw.Encryptor.EncryptZero|rlwe-ciphertext-refused", func() string {
				return fmt.Sprintf("%s: EncryptZero(*rlwe.Ciphertext) is documented to accept the rlwe ciphertext types: panic=%v err=%v", cfgs, p, err)
			}) {
				st := obs.Stat(obs.Centered(rq, obs.Phase(params, &ct.Element, e.sk)))
				// secret-key encryption into an *rlwe.Ciphertext: phase = one error sample
				c.Check(f64(st.Max) <= e.B, "C20|rgsw.Encryptor.EncryptZero|rlwe-ciphertext-noise-above-bound", func() string {
					return fmt.Sprintf("%s: |phase|inf=2^%.1f bound=%v", cfgs, st.MaxLog2, e.B)
				})
			}
		}
		{
			g := gPolyX(rnd, "big", e.n)
			pt := e.gPlaintext(g, lvl, true, false)
			ct := rlwe.NewCiphertext(params, 1, lvl)
			ct.IsNTT = true
			var err error
			p, _ := eng.Panics(func() { err = encX.Encrypt(pt, ct) })
			c.Count("epx_rlwe_delegations", 1)
			if c.Check(!p && err == nil, "C20|rgsw.Encryptor.Encrypt|rlwe-ciphertext-refused", func() string {
				return fmt.Sprintf("%s: panic=%v err=%v", cfgs, p, err)
			}) {
				wantp := rq.NewPoly()
				rows := rowsOf(params.RingQ(), lvl, g)
				for u := range rows {
					copy(wantp.Coeffs[u], rows[u])
				}
				st := obs.Stat(obs.Diff(rq, obs.Phase(params, &ct.Element, e.sk), wantp))
				b := e.B
				c.Check(f64(st.Max) <= b, "C20|rgsw.Encryptor.Encrypt|rlwe-ciphertext-noise-above-bound", func() string {
					return fmt.Sprintf("%s: |phase - pt|inf=2^%.1f bound=%v", cfgs, st.MaxLog2, b)
				})
			}
		}
	}
}

// ---------------------------------------------------------------------------------- algx

func runAlgX(c *eng.Ctx, d algDesc) {
	e := newEnv(c, d.P, "C20")
	if e == nil {
		return
	}
	rnd := c.Rand()
	params := e.params
	c.Sample(map[string]any{"family": "algx", "params": d.P})
	enc := rgsw.NewEncryptor(params, e.sk)
	lqMax, lpMax := params.MaxLevelQ(), params.MaxLevelP()
	chain := fmt.Sprintf("%d/%v/%v", d.P.LogN, d.P.QBits, d.P.PBits)
	n := e.n

	for trial := 0; trial < d.Trials; trial++ {
		lq, lp := rnd.N(lqMax+1), rnd.N(lpMax+2)-1
		if trial == 0 {
			lq, lp = lqMax, lpMax
		}
		w := 0
		if lp <= 0 && rnd.N(3) != 0 {
			w = eng.Pick(rnd, 2, 4, 7, 10, 16, 25)
		}
		rqp := params.RingQP().AtLevel(lq, lp)
		cfgs := fmt.Sprintf("levelQ=%d levelP=%d w=%d Q=%v P=%v logN=%d", lq, lp, w, d.P.Q, d.P.P, d.P.LogN)
		kp := fmt.Sprintf("%s/%d/%d/%d", chain, lq, lp, w)
		encG := func(kind string) ([]int64, *rgsw.Ciphertext) {
			g := gPolyX(rnd, kind, n)
			ct := rgsw.NewCiphertext(params, lq, lp, w)
			ntt := rnd.Bool()
			if err := enc.Encrypt(e.gPlaintext(g, lq, ntt, rnd.Bool()), ct); err != nil {
				panic(err)
			}
			return g, ct
		}
		var gA, gB, gC []int64
		var A, B, C *rgsw.Ciphertext
		if !c.Try("C20|rgsw.Encryptor.Encrypt", func() {
			gA, A = encG(eng.Pick(rnd, "mono", "tern3", "dense", "big"))
			gB, B = encG(eng.Pick(rnd, "mono", "dense", "negone", "zero", "big"))
			gC, C = encG(eng.Pick(rnd, "dense", "bigsparse", "one"))
		}) {
			continue
		}
		A0, B0, C0 := copyRGSW(A), copyRGSW(B), copyRGSW(C)

		// ---- Reduce out of place into a receiver that holds something else
		{
			L := copyRGSW(A)
			R := copyRGSW(C)
			if c.Try("C20|rgsw.Reduce", func() { rgsw.AddLazy(B, rqp, L) }) {
				L0 := copyRGSW(L)
				if c.Try("C20|rgsw.Reduce", func() { rgsw.Reduce(L, rqp, R) }) {
					c.Check(e.reduced(R), "C20|rgsw.Reduce|residue-not-reduced|outofplace", func() string { return cfgs })
					e.checkRGSW("rgsw.Reduce#outofplace", R, addI(gA, gB), 2*e.B, 12, "algx/reduce-oop/"+kp, cfgs)
					c.Check(equalRGSW(L, L0), "C20|rgsw.Reduce|input-modified", func() string { return cfgs })
				}
			}
		}
		// ---- AddLazy with the operand aliased to the receiver
		{
			D := copyRGSW(A)
			if c.Try("C20|rgsw.AddLazy", func() { rgsw.AddLazy(D, rqp, D); rgsw.Reduce(D, rqp, D) }) {
				e.checkRGSW("rgsw.AddLazy(ct)#operand-is-receiver", D, addI(gA, gA), 2*e.B, 12, "algx/add-alias/"+kp, cfgs)
			}
		}
		// ---- X^alpha - 1
		alphas := []int{0, 1, -1, n - 1, n, n + 1, 2*n - 1, 2 * n, -2 * n, 3*n + 1, rnd.N(2 * n), -rnd.N(2 * n)}
		alpha := alphas[rnd.N(len(alphas))]
		xm := xPowMinusOne(alpha, n)
		pow := rqp.NewPoly()
		for u := range pow.Q.Coeffs {
			for x, v := range xm {
				pow.Q.Coeffs[u][x] = modI(v, d.P.Q[u])
			}
		}
		if lp >= 0 {
			for u := range pow.P.Coeffs {
				for x, v := range xm {
					pow.P.Coeffs[u][x] = modI(v, d.P.P[u])
				}
			}
		}
		rqp.NTT(pow, pow)
		rqp.MForm(pow, pow)
		pow0 := *pow.CopyNew()
		gAx := negaI(gA, xm)
		// ---- MulByXPowAlphaMinusOneLazy into a receiver that holds something else
		{
			D := copyRGSW(C)
			if c.Try("C20|rgsw.MulByXPowAlphaMinusOneLazy", func() { rgsw.MulByXPowAlphaMinusOneLazy(A, pow, rqp, D); rgsw.Reduce(D, rqp, D) }) {
				e.checkRGSW("rgsw.MulByXPowAlphaMinusOneLazy#used-receiver", D, gAx, 2*e.B, 12, "algx/mulx-dirty/"+kp, cfgs)
			}
		}
		// ---- chain of lazy operations, one reduction at the end, out of place
		{
			// plaintext from a scalar that is not tiny (all chain primes are above 2^27)
			var val interface{}
			gP := make([]int64, n)
			kind := eng.Pick(rnd, "int64", "uint64", "poly")
			switch kind {
			case "int64":
				v := int64(rnd.N(1<<28)) - (1<<27 - 1) - 1
				if v <= -(1 << 27) {
					v = -(1<<27 - 1)
				}
				gP[0], val = v, v
			case "uint64":
				v := uint64(rnd.N(1 << 27))
				gP[0], val = int64(v), v
			default:
				gP = gPolyX(rnd, "big", n)
				p := params.RingQ().AtLevel(lq).NewPoly()
				rows := rowsOf(params.RingQ(), lq, gP)
				for u := range rows {
					copy(p.Coeffs[u], rows[u])
				}
				val = p
			}
			var pt *rgsw.Plaintext
			var perr error
			var polyBefore *ring.Poly
			if p, ok := val.(ring.Poly); ok {
				polyBefore = p.CopyNew()
			}
			if c.Try("C20|rgsw.NewPlaintext", func() { pt, perr = rgsw.NewPlaintext(params, val, lq, lp, w) }) {
				if perr != nil {
					c.Violate("C20|rgsw.NewPlaintext|error-on-admissible", fmt.Sprintf("%s value kind %s: %v", cfgs, kind, perr), d)
				} else {
					if polyBefore != nil {
						p := val.(ring.Poly)
						c.Check(p.Equal(polyBefore), "C20|rgsw.NewPlaintext|value-modified", func() string { return cfgs })
					}
					E := copyRGSW(B)
					R := copyRGSW(A)
					if c.Try("C20|rgsw.algebra", func() {
						rgsw.MulByXPowAlphaMinusOneThenAddLazy(A, pow, rqp, E)
						rgsw.AddLazy(C, rqp, E)
						rgsw.AddLazy(pt, rqp, E)
						rgsw.Reduce(E, rqp, R)
					}) {
						c.Check(e.reduced(R), "C20|rgsw.Reduce|residue-not-reduced|outofplace", func() string { return cfgs })
						gE := addI(addI(gB, gAx), addI(gC, gP))
						e.checkRGSW("rgsw.algebra#lazy-chain-one-reduction", R, gE, 4*e.B, 12, "algx/chain/"+kp+"/"+kind, cfgs, fmt.Sprintf("alpha=%d pt=%s", alpha, kind))
						c.Count("algx_lazy_chains", 1)
					}
				}
			}
		}
		c.Check(equalRGSW(A, A0) && equalRGSW(B, B0) && equalRGSW(C, C0), "C20|rgsw.algebra|operand-modified", func() string { return cfgs })
		c.Check(pow.Equal(&pow0), "C20|rgsw.MulByXPowAlphaMinusOneLazy|monomial-operand-modified", func() string { return cfgs })

		// ---- NewPlaintext: the documented *ring.Poly, and refusal of other types
		if trial == 0 {
			gP := gPolyX(rnd, "dense", n)
			p := params.RingQ().AtLevel(lq).NewPoly()
			rows := rowsOf(params.RingQ(), lq, gP)
			for u := range rows {
				copy(p.Coeffs[u], rows[u])
			}
			var pt *rgsw.Plaintext
			var perr error
			pan, pv := eng.Panics(func() { pt, perr = rgsw.NewPlaintext(params, &p, lq, lp, w) })
			c.Count("algx_newplaintext_pointer_to_poly", 1)
			if c.Check(!pan && perr == nil && pt != nil, "C20|rgsw.NewPlaintext|documented-pointer-to-ring.Poly-not-accepted", func() string {
				return fmt.Sprintf("%s: NewPlaintext documents uint64, int64 or *ring.Poly; a *ring.Poly gives panic=%v (%v) err=%v", cfgs, pan, pv, perr)
			}) {
				D := copyRGSW(A)
				if c.Try("C20|rgsw.AddLazy", func() { rgsw.AddLazy(pt, rqp, D); rgsw.Reduce(D, rqp, D) }) {
					e.checkRGSW("rgsw.AddLazy(pt)#from-pointer-to-poly", D, addI(gA, gP), e.B, 12, "algx/addpt-ptr/"+kp, cfgs)
				}
			}
			for _, bv := range []struct {
				name string
				v    interface{}
			}{{"int", 3}, {"float64", 1.5}, {"nil", nil}, {"string", "1"}} {
				var err error
				var ptb *rgsw.Plaintext
				pan, pv := eng.Panics(func() { ptb, err = rgsw.NewPlaintext(params, bv.v, lq, lp, w) })
				c.Count("algx_newplaintext_refusals", 1)
				_ = ptb
				c.Check(!pan && err != nil, "C20|rgsw.NewPlaintext|unsupported-value-type-not-refused-with-error", func() string {
					return fmt.Sprintf("%s: value of type %s: panic=%v (%v) err=%v", cfgs, bv.name, pan, pv, err)
				})
			}
		}
	}
}

// ---------------------------------------------------------------------------------- tpx

type tpxDesc struct {
	P      pcfg `json:"params"`
	Trials int  `json:"trials"`
}

// checkTestPoly compares F (NTT domain, as returned) with the documented table:
// F[i] = round(scale*f(x(-2i/N))) for i <= N/2, -round(scale*f(x(2(N-i)/N))) above.
func checkTestPoly(r *ring.Ring, mods []uint64, F ring.Poly, f func(float64) float64, scale, a, b float64) string {
	N := r.N()
	Fc := obs.Plain(r, F, true, false)
	for u := range mods {
		q := mods[u]
		for i := 0; i < N; i++ {
			var v float64
			if i <= N/2 {
				v = f(normalizeInv(-2.0/float64(N)*float64(i), a, b))
			} else {
				v = -f(normalizeInv(2.0/float64(N)*float64(N-i), a, b))
			}
			sv := scale * v
			iv, _ := big.NewFloat(math.Abs(sv)).Int(nil)
			if sv < 0 {
				iv.Neg(iv)
			}
			diff := ref.SubMod(Fc.Coeffs[u][i]%q, ref.ModU(iv, q), q)
			if diff > q/2 {
				diff = q - diff
			}
			if float64(diff) > 1+math.Abs(sv)*0x1p-50 {
				return fmt.Sprintf("prime #%d coefficient %d: got %d want %v (+-1) mod %d", u, i, Fc.Coeffs[u][i], iv, q)
			}
		}
	}
	return ""
}

func runTPX(c *eng.Ctx, d tpxDesc) {
	params, err := d.P.params()
	if err != nil {
		c.Violate("C20|rlwe.NewParametersFromLiteral|error-on-admissible", err.Error(), d)
		return
	}
	rnd := c.Rand()
	c.Sample(map[string]any{"family": "tpx", "params": d.P})
	lqMax := params.MaxLevelQ()
	for t := 0; t < d.Trials; t++ {
		lvl := rnd.N(lqMax + 1)
		if t == 0 {
			lvl = 0
		}
		r := params.RingQ().AtLevel(lvl)
		Ql := f64(r.ModulusAtLevel[lvl])
		ivs := [][2]float64{{-1, 1}, {0, 1}, {-8, 8}, {1, 3}, {-3, -1}, {0, 1e-3}, {-1e6, 1e6}, {-0.5, 7.25}}
		iv := ivs[rnd.N(len(ivs))]
		a, b := iv[0], iv[1]
		scale := eng.Pick(rnd, 1.0, 1000.5, Ql/4, Ql/16, Ql/3, 0x1p40, 3.0)
		tab := make([]float64, 1+rnd.N(33))
		for i := range tab {
			tab[i] = float64(rnd.N(6001)-3000) / 1000 // values beyond [-1,1]: scale*f may wrap modulo q
		}
		name := eng.Pick(rnd, "sign", "id", "table", "sq", "step", "table")
		f := mkFunc(name, a, b, tab)
		cfgs := fmt.Sprintf("logN=%d Q=%v level=%d f=%s interval=[%g,%g] scale=%g", d.P.LogN, d.P.Q, lvl, name, a, b, scale)
		var F ring.Poly
		if !c.Try("C20|blindrot.InitTestPolynomial", func() { F = blindrot.InitTestPolynomial(f, rlwe.NewScale(scale), r, a, b) }) {
			continue
		}
		if !c.Check(F.Level() == lvl && F.N() == r.N(), "C20|blindrot.InitTestPolynomial|result-shape", func() string {
			return fmt.Sprintf("%s: level %d N %d", cfgs, F.Level(), F.N())
		}) {
			continue
		}
		bad := checkTestPoly(r, d.P.Q[:lvl+1], F, f, scale, a, b)
		c.Check(bad == "", "C20|blindrot.InitTestPolynomial|differs-from-function-table|ring-level-scale-interval-variants", func() string { return cfgs + ": " + bad })
		c.Distinct(fmt.Sprintf("tpx/%d/%v/%d/%s/%g/%g/%g", d.P.LogN, d.P.QBits, lvl, name, a, b, scale), true)
		c.Count("tpx_test_polynomials", 1)
		if lvl < lqMax {
			c.Count("tpx_below_top_level", 1)
		}
	}
}
