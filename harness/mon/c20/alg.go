package c20

import (
	"fmt"

	"github.com/tuneinsight/lattigo/v6/core/rgsw"
	"github.com/tuneinsight/lattigo/v6/ring"

	"verif/harness/eng"
	"verif/harness/obs"
)

type algDesc struct {
	P      pcfg `json:"params"`
	Trials int  `json:"trials"`
}

func addI(a, b []int64) []int64 {
	o := make([]int64, len(a))
	for i := range a {
		o[i] = a[i] + b[i]
	}
	return o
}

// xPowMinusOne returns X^alpha - 1 over Z (alpha any integer).
func xPowMinusOne(alpha, n int) []int64 {
	o := make([]int64, n)
	k := ((alpha % (2 * n)) + 2*n) % (2 * n)
	if k < n {
		o[k] += 1
	} else {
		o[k-n] -= 1
	}
	o[0] -= 1
	return o
}

// maxEntryBelow reports whether every residue of ct is below its modulus.
func (e *env) reduced(ct *rgsw.Ciphertext) bool {
	lq, lp := ct.LevelQ(), ct.LevelP()
	for h := 0; h < 2; h++ {
		for i := range ct.Value[h].Value {
			for j := range ct.Value[h].Value[i] {
				for _, p := range ct.Value[h].Value[i][j] {
					for u := 0; u <= lq; u++ {
						q := e.pc.Q[u]
						for _, v := range p.Q.Coeffs[u] {
							if v >= q {
								return false
							}
						}
					}
					for u := 0; u <= lp; u++ {
						q := e.pc.P[u]
						for _, v := range p.P.Coeffs[u] {
							if v >= q {
								return false
							}
						}
					}
				}
			}
		}
	}
	return true
}

func runAlg(c *eng.Ctx, d algDesc) {
	e := newEnv(c, d.P, "C20")
	if e == nil {
		return
	}
	rnd := c.Rand()
	params := e.params
	c.Sample(map[string]any{"family": "alg", "params": d.P})
	enc := rgsw.NewEncryptor(params, e.sk)
	eval := rgsw.NewEvaluator(params, nil)
	lqMax, lpMax := params.MaxLevelQ(), params.MaxLevelP()
	chain := fmt.Sprintf("%d/%v/%v", d.P.LogN, d.P.QBits, d.P.PBits)
	n := e.n

	for trial := 0; trial < d.Trials; trial++ {
		lq, lp := rnd.N(lqMax+1), rnd.N(lpMax+2)-1
		if trial == 0 {
			lq, lp = lqMax, lpMax
		}
		w := 0
		if lp <= 0 && rnd.N(3) != 0 {
			w = eng.Pick(rnd, 2, 4, 7, 10, 16, 25)
		}
		rqp := params.RingQP().AtLevel(lq, lp)
		cfgs := fmt.Sprintf("levelQ=%d levelP=%d w=%d Q=%v P=%v logN=%d", lq, lp, w, d.P.Q, d.P.P, d.P.LogN)
		kp := fmt.Sprintf("%s/%d/%d/%d", chain, lq, lp, w)
		encG := func(kind string) ([]int64, *rgsw.Ciphertext) {
			g := gPoly(rnd, kind, n)
			ct := rgsw.NewCiphertext(params, lq, lp, w)
			ntt := rnd.Bool()
			mont := !ntt && rnd.Bool() // the NTT+Montgomery branch of Encrypt is judged in the ep family
			if err := enc.Encrypt(e.gPlaintext(g, lq, ntt, mont), ct); err != nil {
				panic(err)
			}
			return g, ct
		}
		var gA, gB []int64
		var A, B *rgsw.Ciphertext
		if !c.Try("C20|rgsw.Encryptor.Encrypt", func() {
			gA, A = encG(eng.Pick(rnd, "mono", "tern3", "dense", "one"))
			gB, B = encG(eng.Pick(rnd, "mono", "tern3", "dense", "negone", "zero"))
		}) {
			continue
		}
		A0, B0 := copyRGSW(A), copyRGSW(B)

		// ---- AddLazy(ciphertext) + Reduce
		{
			C := copyRGSW(A)
			if c.Try("C20|rgsw.AddLazy", func() { rgsw.AddLazy(B, rqp, C); rgsw.Reduce(C, rqp, C) }) {
				c.Check(e.reduced(C), "C20|rgsw.Reduce|residue-not-reduced", func() string { return cfgs })
				e.checkRGSW("rgsw.AddLazy(ct)", C, addI(gA, gB), 2*e.B, 16, "addct/"+kp)
				c.Check(equalRGSW(B, B0), "C20|rgsw.AddLazy|operand-modified", func() string { return cfgs })
			}
		}
		// ---- AddLazy(plaintext) + Reduce, plaintext from int64 / uint64 / ring.Poly
		{
			var gC []int64
			var val interface{}
			kind := eng.Pick(rnd, "int64", "uint64", "poly", "poly")
			switch kind {
			case "int64":
				v := int64(rnd.N(9)) - 4
				gC = make([]int64, n)
				gC[0] = v
				val = v
			case "uint64":
				v := uint64(rnd.N(5))
				gC = make([]int64, n)
				gC[0] = int64(v)
				val = v
			default:
				gC = gPoly(rnd, eng.Pick(rnd, "mono", "negmono", "dense"), n)
				p := params.RingQ().AtLevel(lq).NewPoly()
				rows := rowsOf(params.RingQ(), lq, gC)
				for u := range rows {
					copy(p.Coeffs[u], rows[u])
				}
				val = p
			}
			var pt *rgsw.Plaintext
			var perr error
			if c.Try("C20|rgsw.NewPlaintext", func() { pt, perr = rgsw.NewPlaintext(params, val, lq, lp, w) }) {
				if perr != nil {
					c.Violate("C20|rgsw.NewPlaintext|error-on-admissible", fmt.Sprintf("%s value kind %s: %v", cfgs, kind, perr), d)
				} else {
					C := copyRGSW(A)
					if c.Try("C20|rgsw.AddLazy", func() { rgsw.AddLazy(pt, rqp, C); rgsw.Reduce(C, rqp, C) }) {
						e.checkRGSW("rgsw.AddLazy(pt)", C, addI(gA, gC), e.B, 16, "addpt/"+kp+"/"+kind)
					}
				}
			}
		}
		// ---- multiplication by X^alpha - 1
		alphas := []int{0, 1, -1, n - 1, n, n + 1, 2*n - 1, rnd.N(2 * n), -rnd.N(2 * n)}
		alpha := alphas[rnd.N(len(alphas))]
		xm := xPowMinusOne(alpha, n)
		pow := rqp.NewPoly()
		setSmall := func(p ring.Poly, mods []uint64, a []int64) {
			for u := range p.Coeffs {
				for x, v := range a {
					p.Coeffs[u][x] = modI(v, mods[u])
				}
			}
		}
		setSmall(pow.Q, d.P.Q, xm)
		if lp >= 0 {
			setSmall(pow.P, d.P.P, xm)
		}
		rqp.NTT(pow, pow)
		rqp.MForm(pow, pow)
		aclass := fmt.Sprintf("%d", alpha)
		if alpha > 2 && alpha < n-1 || alpha < -1 {
			aclass = "rand"
		}
		gAx := negaI(gA, xm)
		{
			D := rgsw.NewCiphertext(params, lq, lp, w)
			if c.Try("C20|rgsw.MulByXPowAlphaMinusOneLazy", func() { rgsw.MulByXPowAlphaMinusOneLazy(A, pow, rqp, D); rgsw.Reduce(D, rqp, D) }) {
				e.checkRGSW("rgsw.MulByXPowAlphaMinusOneLazy", D, gAx, 2*e.B, 16, "mulx/"+kp+"/"+aclass)
			}
			// in place
			D2 := copyRGSW(A)
			if c.Try("C20|rgsw.MulByXPowAlphaMinusOneLazy", func() { rgsw.MulByXPowAlphaMinusOneLazy(D2, pow, rqp, D2); rgsw.Reduce(D2, rqp, D2) }) {
				c.Check(equalRGSW(D, D2), "C20|rgsw.MulByXPowAlphaMinusOneLazy|in-place-differs", func() string { return cfgs })
			}
		}
		var E *rgsw.Ciphertext
		gE := addI(gB, gAx)
		{
			E = copyRGSW(B)
			if c.Try("C20|rgsw.MulByXPowAlphaMinusOneThenAddLazy", func() { rgsw.MulByXPowAlphaMinusOneThenAddLazy(A, pow, rqp, E); rgsw.Reduce(E, rqp, E) }) {
				c.Check(e.reduced(E), "C20|rgsw.Reduce|residue-not-reduced", func() string { return cfgs })
				e.checkRGSW("rgsw.MulByXPowAlphaMinusOneThenAddLazy", E, gE, 3*e.B, 16, "mulxadd/"+kp+"/"+aclass)
			} else {
				E = nil
			}
		}
		c.Check(equalRGSW(A, A0), "C20|rgsw.algebra|operand-modified", func() string { return cfgs })

		// ---- the combined ciphertext still works as an external-product operand (CMux shape)
		if E != nil {
			rq := params.RingQ().AtLevel(lq)
			ct := e.genInput(rnd, eng.Pick(rnd, "fresh", "uniform"), lq)
			phi := obs.Phase(params, &ct.Element, e.sk)
			want := e.mulSmall(gE, phi, lq)
			bound := e.epBound(lq, lp, w, 3*e.B)
			if c.Try("C20|rgsw.Evaluator.ExternalProduct", func() { eval.ExternalProduct(ct, E, ct) }) {
				st := obs.Stat(obs.Diff(rq, obs.Phase(params, &ct.Element, e.sk), want))
				meaningful := bound < f64(rq.ModulusAtLevel[lq])/8
				c.Distinct("algep/"+kp, meaningful)
				c.Count("noise_measurements", 1)
				c.Check(f64(st.Max) <= bound, "C20|rgsw.Evaluator.ExternalProduct|noise-above-worst-case-bound|after-algebra", func() string {
					return fmt.Sprintf("%s alpha=%d: noise 2^%.1f bound %.3g", cfgs, alpha, st.MaxLog2, bound)
				})
			}
		}
	}
}
