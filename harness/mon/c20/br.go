package c20

import (
	"fmt"
	"math"
	"math/big"
	"sort"

	"github.com/tuneinsight/lattigo/v6/core/rgsw"
	"github.com/tuneinsight/lattigo/v6/core/rgsw/blindrot"
	"github.com/tuneinsight/lattigo/v6/core/rlwe"
	"github.com/tuneinsight/lattigo/v6/ring"

	"verif/harness/eng"
	"verif/harness/obs"
	"verif/harness/ref"
)

const brWindow = 10 // parameter w of Algorithm 3 of eprint 2022/198 as fixed in blindrot/keys.go

type brDesc struct {
	BR       pcfg     `json:"br"`
	LWE      pcfg     `json:"lwe"`
	LevelP   int      `json:"evkLevelP"`
	W        int      `json:"evkBaseTwo"`
	Funcs    []string `json:"funcs"`
	A        float64  `json:"a"`
	B        float64  `json:"b"`
	Kind     string   `json:"kind"`
	SlotMode string   `json:"slots"`
	NCts     int      `json:"ncts"`
	LWELevel int      `json:"lweLevel"`
}

// ---------------------------------------------------------------- recording key set

type recEvk struct {
	inner *rlwe.MemEvaluationKeySet
	req   map[uint64]int
	calls int
	errs  []string
}

func (r *recEvk) GetGaloisKey(galEl uint64) (*rlwe.GaloisKey, error) {
	r.req[galEl]++
	r.calls++
	k, err := r.inner.GetGaloisKey(galEl)
	if err != nil {
		r.errs = append(r.errs, fmt.Sprintf("galEl %d: %v", galEl, err))
	}
	return k, err
}
func (r *recEvk) GetGaloisKeysList() []uint64 { return r.inner.GetGaloisKeysList() }
func (r *recEvk) GetRelinearizationKey() (*rlwe.RelinearizationKey, error) {
	return r.inner.GetRelinearizationKey()
}
func (r *recEvk) ShallowCopy() rlwe.EvaluationKeySet { return r }

type recBRK struct {
	keys []*rgsw.Ciphertext
	evk  *recEvk
	req  map[int]int
	oob  []int
}

func (r *recBRK) GetBlindRotationKey(i int) (*rgsw.Ciphertext, error) {
	if i < 0 || i >= len(r.keys) {
		r.oob = append(r.oob, i)
		return nil, fmt.Errorf("blind rotation key %d does not exist", i)
	}
	r.req[i]++
	return r.keys[i], nil
}
func (r *recBRK) GetEvaluationKeySet() (rlwe.EvaluationKeySet, error) { return r.evk, nil }

// ---------------------------------------------------------------- functions

func mkFunc(kind string, a, b float64, tab []float64) func(float64) float64 {
	m := math.Max(math.Abs(a), math.Abs(b))
	switch kind {
	case "sign":
		return func(x float64) float64 {
			if x > 0 {
				return 1
			} else if x == 0 {
				return 0
			}
			return -1
		}
	case "id":
		return func(x float64) float64 { return x / m }
	case "sq":
		return func(x float64) float64 { return (x / m) * (x / m) }
	case "step":
		return func(x float64) float64 {
			if x >= (a+b)/2 {
				return -0.5
			}
			return 0.75
		}
	}
	return func(x float64) float64 {
		i := int(math.Floor((x - a) / (b - a) * float64(len(tab))))
		i = max(0, min(len(tab)-1, i))
		return tab[i]
	}
}

// normalizeInv as documented by InitTestPolynomial: inverse of (2x-a-b)/(b-a).
func normalizeInv(y, a, b float64) float64 { return (y*(b-a) + b + a) / 2.0 }

func pow5(k int, twoN uint64) uint64 {
	r := uint64(1)
	for i := 0; i < k; i++ {
		r = (r * 5) & (twoN - 1)
	}
	return r
}

// coef0 of X^k * F (F given by one row, modulus q).
func coef0(F []uint64, k int, q uint64) uint64 {
	n := len(F)
	t := ((k % (2 * n)) + 2*n) % (2 * n)
	switch {
	case t == 0:
		return F[0]
	case t < n:
		return ref.NegMod(F[n-t], q) % q
	case t == n:
		return ref.NegMod(F[0], q) % q
	}
	return F[2*n-t]
}

func runBR(c *eng.Ctx, d brDesc) {
	eBR := newEnv(c, d.BR, "C20")
	eLWE := newEnv(c, d.LWE, "C20")
	if eBR == nil || eLWE == nil {
		return
	}
	rnd := c.Rand()
	pBR, pLWE := eBR.params, eLWE.params
	NBR, NLWE := pBR.N(), pLWE.N()
	twoN := uint64(2 * NBR)
	c.Sample(map[string]any{"family": "br", "desc": d})
	pair := fmt.Sprintf("%s|%s|lp%d|w%d", d.BR.short(), d.LWE.short(), d.LevelP, d.W)
	cfgs := fmt.Sprintf("BR{logN=%d Q=%v P=%v ntt=%v xs=%s} LWE{logN=%d Q=%v ntt=%v xs=%s level=%d} evk{levelP=%d w=%d} interval=[%g,%g]",
		d.BR.LogN, d.BR.Q, d.BR.P, d.BR.NTT, d.BR.Xs, d.LWE.LogN, d.LWE.Q, d.LWE.NTT, d.LWE.Xs, d.LWELevel, d.LevelP, d.W, d.A, d.B)

	lp, w := d.LevelP, d.W
	evkParams := rlwe.EvaluationKeyParameters{LevelP: &lp, BaseTwoDecomposition: &w}
	var brk blindrot.MemBlindRotationEvaluationKeySet
	if !c.Try("C20|blindrot.GenEvaluationKeyNew", func() { brk = blindrot.GenEvaluationKeyNew(pBR, eBR.sk, pLWE, eLWE.sk, evkParams) }) {
		return
	}
	lqBR := pBR.MaxLevelQ()
	QBR := pBR.RingQ().ModulusAtLevel[lqBR]
	rqBR := pBR.RingQ().AtLevel(lqBR)

	// ---------------- key-set structure
	c.Check(len(brk.BlindRotationKeys) == NLWE, "C20|blindrot.GenEvaluationKeyNew|wrong-number-of-rgsw-keys", func() string {
		return fmt.Sprintf("%s: %d keys for N_LWE=%d", cfgs, len(brk.BlindRotationKeys), NLWE)
	})
	if len(brk.BlindRotationKeys) != NLWE {
		return
	}
	{
		idx := []int{0, NLWE - 1, rnd.N(NLWE), rnd.N(NLWE)}
		seen := map[int64]bool{}
		for i, s := range eLWE.s { // one index per distinct secret value
			if !seen[s] {
				seen[s] = true
				idx = append(idx, i)
			}
			if len(seen) >= 5 {
				break
			}
		}
		for _, i := range idx {
			k := brk.BlindRotationKeys[i]
			okShape := k.LevelQ() == lqBR && k.LevelP() == lp && k.Value[0].BaseTwoDecomposition == w
			c.Check(okShape, "C20|blindrot.GenEvaluationKeyNew|rgsw-key-shape", func() string {
				return fmt.Sprintf("%s key %d: levelQ=%d levelP=%d w=%d", cfgs, i, k.LevelQ(), k.LevelP(), k.Value[0].BaseTwoDecomposition)
			})
			if !okShape {
				continue
			}
			g := make([]int64, NBR)
			si := int(eLWE.s[i])
			t := ((si % (2 * NBR)) + 2*NBR) % (2 * NBR)
			if t < NBR {
				g[t] = 1
			} else {
				g[t-NBR] = -1
			}
			eBR.checkRGSW("blindrot.GenEvaluationKeyNew", k, g, eBR.B, 6, fmt.Sprintf("brk/%s/s=%d", pair, si))
		}
	}
	wantGal := map[uint64]bool{twoN - ring.GaloisGen: true}
	for v := 1; v <= brWindow; v++ {
		wantGal[pow5(v, twoN)] = true
	}
	haveGal := map[uint64]bool{}
	for _, gk := range brk.AutomorphismKeys {
		haveGal[gk.GaloisElement] = true
		c.Check(gk.LevelQ() == lqBR && gk.LevelP() == lp && gk.BaseTwoDecomposition == w, "C20|blindrot.GenEvaluationKeyNew|galois-key-shape", func() string {
			return fmt.Sprintf("%s galEl=%d: levelQ=%d levelP=%d w=%d", cfgs, gk.GaloisElement, gk.LevelQ(), gk.LevelP(), gk.BaseTwoDecomposition)
		})
	}
	{
		var missing, extra []uint64
		for g := range wantGal {
			if !haveGal[g] {
				missing = append(missing, g)
			}
		}
		for g := range haveGal {
			if !wantGal[g] {
				extra = append(extra, g)
			}
		}
		c.Check(len(missing) == 0, "C20|blindrot.GenEvaluationKeyNew|galois-key-missing", func() string {
			return fmt.Sprintf("%s: missing Galois elements %v", cfgs, missing)
		})
		c.Check(len(extra) == 0, "C20|blindrot.GenEvaluationKeyNew|galois-key-not-requested-by-algorithm", func() string {
			return fmt.Sprintf("%s: extra Galois elements %v", cfgs, extra)
		})
	}

	// ---------------- test polynomials
	scale := f64(QBR) / 4
	tab := make([]float64, 16)
	for i := range tab {
		tab[i] = float64(rnd.N(2001)-1000) / 1000
	}
	type tp struct {
		name string
		f    func(float64) float64
		poly ring.Poly
		F    ring.Poly // coefficient domain
	}
	var tps []*tp
	for _, name := range d.Funcs {
		f := mkFunc(name, d.A, d.B, tab)
		t := &tp{name: name, f: f}
		if !c.Try("C20|blindrot.InitTestPolynomial", func() { t.poly = blindrot.InitTestPolynomial(f, rlwe.NewScale(scale), rqBR, d.A, d.B) }) {
			return
		}
		t.F = obs.Plain(rqBR, t.poly, true, false)
		// F against f: F[i] = round(scale f(x(-2i/N))) for i <= N/2, -round(scale f(x(2(N-i)/N))) above
		bad := ""
		for u := 0; u <= lqBR && bad == ""; u++ {
			q := d.BR.Q[u]
			for i := 0; i < NBR; i++ {
				var v float64
				if i <= NBR/2 {
					v = f(normalizeInv(-2.0/float64(NBR)*float64(i), d.A, d.B))
				} else {
					v = -f(normalizeInv(2.0/float64(NBR)*float64(NBR-i), d.A, d.B))
				}
				sv := scale * v
				iv, _ := big.NewFloat(math.Abs(sv)).Int(nil)
				if sv < 0 {
					iv.Neg(iv)
				}
				diff := ref.SubMod(t.F.Coeffs[u][i], ref.ModU(iv, q), q)
				if diff > q/2 {
					diff = q - diff
				}
				if float64(diff) > 1+math.Abs(sv)*0x1p-50 {
					bad = fmt.Sprintf("prime #%d coefficient %d: got %d want %v (+-1) mod %d", u, i, t.F.Coeffs[u][i], iv, q)
					break
				}
			}
		}
		c.Check(bad == "", "C20|blindrot.InitTestPolynomial|differs-from-function-table", func() string {
			return fmt.Sprintf("%s f=%s: %s", cfgs, name, bad)
		})
		c.Distinct(fmt.Sprintf("testpoly/%s/%s/%g/%g", d.BR.short(), name, d.A, d.B), true)
		tps = append(tps, t)
	}

	// ---------------- bounds
	epb := eBR.epBound(lqBR, lp, w, eBR.B)
	ksb := eBR.ksBound(lqBR, lp, w)
	autMax := float64(NLWE + 2*((NBR/2-1)/brWindow+1) + 1)
	bound := float64(NLWE)*epb + autMax*ksb
	meaningful := bound < f64(QBR)/16
	thr := bound
	if !meaningful && d.Kind == "stock" {
		thr = f64(QBR) / 8
	}
	driftW := 0.5 + 1.5*eLWE.H

	var evalBR *blindrot.Evaluator
	if !c.Try("C20|blindrot.NewEvaluator", func() { evalBR = blindrot.NewEvaluator(pBR, pLWE) }) {
		return
	}
	lvl := d.LWELevel
	rqL := pLWE.RingQ().AtLevel(lvl)
	QL := rqL.ModulusAtLevel[lvl]
	crtL := ref.NewCRT(d.LWE.Q[:lvl+1])
	encL := rlwe.NewEncryptor(pLWE, eLWE.sk)
	memEvk := rlwe.NewMemEvaluationKeySet(nil, brk.AutomorphismKeys...)
	unionReq := map[uint64]bool{}
	gridK := -NBR / 2
	y0 := -(d.A + d.B) / (d.B - d.A) // normalised abscissa of x = 0
	step := 2.0 / float64(NBR)
	endsList := []float64{-1, 1, -1 + step, 1 - step, 0, step, -step, step / 2, -step / 2, y0, y0 + step, y0 - step, 0.5, -0.5}

	for ci := 0; ci < d.NCts; ci++ {
		kind := d.Kind
		if kind == "mixed" {
			kind = []string{"ends", "grid", "random", "crafted"}[ci%4]
		}
		// ---- slot subset
		var slots []int
		switch d.SlotMode {
		case "all":
			for i := 0; i < NLWE; i++ {
				slots = append(slots, i)
			}
		case "first":
			for i := 0; i < min(16, NLWE); i++ {
				slots = append(slots, i)
			}
		case "last":
			slots = []int{NLWE - 1}
		default: // sparse: never slot 0, always a late one
			set := map[int]bool{NLWE - 1 - rnd.N(2): true}
			for len(set) < min(5, NLWE-1) {
				set[1+rnd.N(NLWE-1)] = true
			}
			for i := range set {
				slots = append(slots, i)
			}
			sort.Ints(slots)
		}
		if kind == "crafted" {
			slots = []int{0}
		}
		// ---- values
		ys := make([]float64, NLWE)
		for i := range ys {
			switch kind {
			case "grid":
				ys[i] = float64(gridK) * step
				gridK++
				if gridK > NBR/2 {
					gridK = -NBR / 2
				}
			case "ends":
				ys[i] = endsList[(i+ci)%len(endsList)]
				if ys[i] < -1 || ys[i] > 1 {
					ys[i] = 0
				}
			default:
				ys[i] = 2*rnd.F64() - 1
			}
		}
		scaleL := f64(QL) / 4
		msg := make([]*big.Int, NLWE)
		for i := range msg {
			msg[i], _ = big.NewFloat(math.Round(ys[i] * scaleL)).Int(nil)
		}
		ct := rlwe.NewCiphertext(pLWE, 1, lvl)
		if kind == "crafted" {
			// mask vector of slot 0: negative-set dlogs with gaps 1..10, then positive-set ones
			A0 := make([]uint64, NLWE)
			for j := range A0 {
				A0[j] = 1
			}
			if NBR >= 128 && NLWE >= 16 {
				p := NBR/2 - 1
				for t := 0; t <= brWindow; t++ {
					p -= t
					A0[t] = twoN - pow5(p, twoN)
				}
				if NLWE >= 32 {
					p = NBR/2 - 1
					for t := 0; t <= brWindow; t++ {
						p -= t
						A0[11+t] = pow5(p, twoN)
					}
				}
			}
			ap := make([]uint64, NLWE)
			ap[0] = A0[0]
			for j := 1; j < NLWE; j++ {
				ap[NLWE-j] = (twoN - A0[j]) & (twoN - 1)
			}
			c1 := rqL.NewPoly()
			for j := 0; j < NLWE; j++ {
				// round(a' * Q / 2N)
				v := new(big.Int).Mul(new(big.Int).SetUint64(ap[j]), QL)
				v = ref.RoundHalfUpDiv(v, new(big.Int).SetUint64(twoN))
				for u := 0; u <= lvl; u++ {
					c1.Coeffs[u][j] = ref.ModU(v, d.LWE.Q[u])
				}
			}
			c0 := rqL.NewPoly()
			rqL.NTT(c1, c0)
			rqL.MulCoeffsMontgomery(c0, eLWE.sk.Value.Q, c0)
			rqL.INTT(c0, c0)
			rqL.Neg(c0, c0)
			for j := 0; j < NLWE; j++ {
				for u := 0; u <= lvl; u++ {
					c0.Coeffs[u][j] = ref.AddMod(c0.Coeffs[u][j], ref.ModU(msg[j], d.LWE.Q[u]), d.LWE.Q[u])
				}
			}
			for u := 0; u <= lvl; u++ {
				copy(ct.Value[0].Coeffs[u], c0.Coeffs[u])
				copy(ct.Value[1].Coeffs[u], c1.Coeffs[u])
			}
			if ct.IsNTT {
				rqL.NTT(ct.Value[0], ct.Value[0])
				rqL.NTT(ct.Value[1], ct.Value[1])
			}
		} else {
			pt := rlwe.NewPlaintext(pLWE, lvl)
			for j := 0; j < NLWE; j++ {
				for u := 0; u <= lvl; u++ {
					pt.Value.Coeffs[u][j] = ref.ModU(msg[j], d.LWE.Q[u])
				}
			}
			if pt.IsNTT {
				rqL.NTT(pt.Value, pt.Value)
			}
			if err := encL.Encrypt(pt, ct); err != nil {
				c.Violate("C20|rlwe.Encryptor.Encrypt|error-on-admissible", err.Error(), d)
				return
			}
		}
		ct0 := ct.CopyNew()
		// ---- test polynomial map
		tpm := map[int]*ring.Poly{}
		tpOf := map[int]*tp{}
		for si, s := range slots {
			t := tps[(si+ci)%len(tps)]
			tpm[s] = &t.poly
			tpOf[s] = t
		}
		polyCopies := make([]ring.Poly, len(tps))
		for i, t := range tps {
			polyCopies[i] = *t.poly.CopyNew()
		}
		rec := &recBRK{keys: brk.BlindRotationKeys, evk: &recEvk{inner: memEvk, req: map[uint64]int{}}, req: map[int]int{}}
		var res map[int]*rlwe.Ciphertext
		var err error
		if !c.Try("C20|blindrot.Evaluator.Evaluate", func() { res, err = evalBR.Evaluate(ct, tpm, rec) }) {
			return
		}
		if err != nil {
			sig := "C20|blindrot.Evaluator.Evaluate|error-on-admissible"
			if len(rec.evk.errs) > 0 {
				sig = "C20|blindrot.Evaluator.Evaluate|requests-galois-key-not-generated"
			}
			c.Violate(sig, fmt.Sprintf("%s: %v %v", cfgs, err, rec.evk.errs), d)
			return
		}
		c.Check(ct.Equal(ct0), "C20|blindrot.Evaluator.Evaluate|input-modified", func() string { return cfgs })
		for i, t := range tps {
			c.Check(t.poly.Equal(&polyCopies[i]), "C20|blindrot.Evaluator.Evaluate|test-polynomial-modified", func() string { return cfgs })
		}
		// ---- requests
		{
			okReq := len(rec.oob) == 0
			for i := 0; i < NLWE && okReq; i++ {
				want := len(slots)
				if i == 0 {
					want++
				}
				okReq = rec.req[i] == want
			}
			c.Check(okReq, "C20|blindrot.Evaluator.Evaluate|rgsw-key-requests", func() string {
				return fmt.Sprintf("%s: every key must be used once per slot (%d slots); out of range %v; counts[0..3]=%d,%d,%d,%d", cfgs, len(slots), rec.oob, rec.req[0], rec.req[1], rec.req[2], rec.req[3])
			})
			for g := range rec.evk.req {
				unionReq[g] = true
			}
			c.Count("br_automorphisms", int64(rec.evk.calls))
			c.Count("br_external_products", int64(len(slots)*NLWE))
			c.Check(float64(rec.evk.calls) <= autMax*float64(len(slots)), "C20|blindrot.Evaluator.Evaluate|more-automorphisms-than-algorithm-3", func() string {
				return fmt.Sprintf("%s: %d automorphisms for %d slots (max %v each)", cfgs, rec.evk.calls, len(slots), autMax)
			})
		}
		{
			got := make([]int, 0, len(res))
			for i := range res {
				got = append(got, i)
			}
			sort.Ints(got)
			c.Check(fmt.Sprint(got) == fmt.Sprint(slots), "C20|blindrot.Evaluator.Evaluate|result-slots", func() string {
				return fmt.Sprintf("%s: requested %v got %v", cfgs, slots, got)
			})
		}
		// ---- model of the rotation amount
		cc := [2][]*big.Int{}
		for k := 0; k < 2; k++ {
			pl := obs.Plain(rqL, ct0.Value[k], ct0.IsNTT, false)
			cc[k] = make([]*big.Int, NLWE)
			for j := 0; j < NLWE; j++ {
				cc[k][j] = crtL.Reconstruct(crtL.Column(pl.Coeffs, j))
			}
		}
		sw := func(x *big.Int) uint64 {
			v := new(big.Int).Mul(x, new(big.Int).SetUint64(twoN))
			v = ref.RoundHalfUpDiv(v, QL)
			return v.Uint64() & (twoN - 1)
		}
		ap := make([]uint64, NLWE)
		bp := make([]uint64, NLWE)
		for j := 0; j < NLWE; j++ {
			ap[j] = sw(cc[1][j])
			if ap[j]&1 == 0 && ap[j] != 0 {
				ap[j] ^= 1
			}
			bp[j] = sw(cc[0][j])
		}
		phiL := obs.Centered(rqL, obs.Phase(pLWE, &ct0.Element, eLWE.sk))
		for _, s := range slots {
			out, ok := res[s]
			if !ok {
				continue
			}
			t := tpOf[s]
			// k = b'_s + sum_j A_s[j] * s_j mod 2N, A_s[j] = a'[s-j] (j<=s), -a'[N+s-j] (j>s); 0 counts as 1.
			// kk: documented algorithm; kkB: the same with a mask value -1 (= 2N-1) rotated as +1.
			k, kB := int64(bp[s]), int64(bp[s])
			for j := 0; j < NLWE; j++ {
				var a uint64
				if j <= s {
					a = ap[s-j]
				} else {
					a = (twoN - ap[NLWE+s-j]) & (twoN - 1)
				}
				if a == 0 {
					a = 1
				}
				k += int64(a) * eLWE.s[j]
				if a == twoN-1 {
					a = 1
				}
				kB += int64(a) * eLWE.s[j]
			}
			kk := int(((k % int64(twoN)) + int64(twoN)) % int64(twoN))
			kkB := int(((kB % int64(twoN)) + int64(twoN)) % int64(twoN))
			kreal := f64(phiL[s]) * float64(twoN) / f64(QL)
			kc := kk
			if kc >= NBR {
				kc -= 2 * NBR
			}
			drift := float64(kc) - kreal
			for drift > float64(NBR) {
				drift -= float64(2 * NBR)
			}
			for drift < -float64(NBR) {
				drift += float64(2 * NBR)
			}
			c.Max("max_abs_drift_x100", int64(100*math.Abs(drift)))
			okMeta := out.Level() == lqBR && out.IsNTT == pBR.NTTFlag() && out.Degree() == 1
			c.Check(okMeta, "C20|blindrot.Evaluator.Evaluate|result-metadata", func() string {
				return fmt.Sprintf("%s slot %d: level=%d isNTT=%v degree=%d", cfgs, s, out.Level(), out.IsNTT, out.Degree())
			})
			if !okMeta {
				continue
			}
			want := rqBR.NewPoly()
			for u := 0; u <= lqBR; u++ {
				copy(want.Coeffs[u], ref.MonomialMul(t.F.Coeffs[u], kk, d.BR.Q[u]))
			}
			ph := obs.Phase(pBR, &out.Element, eBR.sk)
			diff := obs.Diff(rqBR, ph, want)
			st := obs.Stat(diff)
			c.Count("noise_measurements", 1)
			key := fmt.Sprintf("br/%s/%s/%s/slot%d/k%d", pair, t.name, kind, s, kk)
			c.Distinct(key, meaningful)
			if meaningful {
				c.Count("meaningful_bounds", 1)
				if f64(st.Max) <= bound {
					c.Max("max_passing_br_noise_over_bound_x1000/"+eBR.epPath(lqBR, lp)+fmt.Sprintf("/w%d/%s", w, d.BR.Xs), int64(1000*f64(st.Max)/bound))
				}
			}
			c.Count("br_results_judged", 1)
			yv := ys[s]
			pathc := eBR.epPathSig(lqBR, lp, w)
			modelSig := "C20|blindrot.Evaluator.Evaluate|differs-from-rotation-model|" + pathc
			windowSig := "C20|blindrot.Evaluator.Evaluate|result-outside-drift-window"
			if pathc == "fast32-lazy-sum-can-exceed-64-bits" {
				windowSig += "|" + pathc
			}
			if f64(st.Max) > thr && kkB != kk {
				wB := rqBR.NewPoly()
				for u := 0; u <= lqBR; u++ {
					copy(wB.Coeffs[u], ref.MonomialMul(t.F.Coeffs[u], kkB, d.BR.Q[u]))
				}
				if f64(obs.Stat(obs.Diff(rqBR, ph, wB)).Max) <= thr {
					modelSig = "C20|blindrot.Evaluator.Evaluate|differs-from-rotation-model|mask-coefficient-minus-one-rotated-as-plus-one"
					windowSig += "|mask-coefficient-minus-one-rotated-as-plus-one"
					c.Count("br_slots_with_minus_one_rotated_as_plus_one", 1)
				}
			}
			c.Check(f64(st.Max) <= thr, modelSig, func() string {
				// look for the rotation that was actually applied (diagnostic only)
				found := "none within noise"
				for kx := 0; kx < 2*NBR; kx++ {
					okk := true
					for u := 0; u <= lqBR && okk; u++ {
						q := d.BR.Q[u]
						dd := ref.SubMod(ph.Coeffs[u][0]%q, coef0(t.F.Coeffs[u], kx, q), q)
						if dd > q/2 {
							dd = q - dd
						}
						okk = float64(dd) <= thr
					}
					if okk {
						found = fmt.Sprintf("%d", kx)
						break
					}
				}
				return fmt.Sprintf("%s f=%s slot=%d y=%g (x=%g): |phase - X^k F|inf=2^%.1f threshold=2^%.1f Q=2^%d, model k=%d (with -1 rotated as +1: k=%d; real-valued %0.2f), a constant-coefficient match exists for k=%s", cfgs, t.name, s, yv, normalizeInv(yv, d.A, d.B), st.MaxLog2, math.Log2(thr), QBR.BitLen(), kk, kkB, kreal, found)
			})
			// semantic window: the constant coefficient is a table entry within the worst-case drift of the real input
			if thr < f64(QBR)/8+1 && 2*driftW+2 < float64(2*NBR) {
				c0 := diffConst(rqBR, ph)
				lo, hi := int(math.Ceil(kreal-driftW-1e-6)), int(math.Floor(kreal+driftW+1e-6))
				found := false
				for kx := lo; kx <= hi && !found; kx++ {
					wv := make([]uint64, lqBR+1)
					for u := 0; u <= lqBR; u++ {
						wv[u] = coef0(t.F.Coeffs[u], kx, d.BR.Q[u])
					}
					crt := ref.NewCRT(d.BR.Q[:lqBR+1])
					dd := new(big.Int).Sub(c0, crt.Centered(wv))
					dd.Mod(dd, QBR)
					if dd.Cmp(new(big.Int).Rsh(QBR, 1)) > 0 {
						dd.Sub(dd, QBR)
					}
					found = math.Abs(f64(dd)) <= thr
				}
				c.Count("semantic_window_checks", 1)
				c.Check(found, windowSig, func() string {
					return fmt.Sprintf("%s f=%s slot=%d y=%g: no table entry F[k], |k - %.2f| <= %.1f, matches the decrypted constant coefficient", cfgs, t.name, s, yv, kreal, driftW)
				})
			}
			// decoded value against f(x) for the evidence (not a verdict: discretisation + drift apply)
			c.Eval(1)
		}
	}
	if d.Kind == "grid" && d.SlotMode == "all" && d.NCts*NLWE >= NBR+1 {
		c.Count("br_cases_covering_every_grid_point", 1)
	}
	if d.Kind == "crafted" || d.Kind == "mixed" && d.NCts >= 4 {
		if NBR >= 128 && NLWE >= 16 {
			var unused []uint64
			for g := range haveGal {
				if !unionReq[g] {
					unused = append(unused, g)
				}
			}
			c.Check(len(unused) == 0, "C20|blindrot.GenEvaluationKeyNew|galois-key-never-requested", func() string {
				return fmt.Sprintf("%s: generated but not requested on the crafted gap pattern 1..%d: %v", cfgs, brWindow, unused)
			})
			c.Count("crafted_all_keys_requested", 1)
		}
	}
}

// diffConst returns the centred constant coefficient of p.
func diffConst(r *ring.Ring, p ring.Poly) *big.Int {
	level := r.Level()
	crt := ref.NewCRT(r.ModuliChain()[:level+1])
	return crt.Centered(crt.Column(p.Coeffs, 0))
}
