// Package c20: RGSW external products and blind rotations compute the encrypted look-up.
//
// Oracles (all with the secret keys in the harness' hands):
//   - external product: phase(out) - g*phase(in) (g reduced into every prime, product by the naive
//     negacyclic model) must stay below the worst-case bound implied by the decomposition; without
//     auxiliary modulus the output must equal, bit for bit, the exact gadget sum recomputed from the
//     documented digit definition (with one auxiliary prime: up to the ModDown rounding of 1);
//   - RGSW algebra: every gadget row of both halves is decrypted and compared with the expected
//     plaintext (P * 2^(w j) * g, resp. * g*s, on the primes of the digit, 0 elsewhere);
//   - blind rotation: the rotation amount k = b' + <a', s> mod 2N is recomputed from the ciphertext,
//     the LWE secret and the documented modulus switch, and the whole output phase is compared with
//     X^k * F; in addition k must lie in the worst-case drift window around the real-valued input;
//     the test polynomial is checked against f, the key set against the requests of the algorithm.
package c20

import (
	"fmt"
	"math"
	"math/big"
	"strings"

	"github.com/tuneinsight/lattigo/v6/core/rgsw"
	"github.com/tuneinsight/lattigo/v6/core/rlwe"
	"github.com/tuneinsight/lattigo/v6/ring"

	"verif/harness/eng"
	"verif/harness/obs"
	"verif/harness/ref"
)

// pcfg describes one rlwe parameter set.
type pcfg struct {
	LogN  int      `json:"logN"`
	Q     []uint64 `json:"q"`
	P     []uint64 `json:"p,omitempty"`
	QBits []int    `json:"qbits"`
	PBits []int    `json:"pbits,omitempty"`
	Xs    string   `json:"xs"`
	NTT   bool     `json:"nttflag"`
}

func (c pcfg) xs() ring.DistributionParameters {
	n := 1 << c.LogN
	switch c.Xs {
	case "h1":
		return ring.Ternary{H: 1}
	case "h8":
		return ring.Ternary{H: min(8, n)}
	case "hHalf":
		return ring.Ternary{H: n / 2}
	case "hN":
		return ring.Ternary{H: n}
	case "gauss":
		return ring.DiscreteGaussian{Sigma: 3.2, Bound: 19.2}
	}
	return ring.Ternary{P: 2.0 / 3}
}

func (c pcfg) params() (rlwe.Parameters, error) {
	return rlwe.NewParametersFromLiteral(rlwe.ParametersLiteral{LogN: c.LogN, Q: c.Q, P: c.P, Xs: c.xs(), NTTFlag: c.NTT})
}

func (c pcfg) short() string {
	return fmt.Sprintf("logN%d/q%v/p%v/%s", c.LogN, c.QBits, c.PBits, c.Xs)
}

// env bundles a parameter set with its secret.
type env struct {
	c      *eng.Ctx
	pc     pcfg
	params rlwe.Parameters
	sk     *rlwe.SecretKey
	s      []int64 // coefficients of the secret over Z
	B      float64 // worst-case |e|_inf of one error sample
	H      float64 // l1 norm of the secret
	n      int
}

func newEnv(c *eng.Ctx, pc pcfg, sigPrefix string) *env {
	params, err := pc.params()
	if err != nil {
		c.Violate(sigPrefix+"|rlwe.NewParametersFromLiteral|error-on-admissible", fmt.Sprintf("%+v: %v", pc, err), pc)
		return nil
	}
	e := &env{c: c, pc: pc, params: params, n: params.N()}
	e.sk = rlwe.NewKeyGenerator(params).GenSecretKeyNew()
	e.s = skCoeffs(params, e.sk)
	e.B, _ = obs.ErrBound(params)
	for _, x := range e.s {
		e.H += math.Abs(float64(x))
	}
	return e
}

// skCoeffs returns the secret as centred integers (read from the first prime).
func skCoeffs(params rlwe.Parameters, sk *rlwe.SecretKey) []int64 {
	r := params.RingQ().AtLevel(0)
	p := obs.Plain(r, sk.Value.Q, true, true)
	q := r.SubRings[0].Modulus
	out := make([]int64, params.N())
	for i, v := range p.Coeffs[0] {
		if v > q/2 {
			out[i] = -int64(q - v)
		} else {
			out[i] = int64(v)
		}
	}
	return out
}

func f64(x *big.Int) float64 { f, _ := new(big.Float).SetInt(x).Float64(); return f }

func modI(x int64, q uint64) uint64 {
	if x >= 0 {
		return uint64(x) % q
	}
	r := uint64(-x) % q
	if r == 0 {
		return 0
	}
	return q - r
}

// negaI multiplies two integer polynomials in Z[X]/(X^N+1) (small entries).
func negaI(a, b []int64) []int64 {
	n := len(a)
	out := make([]int64, n)
	for i, x := range a {
		if x == 0 {
			continue
		}
		for j, y := range b {
			if y == 0 {
				continue
			}
			k := i + j
			if k >= n {
				out[k-n] -= x * y
			} else {
				out[k] += x * y
			}
		}
	}
	return out
}

// rows reduces an integer polynomial into rows 0..level of ring r.
func rowsOf(r *ring.Ring, level int, a []int64) [][]uint64 {
	out := make([][]uint64, level+1)
	for u := 0; u <= level; u++ {
		q := r.SubRings[u].Modulus
		out[u] = make([]uint64, len(a))
		for x, v := range a {
			out[u][x] = modI(v, q)
		}
	}
	return out
}

func prodF(v []uint64) float64 {
	p := 1.0
	for _, x := range v {
		p *= float64(x)
	}
	return p
}

// epBound: worst-case noise added by one external product with an RGSW ciphertext at
// (levelQ, levelP, w) whose rows carry errors bounded by keyErr. Two gadget halves; digits are
// < 2^w (power-of-two decomposition), in [0,q_i) (one prime per digit, no centring, levelP <= 0)
// or bounded by the digit-group modulus (RNS digits, levelP >= 1).
func (e *env) epBound(levelQ, levelP, w int, keyErr float64) float64 {
	q := e.pc.Q
	N := float64(e.n)
	sum := 0.0
	switch {
	case levelP >= 1:
		nb := levelP + 1
		for st := 0; st <= levelQ; st += nb {
			g := 1.0
			for i := st; i < st+nb && i <= levelQ; i++ {
				g *= float64(q[i])
			}
			sum += N * g * keyErr
		}
	case w > 0:
		for i := 0; i <= levelQ; i++ {
			nd := (ref.BitLen(q[i]) + w - 1) / w
			sum += float64(nd) * N * math.Exp2(float64(w)) * keyErr
		}
	default:
		for i := 0; i <= levelQ; i++ {
			sum += N * float64(q[i]) * keyErr
		}
	}
	sum *= 2
	if levelP >= 0 {
		sum = sum/prodF(e.pc.P[:levelP+1]) + 1.5*(1+e.H)
	}
	return sum
}

// ksBound: worst-case noise added by one key switch (rlwe gadget product) with a key at
// (level, lp, w); same derivation as the C04 monitor.
func (e *env) ksBound(level, lp, w int) float64 {
	q := e.pc.Q
	N := float64(e.n)
	sum := 0.0
	if lp > 0 || (lp == 0 && w == 0) {
		nb := lp + 1
		for st := 0; st <= level; st += nb {
			g := 1.0
			for i := st; i < st+nb && i <= level; i++ {
				g *= float64(q[i])
			}
			sum += N * g * e.B
		}
	} else if w > 0 {
		for i := 0; i <= level; i++ {
			nd := (ref.BitLen(q[i]) + w - 1) / w
			sum += float64(nd) * N * math.Exp2(float64(w)) * e.B
		}
	} else {
		for i := 0; i <= level; i++ {
			sum += N * (float64(q[i])/2 + 1) * e.B
		}
	}
	if lp >= 0 {
		sum = sum/prodF(e.pc.P[:lp+1]) + 1.5*(1+e.H)
	}
	return sum
}

// gadgetRowNoise decrypts row (i,j) of a gadget ciphertext over Q_levelQ x P_levelP and returns
// max |phase - expected| where expected = P * 2^(w j) * msg on the primes of RNS digit i and 0 on
// every other prime of Q and P. msg: coefficient-domain rows mod q_u.
func (e *env) gadgetRowNoise(gc *rlwe.GadgetCiphertext, i, j int, msg [][]uint64) *big.Int {
	lq, lp := gc.LevelQ(), gc.LevelP()
	w := gc.BaseTwoDecomposition
	rqp := e.params.RingQP().AtLevel(lq, lp)
	el := gc.Value[i][j]
	ph := rqp.NewPoly()
	rqp.MulCoeffsMontgomery(el[1], e.sk.Value, ph)
	rqp.Add(ph, el[0], ph)
	rqp.INTT(ph, ph)
	rqp.IMForm(ph, ph)
	nP := max(lp+1, 1)
	lo, hi := i*nP, min((i+1)*nP, lq+1)
	var mods []uint64
	var rowsv [][]uint64
	for u := 0; u <= lq; u++ {
		q := e.pc.Q[u]
		mods = append(mods, q)
		row := ph.Q.Coeffs[u]
		if u >= lo && u < hi {
			f := ref.PowMod(2, uint64(w*j), q)
			for t := 0; t <= lp; t++ {
				f = ref.MulMod(f, e.pc.P[t]%q, q)
			}
			r2 := make([]uint64, e.n)
			for x := range r2 {
				r2[x] = ref.SubMod(row[x]%q, ref.MulMod(f, msg[u][x], q), q)
			}
			row = r2
		}
		rowsv = append(rowsv, row)
	}
	for t := 0; t <= lp; t++ {
		mods = append(mods, e.pc.P[t])
		rowsv = append(rowsv, ph.P.Coeffs[t])
	}
	crt := ref.NewCRT(mods)
	mx := new(big.Int)
	for x := 0; x < e.n; x++ {
		v := crt.Centered(crt.Column(rowsv, x))
		if v.CmpAbs(mx) > 0 {
			mx.Abs(v)
		}
	}
	return mx
}

// checkRGSW decrypts rows of both halves of ct (all rows when maxRows <= 0, else a sample) and
// requires |noise| <= bound. g: plaintext over Z.
func (e *env) checkRGSW(api string, ct *rgsw.Ciphertext, g []int64, bound float64, maxRows int, key string, ctx ...string) bool {
	lq := ct.LevelQ()
	rq := e.params.RingQ()
	msg := [2][][]uint64{rowsOf(rq, lq, g), rowsOf(rq, lq, negaI(g, e.s))}
	type rc struct{ h, i, j int }
	var all []rc
	for h := 0; h < 2; h++ {
		for i := range ct.Value[h].Value {
			for j := range ct.Value[h].Value[i] {
				all = append(all, rc{h, i, j})
			}
		}
	}
	if maxRows > 0 && len(all) > maxRows {
		rnd := e.c.Rand()
		pick := []rc{all[0], all[len(all)-1], all[len(all)/2-1], all[len(all)/2]}
		for len(pick) < maxRows {
			pick = append(pick, all[rnd.N(len(all))])
		}
		all = pick
	}
	ok := true
	worst := 0.0
	var where rc
	for _, r := range all {
		mx := f64(e.gadgetRowNoise(&ct.Value[r.h], r.i, r.j, msg[r.h]))
		if mx > worst {
			worst, where = mx, r
		}
	}
	e.c.Count("rgsw_rows_decrypted", int64(len(all)))
	if worst <= bound {
		e.c.Max("max_passing_rgsw_row_noise_over_bound_x1000", int64(1000*worst/bound))
	}
	e.c.Distinct(key, true)
	suffix := ""
	if k := strings.Index(api, "#"); k >= 0 {
		api, suffix = api[:k], "|"+api[k+1:]
	}
	ok = e.c.Check(worst <= bound, "C20|"+api+"|rgsw-row-noise-above-bound"+suffix, func() string {
		return fmt.Sprintf("%v %s levelQ=%d levelP=%d w=%d half=%d digit=(%d,%d): |phase-expected|inf=2^%.1f bound=%.0f", ctx, e.pc.short(), lq, ct.LevelP(), ct.Value[0].BaseTwoDecomposition, where.h, where.i, where.j, math.Log2(worst+1), bound)
	})
	return ok
}

// gPoly draws a small polynomial of the given kind.
func gPoly(rnd *eng.Rand, kind string, n int) []int64 {
	g := make([]int64, n)
	switch kind {
	case "zero", "nil":
	case "one":
		g[0] = 1
	case "negone":
		g[0] = -1
	case "mono":
		g[rnd.N(n)] = 1
	case "negmono":
		g[eng.Pick(rnd, n-1, rnd.N(n))] = -1
	case "tern3":
		for t := 0; t < 3; t++ {
			g[rnd.N(n)] += int64(2*rnd.N(2) - 1)
		}
	case "dense":
		for i := range g {
			g[i] = int64(rnd.N(5)) - 2
		}
	}
	return g
}

var gKinds = []string{"one", "mono", "negmono", "tern3", "dense", "negone", "zero", "nil", "mono"}

// gPlaintext encodes g as an rlwe.Plaintext with the requested representation flags.
func (e *env) gPlaintext(g []int64, level int, ntt, mont bool) *rlwe.Plaintext {
	pt := rlwe.NewPlaintext(e.params, level)
	rq := e.params.RingQ().AtLevel(level)
	rows := rowsOf(e.params.RingQ(), level, g)
	for u := range rows {
		copy(pt.Value.Coeffs[u], rows[u])
	}
	if ntt {
		rq.NTT(pt.Value, pt.Value)
	}
	if mont {
		rq.MForm(pt.Value, pt.Value)
	}
	pt.IsNTT, pt.IsMontgomery = ntt, mont
	return pt
}

func copyRGSW(ct *rgsw.Ciphertext) *rgsw.Ciphertext {
	return &rgsw.Ciphertext{Value: [2]rlwe.GadgetCiphertext{*ct.Value[0].CopyNew(), *ct.Value[1].CopyNew()}}
}

func equalRGSW(a, b *rgsw.Ciphertext) bool {
	return a.Value[0].Equal(&b.Value[0]) && a.Value[1].Equal(&b.Value[1])
}

func init() {
	eng.Register(&eng.Monitor{
		ID: "C20", Level: "exploration",
		Rule:  "three case families. ep: rlwe parameter sets (logN 4..10, 1..10 Q primes of mixed sizes incl. primes below 2^29 that trigger the 32-bit fast path and chains with >= 8 RNS digits, 0..3 P primes); inside a case every sampled (RGSW levelQ, levelP, BaseTwoDecomposition w) x small plaintext g (0, +-1, +-X^k, sparse, dense) x plaintext flag combination is encrypted, and the external product is run on hostile inputs (fresh encryption, all coefficients q-1, all digits 2^w-1, uniform, one-hot) in place, out of place into a garbage-filled output, and out of place after an unrelated product; distinct key = (path, chain sizes, levelQ, levelP, w, g kind, input pattern, mode); non-trivial = the worst-case noise bound is below Q_level/8 or the exact-sum model was evaluated (levelP <= 0 and the decomposition is not the vacuous single-prime w=0 one). alg: AddLazy(ct), AddLazy(pt), Reduce, MulByXPowAlphaMinusOneLazy, ...ThenAddLazy and a chained combination, every gadget row of both halves decrypted; distinct key = (op, chain, levels, w, alpha class); all non-trivial. br: (LWE, BR) parameter pairs with N_LWE <= N_BR, evaluation-key parameters (levelP, w), LWE secret weight, test functions (sign, identity, random table, square) on an interval [a,b], slot subsets, inputs on the discretisation grid incl. end points and sign changes, a crafted ciphertext that makes the algorithm request every Galois key; distinct key = (pair, key params, weight, function, slot, grid point); non-trivial = worst-case blind-rotation noise bound below Q_BR/16 (the exact rotation amount is then decided). Audit extensions (own random stream): epx = per parameter set, (levelQ, levelP, w) trials: NewCiphertext shape, encryption through a ShallowCopy encryptor and into a receiver that holds another encryption, EncryptZero on a used receiver, plaintexts with coefficients up to 2^30, NoiseRGSWCiphertext against the exact error vectors (right and wrong plaintext), ExternalProduct through ShallowCopy/WithKey evaluators bit-for-bit against the constructor-made one, Encrypt/EncryptZero delegated to *rlwe.Ciphertext; distinct key = (check, chain, levels, w, g kind, input pattern), non-trivial as in ep. algx = Reduce out of place into a used receiver, AddLazy with operand == receiver, MulByXPowAlphaMinusOneLazy into a used receiver, a chain of three lazy operations with a single out-of-place reduction, NewPlaintext from scalars up to 2^27 / the documented *ring.Poly / unsupported types; all non-trivial. tpx = InitTestPolynomial on rings below the top level, 7 scales, 8 intervals, tables with |f| up to 3; distinct key = (ring, level, f, interval, scale). brx = small (LWE, BR) pairs: GenEvaluationKeyNew with absent / partial EvaluationKeyParameters (incl. LevelP=-1 under P and LevelQ below the top), Evaluate with the MemBlindRotationEvaluationKeySet itself against an equivalent key source, three refusal paths and the result after them, the empty slot subset, BlindRotateCore called directly with five mask-vector classes on a noisy accumulator; distinct key = (pair, key shape, function, slot or mask class, rotation), non-trivial as in br.",
		Cases: cases,
		Assumptions: []string{
			"worst-case external-product bound: 2 halves x sum over gadget rows of N*|digit|_inf*floor(B_e+1/2), divided by P, plus 1.5*(1+|s|_1) for the ModDown rounding; |digit| < 2^w, <= q_i (uncentred single-prime digits) or <= digit-group modulus (RNS digits)",
			"blind-rotation bound: N_LWE external products + observed number of automorphisms (C04 key-switch bound each); monomial products and automorphisms preserve the infinity norm",
			"modulus switch model as documented in modSwitchRLWETo2NLvl/getDiscreteLogSets: round(x*2N/Q) mod 2N, even non-zero mask values are xored with 1, a mask value 0 is processed as 1; worst-case drift window 1/2 + 3/2*|s_LWE|_1",
			"one stock-parameter case (27-bit modulus, N=1024) has a worst-case bound above Q; it is judged functionally (|phase - X^k F|inf < Q/8, more than 30 standard deviations) and counted as trivial",
			"BlindRotateCore on an accumulator of phase phi returns sigma_h(phi)*X^<a,s>, h = (2N-5)^-1 mod 2N (linearity of the documented Evaluate: acc = T(X^-g) -> T*X^<a,s>); mask values must be odd or 0 (the code panics otherwise, as its message documents)",
			"rgsw.NoiseRGSWCiphertext = max(0, max_j log2 of the sample standard deviation (N-1) of sum_i error(i,j)) over the power-of-two digits j that every RNS digit has, as rlwe.NoiseGadgetCiphertext computes it",
			"blind-rotation keys below the top level (EvaluationKeyParameters.LevelQ): only the rows of Q_LevelQ of the result are judged; the level the result claims is counted (brx_results_claiming_a_level_above_the_key_level), not judged (undocumented)",
			"NTT / Montgomery kernels used by the oracle (phase computation, exact gadget sum) are the ones judged by C01; CRT and comparisons are math/big",
		},
	})
}
