package c08

import (
	"encoding"
	"github.com/tuneinsight/lattigo/v6/circuits/ckks/bootstrapping"
	"io"
	"math/big"
	"reflect"

	"github.com/tuneinsight/lattigo/v6/circuits/common/polynomial"
	"github.com/tuneinsight/lattigo/v6/core/rgsw"
	"github.com/tuneinsight/lattigo/v6/core/rlwe"
	"github.com/tuneinsight/lattigo/v6/multiparty"
	"github.com/tuneinsight/lattigo/v6/ring"
	"github.com/tuneinsight/lattigo/v6/ring/ringqp"
	"github.com/tuneinsight/lattigo/v6/utils/bignum"
	"github.com/tuneinsight/lattigo/v6/utils/structs"

	"verif/harness/eng"
)

// ser is what every zoo object offers (pointer receivers).
type ser interface {
	BinarySize() int
	io.WriterTo
	io.ReaderFrom
	encoding.BinaryMarshaler
	encoding.BinaryUnmarshaler
}

// entry describes one serializable type and how to build several distinct values of it.
type entry struct {
	Name     string
	Variants int
	Make     func(z *zoo, r *eng.Rand, variant int) ser
	// Class names a value class with a known, triaged defect (empty otherwise); failures of such
	// variants get the signature C08|<type>|<class>|<kind> instead of the per-transport one.
	Class func(variant int) string
	// Leak names, for a pair (variant being read, variant previously held by the receiver), a triaged
	// receiver-state defect that this very pair exposes (empty otherwise): a value difference observed on such
	// a pair gets the signature C08|<type>.ReadFrom|<leak>|value-differs, independent of the transport.
	Leak func(variant, history int) string
}

type zoo struct {
	params rlwe.Parameters // 3 Q primes, 2 P primes, N=16
	noP    rlwe.Parameters // 2 Q primes, no P
	cinv   rlwe.Parameters // N=32, conjugate-invariant ring, 60-bit primes (the largest that ring accepts) next to a small one
}

func newZoo() *zoo {
	p, err := rlwe.NewParametersFromLiteral(rlwe.ParametersLiteral{LogN: 4, LogQ: []int{30, 31, 32}, LogP: []int{33, 34}, NTTFlag: true})
	if err != nil {
		panic(err)
	}
	q, err := rlwe.NewParametersFromLiteral(rlwe.ParametersLiteral{LogN: 4, LogQ: []int{35, 36}, NTTFlag: true})
	if err != nil {
		panic(err)
	}
	ci, err := rlwe.NewParametersFromLiteral(rlwe.ParametersLiteral{LogN: 5, LogQ: []int{60, 25}, LogP: []int{60}, RingType: ring.ConjugateInvariant, NTTFlag: true})
	if err != nil {
		panic(err)
	}
	return &zoo{params: p, noP: q, cinv: ci}
}

// fresh returns a zero receiver of the same dynamic type as v.
func fresh(v ser) ser {
	return reflect.New(reflect.TypeOf(v).Elem()).Interface().(ser)
}

// randomize fills every []uint64 reachable from v with random words (serialisation does not
// interpret coefficients, so any content is a valid value).
func randomize(r *eng.Rand, v reflect.Value, depth int) {
	if depth > 12 {
		return
	}
	switch v.Kind() {
	case reflect.Ptr, reflect.Interface:
		if !v.IsNil() {
			randomize(r, v.Elem(), depth+1)
		}
	case reflect.Struct:
		for i := 0; i < v.NumField(); i++ {
			if v.Type().Field(i).IsExported() {
				randomize(r, v.Field(i), depth+1)
			}
		}
	case reflect.Slice:
		if v.Type().Elem().Kind() == reflect.Uint64 {
			for i := 0; i < v.Len(); i++ {
				v.Index(i).SetUint(r.U64() >> 4)
			}
			return
		}
		for i := 0; i < v.Len(); i++ {
			randomize(r, v.Index(i), depth+1)
		}
	case reflect.Array:
		if v.Type().Elem().Kind() == reflect.Uint8 {
			return
		}
		for i := 0; i < v.Len(); i++ {
			randomize(r, v.Index(i), depth+1)
		}
	case reflect.Map:
		it := v.MapRange()
		for it.Next() {
			randomize(r, it.Value(), depth+1)
		}
	}
}

func rz[T ser](r *eng.Rand, v T) T {
	randomize(r, reflect.ValueOf(v), 0)
	return v
}

func ip(i int) *int { return &i }

func (z *zoo) evp(variant int) (rlwe.Parameters, rlwe.EvaluationKeyParameters) {
	switch variant % 5 {
	case 0:
		return z.params, rlwe.EvaluationKeyParameters{}
	case 1:
		return z.params, rlwe.EvaluationKeyParameters{LevelQ: ip(1), LevelP: ip(0), BaseTwoDecomposition: ip(12)}
	case 2:
		return z.params, rlwe.EvaluationKeyParameters{LevelQ: ip(0), LevelP: ip(1), Compressed: true}
	case 3:
		return z.noP, rlwe.EvaluationKeyParameters{LevelP: ip(-1), BaseTwoDecomposition: ip(9)}
	default:
		return z.params, rlwe.EvaluationKeyParameters{LevelQ: ip(2), LevelP: ip(1), Compressed: true}
	}
}

func seedOf(r *eng.Rand) *[32]byte {
	var s [32]byte
	r.Read(s[:])
	return &s
}

func metaVariant(m *rlwe.MetaData, r *eng.Rand, variant int) {
	m.IsNTT = variant&1 == 1
	m.IsMontgomery = variant&2 == 2
	m.IsBatched = variant&4 == 4
	switch variant % 3 {
	case 0:
		m.Scale = rlwe.NewScale(1 << 40)
	case 1:
		m.Scale = rlwe.NewScaleModT(uint64(3+r.N(1000)), 65537)
	default:
		m.Scale = rlwe.NewScale(1.5)
	}
	if variant%4 == 3 {
		// a scale using the full 128-bit mantissa (what a CKKS ciphertext carries after a
		// multiplication and a rescaling: scale^2 / q)
		f := new(big.Float).SetPrec(128).SetInt(new(big.Int).Lsh(big.NewInt(1), 90))
		f.Quo(f, new(big.Float).SetPrec(128).SetUint64(1152921504606846883+uint64(r.N(1000))*2))
		f.Mul(f, new(big.Float).SetPrec(128).SetInt(new(big.Int).Lsh(big.NewInt(1), 45)))
		m.Scale = rlwe.NewScale(f)
	}
	if variant >= 6 {
		// scales whose decimal exponent has three digits (a CKKS scale after many multiplications
		// without rescaling, or a tiny one)
		f := new(big.Float).SetPrec(128).SetMantExp(big.NewFloat(1.25), 400)
		if variant%2 == 1 {
			f.SetMantExp(big.NewFloat(1.25), -400)
		}
		m.Scale = rlwe.NewScale(f)
	}
	m.LogDimensions = ring.Dimensions{Rows: variant % 2, Cols: variant % 5}
}

// metaVariant2 covers the corners metaVariant leaves out: the IsBitReversed flag, the largest
// LogDimensions, the empty (zero-value) MetaData that the *AtLevelFromPoly constructors hand out, tiny and
// huge (two-digit exponent) scales, a scale of exactly 1 and a 61-bit plaintext modulus.
func metaVariant2(m *rlwe.MetaData, r *eng.Rand, j int) {
	switch j % 4 {
	case 0:
		*m = rlwe.MetaData{} // zero value: Scale holds a big.Float of precision 0, no modulus
	case 1:
		m.IsBitReversed, m.IsBatched, m.IsNTT = true, true, true
		m.Scale = rlwe.NewScale(new(big.Float).SetPrec(128).SetMantExp(big.NewFloat(1.0+float64(r.N(1000))/1024), -40))
		m.LogDimensions = ring.Dimensions{Rows: 1, Cols: 15}
	case 2:
		m.IsBitReversed, m.IsMontgomery = true, true
		m.Scale = rlwe.NewScaleModT(1, 0x1fffffffffe00001)
		m.LogDimensions = ring.Dimensions{Rows: 0, Cols: 127}
	default:
		m.IsBatched = true
		m.Scale = rlwe.NewScale(new(big.Float).SetPrec(128).SetMantExp(big.NewFloat(1.0+float64(r.N(1000))/1024), 300))
		m.LogDimensions = ring.Dimensions{Rows: 1, Cols: 16}
	}
}

const leakMetaData = "receiver-metadata-survives-encoding-without-metadata"

// sharedPolys returns polynomials at `level` that are windows into larger allocations (capacity above
// length in the RNS dimension), as the *AtLevelFromPoly constructors produce them.
func sharedPolys(r *eng.Rand, n, level, count int) []ring.Poly {
	out := make([]ring.Poly, count)
	for i := range out {
		p := ring.NewPoly(n, level+1+i%2)
		rz(r, &p)
		out[i] = p
	}
	return out
}

var entries = []entry{
	{Name: "ring.Poly", Variants: 4, Make: func(z *zoo, r *eng.Rand, v int) ser {
		p := ring.NewPoly(16<<(v%2), v%3)
		return rz(r, &p)
	}},
	{Name: "ringqp.Poly", Variants: 4, Make: func(z *zoo, r *eng.Rand, v int) ser {
		var p ringqp.Poly
		if v%2 == 0 {
			p = z.params.RingQP().AtLevel(v%3, (v/2)%2).NewPoly()
		} else {
			p = ringqp.Poly{Q: ring.NewPoly(16, v%3)} // no P part
		}
		return rz(r, &p)
	}},
	{Name: "rlwe.Plaintext", Variants: 8, Make: func(z *zoo, r *eng.Rand, v int) ser {
		switch v {
		case 4: // no MetaData at all (Element built by NewElementAtLevelFromPoly)
			el, err := rlwe.NewElementAtLevelFromPoly(1, sharedPolys(r, 16, 1, 1))
			if err != nil {
				panic(err)
			}
			return &rlwe.Plaintext{Element: *el, Value: el.Value[0]}
		case 5: // empty MetaData, polynomial shared with a larger allocation
			pt, err := rlwe.NewPlaintextAtLevelFromPoly(0, sharedPolys(r, 16, 0, 1)[0])
			if err != nil {
				panic(err)
			}
			return pt
		case 6: // the plaintext view of a ciphertext (shares MetaData and the first polynomial)
			ct := rlwe.NewCiphertext(z.params, 1, 2)
			metaVariant2(ct.MetaData, r, 1)
			return rz(r, ct).Plaintext()
		case 7: // deep copy of a resized plaintext
			pt := rlwe.NewPlaintext(z.params, 2)
			metaVariant2(pt.MetaData, r, 2)
			rz(r, pt)
			pt.Resize(0, 1)
			pt.Value = pt.Element.Value[0]
			return pt.CopyNew()
		}
		pt := rlwe.NewPlaintext(z.params, v%3)
		metaVariant(pt.MetaData, r, v)
		return rz(r, pt)
	}, Leak: func(v, h int) string {
		if v == 4 && h >= 0 && h != 4 {
			return leakMetaData
		}
		return ""
	}},
	{Name: "rlwe.Ciphertext", Variants: 11, Make: func(z *zoo, r *eng.Rand, v int) ser {
		switch v {
		case 6: // no MetaData at all
			el, err := rlwe.NewElementAtLevelFromPoly(1, sharedPolys(r, 16, 1, 2))
			if err != nil {
				panic(err)
			}
			return &rlwe.Ciphertext{Element: *el}
		case 7: // empty MetaData, polynomials shared with larger allocations
			ct, err := rlwe.NewCiphertextAtLevelFromPoly(0, sharedPolys(r, 16, 0, 3))
			if err != nil {
				panic(err)
			}
			return ct
		case 8: // resized downwards in degree and level: capacity above length in both dimensions
			ct := rlwe.NewCiphertext(z.params, 2, 2)
			metaVariant2(ct.MetaData, r, 1)
			rz(r, ct)
			ct.Resize(1, 1)
			return ct
		case 9: // resized upwards, then deep-copied
			ct := rlwe.NewCiphertext(z.params, 0, 0)
			metaVariant2(ct.MetaData, r, 2)
			ct.Resize(2, 2)
			return rz(r, ct).CopyNew()
		case 10: // ring degree other than the one of every other variant
			ct := rlwe.NewCiphertext(z.cinv, 1, 1)
			metaVariant2(ct.MetaData, r, 3)
			return rz(r, ct)
		}
		ct := rlwe.NewCiphertext(z.params, v%3, (v+1)%3)
		metaVariant(ct.MetaData, r, v)
		return rz(r, ct)
	}, Leak: func(v, h int) string {
		if v == 6 && h >= 0 && h != 6 {
			return leakMetaData
		}
		return ""
	}},
	{Name: "rlwe.Element[ring.Poly]", Variants: 5, Make: func(z *zoo, r *eng.Rand, v int) ser {
		switch v {
		case 0:
			el, err := rlwe.NewElementAtLevelFromPoly(2, sharedPolys(r, 16, 2, 2))
			if err != nil {
				panic(err)
			}
			return el
		case 1:
			el := rlwe.NewElement(z.params, 1, 1)
			metaVariant(el.MetaData, r, 3)
			return rz(r, el)
		case 2:
			el := rlwe.NewElement(z.params, 0)
			metaVariant2(el.MetaData, r, 1)
			return rz(r, el)
		case 3:
			el := rlwe.NewElement(z.noP, 2, 0)
			metaVariant2(el.MetaData, r, 0)
			return rz(r, el)
		}
		el := rlwe.NewElement(z.params, 2, 2)
		metaVariant2(el.MetaData, r, 3)
		rz(r, el)
		el.Resize(0, 0)
		return el
	}, Leak: func(v, h int) string {
		if v == 0 && h > 0 {
			return leakMetaData
		}
		return ""
	}},
	{Name: "rlwe.Element[ringqp.Poly]", Variants: 4, Make: func(z *zoo, r *eng.Rand, v int) ser {
		switch v {
		case 0:
			el := rlwe.NewElementExtended(z.params, 1, 1, 0)
			el.MetaData = nil
			return rz(r, el)
		case 1:
			el := rlwe.NewElementExtended(z.params, 1, 2, 1)
			metaVariant(el.MetaData, r, 5)
			return rz(r, el)
		case 2:
			el := rlwe.NewElementExtended(z.params, 0, 0, -1)
			metaVariant2(el.MetaData, r, 2)
			return rz(r, el)
		}
		el := rlwe.NewElementExtended(z.noP, 2, 1, -1)
		metaVariant2(el.MetaData, r, 1)
		return rz(r, el)
	}, Leak: func(v, h int) string {
		if v == 0 && h > 0 {
			return leakMetaData
		}
		return ""
	}},
	{Name: "rlwe.SecretKey", Variants: 4, Make: func(z *zoo, r *eng.Rand, v int) ser {
		switch v {
		case 0:
			return rz(r, rlwe.NewSecretKey(z.params))
		case 2:
			return rz(r, rlwe.NewSecretKey(z.cinv))
		case 3:
			return rz(r, rlwe.NewSecretKey(z.params)).CopyNew()
		}
		return rz(r, rlwe.NewSecretKey(z.noP))
	}},
	{Name: "rlwe.PublicKey", Variants: 4, Make: func(z *zoo, r *eng.Rand, v int) ser {
		switch v {
		case 0:
			return rz(r, rlwe.NewPublicKey(z.params))
		case 2:
			return rz(r, rlwe.NewPublicKey(z.cinv))
		case 3:
			return rz(r, rlwe.NewPublicKey(z.noP)).CopyNew()
		}
		return rz(r, rlwe.NewPublicKey(z.noP))
	}},
	{Name: "rlwe.GadgetCiphertext", Variants: 6, Make: func(z *zoo, r *eng.Rand, v int) ser {
		switch v {
		case 4: // 60-bit primes, N=32, many power-of-two digits
			return rz(r, rlwe.NewGadgetCiphertext(z.cinv, 1, 1, 0, 5))
		case 5: // deep copy
			return rz(r, rlwe.NewGadgetCiphertext(z.params, 0, 2, 0, 16)).CopyNew()
		case 0:
			return rz(r, rlwe.NewGadgetCiphertext(z.params, 1, 2, 1, 0))
		case 1:
			return rz(r, rlwe.NewGadgetCiphertext(z.params, 0, 1, 0, 7))
		case 2:
			return rz(r, rlwe.NewGadgetCiphertext(z.noP, 1, 1, -1, 13))
		}
		return rz(r, rlwe.NewGadgetCiphertext(z.params, 1, 0, 0, 0))
	}},
	{Name: "rlwe.EvaluationKey", Variants: 5, Make: func(z *zoo, r *eng.Rand, v int) ser {
		p, e := z.evp(v)
		k := rz(r, rlwe.NewEvaluationKey(p, e))
		if e.Compressed {
			k.Seed = seedOf(r)
		}
		return k
	}},
	{Name: "rlwe.RelinearizationKey", Variants: 5, Make: func(z *zoo, r *eng.Rand, v int) ser {
		p, e := z.evp(v)
		k := rz(r, rlwe.NewRelinearizationKey(p, e))
		if e.Compressed {
			k.Seed = seedOf(r)
		}
		return k
	}},
	{Name: "rlwe.GaloisKey", Variants: 5, Make: func(z *zoo, r *eng.Rand, v int) ser {
		p, e := z.evp(v)
		k := rz(r, rlwe.NewGaloisKey(p, e))
		k.GaloisElement = uint64(2*r.N(16) + 1)
		k.NthRoot = 32
		if e.Compressed {
			k.Seed = seedOf(r)
		}
		return k
	}},
	{Name: "rlwe.MemEvaluationKeySet", Variants: 8, Make: func(z *zoo, r *eng.Rand, v int) ser {
		mk := func(g uint64, vv int) *rlwe.GaloisKey {
			p, e := z.evp(vv)
			k := rz(r, rlwe.NewGaloisKey(p, e))
			k.GaloisElement = g
			k.NthRoot = 32
			if e.Compressed {
				k.Seed = seedOf(r)
			}
			return k
		}
		rlk := func(vv int) *rlwe.RelinearizationKey {
			p, e := z.evp(vv)
			k := rz(r, rlwe.NewRelinearizationKey(p, e))
			if e.Compressed {
				k.Seed = seedOf(r)
			}
			return k
		}
		switch v {
		case 0:
			return rlwe.NewMemEvaluationKeySet(rlk(0), mk(5, 0), mk(25, 1))
		case 1:
			return rlwe.NewMemEvaluationKeySet(nil, mk(3, 0))
		case 2:
			return rlwe.NewMemEvaluationKeySet(rlk(1))
		case 3:
			return rlwe.NewMemEvaluationKeySet(nil)
		case 5: // nil map of Galois keys (a literal, not the constructor)
			return &rlwe.MemEvaluationKeySet{RelinearizationKey: rlk(0)}
		case 6: // zero value
			return &rlwe.MemEvaluationKeySet{}
		case 7: // deep copies of keys
			return rlwe.NewMemEvaluationKeySet(rlk(4).CopyNew(), mk(11, 3).CopyNew(), mk(13, 4))
		}
		return rlwe.NewMemEvaluationKeySet(rlk(2), mk(7, 2), mk(9, 0), mk(31, 1))
	}},
	{Name: "bootstrapping.EvaluationKeys", Variants: 8, Make: func(z *zoo, r *eng.Rand, v int) ser {
		// the key bundle of the bootstrapping circuit: six optional switching keys (each with its own content and
		// shape, so that a mixed-up field shows) and the rlk/Galois key set
		evk := func(vv int) *rlwe.EvaluationKey {
			p, e := z.evp(vv)
			k := rz(r, rlwe.NewEvaluationKey(p, e))
			if e.Compressed {
				k.Seed = seedOf(r)
			}
			return k
		}
		gk := func(g uint64, vv int) *rlwe.GaloisKey {
			p, e := z.evp(vv)
			k := rz(r, rlwe.NewGaloisKey(p, e))
			k.GaloisElement, k.NthRoot = g, 32
			if e.Compressed {
				k.Seed = seedOf(r)
			}
			return k
		}
		rlk := func(vv int) *rlwe.RelinearizationKey {
			p, e := z.evp(vv)
			k := rz(r, rlwe.NewRelinearizationKey(p, e))
			if e.Compressed {
				k.Seed = seedOf(r)
			}
			return k
		}
		b := &bootstrapping.EvaluationKeys{MemEvaluationKeySet: rlwe.NewMemEvaluationKeySet(rlk(0), gk(5, 0), gk(25, 1))}
		switch v {
		case 1: // residual ring smaller than the bootstrapping ring
			b.EvkN1ToN2, b.EvkN2ToN1 = evk(0), evk(1)
		case 2: // conjugate-invariant residual ring
			b.EvkRealToCmplx, b.EvkCmplxToReal = evk(0), evk(1)
		case 3: // sparse-secret encapsulation
			b.EvkDenseToSparse, b.EvkSparseToDense = evk(1), evk(0)
		case 4:
			b.EvkN1ToN2, b.EvkN2ToN1, b.EvkRealToCmplx, b.EvkCmplxToReal, b.EvkDenseToSparse, b.EvkSparseToDense = evk(0), evk(1), evk(2), evk(0), evk(4), evk(1)
		case 5:
			b.EvkCmplxToReal, b.EvkSparseToDense = evk(2), evk(0)
			b.MemEvaluationKeySet = rlwe.NewMemEvaluationKeySet(nil, gk(3, 2))
		case 6: // switching keys only: no relinearisation / Galois key set
			b.MemEvaluationKeySet = nil
			b.EvkDenseToSparse, b.EvkSparseToDense = evk(0), evk(3)
		case 7: // zero value
			b.MemEvaluationKeySet = nil
		}
		return b
	}, Leak: func(v, h int) string {
		if v >= 6 && h >= 0 && h < 6 {
			return "receiver-key-set-survives-encoding-without-key-set"
		}
		return ""
	}},
	{Name: "rgsw.Ciphertext", Variants: 3, Make: func(z *zoo, r *eng.Rand, v int) ser {
		switch v {
		case 0:
			return rz(r, rgsw.NewCiphertext(z.params, 2, 1, 0))
		case 1:
			return rz(r, rgsw.NewCiphertext(z.params, 1, 0, 8))
		}
		return rz(r, rgsw.NewCiphertext(z.noP, 1, -1, 11))
	}},
	{Name: "rlwe.MetaData", Variants: 12, Make: func(z *zoo, r *eng.Rand, v int) ser {
		m := &rlwe.MetaData{}
		if v >= 8 {
			metaVariant2(m, r, v-8)
			return m
		}
		metaVariant(m, r, v)
		return m
	}, Class: func(v int) string {
		if v == 6 || v == 7 {
			return "scale-with-3-digit-decimal-exponent"
		}
		return ""
	}},
	{Name: "rlwe.PlaintextMetaData", Variants: 10, Make: func(z *zoo, r *eng.Rand, v int) ser {
		m := &rlwe.MetaData{}
		if v >= 6 {
			metaVariant2(m, r, v-6)
			return &m.PlaintextMetaData
		}
		metaVariant(m, r, v)
		return &m.PlaintextMetaData
	}},
	{Name: "rlwe.CiphertextMetaData", Variants: 4, Make: func(z *zoo, r *eng.Rand, v int) ser {
		return &rlwe.CiphertextMetaData{IsNTT: v&1 == 1, IsMontgomery: v&2 == 2}
	}},
	{Name: "rlwe.VectorQP", Variants: 4, Make: func(z *zoo, r *eng.Rand, v int) ser {
		var vq rlwe.VectorQP
		rqp := z.params.RingQP()
		switch v {
		case 0:
			vq = rlwe.VectorQP{rqp.NewPoly(), rqp.NewPoly()}
		case 1:
			vq = rlwe.VectorQP{rqp.AtLevel(1, 0).NewPoly(), rqp.AtLevel(1, 0).NewPoly(), rqp.AtLevel(1, 0).NewPoly()}
		case 2:
			vq = rlwe.VectorQP{z.noP.RingQP().NewPoly()}
		default:
			vq = rlwe.VectorQP{rqp.AtLevel(0, -1).NewPoly(), rqp.AtLevel(0, -1).NewPoly()}
		}
		return rz(r, &vq)
	}},
	{Name: "rlwe.Parameters", Variants: 9, Make: func(z *zoo, r *eng.Rand, v int) ser {
		switch v {
		case 6, 7: // derived objects: the standard counterpart of a conjugate-invariant set (without / with P)
			src := z.cinv
			if v == 7 {
				var err error
				if src, err = rlwe.NewParametersFromLiteral(rlwe.ParametersLiteral{LogN: 5, LogQ: []int{40}, LogP: []int{41}, RingType: ring.ConjugateInvariant, Xs: ring.Ternary{H: 8}, NTTFlag: true}); err != nil {
					panic(err)
				}
			}
			p, err := src.StandardParameters()
			if err != nil {
				panic(err)
			}
			return &p
		case 8: // rebuilt from the literal of an object that was itself decoded
			var q rlwe.Parameters
			b, err := z.params.MarshalBinary()
			if err == nil {
				err = q.UnmarshalBinary(b)
			}
			if err != nil {
				panic(err)
			}
			p, err := rlwe.NewParametersFromLiteral(q.ParametersLiteral())
			if err != nil {
				panic(err)
			}
			return &p
		case 3: // 60-bit primes, conjugate-invariant ring
			p := z.cinv
			return &p
		case 4: // smallest ring, one small prime, non-default root order, no NTT flag, huge default scale
			p, err := rlwe.NewParametersFromLiteral(rlwe.ParametersLiteral{LogN: 4, LogNthRoot: 7, LogQ: []int{20}, Xs: ring.Ternary{P: 0.5}, Xe: ring.DiscreteGaussian{Sigma: 0.5, Bound: 1}, DefaultScale: rlwe.NewScale(new(big.Float).SetPrec(128).SetMantExp(big.NewFloat(1.5), 90))})
			if err != nil {
				panic(err)
			}
			return &p
		case 5: // many RNS digits, explicit primes, modular default scale
			p, err := rlwe.NewParametersFromLiteral(rlwe.ParametersLiteral{LogN: 6, LogQ: []int{60, 20, 30, 40, 50, 45, 33}, LogP: []int{60, 55}, NTTFlag: true, DefaultScale: rlwe.NewScaleModT(3, 65537)})
			if err != nil {
				panic(err)
			}
			return &p
		case 0:
			p := z.params
			return &p
		case 1:
			p := z.noP
			return &p
		}
		p, err := rlwe.NewParametersFromLiteral(rlwe.ParametersLiteral{LogN: 5, LogQ: []int{40}, LogP: []int{41}, RingType: ring.ConjugateInvariant, Xs: ring.Ternary{H: 8}, Xe: ring.DiscreteGaussian{Sigma: 4, Bound: 24}, DefaultScale: rlwe.NewScale(1 << 20)})
		if err != nil {
			panic(err)
		}
		return &p
	}},
	{Name: "polynomial.PowerBasis", Variants: 3, Make: func(z *zoo, r *eng.Rand, v int) ser {
		ct := rz(r, rlwe.NewCiphertext(z.params, 1, 2))
		pb := polynomial.NewPowerBasis(ct, eng.Pick(r, bignum.Monomial, bignum.Chebyshev))
		for k := 2; k < 2+2*v; k++ {
			c := rlwe.NewCiphertext(z.params, 1+k%2, k%3)
			metaVariant(c.MetaData, r, k)
			pb.Value[k*k] = rz(r, c)
		}
		return &pb
	}},
	{Name: "multiparty.PublicKeyGenShare", Variants: 2, Make: func(z *zoo, r *eng.Rand, v int) ser {
		p := z.params
		if v == 1 {
			p = z.noP
		}
		s := multiparty.NewPublicKeyGenProtocol(p).AllocateShare()
		return rz(r, &s)
	}},
	{Name: "multiparty.EvaluationKeyGenShare", Variants: 4, Make: func(z *zoo, r *eng.Rand, v int) ser {
		p, e := z.evp(v)
		e.Compressed = false
		s := multiparty.NewEvaluationKeyGenProtocol(p).AllocateShare(e)
		return rz(r, &s)
	}},
	{Name: "multiparty.GaloisKeyGenShare", Variants: 4, Make: func(z *zoo, r *eng.Rand, v int) ser {
		p, e := z.evp(v)
		e.Compressed = false
		s := multiparty.NewGaloisKeyGenProtocol(p).AllocateShare(e)
		s.GaloisElement = uint64(2*r.N(16) + 1)
		return rz(r, &s)
	}},
	{Name: "multiparty.RelinearizationKeyGenShare", Variants: 4, Make: func(z *zoo, r *eng.Rand, v int) ser {
		p, e := z.evp(v)
		e.Compressed = false
		_, s1, _ := multiparty.NewRelinearizationKeyGenProtocol(p).AllocateShare(e)
		return rz(r, &s1)
	}},
	{Name: "multiparty.KeySwitchShare", Variants: 3, Make: func(z *zoo, r *eng.Rand, v int) ser {
		proto, err := multiparty.NewKeySwitchProtocol(z.params, ring.DiscreteGaussian{Sigma: 3.2, Bound: 19})
		if err != nil {
			panic(err)
		}
		s := proto.AllocateShare(v % 3)
		return rz(r, &s)
	}},
	{Name: "multiparty.PublicKeySwitchShare", Variants: 5, Leak: func(v, h int) string {
		if v == 3 && h >= 0 && h != 3 {
			return leakMetaData
		}
		return ""
	}, Make: func(z *zoo, r *eng.Rand, v int) ser {
		if v == 3 { // a share whose element carries no MetaData
			el, err := rlwe.NewElementAtLevelFromPoly(1, sharedPolys(r, 16, 1, 2))
			if err != nil {
				panic(err)
			}
			return &multiparty.PublicKeySwitchShare{Element: *el}
		}
		if v == 4 {
			proto, err := multiparty.NewPublicKeySwitchProtocol(z.cinv, ring.DiscreteGaussian{Sigma: 3.2, Bound: 19})
			if err != nil {
				panic(err)
			}
			s := proto.AllocateShare(1)
			metaVariant2(s.MetaData, r, 1)
			return rz(r, &s)
		}
		proto, err := multiparty.NewPublicKeySwitchProtocol(z.params, ring.DiscreteGaussian{Sigma: 3.2, Bound: 19})
		if err != nil {
			panic(err)
		}
		s := proto.AllocateShare(v % 3)
		return rz(r, &s)
	}},
	{Name: "multiparty.RefreshShare", Variants: 6, Make: func(z *zoo, r *eng.Rand, v int) ser {
		if v >= 3 {
			proto, err := multiparty.NewKeySwitchProtocol(z.cinv, ring.DiscreteGaussian{Sigma: 3.2, Bound: 19})
			if err != nil {
				panic(err)
			}
			s := multiparty.RefreshShare{EncToShareShare: proto.AllocateShare(v % 2), ShareToEncShare: proto.AllocateShare((v + 1) % 2)}
			metaVariant2(&s.MetaData, r, v)
			return rz(r, &s)
		}
		proto, err := multiparty.NewKeySwitchProtocol(z.params, ring.DiscreteGaussian{Sigma: 3.2, Bound: 19})
		if err != nil {
			panic(err)
		}
		s := multiparty.RefreshShare{EncToShareShare: proto.AllocateShare(v % 3), ShareToEncShare: proto.AllocateShare((v + 1) % 3)}
		metaVariant(&s.MetaData, r, v)
		return rz(r, &s)
	}},
	{Name: "multiparty.ShamirSecretShare", Variants: 2, Make: func(z *zoo, r *eng.Rand, v int) ser {
		p := z.params
		if v == 1 {
			p = z.noP
		}
		s := multiparty.NewThresholdizer(p).AllocateThresholdSecretShare()
		return rz(r, &s)
	}},
	{Name: "structs.Vector[uint64]", Variants: 4, Make: func(z *zoo, r *eng.Rand, v int) ser {
		vec := make(structs.Vector[uint64], []int{0, 1, 13, 64}[v])
		for i := range vec {
			vec[i] = r.U64()
		}
		return &vec
	}},
	{Name: "structs.Vector[uint16]", Variants: 3, Make: func(z *zoo, r *eng.Rand, v int) ser {
		vec := make(structs.Vector[uint16], []int{0, 5, 33}[v])
		for i := range vec {
			vec[i] = uint16(r.U64())
		}
		return &vec
	}},
	{Name: "structs.Vector[uint32]", Variants: 3, Make: func(z *zoo, r *eng.Rand, v int) ser {
		vec := make(structs.Vector[uint32], []int{0, 7, 27}[v])
		for i := range vec {
			vec[i] = uint32(r.U64())
		}
		return &vec
	}},
	{Name: "structs.Vector[uint8]", Variants: 3, Make: func(z *zoo, r *eng.Rand, v int) ser {
		vec := make(structs.Vector[uint8], []int{0, 3, 70}[v])
		for i := range vec {
			vec[i] = uint8(r.U64())
		}
		return &vec
	}},
	{Name: "structs.Vector[ring.Poly]", Variants: 3, Make: func(z *zoo, r *eng.Rand, v int) ser {
		vec := make(structs.Vector[ring.Poly], v)
		for i := range vec {
			vec[i] = ring.NewPoly(16, i%3)
		}
		return rz(r, &vec)
	}},
	{Name: "structs.Matrix[uint64]", Variants: 4, Make: func(z *zoo, r *eng.Rand, v int) ser {
		m := make(structs.Matrix[uint64], []int{0, 1, 3, 5}[v])
		for i := range m {
			m[i] = make([]uint64, (i*7+v)%11)
			for j := range m[i] {
				m[i][j] = r.U64()
			}
		}
		return &m
	}},
	{Name: "structs.Map[uint64,ring.Poly]", Variants: 4, Make: func(z *zoo, r *eng.Rand, v int) ser {
		m := structs.Map[uint64, ring.Poly]{}
		for i := 0; i < v*2; i++ {
			p := ring.NewPoly(16, i%2)
			m[uint64(r.N(1000))] = rz(r, &p)
		}
		return &m
	}},
}
