package c08

// The round-trip clause is stated with the library's own Equal methods ("reproduces an object equal to
// the original"): an Equal that panics, or looks at a prefix only, when the two objects have different
// shapes would make that clause vacuous for truncated objects. Vector / Matrix / Poly / Plaintext.Equal
// on objects whose common prefix is identical and whose shapes differ must return false, both ways.

import (
	"fmt"

	"github.com/tuneinsight/lattigo/v6/core/rlwe"
	"github.com/tuneinsight/lattigo/v6/ring"
	"github.com/tuneinsight/lattigo/v6/utils/structs"

	"verif/harness/eng"
)

func runEqualShape(c *eng.Ctx) {
	rnd := c.Rand()
	chk := func(name string, f func() bool) {
		c.Eval(1)
		c.Count("equal_on_different_shapes", 1)
		var eq bool
		if !c.Try("C08|"+name+".Equal|different-shapes", func() { eq = f() }) {
			return
		}
		c.Check(!eq, "C08|"+name+".Equal|different-shapes|reported-equal", func() string { return name + ": objects of different shapes with a common prefix compare equal" })
	}
	row := func(n int) []uint64 {
		r := make([]uint64, n)
		for i := range r {
			r[i] = rnd.U64()
		}
		return r
	}
	for rep := 0; rep < 8; rep++ {
		n := 8 << rnd.N(3)
		k := 1 + rnd.N(4)
		var rows [][]uint64
		for i := 0; i <= k; i++ {
			rows = append(rows, row(n))
		}
		short, long := structs.Matrix[uint64](rows[:k]), structs.Matrix[uint64](rows)
		chk("structs.Matrix[uint64]", func() bool { return short.Equal(long) })
		chk("structs.Matrix[uint64]", func() bool { return long.Equal(short) })
		ps, pl := ring.Poly{Coeffs: short}, ring.Poly{Coeffs: long}
		chk("ring.Poly", func() bool { return ps.Equal(&pl) })
		chk("ring.Poly", func() bool { return pl.Equal(&ps) })
		vs := structs.Vector[ring.Poly]{pl}
		vl := structs.Vector[ring.Poly]{pl, ps}
		chk("structs.Vector[ring.Poly]", func() bool { return vs.Equal(vl) })
		chk("structs.Vector[ring.Poly]", func() bool { return vl.Equal(vs) })
		ms := structs.Matrix[ring.Poly]{{pl}}
		ml := structs.Matrix[ring.Poly]{{pl}, {pl}}
		chk("structs.Matrix[ring.Poly]", func() bool { return ms.Equal(ml) })
		chk("structs.Matrix[ring.Poly]", func() bool { return ml.Equal(ms) })
		md := &rlwe.MetaData{}
		es := rlwe.Element[ring.Poly]{MetaData: md, Value: vs}
		el := rlwe.Element[ring.Poly]{MetaData: md, Value: vl}
		chk("rlwe.Element", func() bool { return es.Equal(&el) })
		chk("rlwe.Element", func() bool { return el.Equal(&es) })
		c.Distinct(fmt.Sprintf("equalshape/n%d/k%d", n, k), true)
	}
}
