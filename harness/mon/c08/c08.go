// Package c08: serialization is faithful, size-exact, stream-composable and fails cleanly.
//
// Oracle: byte-level comparisons between every writing entry point, value comparisons after every
// reading entry point into fresh and dirty receivers, stream-position checks with sentinels on
// shared buffered readers, and fault injection at the io.Reader / io.Writer boundary
// (fragmentation, truncation at every offset, word/byte corruption, failing writers).
package c08

import (
	"bufio"
	"bytes"
	"errors"
	"fmt"
	"io"
	"reflect"

	"github.com/tuneinsight/lattigo/v6/utils/buffer"

	"verif/harness/eng"
)

var sentinel = []byte{0xA5, 0x5A, 0xC3, 0x3C, 0x96, 0x69, 0xF0, 0x0F, 0x11}

type oneByteReader struct{ r io.Reader }

func (o oneByteReader) Read(p []byte) (int, error) {
	if len(p) == 0 {
		return 0, nil
	}
	return o.r.Read(p[:1])
}

type chunkReader struct {
	r   io.Reader
	rnd *eng.Rand
	max int
}

func (c chunkReader) Read(p []byte) (int, error) {
	if len(p) == 0 {
		return 0, nil
	}
	k := 1 + c.rnd.N(c.max)
	if k > len(p) {
		k = len(p)
	}
	return c.r.Read(p[:k])
}

type halfReader struct{ r io.Reader }

func (h halfReader) Read(p []byte) (int, error) { return h.r.Read(p[:(len(p)+1)/2]) }

// countingWriter records what reaches the underlying writer.
type countingWriter struct{ buf bytes.Buffer }

func (c *countingWriter) Write(p []byte) (int, error) { return c.buf.Write(p) }

// failingWriter accepts `limit` bytes then fails.
type failingWriter struct {
	limit, n int
}

var errInjected = errors.New("injected write failure")

func (f *failingWriter) Write(p []byte) (int, error) {
	if f.n+len(p) > f.limit {
		k := f.limit - f.n
		f.n = f.limit
		return k, errInjected
	}
	f.n += len(p)
	return len(p), nil
}

func same(a, b ser) (bool, string) {
	ba, e1 := a.MarshalBinary()
	bb, e2 := b.MarshalBinary()
	if e1 != nil || e2 != nil {
		return false, fmt.Sprintf("marshal errors %v %v", e1, e2)
	}
	if !bytes.Equal(ba, bb) {
		return false, fmt.Sprintf("re-serialisation differs (len %d vs %d, first diff at %d)", len(ba), len(bb), firstDiff(ba, bb))
	}
	// Equal method if the type has one taking a pointer to itself
	m := reflect.ValueOf(a).MethodByName("Equal")
	if m.IsValid() && m.Type().NumIn() == 1 && m.Type().NumOut() == 1 && m.Type().Out(0).Kind() == reflect.Bool {
		arg := reflect.ValueOf(b)
		if m.Type().In(0) == arg.Type() {
			var eq bool
			// Equal is an observer here, not an entry point of the property: if it cannot cope with
			// the pair (e.g. nil MetaData on one side) the byte comparison above stands alone
			if panicked, _ := eng.Panics(func() { eq = m.Call([]reflect.Value{arg})[0].Bool() }); !panicked && !eq {
				return false, "Equal() reports a difference"
			}
		}
	}
	return true, ""
}

func firstDiff(a, b []byte) int {
	n := min(len(a), len(b))
	for i := 0; i < n; i++ {
		if a[i] != b[i] {
			return i
		}
	}
	return n
}

func cases(tier string, seed int64) []eng.Case {
	var out []eng.Case
	// kind-major order: the cases are dealt round-robin to the shards, and the corrupt cases are by far the
	// heaviest, so they must not all land on the same few shards
	for _, kind := range []string{"corrupt", "roundtrip", "truncate", "failwriter", "history"} {
		for i := range entries {
			e := entries[i]
			k := kind
			// the corruption sweep of the largest objects is split by variant over several cases (= shards);
			// part 0 keeps the historical case id
			parts := 1
			if kind == "corrupt" {
				parts = corruptParts[e.Name]
			}
			for part := 0; part < max(parts, 1); part++ {
				id, pt := kind+"/"+e.Name, part
				if part > 0 {
					id = fmt.Sprintf("%s/part%d", id, part)
				}
				out = append(out, eng.Case{ID: id, Sig: "C08|" + kind + "|" + e.Name, Desc: map[string]any{"type": e.Name, "check": kind, "variants": e.Variants, "part": part},
					Run: func(c *eng.Ctx) { runEntry(c, e, k, tier, pt, max(parts, 1)) }})
			}
		}
	}
	for i := range moEntries {
		e := moEntries[i]
		out = append(out, eng.Case{ID: "marshalonly/" + e.id(), Sig: "C08|marshalonly|" + e.id(), Desc: map[string]any{"type": e.Name, "check": "marshalonly", "variants": e.Variants, "entry_points": e.mar() + "/" + e.unmar()},
			Run: func(c *eng.Ctx) { runMarshalOnly(c, e, tier) }})
	}
	nb, nm := 10, 4
	if tier == "thorough" {
		nb, nm = 80, 16
	}
	for i := 0; i < nb; i++ {
		idx := i
		out = append(out, eng.Case{ID: fmt.Sprintf("bufprim/%d", i), Sig: "C08|bufprim", Desc: map[string]any{"check": "bufprim", "index": i}, Run: func(c *eng.Ctx) { runBufPrim(c, idx, tier) }})
	}
	out = append(out, eng.Case{ID: "equalshape", Sig: "C08|equal", Desc: map[string]any{"check": "equalshape"}, Run: runEqualShape})
	out = append(out, eng.Case{ID: "siblings", Sig: "C08|siblings", Desc: map[string]any{"check": "siblings"}, Run: runSiblings})
	for i := 0; i < nm; i++ {
		idx := i
		out = append(out, eng.Case{ID: fmt.Sprintf("bufmodel/%d", i), Sig: "C08|bufmodel", Desc: map[string]any{"check": "bufmodel", "index": i}, Run: func(c *eng.Ctx) { runBufferModel(c, idx) }})
	}
	for i := range bigEntries {
		e := bigEntries[i]
		out = append(out, eng.Case{ID: "bigvec/" + e.Name, Sig: "C08|bigvec|" + e.Name, Desc: map[string]any{"type": e.Name, "check": "bigvec"}, Run: func(c *eng.Ctx) { runBigVec(c, e, tier) }})
	}
	ns := 24
	if tier == "thorough" {
		ns = 300
	}
	for i := 0; i < ns; i++ {
		idx := i
		out = append(out, eng.Case{ID: fmt.Sprintf("stream/%d", i), Sig: "C08|stream", Desc: map[string]any{"check": "stream", "index": i}, Run: func(c *eng.Ctx) { runStream(c, idx) }})
	}
	return out
}

func init() {
	eng.Register(&eng.Monitor{
		ID: "C08", Level: "fault_enumeration",
		Rule: "cases = (serializable type from the zoo of about 50 types x check kind) plus mixed-type streams, marshal-only / JSON objects, buffer-primitive programs and multi-chunk containers. " +
			"roundtrip: every value variant (levels, degrees, flags, nil optional fields, zero values, objects obtained by CopyNew / Resize / *AtLevelFromPoly with capacity above length) x every writing entry point (bytes.Buffer, counting io.Writer, bufio.Writer 9/16/23-prefilled/4096, buffer.Buffer, MarshalBinary) x every reading entry point (UnmarshalBinary, bytes.Reader, bufio.Reader 16/17/100/4096 with sentinel, buffer.Buffer with sentinel, 1-byte / half / random-chunk transports, plain and under a shared bufio.Reader) x every receiver history (fresh + each other variant of the type); decoded objects must not alias the input bytes. " +
			"history: one receiver is the target of a random sequence of valid reads, reads of streams that end early and reads of damaged encodings; after every valid read it equals the value written. " +
			"truncate: every prefix length (exhaustive for encodings <= 4 KiB, sampled above). corrupt: every 8-byte window at every offset x 6 hostile values, and every byte x 3 values (exhaustive for encodings <= 1.5 KiB); for JSON encodings every leaf and container x 10 hostile values. failwriter: failure at every byte offset of an io.Writer, a bufio.Writer and a too-small buffer.Buffer. " +
			"stream: 3-8 objects back-to-back on one shared reader, with fresh and with pooled (reused) receivers. bufprim: random programs over every Read*/Write* function of utils/buffer against a little-endian model, through misaligned small buffers, cut streams and failing writers. bigvec: vectors beyond the 2^16-element read chunk into fresh, smaller and larger receivers. " +
			"distinct key = (type, variant, check, entry point / receiver / offset class); non-trivial = anything but the plain fresh-receiver bytes.Buffer round trip.",
		Cases: cases, MemLimitMB: 6144,
		Assumptions: []string{
			"for plain io.Reader receivers the library documents that it wraps the reader in a private bufio.Reader, so only the value and the returned byte count are required there, not the position of the underlying stream",
			"a corrupted encoding may legitimately decode to a different valid object: then it must re-serialise consistently; it must never panic, die or decode from a truncated stream without error",
			"a receiver that went through a failed or damaged read is one of the 'prior states of the receiving object': the next valid encoding read into it must still reproduce the value written",
			"bufio.Writer / buffer.Buffer smaller than one 8-byte word are outside the domain (the library refuses them with an error); write-side buffers start at 8-9 bytes",
		},
	})
}

func try(c *eng.Ctx, sig string, f func() error) (err error, ok bool) {
	ok = c.Try(sig, func() { err = f() })
	return
}

// corruptParts: number of cases the corruption sweep of a type is split into (by variant index).
var corruptParts = map[string]int{"bootstrapping.EvaluationKeys": 8, "rlwe.MemEvaluationKeySet": 4, "rlwe.Ciphertext": 3, "rlwe.Plaintext": 2, "rlwe.Parameters": 3, "polynomial.PowerBasis": 2}

func runEntry(c *eng.Ctx, e entry, kind string, tier string, part, parts int) {
	z := newZoo()
	rnd := c.Rand()
	vals := make([]ser, e.Variants)
	datas := make([][]byte, e.Variants)
	for v := range vals {
		vals[v] = e.Make(z, rnd.Sub("val", v), v)
		d, err := vals[v].MarshalBinary()
		if err != nil {
			c.Violate("C08|"+e.Name+".MarshalBinary|error", err.Error(), nil)
			return
		}
		datas[v] = d
	}
	c.Sample(map[string]any{"type": e.Name, "check": kind, "encoding_sizes": lens(datas)})
	switch kind {
	case "roundtrip":
		for v := range vals {
			roundtrip(c, e, v, vals, datas)
		}
	case "truncate":
		for v := range vals {
			truncate(c, e, v, vals[v], datas[v], tier)
		}
	case "corrupt":
		for v := range vals {
			if v%parts == part {
				corrupt(c, e, v, vals[v], datas[v], tier)
			}
		}
	case "failwriter":
		for v := range vals {
			failwriter(c, e, v, vals[v], datas[v], tier)
		}
	case "history":
		history(c, e, vals, datas, tier)
	}
}

func lens(d [][]byte) []int {
	o := make([]int, len(d))
	for i := range d {
		o[i] = len(d[i])
	}
	return o
}

func roundtrip(c *eng.Ctx, e entry, v int, vals []ser, datas [][]byte) {
	val, data := vals[v], datas[v]
	T := e.Name
	z := newZoo()
	rnd := c.Rand()
	cls := ""
	if e.Class != nil {
		cls = e.Class(v)
	}
	// sg builds the signature of a failure of kind `kind` observed at `base`
	sg := func(base, kind string) string {
		if cls != "" {
			return "C08|" + T + "|" + cls + "|" + kind
		}
		return base + "|" + kind
	}
	// ---- 1. size / identity across writing entry points
	c.Check(val.BinarySize() == len(data), sg("C08|"+T+".BinarySize", "differs-from-MarshalBinary"), func() string {
		return fmt.Sprintf("variant %d: BinarySize=%d len(MarshalBinary)=%d", v, val.BinarySize(), len(data))
	})
	type wcase struct {
		name string
		run  func() (n int64, got []byte, err error)
	}
	wcases := []wcase{
		{"bytes.Buffer", func() (int64, []byte, error) {
			var b bytes.Buffer
			n, err := val.WriteTo(&b)
			return n, b.Bytes(), err
		}},
		{"io.Writer", func() (int64, []byte, error) {
			w := &countingWriter{}
			n, err := val.WriteTo(w)
			return n, w.buf.Bytes(), err
		}},
		{"bufio.Writer16", func() (int64, []byte, error) {
			var b bytes.Buffer
			w := bufio.NewWriterSize(&b, 16)
			n, err := val.WriteTo(w)
			if err == nil {
				err = w.Flush()
			}
			return n, b.Bytes(), err
		}},
		{"bufio.Writer9", func() (int64, []byte, error) {
			var b bytes.Buffer
			w := bufio.NewWriterSize(&b, 9)
			n, err := val.WriteTo(w)
			if err == nil {
				err = w.Flush()
			}
			return n, b.Bytes(), err
		}},
		{"bufio.Writer23(pre-filled)", func() (int64, []byte, error) {
			// a writer that already buffers 3 bytes of an earlier message: every word lands misaligned
			var b bytes.Buffer
			w := bufio.NewWriterSize(&b, 23)
			w.Write(sentinel[:3])
			n, err := val.WriteTo(w)
			if err == nil {
				err = w.Flush()
			}
			if b.Len() >= 3 && bytes.Equal(b.Bytes()[:3], sentinel[:3]) {
				return n, b.Bytes()[3:], err
			}
			return n, b.Bytes(), err
		}},
		{"bufio.Writer4096", func() (int64, []byte, error) {
			var b bytes.Buffer
			w := bufio.NewWriterSize(&b, 4096)
			n, err := val.WriteTo(w)
			if err == nil {
				err = w.Flush()
			}
			return n, b.Bytes(), err
		}},
		{"buffer.Buffer", func() (int64, []byte, error) {
			w := buffer.NewBufferSize(len(data))
			n, err := val.WriteTo(w)
			return n, w.Bytes()[:min(int(n), len(data))], err
		}},
	}
	for _, wc := range wcases {
		var n int64
		var got []byte
		err, ok := try(c, "C08|"+T+".WriteTo|"+wc.name, func() (err error) { n, got, err = wc.run(); return })
		c.Distinct(fmt.Sprintf("%s/%d/write/%s", T, v, wc.name), wc.name != "bytes.Buffer")
		if !ok {
			continue
		}
		if err != nil {
			c.Violate(sg("C08|"+T+".WriteTo|"+wc.name, "error"), err.Error(), nil)
			continue
		}
		c.Check(n == int64(len(data)), sg("C08|"+T+".WriteTo|"+wc.name, "returned-n-wrong"), func() string {
			return fmt.Sprintf("variant %d: n=%d want %d", v, n, len(data))
		})
		c.Check(bytes.Equal(got, data), sg("C08|"+T+".WriteTo|"+wc.name, "bytes-reaching-writer-differ"), func() string {
			return fmt.Sprintf("variant %d: %d bytes reached the writer, announced %d, MarshalBinary %d, first diff at %d", v, len(got), n, len(data), firstDiff(got, data))
		})
	}
	// ---- 2. reading entry points x receiver histories
	type rcase struct {
		name   string
		shared bool // position of the stream is observable (sentinel must follow)
		run    func(rcv ser) (n int64, rest []byte, err error)
	}
	withSentinel := append(append([]byte{}, data...), sentinel...)
	bufioCase := func(size int, wrap func(io.Reader) io.Reader, label string) rcase {
		return rcase{label, true, func(rcv ser) (int64, []byte, error) {
			var src io.Reader = bytes.NewReader(withSentinel)
			if wrap != nil {
				src = wrap(src)
			}
			br := bufio.NewReaderSize(src, size)
			n, err := rcv.ReadFrom(br)
			rest, _ := io.ReadAll(br)
			return n, rest, err
		}}
	}
	rcases := []rcase{
		{"UnmarshalBinary", false, func(rcv ser) (int64, []byte, error) {
			return int64(len(data)), nil, rcv.UnmarshalBinary(append([]byte{}, data...))
		}},
		{"bytes.Reader", false, func(rcv ser) (int64, []byte, error) {
			n, err := rcv.ReadFrom(bytes.NewReader(data))
			return n, nil, err
		}},
		bufioCase(16, nil, "bufio.Reader16"),
		bufioCase(17, nil, "bufio.Reader17"),
		bufioCase(100, nil, "bufio.Reader100"),
		bufioCase(4096, nil, "bufio.Reader4096"),
		{"buffer.Buffer", true, func(rcv ser) (int64, []byte, error) {
			b := buffer.NewBuffer(append([]byte{}, withSentinel...))
			n, err := rcv.ReadFrom(b)
			rest, _ := io.ReadAll(b)
			return n, rest, err
		}},
		{"OneByteReader", false, func(rcv ser) (int64, []byte, error) {
			n, err := rcv.ReadFrom(oneByteReader{bytes.NewReader(data)})
			return n, nil, err
		}},
		{"HalfReader", false, func(rcv ser) (int64, []byte, error) {
			n, err := rcv.ReadFrom(halfReader{bytes.NewReader(data)})
			return n, nil, err
		}},
		{"ChunkReader", false, func(rcv ser) (int64, []byte, error) {
			n, err := rcv.ReadFrom(chunkReader{bytes.NewReader(data), rnd.Sub("chunk", v), 7})
			return n, nil, err
		}},
		bufioCase(64, func(r io.Reader) io.Reader { return oneByteReader{r} }, "bufio.Reader64(OneByteReader)"),
		bufioCase(128, func(r io.Reader) io.Reader { return chunkReader{r, rnd.Sub("chunk2", v), 13} }, "bufio.Reader128(ChunkReader)"),
	}
	for _, rc := range rcases {
		// receiver histories: fresh, and one per other variant (previous content)
		for h := -1; h < len(vals); h++ {
			if h == v {
				continue
			}
			var rcv ser
			hist := "fresh"
			if h >= 0 {
				hist = fmt.Sprintf("dirty%d", h)
				rcv = e.Make(z, rnd.Sub("hist", h, rc.name), h) // a new object holding variant h
			} else {
				rcv = fresh(val)
			}
			var n int64
			var rest []byte
			sig := "C08|" + T + ".ReadFrom|" + rc.name
			err, ok := try(c, sig+"|"+histClass(h), func() (err error) { n, rest, err = rc.run(rcv); return })
			c.Distinct(fmt.Sprintf("%s/%d/read/%s/%s", T, v, rc.name, hist), !(rc.name == "bytes.Reader" && h < 0))
			if !ok {
				continue
			}
			if err != nil {
				c.Violate(sg(sig+"|"+histClass(h), "error-on-valid-encoding"), fmt.Sprintf("variant %d receiver %s: %v", v, hist, err), nil)
				continue
			}
			c.Check(n == int64(len(data)), sg(sig, "returned-n-wrong"), func() string {
				return fmt.Sprintf("variant %d receiver %s: n=%d want %d", v, hist, n, len(data))
			})
			eq, why := same(rcv, val)
			vsig := sg(sig+"|"+histClass(h), "value-differs")
			if e.Leak != nil && e.Leak(v, h) != "" {
				// a triaged receiver-state defect that exactly this (value, previous value) pair exposes
				vsig = "C08|" + T + ".ReadFrom|" + e.Leak(v, h) + "|value-differs"
				c.Count("optional_field_absent_into_receiver_holding_it", 1)
			}
			c.Check(eq, vsig, func() string {
				return fmt.Sprintf("variant %d receiver %s: %s", v, hist, why)
			})
			if rc.shared {
				c.Check(bytes.Equal(rest, sentinel), sg(sig, "stream-position-wrong"), func() string {
					return fmt.Sprintf("variant %d receiver %s: %d bytes remain after the object (want the %d sentinel bytes): %x", v, hist, len(rest), len(sentinel), head(rest, 24))
				})
			}
		}
	}
	// ---- 3. independence of the decoded object from the transport's memory, and of the encoding from the object
	// (encoding.BinaryUnmarshaler: "UnmarshalBinary must copy the data if it wishes to retain the data after returning")
	for _, ep := range []string{"UnmarshalBinary", "buffer.Buffer"} {
		cp := append([]byte{}, data...)
		rcv := fresh(val)
		err, ok := try(c, "C08|"+T+"."+ep+"|retains-input-slice", func() error {
			if ep == "UnmarshalBinary" {
				return rcv.UnmarshalBinary(cp)
			}
			_, err := rcv.ReadFrom(buffer.NewBuffer(cp))
			return err
		})
		if !ok || err != nil {
			continue // judged above
		}
		for i := range cp {
			cp[i] ^= 0xFF
		}
		eq, why := same(rcv, val)
		c.Distinct(fmt.Sprintf("%s/%d/retain/%s", T, v, ep), true)
		if cls == "" {
			c.Check(eq, "C08|"+T+"."+ep+"|retains-input-slice", func() string {
				return fmt.Sprintf("variant %d: the decoded object changed when the input bytes were overwritten afterwards: %s", v, why)
			})
		}
	}
	if d1, err := val.MarshalBinary(); err == nil {
		for i := range d1 {
			d1[i] ^= 0xFF
		}
		d2, err := val.MarshalBinary()
		c.Check(err == nil && bytes.Equal(d2, data), "C08|"+T+".MarshalBinary|result-aliases-object", func() string {
			return fmt.Sprintf("variant %d: overwriting the slice returned by MarshalBinary changed the object (next encoding differs at %d)", v, firstDiff(d2, data))
		})
	}
}

func histClass(h int) string {
	if h < 0 {
		return "fresh-receiver"
	}
	return "dirty-receiver"
}

func head(b []byte, n int) []byte {
	if len(b) > n {
		return b[:n]
	}
	return b
}

func truncate(c *eng.Ctx, e entry, v int, val ser, data []byte, tier string) {
	T := e.Name
	rnd := c.Rand()
	var offs []int
	if len(data) <= 4096 {
		for i := 0; i < len(data); i++ {
			offs = append(offs, i)
		}
		c.Count("exhaustive_subspaces", 1)
	} else {
		for i := 0; i < 64 && i < len(data); i++ {
			offs = append(offs, i)
		}
		n := 300
		if tier == "thorough" {
			n = 3000
		}
		for i := 0; i < n; i++ {
			offs = append(offs, rnd.N(len(data)))
		}
		offs = append(offs, len(data)-1, len(data)-7, len(data)-8, len(data)-9)
	}
	c.Distinct(fmt.Sprintf("%s/%d/truncate", T, v), true)
	for _, o := range offs {
		if o < 0 || o >= len(data) {
			continue
		}
		prefix := data[:o]
		for _, ep := range []string{"UnmarshalBinary", "bytes.Reader", "buffer.Buffer", "bufio.Reader32"} {
			rcv := fresh(val)
			sig := "C08|" + T + "|truncated|" + ep
			var n int64
			err, ok := try(c, sig, func() (err error) {
				switch ep {
				case "UnmarshalBinary":
					return rcv.UnmarshalBinary(append([]byte{}, prefix...))
				case "bytes.Reader":
					n, err = rcv.ReadFrom(bytes.NewReader(prefix))
				case "buffer.Buffer":
					n, err = rcv.ReadFrom(buffer.NewBuffer(append([]byte{}, prefix...)))
				default:
					n, err = rcv.ReadFrom(bufio.NewReaderSize(bytes.NewReader(prefix), 32))
				}
				return
			})
			c.Eval(1)
			if !ok {
				continue
			}
			if err == nil {
				c.Violate(sig+"|accepted-without-error", fmt.Sprintf("variant %d: %d of %d bytes given, no error, n=%d", v, o, len(data), n), nil)
			}
		}
	}
}

var hostile = []uint64{0, 1, 1 << 31, 1 << 62, ^uint64(0), ^uint64(0) - 1}

func corrupt(c *eng.Ctx, e entry, v int, val ser, data []byte, tier string) {
	T := e.Name
	rnd := c.Rand()
	var offs []int
	lim := 800
	if tier == "thorough" {
		lim = 6000
	}
	if len(data) <= lim {
		for i := 0; i+8 <= len(data); i++ {
			offs = append(offs, i)
		}
		c.Count("exhaustive_subspaces", 1)
	} else {
		for i := 0; i < 200; i++ {
			offs = append(offs, i)
		}
		for i := 0; i < 400; i++ {
			offs = append(offs, rnd.N(len(data)-8))
		}
	}
	c.Distinct(fmt.Sprintf("%s/%d/corrupt", T, v), true)
	judge := func(mut []byte, what string) {
		rcv := fresh(val)
		sig := "C08|" + T + ".UnmarshalBinary|corrupted"
		err, ok := try(c, sig, func() error { return rcv.UnmarshalBinary(mut) })
		c.Eval(1)
		if !ok || err != nil {
			if err != nil {
				c.Count("corruptions_rejected", 1)
			}
			return
		}
		// accepted: must be a self-consistent object
		var b1 []byte
		err, ok = try(c, sig+"|accepted-object-marshal", func() (err error) { b1, err = rcv.MarshalBinary(); return })
		if !ok {
			return
		}
		if err != nil {
			return // the object reports itself unserialisable: clean
		}
		r2 := fresh(val)
		err, ok = try(c, sig+"|accepted-object-reread", func() error { return r2.UnmarshalBinary(b1) })
		if !ok {
			return
		}
		if err != nil {
			c.Violate(sig+"|accepted-object-not-rereadable", what+": "+err.Error(), nil)
			return
		}
		b2, _ := r2.MarshalBinary()
		c.Check(bytes.Equal(b1, b2), sig+"|accepted-object-inconsistent", func() string { return what })
		c.Count("corruptions_accepted_consistent", 1)
	}
	for _, o := range offs {
		for _, h := range hostile {
			mut := append([]byte{}, data...)
			for k := 0; k < 8; k++ {
				mut[o+k] = byte(h >> (8 * k))
			}
			judge(mut, fmt.Sprintf("variant %d: 8 bytes at offset %d := %#x", v, o, h))
		}
	}
	// single-byte corruptions (presence / flag bytes)
	nb := len(data)
	if nb > lim {
		nb = 256
	}
	for o := 0; o < nb; o++ {
		for _, b := range []byte{0x00, 0x01, 0xFF} {
			if data[o] == b {
				continue
			}
			mut := append([]byte{}, data...)
			mut[o] = b
			judge(mut, fmt.Sprintf("variant %d: byte at offset %d := %#x", v, o, b))
		}
	}
}

func failwriter(c *eng.Ctx, e entry, v int, val ser, data []byte, tier string) {
	T := e.Name
	rnd := c.Rand()
	var offs []int
	if len(data) <= 4096 {
		for i := 0; i < len(data); i++ {
			offs = append(offs, i)
		}
		c.Count("exhaustive_subspaces", 1)
	} else {
		for i := 0; i < 64; i++ {
			offs = append(offs, i)
		}
		for i := 0; i < 300; i++ {
			offs = append(offs, rnd.N(len(data)))
		}
		offs = append(offs, len(data)-1)
	}
	c.Distinct(fmt.Sprintf("%s/%d/failwriter", T, v), true)
	for _, o := range offs {
		for _, ep := range []string{"io.Writer", "bufio.Writer64", "buffer.Buffer(too-small)"} {
			fw := &failingWriter{limit: o}
			sig := "C08|" + T + ".WriteTo|failing-writer|" + ep
			var n int64
			err, ok := try(c, sig, func() (err error) {
				if ep == "io.Writer" {
					n, err = val.WriteTo(fw)
					return
				}
				if ep == "buffer.Buffer(too-small)" {
					// the fixed-size buffer the library recommends for writing into a []byte, o bytes large
					n, err = val.WriteTo(buffer.NewBufferSize(o))
					return
				}
				bw := bufio.NewWriterSize(fw, 64)
				n, err = val.WriteTo(bw)
				if err == nil {
					err = bw.Flush()
				}
				return
			})
			c.Eval(1)
			if !ok {
				continue
			}
			if err == nil {
				c.Violate(sig+"|no-error", fmt.Sprintf("variant %d: writer failed after %d of %d bytes, WriteTo returned n=%d and nil error", v, o, len(data), n), nil)
			}
		}
	}
}

func runStream(c *eng.Ctx, idx int) {
	z := newZoo()
	rnd := c.Rand()
	k := 3 + rnd.N(6)
	var objs []ser
	var names []string
	var ents []entry
	var vars []int
	for i := 0; i < k; i++ {
		e := entries[rnd.N(len(entries))]
		if i > 0 && rnd.N(3) == 0 {
			e = ents[rnd.N(len(ents))] // the same type again: its pooled receiver is then reused (below)
		}
		v := rnd.N(e.Variants)
		// value classes with a triaged defect of their own (judged, with their own signature, by the per-type
		// cases) are kept out of the composition check, which is about stream position and framing
		for t := 0; e.Class != nil && e.Class(v) != "" && t < 64; t++ {
			v = rnd.N(e.Variants)
		}
		if e.Class != nil && e.Class(v) != "" {
			v = 0
		}
		objs = append(objs, e.Make(z, rnd.Sub("obj", i), v))
		names = append(names, fmt.Sprintf("%s#%d", e.Name, v))
		ents, vars = append(ents, e), append(vars, v)
	}
	c.Sample(map[string]any{"check": "stream", "objects": names})
	wsize := eng.Pick(rnd, 16, 17, 100, 4096)
	var under bytes.Buffer
	bw := bufio.NewWriterSize(&under, wsize)
	total := int64(0)
	for i, o := range objs {
		var n int64
		err, ok := try(c, "C08|stream|WriteTo", func() (err error) { n, err = o.WriteTo(bw); return })
		if !ok || err != nil {
			if err != nil {
				c.Violate("C08|stream|WriteTo|error", fmt.Sprintf("%s: %v", names[i], err), nil)
			}
			return
		}
		total += n
	}
	bw.Flush()
	var concat []byte
	for _, o := range objs {
		d, _ := o.MarshalBinary()
		concat = append(concat, d...)
	}
	c.Check(bytes.Equal(under.Bytes(), concat), "C08|stream|shared-bufio.Writer|bytes-differ-from-concatenation", func() string {
		return fmt.Sprintf("objects=%v writer size=%d: stream has %d bytes, concatenated encodings %d, announced %d, first diff %d", names, wsize, under.Len(), len(concat), total, firstDiff(under.Bytes(), concat))
	})
	stream := concat
	for _, rsize := range []int{16, 17, 100, 4096, -1, -2, -3, -4} {
		var rd io.Reader
		label := fmt.Sprintf("bufio.Reader%d", rsize)
		// pooled: one receiver per type serves every object of that type on the stream (a connection handler
		// that decodes message after message into the same variable)
		pooled := rsize <= -3
		pool := map[string]ser{}
		held := map[string]int{}
		switch rsize {
		case -3:
			rd = bufio.NewReaderSize(bytes.NewReader(stream), 19)
			label = "bufio.Reader19(pooled-receivers)"
		case -4:
			rd = buffer.NewBuffer(append([]byte{}, stream...))
			label = "buffer.Buffer(pooled-receivers)"
		case -1:
			rd = buffer.NewBuffer(append([]byte{}, stream...))
			label = "buffer.Buffer"
		case -2:
			rd = bufio.NewReaderSize(chunkReader{bytes.NewReader(stream), rnd.Sub("c"), 9}, 32)
			label = "bufio.Reader32(ChunkReader)"
		default:
			rd = bufio.NewReaderSize(bytes.NewReader(stream), rsize)
		}
		c.Distinct(fmt.Sprintf("stream/%d/%s/%d", idx, label, k), true)
		okAll := true
		for i, o := range objs {
			rcv := fresh(o)
			if pooled {
				e, v := ents[i], vars[i]
				if p, has := pool[e.Name]; has && (e.Leak == nil || e.Leak(v, held[e.Name]) == "") {
					rcv = p
					c.Count("stream_receivers_reused", 1)
				}
				pool[e.Name], held[e.Name] = rcv, v
			}
			var n int64
			err, ok := try(c, "C08|stream|ReadFrom|"+label, func() (err error) { n, err = rcv.ReadFrom(rd); return })
			if !ok {
				okAll = false
				break
			}
			if err != nil {
				c.Violate("C08|stream|ReadFrom|"+label+"|error", fmt.Sprintf("object %d (%s) of %v: %v", i, names[i], names, err), nil)
				okAll = false
				break
			}
			eq, why := same(rcv, o)
			if !c.Check(eq && n == int64(o.BinarySize()), "C08|stream|ReadFrom|"+label+"|object-differs", func() string {
				return fmt.Sprintf("object %d (%s) of %v: n=%d size=%d %s", i, names[i], names, n, o.BinarySize(), why)
			}) {
				okAll = false
				break
			}
		}
		if okAll {
			rest, _ := io.ReadAll(rd)
			c.Check(len(rest) == 0, "C08|stream|ReadFrom|"+label+"|stream-does-not-end-exactly", func() string {
				return fmt.Sprintf("%d bytes left after reading %v", len(rest), names)
			})
		}
	}
}
