package c08

// Containers larger than the chunk (2^16 elements) by which structs.Vector.ReadFrom grows a receiver whose
// capacity is below the encoded length: the multi-chunk path is reached by no object of the small zoo (a
// ring.Poly needs N = 2^17 for it), and the path that reuses a large enough receiver must give the same result.

import (
	"bufio"
	"bytes"
	"fmt"
	"io"

	"github.com/tuneinsight/lattigo/v6/ring"
	"github.com/tuneinsight/lattigo/v6/utils/buffer"
	"github.com/tuneinsight/lattigo/v6/utils/structs"

	"verif/harness/eng"
)

type bigEntry struct {
	Name string
	// Make builds a value with about `n` elements per vector
	Make func(r *eng.Rand, n int) ser
	// word size in bytes of the elements of the first (or only) vector, and offset of its length prefix
	Word, LenOff int
}

var bigEntries = []bigEntry{
	{Name: "structs.Vector[uint64]", Word: 8, Make: func(r *eng.Rand, n int) ser {
		v := make(structs.Vector[uint64], n)
		for i := range v {
			v[i] = r.U64()
		}
		return &v
	}},
	{Name: "structs.Vector[uint8]", Word: 1, Make: func(r *eng.Rand, n int) ser {
		v := make(structs.Vector[uint8], n)
		r.Read(v)
		return &v
	}},
	{Name: "structs.Vector[uint16]", Word: 2, Make: func(r *eng.Rand, n int) ser {
		v := make(structs.Vector[uint16], n)
		for i := range v {
			v[i] = uint16(r.U64())
		}
		return &v
	}},
	{Name: "structs.Vector[float32]", Word: 4, Make: func(r *eng.Rand, n int) ser {
		v := make(structs.Vector[float32], n)
		for i := range v {
			v[i] = f32(r.U64())
		}
		return &v
	}},
	{Name: "ring.Poly", Word: 8, LenOff: 8, Make: func(r *eng.Rand, n int) ser {
		p := ring.NewPoly(n, 1) // N = n (2^17 for the chunked path), two moduli
		return rz(r, &p)
	}},
	{Name: "structs.Vector[ring.Poly]", Word: 0, Make: func(r *eng.Rand, n int) ser {
		v := make(structs.Vector[ring.Poly], n)
		for i := range v {
			v[i] = ring.NewPoly(1, 0)
			v[i].Coeffs[0][0] = r.U64()
		}
		return &v
	}},
}

func runBigVec(c *eng.Ctx, e bigEntry, tier string) {
	T := e.Name
	rnd := c.Rand()
	const chunk = 1 << 16
	sizes := []int{2*chunk + 3, chunk + 1, chunk, 5}
	if e.Name == "ring.Poly" {
		sizes = []int{2 * chunk, chunk, 16, 2 * chunk}
	}
	if e.Word == 0 {
		sizes = []int{chunk + 7, chunk, 3, chunk + 7}
	}
	vals := make([]ser, len(sizes))
	datas := make([][]byte, len(sizes))
	for i, n := range sizes {
		vals[i] = e.Make(rnd.Sub("v", i), n)
		d, err := vals[i].MarshalBinary()
		if err != nil {
			c.Violate("C08|"+T+".MarshalBinary|error", err.Error(), nil)
			return
		}
		datas[i] = d
		c.Check(vals[i].BinarySize() == len(d), "C08|"+T+".BinarySize|differs-from-MarshalBinary", func() string {
			return fmt.Sprintf("%d elements: BinarySize=%d len(MarshalBinary)=%d", n, vals[i].BinarySize(), len(d))
		})
	}
	c.Sample(map[string]any{"type": T, "check": "bigvec", "elements": sizes, "encoding_sizes": lens(datas)})
	eps := []string{"UnmarshalBinary", "bytes.Reader", "buffer.Buffer", "bufio.Reader16", "bufio.Reader4096", "bufio.Reader64(ChunkReader)"}
	if e.Word == 0 {
		eps = []string{"UnmarshalBinary", "bufio.Reader16", "bufio.Reader64(ChunkReader)"} // 2^16 small objects each: keep it short
	}
	for v := 0; v < 2; v++ { // the values that span more than one chunk
		data := datas[v]
		ws := append(append([]byte{}, data...), sentinel...)
		// receivers: fresh (chunked growth), small (chunked growth from a non-empty receiver), as large or larger
		// (in-place path)
		for h := -1; h < len(sizes); h++ {
			if h == v {
				continue
			}
			for _, ep := range eps {
				var rcv ser
				hist := "fresh-receiver"
				if h >= 0 {
					rcv = e.Make(rnd.Sub("h", h, ep), sizes[h])
					hist = "dirty-receiver"
				} else {
					rcv = fresh(vals[v])
				}
				var n int64
				var rest []byte
				shared := false
				sig := "C08|" + T + ".ReadFrom|" + ep
				err, ok := try(c, sig+"|"+hist, func() (err error) {
					switch ep {
					case "UnmarshalBinary":
						n = int64(len(data))
						return rcv.UnmarshalBinary(append([]byte{}, data...))
					case "bytes.Reader":
						n, err = rcv.ReadFrom(bytes.NewReader(data))
					case "buffer.Buffer":
						b := buffer.NewBuffer(append([]byte{}, ws...))
						n, err = rcv.ReadFrom(b)
						rest, _ = io.ReadAll(b)
						shared = true
					case "bufio.Reader16":
						br := bufio.NewReaderSize(bytes.NewReader(ws), 16)
						n, err = rcv.ReadFrom(br)
						rest, _ = io.ReadAll(br)
						shared = true
					case "bufio.Reader4096":
						br := bufio.NewReaderSize(bytes.NewReader(ws), 4096)
						n, err = rcv.ReadFrom(br)
						rest, _ = io.ReadAll(br)
						shared = true
					default:
						br := bufio.NewReaderSize(chunkReader{bytes.NewReader(ws), rnd.Sub("c", v, h), 4099}, 64)
						n, err = rcv.ReadFrom(br)
						rest, _ = io.ReadAll(br)
						shared = true
					}
					return
				})
				c.Distinct(fmt.Sprintf("bigvec/%s/%d/%d/%s", T, v, h, ep), true)
				if !ok {
					continue
				}
				if err != nil {
					c.Violate(sig+"|"+hist+"|error-on-valid-encoding", fmt.Sprintf("%d elements into a receiver of %d: %v", sizes[v], hsize(sizes, h), err), nil)
					continue
				}
				c.Check(n == int64(len(data)), sig+"|returned-n-wrong", func() string {
					return fmt.Sprintf("%d elements into a receiver of %d: n=%d want %d", sizes[v], hsize(sizes, h), n, len(data))
				})
				eq, why := same(rcv, vals[v])
				c.Check(eq, sig+"|"+hist+"|value-differs", func() string {
					return fmt.Sprintf("%d elements into a receiver of %d: %s", sizes[v], hsize(sizes, h), why)
				})
				if shared {
					c.Check(bytes.Equal(rest, sentinel), sig+"|stream-position-wrong", func() string {
						return fmt.Sprintf("%d elements into a receiver of %d: %d bytes remain (want the %d sentinel bytes)", sizes[v], hsize(sizes, h), len(rest), len(sentinel))
					})
				}
				c.Count("multi_chunk_reads", 1)
			}
		}
		// streams that end early, in particular right around the chunk boundaries
		var cuts []int
		if e.Word > 0 {
			for k := 1; k <= 2; k++ {
				for d := -e.Word - 1; d <= e.Word+1; d++ {
					cuts = append(cuts, e.LenOff+8+k*chunk*e.Word+d)
				}
			}
		}
		for i := 0; i < 24; i++ {
			cuts = append(cuts, rnd.N(len(data)))
		}
		cuts = append(cuts, 0, 7, 8, 9, len(data)-1)
		for _, cut := range cuts {
			if cut < 0 || cut >= len(data) {
				continue
			}
			for _, ep := range []string{"UnmarshalBinary", "bufio.Reader32"} {
				rcv := fresh(vals[v])
				sig := "C08|" + T + "|truncated|" + ep
				var n int64
				err, ok := try(c, sig, func() (err error) {
					if ep == "UnmarshalBinary" {
						return rcv.UnmarshalBinary(append([]byte{}, data[:cut]...))
					}
					n, err = rcv.ReadFrom(bufio.NewReaderSize(bytes.NewReader(data[:cut]), 32))
					return
				})
				c.Eval(1)
				if ok && err == nil {
					c.Violate(sig+"|accepted-without-error", fmt.Sprintf("%d elements: %d of %d bytes given, no error, n=%d", sizes[v], cut, len(data), n), nil)
				}
			}
		}
		// a damaged length prefix, on a slice and on a stream whose length the decoder cannot know: an error (or a
		// consistent shorter object), no panic; an allocation proportional to the announced length kills the child
		// under its address-space limit and is attributed to this case
		for _, hv := range append([]uint64{uint64(sizes[v]) + 1, uint64(sizes[v]) - 1, 1 << 24, 1 << 40}, hostile...) {
			mut := append([]byte{}, data...)
			for k := 0; k < 8; k++ {
				mut[e.LenOff+k] = byte(hv >> (8 * k))
			}
			for _, ep := range []string{"UnmarshalBinary", "bufio.Reader64"} {
				rcv := fresh(vals[v])
				sig := "C08|" + T + "." + map[string]string{"UnmarshalBinary": "UnmarshalBinary", "bufio.Reader64": "ReadFrom"}[ep] + "|corrupted-length"
				err, ok := try(c, sig, func() error {
					if ep == "UnmarshalBinary" {
						return rcv.UnmarshalBinary(mut)
					}
					_, err := rcv.ReadFrom(bufio.NewReaderSize(bytes.NewReader(mut), 64))
					return err
				})
				c.Eval(1)
				if !ok {
					continue
				}
				if err != nil {
					c.Count("corruptions_rejected", 1)
					continue
				}
				// accepted: the announced length must then have been available (a shorter prefix of the data)
				c.Check(hv <= uint64(sizes[v]), sig+"|longer-than-the-data-accepted", func() string {
					return fmt.Sprintf("%d elements, length prefix := %d: no error", sizes[v], hv)
				})
				c.Count("corruptions_accepted_consistent", 1)
			}
		}
	}
}

func hsize(sizes []int, h int) int {
	if h < 0 {
		return 0
	}
	return sizes[h]
}
