package c08

// Second part of the zoo: the component types of structs.Vector / Matrix / Map that the library documents as
// supported but that no scheme object happens to use (signed and floating-point words, nested containers,
// signed map keys), so that every branch of the type switches in utils/structs is exercised.

import (
	"math"

	"github.com/tuneinsight/lattigo/v6/core/rlwe"
	"github.com/tuneinsight/lattigo/v6/ring"
	"github.com/tuneinsight/lattigo/v6/ring/ringqp"
	"github.com/tuneinsight/lattigo/v6/utils/structs"

	"verif/harness/eng"
)

// wordVec builds the entry of a vector of fixed-width words; conv maps a random word to an element.
func wordVec[T any](name string, lens []int, conv func(u uint64) T) entry {
	return entry{Name: name, Variants: len(lens), Make: func(z *zoo, r *eng.Rand, v int) ser {
		vec := make(structs.Vector[T], lens[v])
		for i := range vec {
			vec[i] = conv(r.U64())
		}
		return &vec
	}}
}

func wordMat[T any](name string, rows []int, conv func(u uint64) T) entry {
	return entry{Name: name, Variants: len(rows), Make: func(z *zoo, r *eng.Rand, v int) ser {
		m := make(structs.Matrix[T], rows[v])
		for i := range m {
			m[i] = make([]T, (i*5+v*3)%9)
			for j := range m[i] {
				m[i][j] = conv(r.U64())
			}
		}
		return &m
	}}
}

// f64 / f32 map a random word to a float that is not a NaN (a NaN payload survives the byte copy but would make
// value comparisons meaningless; the byte comparison is what judges these types anyway).
func f64(u uint64) float64 {
	f := math.Float64frombits(u)
	if f != f {
		return float64(int64(u)) / 3
	}
	return f
}

func f32(u uint64) float32 {
	f := math.Float32frombits(uint32(u))
	if f != f {
		return float32(int32(u)) / 3
	}
	return f
}

func init() {
	entries = append(entries,
		wordVec("structs.Vector[int]", []int{0, 1, 19}, func(u uint64) int { return int(u) }),
		wordVec("structs.Vector[uint]", []int{0, 2, 17}, func(u uint64) uint { return uint(u) }),
		wordVec("structs.Vector[int64]", []int{0, 3, 21}, func(u uint64) int64 { return int64(u) }),
		wordVec("structs.Vector[float64]", []int{0, 1, 18}, f64),
		wordVec("structs.Vector[int32]", []int{0, 5, 23}, func(u uint64) int32 { return int32(u) }),
		wordVec("structs.Vector[float32]", []int{0, 3, 29}, f32),
		wordVec("structs.Vector[int16]", []int{0, 7, 37}, func(u uint64) int16 { return int16(u) }),
		wordVec("structs.Vector[int8]", []int{0, 9, 75}, func(u uint64) int8 { return int8(u) }),
		wordMat("structs.Matrix[float64]", []int{0, 2, 6}, f64),
		wordMat("structs.Matrix[uint8]", []int{0, 3, 7}, func(u uint64) uint8 { return uint8(u) }),
		wordMat("structs.Matrix[int16]", []int{0, 1, 5}, func(u uint64) int16 { return int16(u) }),
		wordMat("structs.Matrix[uint32]", []int{0, 4, 5}, func(u uint64) uint32 { return uint32(u) }),
		entry{Name: "structs.Vector[ringqp.Poly]", Variants: 3, Make: func(z *zoo, r *eng.Rand, v int) ser {
			vec := make(structs.Vector[ringqp.Poly], v+1)
			for i := range vec {
				vec[i] = z.params.RingQP().AtLevel(i%3, (i+v)%3-1).NewPoly()
			}
			return rz(r, &vec)
		}},
		entry{Name: "structs.Vector[structs.Vector[uint64]]", Variants: 3, Make: func(z *zoo, r *eng.Rand, v int) ser {
			vec := make(structs.Vector[structs.Vector[uint64]], []int{0, 2, 5}[v])
			for i := range vec {
				vec[i] = make(structs.Vector[uint64], (i*3+v)%7)
				for j := range vec[i] {
					vec[i][j] = r.U64()
				}
			}
			return &vec
		}},
		entry{Name: "structs.Matrix[ring.Poly]", Variants: 3, Make: func(z *zoo, r *eng.Rand, v int) ser {
			m := make(structs.Matrix[ring.Poly], v+1)
			for i := range m {
				m[i] = make([]ring.Poly, (i+v)%3)
				for j := range m[i] {
					m[i][j] = ring.NewPoly(16, (i+j)%2)
				}
			}
			return rz(r, &m)
		}},
		entry{Name: "structs.Map[int,ring.Poly]", Variants: 3, Make: func(z *zoo, r *eng.Rand, v int) ser {
			// signed keys, negative ones included (written as their two's complement word)
			m := structs.Map[int, ring.Poly]{}
			for i := 0; i < v*3; i++ {
				p := ring.NewPoly(16, i%2)
				m[r.N(2000)-1000] = rz(r, &p)
			}
			if v == 2 {
				p := ring.NewPoly(16, 0)
				m[math.MinInt64] = rz(r, &p)
				q := ring.NewPoly(16, 1)
				m[-1] = rz(r, &q)
			}
			return &m
		}},
		entry{Name: "structs.Map[uint32,rlwe.Ciphertext]", Variants: 3, Make: func(z *zoo, r *eng.Rand, v int) ser {
			m := structs.Map[uint32, rlwe.Ciphertext]{}
			for i := 0; i < v*2; i++ {
				ct := rlwe.NewCiphertext(z.params, i%2+1, i%3)
				metaVariant2(ct.MetaData, r, i)
				m[uint32(r.U64())] = rz(r, ct)
			}
			return &m
		}},
	)
}
