package c08

// Histories of one receiver: the same object is the target of a whole sequence of reads - valid encodings of
// different values of its type through different transports, interleaved with reads that fail (stream ends
// early) and reads of damaged encodings - and after every successful read of a valid encoding it must equal the
// value that was written, whatever it held or half-held before.

import (
	"bufio"
	"bytes"
	"fmt"
	"io"

	"github.com/tuneinsight/lattigo/v6/utils/buffer"

	"verif/harness/eng"
)

// readable lists the variants that can be read in a sequence without running into a triaged defect of their
// own (value classes, and encodings whose optional field is absent: the per-pair round trip judges those).
func readable(e entry) (out []int) {
	for v := 0; v < e.Variants; v++ {
		if e.Class != nil && e.Class(v) != "" {
			continue
		}
		leaky := false
		for h := 0; e.Leak != nil && h < e.Variants; h++ {
			if h != v && e.Leak(v, h) != "" {
				leaky = true
			}
		}
		if !leaky {
			out = append(out, v)
		}
	}
	return
}

// readVia reads one object from data (followed by `follow` where the stream position is observable).
func readVia(rcv ser, ep string, data []byte, rnd *eng.Rand, follow []byte) (n int64, rest []byte, shared bool, err error) {
	ws := append(append([]byte{}, data...), follow...)
	switch ep {
	case "UnmarshalBinary":
		return int64(len(data)), nil, false, rcv.UnmarshalBinary(append([]byte{}, data...))
	case "bytes.Reader":
		n, err = rcv.ReadFrom(bytes.NewReader(data))
		return n, nil, false, err
	case "OneByteReader":
		n, err = rcv.ReadFrom(oneByteReader{bytes.NewReader(data)})
		return n, nil, false, err
	case "buffer.Buffer":
		b := buffer.NewBuffer(ws)
		n, err = rcv.ReadFrom(b)
		rest, _ = io.ReadAll(b)
		return n, rest, true, err
	case "bufio.Reader16":
		br := bufio.NewReaderSize(bytes.NewReader(ws), 16)
		n, err = rcv.ReadFrom(br)
		rest, _ = io.ReadAll(br)
		return n, rest, true, err
	default: // bufio.Reader64(ChunkReader)
		br := bufio.NewReaderSize(chunkReader{bytes.NewReader(ws), rnd, 11}, 64)
		n, err = rcv.ReadFrom(br)
		rest, _ = io.ReadAll(br)
		return n, rest, true, err
	}
}

var histEndpoints = []string{"UnmarshalBinary", "bytes.Reader", "OneByteReader", "buffer.Buffer", "bufio.Reader16", "bufio.Reader64(ChunkReader)"}

func history(c *eng.Ctx, e entry, vals []ser, datas [][]byte, tier string) {
	T := e.Name
	rnd := c.Rand()
	ok := readable(e)
	if len(ok) == 0 {
		return
	}
	nseq, steps := 3, 14
	if tier == "thorough" {
		nseq, steps = 12, 40
	}
	for s := 0; s < nseq; s++ {
		rcv := fresh(vals[0])
		prev := "fresh"
		var trace []string
		for st := 0; st < steps; st++ {
			v := ok[rnd.N(len(ok))]
			ep := histEndpoints[rnd.N(len(histEndpoints))]
			switch k := rnd.N(20); {
			case k < 5 && len(datas[v]) > 0: // the stream ends early
				cut := rnd.N(len(datas[v]))
				sig := "C08|" + T + "|truncated|" + ep
				var n int64
				err, fine := try(c, sig, func() (err error) { n, _, _, err = readVia(rcv, ep, datas[v][:cut], rnd.Sub("t", s, st), nil); return })
				c.Eval(1)
				trace = append(trace, fmt.Sprintf("cut%d@%d/%s", v, cut, ep))
				if !fine {
					return
				}
				if err == nil {
					c.Violate(sig+"|accepted-without-error", fmt.Sprintf("after %v: variant %d, %d of %d bytes given to a receiver with a history, no error, n=%d", trace, v, cut, len(datas[v]), n), nil)
				}
				c.Count("history_failed_reads", 1)
				prev = "after-failed-read"
			case k < 8 && len(datas[v]) >= 8: // a damaged encoding: whatever it does to the receiver, no panic
				mut := append([]byte{}, datas[v]...)
				o := rnd.N(len(mut) - 7)
				if o > 64 && rnd.Bool() {
					o = rnd.N(64) // headers sit at the front
				}
				h := hostile[rnd.N(len(hostile))]
				for b := 0; b < 8; b++ {
					mut[o+b] = byte(h >> (8 * b))
				}
				trace = append(trace, fmt.Sprintf("damaged%d@%d", v, o))
				if _, fine := try(c, "C08|"+T+".UnmarshalBinary|corrupted", func() error { return rcv.UnmarshalBinary(mut) }); !fine {
					return
				}
				c.Eval(1)
				c.Count("history_damaged_reads", 1)
				prev = "after-damaged-read"
			default: // a valid encoding
				sig := "C08|" + T + ".ReadFrom|receiver-history|" + prev
				var n int64
				var rest []byte
				var shared bool
				err, fine := try(c, sig, func() (err error) {
					n, rest, shared, err = readVia(rcv, ep, datas[v], rnd.Sub("g", s, st), sentinel)
					return
				})
				trace = append(trace, fmt.Sprintf("read%d/%s", v, ep))
				if !fine {
					return
				}
				if err != nil {
					c.Violate(sig+"|error-on-valid-encoding", fmt.Sprintf("after %v: %v", trace, err), nil)
					return
				}
				eq, why := same(rcv, vals[v])
				c.Check(eq, sig+"|value-differs", func() string { return fmt.Sprintf("sequence %v: %s", trace, why) })
				c.Check(n == int64(len(datas[v])), sig+"|returned-n-wrong", func() string {
					return fmt.Sprintf("sequence %v: n=%d want %d", trace, n, len(datas[v]))
				})
				if shared {
					c.Check(bytes.Equal(rest, sentinel), sig+"|stream-position-wrong", func() string {
						return fmt.Sprintf("sequence %v: %d bytes remain after the object (want the %d sentinel bytes)", trace, len(rest), len(sentinel))
					})
				}
				if !eq {
					return // the receiver is off: later steps would only repeat the finding
				}
				c.Count("history_reads_"+prev, 1)
				prev = "after-successful-read"
			}
		}
		c.Distinct(fmt.Sprintf("%s/history/%d/%d", T, s, steps), true)
		c.Max("max_history_length", int64(steps))
	}
}
