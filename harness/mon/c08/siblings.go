package c08

// Reading into a receiver changes that receiver only. Scales (and the metadata that hold them) are copied by
// value throughout the library: ckks.NewCiphertext / NewPlaintext give every object the parameters' default
// scale, evaluator outputs take the scale of an operand. A by-value copy of a Scale shares the words of its
// big.Float (and the big.Int of its modulus) with its source, so a decoder that writes into the receiver's
// number in place changes every sibling, earlier decoded objects and the parameters themselves included.
// Here several receivers that share their scale with one another and with the parameters are read into,
// one after the other from one stream, and every object - the parameters' default scale too - is compared
// with what it has to hold at the end.

import (
	"bufio"
	"bytes"
	"fmt"
	"math/big"

	"github.com/tuneinsight/lattigo/v6/core/rlwe"
	"github.com/tuneinsight/lattigo/v6/schemes/bgv"
	"github.com/tuneinsight/lattigo/v6/schemes/ckks"

	"verif/harness/eng"
)

func runSiblings(c *eng.Ctx) {
	rnd := c.Rand()
	cp, err := ckks.NewParametersFromLiteral(ckks.ParametersLiteral{LogN: 5, LogQ: []int{50, 40, 40}, LogP: []int{55}, LogDefaultScale: 40})
	if err != nil {
		c.Inconclusive(err.Error())
		return
	}
	bp, err := bgv.NewParametersFromLiteral(bgv.ParametersLiteral{LogN: 5, LogQ: []int{50, 40}, LogP: []int{55}, PlaintextModulus: 65537})
	if err != nil {
		c.Inconclusive(err.Error())
		return
	}
	oddScale := func(i int) rlwe.Scale {
		f := new(big.Float).SetPrec(128).SetFloat64(1234567.891011 * float64(3+2*i))
		f.Mul(f, new(big.Float).SetPrec(128).SetFloat64(float64(uint64(1)<<uint(20+rnd.N(30)))+0.37))
		return rlwe.NewScale(f)
	}
	sText := func(s rlwe.Scale) string {
		m := "nil"
		if s.Mod != nil {
			m = s.Mod.String()
		}
		return s.Value.Text('p', 0) + "/" + m
	}
	type probe struct {
		name string
		run  func() (got, want []string)
	}
	probes := []probe{
		{"rlwe.Scale|by-value-copy-of-the-default-scale", func() (got, want []string) {
			def0 := sText(cp.DefaultScale())
			src := oddScale(0)
			for _, via := range []string{"UnmarshalBinary", "UnmarshalJSON"} {
				s := cp.DefaultScale()
				var b []byte
				var err error
				if via == "UnmarshalBinary" {
					if b, err = src.MarshalBinary(); err == nil {
						err = s.UnmarshalBinary(b)
					}
				} else {
					if b, err = src.MarshalJSON(); err == nil {
						err = s.UnmarshalJSON(b)
					}
				}
				if err != nil {
					panic(err)
				}
				got = append(got, sText(s), sText(cp.DefaultScale()))
				want = append(want, sText(src), def0)
			}
			return
		}},
		{"rlwe.Scale|by-value-copy-of-a-modular-scale", func() (got, want []string) {
			def0 := sText(bp.DefaultScale())
			src := rlwe.NewScaleModT(12345, 65537)
			s := bp.DefaultScale()
			b, err := src.MarshalBinary()
			if err == nil {
				err = s.UnmarshalBinary(b)
			}
			if err != nil {
				panic(err)
			}
			return []string{sText(s), sText(bp.DefaultScale())}, []string{sText(src), def0}
		}},
		{"rlwe.Ciphertext|receivers-from-one-constructor", func() (got, want []string) {
			def0 := sText(cp.DefaultScale())
			var buf bytes.Buffer
			var srcs []*rlwe.Ciphertext
			for i := 0; i < 3; i++ {
				ct := rz(rnd, ckks.NewCiphertext(cp, 1, 1+i%2))
				ct.Scale = oddScale(i)
				if _, err := ct.WriteTo(&buf); err != nil {
					panic(err)
				}
				srcs = append(srcs, ct)
			}
			rd := bufio.NewReader(&buf)
			var recv []*rlwe.Ciphertext
			for range srcs {
				recv = append(recv, ckks.NewCiphertext(cp, 1, 2)) // all share the default scale's words
			}
			for i := range recv {
				if _, err := recv[i].ReadFrom(rd); err != nil {
					panic(err)
				}
			}
			for i := range recv {
				got = append(got, sText(recv[i].Scale))
				want = append(want, sText(srcs[i].Scale))
			}
			return append(got, sText(cp.DefaultScale())), append(want, def0)
		}},
		{"rlwe.Plaintext|receivers-from-one-constructor|json", func() (got, want []string) {
			def0 := sText(bp.DefaultScale())
			var blobs [][]byte
			var srcs []*rlwe.Plaintext
			for i := 0; i < 3; i++ {
				pt := bgv.NewPlaintext(bp, i%2)
				pt.Scale = rlwe.NewScaleModT(uint64(3+7*i), 65537)
				b, err := pt.MarshalBinary()
				if err != nil {
					panic(err)
				}
				blobs = append(blobs, b)
				srcs = append(srcs, pt)
			}
			var recv []*rlwe.Plaintext
			for range srcs {
				recv = append(recv, bgv.NewPlaintext(bp, 1))
			}
			for i := range recv {
				if err := recv[i].UnmarshalBinary(blobs[i]); err != nil {
					panic(err)
				}
			}
			for i := range recv {
				got = append(got, sText(recv[i].Scale))
				want = append(want, sText(srcs[i].Scale))
			}
			return append(got, sText(bp.DefaultScale())), append(want, def0)
		}},
		{"rlwe.MetaData|copied-by-assignment", func() (got, want []string) {
			a := &rlwe.MetaData{}
			a.Scale = oddScale(1)
			keep := sText(a.Scale)
			b := *a // the copy evaluators make: *out.MetaData = *in.MetaData
			src := &rlwe.MetaData{}
			src.Scale = oddScale(2)
			src.IsNTT, src.IsBatched = true, true
			blob, err := src.MarshalBinary()
			if err == nil {
				err = b.UnmarshalBinary(blob)
			}
			if err != nil {
				panic(err)
			}
			return []string{sText(b.Scale), sText(a.Scale)}, []string{sText(src.Scale), keep}
		}},
	}
	for _, p := range probes {
		p := p
		var got, want []string
		sig := "C08|" + p.name
		if !c.Try(sig, func() { got, want = p.run() }) {
			continue
		}
		c.Eval(len(got))
		c.Count("sibling_objects_compared", int64(len(got)))
		c.Distinct("siblings/"+p.name, true)
		bad := -1
		for i := range got {
			if got[i] != want[i] {
				bad = i
				break
			}
		}
		c.Check(bad < 0, sig+"|reading-into-one-object-changed-another", func() string {
			return fmt.Sprintf("object %d of %d holds %s, expected %s", bad, len(got), got[bad], want[bad])
		})
	}
}
