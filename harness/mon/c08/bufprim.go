package c08

// Direct workload on utils/buffer (reader.go, writer.go, buffer.go): random programs of word / slice writes and
// reads of every width, judged against an exact little-endian byte model, through writers and readers whose
// internal buffers are small and misaligned with respect to the words, through fragmenting transports, on
// streams that end early and into writers that fail. Every scheme object funnels through these functions, but
// only with the few call patterns its layout happens to produce.

import (
	"bufio"
	"bytes"
	"encoding/binary"
	"fmt"
	"io"
	"math"

	"github.com/tuneinsight/lattigo/v6/utils/buffer"

	"verif/harness/eng"
)

type bop struct {
	fn  string   // name of the write function (the read function is the same with Read for Write)
	w   int      // width in bytes of one word
	u   []uint64 // the words (one for scalar ops)
	raw []byte   // for Write/Read of raw bytes
	sl  bool
}

func (o bop) bytes() []byte {
	if o.raw != nil || o.fn == "Write" {
		return o.raw
	}
	out := make([]byte, 0, o.w*len(o.u))
	for _, x := range o.u {
		var t [8]byte
		binary.LittleEndian.PutUint64(t[:], x)
		out = append(out, t[:o.w]...)
	}
	return out
}

func cast[T any](u []uint64, f func(uint64) T) []T {
	out := make([]T, len(u))
	for i := range u {
		out[i] = f(u[i])
	}
	return out
}

func (o bop) write(w buffer.Writer) (int64, error) {
	switch o.fn {
	case "Write":
		return buffer.Write(w, o.raw)
	case "WriteUint8":
		return buffer.WriteUint8(w, uint8(o.u[0]))
	case "WriteUint16":
		return buffer.WriteUint16(w, uint16(o.u[0]))
	case "WriteUint32":
		return buffer.WriteUint32(w, uint32(o.u[0]))
	case "WriteUint64":
		return buffer.WriteUint64(w, o.u[0])
	case "WriteUint8Slice":
		return buffer.WriteUint8Slice(w, cast(o.u, func(x uint64) uint8 { return uint8(x) }))
	case "WriteUint16Slice":
		return buffer.WriteUint16Slice(w, cast(o.u, func(x uint64) uint16 { return uint16(x) }))
	case "WriteUint32Slice":
		return buffer.WriteUint32Slice(w, cast(o.u, func(x uint64) uint32 { return uint32(x) }))
	case "WriteUint64Slice":
		return buffer.WriteUint64Slice(w, o.u)
	case "WriteAsUint8":
		return buffer.WriteAsUint8[int8](w, int8(o.u[0]))
	case "WriteAsUint16":
		return buffer.WriteAsUint16[int16](w, int16(o.u[0]))
	case "WriteAsUint32":
		return buffer.WriteAsUint32[int32](w, int32(o.u[0]))
	case "WriteAsUint64":
		return buffer.WriteAsUint64[int](w, int(o.u[0]))
	case "WriteAsUint8Slice":
		return buffer.WriteAsUint8Slice[int8](w, cast(o.u, func(x uint64) int8 { return int8(x) }))
	case "WriteAsUint16Slice":
		return buffer.WriteAsUint16Slice[int16](w, cast(o.u, func(x uint64) int16 { return int16(x) }))
	case "WriteAsUint32Slice":
		return buffer.WriteAsUint32Slice[float32](w, cast(o.u, func(x uint64) float32 { return math.Float32frombits(uint32(x)) }))
	case "WriteAsUint64Slice":
		return buffer.WriteAsUint64Slice[float64](w, cast(o.u, func(x uint64) float64 { return math.Float64frombits(x) }))
	}
	panic("unknown op " + o.fn)
}

// read performs the matching read and reports whether the decoded value equals what was written. The
// destinations are pre-filled with a pattern so that a read that does nothing is seen.
func (o bop) read(r buffer.Reader) (n int64, equal bool, err error) {
	mask := uint64(1)<<(8*uint(o.w)) - 1
	if o.w == 8 {
		mask = ^uint64(0)
	}
	eqs := func(got []uint64) bool {
		for i := range got {
			if got[i]&mask != o.u[i]&mask {
				return false
			}
		}
		return len(got) == len(o.u)
	}
	var pat uint64 = 0xA5A5A5A5A5A5A5A5
	switch o.fn {
	case "Write":
		b := bytes.Repeat([]byte{0xA5}, len(o.raw))
		n, err = buffer.Read(r, b)
		return n, bytes.Equal(b, o.raw), err
	case "WriteUint8":
		x := uint8(pat)
		n, err = buffer.ReadUint8(r, &x)
		return n, eqs([]uint64{uint64(x)}), err
	case "WriteUint16":
		x := uint16(pat)
		n, err = buffer.ReadUint16(r, &x)
		return n, eqs([]uint64{uint64(x)}), err
	case "WriteUint32":
		x := uint32(pat)
		n, err = buffer.ReadUint32(r, &x)
		return n, eqs([]uint64{uint64(x)}), err
	case "WriteUint64":
		x := uint64(pat)
		n, err = buffer.ReadUint64(r, &x)
		return n, eqs([]uint64{x}), err
	case "WriteUint8Slice":
		x := bytes.Repeat([]byte{0xA5}, len(o.u))
		n, err = buffer.ReadUint8Slice(r, x)
		return n, eqs(cast2(x)), err
	case "WriteUint16Slice":
		x := make([]uint16, len(o.u))
		n, err = buffer.ReadUint16Slice(r, x)
		return n, eqs(cast2(x)), err
	case "WriteUint32Slice":
		x := make([]uint32, len(o.u))
		n, err = buffer.ReadUint32Slice(r, x)
		return n, eqs(cast2(x)), err
	case "WriteUint64Slice":
		x := make([]uint64, len(o.u))
		n, err = buffer.ReadUint64Slice(r, x)
		return n, eqs(x), err
	case "WriteAsUint8":
		x := int8(0x5A)
		n, err = buffer.ReadAsUint8[int8](r, &x)
		return n, eqs([]uint64{uint64(uint8(x))}), err
	case "WriteAsUint16":
		x := int16(0x5A5A)
		n, err = buffer.ReadAsUint16[int16](r, &x)
		return n, eqs([]uint64{uint64(uint16(x))}), err
	case "WriteAsUint32":
		x := int32(0x5A5A5A5A)
		n, err = buffer.ReadAsUint32[int32](r, &x)
		return n, eqs([]uint64{uint64(uint32(x))}), err
	case "WriteAsUint64":
		x := int(0x5A5A5A5A5A5A5A5A)
		n, err = buffer.ReadAsUint64[int](r, &x)
		return n, eqs([]uint64{uint64(x)}), err
	case "WriteAsUint8Slice":
		x := make([]int8, len(o.u))
		n, err = buffer.ReadAsUint8Slice[int8](r, x)
		return n, eqs(x2u(x)), err
	case "WriteAsUint16Slice":
		x := make([]int16, len(o.u))
		n, err = buffer.ReadAsUint16Slice[int16](r, x)
		return n, eqs(x2u(x)), err
	case "WriteAsUint32Slice":
		x := make([]float32, len(o.u))
		n, err = buffer.ReadAsUint32Slice[float32](r, x)
		g := make([]uint64, len(x))
		for i := range x {
			g[i] = uint64(math.Float32bits(x[i]))
		}
		return n, eqs(g), err
	case "WriteAsUint64Slice":
		x := make([]float64, len(o.u))
		n, err = buffer.ReadAsUint64Slice[float64](r, x)
		g := make([]uint64, len(x))
		for i := range x {
			g[i] = math.Float64bits(x[i])
		}
		return n, eqs(g), err
	}
	panic("unknown op " + o.fn)
}

func cast2[T uint8 | uint16 | uint32](x []T) []uint64 {
	out := make([]uint64, len(x))
	for i := range x {
		out[i] = uint64(x[i])
	}
	return out
}

func x2u[T int8 | int16](x []T) []uint64 {
	out := make([]uint64, len(x))
	for i := range x {
		out[i] = uint64(x[i]) // sign-extended; the comparison masks to the word width
	}
	return out
}

func (o bop) readName() string {
	if o.fn == "Write" {
		return "Read"
	}
	if len(o.fn) > 7 && o.fn[:7] == "WriteAs" {
		return "ReadAs" + o.fn[7:]
	}
	return "Read" + o.fn[5:]
}

var bopKinds = []struct {
	fn string
	w  int
	sl bool
}{
	{"WriteUint8", 1, false}, {"WriteUint16", 2, false}, {"WriteUint32", 4, false}, {"WriteUint64", 8, false},
	{"WriteUint8Slice", 1, true}, {"WriteUint16Slice", 2, true}, {"WriteUint32Slice", 4, true}, {"WriteUint64Slice", 8, true},
	{"WriteAsUint8", 1, false}, {"WriteAsUint16", 2, false}, {"WriteAsUint32", 4, false}, {"WriteAsUint64", 8, false},
	{"WriteAsUint8Slice", 1, true}, {"WriteAsUint16Slice", 2, true}, {"WriteAsUint32Slice", 4, true}, {"WriteAsUint64Slice", 8, true},
	{"Write", 1, true},
}

func genProgram(r *eng.Rand, nops int) []bop {
	prog := make([]bop, nops)
	for i := range prog {
		k := bopKinds[r.N(len(bopKinds))]
		o := bop{fn: k.fn, w: k.w, sl: k.sl}
		n := 1
		if k.sl {
			n = eng.Pick(r, 0, 1, 2, 3, 7, 8, 9, 15, 16, 17, 31, 33, 64, 100)
			if r.N(8) == 0 {
				n = 500 + r.N(700)
			}
		}
		if k.fn == "Write" {
			o.raw = make([]byte, n)
			r.Read(o.raw)
		} else {
			o.u = make([]uint64, n)
			for j := range o.u {
				switch r.N(6) {
				case 0:
					o.u[j] = 0
				case 1:
					o.u[j] = ^uint64(0)
				default:
					o.u[j] = r.U64()
				}
				if k.fn == "WriteAsUint32Slice" || k.fn == "WriteAsUint64Slice" {
					// floats: keep away from NaN payload canonicalisation questions
					o.u[j] &^= 0x7FF0000000000000
					o.u[j] &^= 0x7F800000
				}
			}
		}
		prog[i] = o
	}
	return prog
}

func runBufPrim(c *eng.Ctx, idx int, tier string) {
	rnd := c.Rand()
	nops := 12 + rnd.N(40)
	prog := genProgram(rnd.Sub("prog"), nops)
	var model []byte
	ends := make([]int, len(prog))
	for i, o := range prog {
		model = append(model, o.bytes()...)
		ends[i] = len(model)
	}
	c.Sample(map[string]any{"check": "bufprim", "ops": len(prog), "bytes": len(model)})
	// ---- writers
	type wmk struct {
		name string
		mk   func() (buffer.Writer, func() []byte)
	}
	var wmks []wmk
	for _, size := range []int{8, 9, 15, 16, 17, 33, 64, 4096} {
		sz := size
		wmks = append(wmks, wmk{fmt.Sprintf("bufio.Writer%d", sz), func() (buffer.Writer, func() []byte) {
			var b bytes.Buffer
			return bufio.NewWriterSize(&b, sz), func() []byte { return b.Bytes() }
		}})
	}
	wmks = append(wmks, wmk{"buffer.Buffer(exact)", func() (buffer.Writer, func() []byte) {
		b := buffer.NewBufferSize(len(model))
		return b, func() []byte { return b.Bytes() }
	}}, wmk{"buffer.Buffer(larger)", func() (buffer.Writer, func() []byte) {
		b := buffer.NewBufferSize(len(model) + 13)
		return b, func() []byte { return b.Bytes()[:len(model)] }
	}})
	for _, wm := range wmks {
		w, get := wm.mk()
		c.Distinct(fmt.Sprintf("bufprim/%d/write/%s", idx, wm.name), true)
		good := true
		for i, o := range prog {
			var n int64
			sig := "C08|buffer." + o.fn
			err, ok := try(c, sig, func() (err error) { n, err = o.write(w); return })
			if !ok {
				return
			}
			if err != nil {
				c.Violate(sig+"|error", fmt.Sprintf("%s, op %d of %d (%d words): %v", wm.name, i, len(prog), len(o.u), err), nil)
				good = false
				break
			}
			if !c.Check(n == int64(len(o.bytes())), sig+"|returned-n-wrong", func() string {
				return fmt.Sprintf("%s, op %d (%d words of %d bytes): n=%d", wm.name, i, len(o.u), o.w, n)
			}) {
				good = false
				break
			}
		}
		if !good {
			continue
		}
		if err := w.Flush(); err != nil {
			c.Violate("C08|buffer.Writer.Flush|error", fmt.Sprintf("%s: %v", wm.name, err), nil)
			continue
		}
		got := get()
		c.Check(bytes.Equal(got, model), "C08|buffer.Write*|bytes-differ-from-little-endian-model", func() string {
			fd := firstDiff(got, model)
			op := 0
			for op < len(ends)-1 && ends[op] <= fd {
				op++
			}
			return fmt.Sprintf("%s: %d bytes, model %d, first difference at byte %d (op %d: %s)", wm.name, len(got), len(model), fd, op, prog[op].fn)
		})
		c.Count("bufprim_write_programs", 1)
	}
	// ---- readers
	ws := append(append([]byte{}, model...), sentinel...)
	type rmk struct {
		name string
		mk   func(data []byte) buffer.Reader
	}
	rmks := []rmk{{"buffer.Buffer", func(d []byte) buffer.Reader { return buffer.NewBuffer(append([]byte{}, d...)) }}}
	for _, size := range []int{16, 17, 31, 64, 4096} {
		sz := size
		rmks = append(rmks,
			rmk{fmt.Sprintf("bufio.Reader%d", sz), func(d []byte) buffer.Reader { return bufio.NewReaderSize(bytes.NewReader(d), sz) }},
			rmk{fmt.Sprintf("bufio.Reader%d(OneByteReader)", sz), func(d []byte) buffer.Reader {
				return bufio.NewReaderSize(oneByteReader{bytes.NewReader(d)}, sz)
			}},
			rmk{fmt.Sprintf("bufio.Reader%d(ChunkReader)", sz), func(d []byte) buffer.Reader {
				return bufio.NewReaderSize(chunkReader{bytes.NewReader(d), rnd.Sub("chunk", sz), 11}, sz)
			}},
		)
	}
	for _, rm := range rmks {
		r := rm.mk(ws)
		c.Distinct(fmt.Sprintf("bufprim/%d/read/%s", idx, rm.name), true)
		good := true
		for i, o := range prog {
			var n int64
			var eq bool
			sig := "C08|buffer." + o.readName()
			err, ok := try(c, sig, func() (err error) { n, eq, err = o.read(r); return })
			if !ok {
				return
			}
			if err != nil {
				c.Violate(sig+"|error-on-complete-stream", fmt.Sprintf("%s, op %d of %d (%d words): %v", rm.name, i, len(prog), len(o.u), err), nil)
				good = false
				break
			}
			ok1 := c.Check(eq, sig+"|value-differs", func() string { return fmt.Sprintf("%s, op %d (%d words of %d bytes)", rm.name, i, len(o.u), o.w) })
			ok2 := c.Check(n == int64(len(o.bytes())), sig+"|returned-n-wrong", func() string {
				return fmt.Sprintf("%s, op %d (%d words of %d bytes): n=%d", rm.name, i, len(o.u), o.w, n)
			})
			if !ok1 || !ok2 {
				good = false
				break
			}
		}
		if good {
			rest, _ := io.ReadAll(r)
			c.Check(bytes.Equal(rest, sentinel), "C08|buffer.Read*|stream-position-wrong", func() string {
				return fmt.Sprintf("%s: %d bytes remain after the program (want the %d sentinel bytes)", rm.name, len(rest), len(sentinel))
			})
			c.Count("bufprim_read_programs", 1)
		}
	}
	// ---- streams that end early: every op that lies entirely before the cut succeeds, the op that crosses it errs
	var cuts []int
	if len(model) <= 1500 || tier == "thorough" && len(model) <= 6000 {
		for i := 0; i < len(model); i++ {
			cuts = append(cuts, i)
		}
		c.Count("exhaustive_subspaces", 1)
	} else {
		for i := 0; i < 250; i++ {
			cuts = append(cuts, rnd.N(len(model)))
		}
		for _, e := range ends {
			for d := -9; d <= 1; d++ {
				if e+d >= 0 && e+d < len(model) {
					cuts = append(cuts, e+d)
				}
			}
		}
	}
	for _, cut := range cuts {
		for _, rm := range rmks[:3] { // buffer.Buffer, bufio.Reader16, bufio.Reader16(OneByteReader)
			r := rm.mk(model[:cut])
			for i, o := range prog {
				if len(o.bytes()) == 0 {
					continue // nothing to read: may be judged either way at the very end of a stream
				}
				var n int64
				var eq bool
				sig := "C08|buffer." + o.readName()
				err, ok := try(c, sig+"|truncated", func() (err error) { n, eq, err = o.read(r); return })
				c.Eval(1)
				if !ok {
					return
				}
				if ends[i] <= cut {
					if err != nil || !eq {
						c.Violate(sig+"|truncated|op-before-the-cut-fails", fmt.Sprintf("%s: stream cut at %d of %d, op %d ends at %d: err=%v equal=%v n=%d", rm.name, cut, len(model), i, ends[i], err, eq, n), nil)
						break
					}
					continue
				}
				if err == nil {
					c.Violate(sig+"|truncated|accepted-without-error", fmt.Sprintf("%s: stream cut at %d of %d, op %d (%d words of %d bytes) spans [%d,%d): no error, n=%d", rm.name, cut, len(model), i, len(o.u), o.w, ends[i]-len(o.bytes()), ends[i], n), nil)
				}
				break
			}
		}
	}
	// ---- writers that fail
	var lims []int
	for i := 0; i < 120; i++ {
		lims = append(lims, rnd.N(len(model)))
	}
	lims = append(lims, 0, 1, 7, 8, len(model)-1, len(model)-8)
	for _, lim := range lims {
		if lim < 0 || lim >= len(model) {
			continue
		}
		// (a) the fixed-size Buffer: ops that fit succeed, the op that does not fit errs
		b := buffer.NewBufferSize(lim)
		for i, o := range prog {
			if len(o.bytes()) == 0 {
				continue
			}
			var n int64
			sig := "C08|buffer." + o.fn + "|buffer.Buffer(too-small)"
			err, ok := try(c, sig, func() (err error) { n, err = o.write(b); return })
			c.Eval(1)
			if !ok {
				return
			}
			if ends[i] <= lim {
				if err != nil {
					c.Violate(sig+"|op-that-fits-fails", fmt.Sprintf("buffer of %d bytes, op %d ends at %d: %v", lim, i, ends[i], err), nil)
					break
				}
				continue
			}
			if err == nil {
				c.Violate(sig+"|no-error", fmt.Sprintf("buffer of %d bytes, op %d (%d words of %d bytes) spans [%d,%d): no error, n=%d", lim, i, len(o.u), o.w, ends[i]-len(o.bytes()), ends[i], n), nil)
			}
			break
		}
		// (b) a bufio.Writer over a writer that fails after lim bytes: an error surfaces at the latest at Flush
		for _, size := range []int{16, 64} {
			bw := bufio.NewWriterSize(&failingWriter{limit: lim}, size)
			var seen error
			for _, o := range prog {
				var err error
				if _, ok := try(c, "C08|buffer."+o.fn+"|failing-writer", func() (e error) { _, err = o.write(bw); return }); !ok {
					return
				}
				if err != nil {
					seen = err
					break
				}
			}
			if seen == nil {
				seen = bw.Flush()
			}
			c.Eval(1)
			if seen == nil {
				c.Violate("C08|buffer.Write*|failing-writer|no-error", fmt.Sprintf("bufio.Writer%d over a writer that fails after %d of %d bytes: no error from any op nor from Flush", size, lim, len(model)), nil)
			}
		}
	}
}

// runBufferModel drives buffer.Buffer and a plain model of its documented behaviour with the same random calls.
func runBufferModel(c *eng.Ctx, idx int) {
	rnd := c.Rand()
	size := eng.Pick(rnd, 0, 1, 8, 17, 64, 300)
	b := buffer.NewBufferSize(size)
	mbuf := make([]byte, size)
	mn, moff := 0, 0
	c.Distinct(fmt.Sprintf("bufmodel/%d/%d", idx, size), true)
	for st := 0; st < 400; st++ {
		switch rnd.N(8) {
		case 0, 1: // Write
			p := make([]byte, eng.Pick(rnd, 0, 1, 3, 8, 20, 70))
			rnd.Read(p)
			n, err := b.Write(p)
			if mn+len(p) > size {
				c.Check(err != nil && n == 0, "C08|buffer.Buffer.Write|beyond-capacity-not-refused", func() string {
					return fmt.Sprintf("capacity %d, %d written, Write of %d bytes: n=%d err=%v", size, mn, len(p), n, err)
				})
			} else {
				copy(mbuf[mn:], p)
				mn += len(p)
				c.Check(err == nil && n == len(p), "C08|buffer.Buffer.Write|wrong-result", func() string { return fmt.Sprintf("n=%d err=%v want %d", n, err, len(p)) })
			}
		case 2: // Read
			p := make([]byte, eng.Pick(rnd, 0, 1, 5, 16, 40))
			n, err := b.Read(p)
			want := min(len(p), size-moff)
			c.Check(n == want && bytes.Equal(p[:n], mbuf[moff:moff+want]) && (err != nil) == (want < len(p)), "C08|buffer.Buffer.Read|wrong-result", func() string {
				return fmt.Sprintf("size %d offset %d len(p)=%d: n=%d err=%v", size, moff, len(p), n, err)
			})
			moff += want
		case 3: // Peek
			k := eng.Pick(rnd, 0, 1, 2, 8, 9, 33)
			p, err := b.Peek(k)
			if moff+k > size {
				c.Check(err != nil && bytes.Equal(p, mbuf[moff:]), "C08|buffer.Buffer.Peek|wrong-result-beyond-end", func() string {
					return fmt.Sprintf("size %d offset %d Peek(%d): %d bytes err=%v", size, moff, k, len(p), err)
				})
			} else {
				c.Check(err == nil && bytes.Equal(p, mbuf[moff:moff+k]), "C08|buffer.Buffer.Peek|wrong-result", func() string {
					return fmt.Sprintf("size %d offset %d Peek(%d): %d bytes err=%v", size, moff, k, len(p), err)
				})
			}
		case 4: // Discard
			k := eng.Pick(rnd, 0, 1, 4, 8, 50)
			n, err := b.Discard(k)
			want := min(k, size-moff)
			c.Check(n == want && (err != nil) == (want < k), "C08|buffer.Buffer.Discard|wrong-result", func() string {
				return fmt.Sprintf("size %d offset %d Discard(%d): n=%d err=%v", size, moff, k, n, err)
			})
			moff += want
		case 5:
			c.Check(b.Size() == size-moff && b.Available() == size-mn && cap(b.AvailableBuffer()) >= b.Available() && len(b.AvailableBuffer()) == 0, "C08|buffer.Buffer.Size/Available|wrong-result", func() string {
				return fmt.Sprintf("Size=%d want %d, Available=%d want %d", b.Size(), size-moff, b.Available(), size-mn)
			})
		case 6:
			c.Check(bytes.Equal(b.Bytes(), mbuf) && b.Flush() == nil, "C08|buffer.Buffer.Bytes|differs-from-what-was-written", func() string { return fmt.Sprintf("size %d", size) })
		default:
			if rnd.N(4) == 0 {
				b.Reset()
				mn, moff = 0, 0
			}
		}
	}
}
