package c08

// Objects that only offer MarshalBinary / UnmarshalBinary (JSON underneath): scheme parameters, rings, scales and
// the circuit literals. Round trip into a fresh and into a used receiver, re-encoding equality, and clean failure
// on truncated input.

import (
	"bytes"
	"encoding"
	"encoding/json"
	"fmt"
	"math/big"
	"reflect"

	"github.com/tuneinsight/lattigo/v6/circuits/ckks/dft"
	"github.com/tuneinsight/lattigo/v6/circuits/ckks/mod1"
	"github.com/tuneinsight/lattigo/v6/core/rlwe"
	"github.com/tuneinsight/lattigo/v6/ring"
	"github.com/tuneinsight/lattigo/v6/schemes/bgv"
	"github.com/tuneinsight/lattigo/v6/schemes/ckks"

	"verif/harness/eng"
)

type mo interface {
	encoding.BinaryMarshaler
	encoding.BinaryUnmarshaler
}

type moEntry struct {
	Name     string
	Variants int
	Make     func(r *eng.Rand, v int) (mo, error)
	// Eq compares two values semantically (beyond re-encoding equality); nil = reflect.DeepEqual
	Eq func(a, b mo) bool
	// Class names a value class with a triaged defect of its own (as in the zoo)
	Class func(variant int) string
	// ID is the case id suffix when it differs from Name (several entry-point pairs of one type)
	ID string
	// Mar / Unmar name the entry-point pair in signatures (default MarshalBinary / UnmarshalBinary)
	Mar, Unmar string
	// Leak: as in the zoo, a triaged receiver-state defect exposed by reading variant v into a receiver that
	// held variant w
	Leak func(v, w int) string
	// MaxMutants bounds the number of field corruptions tried per variant in the quick tier (0 = all)
	MaxMutants int
}

func (e moEntry) id() string {
	if e.ID != "" {
		return e.ID
	}
	return e.Name
}

func (e moEntry) mar() string {
	if e.Mar != "" {
		return e.Mar
	}
	return "MarshalBinary"
}

func (e moEntry) unmar() string {
	if e.Unmar != "" {
		return e.Unmar
	}
	return "UnmarshalBinary"
}

func bigScale(bits uint, mant float64, exp int) *big.Float {
	return new(big.Float).SetPrec(bits).SetMantExp(new(big.Float).SetPrec(bits).SetFloat64(mant), exp)
}

var moEntries = []moEntry{
	{Name: "bgv.Parameters", Variants: 3, MaxMutants: 60, Make: func(r *eng.Rand, v int) (mo, error) {
		lits := []bgv.ParametersLiteral{
			{LogN: 6, LogQ: []int{40, 30}, LogP: []int{41}, PlaintextModulus: 65537},
			{LogN: 5, LogQ: []int{50}, PlaintextModulus: 257},
			{LogN: 7, LogQ: []int{45, 45, 45}, LogP: []int{50, 50}, PlaintextModulus: 786433, Xs: ring.Ternary{H: 16}, Xe: ring.DiscreteGaussian{Sigma: 4, Bound: 20}},
		}
		p, err := bgv.NewParametersFromLiteral(lits[v])
		return &p, err
	}, Eq: func(a, b mo) bool { return a.(*bgv.Parameters).Equal(b.(*bgv.Parameters)) }},
	{Name: "ckks.Parameters", Variants: 3, MaxMutants: 60, Make: func(r *eng.Rand, v int) (mo, error) {
		lits := []ckks.ParametersLiteral{
			{LogN: 6, LogQ: []int{50, 40}, LogP: []int{51}, LogDefaultScale: 40},
			{LogN: 5, LogQ: []int{55, 45, 45}, LogDefaultScale: 90, RingType: ring.ConjugateInvariant},
			{LogN: 7, LogQ: []int{45, 35}, LogP: []int{46, 46}, LogDefaultScale: 35, Xs: ring.Ternary{P: 0.25}},
		}
		p, err := ckks.NewParametersFromLiteral(lits[v])
		return &p, err
	}, Eq: func(a, b mo) bool { return a.(*ckks.Parameters).Equal(b.(*ckks.Parameters)) }},
	{Name: "ring.Ring", Variants: 2, Make: func(r *eng.Rand, v int) (mo, error) {
		p, err := rlwe.NewParametersFromLiteral(rlwe.ParametersLiteral{LogN: 5 + v, LogQ: []int{40, 30, 35}, RingType: ring.Type(v)})
		if err != nil {
			return nil, err
		}
		return p.RingQ(), nil
	}, Eq: func(a, b mo) bool {
		x, y := a.(*ring.Ring), b.(*ring.Ring)
		return x.N() == y.N() && x.NthRoot() == y.NthRoot() && reflect.DeepEqual(x.ModuliChain(), y.ModuliChain()) && x.Type() == y.Type()
	}},
	{Name: "rlwe.Scale", Variants: 5, Make: func(r *eng.Rand, v int) (mo, error) {
		var s rlwe.Scale
		switch v {
		case 0:
			s = rlwe.NewScale(1 << 40)
		case 1:
			s = rlwe.NewScaleModT(uint64(3+r.N(60000)), 65537)
		case 2:
			s = rlwe.NewScale(1.5)
		case 3:
			f := new(big.Float).SetPrec(128).SetInt(new(big.Int).Lsh(big.NewInt(1), 90))
			f.Quo(f, new(big.Float).SetPrec(128).SetUint64(1152921504606846883+uint64(r.N(1000))*2))
			s = rlwe.NewScale(f)
		default:
			s = rlwe.NewScale(bigScale(128, 1.25, 90))
		}
		return &s, nil
	}, Eq: func(a, b mo) bool {
		x, y := a.(*rlwe.Scale), b.(*rlwe.Scale)
		if x.Cmp(*y) != 0 {
			return false
		}
		return (x.Mod == nil) == (y.Mod == nil) && (x.Mod == nil || x.Mod.Cmp(y.Mod) == 0)
	}},
	{Name: "dft.MatrixLiteral", Variants: 4, Make: func(r *eng.Rand, v int) (mo, error) {
		l := &dft.MatrixLiteral{Type: dft.HomomorphicEncode, LogSlots: 7, LevelQ: 12, LevelP: 1, Levels: []int{1, 1, 1}}
		switch v {
		case 1:
			l = &dft.MatrixLiteral{Type: dft.HomomorphicDecode, LogSlots: 3, LevelQ: 4, LevelP: 0, Levels: []int{2, 1}, Format: dft.RepackImagAsReal, BitReversed: true, LogBSGSRatio: 2}
		case 2:
			l.Scaling = big.NewFloat(0.0078125)
		case 3:
			// a scaling factor that needs more than 64 bits of mantissa (1/(2^k * q) products are such)
			l.Scaling = new(big.Float).Quo(bigScale(128, 1, 0), new(big.Float).SetPrec(128).SetUint64(1152921504606846883))
		}
		return l, nil
	}, Eq: func(a, b mo) bool {
		x, y := a.(*dft.MatrixLiteral), b.(*dft.MatrixLiteral)
		if (x.Scaling == nil) != (y.Scaling == nil) || (x.Scaling != nil && x.Scaling.Cmp(y.Scaling) != 0) {
			return false
		}
		xx, yy := *x, *y
		xx.Scaling, yy.Scaling = nil, nil
		return reflect.DeepEqual(xx, yy)
	}, Class: func(v int) string {
		if v == 3 {
			return "scaling-above-64-bit-mantissa"
		}
		return ""
	}},
	{Name: "mod1.ParametersLiteral", Variants: 3, Make: func(r *eng.Rand, v int) (mo, error) {
		lits := []mod1.ParametersLiteral{
			{LevelQ: 12, Mod1Type: mod1.SinContinuous, LogMessageRatio: 8, K: 14, Mod1Degree: 127, Mod1InvDegree: 7, LogScale: 60},
			{LevelQ: 9, Mod1Type: mod1.CosDiscrete, LogMessageRatio: 4, K: 16, Mod1Degree: 30, DoubleAngle: 3, LogScale: 55, Scaling: 0.3333333333333333},
			{LevelQ: 3, Mod1Type: mod1.CosContinuous, LogMessageRatio: 8, K: 325, Mod1Degree: 177, DoubleAngle: 4, LogScale: 60, Scaling: 1e-9},
		}
		l := lits[v]
		return &l, nil
	}},
}

func moFresh(v mo) mo { return reflect.New(reflect.TypeOf(v).Elem()).Interface().(mo) }

func runMarshalOnly(c *eng.Ctx, e moEntry, tier string) {
	rnd := c.Rand()
	T := e.Name
	eq := e.Eq
	if eq == nil {
		eq = func(a, b mo) bool { return reflect.DeepEqual(a, b) }
	}
	var objs []mo
	for v := 0; v < e.Variants; v++ {
		o, err := e.Make(rnd.Sub("mk", v), v)
		if err != nil || o == nil {
			c.Inconclusive(fmt.Sprintf("%s variant %d cannot be built: %v", T, v, err))
			continue
		}
		objs = append(objs, o)
	}
	for v, o := range objs {
		sig := "C08|" + T + "." + e.mar()
		var data []byte
		var err error
		if !c.Try(sig, func() { data, err = o.MarshalBinary() }) {
			continue
		}
		if err != nil {
			c.Violate(sig+"|error", fmt.Sprintf("variant %d: %v", v, err), nil)
			continue
		}
		c.Distinct(fmt.Sprintf("marshalonly/%s/%d", e.id(), v), true)
		// receivers: fresh, and one that already holds every other variant
		rcvs := []mo{moFresh(o)}
		names := []string{"fresh"}
		held := []int{-1}
		for w, other := range objs {
			if w == v {
				continue
			}
			d2, e2 := other.MarshalBinary()
			r := moFresh(o)
			if e2 == nil && r.UnmarshalBinary(d2) == nil {
				rcvs = append(rcvs, r)
				names = append(names, fmt.Sprintf("held-variant-%d", w))
				held = append(held, w)
			}
		}
		for i, r := range rcvs {
			usig := "C08|" + T + "." + e.unmar() + "|" + map[bool]string{true: "fresh-receiver", false: "dirty-receiver"}[i == 0]
			if e.Class != nil && e.Class(v) != "" {
				usig = "C08|" + T + "|" + e.Class(v)
			}
			if e.Leak != nil && held[i] >= 0 && e.Leak(v, held[i]) != "" && (e.Class == nil || e.Class(v) == "") {
				usig = "C08|" + T + "." + e.unmar() + "|" + e.Leak(v, held[i])
				c.Count("optional_field_absent_into_receiver_holding_it", 1)
			}
			var uerr error
			if !c.Try(usig, func() { uerr = r.UnmarshalBinary(append([]byte(nil), data...)) }) {
				continue
			}
			c.Eval(1)
			if uerr != nil {
				c.Violate(usig+"|error-on-valid-encoding", fmt.Sprintf("variant %d receiver %s: %v", v, names[i], uerr), nil)
				continue
			}
			again, aerr := r.MarshalBinary()
			c.Check(aerr == nil && bytes.Equal(again, data), usig+"|re-encoding-differs", func() string {
				return fmt.Sprintf("variant %d receiver %s: %d bytes -> %d bytes, first difference at %d (%v)", v, names[i], len(data), len(again), firstDiff(again, data), aerr)
			})
			c.Check(eq(o, r), usig+"|value-differs", func() string {
				return fmt.Sprintf("variant %d receiver %s: decoded %+v, original %+v", v, names[i], r, o)
			})
		}
		// the encoding/json entry points of the type, when it has them
		if jm, isJ := o.(json.Marshaler); isJ && (e.Class == nil || e.Class(v) == "") {
			jsig := "C08|" + T + ".UnmarshalJSON|fresh-receiver"
			var jb []byte
			var jerr error
			if c.Try("C08|"+T+".MarshalJSON", func() { jb, jerr = jm.MarshalJSON() }) && jerr == nil {
				jr := moFresh(o)
				if c.Try(jsig, func() { jerr = json.Unmarshal(jb, jr) }) {
					c.Eval(1)
					if jerr != nil {
						c.Violate(jsig+"|error-on-valid-encoding", fmt.Sprintf("variant %d: %v", v, jerr), nil)
					} else {
						again, aerr := json.Marshal(jr)
						c.Check(aerr == nil && bytes.Equal(again, jb) && eq(o, jr), jsig+"|value-differs", func() string {
							return fmt.Sprintf("variant %d: json.Marshal -> json.Unmarshal -> json.Marshal: %d bytes -> %d bytes, first difference at %d (%v)", v, len(jb), len(again), firstDiff(again, jb), aerr)
						})
						c.Count("json_entry_point_round_trips", 1)
					}
				}
			}
		}
		// truncations must give errors, not panics and not silently accepted objects equal to nothing: every
		// prefix (the encodings are small), into fresh receivers and, for a few, into a receiver holding a value
		var cuts []int
		if len(data) <= 8192 {
			for i := 0; i < len(data); i++ {
				cuts = append(cuts, i)
			}
			c.Count("exhaustive_subspaces", 1)
		} else {
			cuts = []int{0, 1, len(data) / 2, len(data) - 1}
			for i := 0; i < 2000; i++ {
				cuts = append(cuts, rnd.N(len(data)))
			}
		}
		for _, cut := range cuts {
			if cut < 0 || cut >= len(data) {
				continue
			}
			r := moFresh(o)
			if cut == len(data)/3 || cut == len(data)-1 || cut == 1 {
				r.UnmarshalBinary(append([]byte(nil), data...)) // a receiver that holds a value
			}
			var terr error
			tsig := "C08|" + T + "." + e.unmar() + "|truncated"
			if !c.Try(tsig, func() { terr = r.UnmarshalBinary(append([]byte(nil), data[:cut]...)) }) {
				continue
			}
			c.Check(terr != nil, tsig+"|accepted", func() string {
				return fmt.Sprintf("variant %d: %d of %d bytes accepted without error", v, cut, len(data))
			})
		}
		if e.Class != nil && e.Class(v) != "" {
			continue
		}
		// damaged fields: every leaf of the JSON encoding replaced by hostile values -> an error, or an object that
		// re-encodes consistently; never a panic
		muts, whats, classes := jsonMutants(data)
		limit := e.MaxMutants
		if tier == "thorough" {
			limit *= 8
		}
		if limit > 0 && len(muts) > limit {
			perm := rnd.Sub("mut", v).Perm(len(muts))[:limit]
			m2, w2, c2 := make([][]byte, limit), make([]string, limit), make([]string, limit)
			for i, k := range perm {
				m2[i], w2[i], c2[i] = muts[k], whats[k], classes[k]
			}
			muts, whats, classes = m2, w2, c2
		} else if len(muts) > 0 {
			c.Count("exhaustive_subspaces", 1)
		}
		for k, mut := range muts {
			if classes[k] == "Bound:=zero-or-empty" || classes[k] == "Sigma:=zero-or-empty" {
				// triaged value class (a Gaussian with a zero field cannot be read back), judged once, through
				// the plain round trip of the variants that carry it
				continue
			}
			csig := "C08|" + T + "." + e.unmar() + "|corrupted|" + classes[k]
			r := moFresh(o)
			var cerr error
			c.Eval(1)
			if !c.Try(csig, func() { cerr = r.UnmarshalBinary(mut) }) {
				continue
			}
			if cerr != nil {
				c.Count("corruptions_rejected", 1)
				continue
			}
			var b1 []byte
			var merr error
			if !c.Try(csig+"|accepted-object-marshal", func() { b1, merr = r.MarshalBinary() }) || merr != nil {
				continue
			}
			r2 := moFresh(o)
			var rerr error
			if !c.Try(csig+"|accepted-object-reread", func() { rerr = r2.UnmarshalBinary(append([]byte(nil), b1...)) }) {
				continue
			}
			if rerr != nil {
				c.Violate(csig+"|accepted-object-not-rereadable", fmt.Sprintf("variant %d, %s: %v", v, whats[k], rerr), nil)
				continue
			}
			b2, _ := r2.MarshalBinary()
			c.Check(bytes.Equal(b1, b2), csig+"|accepted-object-inconsistent", func() string { return fmt.Sprintf("variant %d, %s", v, whats[k]) })
			c.Count("corruptions_accepted_consistent", 1)
		}
	}
}
