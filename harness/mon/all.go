// Package mon links every monitor into the worker.
package mon

import (
	_ "verif/harness/mon/c01"
)
