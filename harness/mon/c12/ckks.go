package c12

import (
	"fmt"
	"math"
	"math/big"
	"math/cmplx"

	cklt "github.com/tuneinsight/lattigo/v6/circuits/ckks/lintrans"
	comlt "github.com/tuneinsight/lattigo/v6/circuits/common/lintrans"
	"github.com/tuneinsight/lattigo/v6/core/rlwe"
	"github.com/tuneinsight/lattigo/v6/ring"
	"github.com/tuneinsight/lattigo/v6/schemes"
	"github.com/tuneinsight/lattigo/v6/schemes/ckks"
	"github.com/tuneinsight/lattigo/v6/utils/bignum"

	"verif/harness/eng"
)

type ckksCtx struct {
	c      *eng.Ctx
	cfg    paramCfg
	params ckks.Parameters
	ci     bool
	kgen   *rlwe.KeyGenerator
	sk     *rlwe.SecretKey
	pk     *rlwe.PublicKey
	ecd    *ckks.Encoder
	dec    *rlwe.Decryptor
	x      *xstate // extended cases only
}

type ckMat struct {
	diag map[int][]complex128
	perm []cklt.PermutationMapping[complex128]
	isP  bool
}

// apply: out[i] = sum_d diag_d[i] * v[(i+d) mod n]; also returns sum_d |diag_d[i]| * |v| (for the
// floating-point floor) maximised over i and the largest |diag| entry.
func (m ckMat) apply(v []complex128) (out []complex128, absSum float64, dmax float64) {
	n := len(v)
	out = make([]complex128, n)
	abs := make([]float64, n)
	if m.isP {
		for _, pm := range m.perm {
			out[pm.To] = pm.Scaling * v[pm.From]
			abs[pm.To] = cmplx.Abs(pm.Scaling) * cmplx.Abs(v[pm.From])
			if a := cmplx.Abs(pm.Scaling); a > dmax {
				dmax = a
			}
		}
	} else {
		for d, dv := range m.diag {
			for i := 0; i < n; i++ {
				x := dv[i]
				if x == 0 {
					continue
				}
				w := v[(i+d)%n]
				out[i] += x * w
				a := cmplx.Abs(x)
				abs[i] += a * cmplx.Abs(w)
				if a > dmax {
					dmax = a
				}
			}
		}
	}
	for _, a := range abs {
		if a > absSum {
			absSum = a
		}
	}
	return
}

func maxAbs(v []complex128) float64 {
	m := 0.0
	for _, x := range v {
		if a := cmplx.Abs(x); a > m {
			m = a
		}
	}
	return m
}

func (k *ckksCtx) values(r *eng.Rand, n int, kind string) []complex128 {
	v := make([]complex128, n)
	f := func() float64 { return 2*r.F64() - 1 }
	for i := range v {
		var x complex128
		switch kind {
		case "ones":
			x = 1
		case "halfzero":
			if i < n/2 {
				x = complex(f(), f())
			}
		case "extreme":
			x = eng.Pick(r, complex(1, 0), complex(-1, 0), complex(0, 1), complex(0, 0), complex(1, -1), complex(f(), f()))
		case "rowdiff":
			if i%2 == 0 {
				x = complex(f(), f())
			}
		default:
			x = complex(f(), f())
		}
		if k.ci {
			x = complex(real(x), 0)
		}
		v[i] = x
	}
	return v
}

func runCKKS(c *eng.Ctx, cfg paramCfg) {
	rt := ring.Standard
	if cfg.Ring == "ci" {
		rt = ring.ConjugateInvariant
	}
	lit := ckks.ParametersLiteral{LogN: cfg.LogN, Q: cfg.Q, P: cfg.P, RingType: rt, LogDefaultScale: cfg.LogSc}
	if cfg.X != nil {
		lit.Xs, lit.Xe = cfg.X.dists(1 << cfg.LogN)
	}
	params, err := ckks.NewParametersFromLiteral(lit)
	if err != nil {
		c.Violate("C12|ckks.NewParametersFromLiteral|error-on-admissible", err.Error(), cfg)
		return
	}
	k := &ckksCtx{c: c, cfg: cfg, params: params, ci: cfg.Ring == "ci"}
	if cfg.X != nil {
		k.x = &xstate{cfg: cfg.X}
	}
	k.kgen = rlwe.NewKeyGenerator(params)
	k.sk, k.pk = k.kgen.GenKeyPairNew()
	k.ecd = ckks.NewEncoder(params)
	k.dec = rlwe.NewDecryptor(params, k.sk)
	rnd := c.Rand()
	for pi := 0; pi < cfg.NProg; pi++ {
		k.program(rnd.Sub("prog", pi), pi)
	}
	if k.x != nil && cfg.X.Refusal {
		k.refusals(rnd.Sub("refusals"))
	}
}

// ckksScale draws a scale of about 2^lg: a power of two, a non-dyadic float or a prime of the chain.
func ckksScale(r *eng.Rand, lg int) (rlwe.Scale, float64) {
	f := math.Exp2(float64(lg))
	switch r.N(3) {
	case 0:
	case 1:
		f *= 1 + r.F64()*0.9
	case 2:
		f = math.Floor(f*(1+r.F64()*0.9)) + 1
	}
	return rlwe.NewScale(f), f
}

// stepBudget returns the slot-domain error bound after one transformation.
//
//	errIn: bound on |v_model - v_true| before the step, vmax: bound on |v_true|.
func (k *ckksCtx) stepBudget(lt planLT, n1, cols int, decompLevel, levelP int, sIn, sLT float64, errIn, vmax, dmax, absSum float64) float64 {
	rp := k.params.GetRLWEParameters()
	N := float64(k.params.N())
	emb := N
	if k.ci {
		emb = 2 * N
	}
	baby, giant, _ := rotCounts(lt.norm, cols, n1)
	D := float64(len(lt.norm))
	ks := ksBound(rp, decompLevel, levelP)
	md := float64(2+levelP) * (1 + N)
	noise := float64(baby)*emb*ks*(dmax*sLT+emb/2) + float64(giant)*emb*(ks+md) + emb*md
	noise /= sIn * sLT
	rounding := D * (emb / 2) * vmax / sLT
	prop := D * dmax * errIn
	fp := math.Exp2(-40) * (absSum + D*dmax*vmax)
	return prop + 4*(noise+rounding) + fp
}

func (k *ckksCtx) program(r *eng.Rand, pi int) {
	c := k.c
	params := k.params
	rp := params.GetRLWEParameters()
	maxLogCols := params.LogMaxDimensions().Cols
	logCols := eng.Pick(r, maxLogCols, maxLogCols, 1+r.N(maxLogCols), 1+r.N(maxLogCols), 1, 2)
	if logCols > maxLogCols {
		logCols = maxLogCols
	}
	cols := 1 << logCols
	p := samplePlan(r, pi, logCols, params.MaxLevel(), params.MaxLevelP(), params.N() >= 512, true, true)
	if k.x != nil {
		p = samplePlan(r.Sub("xplan"), pi, logCols, params.MaxLevel(), params.MaxLevelP(), params.N() >= 512, true, true, xModeTable...)
		k.x.tweak(&p, r.Sub("x"), params.MaxLevel(), true)
	}
	vtype := eng.Pick(r, "complex128", "complex128", "bignum", "float64")
	if vtype == "float64" && !k.ci {
		vtype = "complex128"
	}

	// plaintext matrices
	mats := make([]ckMat, len(p.lts))
	for i := range p.lts {
		lt := &p.lts[i]
		if lt.perm {
			to := r.Perm(cols)
			from := r.Perm(cols)
			m := cols
			if r.Bool() {
				m = 1 + r.N(cols)
			}
			var pm []cklt.PermutationMapping[complex128]
			for j := 0; j < m; j++ {
				s := complex(2*r.F64()-1, 2*r.F64()-1)
				if k.ci {
					s = complex(real(s), 0)
				}
				pm = append(pm, cklt.PermutationMapping[complex128]{From: from[j], To: to[j], Scaling: s})
			}
			mats[i] = ckMat{perm: pm, isP: true}
			continue
		}
		m := map[int][]complex128{}
		for _, d := range lt.norm {
			m[d] = k.values(r, cols, lt.val)
		}
		mats[i] = ckMat{diag: m}
	}
	// library diagonals
	libs := make([]map[int][]complex128, len(p.lts))
	for i := range p.lts {
		lt := &p.lts[i]
		if lt.perm {
			var d cklt.Diagonals[complex128]
			if !c.Try("C12|ckks/lintrans.Permutation.GetDiagonals", func() {
				d = cklt.Permutation[complex128](mats[i].perm).GetDiagonals(logCols)
			}) {
				return
			}
			libs[i] = d
			lt.lib = d.DiagonalsIndexList()
			seen := map[int]bool{}
			lt.norm = lt.norm[:0]
			for _, kk := range lt.lib {
				if !seen[norm(kk, cols)] {
					seen[norm(kk, cols)] = true
					lt.norm = append(lt.norm, norm(kk, cols))
				}
			}
			if lt.ratio < 0 && len(lt.norm) > 40 {
				lt.ratio = 1
			}
			continue
		}
		sm := map[int][]complex128{}
		for _, kk := range lt.lib {
			sm[kk] = append([]complex128(nil), mats[i].diag[norm(kk, cols)]...)
		}
		libs[i] = sm
	}

	// scales: drawn, then adapted until message room and budget are fine
	maxLevel := params.MaxLevel()
	lgCt := eng.Pick(r, k.cfg.LogSc, k.cfg.LogSc, 30+r.N(21))
	var lgLT []int
	for range p.lts {
		lgLT = append(lgLT, eng.Pick(r, -1, -1, 30+r.N(21), k.cfg.LogSc)) // -1: the prime consumed by the next rescale (stock test idiom)
	}

	if k.x != nil && maxLevel == 0 {
		// a single prime: the product of the two scales has to fit below it
		lgCt = 28
		for i := range lgLT {
			lgLT[i] = 22
		}
	}

	v := k.values(r, cols, eng.Pick(r, "uniform", "uniform", "extreme", "halfzero"))

	var (
		lts      []cklt.LinearTransformation
		n1s      []int
		lv       []int
		final    int
		ctScale  rlwe.Scale
		ltScales []rlwe.Scale
		ctF      float64
		ltF      []float64
		budget   float64
		feasible bool
	)
	rsub := r.Sub("scales")
	attempt := func(try int) bool {
		rr := rsub.Sub(try)
		var okl bool
		lv, final, okl = p.levelsOf(true, 1)
		if !okl {
			return false
		}
		lts = make([]cklt.LinearTransformation, len(p.lts))
		n1s = make([]int, len(p.lts))
		ltScales = make([]rlwe.Scale, len(p.lts))
		ltF = make([]float64, len(p.lts))
		ctScale, ctF = ckksScale(rr, lgCt)
		for i, lt := range p.lts {
			if lgLT[i] < 0 {
				q := params.Q()[lv[i]]
				ltScales[i], ltF[i] = rlwe.NewScale(q), float64(q)
			} else {
				ltScales[i], ltF[i] = ckksScale(rr, lgLT[i])
			}
			ltp := cklt.Parameters{
				DiagonalsIndexList:        append([]int(nil), lt.lib...),
				LevelQ:                    lt.levelQ,
				LevelP:                    p.levelP,
				Scale:                     ltScales[i],
				LogDimensions:             ring.Dimensions{Rows: 0, Cols: logCols},
				LogBabyStepGiantStepRatio: lt.ratio,
			}
			ii := i
			if !c.Try("C12|ckks/lintrans.NewTransformation", func() { lts[ii] = cklt.NewTransformation(params, ltp) }) {
				return false
			}
			n1s[i] = lts[i].N1
		}
		// budget / room trajectory on the intended input (|v| <= sqrt2) with the worst-case fresh error
		budget, feasible = k.trajectory(p, mats, n1s, lv, v, ctF, ltF, true)
		return feasible
	}
	ok := false
	for try := 0; try < 4 && !ok; try++ {
		ok = attempt(try)
		if !ok {
			switch try {
			case 0:
				// raise small scales
				if lgCt < 45 {
					lgCt = 45
				}
				for i := range lgLT {
					if lgLT[i] >= 0 && lgLT[i] < 40 {
						lgLT[i] = 40
					}
				}
			case 1:
				p.liftLevels(maxLevel)
				c.Count("programs_lifted_to_top_level", 1)
			case 2:
				lgCt = 45
				for i := range lgLT {
					lgLT[i] = 40
				}
			}
		}
	}
	if !ok {
		c.Count("programs_skipped_no_room", 1)
		return
	}
	_ = budget

	desc := progDesc{Scheme: "ckks", Ring: k.cfg.Ring, LogN: k.cfg.LogN, LogCols: logCols, Rows: 1, Mode: p.mode, CtLevel: p.ctLevel,
		CtScale: ctScale.Value.Text('g', 20), OutLevel: p.outLevel, LevelP: p.levelP, KeyLvlQ: p.keyLvlQ, EncPk: p.encPk, VType: vtype}
	if p.isNew() {
		desc.OutLevel = -1
	}
	desc.X = p.x
	for i, lt := range p.lts {
		desc.LTs = append(desc.LTs, ltDesc{Diags: lt.lib, Kind: lt.kind, Val: lt.val, Ratio: lt.ratio, LevelQ: lt.levelQ, Scale: ltScales[i].Value.Text('g', 20), Perm: lt.perm, GalFrom: lt.galFrom})
	}
	if pi == 0 {
		c.Sample(desc)
	}
	ent := entry("ckks", p.mode)
	if p.x != nil && p.x.Call == xCallDirect {
		ent = directEntry(n1s[0])
	}
	fail := func(class, detail string) {
		c.Violate(ent+"|"+class, detail+fmt.Sprintf("\nprogram=%+v", desc), desc)
	}

	// encode
	for i := range lts {
		var e error
		ii := i
		if p.x != nil && p.x.Decoy {
			// the transformation is a used receiver: another matrix with the same diagonals is encoded first
			rd := r.Sub("decoy", ii)
			var e0 error
			if !c.Try("C12|ckks/lintrans.Encode", func() {
				d := cklt.Diagonals[complex128]{}
				for kk := range libs[ii] {
					d[kk] = k.values(rd, cols, "uniform")
				}
				e0 = cklt.Encode(k.ecd, d, lts[ii])
			}) {
				return
			}
			if e0 != nil {
				c.Violate("C12|ckks/lintrans.Encode|error-on-admissible", fmt.Sprintf("%v\nprogram=%+v", e0, desc), desc)
				return
			}
		}
		if !c.Try("C12|ckks/lintrans.Encode", func() {
			switch vtype {
			case "bignum":
				d := cklt.Diagonals[*bignum.Complex]{}
				for kk, vals := range libs[ii] {
					w := make([]*bignum.Complex, len(vals))
					for j, x := range vals {
						if x == 0 && j%2 == 1 {
							continue // nil entries stand for zero (stock test idiom)
						}
						w[j] = &bignum.Complex{new(big.Float).SetFloat64(real(x)), new(big.Float).SetFloat64(imag(x))}
					}
					d[kk] = w
				}
				e = cklt.Encode(k.ecd, d, lts[ii])
			case "float64":
				d := cklt.Diagonals[float64]{}
				for kk, vals := range libs[ii] {
					w := make([]float64, len(vals))
					for j, x := range vals {
						w[j] = real(x)
					}
					d[kk] = w
				}
				e = cklt.Encode(k.ecd, d, lts[ii])
			default:
				e = cklt.Encode(k.ecd, cklt.Diagonals[complex128](libs[ii]), lts[ii])
			}
		}) {
			return
		}
		if e != nil {
			c.Violate("C12|ckks/lintrans.Encode|error-on-admissible", fmt.Sprintf("%v\nprogram=%+v", e, desc), desc)
			return
		}
	}

	// advertised Galois elements
	galSet := map[uint64]bool{}
	for i, lt := range p.lts {
		var ge []uint64
		ii := i
		if !c.Try("C12|lintrans.GaloisElements", func() {
			if lt.galFrom == "params" {
				if r.Bool() {
					ge = cklt.GaloisElements(params, cklt.Parameters{DiagonalsIndexList: append([]int(nil), lt.lib...), LogDimensions: ring.Dimensions{Cols: logCols}, LogBabyStepGiantStepRatio: lt.ratio})
				} else {
					ge = comlt.GaloisElements(params, append([]int(nil), lt.lib...), cols, lt.ratio)
				}
			} else {
				ge = lts[ii].GaloisElements(params)
			}
		}) {
			return
		}
		for _, g := range ge {
			galSet[g] = true
		}
	}
	galEls := make([]uint64, 0, len(galSet))
	for g := range galSet {
		galEls = append(galEls, g)
	}
	lq, lp := p.keyLvlQ, p.levelP
	gks := k.kgen.GenGaloisKeysNew(galEls, k.sk, rlwe.EvaluationKeyParameters{LevelQ: &lq, LevelP: &lp})
	evk := rlwe.NewMemEvaluationKeySet(nil, gks...)
	ev := ckks.NewEvaluator(params, evk)
	if p.x != nil {
		ev = k.x.evaluator(c, r.Sub("xev"), p.x, rp, ev,
			func() schemes.Evaluator { return ckks.NewEvaluator(params, nil) },
			func(e schemes.Evaluator) schemes.Evaluator { return e.(*ckks.Evaluator).WithKey(evk) },
			func(e schemes.Evaluator) schemes.Evaluator { return e.(*ckks.Evaluator).ShallowCopy() }).(*ckks.Evaluator)
	}
	lev := cklt.NewEvaluator(ev)
	if p.x != nil && p.x.Literal {
		lev = &cklt.Evaluator{Evaluator: comlt.Evaluator{Evaluator: ev}}
	}
	c.Count("galois_keys_generated", int64(len(galEls)))
	c.Max("max_galois_keys_per_program", int64(len(galEls)))

	// input
	pt := ckks.NewPlaintext(params, p.ctLevel)
	pt.Scale = ctScale
	pt.LogDimensions = ring.Dimensions{Rows: 0, Cols: logCols}
	if err := k.ecd.Encode(v, pt); err != nil {
		c.Inconclusive("encode input: " + err.Error())
		return
	}
	var enc *rlwe.Encryptor
	if p.encPk {
		enc = rlwe.NewEncryptor(params, k.pk)
	} else {
		enc = rlwe.NewEncryptor(params, k.sk)
	}
	ct, err := enc.EncryptNew(pt)
	if err != nil {
		c.Inconclusive("encrypt input: " + err.Error())
		return
	}
	// the model starts from the decryption of the input, so that the fresh noise is not budgeted
	vdec := make([]complex128, cols)
	if err := k.ecd.Decode(k.dec.DecryptNew(ct), vdec); err != nil {
		c.Inconclusive("decode input: " + err.Error())
		return
	}
	ctSnap := ct.CopyNew()
	moduli := params.Q()

	deg := 1
	if p.x != nil && p.x.RecvDeg2 {
		deg = 2
	}
	var extras, extraSnaps []*rlwe.Ciphertext
	call := func(ct *rlwe.Ciphertext) (outs []*rlwe.Ciphertext, cerr error) {
		switch p.mode {
		case mEval:
			o := ckks.NewCiphertext(params, deg, p.outLevel)
			dirtyQ(r, o, moduli)
			if p.x != nil && p.x.Call == xCallDirect {
				cerr = directCall(lev.Evaluator, ct, comlt.LinearTransformation(lts[0]), o, p.x.Junk)
			} else {
				cerr = lev.Evaluate(ct, lts[0], o)
			}
			outs = []*rlwe.Ciphertext{o}
		case mEvalIn:
			cerr = lev.Evaluate(ct, lts[0], ct)
			outs = []*rlwe.Ciphertext{ct}
		case mEvalNew:
			var o *rlwe.Ciphertext
			o, cerr = lev.EvaluateNew(ct, lts[0])
			outs = []*rlwe.Ciphertext{o}
		case mMany:
			outs = make([]*rlwe.Ciphertext, len(lts))
			for i := range outs {
				outs[i] = ckks.NewCiphertext(params, deg, p.outLevel)
				dirtyQ(r, outs[i], moduli)
			}
			if p.aliasLast {
				outs[len(outs)-1] = ct
			}
			if p.x != nil && p.x.Call == xCallExtraRecv {
				extras, extraSnaps = nil, nil
				for i := 0; i < 2; i++ {
					o := ckks.NewCiphertext(params, 1, p.outLevel)
					dirtyQ(r, o, moduli)
					extras = append(extras, o)
					extraSnaps = append(extraSnaps, o.CopyNew())
				}
				cerr = lev.EvaluateMany(ct, lts, append(append([]*rlwe.Ciphertext(nil), outs...), extras...))
			} else {
				cerr = lev.EvaluateMany(ct, lts, outs)
			}
		case mManyNew:
			outs, cerr = lev.EvaluateManyNew(ct, lts)
		case mSeq:
			o := ckks.NewCiphertext(params, deg, p.outLevel)
			dirtyQ(r, o, moduli)
			if p.x != nil && p.x.Call == xCallSeqInPl {
				o = ct
			}
			cerr = lev.EvaluateSequential(ct, lts, o)
			outs = []*rlwe.Ciphertext{o}
		case mSeqNew:
			var o *rlwe.Ciphertext
			o, cerr = lev.EvaluateSequentialNew(ct, lts)
			outs = []*rlwe.Ciphertext{o}
		}
		return
	}
	var outs []*rlwe.Ciphertext
	var cerr error
	trySig := ent
	if p.levelP > params.MaxLevel() {
		// triaged class of its own (see sigPAboveQ): computed from the program, never from the outcome
		trySig = sigPAboveQ
		c.Count("x_programs_levelP_above_max_levelQ", 1)
	}
	okc := c.Try(trySig, func() { outs, cerr = call(ct) })
	c.Count("programs_"+p.mode, 1)
	if p.x != nil {
		c.Distinct(p.key("ckks", k.cfg.Ring, k.cfg.LogN, n1s)+"|"+p.x.key(), p.nontrivial())
		xCoverage(c, p)
	} else {
		c.Distinct(p.key("ckks", k.cfg.Ring, k.cfg.LogN, n1s), p.nontrivial())
	}
	coverage(c, p, n1s, cols, rp)
	if logCols < maxLogCols {
		c.Count("programs_sparse_packing", 1)
	}
	if !okc {
		return
	}
	c.Eval(1)
	if cerr != nil {
		c.Count("errors_observed", 1)
		fail(errClass(cerr), cerr.Error())
		return
	}
	if p.mode != mEvalIn && !(p.x != nil && p.x.inputAliased()) && !ct.Equal(ctSnap) {
		fail("input-modified", "input ciphertext changed by the call")
	}
	if p.x != nil {
		xAfterCall(c, ent, p, outs, extras, extraSnaps, func() ([]*rlwe.Ciphertext, error) { return call(ctSnap.CopyNew()) }, fail)
	}

	// expectations from the decrypted input
	type expect struct {
		vals   []complex128
		scale  *big.Float
		level  int
		budget float64
	}
	var exps []expect
	prec := uint(256)
	bf := func(s rlwe.Scale) *big.Float { return new(big.Float).SetPrec(prec).Set(&s.Value) }
	if p.isSeq() {
		vals, bud := k.model(p, mats, n1s, lv, vdec, ctF, ltF)
		sc := bf(ctScale)
		for i := range p.lts {
			sc.Mul(sc, bf(ltScales[i]))
			sc.Quo(sc, new(big.Float).SetPrec(prec).SetUint64(params.Q()[lv[i]]))
		}
		exps = []expect{{vals[0], sc, final, bud[0]}}
	} else {
		vals, bud := k.model(p, mats, n1s, lv, vdec, ctF, ltF)
		for i := range p.lts {
			sc := bf(ctScale)
			sc.Mul(sc, bf(ltScales[i]))
			exps = append(exps, expect{vals[i], sc, lv[i], bud[i]})
		}
	}
	if len(outs) != len(exps) {
		fail("wrong-output-count", fmt.Sprintf("got %d outputs want %d", len(outs), len(exps)))
		return
	}
	for i, o := range outs {
		ex := exps[i]
		c.Eval(1)
		if o == nil || o.MetaData == nil {
			fail("nil-output", fmt.Sprintf("output %d", i))
			continue
		}
		if o.Level() != ex.level {
			fail("wrong-level", fmt.Sprintf("output %d: level %d, documented min(levels) = %d", i, o.Level(), ex.level))
		}
		// scale: exact up to 2^-100 relative
		got := new(big.Float).SetPrec(prec).Set(&o.Scale.Value)
		diff := new(big.Float).SetPrec(prec).Sub(got, ex.scale)
		diff.Abs(diff)
		tol := new(big.Float).SetPrec(prec).Mul(ex.scale, new(big.Float).SetMantExp(big.NewFloat(1), -100))
		scaleOK := diff.Cmp(tol) <= 0
		if !scaleOK {
			fail("wrong-scale", fmt.Sprintf("output %d: scale %s, documented %s", i, got.Text('g', 30), ex.scale.Text('g', 30)))
		}
		if o.LogDimensions != (ring.Dimensions{Rows: 0, Cols: logCols}) || !o.IsNTT || !o.IsBatched || o.IsMontgomery {
			fail("wrong-metadata", fmt.Sprintf("output %d: %+v", i, *o.MetaData))
		}
		gv := make([]complex128, cols)
		var derr error
		if !c.Try(ent+"|decode", func() { derr = k.ecd.Decode(k.dec.DecryptNew(o), gv) }) {
			continue
		}
		if derr != nil {
			fail("decode-error", derr.Error())
			continue
		}
		worst, at := 0.0, 0
		for j := range gv {
			d := cmplx.Abs(gv[j] - ex.vals[j])
			if d > worst || math.IsNaN(d) {
				worst, at = d, j
				if math.IsNaN(d) {
					worst = math.Inf(1)
					break
				}
			}
		}
		c.Count("slots_compared", int64(len(gv)))
		c.Count("precision_measurements", 1)
		c.Max("max_err_log2_x10_ckks", int64(10*log2(worst)))
		c.Max("max_budget_log2_x10_ckks", int64(10*log2(ex.budget)))
		if worst > 0 && worst <= ex.budget {
			c.Max("max_err_over_budget_log2_x10_plus1000_ckks_passing", 1000+int64(10*(log2(worst)-log2(ex.budget))))
		}
		if !(worst <= ex.budget) {
			class := "wrong-value"
			ksig := ""
			if !p.isSeq() {
				ksig = p.knownClass(i, n1s, cols)
			} else {
				for j := range p.lts {
					if ksig = p.knownClass(j, n1s, cols); ksig != "" {
						break
					}
				}
			}
			if ksig != "" {
				c.Violate(ksig, fmt.Sprintf("%s output %d: max |decoded-expected| = 2^%.1f, budget 2^%.1f\nprogram=%+v", ent, i, log2(worst), log2(ex.budget), desc), desc)
				continue
			}
			fail(class, fmt.Sprintf("output %d: max |decoded-expected| = 2^%.1f at slot %d (got %v want %v), budget 2^%.1f", i, log2(worst), at, gv[at], ex.vals[at], log2(ex.budget)))
		}
	}
}

// model runs the plaintext-side computation from the given input and returns, per output, the
// expected slots and the error budget.
func (k *ckksCtx) model(p plan, mats []ckMat, n1s, lv []int, v []complex128, ctF float64, ltF []float64) (vals [][]complex128, budgets []float64) {
	cols := len(v)
	N := float64(k.params.N())
	emb := N
	if k.ci {
		emb = 2 * N
	}
	errIn := math.Exp2(-40) * (maxAbs(v) + 1)
	if !p.isSeq() {
		maxLT := 0
		for _, lt := range p.lts {
			if lt.levelQ > maxLT {
				maxLT = lt.levelQ
			}
		}
		decomp := p.ctLevel
		if maxLT < decomp {
			decomp = maxLT
		}
		for i, lt := range p.lts {
			out, absSum, dmax := mats[i].apply(v)
			b := k.stepBudget(lt, n1s[i], cols, decomp, p.levelP, ctF, ltF[i], errIn, maxAbs(v)+errIn, dmax, absSum)
			vals = append(vals, out)
			budgets = append(budgets, b)
		}
		return
	}
	cur := v
	e := errIn
	s := ctF
	curLevel := p.ctLevel
	for i, lt := range p.lts {
		decomp := curLevel
		if lt.levelQ < decomp {
			decomp = lt.levelQ
		}
		out, absSum, dmax := mats[i].apply(cur)
		e = k.stepBudget(lt, n1s[i], cols, decomp, p.levelP, s, ltF[i], e, maxAbs(cur)+e, dmax, absSum)
		s = s * ltF[i] / float64(k.params.Q()[lv[i]])
		e += 4 * emb * (2 + N) / s
		cur = out
		curLevel = lv[i] - 1
	}
	return [][]complex128{cur}, []float64{e}
}

// trajectory checks, on the intended input, that every intermediate and final state leaves room for
// the message (scale*|values| < Q_level/4) and that every budget stays below 2^-6.
func (k *ckksCtx) trajectory(p plan, mats []ckMat, n1s, lv []int, v []complex128, ctF float64, ltF []float64, _ bool) (float64, bool) {
	rp := k.params.GetRLWEParameters()
	room := func(scale, vmax float64, level int) bool {
		return math.Log2(scale)+math.Log2(vmax+1)+3 < logQ(rp, level)
	}
	if !room(ctF, maxAbs(v), p.ctLevel) {
		return 0, false
	}
	vals, buds := k.model(p, mats, n1s, lv, v, ctF, ltF)
	worst := 0.0
	for _, b := range buds {
		if b > worst {
			worst = b
		}
	}
	if !(worst < math.Exp2(-6)) {
		return worst, false
	}
	if !p.isSeq() {
		for i := range p.lts {
			if !room(ctF*ltF[i], maxAbs(vals[i]), lv[i]) {
				return worst, false
			}
		}
		return worst, true
	}
	cur := v
	s := ctF
	for i := range p.lts {
		cur, _, _ = mats[i].apply(cur)
		s *= ltF[i]
		if !room(s, maxAbs(cur), lv[i]) {
			return worst, false
		}
		s /= float64(k.params.Q()[lv[i]])
		if s < math.Exp2(20) {
			return worst, false
		}
	}
	return worst, true
}

// dirtyQ fills a receiver with reduced non-zero residue.
func dirtyQ(r *eng.Rand, ct *rlwe.Ciphertext, moduli []uint64) {
	if r.N(2) == 0 {
		return
	}
	for _, p := range ct.Value {
		for i := range p.Coeffs {
			for j := range p.Coeffs[i] {
				p.Coeffs[i][j] = r.U64() % moduli[i]
			}
		}
	}
}

// refusals builds the objects of the refusal checks (refusals.go) for the approximate scheme.
func (k *ckksCtx) refusals(r *eng.Rand) {
	c := k.c
	params := k.params
	logCols := params.LogMaxDimensions().Cols
	cols := 1 << logCols
	levelP := params.MaxLevelP()
	if levelP > params.MaxLevel() {
		levelP = params.MaxLevel() // see sigPAboveQ
	}
	diags := refusalDiags(cols)
	dims := ring.Dimensions{Rows: 0, Cols: logCols}
	alloc := func(ratio, lp int) (lt cklt.LinearTransformation, ok bool) {
		ok = c.Try("C12|ckks/lintrans.NewTransformation", func() {
			lt = cklt.NewTransformation(params, cklt.Parameters{DiagonalsIndexList: append([]int(nil), diags...), LevelQ: params.MaxLevel(), LevelP: lp,
				Scale: rlwe.NewScale(1 << 20), LogDimensions: dims, LogBabyStepGiantStepRatio: ratio})
		})
		return
	}
	naive, ok1 := alloc(-1, levelP)
	bsgs, ok2 := alloc(0, levelP)
	if !ok1 || !ok2 {
		return
	}
	d := cklt.Diagonals[complex128]{}
	for _, kk := range diags {
		d[kk] = k.values(r, cols, "uniform")
	}
	for _, lt := range []cklt.LinearTransformation{naive, bsgs} {
		var e error
		l := lt
		if !c.Try("C12|ckks/lintrans.Encode", func() { e = cklt.Encode(k.ecd, d, l) }) || e != nil {
			return
		}
	}
	env := &refEnv{c: c, pk: "ckks/lintrans", rp: params.GetRLWEParameters(), cols: cols, levelP: levelP,
		naive: comlt.LinearTransformation(naive), bsgs: comlt.LinearTransformation(bsgs), keys: map[uint64]*rlwe.GaloisKey{},
		desc: map[string]any{"scheme": "ckks", "ring": k.cfg.Ring, "logN": k.cfg.LogN, "diags": diags, "N1": bsgs.N1, "levelP": levelP}}
	if levelP > 0 {
		if low, ok := alloc(-1, levelP-1); ok {
			l := comlt.LinearTransformation(low)
			env.lowP = &l
		}
	}
	var ges []uint64
	if !c.Try("C12|lintrans.GaloisElements", func() { ges = append(naive.GaloisElements(params), bsgs.GaloisElements(params)...) }) {
		return
	}
	for _, g := range ges {
		if _, ok := env.keys[g]; !ok {
			lq, lp := params.MaxLevel(), levelP
			env.keys[g] = k.kgen.GenGaloisKeyNew(g, k.sk, rlwe.EvaluationKeyParameters{LevelQ: &lq, LevelP: &lp})
		}
	}
	env.newCt = func() *rlwe.Ciphertext { return ckks.NewCiphertext(params, 1, params.MaxLevel()) }
	pt := ckks.NewPlaintext(params, params.MaxLevel())
	pt.Scale = rlwe.NewScale(1 << 30)
	pt.LogDimensions = dims
	if err := k.ecd.Encode(k.values(r, cols, "uniform"), pt); err != nil {
		return
	}
	ct, err := rlwe.NewEncryptor(params, k.sk).EncryptNew(pt)
	if err != nil {
		return
	}
	env.ct = ct
	env.mk = func(evk rlwe.EvaluationKeySet) refCalls {
		lev := cklt.NewEvaluator(ckks.NewEvaluator(params, evk))
		return refCalls{
			evaluate: func(ct *rlwe.Ciphertext, lt comlt.LinearTransformation, out *rlwe.Ciphertext) error {
				return lev.Evaluate(ct, cklt.LinearTransformation(lt), out)
			},
			many: func(ct *rlwe.Ciphertext, lts []comlt.LinearTransformation, outs []*rlwe.Ciphertext) error {
				l := make([]cklt.LinearTransformation, len(lts))
				for i := range lts {
					l[i] = cklt.LinearTransformation(lts[i])
				}
				return lev.EvaluateMany(ct, l, outs)
			},
		}
	}
	env.run()
}
