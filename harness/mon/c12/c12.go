// Package c12: homomorphic linear transformations compute the plaintext matrix-vector product.
//
// Oracle: every Evaluate / EvaluateNew / EvaluateMany(New) / EvaluateSequential(New) call is made
// with an evaluator that holds exactly the Galois keys advertised for the transformation(s); the
// output is decrypted with the secret key and compared with out[i] = sum_d diag_d[i]*v[(i+d) mod n]
// computed on the plaintext side (per packed row; exact mod t for BGV/BFV, within a worst-case
// noise budget for CKKS), and the level / scale / dimension metadata are compared with the
// documented ones. The model never calls Diagonals.Evaluate, BSGSIndex or FindBestBSGSRatio.
package c12

import (
	"fmt"
	"math"
	"sort"
	"strings"

	"github.com/tuneinsight/lattigo/v6/core/rlwe"

	"verif/harness/eng"
	"verif/harness/gen"
	"verif/harness/obs"
)

// ---------------------------------------------------------------------------------------------
// case descriptors

type paramCfg struct {
	Scheme string   `json:"scheme"` // bgv | bfv | ckks
	Ring   string   `json:"ring"`   // std | ci
	LogN   int      `json:"logN"`
	QBits  []int    `json:"qbits"`
	PBits  []int    `json:"pbits"`
	Q      []uint64 `json:"q"`
	P      []uint64 `json:"p"`
	T      uint64   `json:"t,omitempty"`
	LogSc  int      `json:"logscale,omitempty"`
	NProg  int      `json:"nprog"`
	Idx    int      `json:"idx"`
	X      *xcfg    `json:"x,omitempty"` // extended ("x/") cases only, see ext.go
}

// ltDesc describes one linear transformation of a program.
type ltDesc struct {
	Diags   []int  `json:"diags"` // as handed to the library (may be negative)
	Kind    string `json:"kind"`
	Val     string `json:"val"`
	Ratio   int    `json:"ratio"`
	LevelQ  int    `json:"levelQ"`
	Scale   string `json:"scale"`
	Perm    bool   `json:"perm,omitempty"`
	GalFrom string `json:"galfrom"`
}

type progDesc struct {
	Scheme   string   `json:"scheme"`
	Ring     string   `json:"ring"`
	LogN     int      `json:"logN"`
	LogCols  int      `json:"logcols"`
	Rows     int      `json:"rows"`
	Mode     string   `json:"mode"`
	CtLevel  int      `json:"ctlevel"`
	CtScale  string   `json:"ctscale"`
	OutLevel int      `json:"outlevel"` // -1: allocated by the *New call
	LevelP   int      `json:"levelP"`
	KeyLvlQ  int      `json:"keylevelQ"`
	EncPk    bool     `json:"encpk"`
	VType    string   `json:"vtype"`
	LTs      []ltDesc `json:"lts"`
	X        *xprog   `json:"x,omitempty"`
}

const (
	mEval    = "Evaluate"
	mEvalIn  = "Evaluate/inplace"
	mEvalNew = "EvaluateNew"
	mMany    = "EvaluateMany"
	mManyNew = "EvaluateManyNew"
	mSeq     = "EvaluateSequential"
	mSeqNew  = "EvaluateSequentialNew"
)

func entry(scheme, mode string) string {
	pk := "ckks/lintrans"
	if scheme != "ckks" {
		pk = "bgv/lintrans"
	}
	return "C12|" + pk + ".Evaluator." + strings.TrimSuffix(mode, "/inplace")
}

// ---------------------------------------------------------------------------------------------
// diagonal index sets

var diagKinds = []string{"zero", "single", "edge", "test", "dense", "band", "random", "stride", "nozero", "negonly", "high", "pair", "block"}

// diagSet returns distinct diagonal indices modulo n (normalised, 0 <= k < n) of the given kind.
func diagSet(r *eng.Rand, n int, kind string, maxD int) []int {
	set := map[int]bool{}
	add := func(k int) {
		k %= n
		if k < 0 {
			k += n
		}
		if len(set) < maxD {
			set[k] = true
		}
	}
	switch kind {
	case "zero":
		add(0)
	case "single":
		add(1 + r.N(n-1))
	case "edge":
		add(eng.Pick(r, 1, n-1, n/2, n/2+1, n/2-1))
	case "test":
		for _, k := range []int{-15, -4, -1, 0, 1, 2, 3, 4, 15} {
			if k > -n && k < n {
				add(k)
			}
		}
	case "dense":
		for k := 0; k < n; k++ {
			add(k)
		}
	case "band":
		w := 1 + r.N(6)
		for k := -w; k <= w; k++ {
			if k > -n && k < n {
				add(k)
			}
		}
	case "random":
		m := 2 + r.N(22)
		for i := 0; i < m; i++ {
			add(r.N(n))
		}
	case "stride":
		// multiples of a power of two: giant steps only (for the matching N1) or baby steps only
		s := 1 << r.N(bitsOf(n))
		m := 2 + r.N(8)
		for i := 0; i < m; i++ {
			add(s * r.N(n/s+1))
		}
	case "nozero":
		m := 2 + r.N(12)
		for i := 0; i < m; i++ {
			k := 1 + r.N(n-1)
			if k%4 != 0 || n <= 4 {
				add(k)
			}
		}
		if len(set) == 0 {
			add(1)
		}
	case "negonly":
		m := 1 + r.N(8)
		for i := 0; i < m; i++ {
			add(-(1 + r.N(n-1)))
		}
	case "high":
		m := 1 + r.N(6)
		for i := 1; i <= m; i++ {
			add(n - i)
		}
		if r.Bool() {
			add(0)
		}
	case "pair":
		add(0)
		add(1 + r.N(n-1))
	case "block":
		// a contiguous run of diagonals (wrapping around): long inner loops of the BSGS algorithm
		m := eng.Pick(r, 12, 17, 24, 33, 48, 64, 64, 128)
		if m > n {
			m = n
		}
		a := r.N(n)
		for i := 0; i < m; i++ {
			add(a + i)
		}
	}
	if len(set) == 0 {
		add(0)
	}
	out := make([]int, 0, len(set))
	for k := range set {
		out = append(out, k)
	}
	sort.Ints(out)
	return out
}

func bitsOf(n int) int {
	b := 0
	for 1<<b < n {
		b++
	}
	return b
}

// signed re-expresses normalised indices as the library input: every non-zero index is given as k
// or as k-n ("negative indexes ... interpreted modulo the matrix dimension").
func signed(r *eng.Rand, idx []int, n int, kind string) []int {
	out := make([]int, len(idx))
	for i, k := range idx {
		out[i] = k
		if k == 0 {
			continue
		}
		switch kind {
		case "negonly":
			out[i] = k - n
		case "test":
			if k > n/2 {
				out[i] = k - n
			}
		default:
			if r.N(3) == 0 {
				out[i] = k - n
			}
		}
	}
	// the library receives the list in arbitrary (map) order anyway; shuffle deterministically
	p := r.Perm(len(out))
	sh := make([]int, len(out))
	for i, j := range p {
		sh[i] = out[j]
	}
	return sh
}

func norm(k, n int) int {
	k %= n
	if k < 0 {
		k += n
	}
	return k
}

func hasNonZero(d []int) bool {
	for _, k := range d {
		if k != 0 {
			return true
		}
	}
	return false
}

func hasNeg(d []int) bool {
	for _, k := range d {
		if k < 0 {
			return true
		}
	}
	return false
}

// rotation structure of a transformation derived from the *documented* algorithm description
// (n = n1*n2 split with n1 = lt.N1 read back from the allocated object): used only for the noise
// budget and the coverage counters, never for the expected values.
func rotCounts(diags []int, n, n1 int) (baby, giant, maxInner int) {
	if n1 <= 0 {
		for _, k := range diags {
			if norm(k, n) != 0 {
				baby++
			}
		}
		return baby, 0, 0
	}
	inner := map[int]int{}
	for _, k := range diags {
		k = norm(k, n)
		if k%n1 != 0 {
			baby++
		}
		inner[k/n1]++
	}
	for j, c := range inner {
		if j != 0 {
			giant++
		}
		if c > maxInner {
			maxInner = c
		}
	}
	return
}

// ---------------------------------------------------------------------------------------------
// worst-case key-switch noise (coefficient domain, after division by P)

// ksBound bounds the infinity norm of the error added to the phase by one (hoisted or plain)
// hybrid key switch evaluated with keys of auxiliary level levelP whose decomposition was taken at
// level decompLevelQ:  N*B*sum_i(alpha*D_i)/P  +  (1+#P)*(1+N)   (gadget error + ModDown rounding
// and approximate basis extension). D_i is taken over the full digit even when the level cuts it.
func ksBound(p *rlwe.Parameters, decompLevelQ, levelP int) float64 {
	n := float64(p.N())
	b, _ := obs.ErrBound(*p)
	alpha := levelP + 1
	q := p.Q()
	pp := p.P()
	P := 1.0
	for i := 0; i <= levelP; i++ {
		P *= float64(pp[i])
	}
	beta := (decompLevelQ + alpha) / alpha
	sum := 0.0
	for i := 0; i < beta; i++ {
		d := 1.0
		for j := i * alpha; j < (i+1)*alpha && j < len(q); j++ {
			d *= float64(q[j])
		}
		sum += float64(alpha) * d
	}
	return n*b*sum/P + float64(2+levelP)*(1+n)
}

func log2(x float64) float64 {
	if x <= 0 {
		return -1
	}
	return math.Log2(x)
}

func logQ(p *rlwe.Parameters, level int) float64 {
	s := 0.0
	for i := 0; i <= level; i++ {
		s += math.Log2(float64(p.Q()[i]))
	}
	return s
}

// ---------------------------------------------------------------------------------------------
// case enumeration

type shape struct {
	q, p []int
}

var bgvShapes = []shape{
	{[]int{56, 55}, []int{57}},
	{[]int{60, 60, 60}, []int{61}},
	{[]int{50, 45, 45, 45}, []int{52, 52}},
	{[]int{58, 50, 42}, []int{60, 60}},
	{[]int{60, 59, 58, 57, 56}, []int{61, 60}},
	{[]int{55, 55, 55}, []int{50}},
	{[]int{60, 60, 60, 60}, []int{61, 61, 61}},
	{[]int{48, 48}, []int{49, 49}},
}

var ckksShapes = []shape{
	{[]int{55, 45}, []int{56}},
	{[]int{60, 60, 60}, []int{61}},
	{[]int{55, 45, 45, 45}, []int{58, 58}},
	{[]int{58, 50, 50}, []int{60, 60}},
	{[]int{60, 55, 50, 45, 40}, []int{61, 60}},
	{[]int{55, 50, 50}, []int{50}},
	{[]int{60, 60, 60, 60}, []int{61, 61, 61}},
	{[]int{50, 50}, []int{51, 51}},
}

// plaintext moduli: prime, t = 1 mod 2^k for various k (cyclotomic order decides the packing)
var bgvT = []uint64{17, 97, 193, 257, 769, 7681, 12289, 65537, 786433}

func cases(tier string, seed int64) []eng.Case {
	r := eng.NewRand("c12-cases", seed)
	var out []eng.Case
	thorough := tier == "thorough"
	nb, nc := 224, 224
	if thorough {
		nb, nc = 700, 700
	}
	mk := func(cfg paramCfg) {
		id := fmt.Sprintf("%s/%s/logN%d/q%v/p%v/t%d/%d", cfg.Scheme, cfg.Ring, cfg.LogN, cfg.QBits, cfg.PBits, cfg.T, cfg.Idx)
		c := cfg
		out = append(out, eng.Case{ID: id, Sig: "C12|" + cfg.Scheme, Desc: c, Run: func(ctx *eng.Ctx) {
			if c.Scheme == "ckks" {
				runCKKS(ctx, c)
			} else {
				runBGV(ctx, c)
			}
		}})
	}
	logNs := []int{4, 5, 6, 7, 8, 9, 10}
	for i := 0; i < nb; i++ {
		logN := logNs[i%len(logNs)]
		if thorough && r.N(12) == 0 {
			logN = 11
		}
		sh := bgvShapes[r.N(len(bgvShapes))]
		t := bgvT[r.N(len(bgvT))]
		q, p := gen.Chain(r, uint64(2)<<logN, sh.q, sh.p)
		if q == nil {
			continue
		}
		scheme := "bgv"
		if r.N(5) == 0 {
			scheme = "bfv"
		}
		np := 10
		if logN >= 9 {
			np = 7
		}
		if thorough {
			np += 4
		}
		mk(paramCfg{Scheme: scheme, Ring: "std", LogN: logN, QBits: sh.q, PBits: sh.p, Q: q, P: p, T: t, NProg: np, Idx: i})
	}
	for i := 0; i < nc; i++ {
		logN := logNs[i%len(logNs)]
		if thorough && r.N(12) == 0 {
			logN = 11
		}
		ringT := "std"
		nth := uint64(2) << logN
		if r.N(4) == 0 {
			ringT = "ci"
			nth <<= 1
		}
		sh := ckksShapes[r.N(len(ckksShapes))]
		q, p := gen.Chain(r, nth, sh.q, sh.p)
		if q == nil {
			continue
		}
		np := 10
		if logN >= 9 {
			np = 7
		}
		if thorough {
			np += 4
		}
		mk(paramCfg{Scheme: "ckks", Ring: ringT, LogN: logN, QBits: sh.q, PBits: sh.p, Q: q, P: p, LogSc: eng.Pick(r, 45, 40, 50), NProg: np, Idx: i})
	}
	// extended families of the coverage audit (own random stream, ids start with "x/")
	out = append(out, extCases(tier, seed)...)
	return out
}

func init() {
	eng.Register(&eng.Monitor{
		ID: "C12", Level: "exploration",
		Rule:  "cases = parameter sets (scheme bgv/bfv/ckks, ring type, logN 4..10(11), modulus chain shape, plaintext modulus / default scale); inside a case several programs are sampled: API mode (Evaluate, in-place Evaluate, EvaluateNew, EvaluateMany(New) with 2-4 matrices, EvaluateSequential(New) with 2-4 matrices) x matrix dimension (CKKS: 2^1..2^logMaxSlots sparse/full packing; BGV: the packing fixed by t) x diagonal index set kind (zero, single, edge, the stock test list, dense, band, random subset, stride, no-zero, negative-only, high, pair, contiguous block; each non-zero index handed over as k or k-n) x value structure (uniform, ones, half-zero, extreme, permutation through GetDiagonals) x LogBabyStepGiantStepRatio in {-1,0,1,2,3,4,5} x ciphertext level / encoding level / receiver level x LevelP of the keys x scales. Every program is evaluated with exactly the advertised Galois keys and judged against the plaintext matrix-vector product. distinct key = (scheme, ring, logN, logCols, mode, per matrix: normalised diagonal set, sign pattern, ratio, N1, LevelQ; ciphertext level, receiver level, LevelP). non-trivial = at least one evaluated matrix has a diagonal with non-zero index, i.e. at least one key-switched rotation contributes to the checked output. | x/<scheme> cases (coverage audit) = the same programs and oracle on further parameter shapes (6 and 8 RNS digits, a single Q prime, more P than Q primes, fixed-weight / sparse / dense ternary secrets, tight and wide Gaussian and ternary errors) where every program additionally draws: the evaluator (one evaluator with a history per case handed on through WithKey(exactly the advertised keys), scratch buffers filled with random or maximal residues, ShallowCopy, ShallowCopy+WithKey, struct literal), the call form (the exported low-level entry points DecomposeNTT+MultiplyByDiagMatrix / PreRotatedCiphertextForDiagonalMatrixMultiplication+MultiplyByDiagMatrixBSGS with an optional stale cache entry, EvaluateMany with the input as last receiver, EvaluateMany with surplus receivers that must stay untouched, EvaluateSequential in place), receivers of degree 2, a transformation that was encoded before with another matrix, and a second identical call on the same evaluator whose outputs must be bit-identical; distinct key = the key above + these draws. Each x/<scheme> case ends with the refusal checks: an advertised key of a rotation of the documented algorithm (naive, baby step, giant step) removed from the key set and the four argument checks of EvaluateMany must give an error, no panic, and leave the non-aliased operands bit-identical. | x/plain cases = plaintext-side entry points on random signed diagonal sets of dimension 2^1..2^8: Diagonals.Evaluate of both schemes against the matrix-vector model, Diagonals.At / DiagonalsIndexList for every stored index in both signed forms and for absent indices, BSGSIndex (exact cover of the index set by giant+baby steps for every N1 | n) and FindBestBSGSRatio (N1 | n), Permutation.GetDiagonals of both schemes against the permutation matrix.",
		Cases: cases,
		Assumptions: []string{
			"encoders/decoders, encryption and decryption are correct (C03, C07); the oracle decrypts with the secret key and decodes with the library decoder, expected values are recomputed on the plaintext side without any lintrans code",
			"CKKS verdict: |decoded - expected| <= 4 x worst-case budget (key-switch gadget error N*B*sum(alpha*D_i)/P, ModDown rounding, plaintext-diagonal rounding, canonical norm <= N*inf norm) + 2^-40 relative floating-point floor; budgets are kept below 2^-6 by construction so that a wrong rotation (error of order 1) is visible",
			"BGV verdict: exact equality mod t; parameters are chosen so that t*(worst-case noise) < Q_level/2, hence a correct implementation cannot fail",
			"x/ families: the scratch buffers an evaluator exposes through GetBuffQP/GetBuffCt/GetBuffDecompQP may hold any reduced residues before a call (they are what earlier operations leave behind); the result of an evaluation is a deterministic function of (input, matrices, keys), so two identical calls on one evaluator give bit-identical outputs; every advertised Galois element of a non-zero rotation of the documented algorithm (GaloisElements: 'needed for the evaluation') is required, so its absence must surface as an error; LevelP = -1 is refused by the library ('level cannot be negative') and is not generated; keys with a base-two decomposition are not generated (the hoisted gadget product documents them as unsupported)",
			"domain restrictions taken from the code and its in-tree callers: auxiliary modulus P present, diagonals given with full length rows*cols and distinct modulo the dimension, BGV dimension = LogMaxDimensions, one LogDimensions for ciphertext and matrices, EvaluateMany receivers do not alias the input",
		},
	})
}
