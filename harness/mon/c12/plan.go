package c12

import (
	"fmt"
	"sort"

	"verif/harness/eng"
)

// planLT is one sampled matrix before it is turned into library objects.
type planLT struct {
	norm    []int // normalised indices, sorted
	lib     []int // indices handed to the library
	kind    string
	val     string
	ratio   int
	levelQ  int
	perm    bool
	galFrom string // "lt": LinearTransformation.GaloisElements, "params": package-level function on the raw index list
}

type plan struct {
	mode     string
	logCols  int
	lts      []planLT
	ctLevel  int
	outLevel int // level of the receiver for the non-New modes
	levelP   int
	keyLvlQ  int
	encPk    bool
	// extended ("x/") families only, zero for the original cases (see ext.go)
	aliasLast bool   // EvaluateMany: the last receiver is the input ciphertext
	x         *xprog // nil for the original cases
}

func (p plan) isSeq() bool  { return p.mode == mSeq || p.mode == mSeqNew }
func (p plan) isMany() bool { return p.mode == mMany || p.mode == mManyNew }
func (p plan) isNew() bool {
	return p.mode == mEvalNew || p.mode == mManyNew || p.mode == mSeqNew
}

var modeTable = []string{mEval, mEval, mEvalIn, mEvalIn, mEvalNew, mEvalNew, mMany, mManyNew, mSeq, mSeqNew}

// the extended cases put more weight on the modes that have extended call forms
var xModeTable = []string{mEval, mEval, mEvalIn, mEvalNew, mMany, mMany, mMany, mManyNew, mSeq, mSeq, mSeqNew}

// samplePlan draws one program. n = matrix dimension (columns), bigN: ring degree >= 512 (limits
// the number of keys of the naive algorithm).
func samplePlan(r *eng.Rand, pi int, logCols, maxLevel, maxLevelP int, bigN bool, rescales bool, allowPerm bool, modes ...string) plan {
	n := 1 << logCols
	var p plan
	p.logCols = logCols
	if len(modes) == 0 {
		modes = modeTable
	}
	p.mode = modes[(pi*3+r.N(len(modes)))%len(modes)]
	nlt := 1
	if p.isMany() {
		nlt = 2 + r.N(3)
	}
	if p.isSeq() {
		nlt = 1 + r.N(4)
		if rescales && nlt > maxLevel {
			nlt = maxLevel
		}
		if nlt < 1 {
			nlt = 1
		}
	}
	// levels
	lv := func() int {
		switch r.N(4) {
		case 0:
			return maxLevel
		case 1:
			return r.N(maxLevel + 1)
		default:
			return 1 + r.N(maxLevel)
		}
	}
	p.ctLevel = lv()
	if r.N(3) == 0 {
		p.ctLevel = maxLevel
	}
	p.outLevel = eng.Pick(r, p.ctLevel, maxLevel, lv())
	if p.mode == mEvalIn {
		p.outLevel = p.ctLevel // the receiver is the input
	}
	p.levelP = maxLevelP
	if maxLevelP > 0 && r.N(3) == 0 {
		p.levelP = r.N(maxLevelP + 1)
	}
	p.encPk = r.N(3) == 0
	maxLT := 0
	for i := 0; i < nlt; i++ {
		var lt planLT
		lt.ratio = eng.Pick(r, -1, -1, 0, 0, 1, 1, 1, 2, 2, 3, 4)
		lt.kind = diagKinds[r.N(len(diagKinds))]
		if n == 2 && lt.kind == "edge" {
			lt.kind = "single"
		}
		maxD := 1024
		if lt.ratio < 0 {
			maxD = 96
			if bigN {
				maxD = 40
			}
		}
		if (pi == 1 || pi == 2) && i == 0 {
			// one long-inner-loop matrix per parameter set (lazy-reduction margins of the BSGS loops)
			lt.kind = eng.Pick(r, "block", "dense")
			lt.ratio = eng.Pick(r, 3, 4, 5)
		}
		if lt.kind == "block" && lt.ratio < 1 {
			lt.ratio = eng.Pick(r, 1, 2, 3, 4)
			maxD = 1024
		}
		if lt.kind == "dense" && n > maxD {
			if lt.ratio < 0 {
				lt.ratio = eng.Pick(r, 0, 1, 2)
				maxD = 1024
			}
			if n > maxD {
				lt.kind = "random"
			}
		}
		lt.norm = diagSet(r, n, lt.kind, maxD)
		lt.lib = signed(r, lt.norm, n, lt.kind)
		lt.val = eng.Pick(r, "uniform", "uniform", "ones", "halfzero", "extreme", "rowdiff")
		if allowPerm && r.N(7) == 0 && !((pi == 1 || pi == 2) && i == 0) {
			lt.perm = true
			lt.kind = "perm"
			lt.val = "perm"
		}
		lt.levelQ = eng.Pick(r, p.ctLevel, maxLevel, lv())
		lt.galFrom = eng.Pick(r, "lt", "params")
		if lt.levelQ > maxLT {
			maxLT = lt.levelQ
		}
		p.lts = append(p.lts, lt)
	}
	if p.isMany() && r.N(3) == 0 {
		// a list evaluated entirely with the naive algorithm (shares only the hoisted decomposition)
		for i := range p.lts {
			if len(p.lts[i].norm) <= 40 {
				p.lts[i].ratio = -1
			}
		}
	}
	need := p.ctLevel
	if maxLT < need {
		need = maxLT
	}
	p.keyLvlQ = maxLevel
	if r.N(3) == 0 {
		p.keyLvlQ = need + r.N(maxLevel-need+1)
	}
	return p
}

// liftLevels puts every level of the plan at the maximum (fallback when the sampled levels leave no
// room for the worst-case noise / the message).
func (p *plan) liftLevels(maxLevel int) {
	p.ctLevel = maxLevel
	p.outLevel = maxLevel
	p.keyLvlQ = maxLevel
	for i := range p.lts {
		p.lts[i].levelQ = maxLevel
	}
}

// levelsOf returns the documented output level of every step: for Evaluate / EvaluateMany the level
// of output i is min(receiver, ciphertext, matrix i); for EvaluateSequential step i starts from the
// rescaled output of step i-1 (rescales=false for the scale-invariant BFV evaluator, whose Rescale is
// documented as a nop). ok=false when a rescale would be requested at level 0.
func (p plan) levelsOf(rescales bool, perRescale int) (lv []int, final int, ok bool) {
	min := func(a, b int) int {
		if a < b {
			return a
		}
		return b
	}
	recv := func(i int) int {
		if p.isNew() {
			if p.isSeq() {
				return p.lts[0].levelQ
			}
			return p.lts[i].levelQ
		}
		if p.aliasLast && i == len(p.lts)-1 {
			return p.ctLevel
		}
		return p.outLevel
	}
	if !p.isSeq() {
		for i, lt := range p.lts {
			lv = append(lv, min(recv(i), min(p.ctLevel, lt.levelQ)))
		}
		return lv, lv[len(lv)-1], true
	}
	cur := p.ctLevel
	out := recv(0)
	for _, lt := range p.lts {
		l := min(out, min(cur, lt.levelQ))
		lv = append(lv, l)
		if rescales {
			if l < perRescale {
				return lv, l, false
			}
			l -= perRescale
		}
		cur, out = l, l
	}
	return lv, cur, true
}

func (p plan) key(scheme, ring string, logN int, n1s []int) string {
	s := fmt.Sprintf("%s/%s/%d/%d/%s/ct%d/out%d/P%d", scheme, ring, logN, p.logCols, p.mode, p.ctLevel, p.outLevel, p.levelP)
	for i, lt := range p.lts {
		neg := make([]int, 0)
		for _, k := range lt.lib {
			if k < 0 {
				neg = append(neg, k)
			}
		}
		sort.Ints(neg)
		n1 := -1
		if i < len(n1s) {
			n1 = n1s[i]
		}
		s += fmt.Sprintf("|%v/%v/r%d/n1_%d/L%d/%s", lt.norm, neg, lt.ratio, n1, lt.levelQ, lt.val)
	}
	return s
}

func (p plan) nontrivial() bool {
	for _, lt := range p.lts {
		if hasNonZero(lt.norm) {
			return true
		}
	}
	return false
}

// sigPAboveQ (+"|panic"): MultiplyByDiagMatrix and MultiplyByDiagMatrixBSGS take the P half of the
// c0 accumulator from the Q half of a scratch polynomial (BuffQP[5].Q), which has MaxLevelQ+1 rows:
// any transformation whose LevelP exceeds MaxLevelQ (more P than Q primes) indexes past it.
const sigPAboveQ = "C12|common/lintrans.Evaluator.MultiplyByDiagMatrix(BSGS)|levelP-above-max-levelQ"

const (
	sigDiag0   = "C12|common/lintrans.Evaluator.MultiplyByDiagMatrix|wrong-value|only-diagonal-0-naive"
	sigClobber = "C12|common/lintrans.Evaluator.EvaluateMany|wrong-value|hoisted-decomposition-clobbered-by-earlier-giant-step"
)

// knownClass classifies a failing output i against the two triaged defects of the unchanged tree; the
// predicates are computed from the program only (never from the observed values):
//
//   - "only-diagonal-0-naive": the matrix has the single diagonal 0 and is evaluated without BSGS
//     (MultiplyByDiagMatrix then runs its ModDown on accumulators that were never written);
//   - "hoisted-decomposition-clobbered-by-earlier-giant-step": EvaluateMany keeps the hoisted
//     decomposition of the input in the evaluator's BuffDecompQP, an earlier matrix of the same call
//     ran a giant-step key switch (GadgetProductLazy uses BuffDecompQP[0] as scratch) and matrix i
//     needs a hoisted rotation that is computed after that.
//
// Returns the full signature of the triaged defect or "" (any other failure keeps the bare class).
func (p plan) knownClass(i int, n1s []int, n int) string {
	lt := p.lts[i]
	if n1s[i] == 0 && !hasNonZero(lt.norm) {
		return sigDiag0
	}
	if !p.isMany() || i == 0 {
		return ""
	}
	// cache: hoisted rotations kept in ctPreRot (value = computed from a clobbered decomposition)
	clobbered := false
	cache := map[int]bool{}
	for j := 0; j <= i; j++ {
		l := p.lts[j]
		if n1s[j] == 0 {
			if j == i && clobbered && hasNonZero(l.norm) {
				return sigClobber
			}
			continue
		}
		next := map[int]bool{}
		for _, k := range l.norm {
			if b := k % n1s[j]; b != 0 {
				if tainted, ok := cache[b]; ok {
					next[b] = tainted
				} else {
					next[b] = clobbered
				}
			}
		}
		if j == i {
			for _, tainted := range next {
				if tainted {
					return sigClobber
				}
			}
		}
		cache = next
		if _, giant, _ := rotCounts(l.norm, n, n1s[j]); giant > 0 {
			clobbered = true
		}
	}
	return ""
}
