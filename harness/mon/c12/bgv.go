package c12

import (
	"fmt"
	"math"
	"math/big"

	bglt "github.com/tuneinsight/lattigo/v6/circuits/bgv/lintrans"
	comlt "github.com/tuneinsight/lattigo/v6/circuits/common/lintrans"
	"github.com/tuneinsight/lattigo/v6/core/rlwe"
	"github.com/tuneinsight/lattigo/v6/schemes"
	"github.com/tuneinsight/lattigo/v6/schemes/bgv"

	"verif/harness/eng"
	"verif/harness/obs"
	"verif/harness/ref"
)

type bgvCtx struct {
	c      *eng.Ctx
	cfg    paramCfg
	params bgv.Parameters
	t      uint64
	cols   int
	kgen   *rlwe.KeyGenerator
	sk     *rlwe.SecretKey
	pk     *rlwe.PublicKey
	ecd    *bgv.Encoder
	dec    *rlwe.Decryptor
	x      *xstate // extended cases only
}

// matrix on the plaintext side: either diagonals (key = normalised index, 2*cols values mod t)
// or a permutation with scalings.
type bgvMat struct {
	diag map[int][]uint64
	perm [2][]bglt.PermutationMapping[uint64]
	isP  bool
}

// apply computes the documented product on each of the two rows independently:
// out[row][i] = sum_d diag_d[row][i] * v[row][(i+d) mod cols]  (mod t).
func (m bgvMat) apply(v []uint64, cols int, t uint64) []uint64 {
	out := make([]uint64, 2*cols)
	if m.isP {
		for row := 0; row < 2; row++ {
			for _, pm := range m.perm[row] {
				out[row*cols+pm.To] = ref.MulMod(pm.Scaling%t, v[row*cols+pm.From], t)
			}
		}
		return out
	}
	for d, dv := range m.diag {
		for row := 0; row < 2; row++ {
			for i := 0; i < cols; i++ {
				x := ref.MulMod(dv[row*cols+i], v[row*cols+(i+d)%cols], t)
				out[row*cols+i] = ref.AddMod(out[row*cols+i], x, t)
			}
		}
	}
	return out
}

func bgvValues(r *eng.Rand, n int, t uint64, kind string) []uint64 {
	v := make([]uint64, n)
	for i := range v {
		switch kind {
		case "ones":
			v[i] = 1
		case "halfzero":
			if i < n/2 {
				v[i] = r.U64() % t
			}
		case "extreme":
			v[i] = eng.Pick(r, t-1, t-1, 0, 1, t/2, t/2+1, r.U64()%t)
		case "rowdiff":
			if i < n/2 {
				v[i] = r.U64() % t
			} else {
				v[i] = eng.Pick(r, uint64(0), 0, 0, 1)
			}
		default:
			v[i] = r.U64() % t
		}
	}
	return v
}

func toDiagU(m map[int][]uint64) bglt.Diagonals[uint64] {
	d := bglt.Diagonals[uint64]{}
	for k, v := range m {
		d[k] = append([]uint64(nil), v...)
	}
	return d
}

func toDiagI(m map[int][]uint64, t uint64) bglt.Diagonals[int64] {
	d := bglt.Diagonals[int64]{}
	for k, v := range m {
		w := make([]int64, len(v))
		for i, x := range v {
			if x > t/2 {
				w[i] = int64(x) - int64(t)
			} else {
				w[i] = int64(x)
			}
		}
		d[k] = w
	}
	return d
}

func runBGV(c *eng.Ctx, cfg paramCfg) {
	lit := bgv.ParametersLiteral{LogN: cfg.LogN, Q: cfg.Q, P: cfg.P, PlaintextModulus: cfg.T}
	if cfg.X != nil {
		lit.Xs, lit.Xe = cfg.X.dists(1 << cfg.LogN)
	}
	params, err := bgv.NewParametersFromLiteral(lit)
	if err != nil {
		c.Violate("C12|bgv.NewParametersFromLiteral|error-on-admissible", err.Error(), cfg)
		return
	}
	b := &bgvCtx{c: c, cfg: cfg, params: params, t: cfg.T}
	if cfg.X != nil {
		b.x = &xstate{cfg: cfg.X}
	}
	b.cols = 1 << params.LogMaxDimensions().Cols
	b.kgen = rlwe.NewKeyGenerator(params)
	b.sk, b.pk = b.kgen.GenKeyPairNew()
	b.ecd = bgv.NewEncoder(params)
	b.dec = rlwe.NewDecryptor(params, b.sk)
	rnd := c.Rand()
	for pi := 0; pi < cfg.NProg; pi++ {
		b.program(rnd.Sub("prog", pi), pi)
	}
	if b.x != nil && cfg.X.Refusal {
		b.refusals(rnd.Sub("refusals"))
	}
}

// noise trajectory (worst case, coefficient domain, in units where the phase is m/t + e).
// Returns the bound after the last step and whether every intermediate state leaves room:
// t*(e+1) < Q_level/2.
func (b *bgvCtx) noisePlan(p plan, n1s []int, eIn float64, lv []int, rescales bool) (eOut float64, ok bool) {
	rp := b.params.GetRLWEParameters()
	N := float64(b.params.N())
	t := float64(b.t)
	room := func(e float64, level int) bool {
		return math.Log2(t)+math.Log2(e+2)+1 < logQ(rp, level)
	}
	step := func(e float64, lt planLT, n1 int, level, decompLevel int) float64 {
		baby, giant, _ := rotCounts(lt.norm, b.cols, n1)
		ks := ksBound(rp, decompLevel, p.levelP)
		D := float64(len(lt.norm))
		out := D*N*t*(e+2) + float64(baby)*N*t*ks + D
		out += float64(giant)*(ks+float64(2+p.levelP)*(1+N)) + float64(2+p.levelP)*(1+N)
		return out
	}
	if !room(eIn, p.ctLevel) {
		return 0, false
	}
	if !p.isSeq() {
		maxLT := 0
		for _, lt := range p.lts {
			if lt.levelQ > maxLT {
				maxLT = lt.levelQ
			}
		}
		decomp := p.ctLevel
		if maxLT < decomp {
			decomp = maxLT
		}
		worst := 0.0
		for i, lt := range p.lts {
			e := step(eIn, lt, n1s[i], lv[i], decomp)
			if !room(e, lv[i]) {
				return 0, false
			}
			if e > worst {
				worst = e
			}
		}
		return worst, true
	}
	e := eIn
	cur := p.ctLevel
	for i, lt := range p.lts {
		decomp := cur
		if lt.levelQ < decomp {
			decomp = lt.levelQ
		}
		e = step(e, lt, n1s[i], lv[i], decomp)
		if !room(e, lv[i]) {
			return 0, false
		}
		cur = lv[i]
		if rescales {
			e = e/float64(b.params.Q()[cur]) + (2 + N)
			cur--
		}
	}
	return e, true
}

func (b *bgvCtx) program(r *eng.Rand, pi int) {
	c := b.c
	params := b.params
	t := b.t
	cols := b.cols
	logCols := params.LogMaxDimensions().Cols
	rescales := b.cfg.Scheme == "bgv"
	p := samplePlan(r, pi, logCols, params.MaxLevel(), params.MaxLevelP(), params.N() >= 512, rescales, true)
	useInt := r.N(3) == 0
	if b.x != nil {
		p = samplePlan(r.Sub("xplan"), pi, logCols, params.MaxLevel(), params.MaxLevelP(), params.N() >= 512, rescales, true, xModeTable...)
		b.x.tweak(&p, r.Sub("x"), params.MaxLevel(), rescales)
	}

	// plaintext matrices
	mats := make([]bgvMat, len(p.lts))
	for i := range p.lts {
		lt := &p.lts[i]
		if lt.perm {
			var pm [2][]bglt.PermutationMapping[uint64]
			for row := 0; row < 2; row++ {
				to := r.Perm(cols)
				from := r.Perm(cols)
				m := cols
				if r.Bool() {
					m = 1 + r.N(cols)
				}
				for j := 0; j < m; j++ {
					pm[row] = append(pm[row], bglt.PermutationMapping[uint64]{From: from[j], To: to[j], Scaling: eng.Pick(r, r.U64()%t, 1, t-1)})
				}
			}
			mats[i] = bgvMat{perm: pm, isP: true}
			continue
		}
		m := map[int][]uint64{}
		for _, k := range lt.norm {
			v := bgvValues(r, 2*cols, t, lt.val)
			if lt.val == "rowdiff" && r.Bool() {
				// non-zero second row, zero first row
				copy(v[cols:], v[:cols])
				for j := 0; j < cols; j++ {
					v[j] = 0
				}
			}
			m[k] = v
		}
		mats[i] = bgvMat{diag: m}
	}

	// library diagonals (keys as handed over by the caller: signed)
	type libDiag struct {
		u bglt.Diagonals[uint64]
		s bglt.Diagonals[int64]
	}
	libs := make([]libDiag, len(p.lts))
	for i := range p.lts {
		lt := &p.lts[i]
		if lt.perm {
			var d bglt.Diagonals[uint64]
			if !c.Try("C12|bgv/lintrans.Permutation.GetDiagonals", func() {
				d = bglt.Permutation[uint64](mats[i].perm).GetDiagonals(params.LogMaxSlots())
			}) {
				return
			}
			libs[i].u = d
			lt.lib = d.DiagonalsIndexList()
			seen := map[int]bool{}
			lt.norm = lt.norm[:0]
			for _, k := range lt.lib {
				if !seen[norm(k, cols)] {
					seen[norm(k, cols)] = true
					lt.norm = append(lt.norm, norm(k, cols))
				}
			}
			if lt.ratio < 0 && len(lt.norm) > 40 {
				lt.ratio = 1
			}
			continue
		}
		signedMap := map[int][]uint64{}
		for _, k := range lt.lib {
			signedMap[k] = mats[i].diag[norm(k, cols)]
		}
		if useInt {
			libs[i].s = toDiagI(signedMap, t)
		} else {
			libs[i].u = toDiagU(signedMap)
		}
	}

	// scales
	randScale := func() uint64 {
		return eng.Pick(r, 1, 1+r.U64()%(t-1), 1+r.U64()%(t-1), t-1, 2)
	}
	// the scale of a transformation is given either with the plaintext modulus attached (params.NewScale) or as a
	// bare value (rlwe.NewScale(k), what the bgv evaluator itself builds for plaintext operands): the product with
	// the ciphertext scale is taken modulo t either way
	bareScale := r.N(3) == 0
	ltScale := func(i int) rlwe.Scale { return rlwe.Scale{} }
	ctScale := randScale()
	ltScales := make([]uint64, len(p.lts))
	for i := range ltScales {
		ltScales[i] = randScale()
	}
	ltScale = func(i int) rlwe.Scale {
		if bareScale {
			c.Count("transformations_with_bare_scale", 1)
			return rlwe.NewScale(ltScales[i])
		}
		return params.NewScale(ltScales[i])
	}

	// allocate (to learn N1) with the sampled levels, check room, fall back to the top level
	build := func() ([]bglt.LinearTransformation, []int, bool) {
		lts := make([]bglt.LinearTransformation, len(p.lts))
		n1s := make([]int, len(p.lts))
		for i, lt := range p.lts {
			ltp := bglt.Parameters{
				DiagonalsIndexList:        append([]int(nil), lt.lib...),
				LevelQ:                    lt.levelQ,
				LevelP:                    p.levelP,
				Scale:                     ltScale(i),
				LogDimensions:             params.LogMaxDimensions(),
				LogBabyStepGiantStepRatio: lt.ratio,
			}
			ii := i
			if !c.Try("C12|bgv/lintrans.NewLinearTransformation", func() { lts[ii] = bglt.NewLinearTransformation(params, ltp) }) {
				return nil, nil, false
			}
			n1s[i] = lts[i].N1
		}
		return lts, n1s, true
	}
	B, _ := obs.ErrBound(*params.GetRLWEParameters())
	N := float64(params.N())
	eFresh := B * (2*N + 2)
	lts, n1s, okb := build()
	if !okb {
		return
	}
	lv, final, okl := p.levelsOf(rescales, 1)
	feasible := okl
	var eBound float64
	if feasible {
		eBound, feasible = b.noisePlan(p, n1s, eFresh, lv, rescales)
	}
	if !feasible {
		p.liftLevels(params.MaxLevel())
		if lts, n1s, okb = build(); !okb {
			return
		}
		lv, final, okl = p.levelsOf(rescales, 1)
		if okl {
			eBound, feasible = b.noisePlan(p, n1s, eFresh, lv, rescales)
		}
		if !okl || !feasible {
			c.Count("programs_skipped_no_noise_room", 1)
			return
		}
		c.Count("programs_lifted_to_top_level", 1)
	}

	desc := progDesc{Scheme: b.cfg.Scheme, Ring: "std", LogN: b.cfg.LogN, LogCols: logCols, Rows: 2, Mode: p.mode, CtLevel: p.ctLevel,
		CtScale: fmt.Sprint(ctScale), OutLevel: p.outLevel, LevelP: p.levelP, KeyLvlQ: p.keyLvlQ, EncPk: p.encPk, VType: map[bool]string{true: "int64", false: "uint64"}[useInt]}
	if p.isNew() {
		desc.OutLevel = -1
	}
	desc.X = p.x
	for i, lt := range p.lts {
		desc.LTs = append(desc.LTs, ltDesc{Diags: lt.lib, Kind: lt.kind, Val: lt.val, Ratio: lt.ratio, LevelQ: lt.levelQ, Scale: fmt.Sprint(ltScales[i]), Perm: lt.perm, GalFrom: lt.galFrom})
	}
	if pi == 0 {
		c.Sample(desc)
	}
	ent := entry(b.cfg.Scheme, p.mode)
	if p.x != nil && p.x.Call == xCallDirect {
		ent = directEntry(n1s[0])
	}
	fail := func(class, detail string) {
		c.Violate(ent+"|"+class, detail+fmt.Sprintf("\nprogram=%+v", desc), desc)
	}

	// encode
	for i := range lts {
		var e error
		ii := i
		if p.x != nil && p.x.Decoy {
			// the transformation is a used receiver: another matrix with the same diagonals is encoded first
			rd := r.Sub("decoy", ii)
			var e0 error
			if !c.Try("C12|bgv/lintrans.Encode", func() {
				if libs[ii].s != nil {
					d := bglt.Diagonals[int64]{}
					for kk := range libs[ii].s {
						d[kk] = toDiagI(map[int][]uint64{0: bgvValues(rd, 2*cols, t, "uniform")}, t)[0]
					}
					e0 = bglt.Encode(b.ecd, d, lts[ii])
				} else {
					d := bglt.Diagonals[uint64]{}
					for kk := range libs[ii].u {
						d[kk] = bgvValues(rd, 2*cols, t, "uniform")
					}
					e0 = bglt.Encode(b.ecd, d, lts[ii])
				}
			}) {
				return
			}
			if e0 != nil {
				c.Violate("C12|bgv/lintrans.Encode|error-on-admissible", fmt.Sprintf("%v\nprogram=%+v", e0, desc), desc)
				return
			}
		}
		if !c.Try("C12|bgv/lintrans.Encode", func() {
			if libs[ii].s != nil {
				e = bglt.Encode(b.ecd, libs[ii].s, lts[ii])
			} else {
				e = bglt.Encode(b.ecd, libs[ii].u, lts[ii])
			}
		}) {
			return
		}
		if e != nil {
			c.Violate("C12|bgv/lintrans.Encode|error-on-admissible", fmt.Sprintf("%v\nprogram=%+v", e, desc), desc)
			return
		}
	}

	// advertised Galois elements, exactly those keys
	galSet := map[uint64]bool{}
	for i, lt := range p.lts {
		var ge []uint64
		ii := i
		if !c.Try("C12|lintrans.GaloisElements", func() {
			if lt.galFrom == "params" {
				ge = comlt.GaloisElements(params, append([]int(nil), lt.lib...), cols, lt.ratio)
			} else {
				ge = lts[ii].GaloisElements(params)
			}
		}) {
			return
		}
		for _, g := range ge {
			galSet[g] = true
		}
	}
	galEls := make([]uint64, 0, len(galSet))
	for g := range galSet {
		galEls = append(galEls, g)
	}
	lq, lp := p.keyLvlQ, p.levelP
	gks := b.kgen.GenGaloisKeysNew(galEls, b.sk, rlwe.EvaluationKeyParameters{LevelQ: &lq, LevelP: &lp})
	evk := rlwe.NewMemEvaluationKeySet(nil, gks...)
	ev := bgv.NewEvaluator(params, evk, !rescales)
	if p.x != nil {
		ev = b.x.evaluator(c, r.Sub("xev"), p.x, params.GetRLWEParameters(), ev,
			func() schemes.Evaluator { return bgv.NewEvaluator(params, nil, !rescales) },
			func(e schemes.Evaluator) schemes.Evaluator { return e.(*bgv.Evaluator).WithKey(evk) },
			func(e schemes.Evaluator) schemes.Evaluator { return e.(*bgv.Evaluator).ShallowCopy() }).(*bgv.Evaluator)
	}
	lev := bglt.NewEvaluator(ev)
	if p.x != nil && p.x.Literal {
		lev = &bglt.Evaluator{Evaluator: comlt.Evaluator{Evaluator: ev}}
	}
	c.Count("galois_keys_generated", int64(len(galEls)))
	c.Max("max_galois_keys_per_program", int64(len(galEls)))

	// input
	v := bgvValues(r, 2*cols, t, eng.Pick(r, "uniform", "uniform", "extreme", "halfzero"))
	pt := bgv.NewPlaintext(params, p.ctLevel)
	pt.Scale = params.NewScale(ctScale)
	if err := b.ecd.Encode(v, pt); err != nil {
		c.Inconclusive("encode input: " + err.Error())
		return
	}
	var enc *rlwe.Encryptor
	if p.encPk {
		enc = rlwe.NewEncryptor(params, b.pk)
	} else {
		enc = rlwe.NewEncryptor(params, b.sk)
	}
	ct, err := enc.EncryptNew(pt)
	if err != nil {
		c.Inconclusive("encrypt input: " + err.Error())
		return
	}
	ctSnap := ct.CopyNew()

	// call
	deg := 1
	if p.x != nil && p.x.RecvDeg2 {
		deg = 2
	}
	var extras, extraSnaps []*rlwe.Ciphertext
	call := func(ct *rlwe.Ciphertext) (outs []*rlwe.Ciphertext, cerr error) {
		switch p.mode {
		case mEval:
			o := bgv.NewCiphertext(params, deg, p.outLevel)
			dirtyQ(r, o, params.Q())
			if p.x != nil && p.x.Call == xCallDirect {
				cerr = directCall(lev.Evaluator, ct, comlt.LinearTransformation(lts[0]), o, p.x.Junk)
			} else {
				cerr = lev.Evaluate(ct, lts[0], o)
			}
			outs = []*rlwe.Ciphertext{o}
		case mEvalIn:
			cerr = lev.Evaluate(ct, lts[0], ct)
			outs = []*rlwe.Ciphertext{ct}
		case mEvalNew:
			var o *rlwe.Ciphertext
			o, cerr = lev.EvaluateNew(ct, lts[0])
			outs = []*rlwe.Ciphertext{o}
		case mMany:
			outs = make([]*rlwe.Ciphertext, len(lts))
			for i := range outs {
				outs[i] = bgv.NewCiphertext(params, deg, p.outLevel)
				dirtyQ(r, outs[i], params.Q())
			}
			if p.aliasLast {
				outs[len(outs)-1] = ct
			}
			if p.x != nil && p.x.Call == xCallExtraRecv {
				extras, extraSnaps = nil, nil
				for i := 0; i < 2; i++ {
					o := bgv.NewCiphertext(params, 1, p.outLevel)
					dirtyQ(r, o, params.Q())
					extras = append(extras, o)
					extraSnaps = append(extraSnaps, o.CopyNew())
				}
				cerr = lev.EvaluateMany(ct, lts, append(append([]*rlwe.Ciphertext(nil), outs...), extras...))
			} else {
				cerr = lev.EvaluateMany(ct, lts, outs)
			}
		case mManyNew:
			outs, cerr = lev.EvaluateManyNew(ct, lts)
		case mSeq:
			o := bgv.NewCiphertext(params, deg, p.outLevel)
			dirtyQ(r, o, params.Q())
			if p.x != nil && p.x.Call == xCallSeqInPl {
				o = ct
			}
			cerr = lev.EvaluateSequential(ct, lts, o)
			outs = []*rlwe.Ciphertext{o}
		case mSeqNew:
			var o *rlwe.Ciphertext
			o, cerr = lev.EvaluateSequentialNew(ct, lts)
			outs = []*rlwe.Ciphertext{o}
		}
		return
	}
	var outs []*rlwe.Ciphertext
	var cerr error
	trySig := ent
	if p.levelP > params.MaxLevel() {
		// triaged class of its own (see sigPAboveQ): computed from the program, never from the outcome
		trySig = sigPAboveQ
		c.Count("x_programs_levelP_above_max_levelQ", 1)
	}
	okc := c.Try(trySig, func() { outs, cerr = call(ct) })
	c.Count("programs_"+p.mode, 1)
	if p.x != nil {
		c.Distinct(p.key(b.cfg.Scheme, "std", b.cfg.LogN, n1s)+"|"+p.x.key(), p.nontrivial())
		xCoverage(c, p)
	} else {
		c.Distinct(p.key(b.cfg.Scheme, "std", b.cfg.LogN, n1s), p.nontrivial())
	}
	b.coverage(p, n1s)
	if !okc {
		return
	}
	c.Eval(1)
	if cerr != nil {
		c.Count("errors_observed", 1)
		fail(errClass(cerr), cerr.Error())
		return
	}
	if p.mode != mEvalIn && !(p.x != nil && p.x.inputAliased()) && !ct.Equal(ctSnap) {
		fail("input-modified", "input ciphertext changed by the call")
	}
	if p.x != nil {
		xAfterCall(c, ent, p, outs, extras, extraSnaps, func() ([]*rlwe.Ciphertext, error) { return call(ctSnap.CopyNew()) }, fail)
	}

	// expectations
	type expect struct {
		vals  []uint64
		scale uint64
		level int
	}
	var exps []expect
	if p.isSeq() {
		cur := append([]uint64(nil), v...)
		sc := ctScale % t
		for i := range p.lts {
			cur = mats[i].apply(cur, cols, t)
			sc = ref.MulMod(sc, ltScales[i]%t, t)
			if rescales {
				sc = ref.MulMod(sc, ref.InvMod(params.Q()[lv[i]]%t, t), t)
			}
		}
		exps = []expect{{cur, sc, final}}
	} else {
		for i := range p.lts {
			exps = append(exps, expect{mats[i].apply(v, cols, t), ref.MulMod(ctScale%t, ltScales[i]%t, t), lv[i]})
		}
	}
	if len(outs) != len(exps) {
		fail("wrong-output-count", fmt.Sprintf("got %d outputs want %d", len(outs), len(exps)))
		return
	}
	for i, o := range outs {
		ex := exps[i]
		c.Eval(1)
		if o == nil || o.MetaData == nil {
			fail("nil-output", fmt.Sprintf("output %d", i))
			continue
		}
		if o.Level() != ex.level {
			fail("wrong-level", fmt.Sprintf("output %d: level %d, documented min(levels) = %d", i, o.Level(), ex.level))
		}
		gotScale := o.Scale.Uint64()
		if gotScale != ex.scale || o.Scale.Mod == nil || o.Scale.Mod.Uint64() != t {
			fail("wrong-scale", fmt.Sprintf("output %d: scale %v (mod %v), documented %d", i, gotScale, o.Scale.Mod, ex.scale))
		}
		if o.LogDimensions != params.LogMaxDimensions() || !o.IsNTT || !o.IsBatched || o.IsMontgomery {
			fail("wrong-metadata", fmt.Sprintf("output %d: %+v", i, *o.MetaData))
		}
		got := make([]uint64, 2*cols)
		var derr error
		if !c.Try(ent+"|decode", func() { derr = b.ecd.Decode(b.dec.DecryptNew(o), got) }) {
			continue
		}
		if derr != nil {
			fail("decode-error", derr.Error())
			continue
		}
		bad := -1
		nbad := 0
		for j := range got {
			if got[j] != ex.vals[j] {
				if bad < 0 {
					bad = j
				}
				nbad++
			}
		}
		c.Count("slots_compared", int64(len(got)))
		if bad >= 0 {
			class := "wrong-value"
			ksig := ""
			if !p.isSeq() {
				ksig = p.knownClass(i, n1s, cols)
			} else {
				for j := range p.lts {
					if ksig = p.knownClass(j, n1s, cols); ksig != "" {
						break
					}
				}
			}
			if ksig != "" {
				c.Violate(ksig, fmt.Sprintf("%s output %d: %d/%d slots differ (t=%d)\nprogram=%+v", ent, i, nbad, len(got), t, desc), desc)
				continue
			}
			fail(class, fmt.Sprintf("output %d: %d/%d slots differ, first at row %d col %d: got %d want %d (t=%d)", i, nbad, len(got), bad/cols, bad%cols, got[bad], ex.vals[bad], t))
			continue
		}
		// noise against the worst-case bound (only meaningful when level and scale are the documented ones)
		if o.Level() == ex.level && gotScale == ex.scale {
			ept := bgv.NewPlaintext(params, ex.level)
			ept.Scale = params.NewScale(ex.scale)
			if err := b.ecd.Encode(ex.vals, ept); err == nil {
				rq := params.RingQ().AtLevel(ex.level)
				ph := obs.Phase(*params.GetRLWEParameters(), &o.Element, b.sk)
				st := obs.Stat(obs.Diff(rq, ph, obs.Plain(rq, ept.Value, ept.IsNTT, ept.IsMontgomery)))
				c.Count("noise_measurements", 1)
				c.Max("max_noise_log2_x10_bgv", int64(10*st.MaxLog2))
				bound := new(big.Float).SetFloat64(eBound)
				meas := new(big.Float).SetInt(st.Max)
				c.Max("max_noise_over_bound_log2_x10_plus1000_bgv", 1000+int64(10*(st.MaxLog2-math.Log2(eBound))))
				c.Eval(1)
				if meas.Cmp(bound) > 0 {
					fail("noise-above-worst-case", fmt.Sprintf("output %d: measured 2^%.1f, worst-case bound 2^%.1f", i, st.MaxLog2, math.Log2(eBound)))
				}
			}
		}
	}
}

func (b *bgvCtx) coverage(p plan, n1s []int) {
	coverage(b.c, p, n1s, b.cols, b.params.GetRLWEParameters())
}

// coverage counters shared by both schemes.
func coverage(c *eng.Ctx, p plan, n1s []int, cols int, rp *rlwe.Parameters) {
	for i, lt := range p.lts {
		c.Count("matrices", 1)
		c.Count(fmt.Sprintf("matrices_ratio_%d", lt.ratio), 1)
		c.Count("matrices_kind_"+lt.kind, 1)
		if hasNeg(lt.lib) {
			c.Count("matrices_with_negative_index", 1)
		}
		if lt.levelQ < rp.MaxLevel() {
			c.Count("matrices_encoded_below_max_level", 1)
		}
		baby, giant, inner := rotCounts(lt.norm, cols, n1s[i])
		if n1s[i] > 0 {
			c.Count("matrices_bsgs", 1)
			if baby > 0 && giant > 0 {
				c.Count("matrices_bsgs_with_baby_and_giant_steps", 1)
			}
			marg := rp.QiOverflowMargin(lt.levelQ) >> 1
			if inner >= marg {
				c.Count("matrices_inner_loop_reaches_lazy_reduction_margin", 1)
			}
			if giant+1 >= marg {
				c.Count("matrices_outer_loop_reaches_lazy_reduction_margin", 1)
			}
		} else {
			c.Count("matrices_naive", 1)
		}
		c.Max("max_diagonals", int64(len(lt.norm)))
		c.Max("max_dimension_log2", int64(bitsOf(cols)))
		c.Count(fmt.Sprintf("matrices_dim_log2_%d", bitsOf(cols)), 1)
	}
	if p.ctLevel < rp.MaxLevel() {
		c.Count("programs_ct_below_max_level", 1)
	}
	if p.levelP < rp.MaxLevelP() {
		c.Count("programs_levelP_below_max", 1)
	}
	if p.keyLvlQ < rp.MaxLevel() {
		c.Count("programs_keys_below_max_levelQ", 1)
	}
}

func errClass(err error) string {
	s := err.Error()
	switch {
	case contains(s, "key is missing") || contains(s, "CheckAndGetGaloisKey") || contains(s, "evaluation key interface is nil"):
		return "error|advertised-galois-keys-insufficient"
	case contains(s, "LevelP"):
		return "error|levelP"
	case contains(s, "rescale") || contains(s, "Rescale"):
		return "error|rescale"
	}
	return "error|other"
}

func contains(s, sub string) bool {
	return len(sub) <= len(s) && (func() bool {
		for i := 0; i+len(sub) <= len(s); i++ {
			if s[i:i+len(sub)] == sub {
				return true
			}
		}
		return false
	})()
}

// refusals builds the objects of the refusal checks (refusals.go) for the integer schemes.
func (b *bgvCtx) refusals(r *eng.Rand) {
	c := b.c
	params := b.params
	cols := b.cols
	t := b.t
	levelP := params.MaxLevelP()
	if levelP > params.MaxLevel() {
		levelP = params.MaxLevel() // see sigPAboveQ
	}
	diags := refusalDiags(cols)
	alloc := func(ratio, lp int) (lt bglt.LinearTransformation, ok bool) {
		ok = c.Try("C12|bgv/lintrans.NewLinearTransformation", func() {
			lt = bglt.NewLinearTransformation(params, bglt.Parameters{DiagonalsIndexList: append([]int(nil), diags...), LevelQ: params.MaxLevel(), LevelP: lp,
				Scale: params.NewScale(1), LogDimensions: params.LogMaxDimensions(), LogBabyStepGiantStepRatio: ratio})
		})
		return
	}
	naive, ok1 := alloc(-1, levelP)
	bsgs, ok2 := alloc(0, levelP)
	if !ok1 || !ok2 {
		return
	}
	d := bglt.Diagonals[uint64]{}
	for _, k := range diags {
		d[k] = bgvValues(r, 2*cols, t, "uniform")
	}
	for _, lt := range []bglt.LinearTransformation{naive, bsgs} {
		var e error
		l := lt
		if !c.Try("C12|bgv/lintrans.Encode", func() { e = bglt.Encode(b.ecd, d, l) }) || e != nil {
			return
		}
	}
	env := &refEnv{c: c, pk: "bgv/lintrans", rp: params.GetRLWEParameters(), cols: cols, levelP: levelP,
		naive: comlt.LinearTransformation(naive), bsgs: comlt.LinearTransformation(bsgs), keys: map[uint64]*rlwe.GaloisKey{},
		desc: map[string]any{"scheme": b.cfg.Scheme, "logN": b.cfg.LogN, "diags": diags, "N1": bsgs.N1, "levelP": levelP}}
	if levelP > 0 {
		if low, ok := alloc(-1, levelP-1); ok {
			l := comlt.LinearTransformation(low)
			env.lowP = &l
		}
	}
	var ges []uint64
	if !c.Try("C12|lintrans.GaloisElements", func() { ges = append(naive.GaloisElements(params), bsgs.GaloisElements(params)...) }) {
		return
	}
	for _, g := range ges {
		if _, ok := env.keys[g]; !ok {
			lq, lp := params.MaxLevel(), levelP
			env.keys[g] = b.kgen.GenGaloisKeyNew(g, b.sk, rlwe.EvaluationKeyParameters{LevelQ: &lq, LevelP: &lp})
		}
	}
	env.newCt = func() *rlwe.Ciphertext { return bgv.NewCiphertext(params, 1, params.MaxLevel()) }
	pt := bgv.NewPlaintext(params, params.MaxLevel())
	if err := b.ecd.Encode(bgvValues(r, 2*cols, t, "uniform"), pt); err != nil {
		return
	}
	ct, err := rlwe.NewEncryptor(params, b.sk).EncryptNew(pt)
	if err != nil {
		return
	}
	env.ct = ct
	env.mk = func(evk rlwe.EvaluationKeySet) refCalls {
		lev := bglt.NewEvaluator(bgv.NewEvaluator(params, evk, b.cfg.Scheme == "bfv"))
		return refCalls{
			evaluate: func(ct *rlwe.Ciphertext, lt comlt.LinearTransformation, out *rlwe.Ciphertext) error {
				return lev.Evaluate(ct, bglt.LinearTransformation(lt), out)
			},
			many: func(ct *rlwe.Ciphertext, lts []comlt.LinearTransformation, outs []*rlwe.Ciphertext) error {
				l := make([]bglt.LinearTransformation, len(lts))
				for i := range lts {
					l[i] = bglt.LinearTransformation(lts[i])
				}
				return lev.EvaluateMany(ct, l, outs)
			},
		}
	}
	env.run()
}
