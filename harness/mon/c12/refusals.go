package c12

// Refusal paths (run once at the end of every extended scheme case):
//
//   - a Galois key that is advertised by GaloisElements ("the list of Galois elements needed for the
//     evaluation") and that belongs to a rotation of the documented algorithm (naive: one rotation per
//     non-zero diagonal; BSGS with the N1 of the allocated object: baby step k mod N1, giant step
//     k - k mod N1) is removed from the key set: Evaluate must return an error - not panic, not return
//     nil - and must leave the (non-aliased) input ciphertext untouched;
//   - the argument checks of EvaluateMany (fewer receivers than matrices, a nil receiver, a receiver
//     other than the last one that is the input, matrices with different LevelP) must return an error
//     and leave input and receivers untouched.

import (
	"fmt"

	comlt "github.com/tuneinsight/lattigo/v6/circuits/common/lintrans"
	"github.com/tuneinsight/lattigo/v6/core/rlwe"

	"verif/harness/eng"
)

type refCalls struct {
	evaluate func(ct *rlwe.Ciphertext, lt comlt.LinearTransformation, out *rlwe.Ciphertext) error
	many     func(ct *rlwe.Ciphertext, lts []comlt.LinearTransformation, outs []*rlwe.Ciphertext) error
}

type refEnv struct {
	c      *eng.Ctx
	pk     string // bgv/lintrans | ckks/lintrans
	rp     *rlwe.Parameters
	cols   int
	levelP int
	newCt  func() *rlwe.Ciphertext // receiver at the maximum level
	ct     *rlwe.Ciphertext
	naive  comlt.LinearTransformation  // encoded, N1 == 0
	bsgs   comlt.LinearTransformation  // encoded, N1 > 0
	lowP   *comlt.LinearTransformation // allocated with LevelP-1 (nil when LevelP == 0)
	keys   map[uint64]*rlwe.GaloisKey  // every advertised key
	mk     func(evk rlwe.EvaluationKeySet) refCalls
	desc   map[string]any
}

func (e *refEnv) keySet(without uint64) rlwe.EvaluationKeySet {
	var gks []*rlwe.GaloisKey
	for g, k := range e.keys {
		if g != without {
			gks = append(gks, k)
		}
	}
	return rlwe.NewMemEvaluationKeySet(nil, gks...)
}

func (e *refEnv) run() {
	c := e.c
	entMany := "C12|" + e.pk + ".Evaluator.EvaluateMany"
	entEval := "C12|" + e.pk + ".Evaluator.Evaluate"
	both := []comlt.LinearTransformation{e.naive, e.bsgs}
	ctSnap := e.ct.CopyNew()

	full := e.mk(e.keySet(0))
	o0, o1 := e.newCt(), e.newCt()
	var err error
	if !c.Try(entMany, func() { err = full.many(e.ct, both, []*rlwe.Ciphertext{o0, o1}) }) {
		return
	}
	if err != nil {
		// judged by the value families; nothing to refuse relative to
		c.Count("x_refusal_skipped_baseline_error", 1)
		return
	}

	// --- missing advertised key
	type miss struct {
		class string
		lt    comlt.LinearTransformation
		rot   int
	}
	var misses []miss
	for k := range e.naive.Vec {
		if kk := norm(k, e.cols); kk != 0 {
			misses = append(misses, miss{"naive-rotation", e.naive, kk})
			break
		}
	}
	n1 := e.bsgs.N1
	baby, giant := -1, -1
	for k := range e.bsgs.Vec {
		kk := norm(k, e.cols)
		if b := kk % n1; b != 0 && (baby < 0 || b < baby) {
			baby = b
		}
		if g := kk - kk%n1; g != 0 && (giant < 0 || g < giant) {
			giant = g
		}
	}
	if baby > 0 {
		misses = append(misses, miss{"bsgs-baby-step", e.bsgs, baby})
	}
	if giant > 0 {
		misses = append(misses, miss{"bsgs-giant-step", e.bsgs, giant})
	}
	for _, m := range misses {
		g := e.rp.GaloisElement(m.rot)
		if _, ok := e.keys[g]; !ok {
			// not advertised: nothing to remove (sufficiency is judged by the value families)
			c.Count("x_refusal_rotation_not_advertised", 1)
			continue
		}
		calls := e.mk(e.keySet(g))
		out := e.newCt()
		var err error
		mm := m
		if !c.Try(entEval+"|missing-galois-key|"+m.class, func() { err = calls.evaluate(e.ct, mm.lt, out) }) {
			continue
		}
		c.Count("x_refusals_missing_key", 1)
		c.Check(err != nil, entEval+"|missing-galois-key-accepted|"+m.class, func() string {
			return fmt.Sprintf("rotation %d (Galois element %d) removed from the key set, Evaluate returned nil; %v", mm.rot, g, e.desc)
		})
		c.Check(e.ct.Equal(ctSnap), entEval+"|missing-galois-key-modifies-input|"+m.class, func() string {
			return fmt.Sprintf("rotation %d removed, input ciphertext changed by the refused call; %v", mm.rot, e.desc)
		})
		if !e.ct.Equal(ctSnap) {
			e.ct = ctSnap.CopyNew()
		}
	}

	// --- argument checks of EvaluateMany
	type argCase struct {
		what string
		lts  []comlt.LinearTransformation
		outs func() []*rlwe.Ciphertext
	}
	cases := []argCase{
		{"fewer-receivers-than-matrices", both, func() []*rlwe.Ciphertext { return []*rlwe.Ciphertext{e.newCt()} }},
		{"nil-receiver", both, func() []*rlwe.Ciphertext { return []*rlwe.Ciphertext{e.newCt(), nil} }},
		{"non-last-receiver-is-the-input", both, func() []*rlwe.Ciphertext { return []*rlwe.Ciphertext{e.ct, e.newCt()} }},
	}
	if e.lowP != nil {
		cases = append(cases, argCase{"different-levelP", []comlt.LinearTransformation{e.naive, *e.lowP}, func() []*rlwe.Ciphertext { return []*rlwe.Ciphertext{e.newCt(), e.newCt()} }})
	}
	for _, ac := range cases {
		outs := ac.outs()
		snaps := make([]*rlwe.Ciphertext, len(outs))
		for i, o := range outs {
			if o != nil {
				snaps[i] = o.CopyNew()
			}
		}
		var err error
		a := ac
		if !c.Try(entMany+"|refusal|"+a.what, func() { err = full.many(e.ct, a.lts, outs) }) {
			continue
		}
		c.Count("x_refusals_argument_checks", 1)
		c.Check(err != nil, entMany+"|refusal|"+a.what+"-accepted", func() string { return fmt.Sprintf("EvaluateMany returned nil; %v", e.desc) })
		intact := e.ct.Equal(ctSnap)
		for i, o := range outs {
			if o != nil && !o.Equal(snaps[i]) {
				intact = false
			}
		}
		c.Check(intact, entMany+"|refusal|"+a.what+"-modifies-operands", func() string { return fmt.Sprintf("input or receivers changed by the refused call; %v", e.desc) })
		if !e.ct.Equal(ctSnap) {
			e.ct = ctSnap.CopyNew()
		}
	}
}

// refusalDiags: a set with rotations in every class for any power-of-two split (n >= 4), or {1} for n = 2.
func refusalDiags(n int) []int {
	if n < 4 {
		return []int{0, 1}
	}
	set := map[int]bool{}
	var out []int
	for _, k := range []int{0, 1, 2, 3, n / 2, n/2 + 1, n - 1} {
		k = norm(k, n)
		if !set[k] {
			set[k] = true
			out = append(out, k)
		}
	}
	return out
}
