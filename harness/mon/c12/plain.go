package c12

// x/plain: the plaintext-side exported entry points of the anchor files, judged by exact models:
//
//   - bgv/lintrans.Diagonals.Evaluate and ckks/lintrans.Diagonals.Evaluate ("evaluates the linear
//     transformation on the provided vector") against out[i] = sum_d diag_d[i]*v[(i+d) mod n] per row;
//   - common/lintrans.Diagonals.At ("accepts negative values with the equivalency -i = n - i");
//   - common/lintrans.Diagonals.DiagonalsIndexList;
//   - common/lintrans.BSGSIndex (every diagonal index is covered exactly once by a pair giant step +
//     baby step, the advertised rotation lists contain every step) and FindBestBSGSRatio (N1 divides n);
//   - Permutation.GetDiagonals of both schemes against the matrix of the permutation.

import (
	"fmt"
	"math/cmplx"
	"sort"

	bglt "github.com/tuneinsight/lattigo/v6/circuits/bgv/lintrans"
	cklt "github.com/tuneinsight/lattigo/v6/circuits/ckks/lintrans"
	comlt "github.com/tuneinsight/lattigo/v6/circuits/common/lintrans"

	"verif/harness/eng"
	"verif/harness/ref"
)

const (
	sigAtNeg = "C12|common/lintrans.Diagonals.At|error-on-admissible|negative-index-of-diagonal-stored-under-positive-key"
	sigAtPos = "C12|common/lintrans.Diagonals.At|error-on-admissible|positive-index-of-diagonal-stored-under-negative-key"
)

type plainDesc struct {
	What  string `json:"what"`
	N     int    `json:"n"`
	Diags []int  `json:"diags"`
	Kind  string `json:"kind"`
	T     uint64 `json:"t,omitempty"`
	Arg   int    `json:"arg,omitempty"`
}

func runPlain(c *eng.Ctx, idx int, thorough bool) {
	r := c.Rand()
	iters := 60
	if thorough {
		iters = 150
	}
	for it := 0; it < iters; it++ {
		rr := r.Sub("it", it)
		logn := 1 + rr.N(8)
		if it%7 == 0 {
			logn = 1 + rr.N(3)
		}
		n := 1 << logn
		kind := diagKinds[rr.N(len(diagKinds))]
		if n == 2 && kind == "edge" {
			kind = "single"
		}
		nrm := diagSet(rr, n, kind, 64)
		lib := signed(rr, nrm, n, kind)
		t := bgvT[rr.N(len(bgvT))]
		d := plainDesc{N: n, Diags: lib, Kind: kind, T: t}
		if it == 0 {
			c.Sample(d)
		}
		c.Distinct(fmt.Sprintf("plain/%d/%v", n, lib), hasNonZero(nrm))
		plainBGVEvaluate(c, rr.Sub("bgv"), d, nrm)
		plainCKKSEvaluate(c, rr.Sub("ckks"), d, nrm)
		plainAt(c, rr.Sub("at"), d, nrm)
		plainBSGS(c, rr.Sub("bsgs"), d, nrm)
		plainPermBGV(c, rr.Sub("pbgv"), logn, t)
		plainPermCKKS(c, rr.Sub("pckks"), logn)
	}
}

func plainBGVEvaluate(c *eng.Ctx, r *eng.Rand, d plainDesc, nrm []int) {
	d.What = "bgv/lintrans.Diagonals.Evaluate"
	ent := "C12|bgv/lintrans.Diagonals.Evaluate"
	n, t := d.N, d.T
	val := eng.Pick(r, "uniform", "uniform", "ones", "halfzero", "extreme", "rowdiff")
	model := map[int][]uint64{}
	libm := bglt.Diagonals[uint64]{}
	for i, k := range d.Diags {
		_ = i
		v := bgvValues(r, 2*n, t, val)
		model[norm(k, n)] = v
		libm[k] = append([]uint64(nil), v...)
	}
	v := bgvValues(r, 2*n, t, eng.Pick(r, "uniform", "extreme", "halfzero"))
	vSnap := append([]uint64(nil), v...)
	want := bgvMat{diag: model}.apply(v, n, t)
	newVec := func(size int) []uint64 { return make([]uint64, size) }
	add := func(a, b, out []uint64) {
		for i := range out {
			out[i] = ref.AddMod(a[i]%t, b[i]%t, t)
		}
	}
	muladd := func(a, b, out []uint64) {
		for i := range out {
			out[i] = ref.AddMod(out[i]%t, ref.MulMod(a[i]%t, b[i]%t, t), t)
		}
	}
	var got []uint64
	if !c.Try(ent, func() { got = libm.Evaluate(v, newVec, add, muladd) }) {
		return
	}
	c.Count("x_plain_evaluate_bgv", 1)
	ok := len(got) == len(want)
	for i := 0; ok && i < len(want); i++ {
		ok = got[i]%t == want[i]
	}
	c.Check(ok, ent+"|wrong-value", func() string { return fmt.Sprintf("%+v\ngot  %v\nwant %v", d, got, want) })
	same := true
	for i := range v {
		same = same && v[i] == vSnap[i]
	}
	for k, dv := range libm {
		for i := range dv {
			same = same && dv[i] == model[norm(k, n)][i]
		}
	}
	c.Check(same, ent+"|input-modified", func() string { return fmt.Sprintf("%+v", d) })
}

func plainCKKSEvaluate(c *eng.Ctx, r *eng.Rand, d plainDesc, nrm []int) {
	d.What = "ckks/lintrans.Diagonals.Evaluate"
	d.T = 0
	ent := "C12|ckks/lintrans.Diagonals.Evaluate"
	n := d.N
	k := &ckksCtx{}
	val := eng.Pick(r, "uniform", "uniform", "ones", "halfzero", "extreme", "rowdiff")
	model := map[int][]complex128{}
	libm := cklt.Diagonals[complex128]{}
	for _, kk := range d.Diags {
		v := k.values(r, n, val)
		model[norm(kk, n)] = v
		libm[kk] = append([]complex128(nil), v...)
	}
	v := k.values(r, n, "uniform")
	want, absSum, _ := ckMat{diag: model}.apply(v)
	newVec := func(size int) []complex128 { return make([]complex128, size) }
	add := func(a, b, out []complex128) {
		for i := range out {
			out[i] = a[i] + b[i]
		}
	}
	muladd := func(a, b, out []complex128) {
		for i := range out {
			out[i] += a[i] * b[i]
		}
	}
	var got []complex128
	if !c.Try(ent, func() { got = libm.Evaluate(v, newVec, add, muladd) }) {
		return
	}
	c.Count("x_plain_evaluate_ckks", 1)
	ok := len(got) == len(want)
	tol := 1e-9 * (absSum + 1)
	for i := 0; ok && i < len(want); i++ {
		ok = cmplx.Abs(got[i]-want[i]) <= tol
	}
	c.Check(ok, ent+"|wrong-value", func() string { return fmt.Sprintf("%+v\ngot  %v\nwant %v", d, got, want) })
}

func plainAt(c *eng.Ctx, r *eng.Rand, d plainDesc, nrm []int) {
	d.What = "common/lintrans.Diagonals.At"
	ent := "C12|common/lintrans.Diagonals.At"
	n := d.N
	m := comlt.Diagonals[uint64]{}
	for _, k := range d.Diags {
		m[k] = []uint64{uint64(norm(k, n)) + 1000}
	}
	stored := map[int]int{} // normalised -> stored key
	for _, k := range d.Diags {
		stored[norm(k, n)] = k
	}
	// DiagonalsIndexList: exactly the stored keys
	lst := m.DiagonalsIndexList()
	a := append([]int(nil), lst...)
	b := append([]int(nil), d.Diags...)
	sort.Ints(a)
	sort.Ints(b)
	c.Check(fmt.Sprint(a) == fmt.Sprint(b), "C12|common/lintrans.Diagonals.DiagonalsIndexList|wrong-value", func() string { return fmt.Sprintf("%+v got %v", d, lst) })
	for kn, ks := range stored {
		asks := []int{kn}
		if kn != 0 {
			asks = append(asks, kn-n)
		}
		for _, ask := range asks {
			var v []uint64
			var err error
			dd := d
			dd.Arg = ask
			if !c.Try(ent, func() { v, err = m.At(ask, n) }) {
				continue
			}
			c.Count("x_plain_at_lookups", 1)
			if err != nil {
				sig := ent + "|error-on-admissible|stored-key"
				switch {
				case ask < 0 && ks >= 0:
					sig = sigAtNeg
				case ask >= 0 && ks < 0:
					sig = sigAtPos
				}
				c.Eval(1)
				c.Violate(sig, fmt.Sprintf("At(%d, %d) = error %q, the diagonal is stored under the key %d; %+v", ask, n, err.Error(), ks, dd), dd)
				continue
			}
			c.Check(len(v) == 1 && v[0] == uint64(kn)+1000, ent+"|wrong-diagonal", func() string { return fmt.Sprintf("At(%d,%d) = %v; %+v", ask, n, v, dd) })
		}
	}
	// an absent diagonal is refused with an error
	for tries := 0; tries < 3; tries++ {
		kn := r.N(n)
		if _, ok := stored[kn]; ok {
			continue
		}
		ask := kn
		if kn != 0 && r.Bool() {
			ask = kn - n
		}
		var v []uint64
		var err error
		dd := d
		dd.Arg = ask
		if !c.Try(ent, func() { v, err = m.At(ask, n) }) {
			continue
		}
		c.Count("x_plain_at_absent", 1)
		c.Check(err != nil, ent+"|absent-diagonal-not-refused", func() string { return fmt.Sprintf("At(%d,%d) = %v; %+v", ask, n, v, dd) })
	}
}

func plainBSGS(c *eng.Ctx, r *eng.Rand, d plainDesc, nrm []int) {
	d.What = "common/lintrans.BSGSIndex"
	n := d.N
	ent := "C12|common/lintrans.BSGSIndex"
	n1 := 1 << r.N(bitsOf(n)+1)
	d.Arg = n1
	var index map[int][]int
	var rotN1, rotN2 []int
	in := append([]int(nil), d.Diags...)
	if !c.Try(ent, func() { index, rotN1, rotN2 = comlt.BSGSIndex(in, n, n1) }) {
		return
	}
	c.Count("x_plain_bsgs_index", 1)
	inN1 := map[int]bool{}
	for _, j := range rotN1 {
		inN1[j] = true
	}
	inN2 := map[int]bool{}
	for _, i := range rotN2 {
		inN2[i] = true
	}
	cover := map[int]int{}
	ok := true
	why := ""
	for j, is := range index {
		if !inN1[j] {
			ok, why = false, fmt.Sprintf("giant step %d not in the advertised list", j)
		}
		if j < 0 || j >= n || j%n1 != 0 {
			ok, why = false, fmt.Sprintf("giant step %d is not a multiple of N1 in [0,n)", j)
		}
		for _, i := range is {
			if !inN2[i] {
				ok, why = false, fmt.Sprintf("baby step %d not in the advertised list", i)
			}
			if i < 0 || i >= n1 {
				ok, why = false, fmt.Sprintf("baby step %d outside [0,N1)", i)
			}
			cover[norm(i+j, n)]++
		}
	}
	for _, k := range nrm {
		if cover[k] != 1 {
			ok, why = false, fmt.Sprintf("diagonal %d covered %d times", k, cover[k])
		}
	}
	if len(cover) != len(nrm) {
		ok, why = false, "a pair (giant step, baby step) that is no diagonal"
	}
	same := true
	for i := range in {
		same = same && in[i] == d.Diags[i]
	}
	c.Check(ok, ent+"|wrong-decomposition", func() string { return fmt.Sprintf("%s; %+v index=%v rotN1=%v rotN2=%v", why, d, index, rotN1, rotN2) })
	c.Check(same, ent+"|input-modified", func() string { return fmt.Sprintf("%+v", d) })

	ratio := eng.Pick(r, 0, 1, 2, 3, 4, 5)
	var best int
	if !c.Try("C12|common/lintrans.FindBestBSGSRatio", func() { best = comlt.FindBestBSGSRatio(in, n, ratio) }) {
		return
	}
	c.Count("x_plain_find_best_ratio", 1)
	c.Check(best >= 1 && best <= n && n%best == 0, "C12|common/lintrans.FindBestBSGSRatio|not-a-divisor-of-the-dimension", func() string {
		return fmt.Sprintf("N1=%d for n=%d ratio=%d; %+v", best, n, ratio, d)
	})
}

func plainPermBGV(c *eng.Ctx, r *eng.Rand, logn int, t uint64) {
	ent := "C12|bgv/lintrans.Permutation.GetDiagonals"
	n := 1 << logn
	var pm [2][]bglt.PermutationMapping[uint64]
	want := map[int][]uint64{}
	for row := 0; row < 2; row++ {
		to := r.Perm(n)
		from := r.Perm(n)
		m := n
		if r.Bool() {
			m = 1 + r.N(n)
		}
		for j := 0; j < m; j++ {
			s := 1 + r.U64()%(t-1)
			pm[row] = append(pm[row], bglt.PermutationMapping[uint64]{From: from[j], To: to[j], Scaling: s})
			k := norm(from[j]-to[j], n)
			if want[k] == nil {
				want[k] = make([]uint64, 2*n)
			}
			want[k][row*n+to[j]] = s
		}
	}
	var got bglt.Diagonals[uint64]
	if !c.Try(ent, func() { got = bglt.Permutation[uint64](pm).GetDiagonals(logn + 1) }) {
		return
	}
	c.Count("x_plain_permutation_bgv", 1)
	ok := len(got) == len(want)
	for k, dv := range got {
		w := want[norm(k, n)]
		if w == nil || len(dv) != 2*n {
			ok = false
			continue
		}
		for i := range w {
			ok = ok && w[i] == dv[i]
		}
	}
	c.Check(ok, ent+"|wrong-matrix", func() string { return fmt.Sprintf("n=%d perm=%v\ngot  %v\nwant %v", n, pm, got, want) })
}

func plainPermCKKS(c *eng.Ctx, r *eng.Rand, logn int) {
	ent := "C12|ckks/lintrans.Permutation.GetDiagonals"
	n := 1 << logn
	var pm []cklt.PermutationMapping[complex128]
	want := map[int][]complex128{}
	to := r.Perm(n)
	from := r.Perm(n)
	m := n
	if r.Bool() {
		m = 1 + r.N(n)
	}
	for j := 0; j < m; j++ {
		s := complex(0.5+r.F64(), r.F64()-0.5)
		pm = append(pm, cklt.PermutationMapping[complex128]{From: from[j], To: to[j], Scaling: s})
		k := norm(from[j]-to[j], n)
		if want[k] == nil {
			want[k] = make([]complex128, n)
		}
		want[k][to[j]] = s
	}
	var got cklt.Diagonals[complex128]
	if !c.Try(ent, func() { got = cklt.Permutation[complex128](pm).GetDiagonals(logn) }) {
		return
	}
	c.Count("x_plain_permutation_ckks", 1)
	ok := len(got) == len(want)
	for k, dv := range got {
		w := want[norm(k, n)]
		if w == nil || len(dv) != n {
			ok = false
			continue
		}
		for i := range w {
			ok = ok && w[i] == dv[i]
		}
	}
	c.Check(ok, ent+"|wrong-matrix", func() string { return fmt.Sprintf("n=%d perm=%v\ngot  %v\nwant %v", n, pm, got, want) })
}
