package c12

// Extended families added by the coverage audit (case ids start with "x/"; the original cases, their
// ids, descriptors and random streams are unchanged):
//
//   - x/bgv|bfv|ckks/...: the same programs and the same plaintext oracle as the original cases, but
//     every program uses at least one thing the original cases never do: an evaluator that has a
//     history (one base evaluator per case, every program gets base.WithKey(exactly the advertised
//     keys), i.e. the scratch buffers left by all previous programs), an evaluator whose scratch
//     buffers hold adversarial residue, evaluators obtained through ShallowCopy / ShallowCopy+WithKey /
//     the struct literal; the low-level exported entry points (DecomposeNTT + MultiplyByDiagMatrix,
//     PreRotatedCiphertextForDiagonalMatrixMultiplication + MultiplyByDiagMatrixBSGS) called the way
//     EvaluateMany calls them; EvaluateMany whose last receiver is the input (documented: "only the
//     last output can be the input") and with more receivers than matrices; EvaluateSequential in
//     place; receivers of degree 2; a LinearTransformation that is re-encoded (Encode on a used
//     receiver); a second identical call on the same evaluator (bit-wise differential); parameter
//     sets outside the original shapes (up to 8 RNS digits, a single Q modulus, more P than Q moduli,
//     fixed-weight ternary secrets, a tight Gaussian bound, ternary errors). Each case ends with the
//     refusal checks (refusals.go).
//   - x/plain/...: the plaintext-side exported entry points of the anchor files (plain.go).

import (
	"fmt"

	comlt "github.com/tuneinsight/lattigo/v6/circuits/common/lintrans"
	"github.com/tuneinsight/lattigo/v6/core/rlwe"
	"github.com/tuneinsight/lattigo/v6/ring"
	"github.com/tuneinsight/lattigo/v6/ring/ringqp"
	"github.com/tuneinsight/lattigo/v6/schemes"

	"verif/harness/eng"
	"verif/harness/gen"
)

// xcfg is the part of a case descriptor that only the extended cases have.
type xcfg struct {
	Variant string  `json:"variant"`       // shape family
	Xs      string  `json:"xs,omitempty"`  // "" (default ternary p=2/3) | "hw" (fixed Hamming weight H) | "p" (ternary, P)
	H       int     `json:"h,omitempty"`   // Hamming weight for xs=hw
	XsP     float64 `json:"xsp,omitempty"` // probability for xs=p
	Xe      string  `json:"xe,omitempty"`  // "" (default) | "tight" (sigma 3.2, bound 4) | "wide" (sigma 6.4, bound 38.4) | "ternary"
	Refusal bool    `json:"refusal"`       // run the refusal checks at the end of the case
}

func (x *xcfg) dists(n int) (xs, xe ring.DistributionParameters) {
	switch x.Xs {
	case "hw":
		xs = ring.Ternary{H: x.H}
	case "p":
		xs = ring.Ternary{P: x.XsP}
	}
	switch x.Xe {
	case "tight":
		xe = ring.DiscreteGaussian{Sigma: 3.2, Bound: 4}
	case "wide":
		xe = ring.DiscreteGaussian{Sigma: 6.4, Bound: 38.4}
	case "ternary":
		xe = ring.Ternary{P: 0.5}
	}
	return
}

const (
	xCallNone      = ""
	xCallDirect    = "direct"            // the exported low-level entry points, single matrix
	xCallAliasLast = "many-last-aliased" // EvaluateMany, last receiver is the input
	xCallExtraRecv = "many-extra-receivers"
	xCallSeqInPl   = "sequential-inplace"
)

// xprog: the extended decisions of one program.
type xprog struct {
	EvKind   string `json:"ev"`   // hist | hist+dirty | dirty | shallow | shallow+withkey
	Dirt     string `json:"dirt"` // random | max (residue q-1 everywhere)
	Literal  bool   `json:"literal"`
	Call     string `json:"call"`
	RecvDeg2 bool   `json:"recvdeg2"`
	Decoy    bool   `json:"decoy"`
	Repeat   bool   `json:"repeat"`
	Junk     bool   `json:"junk"` // direct BSGS call: the pre-rotation cache holds a stale entry that is not needed
}

func (x *xprog) key() string {
	return fmt.Sprintf("x:%s/%s/%v/%s/%v/%v/%v", x.EvKind, x.Dirt, x.Literal, x.Call, x.RecvDeg2, x.Decoy, x.Repeat)
}

func (x *xprog) inputAliased() bool { return x.Call == xCallAliasLast || x.Call == xCallSeqInPl }

// xstate: per-case state of an extended case.
type xstate struct {
	cfg  *xcfg
	base schemes.Evaluator // the evaluator with a history (scheme evaluator, *bgv.Evaluator or *ckks.Evaluator)
}

// tweak adapts a sampled plan to the extended families. It runs on its own random stream.
func (xs *xstate) tweak(p *plan, r *eng.Rand, maxLevel int, rescales bool) {
	// single-modulus chains: samplePlan assumes maxLevel >= 1
	cl := func(l *int) {
		if *l > maxLevel {
			*l = maxLevel
		}
	}
	cl(&p.ctLevel)
	cl(&p.outLevel)
	cl(&p.keyLvlQ)
	for i := range p.lts {
		cl(&p.lts[i].levelQ)
	}
	if maxLevel == 0 && p.isSeq() && rescales {
		// no level to rescale into: a single matrix through the plain entry points instead
		p.mode = eng.Pick(r, mEval, mEvalIn, mEvalNew)
		p.lts = p.lts[:1]
		if p.mode == mEvalIn {
			p.outLevel = p.ctLevel
		}
	}
	need := p.ctLevel
	mx := 0
	for _, lt := range p.lts {
		if lt.levelQ > mx {
			mx = lt.levelQ
		}
	}
	if mx < need {
		need = mx
	}
	if p.keyLvlQ < need {
		p.keyLvlQ = need
	}

	if p.levelP > maxLevel && r.N(5) != 0 {
		// more P than Q primes: keep most programs below the triaged class sigPAboveQ
		p.levelP = r.N(maxLevel + 1)
	}

	x := &xprog{}
	x.EvKind = eng.Pick(r, "hist", "hist", "hist+dirty", "dirty", "dirty", "shallow", "shallow+withkey")
	x.Dirt = eng.Pick(r, "random", "random", "max")
	x.Literal = r.N(4) == 0
	x.Decoy = r.N(3) == 0
	x.Repeat = r.N(3) == 0
	switch p.mode {
	case mEval:
		if r.N(2) == 0 {
			x.Call = xCallDirect
			x.Junk = r.Bool()
		}
		x.RecvDeg2 = r.N(3) == 0
	case mMany:
		switch r.N(3) {
		case 0:
			x.Call = xCallAliasLast
			p.aliasLast = true
		case 1:
			x.Call = xCallExtraRecv
		}
		x.RecvDeg2 = r.N(3) == 0
	case mSeq:
		if r.N(2) == 0 {
			x.Call = xCallSeqInPl
			p.outLevel = p.ctLevel
		} else {
			x.RecvDeg2 = r.N(3) == 0
		}
	}
	p.x = x
}

// evaluator returns the scheme evaluator of the program. fresh: a newly constructed evaluator holding
// evk; newBase: constructs an evaluator without keys; the three closures hide the scheme type.
func (xs *xstate) evaluator(c *eng.Ctx, r *eng.Rand, x *xprog, rp *rlwe.Parameters, fresh schemes.Evaluator,
	newBase func() schemes.Evaluator, withKey func(schemes.Evaluator) schemes.Evaluator, shallow func(schemes.Evaluator) schemes.Evaluator) schemes.Evaluator {
	var ev schemes.Evaluator
	switch x.EvKind {
	case "hist", "hist+dirty":
		if xs.base == nil {
			xs.base = newBase()
			c.Count("x_history_evaluators", 1)
		} else {
			c.Count("x_programs_on_used_evaluator", 1)
		}
		ev = withKey(xs.base)
	case "shallow":
		ev = shallow(fresh)
	case "shallow+withkey":
		ev = withKey(shallow(newBase()))
	default:
		ev = fresh
	}
	if x.EvKind == "dirty" || x.EvKind == "hist+dirty" || x.EvKind == "shallow" || x.EvKind == "shallow+withkey" {
		dirtyBuffers(r, ev, rp, x.Dirt == "max")
		c.Count("x_programs_dirty_scratch_buffers", 1)
	}
	c.Count("x_programs_evaluator_"+x.EvKind, 1)
	return ev
}

// dirtyBuffers fills the scratch space that the linear-transformation code borrows from the evaluator
// with reduced residues (random or q-1): what any earlier operation may have left there.
func dirtyBuffers(r *eng.Rand, ev schemes.Evaluator, rp *rlwe.Parameters, max bool) {
	q, p := rp.Q(), rp.P()
	buf := make([]byte, 8*rp.N())
	fill := func(rows [][]uint64, mod []uint64) {
		for i := range rows {
			if i >= len(mod) {
				break
			}
			if max {
				for j := range rows[i] {
					rows[i][j] = mod[i] - 1
				}
				continue
			}
			r.Read(buf[:8*len(rows[i])])
			for j := range rows[i] {
				b := buf[8*j:]
				v := uint64(b[0]) | uint64(b[1])<<8 | uint64(b[2])<<16 | uint64(b[3])<<24 | uint64(b[4])<<32 | uint64(b[5])<<40 | uint64(b[6])<<48 | uint64(b[7])<<56
				rows[i][j] = v % mod[i]
			}
		}
	}
	fillQP := func(pl ringqp.Poly) {
		fill(pl.Q.Coeffs, q)
		if len(p) > 0 {
			fill(pl.P.Coeffs, p)
		}
	}
	bq := ev.GetBuffQP()
	for i := range bq {
		fillQP(bq[i])
	}
	for _, pl := range ev.GetBuffCt().Value {
		fill(pl.Coeffs, q)
	}
	for _, pl := range ev.GetBuffDecompQP() {
		fillQP(pl)
	}
}

// directCall evaluates one matrix through the exported low-level entry points, in the order and with
// the levels EvaluateMany uses (decomposition of c1 at min(matrix level, ciphertext level) with the
// matrix' LevelP; hoisted baby-step rotations k mod N1).
func directCall(lev comlt.Evaluator, ct *rlwe.Ciphertext, lt comlt.LinearTransformation, out *rlwe.Ciphertext, junk bool) error {
	levelQ := lt.LevelQ
	if ct.Level() < levelQ {
		levelQ = ct.Level()
	}
	levelP := lt.LevelP
	buf := lev.GetBuffDecompQP()
	lev.DecomposeNTT(levelQ, levelP, levelP+1, ct.Value[1], ct.IsNTT, buf)
	if lt.N1 == 0 {
		return lev.MultiplyByDiagMatrix(ct, lt, buf, out)
	}
	cols := 1 << lt.LogDimensions.Cols
	seen := map[int]bool{}
	var rots []int
	for k := range lt.Vec {
		b := norm(k, cols) % lt.N1
		if !seen[b] {
			seen[b] = true
			rots = append(rots, b)
		}
	}
	pre := map[int]*rlwe.Element[ringqp.Poly]{}
	if junk {
		// a stale entry for a rotation this matrix does not use ("deletes rotated ciphertexts that are not in rots")
		for b := 1; b < cols; b++ {
			if !seen[b] {
				pre[b] = rlwe.NewElementExtended(lev.GetRLWEParameters(), 1, levelQ, levelP)
				break
			}
		}
	}
	if err := lev.PreRotatedCiphertextForDiagonalMatrixMultiplication(levelQ, levelP, ct, buf, rots, pre); err != nil {
		return err
	}
	return lev.MultiplyByDiagMatrixBSGS(ct, lt, pre, out)
}

func directEntry(n1 int) string {
	if n1 == 0 {
		return "C12|common/lintrans.Evaluator.MultiplyByDiagMatrix"
	}
	return "C12|common/lintrans.Evaluator.MultiplyByDiagMatrixBSGS"
}

func xCoverage(c *eng.Ctx, p plan) {
	x := p.x
	if x == nil {
		return
	}
	c.Count("x_programs", 1)
	if x.Call != xCallNone {
		c.Count("x_programs_call_"+x.Call, 1)
	}
	if x.RecvDeg2 {
		c.Count("x_programs_receiver_degree2", 1)
	}
	if x.Decoy {
		c.Count("x_programs_reencoded_transformation", 1)
	}
	if x.Literal {
		c.Count("x_programs_struct_literal_evaluator", 1)
	}
}

// ---------------------------------------------------------------------------------------------
// extended parameter shapes

type xshape struct {
	name string
	q, p []int
}

var xBgvShapes = []xshape{
	{"digits8", []int{55, 55, 55, 55, 55, 55, 55, 55}, []int{61}},
	{"digits6", []int{60, 50, 60, 50, 60, 50}, []int{61}},
	{"singleQ", []int{60}, []int{61}},
	{"singleQ", []int{58}, []int{50, 50}},
	{"moreP", []int{50, 50}, []int{40, 40, 40, 40}},
	{"std", []int{56, 55, 54}, []int{57, 57}},
	{"std", []int{60, 45, 45}, []int{61}},
}

var xCkksShapes = []xshape{
	{"digits8", []int{58, 45, 45, 45, 45, 45, 45, 45}, []int{61}},
	{"digits6", []int{60, 50, 60, 50, 60, 50}, []int{61}},
	{"singleQ", []int{60}, []int{61}},
	{"singleQ", []int{61}, []int{50, 50}},
	{"moreP", []int{55, 45}, []int{40, 40, 40, 40}},
	{"std", []int{55, 45, 45}, []int{58, 58}},
	{"std", []int{60, 50, 50}, []int{61}},
}

func xDist(r *eng.Rand, logN int) (xs string, h int, pp float64, xe string) {
	switch r.N(4) {
	case 0:
		xs = "hw"
		h = eng.Pick(r, 1, 4, 1<<logN/4, 1<<logN/2)
	case 1:
		xs = "p"
		pp = eng.Pick(r, 0.5, 0.1, 0.9)
	}
	xe = eng.Pick(r, "", "", "tight", "wide", "ternary")
	return
}

func extCases(tier string, seed int64) []eng.Case {
	r := eng.NewRand("c12-xcases", seed)
	var out []eng.Case
	thorough := tier == "thorough"
	nb, nc, npl := 112, 112, 12
	if thorough {
		nb, nc, npl = 350, 350, 48
	}
	mk := func(cfg paramCfg) {
		id := fmt.Sprintf("x/%s/%s/%s/logN%d/q%v/p%v/t%d/%d", cfg.Scheme, cfg.Ring, cfg.X.Variant, cfg.LogN, cfg.QBits, cfg.PBits, cfg.T, cfg.Idx)
		c := cfg
		out = append(out, eng.Case{ID: id, Sig: "C12|x|" + cfg.Scheme, Desc: c, Run: func(ctx *eng.Ctx) {
			if c.Scheme == "ckks" {
				runCKKS(ctx, c)
			} else {
				runBGV(ctx, c)
			}
		}})
	}
	logNs := []int{4, 5, 6, 7, 8, 9, 10}
	for i := 0; i < nb; i++ {
		logN := logNs[i%len(logNs)]
		sh := xBgvShapes[(i/len(logNs)+i)%len(xBgvShapes)]
		t := bgvT[r.N(len(bgvT))]
		if sh.name == "singleQ" {
			t = eng.Pick(r, uint64(17), 97, 257) // leave room for the noise of a transformation under a single prime
		}
		q, p := gen.Chain(r, uint64(2)<<logN, sh.q, sh.p)
		if q == nil {
			continue
		}
		scheme := "bgv"
		if r.N(4) == 0 {
			scheme = "bfv"
		}
		np := 8
		if logN >= 9 {
			np = 5
		}
		if thorough {
			np += 3
		}
		x := &xcfg{Variant: sh.name, Refusal: true}
		x.Xs, x.H, x.XsP, x.Xe = xDist(r, logN)
		mk(paramCfg{Scheme: scheme, Ring: "std", LogN: logN, QBits: sh.q, PBits: sh.p, Q: q, P: p, T: t, NProg: np, Idx: i, X: x})
	}
	for i := 0; i < nc; i++ {
		logN := logNs[i%len(logNs)]
		ringT := "std"
		nth := uint64(2) << logN
		if r.N(4) == 0 {
			ringT = "ci"
			nth <<= 1
		}
		sh := xCkksShapes[(i/len(logNs)+i)%len(xCkksShapes)]
		q, p := gen.Chain(r, nth, sh.q, sh.p)
		if q == nil {
			continue
		}
		np := 8
		if logN >= 9 {
			np = 5
		}
		if thorough {
			np += 3
		}
		x := &xcfg{Variant: sh.name, Refusal: true}
		x.Xs, x.H, x.XsP, x.Xe = xDist(r, logN)
		mk(paramCfg{Scheme: "ckks", Ring: ringT, LogN: logN, QBits: sh.q, PBits: sh.p, Q: q, P: p, LogSc: eng.Pick(r, 45, 40, 50), NProg: np, Idx: i, X: x})
	}
	for i := 0; i < npl; i++ {
		ii := i
		out = append(out, eng.Case{ID: fmt.Sprintf("x/plain/%d", i), Sig: "C12|x|plain", Desc: map[string]int{"idx": i}, Run: func(ctx *eng.Ctx) {
			runPlain(ctx, ii, thorough)
		}})
	}
	return out
}

// xAfterCall: the checks that only the extended programs have, run right after a successful call.
// again() repeats the identical call (fresh copy of the input, fresh receivers) on the same evaluator.
func xAfterCall(c *eng.Ctx, ent string, p plan, outs, extras, extraSnaps []*rlwe.Ciphertext, again func() ([]*rlwe.Ciphertext, error), fail func(class, detail string)) {
	x := p.x
	for i := range extras {
		c.Eval(1)
		if !extras[i].Equal(extraSnaps[i]) {
			fail("receiver-beyond-the-matrices-modified", fmt.Sprintf("receiver %d of %d matrices was written", len(p.lts)+i, len(p.lts)))
		}
	}
	for i, o := range outs {
		c.Eval(1)
		if o != nil && o.Degree() != 1 {
			fail("wrong-degree", fmt.Sprintf("output %d has degree %d", i, o.Degree()))
		}
	}
	if !x.Repeat {
		return
	}
	var outs2 []*rlwe.Ciphertext
	var err2 error
	if !c.Try(ent+"|second-call-on-same-evaluator", func() { outs2, err2 = again() }) {
		return
	}
	c.Count("x_repeat_calls", 1)
	c.Eval(1)
	if err2 != nil {
		fail("second-call-on-same-evaluator|error", err2.Error())
		return
	}
	if len(outs2) != len(outs) {
		fail("second-call-on-same-evaluator|differs", fmt.Sprintf("%d outputs, then %d", len(outs), len(outs2)))
		return
	}
	for i := range outs {
		c.Eval(1)
		c.Count("x_repeat_bitwise_comparisons", 1)
		if outs[i] == nil || outs2[i] == nil || !outs[i].Equal(outs2[i]) {
			fail("second-call-on-same-evaluator|differs", fmt.Sprintf("output %d of two identical calls on one evaluator differs bit-wise", i))
		}
	}
}
