package c16

// Family "x-contract": the edges of the protocols' domain. Every combination the code documents as
// unsupported (explicit error return) must be refused with an error - not a panic, not a silently
// wrong share - and must leave every operand bit-for-bit intact, so that a party can retry with
// correct arguments; all parties derive the same common reference polynomial from the same CRS.

import (
	"fmt"
	"math/big"

	"github.com/tuneinsight/lattigo/v6/core/rlwe"
	"github.com/tuneinsight/lattigo/v6/multiparty"
	"github.com/tuneinsight/lattigo/v6/multiparty/mpbgv"
	"github.com/tuneinsight/lattigo/v6/multiparty/mpckks"
	"github.com/tuneinsight/lattigo/v6/ring"
	"github.com/tuneinsight/lattigo/v6/schemes/bgv"
	"github.com/tuneinsight/lattigo/v6/schemes/ckks"
	"github.com/tuneinsight/lattigo/v6/utils/bignum"
	"github.com/tuneinsight/lattigo/v6/utils/sampling"

	"verif/harness/eng"
)

// refuse runs call, which must return an error without panicking; intact reports whether the
// operands still hold what they held before.
func (w *world) refuse(entry, which string, call func() error, intact func() bool) {
	c := w.c
	sig := "C16|" + entry + "|refusal|" + which
	var err error
	c.Count("refusals_checked", 1)
	c.Distinct("refusal/"+entry+"/"+which+"/"+w.cf.Scheme, true)
	if p, v := eng.Panics(func() { err = call() }); p {
		c.Violate(sig+"|panic", fmt.Sprint(v), w.cf)
		return
	}
	c.Check(err != nil, sig+"|accepted", func() string { return "no error returned" })
	if intact != nil {
		c.Check(intact(), sig+"|operand-modified", nil)
	}
}

// accept runs call, which must succeed (boundary of the admissible domain).
func (w *world) accept(entry, which string, call func() error) bool {
	c := w.c
	sig := "C16|" + entry + "|boundary|" + which
	var err error
	c.Count("boundaries_checked", 1)
	if !c.Try(sig, func() { err = call() }) {
		return false
	}
	return c.Check(err == nil, sig+"|error-on-admissible", func() string { return err.Error() })
}

type polySnap struct {
	p    *ring.Poly
	copy ring.Poly
}

func snapP(p *ring.Poly) polySnap { return polySnap{p, *p.CopyNew()} }
func (s polySnap) same() bool     { return s.p.Equal(&s.copy) }

func sameRefresh(a *multiparty.RefreshShare, b multiparty.RefreshShare) bool {
	return a.EncToShareShare.Value.Equal(&b.EncToShareShare.Value) && a.ShareToEncShare.Value.Equal(&b.ShareToEncShare.Value) && a.MetaData.Equal(&b.MetaData)
}

var nonGaussian = map[string]ring.DistributionParameters{"ternary": ring.Ternary{P: 0.5}, "uniform": ring.Uniform{}}

func runContract(c *eng.Ctx, cc caseCfg) {
	w := build(c, cc.P)
	if w == nil {
		return
	}
	c.Sample(cc)
	params := w.params
	L := params.MaxLevel()
	if L < 2 {
		c.Inconclusive("chain too short")
		return
	}
	rnd := w.rnd

	// ---- constructors: only a (truncated) discrete Gaussian is a flooding distribution
	for _, name := range []string{"ternary", "uniform"} {
		d := nonGaussian[name]
		w.refuse("multiparty.NewKeySwitchProtocol", "flooding-distribution-"+name, func() error {
			_, err := multiparty.NewKeySwitchProtocol(params, d)
			return err
		}, nil)
		w.refuse("multiparty.NewPublicKeySwitchProtocol", "flooding-distribution-"+name, func() error {
			_, err := multiparty.NewPublicKeySwitchProtocol(params, d)
			return err
		}, nil)
		switch w.cf.Scheme {
		case "bgv":
			w.refuse("mpbgv.NewEncToShareProtocol", "flooding-distribution-"+name, func() error { _, err := mpbgv.NewEncToShareProtocol(w.bp, d); return err }, nil)
			w.refuse("mpbgv.NewShareToEncProtocol", "flooding-distribution-"+name, func() error { _, err := mpbgv.NewShareToEncProtocol(w.bp, d); return err }, nil)
			w.refuse("mpbgv.NewMaskedTransformProtocol", "flooding-distribution-"+name, func() error {
				_, err := mpbgv.NewMaskedTransformProtocol(w.bp, w.bp, d)
				return err
			}, nil)
			w.refuse("mpbgv.NewRefreshProtocol", "flooding-distribution-"+name, func() error { _, err := mpbgv.NewRefreshProtocol(w.bp, d); return err }, nil)
		case "ckks":
			w.refuse("mpckks.NewEncToShareProtocol", "flooding-distribution-"+name, func() error { _, err := mpckks.NewEncToShareProtocol(w.cp, d); return err }, nil)
			w.refuse("mpckks.NewShareToEncProtocol", "flooding-distribution-"+name, func() error { _, err := mpckks.NewShareToEncProtocol(w.cp, d); return err }, nil)
			w.refuse("mpckks.NewMaskedLinearTransformationProtocol", "flooding-distribution-"+name, func() error {
				_, err := mpckks.NewMaskedLinearTransformationProtocol(w.cp, w.cp, 256, d)
				return err
			}, nil)
			w.refuse("mpckks.NewRefreshProtocol", "flooding-distribution-"+name, func() error { _, err := mpckks.NewRefreshProtocol(w.cp, 256, d); return err }, nil)
		}
	}

	// ---- key switching: aggregation of shares of different levels
	ks, err := multiparty.NewKeySwitchProtocol(params, w.fl)
	if err != nil {
		c.Violate("C16|multiparty.KeySwitchProtocol.New|error-on-admissible", err.Error(), w.cf)
		return
	}
	{
		mk := func(l int) multiparty.KeySwitchShare {
			s := ks.AllocateShare(l)
			garbage(rnd, params, s.Value)
			return s
		}
		for _, lv := range [][3]int{{L, L - 1, L}, {L - 1, L, L - 1}, {L, L, L - 1}, {L - 1, L - 1, L}} {
			a, b, o := mk(lv[0]), mk(lv[1]), mk(lv[2])
			sa, sb, so := snapP(&a.Value), snapP(&b.Value), snapP(&o.Value)
			w.refuse("multiparty.KeySwitchProtocol.AggregateShares", "share-levels-differ", func() error { return ks.AggregateShares(a, b, &o) },
				func() bool { return sa.same() && sb.same() && so.same() })
		}
		pk, perr := multiparty.NewPublicKeySwitchProtocol(params, w.fl)
		if perr == nil {
			a, b, o := pk.AllocateShare(L), pk.AllocateShare(L), pk.AllocateShare(L)
			a.Value[1].Resize(L - 1)
			for _, s := range []multiparty.PublicKeySwitchShare{a, b, o} {
				garbage(rnd, params, s.Value[0])
				garbage(rnd, params, s.Value[1])
			}
			so0, so1 := snapP(&o.Value[0]), snapP(&o.Value[1])
			w.refuse("multiparty.PublicKeySwitchProtocol.AggregateShares", "share-components-of-different-levels", func() error { return pk.AggregateShares(a, b, &o) },
				func() bool { return so0.same() && so1.same() })
			// "cannot AggregateShares: the two shares are at different levelQ" is the refusal the method
			// announces; its sibling KeySwitchProtocol.AggregateShares compares all three operands
			for _, lv := range [][3]int{{L, L - 1, L}, {L - 1, L, L}, {L, L, L - 1}} {
				a, b, o := pk.AllocateShare(lv[0]), pk.AllocateShare(lv[1]), pk.AllocateShare(lv[2])
				for _, s := range []multiparty.PublicKeySwitchShare{a, b, o} {
					garbage(rnd, params, s.Value[0])
					garbage(rnd, params, s.Value[1])
				}
				w.refuse("multiparty.PublicKeySwitchProtocol.AggregateShares", "second-share-or-output-level-differs", func() error { return pk.AggregateShares(a, b, &o) }, nil)
			}
		}
	}

	// ---- all parties derive the same common reference polynomial from the same CRS
	{
		k1, k2 := make([]byte, 32), make([]byte, 32)
		rnd.Read(k1)
		rnd.Read(k2)
		prng := func(k []byte) multiparty.CRS {
			p, err := sampling.NewKeyedPRNG(k)
			if err != nil {
				panic(err)
			}
			return p
		}
		for _, l := range []int{0, L - 1, L} {
			a := ks.SampleCRP(l, prng(k1))
			b := ks.ShallowCopy().SampleCRP(l, prng(k1))
			d := ks.SampleCRP(l, prng(k2))
			red := true
			for i := range a.Value.Coeffs {
				q := params.RingQ().SubRings[i].Modulus
				for _, x := range a.Value.Coeffs[i] {
					red = red && x < q
				}
			}
			c.Count("crp_checked", 1)
			c.Check(a.Value.Level() == l && red, "C16|multiparty.KeySwitchProtocol.SampleCRP|level-or-range", nil)
			c.Check(a.Value.Equal(&b.Value), "C16|multiparty.KeySwitchProtocol.SampleCRP|two-parties-derive-different-polynomials-from-one-crs", nil)
			c.Check(!a.Value.Equal(&d.Value), "C16|multiparty.KeySwitchProtocol.SampleCRP|polynomial-independent-of-the-crs", nil)
		}
	}

	switch w.cf.Scheme {
	case "bgv":
		w.contractBGV()
	case "ckks":
		w.contractCKKS()
	}
}

func (w *world) contractBGV() {
	c, bp, params, rnd := w.c, w.bp, w.params, w.rnd
	L := params.MaxLevel()
	sk := w.in.sk[0]
	s2e, err := mpbgv.NewShareToEncProtocol(bp, w.fl)
	if err != nil {
		c.Violate("C16|mpbgv.ShareToEncProtocol.New|error-on-admissible", err.Error(), w.cf)
		return
	}
	crp := s2e.SampleCRP(L, crsFrom(rnd))
	crpLow := s2e.SampleCRP(L-1, crsFrom(rnd))
	add := mpbgv.NewAdditiveShare(bp)
	for j := range add.Value.Coeffs[0] {
		add.Value.Coeffs[0][j] = rnd.U64() % bp.PlaintextModulus()
	}
	{
		sh := s2e.AllocateShare(L - 1)
		garbage(rnd, params, sh.Value)
		ss := snapP(&sh.Value)
		w.refuse("mpbgv.ShareToEncProtocol.GenShare", "crp-and-share-levels-differ", func() error { return s2e.GenShare(sk, crp, add, &sh) }, ss.same)
	}
	{
		agg := s2e.AllocateShare(L)
		garbage(rnd, params, agg.Value)
		for _, deg := range []int{0, 2} {
			out := bgv.NewCiphertext(bp, deg, L)
			w.dirtyCtAlways(params, out)
			o0 := out.CopyNew()
			w.refuse("mpbgv.ShareToEncProtocol.GetEncryption", fmt.Sprintf("output-degree-%d", deg), func() error { return s2e.GetEncryption(agg, crp, out) },
				func() bool { return out.Equal(o0) })
		}
	}
	// smaller output ring
	if w.cf.LogN > 4 {
		small := w.cf
		small.LogN--
		if chain(rnd, &small, 2, 0, []int{55, 60}, nil) && small.Q[0] > w.cf.T {
			if bpS, err := bgv.NewParametersFromLiteral(bgv.ParametersLiteral{LogN: small.LogN, Q: small.Q, PlaintextModulus: w.cf.T}); err == nil {
				w.refuse("mpbgv.NewMaskedTransformProtocol", "output-ring-smaller-than-input-ring", func() error {
					_, err := mpbgv.NewMaskedTransformProtocol(bp, bpS, w.fl)
					return err
				}, nil)
			}
		}
	}
	for _, useRefresh := range []bool{false, true} {
		entry := "mpbgv.MaskedTransformProtocol"
		fin := ".Transform"
		if useRefresh {
			entry, fin = "mpbgv.RefreshProtocol", ".Finalize"
		}
		rp, err := mpbgv.NewRefreshProtocol(bp, w.fl)
		if err != nil {
			c.Violate("C16|"+entry+".New|error-on-admissible", err.Error(), w.cf)
			return
		}
		mt := rp.MaskedTransformProtocol
		m := w.newMessage(L-1, "sk", -1)
		ct := m.ct
		ct0 := ct.CopyNew()
		gen := func(ct *rlwe.Ciphertext, crp multiparty.KeySwitchCRP, sh *multiparty.RefreshShare) error {
			if useRefresh {
				return rp.GenShare(sk, ct, crp, sh)
			}
			return mt.GenShare(sk, sk, ct, crp, nil, sh)
		}
		agg := func(a, b multiparty.RefreshShare, o *multiparty.RefreshShare) error {
			if useRefresh {
				return rp.AggregateShares(a, b, o)
			}
			return mt.AggregateShares(a, b, o)
		}
		final := func(ct *rlwe.Ciphertext, crp multiparty.KeySwitchCRP, sh multiparty.RefreshShare, out *rlwe.Ciphertext) error {
			if useRefresh {
				return rp.Finalize(ct, crp, sh, out)
			}
			return mt.Transform(ct, nil, crp, sh, out)
		}
		mk := func(d, r int) multiparty.RefreshShare {
			s := mt.AllocateShare(d, r)
			garbage(rnd, params, s.EncToShareShare.Value)
			garbage(rnd, params, s.ShareToEncShare.Value)
			return s
		}
		{
			sh := mk(L, L) // decryption share above the level of the ciphertext
			s0 := cloneRefresh(sh)
			w.refuse(entry+".GenShare", "decryption-share-level-above-ciphertext-level", func() error { return gen(ct, crp, &sh) },
				func() bool { return sameRefresh(&sh, s0) && ct.Equal(ct0) })
			sh = mk(L-1, L-1) // recryption share at another level than the crp
			s0 = cloneRefresh(sh)
			w.refuse(entry+".GenShare", "crp-and-recryption-share-levels-differ", func() error { return gen(ct, crp, &sh) },
				func() bool { return sameRefresh(&sh, s0) && ct.Equal(ct0) })
		}
		for k, lv := range [][6]int{{L - 1, L, L - 2, L, L - 1, L}, {L - 1, L, L - 1, L, L - 2, L}, {L - 1, L, L - 1, L - 1, L - 1, L}, {L - 1, L, L - 1, L, L - 1, L - 1}} {
			a, b, o := mk(lv[0], lv[1]), mk(lv[2], lv[3]), mk(lv[4], lv[5])
			o0 := cloneRefresh(o)
			which := "decryption-share-levels-differ"
			if k >= 2 {
				which = "recryption-share-levels-differ"
			}
			w.refuse(entry+".AggregateShares", which, func() error { return agg(a, b, &o) }, func() bool { return sameRefresh(&o, o0) })
		}
		// a correct share, then every way of handing it over wrongly
		good := mt.AllocateShare(L-1, L)
		if !w.accept(entry+".GenShare", "decryption-share-at-the-ciphertext-level", func() error { return gen(ct, crp, &good) }) {
			continue
		}
		tryFinal := func(which string, ctIn *rlwe.Ciphertext, crpX multiparty.KeySwitchCRP, sh multiparty.RefreshShare) {
			out := bgv.NewCiphertext(bp, 1, L)
			w.dirtyCtAlways(params, out)
			o0, in0 := out.CopyNew(), ctIn.CopyNew()
			w.refuse(entry+fin, which, func() error { return final(ctIn, crpX, sh, out) }, func() bool { return out.Equal(o0) && ctIn.Equal(in0) })
		}
		other := ct.CopyNew()
		other.Scale = bp.NewScale(1)
		if other.Scale.Cmp(ct.Scale) == 0 {
			other.Scale = bp.NewScale(2)
		}
		if other.Scale.Cmp(ct.Scale) != 0 {
			tryFinal("share-metadata-differs-from-ciphertext-metadata", other, crp, good)
		}
		low := ct.CopyNew()
		low.Resize(1, L-2)
		tryFinal("ciphertext-level-below-decryption-share-level", low, crp, good)
		tryFinal("crp-and-recryption-share-levels-differ", ct, crpLow, good)
		c.Check(ct.Equal(ct0), "C16|"+entry+"|refusal|input-ciphertext-modified", nil)
	}
}

func (w *world) contractCKKS() {
	c, cp, params, rnd := w.c, w.cp, w.params, w.rnd
	L := params.MaxLevel()
	sk := w.in.sk[0]
	logSlots := w.pickLogSlots(cp.LogMaxSlots())
	e2s, err1 := mpckks.NewEncToShareProtocol(cp, w.fl)
	s2e, err2 := mpckks.NewShareToEncProtocol(cp, w.fl)
	if err1 != nil || err2 != nil {
		c.Violate("C16|mpckks.EncToShareProtocol.New|error-on-admissible", fmt.Sprint(err1, err2), w.cf)
		return
	}
	crp := s2e.SampleCRP(L, crsFrom(rnd))
	crpLow := s2e.SampleCRP(L-1, crsFrom(rnd))
	m := w.newMessage(L-1, "sk", logSlots)
	ct := m.ct
	ct0 := ct.CopyNew()
	qBits := func(l int) uint { return uint(params.RingQ().ModulusAtLevel[l].BitLen()) }

	// ---- encryption to shares: masks larger than the modulus of the share are refused, the largest
	// ones that fit are accepted
	{
		pub := e2s.AllocateShare(L - 2)
		garbage(rnd, params, pub.Value)
		sec := mpckks.NewAdditiveShare(cp, logSlots)
		for i := range sec.Value {
			sec.Value[i].SetUint64(rnd.U64())
		}
		sp := snapP(&pub.Value)
		s0 := make([]*big.Int, len(sec.Value))
		for i := range s0 {
			s0[i] = new(big.Int).Set(sec.Value[i])
		}
		intact := func() bool {
			ok := sp.same() && ct.Equal(ct0)
			for i := range s0 {
				ok = ok && s0[i].Cmp(sec.Value[i]) == 0
			}
			return ok
		}
		for _, lb := range []uint{qBits(L - 2), qBits(L-2) + 1, qBits(L - 1), qBits(L) + 64} {
			w.refuse("mpckks.EncToShareProtocol.GenShare", "mask-bound-above-the-share-modulus", func() error { return e2s.GenShare(sk, lb, ct, &sec, &pub) }, intact)
		}
		w.accept("mpckks.EncToShareProtocol.GenShare", "mask-bound-just-below-the-share-modulus", func() error { return e2s.GenShare(sk, qBits(L-2)-1, ct, &sec, &pub) })
	}
	add := mpckks.NewAdditiveShare(cp, logSlots)
	for i := range add.Value {
		add.Value[i].SetInt64(int64(rnd.N(1<<20)) - 1<<19)
	}
	{
		sh := s2e.AllocateShare(L - 1)
		garbage(rnd, params, sh.Value)
		ss := snapP(&sh.Value)
		w.refuse("mpckks.ShareToEncProtocol.GenShare", "crp-and-share-levels-differ", func() error { return s2e.GenShare(sk, crp, ct.MetaData, add, &sh) }, ss.same)
	}
	{
		agg, aggLow := s2e.AllocateShare(L), s2e.AllocateShare(L-1)
		garbage(rnd, params, agg.Value)
		garbage(rnd, params, aggLow.Value)
		try := func(which string, a multiparty.KeySwitchShare, crpX multiparty.KeySwitchCRP, deg, lvl int) {
			out := ckks.NewCiphertext(cp, deg, lvl)
			w.dirtyCtAlways(params, out)
			o0 := out.CopyNew()
			w.refuse("mpckks.ShareToEncProtocol.GetEncryption", which, func() error { return s2e.GetEncryption(a, crpX, out) }, func() bool { return out.Equal(o0) })
		}
		try("output-degree-0", agg, crp, 0, L)
		try("output-degree-2", agg, crp, 2, L)
		try("aggregate-and-crp-levels-differ", aggLow, crp, 1, L)
		try("aggregate-and-crp-levels-differ", agg, crpLow, 1, L)
		try("output-and-crp-levels-differ", agg, crp, 1, L-1)
		try("output-and-crp-levels-differ", aggLow, crpLow, 1, L)
	}

	ident := func(v []*bignum.Complex) {}
	for _, useRefresh := range []bool{false, true} {
		entry := "mpckks.MaskedLinearTransformationProtocol"
		fin := ".Transform"
		if useRefresh {
			entry, fin = "mpckks.RefreshProtocol", ".Finalize"
		}
		rp, err := mpckks.NewRefreshProtocol(cp, 256, w.fl)
		if err != nil {
			c.Violate("C16|"+entry+".New|error-on-admissible", err.Error(), w.cf)
			return
		}
		mt := rp.MaskedLinearTransformationProtocol
		logBound := qBits(L-1) - 8
		gen := func(ct *rlwe.Ciphertext, lb uint, crp multiparty.KeySwitchCRP, tr *mpckks.MaskedLinearTransformationFunc, sh *multiparty.RefreshShare) error {
			if useRefresh && tr == nil {
				return rp.GenShare(sk, lb, ct, crp, sh)
			}
			return mt.GenShare(sk, sk, lb, ct, crp, tr, sh)
		}
		agg := func(a, b multiparty.RefreshShare, o *multiparty.RefreshShare) error {
			if useRefresh {
				return rp.AggregateShares(&a, &b, o)
			}
			return mt.AggregateShares(&a, &b, o)
		}
		final := func(ct *rlwe.Ciphertext, tr *mpckks.MaskedLinearTransformationFunc, crp multiparty.KeySwitchCRP, sh multiparty.RefreshShare, out *rlwe.Ciphertext) error {
			if useRefresh && tr == nil {
				return rp.Finalize(ct, crp, sh, out)
			}
			return mt.Transform(ct, tr, crp, sh, out)
		}
		mk := func(d, r int) multiparty.RefreshShare {
			s := mt.AllocateShare(d, r)
			garbage(rnd, params, s.EncToShareShare.Value)
			garbage(rnd, params, s.ShareToEncShare.Value)
			return s
		}
		genRefused := func(which string, ctIn *rlwe.Ciphertext, lb uint, crpX multiparty.KeySwitchCRP, tr *mpckks.MaskedLinearTransformationFunc, d, r int) {
			sh := mk(d, r)
			s0, in0 := cloneRefresh(sh), ctIn.CopyNew()
			w.refuse(entry+".GenShare", which, func() error { return gen(ctIn, lb, crpX, tr, &sh) }, func() bool { return sameRefresh(&sh, s0) && ctIn.Equal(in0) })
		}
		genRefused("decryption-share-level-above-ciphertext-level", ct, logBound, crp, nil, L, L)
		genRefused("crp-and-recryption-share-levels-differ", ct, logBound, crp, nil, L-1, L-1)
		genRefused("mask-bound-above-the-share-modulus", ct, qBits(L-1)+1, crp, nil, L-1, L)
		genRefused("mask-bound-above-the-share-modulus", ct, qBits(L-2)+1, crp, nil, L-2, L)
		coeffCt := ct.CopyNew()
		coeffCt.IsBatched = false
		if !useRefresh {
			genRefused("decode-of-a-non-batched-ciphertext", coeffCt, logBound, crp, &mpckks.MaskedLinearTransformationFunc{Decode: true, Func: ident, Encode: true}, L-1, L)
			genRefused("decode-of-a-non-batched-ciphertext", coeffCt, logBound, crp, &mpckks.MaskedLinearTransformationFunc{Decode: true, Func: ident, Encode: false}, L-1, L)
			genRefused("encode-without-decode-of-a-batched-ciphertext", ct, logBound, crp, &mpckks.MaskedLinearTransformationFunc{Decode: false, Func: ident, Encode: true}, L-1, L)
		}
		for k, lv := range [][6]int{{L - 1, L, L - 2, L, L - 1, L}, {L - 1, L, L - 1, L, L - 2, L}, {L - 1, L, L - 1, L - 1, L - 1, L}, {L - 1, L, L - 1, L, L - 1, L - 1}} {
			a, b, o := mk(lv[0], lv[1]), mk(lv[2], lv[3]), mk(lv[4], lv[5])
			o0 := cloneRefresh(o)
			which := "decryption-share-levels-differ"
			if k >= 2 {
				which = "recryption-share-levels-differ"
			}
			w.refuse(entry+".AggregateShares", which, func() error { return agg(a, b, &o) }, func() bool { return sameRefresh(&o, o0) })
		}
		good := mt.AllocateShare(L-1, L)
		if !w.accept(entry+".GenShare", "decryption-share-at-the-ciphertext-level", func() error { return gen(ct, logBound, crp, nil, &good) }) {
			continue
		}
		tryFinal := func(which string, ctIn *rlwe.Ciphertext, tr *mpckks.MaskedLinearTransformationFunc, crpX multiparty.KeySwitchCRP, sh multiparty.RefreshShare) {
			out := ckks.NewCiphertext(cp, 1, L)
			w.dirtyCtAlways(params, out)
			o0, in0 := out.CopyNew(), ctIn.CopyNew()
			w.refuse(entry+fin, which, func() error { return final(ctIn, tr, crpX, sh, out) }, func() bool { return out.Equal(o0) && ctIn.Equal(in0) })
		}
		other := ct.CopyNew()
		other.Scale = rlwe.NewScale(ct.Scale.Float64() * 1.5)
		tryFinal("share-metadata-differs-from-ciphertext-metadata", other, nil, crp, good)
		if logSlots > 0 {
			other = ct.CopyNew()
			other.LogDimensions.Cols = logSlots - 1
			tryFinal("share-metadata-differs-from-ciphertext-metadata", other, nil, crp, good)
		}
		low := ct.CopyNew()
		low.Resize(1, L-2)
		tryFinal("ciphertext-level-below-decryption-share-level", low, nil, crp, good)
		tryFinal("crp-and-recryption-share-levels-differ", ct, nil, crpLow, good)
		if !useRefresh {
			goodC := good
			goodC.MetaData.IsBatched = false
			tryFinal("decode-of-a-non-batched-ciphertext", coeffCt, &mpckks.MaskedLinearTransformationFunc{Decode: true, Func: ident, Encode: true}, crp, goodC)
			tryFinal("encode-without-decode-of-a-batched-ciphertext", ct, &mpckks.MaskedLinearTransformationFunc{Decode: false, Func: ident, Encode: true}, crp, good)
		}
		c.Check(ct.Equal(ct0), "C16|"+entry+"|refusal|input-ciphertext-modified", nil)
	}

	// ---- GetMinimumLevelForRefresh: a chain that cannot hold the masks is reported, never a level
	// outside the chain
	{
		sig := "C16|mpckks.GetMinimumLevelForRefresh"
		q := params.Q()
		for _, n := range []int{1, 2, 3, 8} {
			for cut := 1; cut <= len(q); cut++ {
				var ml int
				var lb uint
				var ok bool
				lambda := eng.Pick(rnd, 16, 64, 128)
				if !c.Try(sig, func() { ml, lb, ok = mpckks.GetMinimumLevelForRefresh(lambda, ct.Scale, n, q[:cut]) }) {
					continue
				}
				c.Count("min_level_queries", 1)
				if ok {
					c.Check(ml >= 0 && ml < cut, sig+"|level-outside-the-chain", func() string {
						return fmt.Sprintf("lambda=%d parties=%d moduli=%d: minLevel=%d logBound=%d", lambda, n, cut, ml, lb)
					})
					// Q_minLevel must hold n masks of logBound bits (up to the float rounding of the function)
					if ml >= 0 && ml < cut {
						need := new(big.Int).Lsh(big.NewInt(int64(n)), lb)
						need.Sub(need, new(big.Int).Rsh(need, 30))
						c.Check(params.RingQ().ModulusAtLevel[ml].Cmp(need) >= 0, sig+"|modulus-at-the-returned-level-cannot-hold-the-masks", func() string {
							return fmt.Sprintf("lambda=%d parties=%d moduli=%d: minLevel=%d logBound=%d log2Q=%d", lambda, n, cut, ml, lb, params.RingQ().ModulusAtLevel[ml].BitLen())
						})
					}
				}
			}
		}
	}
}

func (w *world) dirtyCtAlways(params rlwe.Parameters, ct *rlwe.Ciphertext) {
	for i := range ct.Value {
		garbage(w.rnd, params, ct.Value[i])
	}
}
