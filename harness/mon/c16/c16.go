// Package c16: collective key switching, share conversion and refresh preserve the message.
//
// Observation point: the harness owns every party's key shares, so it measures exactly, with its
// own ring arithmetic and math/big CRT, (1) the smudging noise inside every protocol share
// (share minus the deterministic part the protocol defines), (2) that aggregates equal the exact
// sum of the shares for several aggregation orders / trees / aliasing patterns, (3) the phase of
// every output ciphertext under the target key relative to the phase of the input under the ideal
// input key, and (4) the decoded message (exact mod t for bgv, within the worst-case noise-implied
// precision for ckks).
package c16

import (
	"fmt"

	"verif/harness/eng"
	"verif/harness/gen"
)

type caseCfg struct {
	Kind string `json:"kind"`
	P    pcfg   `json:"params"`
	// refresh / transform only
	Out *pcfg `json:"params_out,omitempty"`
	// audit extensions (nil = the original workload)
	X *xopt `json:"x,omitempty"`
}

var sigmas = []float64{3.2, 3.2, 1024, 1 << 30}

func chain(r *eng.Rand, cf *pcfg, nq, np int, qbits, pbits []int) bool {
	cf.QBits, cf.PBits = nil, nil
	for j := 0; j < nq; j++ {
		cf.QBits = append(cf.QBits, eng.Pick(r, qbits...))
	}
	for j := 0; j < np; j++ {
		cf.PBits = append(cf.PBits, eng.Pick(r, pbits...))
	}
	nth := uint64(2) << cf.LogN
	if cf.Ring == "ci" {
		nth <<= 1
	}
	cf.Q, cf.P = gen.Chain(r, nth, cf.QBits, cf.PBits)
	return cf.Q != nil
}

func cases(tier string, seed int64) []eng.Case {
	r := eng.NewRand("c16-cases", seed)
	var out []eng.Case
	thorough := tier == "thorough"
	mul := 1
	if thorough {
		mul = 16
	}
	add := func(kind string, i int, cc caseCfg, run func(c *eng.Ctx, cc caseCfg)) {
		id := fmt.Sprintf("%s/%d/%s", kind, i, cc.P.tag())
		cc.Kind = kind
		out = append(out, eng.Case{ID: id, Sig: "C16|" + kind, Desc: cc, Run: func(c *eng.Ctx) { run(c, cc) }})
	}
	logNs := []int{4, 5, 6, 8, 10}
	if thorough {
		logNs = []int{4, 5, 6, 7, 8, 9, 10, 11}
	}

	// ---- collective key switching (sk -> shared sk / zero key, sk -> pk) on rlwe, bgv, ckks ciphertexts
	for i := 0; i < 64*mul; i++ {
		cf := pcfg{Ring: "std", NTT: true, Xs: eng.Pick(r, "ternary-p0.5", "ternary-p2/3", "ternary-h")}
		cf.Scheme = eng.Pick(r, "rlwe", "rlwe", "bgv", "bgv", "ckks", "ckks")
		cf.LogN = eng.Pick(r, logNs...)
		cf.Parties = 1 + i%8
		cf.Sigma = eng.Pick(r, sigmas...)
		switch cf.Scheme {
		case "rlwe":
			cf.NTT = r.Bool()
			cf.Ring = eng.Pick(r, "std", "std", "ci")
		case "ckks":
			cf.Ring = eng.Pick(r, "std", "std", "ci")
		}
		if !chain(r, &cf, 1+r.N(4), r.N(3), []int{36, 45, 55, 58, 60, 61}, []int{45, 55, 60, 61}) {
			continue
		}
		if cf.Scheme == "ckks" {
			cf.LogS = min(eng.Pick(r, 30, 40, 45), minInt(cf.QBits)-6)
		}
		if cf.Scheme == "bgv" {
			if !pickBGVT(r, &cf) {
				continue
			}
		}
		add("keyswitch", i, caseCfg{P: cf}, runKeySwitch)
	}

	// ---- bgv: encryption-to-shares, shares-to-encryption
	for i := 0; i < 32*mul; i++ {
		cf, ok := bgvCfg(r, logNs, i)
		if !ok {
			continue
		}
		add("bgv-share", i, caseCfg{P: cf}, runBGVShare)
	}
	// ---- bgv: refresh and masked transform (same / different output parameters)
	for i := 0; i < 48*mul; i++ {
		cf, ok := bgvCfg(r, logNs, i)
		if !ok {
			continue
		}
		cc := caseCfg{P: cf}
		if i%3 == 2 {
			o := cf
			if r.N(4) == 0 {
				o.LogN++
			}
			if !chain(r, &o, 1+r.N(4), r.N(3), []int{45, 55, 58, 60, 61}, []int{45, 55, 60, 61}) || o.Q[0] <= cf.T {
				continue
			}
			bad := false
			for _, q := range o.Q {
				bad = bad || q == cf.T
			}
			if bad {
				continue
			}
			cc.Out = &o
		}
		add("bgv-refresh", i, cc, runBGVRefresh)
	}
	// ---- ckks: encryption-to-shares, shares-to-encryption
	for i := 0; i < 32*mul; i++ {
		cf, ok := ckksCfg(r, logNs, i)
		if !ok {
			continue
		}
		add("ckks-share", i, caseCfg{P: cf}, runCKKSShare)
	}
	// ---- ckks: refresh and masked linear transform (same / different output parameters, N -> N, 2N, N/2)
	for i := 0; i < 56*mul; i++ {
		cf, ok := ckksCfg(r, logNs, i)
		if !ok {
			continue
		}
		cc := caseCfg{P: cf}
		if i%3 == 2 {
			o := cf
			o.LogN = cf.LogN + eng.Pick(r, 0, 1, -1)
			if o.LogN < 4 {
				o.LogN = 4
			}
			if !chain(r, &o, 2+r.N(4), r.N(3), []int{45, 55, 58, 60, 61}, []int{45, 55, 60, 61}) {
				continue
			}
			o.LogS = min(eng.Pick(r, 30, 40, 45), minInt(o.QBits)-6)
			cc.Out = &o
		}
		add("ckks-refresh", i, cc, runCKKSRefresh)
	}
	xcases(tier, seed, logNs, add) // audit families (appended after the original ones)
	return out
}

func ckksCfg(r *eng.Rand, logNs []int, i int) (pcfg, bool) {
	cf := pcfg{Scheme: "ckks", Ring: eng.Pick(r, "std", "std", "ci"), NTT: true, Xs: eng.Pick(r, "ternary-p0.5", "ternary-p2/3", "ternary-h")}
	cf.LogN = eng.Pick(r, logNs...)
	cf.Parties = 1 + i%8
	cf.Sigma = eng.Pick(r, sigmas...)
	if !chain(r, &cf, 2+r.N(5), r.N(3), []int{45, 55, 58, 60, 61}, []int{45, 55, 60, 61}) {
		return cf, false
	}
	cf.LogS = min(eng.Pick(r, 30, 40, 45), minInt(cf.QBits)-6)
	return cf, true
}

func bgvCfg(r *eng.Rand, logNs []int, i int) (pcfg, bool) {
	cf := pcfg{Scheme: "bgv", Ring: "std", NTT: true, Xs: eng.Pick(r, "ternary-p0.5", "ternary-p2/3", "ternary-h")}
	cf.LogN = eng.Pick(r, logNs...)
	cf.Parties = 1 + i%8
	cf.Sigma = eng.Pick(r, sigmas...)
	if !chain(r, &cf, 1+r.N(4), r.N(3), []int{45, 55, 58, 60, 61}, []int{45, 55, 60, 61}) {
		return cf, false
	}
	return cf, pickBGVT(r, &cf)
}

func minInt(v []int) int {
	m := v[0]
	for _, x := range v {
		m = min(m, x)
	}
	return m
}

// pickBGVT chooses a plaintext modulus family for cf: full-slot t = 1 mod 2N of several sizes, or a
// t whose cyclotomic order is smaller than 2N (plaintext ring of smaller degree than N).
func pickBGVT(r *eng.Rand, cf *pcfg) bool {
	n := 1 << cf.LogN
	nT := n
	exact := false
	if cf.LogN >= 5 && r.N(3) == 0 {
		nT = n >> (1 + r.N(2))
		if nT < 8 {
			nT = 8
		}
		exact = true
	}
	minBits := cf.LogN + 2
	bits := eng.Pick(r, minBits, 17, 17, 20, 30, 40)
	if bits < minBits {
		bits = minBits
	}
	cf.T = pickT(r, bits, nT, exact)
	if cf.T == 0 || cf.T >= cf.Q[0] {
		cf.T = pickT(r, minBits+1, nT, exact)
	}
	for _, q := range cf.Q {
		if q == cf.T {
			return false
		}
	}
	return cf.T != 0 && cf.T < cf.Q[0]
}

func init() {
	eng.Register(&eng.Monitor{
		ID: "C16", Level: "exploration",
		Rule:  "cases = (protocol family in {keyswitch (sk->shared key, sk->zero key, sk->public key), bgv-share, bgv-refresh, ckks-share, ckks-refresh}, scheme (rlwe NTT / non-NTT, bgv, ckks), ring type, logN, Q/P prime sizes, plaintext modulus family (full-slot t, t of smaller cyclotomic order) / default and non-default scale, secret distribution, party count 1..8 (cycled), flooding sigma in {3.2, 2^10, 2^30}; refresh cases: same or different output parameters incl. N_out = 2N, N/2); inside a case every input level is visited and, per level, sampled: decryption-share level, output level, slot count, mask size logBound (from GetMinimumLevelForRefresh with lambda in {16,40,64,128} or arbitrary), transform (nil, identity, slot map / permutation, x constant, 2-term linear map) x Decode/Encode flags x batched/non-batched input, share allocation level, 3-4 aggregation plans (index order, accumulator aliased to the second operand, random permutation, random binary tree), ShallowCopy instances for odd parties, wire round trip of every third refresh share, in-place / out-of-place outputs. Audit families x-keyswitch, x-bgv-share, x-bgv-refresh, x-ckks-share, x-ckks-refresh run the same oracles with what the original families keep fixed: error distribution of the parameter set (tight / wide Gaussian, ternary), flooding sigma in {1, 3.2, 8, 2^10, 2^20, 2^30, 2^36} with truncation bound 2, 6 or 12 sigma, logN = 4 for a third of the cases, chains of 7-10 primes with 3-4 auxiliary primes for a sixth, and per case a non-empty subset of {history: protocol objects and every party's ShallowCopy / copy-of-a-copy live across all rounds; levels visited ascending or shuffled; used receivers: shares, additive shares and output ciphertexts pre-filled with uniform residues, allocated above / at another level than the one they end up at; ckks scales default*2^[-12,12]}; conjugate-invariant transforms also with decode-only and no decode / no encode; RefreshProtocol.ShallowCopy / AllocateShare called directly. Smudging noise is pooled per entry point and additionally per provenance of the instance (constructor, ShallowCopy, copy of a copy). Family x-contract: every combination the code documents as unsupported (non-Gaussian flooding distribution, share / crp / ciphertext / output level mismatches in GenShare, AggregateShares, GetEncryption, Transform, Finalize, share metadata differing from the ciphertext's, decode of a non-batched / encode-only of a batched ckks ciphertext, mask bound above the share modulus, smaller output ring) must return an error without panicking and leave every operand bit-identical; the largest admissible mask bound is accepted; two instances derive the same common reference polynomial from one CRS; GetMinimumLevelForRefresh on every prefix of the chain returns a level inside it whose modulus holds the masks. distinct key = (family, parameter tag, input level, share level, output level, slots, logBound, target / transform+flags, entry point); non-trivial = more than one party, or an input level below the maximum, or a share level below the input level, or a flooding sigma above the fresh one, or a transform, or different output parameters.",
		Cases: cases,
		Assumptions: []string{
			"ring kernels (NTT, Montgomery products) used by the harness to evaluate c0+c1*s and c1*s_i are the ones judged by C01; everything after them is math/big",
			"bgv/ckks encoders and the single-party encryptor/decryptor used to prepare inputs and read outputs are judged by C03/C07",
			"noise upper bounds are worst-case (truncation bound of every sample); the smudging lower bound is empirical std >= requested sigma / 2 on >= 256 pooled coefficients",
			"transform functions are linear over the message space (Z_t-linear, resp. R-linear), the only ones for which additive masking is defined",
			"refusals are required only where the method has an explicit error return for that combination in its source (documented by its error message); undocumented misuse (shorter additive shares, shares below the ciphertext level handed to KeySwitch) is not generated",
		},
	})
}

func runKeySwitch(c *eng.Ctx, cc caseCfg) {
	w := build(c, cc.P)
	if w == nil {
		return
	}
	w.setX(cc)
	c.Sample(cc)
	params := w.params
	ksPool, pkPool := &pool{}, &pool{}
	for _, level := range w.levels(params.MaxLevel()) {
		logSlots := -1
		if w.cf.Scheme == "ckks" {
			logSlots = w.pickLogSlots(w.cp.LogMaxSlots())
		}
		for _, target := range []string{"shared", "zero"} {
			m := w.newMessage(level, eng.Pick(w.rnd, "sk", "pk"), logSlots)
			w.runKS(m, target, level < params.MaxLevel() && w.rnd.Bool(), ksPool)
		}
		m := w.newMessage(level, eng.Pick(w.rnd, "sk", "pk"), logSlots)
		w.runPCKS(m, w.rnd.Bool(), level < params.MaxLevel() && w.rnd.Bool(), pkPool)
	}
	nd := ksNoise(params, w.fl)
	checkFloor(c, "C16|multiparty.KeySwitchProtocol.GenShare", ksPool, nd.Sigma, nd.Sigma)
	checkFloor(c, "C16|multiparty.PublicKeySwitchProtocol.GenShare", pkPool, w.fl.Sigma, 0)
	w.checkPools("ks", "C16|multiparty.KeySwitchProtocol.GenShare", nd.Sigma, nd.Sigma)
	w.checkPools("pcks", "C16|multiparty.PublicKeySwitchProtocol.GenShare", w.fl.Sigma, 0)
}
