package c16

import (
	"fmt"
	"math"
	"math/big"

	"github.com/tuneinsight/lattigo/v6/core/rlwe"
	"github.com/tuneinsight/lattigo/v6/multiparty"
	"github.com/tuneinsight/lattigo/v6/multiparty/mpckks"
	"github.com/tuneinsight/lattigo/v6/ring"
	"github.com/tuneinsight/lattigo/v6/schemes/ckks"
	"github.com/tuneinsight/lattigo/v6/utils/bignum"

	"verif/harness/eng"
	"verif/harness/obs"
)

// ctf: an R-linear slot-wise map, as the big-float function handed to the protocol and as the
// harness' float64 model, with its operator norm (sup norm).
type ctf struct {
	name  string
	norm  float64
	big   func(v []*bignum.Complex)
	model func(v []complex128) []complex128
	real  bool // maps real vectors to real vectors (usable in the conjugate-invariant ring)
}

func mkCTransforms(rnd *eng.Rand, slots int) []ctf {
	a, b := 0.9238795325112867, 0.7071067811865476 // the in-tree constants
	cr, ci := 2*rnd.F64()-1, 2*rnd.F64()-1
	la, lb := 1.5*rnd.F64()-0.75, 1.5*rnd.F64()-0.75
	bij := rnd.Perm(slots)
	mulF := func(x *big.Float, f float64) *big.Float {
		return new(big.Float).SetPrec(x.Prec()).Mul(x, new(big.Float).SetPrec(x.Prec()).SetFloat64(f))
	}
	return []ctf{
		{"identity", 1, func(v []*bignum.Complex) {}, func(v []complex128) []complex128 { return append([]complex128(nil), v...) }, true},
		{"scale-re-im", math.Max(a, b), func(v []*bignum.Complex) {
			for i := range v {
				v[i][0] = mulF(v[i][0], a)
				v[i][1] = mulF(v[i][1], b)
			}
		}, func(v []complex128) []complex128 {
			o := make([]complex128, len(v))
			for i := range v {
				o[i] = complex(a*real(v[i]), b*imag(v[i]))
			}
			return o
		}, true},
		{"mul-complex-const", math.Hypot(cr, ci), func(v []*bignum.Complex) {
			for i := range v {
				x, y := v[i][0], v[i][1]
				re := new(big.Float).SetPrec(x.Prec()).Sub(mulF(x, cr), mulF(y, ci))
				im := new(big.Float).SetPrec(x.Prec()).Add(mulF(x, ci), mulF(y, cr))
				v[i][0], v[i][1] = re, im
			}
		}, func(v []complex128) []complex128 {
			o := make([]complex128, len(v))
			for i := range v {
				o[i] = v[i] * complex(cr, ci)
			}
			return o
		}, false},
		{"slot-permutation", 1, func(v []*bignum.Complex) {
			o := make([]*bignum.Complex, len(v))
			for i := range v {
				o[i] = v[bij[i]]
			}
			copy(v, o)
		}, func(v []complex128) []complex128 {
			o := make([]complex128, len(v))
			for i := range v {
				o[i] = v[bij[i]]
			}
			return o
		}, true},
		{"linear-2", math.Abs(la) + math.Abs(lb), func(v []*bignum.Complex) {
			o := make([]*bignum.Complex, len(v))
			for i := range v {
				o[i] = &bignum.Complex{
					new(big.Float).SetPrec(v[i][0].Prec()).Add(mulF(v[i][0], la), mulF(v[bij[i]][0], lb)),
					new(big.Float).SetPrec(v[i][1].Prec()).Add(mulF(v[i][1], la), mulF(v[bij[i]][1], lb)),
				}
			}
			copy(v, o)
		}, func(v []complex128) []complex128 {
			o := make([]complex128, len(v))
			for i := range v {
				o[i] = complex(la, 0)*v[i] + complex(lb, 0)*v[bij[i]]
			}
			return o
		}, true},
	}
}

// newCoeffMessage encrypts a non-batched ckks plaintext (values are the polynomial coefficients).
func (w *world) newCoeffMessage(level int) *message {
	m := &message{}
	params := w.params
	r := params.RingQ().AtLevel(level)
	m.pt = ckks.NewPlaintext(w.cp, level)
	m.pt.IsBatched = false
	vals := make([]float64, params.N())
	for i := range vals {
		vals[i] = 2*w.rnd.F64() - 1
	}
	if err := w.cenc.Encode(vals, m.pt); err != nil {
		panic(err)
	}
	ct, err := rlwe.NewEncryptor(params, w.in.ideal).EncryptNew(m.pt)
	if err != nil {
		panic(err)
	}
	m.ct = ct
	m.ptCoef = coef(r, m.pt.Value, m.pt.IsNTT)
	m.ptMax = maxAbs(obs.Centered(r, m.ptCoef))
	m.measure(w)
	return m
}

// pairs reads the complex vector (c[k*gap] + i*c[(k+slots)*gap]) / div from a centred coefficient vector
// (conjugate-invariant ring: real vector c[k*gap] / div).
func pairs(v []*big.Int, slots int, std bool, div float64) []complex128 {
	d := slots
	if std {
		d *= 2
	}
	gap := len(v) / d
	out := make([]complex128, slots)
	for k := range out {
		re := bigF(v[k*gap]) / div
		im := 0.0
		if std {
			im = bigF(v[(k+slots)*gap]) / div
		}
		out[k] = complex(re, im)
	}
	return out
}

func runCKKSRefresh(c *eng.Ctx, cc caseCfg) {
	w := build(c, cc.P)
	if w == nil {
		return
	}
	w.setX(cc)
	c.Sample(cc)
	cpIn, n := w.cp, w.cf.Parties
	cpOut := cpIn
	sameParams := cc.Out == nil
	if !sameParams {
		rt := ring.Standard
		if cc.Out.Ring == "ci" {
			rt = ring.ConjugateInvariant
		}
		var err error
		cpOut, err = ckks.NewParametersFromLiteral(ckks.ParametersLiteral{LogN: cc.Out.LogN, Q: cc.Out.Q, P: cc.Out.P, Xs: cc.Out.xs(), Xe: cc.Out.xe(), RingType: rt, LogDefaultScale: cc.Out.LogS})
		if err != nil {
			c.Inconclusive("output parameters rejected: " + err.Error())
			return
		}
	}
	pIn, pOut := cpIn.Parameters, cpOut.Parameters
	std := pIn.RingType() == ring.Standard
	encOut := ckks.NewEncoder(cpOut)
	ndIn, ndOut := ksNoise(pIn, w.fl), ksNoise(pOut, w.fl)
	BIn, BOut := errB(ndIn), errB(ndOut)
	outKeys := w.in
	if !sameParams {
		outKeys = newKeyset(pOut, n)
	}
	e2sPool, s2ePool := &pool{}, &pool{}
	freshB := freshBound(pIn, float64(n*pIn.N()))
	Dd := cpOut.DefaultScale().Float64()
	maxLogSlots := min(cpIn.LogMaxSlots(), cpOut.LogMaxSlots())

	if !sameParams {
		// retargeting a copy (or an already retargeted instance) to other output parameters is an
		// admissible call sequence of the API that exists for "different output parameters"
		if base, err := mpckks.NewMaskedLinearTransformationProtocol(cpIn, cpIn, 256, w.fl); err == nil {
			p1, v1 := eng.Panics(func() { _ = base.ShallowCopy().WithParams(cpOut) })
			p2, v2 := eng.Panics(func() { _ = base.WithParams(cpOut).WithParams(cpOut) })
			c.Check(!p1 && !p2, "C16|mpckks.MaskedLinearTransformationProtocol.WithParams|panic|receiver-is-a-ShallowCopy-or-WithParams-instance", func() string {
				return fmt.Sprintf("ShallowCopy().WithParams(paramsOut) panicked=%v (%v); WithParams(paramsOut).WithParams(paramsOut) panicked=%v (%v)", p1, v1, p2, v2)
			})
		}
	}
	for _, ctLevel := range w.levels(pIn.MaxLevel()) {
		for rep := 0; rep < 2; rep++ {
			useRefresh := sameParams && rep == 0 && ctLevel%2 == 0
			// choose transform and flags
			var tf *ctf
			dec, enc := false, false
			if !useRefresh && w.rnd.N(5) != 0 {
				logSlotsGuess := maxLogSlots
				_ = logSlotsGuess
				tf = &ctf{}
			}
			batched := true
			if tf != nil {
				if std {
					switch w.rnd.N(6) {
					case 0, 1, 2:
						dec, enc = true, true
					case 3:
						dec, enc = true, false
					case 4:
						dec, enc = false, false
						batched = w.rnd.Bool()
					case 5:
						dec, enc = false, true
						batched = false
					}
				} else if w.x.On {
					// conjugate-invariant ring: the flag combinations whose meaning does not depend on the
					// imaginary parts the protocol attaches to the coefficient vector (every transform used
					// here maps real parts to real parts): decode+encode, decode only, neither
					switch w.rnd.N(4) {
					case 0, 1:
						dec, enc = true, true
					case 2:
						dec, enc = true, false
					case 3:
						dec, enc = false, false
						batched = w.rnd.Bool()
					}
					c.Count(fmt.Sprintf("x_conjugate_invariant_flags_dec=%v_enc=%v", dec, enc), 1)
				} else {
					dec, enc = true, true
				}
			}
			if !batched && maxLogSlots != cpIn.LogMaxSlots() {
				batched, dec, enc = true, true, true
			}
			var m *message
			logSlots := cpIn.LogMaxSlots()
			if batched {
				logSlots = min(w.pickLogSlots(cpIn.LogMaxSlots()), maxLogSlots)
				m = w.newMessage(ctLevel, eng.Pick(w.rnd, "sk", "pk"), logSlots)
			} else {
				m = w.newCoeffMessage(ctLevel)
			}
			ct := m.ct
			slots := 1 << logSlots
			if tf != nil {
				all := mkCTransforms(w.rnd, slots)
				for {
					t := all[w.rnd.N(len(all))]
					if std || t.real {
						tf = &t
						break
					}
				}
			}
			trName := "nil"
			var tr *mpckks.MaskedLinearTransformationFunc
			fnorm := 1.0
			if tf != nil {
				tr = &mpckks.MaskedLinearTransformationFunc{Decode: dec, Func: tf.big, Encode: enc}
				trName = fmt.Sprintf("%s/dec=%v/enc=%v/batched=%v", tf.name, dec, enc, batched)
				fnorm = math.Max(tf.norm, 1e-3)
			}
			entry := "C16|mpckks.MaskedLinearTransformationProtocol"
			if useRefresh {
				entry = "C16|mpckks.RefreshProtocol"
			}
			S := ct.Scale.Float64()
			ratio := Dd / S
			// the integers the protocol documents: round(input scale), default output scale
			Sfloor, _ := new(big.Float).SetPrec(256).Set(&ct.Scale.Value).Int(nil)
			Sceil := new(big.Int).Set(Sfloor)
			if new(big.Float).SetInt(Sfloor).Cmp(&ct.Scale.Value) != 0 {
				Sceil.Add(Sceil, big.NewInt(1))
			}
			dsv := cpOut.DefaultScale().Value
			Dint, _ := new(big.Float).SetPrec(256).Set(&dsv).Int(nil)
			logBound, minLevel, ok := w.pickLogBound(c, ct.Scale, m.ptMax, freshB+float64(n)*BIn)
			if !ok || minLevel > ctLevel {
				c.Count("levels_skipped_noise_budget", 1)
				continue
			}
			decLevel := minLevel + w.rnd.N(ctLevel-minLevel+1)
			if rep == 1 {
				decLevel = minLevel
			}
			// output levels whose modulus holds the transformed plaintext plus noise
			outNoise := (float64(n)+2)*(1+ratio) + math.Ceil(ratio*(freshB+float64(n)*BIn)) + float64(n)*BOut + 2
			outMag := fnorm * float64(4*slots) * math.Max(bigF(m.ptMax)*ratio, 2*Dd)
			lo := levelsFor(pOut.MaxLevel(), func(l int) bool { return fitsHalf(pOut, l, new(big.Int), 2*outMag+outNoise) })
			if len(lo) == 0 {
				c.Count("levels_skipped_noise_budget", 1)
				continue
			}
			outLevel := lo[0]
			if rep == 1 {
				outLevel = lo[w.rnd.N(len(lo))]
			}
			precMin := logBound + uint(3*logSlots) + 40
			prec := eng.Pick(w.rnd, precMin, max(256, precMin), max(512, precMin))
			if w.x.Persist {
				// one encoder precision for (nearly) all rounds, so that the protocol object is reused
				prec = max(512, (precMin+127)/128*128)
			}
			c.Distinct(fmt.Sprintf("ckks-refresh/%s/same%v/L%d/D%d/O%d/slots%d/%s/%v", w.cf.tag(), sameParams, ctLevel, decLevel, outLevel, logSlots, trName, useRefresh), n > 1 || ctLevel < pIn.MaxLevel() || w.cf.Sigma > 4 || tf != nil || !sameParams)
			c.Count("transform_"+trName, 1)
			c.Max("max_log_bound", int64(logBound))
			ct0 := snapshot(ct)

			viaWithParams := w.rnd.Bool()
			if !sameParams && viaWithParams {
				c.Count("protocols_built_via_WithParams", 1)
			}
			var rp mpckks.RefreshProtocol
			var mt mpckks.MaskedLinearTransformationProtocol
			var perr error
			if !c.Try(entry+".New", func() {
				if useRefresh {
					rp, perr = cached(w, fmt.Sprintf("ckks-rp/%d", prec), func() (mpckks.RefreshProtocol, error) {
						return mpckks.NewRefreshProtocol(cpIn, prec, w.fl)
					})
					mt = rp.MaskedLinearTransformationProtocol
				} else {
					if !sameParams && viaWithParams {
						// documented alternative: build for the input parameters, then retarget the output side
						mt, perr = cached(w, fmt.Sprintf("ckks-mt-wp/%d", prec), func() (mt mpckks.MaskedLinearTransformationProtocol, perr error) {
							mt, perr = mpckks.NewMaskedLinearTransformationProtocol(cpIn, cpIn, prec, w.fl)
							if perr == nil {
								mt = mt.WithParams(cpOut)
							}
							return
						})
					} else {
						mt, perr = cached(w, fmt.Sprintf("ckks-mt/%d", prec), func() (mpckks.MaskedLinearTransformationProtocol, error) {
							return mpckks.NewMaskedLinearTransformationProtocol(cpIn, cpOut, prec, w.fl)
						})
					}
				}
			}) {
				return
			}
			if perr != nil {
				c.Violate(entry+".New|error-on-admissible", perr.Error(), w.cf)
				return
			}
			crp := mt.SampleCRP(outLevel, crsFrom(w.rnd))
			rIn := pIn.RingQ().AtLevel(decLevel)
			rOut := pOut.RingQ().AtLevel(outLevel)
			Qout := rOut.ModulusAtLevel[outLevel]
			QoutHalf := new(big.Int).Rsh(Qout, 1)
			dslots := dslotsOf(pIn, logSlots)
			gapIn, gapOut := pIn.N()/dslots, pOut.N()/dslots
			shares := make([]multiparty.RefreshShare, n)
			e2sPolys, s2ePolys := make([]ring.Poly, n), make([]ring.Poly, n)
			half := pow2(logBound - 1)
			good := true
			for i := 0; i < n && good; i++ {
				var pm mpckks.MaskedLinearTransformationProtocol
				if useRefresh && w.x.On {
					// the refresh protocol's own copy constructor and allocator
					rpi := inst(w, fmt.Sprintf("ckks-rp/%d", prec), i, rp, mpckks.RefreshProtocol.ShallowCopy)
					pm = rpi.MaskedLinearTransformationProtocol
					shares[i] = rpi.AllocateShare(decLevel, outLevel)
				} else {
					pm = inst(w, fmt.Sprintf("ckks-mt/%v/%v/%d", useRefresh, viaWithParams, prec), i, mt, mpckks.MaskedLinearTransformationProtocol.ShallowCopy)
					shares[i] = pm.AllocateShare(decLevel, outLevel)
				}
				w.dirtyPoly(pIn, shares[i].EncToShareShare.Value)
				w.dirtyPoly(pOut, shares[i].ShareToEncShare.Value)
				var gerr error
				if !c.Try(entry+".GenShare", func() {
					if useRefresh {
						gerr = mpckks.RefreshProtocol{MaskedLinearTransformationProtocol: pm}.GenShare(w.in.sk[i], logBound, ct, crp, &shares[i])
					} else {
						gerr = pm.GenShare(w.in.sk[i], outKeys.sk[i], logBound, ct, crp, tr, &shares[i])
					}
				}) {
					good = false
					break
				}
				if gerr != nil {
					c.Violate(entry+".GenShare|error-on-admissible", fmt.Sprintf("logBound=%d decLevel=%d transform=%s: %v", logBound, decLevel, trName, gerr), w.cf)
					good = false
					break
				}
				c.Check(shares[i].MetaData.Equal(ct.MetaData), entry+".GenShare|share-metadata", nil)
				// every third party sends its share over the wire
				if i%3 == 1 {
					if rt, wok := wireRefreshShare(c, shares[i]); wok {
						shares[i] = rt
					} else {
						good = false
						break
					}
				}
				// decryption share - c1*s_i = e_i - M_i(X^gap): bounded by B off the mask positions, by 2^(logBound-1)+B on them
				x := obs.Centered(rIn, subP(rIn, coef(rIn, shares[i].EncToShareShare.Value, true), mulS(rIn, ct.Value[1], true, w.in.sk[i].Value.Q)))
				lim := new(big.Int).Add(half, big.NewInt(int64(BIn)))
				formOK := true
				negMask := make([]*big.Int, dslots)
				var off []*big.Int
				for j, v := range x {
					if j%gapIn == 0 {
						negMask[j/gapIn] = v
						formOK = formOK && v.CmpAbs(lim) <= 0
					} else {
						off = append(off, v)
						formOK = formOK && leF(v, BIn)
					}
				}
				c.Count("share_noise_measurements", 1)
				if !c.Check(formOK, entry+".GenShare|decryption-share-is-not-c1*s-mask+bounded-noise", func() string {
					return fmt.Sprintf("party %d/%d ct level=%d share level=%d slots=2^%d logBound=%d: residual sup 2^%.1f", i, n, ctLevel, decLevel, logSlots, logBound, log2Big(maxAbs(x)))
				}) {
					good = false
					break
				}
				e2sPool.add(off)
				w.ppool("ckks-mt-e2s", i).add(off)
				// recryption share + crp*s_out,i = e'_i + (LT(M_i) * D/S)(X^gap)
				y := obs.Centered(rOut, addP(rOut, coef(rOut, shares[i].ShareToEncShare.Value, true), mulS(rOut, crp.Value, true, outKeys.sk[i].Value.Q)))
				formOK = true
				var off2 []*big.Int
				worst := 0.0
				for j, v := range y {
					if j%gapOut != 0 {
						off2 = append(off2, v)
						formOK = formOK && leF(v, BOut)
					} else if tr == nil {
						// = trunc(M*D/S) + e' modulo Q_out, M = -(x - e): exact integer comparison. S is the
						// integer the parties derive from the input scale (the code comments say "rounded",
						// the code takes the ceiling; any common integer next to the scale serves the protocol)
						df := math.Inf(1)
						for _, sI := range []*big.Int{Sfloor, Sceil} {
							wantB := new(big.Int).Mul(new(big.Int).Neg(negMask[j/gapOut]), Dint)
							wantB.Quo(wantB, sI)
							wantB.Sub(wantB, v)
							wantB.Mod(wantB, Qout)
							if wantB.Cmp(QoutHalf) > 0 {
								wantB.Sub(wantB, Qout)
							}
							df = math.Min(df, math.Abs(bigF(wantB)))
						}
						tolf := BOut + BIn*ratio + 3
						worst = math.Max(worst, df/tolf)
						formOK = formOK && df <= tolf
					}
				}
				c.Count("share_noise_measurements", 1)
				if !c.Check(formOK, entry+".GenShare|recryption-share-is-not--crp*s+scaled-mask+bounded-noise", func() string {
					return fmt.Sprintf("party %d/%d out level=%d slots=2^%d transform=%s ratio=%.4g: worst deviation/tolerance=%.3g", i, n, outLevel, logSlots, trName, ratio, worst)
				}) {
					good = false
					break
				}
				s2ePool.add(off2)
				w.ppool("ckks-mt-s2e", i).add(off2)
				e2sPolys[i], s2ePolys[i] = shares[i].EncToShareShare.Value, shares[i].ShareToEncShare.Value
			}
			if !good {
				continue
			}
			c.Check(ct.Equal(ct0), entry+".GenShare|input-ciphertext-modified", nil)
			want1, want2 := sumMod(rIn, e2sPolys), sumMod(rOut, s2ePolys)
			ops := aggOps[multiparty.RefreshShare]{clone: cloneRefresh, add: func(a, b multiparty.RefreshShare, o *multiparty.RefreshShare) error {
				if useRefresh {
					return rp.AggregateShares(&a, &b, o)
				}
				return mt.AggregateShares(&a, &b, o)
			}}
			var agg multiparty.RefreshShare
			for _, plan := range pickPlans(w.rnd, n) {
				var a multiparty.RefreshShare
				var aerr error
				if !c.Try(entry+".AggregateShares", func() { a, aerr = aggregate(w.rnd, plan, shares, ops) }) {
					good = false
					break
				}
				if aerr != nil {
					c.Violate(entry+".AggregateShares|error-on-admissible", aerr.Error(), w.cf)
					good = false
					break
				}
				c.Count("aggregation_orders", 1)
				c.Check(eqMod(rIn, a.EncToShareShare.Value, want1) && eqMod(rOut, a.ShareToEncShare.Value, want2), entry+".AggregateShares|aggregate-differs-from-sum|"+planClass(plan), nil)
				agg = a
			}
			if !good {
				continue
			}
			agg.MetaData = shares[0].MetaData

			// value-domain model of the transform
			phC := obs.Centered(pIn.RingQ().AtLevel(ctLevel), m.phIn)
			var U, V []complex128
			if tf != nil {
				if dec {
					U = m.cvals
				} else {
					U = pairs(obs.Centered(pIn.RingQ().AtLevel(ctLevel), m.ptCoef), slots, std, S)
				}
				V = tf.model(U)
			}
			for _, shape := range []string{"inplace", "fresh-output"} {
				src := snapshot(ct)
				var dst *rlwe.Ciphertext
				if shape == "inplace" {
					dst = src
				} else {
					dst = ckks.NewCiphertext(cpOut, 1, eng.Pick(w.rnd, outLevel, pOut.MaxLevel(), 0))
					w.dirtyCt(pOut, dst)
				}
				var terr error
				sg := entry + ".Transform"
				if useRefresh {
					sg = entry + ".Finalize"
				}
				if !c.Try(sg, func() {
					if useRefresh {
						terr = rp.Finalize(src, crp, agg, dst)
					} else {
						terr = mt.Transform(src, tr, crp, agg, dst)
					}
				}) {
					continue
				}
				if terr != nil {
					c.Violate(sg+"|error-on-admissible", terr.Error(), w.cf)
					continue
				}
				if !c.Check(dst.Level() == outLevel && dst.Degree() == 1 && dst.Value[0].N() == pOut.N(), sg+"|output-level", func() string {
					return fmt.Sprintf("level %d want %d (%s)", dst.Level(), outLevel, shape)
				}) {
					continue
				}
				// documented: the scale is reset to the default scale of the output parameters
				wantBatched := ct.IsBatched
				if tr != nil {
					wantBatched = tr.Encode
				}
				okMeta := dst.Scale.Cmp(cpOut.DefaultScale()) == 0 && dst.LogDimensions == ct0.LogDimensions && dst.IsBatched == wantBatched && dst.IsNTT
				if !c.Check(okMeta, sg+"|output-metadata", func() string {
					return fmt.Sprintf("shape=%s got %+v want scale=2^%d dims=%v batched=%v", shape, *dst.MetaData, cpOut.LogDefaultScale(), ct0.LogDimensions, wantBatched)
				}) {
					continue
				}
				if shape != "inplace" {
					c.Check(src.Equal(ct0), sg+"|input-ciphertext-modified", nil)
				}
				oc := obs.Centered(rOut, phase(rOut, dst.Value[0], dst.Value[1], true, outKeys.ideal.Value.Q))
				c.Count("noise_measurements", 1)
				// positions that carry no message hold only the recryption noise
				offOK := true
				for j, v := range oc {
					if j%gapOut != 0 && !leF(v, float64(n)*BOut) {
						offOK = false
					}
				}
				if !c.Check(offOK, sg+"|noise-off-the-message-positions-above-bound", nil) {
					continue
				}
				if tr == nil {
					// coefficient-wise: out = (m + e_in + sum e_i) * D/S truncated party-wise, plus recryption noise
					worst, wk := 0.0, 0
					tolc := (float64(n)+2)*(1+0) + ratio*float64(n)*BIn + float64(n)*BOut + 2
					for k := 0; k < dslots; k++ {
						wantB := new(big.Int).Mul(phC[k*gapIn], Dint)
						wantB.Quo(wantB, Sceil)
						tk := tolc + 2 + math.Abs(bigF(wantB))/S
						df := math.Abs(bigF(wantB.Sub(wantB, oc[k*gapOut])))
						if df/tk > worst {
							worst, wk = df/tk, k
						}
					}
					c.Max("max_refresh_dev_over_tol_x1000", int64(1000*worst))
					if !c.Check(worst <= 1, sg+"|not-a-fresh-encryption-of-the-message-at-default-scale", func() string {
						return fmt.Sprintf("shape=%s parties=%d ct level=%d dec level=%d out level=%d slots=2^%d logBound=%d scale ratio=%.6g: coefficient %d deviates by %.3g x tolerance (%.3g)", shape, n, ctLevel, decLevel, outLevel, logSlots, logBound, ratio, wk, worst, tolc)
					}) {
						continue
					}
					c.Count("refresh_outputs_checked", 1)
					if ct.IsBatched {
						tol := float64(2*slots)*(tolc+ratio*(m.eInMax+1))/Dd + 1e-10
						w.verifyCKKS(cpOut, encOut, m.cvals, dst, outKeys.ideal, tol, sg)
					}
					continue
				}
				// transforms: value-domain comparison
				var epsIn, epsOut float64
				if dec {
					epsIn = float64(2*slots) * (m.eInMax + float64(n)*BIn + 1) / S
				} else {
					epsIn = 2 * (m.eInMax + float64(n)*BIn + 1) / S
				}
				outCoefErr := (float64(n)+2)*(1+ratio) + float64(n)*BOut + 2
				if enc {
					epsOut = float64(2*slots) * outCoefErr / Dd
				} else {
					epsOut = 2 * outCoefErr / Dd
				}
				epsFFT := float64(n+1) * fnorm * math.Exp2(float64(int(logBound)+3*logSlots+16-int(prec))) / S
				tol := fnorm*epsIn + epsOut + epsFFT + 1e-9
				if tol > 1.0/64 {
					c.Count("decode_skipped_noise_budget", 1)
					continue
				}
				var have []complex128
				if enc {
					okD := c.Try(sg+"|decrypt-decode", func() {
						pt := rlwe.NewDecryptor(cpOut, outKeys.ideal).DecryptNew(reducedCopy(pOut, dst))
						have = make([]complex128, pt.Slots())
						if err := encOut.Decode(pt, have); err != nil {
							panic(err)
						}
					})
					if !okD {
						continue
					}
				} else {
					have = pairs(oc, slots, std, Dd)
				}
				worst, wi := 0.0, 0
				for i := range V {
					if d := cabs(have[i] - V[i]); d > worst || math.IsNaN(d) {
						worst, wi = d, i
						if math.IsNaN(d) {
							worst = math.Inf(1)
							break
						}
					}
				}
				c.Max("max_transform_err_over_tol_x1000", int64(1000*math.Min(worst/tol, 1e12)))
				if c.Check(worst <= tol, sg+"|output-is-not-f(message)", func() string {
					return fmt.Sprintf("shape=%s transform=%s parties=%d ct level=%d dec level=%d out level=%d slots=2^%d logBound=%d prec=%d ratio=%.4g: slot %d got %v want %v |diff|=%.3g tolerance=%.3g", shape, trName, n, ctLevel, decLevel, outLevel, logSlots, logBound, prec, ratio, wi, have[wi], V[wi], worst, tol)
				}) {
					c.Count("refresh_outputs_checked", 1)
				}
			}
		}
	}
	checkFloor(c, "C16|mpckks.MaskedLinearTransformationProtocol.GenShare|e2s", e2sPool, ndIn.Sigma, ndIn.Sigma)
	checkFloor(c, "C16|mpckks.MaskedLinearTransformationProtocol.GenShare|s2e", s2ePool, ndOut.Sigma, ndOut.Sigma)
	w.checkPools("ckks-mt-e2s", "C16|mpckks.MaskedLinearTransformationProtocol.GenShare|e2s", ndIn.Sigma, ndIn.Sigma)
	w.checkPools("ckks-mt-s2e", "C16|mpckks.MaskedLinearTransformationProtocol.GenShare|s2e", ndOut.Sigma, ndOut.Sigma)
}
