package c16

import (
	"fmt"
	"math/big"

	"github.com/tuneinsight/lattigo/v6/core/rlwe"
	"github.com/tuneinsight/lattigo/v6/multiparty"
	"github.com/tuneinsight/lattigo/v6/multiparty/mpbgv"
	"github.com/tuneinsight/lattigo/v6/ring"
	"github.com/tuneinsight/lattigo/v6/schemes/bgv"
	"github.com/tuneinsight/lattigo/v6/utils/sampling"

	"verif/harness/eng"
	"verif/harness/obs"
	"verif/harness/ref"
)

// embedT returns the coefficient-domain polynomial t^-1 * p(X^gap) at the level of r, p a vector of
// residues modulo t (the harness' own model of "plaintext ring -> ciphertext ring, scaled up").
func embedT(r *ring.Ring, t uint64, p []uint64) ring.Poly {
	out := r.NewPoly()
	gap := r.N() / len(p)
	for i := 0; i <= r.Level(); i++ {
		q := r.SubRings[i].Modulus
		tinv := ref.InvMod(t%q, q)
		for j, x := range p {
			out.Coeffs[i][j*gap] = ref.MulMod(x%q, tinv, q)
		}
	}
	return out
}

// budgetBGV: t*(noise+slack) < Q_level/2 ?
func budgetBGV(bp bgv.Parameters, level int, noise float64) bool {
	Ql := new(big.Float).SetInt(bp.RingQ().ModulusAtLevel[level])
	lim, _ := Ql.Quo(Ql, big.NewFloat(2*float64(bp.PlaintextModulus()))).Float64()
	return noise+2 < lim
}

func crsFrom(rnd *eng.Rand) sampling.PRNG {
	key := make([]byte, 32)
	rnd.Read(key)
	p, err := sampling.NewKeyedPRNG(key)
	if err != nil {
		panic(err)
	}
	return p
}

func eqU(a, b []uint64) int {
	for i := range a {
		if a[i] != b[i] {
			return i
		}
	}
	return -1
}

func ksOps(agg func(a, b multiparty.KeySwitchShare, o *multiparty.KeySwitchShare) error) aggOps[multiparty.KeySwitchShare] {
	return aggOps[multiparty.KeySwitchShare]{
		clone: func(s multiparty.KeySwitchShare) multiparty.KeySwitchShare {
			return multiparty.KeySwitchShare{Value: *s.Value.CopyNew()}
		},
		add: agg,
	}
}

// levelsFor returns the levels (descending) whose modulus satisfies the budget predicate.
func levelsFor(maxLevel int, ok func(l int) bool) []int {
	var out []int
	for l := maxLevel; l >= 0; l-- {
		if ok(l) {
			out = append(out, l)
		}
	}
	return out
}

// ---------------------------------------------------------------------------------------------
// encryption-to-shares / shares-to-encryption

func runBGVShare(c *eng.Ctx, cc caseCfg) {
	w := build(c, cc.P)
	if w == nil {
		return
	}
	w.setX(cc)
	c.Sample(cc)
	bp, n, t := w.bp, w.cf.Parties, w.bp.PlaintextModulus()
	params := w.params
	nd := ksNoise(params, w.fl)
	B := errB(nd)
	e2sPool, s2ePool := &pool{}, &pool{}
	sigE, sigS := "C16|mpbgv.EncToShareProtocol", "C16|mpbgv.ShareToEncProtocol"
	ringT := bp.RingT()
	nT := ringT.N()

	var e2s mpbgv.EncToShareProtocol
	var s2e mpbgv.ShareToEncProtocol
	var err1, err2 error
	if !c.Try(sigE+".New", func() {
		e2s, err1 = mpbgv.NewEncToShareProtocol(bp, w.fl)
		s2e, err2 = mpbgv.NewShareToEncProtocol(bp, w.fl)
	}) {
		return
	}
	if err1 != nil || err2 != nil {
		c.Violate(sigE+".New|error-on-admissible", fmt.Sprint(err1, err2), w.cf)
		return
	}
	freshB := freshBound(params, float64(n*params.N())) // generous a-priori bound on the input noise (sk or pk encryption)
	for _, ctLevel := range w.levels(params.MaxLevel()) {
		// share levels at which the masked decryption is guaranteed to be exact
		lv := levelsFor(ctLevel, func(l int) bool { return budgetBGV(bp, l, freshB+float64(n)*(B+1)+1) })
		if len(lv) == 0 {
			c.Count("levels_skipped_noise_budget", 1)
			continue
		}
		shareLevel := lv[w.rnd.N(len(lv))]
		if w.rnd.N(3) == 0 {
			shareLevel = lv[len(lv)-1] // smallest admissible
		}
		// used receivers: the public share is allocated above the level it ends up at (the level of
		// the ciphertext, when the budget allows decrypting there)
		allocAbove := w.x.Dirty && lv[0] == ctLevel && w.rnd.Bool()
		if allocAbove {
			shareLevel = ctLevel
		}
		m := w.newMessage(ctLevel, eng.Pick(w.rnd, "sk", "pk"), -1)
		if m.eInMax > freshB {
			c.Violate("C16|harness|input-noise-above-a-priori-bound", fmt.Sprintf("%.0f > %.0f", m.eInMax, freshB), w.cf)
			return
		}
		ct := m.ct
		ct0 := snapshot(ct)
		r := params.RingQ().AtLevel(shareLevel)
		c.Distinct(fmt.Sprintf("bgv-e2s/%s/L%d/S%d", w.cf.tag(), ctLevel, shareLevel), n > 1 || ctLevel < params.MaxLevel() || shareLevel < ctLevel || w.cf.Sigma > 4)

		// expected plaintext-ring polynomial (library encoder, plaintext side only)
		pT := ringT.NewPoly()
		if err := w.benc.EncodeRingT(m.uvals, ct.Scale, pT); err != nil {
			panic(err)
		}
		wantT := append([]uint64(nil), pT.Coeffs[0]...)

		pub := make([]multiparty.KeySwitchShare, n)
		sec := make([]multiparty.AdditiveShare, n)
		protos := make([]mpbgv.EncToShareProtocol, n)
		pubPolys := make([]ring.Poly, n)
		ok := true
		for i := 0; i < n && ok; i++ {
			protos[i] = inst(w, "bgv-e2s", i, e2s, mpbgv.EncToShareProtocol.ShallowCopy)
			alloc := shareLevel
			if allocAbove {
				alloc = params.MaxLevel()
				c.Count("x_shares_allocated_above_their_level", 1)
			}
			pub[i] = protos[i].AllocateShare(alloc)
			sec[i] = mpbgv.NewAdditiveShare(bp)
			w.dirtyPoly(params, pub[i].Value)
			if w.x.Dirty {
				for j := range sec[i].Value.Coeffs[0] {
					sec[i].Value.Coeffs[0][j] = w.rnd.U64() % t
				}
			}
			if !c.Try(sigE+".GenShare", func() { protos[i].GenShare(w.in.sk[i], ct, &sec[i], &pub[i]) }) {
				ok = false
				break
			}
			// mask must be a residue vector modulo t
			for _, x := range sec[i].Value.Coeffs[0] {
				if x >= t {
					c.Violate(sigE+".GenShare|mask-not-reduced-mod-t", fmt.Sprintf("%d >= t=%d", x, t), w.cf)
					ok = false
					break
				}
			}
			if pub[i].Level() != shareLevel {
				c.Violate(sigE+".GenShare|share-level", fmt.Sprintf("level %d want %d", pub[i].Level(), shareLevel), w.cf)
				ok = false
				break
			}
			// public share = c1*s_i + e_i - t^-1*M_i
			x := addP(r, coef(r, pub[i].Value, true), embedT(r, t, sec[i].Value.Coeffs[0]))
			e := obs.Centered(r, subP(r, x, mulS(r, ct.Value[1], true, w.in.sk[i].Value.Q)))
			mx := maxAbs(e)
			c.Count("share_noise_measurements", 1)
			c.Max("max_share_noise_log2_x100", int64(100*log2Big(mx)))
			if !c.Check(leF(mx, B), sigE+".GenShare|share-is-not-c1*s-mask+bounded-noise", func() string {
				return fmt.Sprintf("party %d/%d ct level=%d share level=%d: residual 2^%.1f, bound %.0f", i, n, ctLevel, shareLevel, log2Big(mx), B)
			}) {
				ok = false
				break
			}
			e2sPool.add(e)
			w.ppool("bgv-e2s", i).add(e)
			pubPolys[i] = pub[i].Value
		}
		if !ok {
			continue
		}
		c.Check(ct.Equal(ct0), sigE+".GenShare|input-ciphertext-modified", nil)
		// two parties must not draw the same mask
		if n > 1 && nT >= 8 {
			c.Check(eqU(sec[0].Value.Coeffs[0], sec[1].Value.Coeffs[0]) >= 0, sigE+".GenShare|same-mask-twice", nil)
		}
		want := sumMod(r, pubPolys)
		var agg multiparty.KeySwitchShare
		for _, plan := range pickPlans(w.rnd, n) {
			var a multiparty.KeySwitchShare
			var aerr error
			if !c.Try(sigE+".AggregateShares", func() { a, aerr = aggregate(w.rnd, plan, pub, ksOps(e2s.AggregateShares)) }) {
				ok = false
				break
			}
			if aerr != nil {
				c.Violate(sigE+".AggregateShares|error-on-admissible", aerr.Error(), w.cf)
				ok = false
				break
			}
			c.Count("aggregation_orders", 1)
			c.Check(eqMod(r, a.Value, want), sigE+".AggregateShares|aggregate-differs-from-sum|"+planClass(plan), nil)
			agg = a
		}
		if !ok {
			continue
		}
		// final share of one party; the three documented call shapes
		holder := w.rnd.N(n)
		shape := eng.Pick(w.rnd, "alias", "fresh", "nil")
		final := make([][]uint64, 0, n+1)
		for i := 0; i < n; i++ {
			if i != holder || shape == "nil" {
				final = append(final, append([]uint64(nil), sec[i].Value.Coeffs[0]...))
			}
		}
		outShare := mpbgv.NewAdditiveShare(bp)
		if w.x.Dirty {
			for j := range outShare.Value.Coeffs[0] {
				outShare.Value.Coeffs[0][j] = w.rnd.U64() % t
			}
		}
		okG := c.Try(sigE+".GetShare", func() {
			switch shape {
			case "alias":
				protos[holder].GetShare(&sec[holder], agg, ct, &sec[holder])
				outShare = sec[holder]
			case "fresh":
				protos[holder].GetShare(&sec[holder], agg, ct, &outShare)
			case "nil":
				protos[holder].GetShare(nil, agg, ct, &outShare)
			}
		})
		if !okG {
			continue
		}
		final = append(final, outShare.Value.Coeffs[0])
		sum := make([]uint64, nT)
		for _, f := range final {
			for j := range sum {
				sum[j] = ref.AddMod(sum[j], f[j]%t, t)
			}
		}
		c.Count("additive_sharings_checked", 1)
		bad := eqU(sum, wantT)
		if !c.Check(bad < 0, sigE+".GetShare|shares-do-not-sum-to-plaintext-mod-t|"+shape, func() string {
			return fmt.Sprintf("coefficient %d: sum=%d want=%d (t=%d parties=%d ct level=%d share level=%d)", bad, sum[bad], wantT[bad], t, n, ctLevel, shareLevel)
		}) {
			continue
		}
		// decoded with the input scale it is the message
		sp := ringT.NewPoly()
		copy(sp.Coeffs[0], sum)
		vals := make([]uint64, len(m.uvals))
		if err := w.benc.DecodeRingT(sp, ct.Scale, vals); err == nil {
			c.Check(eqU(vals, m.uvals) < 0, sigE+".GetShare|decoded-sum-differs-from-message", nil)
		}

		// ---- shares back to an encryption, at any level of the chain, under fresh key shares or the same ones
		crpLevel := eng.Pick(w.rnd, params.MaxLevel(), params.MaxLevel(), w.rnd.N(params.MaxLevel()+1))
		if !budgetBGV(bp, crpLevel, float64(n)*(B+1)+1) {
			crpLevel = params.MaxLevel()
			if !budgetBGV(bp, crpLevel, float64(n)*(B+1)+1) {
				c.Count("levels_skipped_noise_budget", 1)
				continue
			}
		}
		outKeys := w.in
		if w.rnd.Bool() {
			outKeys = newKeyset(params, n)
		}
		ro := params.RingQ().AtLevel(crpLevel)
		crp := s2e.SampleCRP(crpLevel, crsFrom(w.rnd))
		c.Distinct(fmt.Sprintf("bgv-s2e/%s/L%d", w.cf.tag(), crpLevel), n > 1 || crpLevel < params.MaxLevel() || w.cf.Sigma > 4)
		// the additive shares as they stand after GetShare
		addSh := make([]multiparty.AdditiveShare, 0, n+1)
		for _, f := range final {
			p := ringT.NewPoly()
			copy(p.Coeffs[0], f)
			addSh = append(addSh, multiparty.AdditiveShare{Value: p})
		}
		// with the "nil" shape there are n+1 additive shares for n key holders: party 0 contributes the sum of two
		if len(addSh) == n+1 {
			ringT.Add(addSh[0].Value, addSh[n].Value, addSh[0].Value)
			addSh = addSh[:n]
		}
		c0 := make([]multiparty.KeySwitchShare, n)
		c0Polys := make([]ring.Poly, n)
		ok = true
		for i := 0; i < n && ok; i++ {
			p := inst(w, "bgv-s2e", i, s2e, mpbgv.ShareToEncProtocol.ShallowCopy)
			c0[i] = p.AllocateShare(crpLevel)
			w.dirtyPoly(params, c0[i].Value)
			var gerr error
			secBefore := append([]uint64(nil), addSh[i].Value.Coeffs[0]...)
			if !c.Try(sigS+".GenShare", func() { gerr = p.GenShare(outKeys.sk[i], crp, addSh[i], &c0[i]) }) {
				ok = false
				break
			}
			if gerr != nil {
				c.Violate(sigS+".GenShare|error-on-admissible", gerr.Error(), w.cf)
				ok = false
				break
			}
			c.Check(eqU(secBefore, addSh[i].Value.Coeffs[0]) < 0, sigS+".GenShare|secret-share-modified", nil)
			// share = -crp*s_i + e_i + t^-1*M_i
			x := addP(ro, coef(ro, c0[i].Value, true), mulS(ro, crp.Value, true, outKeys.sk[i].Value.Q))
			e := obs.Centered(ro, subP(ro, x, embedT(ro, t, addSh[i].Value.Coeffs[0])))
			mx := maxAbs(e)
			c.Count("share_noise_measurements", 1)
			if !c.Check(leF(mx, B), sigS+".GenShare|share-is-not--crp*s+mask+bounded-noise", func() string {
				return fmt.Sprintf("party %d/%d level=%d: residual 2^%.1f, bound %.0f", i, n, crpLevel, log2Big(mx), B)
			}) {
				ok = false
				break
			}
			s2ePool.add(e)
			w.ppool("bgv-s2e", i).add(e)
			c0Polys[i] = c0[i].Value
		}
		if !ok {
			continue
		}
		wantC0 := sumMod(ro, c0Polys)
		var aggC0 multiparty.KeySwitchShare
		for _, plan := range pickPlans(w.rnd, n) {
			var a multiparty.KeySwitchShare
			var aerr error
			if !c.Try(sigS+".AggregateShares", func() { a, aerr = aggregate(w.rnd, plan, c0, ksOps(s2e.AggregateShares)) }) {
				ok = false
				break
			}
			if aerr != nil {
				c.Violate(sigS+".AggregateShares|error-on-admissible", aerr.Error(), w.cf)
				ok = false
				break
			}
			c.Count("aggregation_orders", 1)
			c.Check(eqMod(ro, a.Value, wantC0), sigS+".AggregateShares|aggregate-differs-from-sum|"+planClass(plan), nil)
			aggC0 = a
		}
		if !ok {
			continue
		}
		ctRec := bgv.NewCiphertext(bp, 1, crpLevel)
		if w.x.Dirty {
			// a receiver of another level, holding an earlier result: GetEncryption copies (and resizes)
			ctRec = bgv.NewCiphertext(bp, 1, w.rnd.N(params.MaxLevel()+1))
			w.dirtyCt(params, ctRec)
		}
		*ctRec.MetaData = *ct.MetaData
		var rerr error
		if !c.Try(sigS+".GetEncryption", func() { rerr = s2e.GetEncryption(aggC0, crp, ctRec) }) {
			continue
		}
		if rerr != nil {
			c.Violate(sigS+".GetEncryption|error-on-admissible", rerr.Error(), w.cf)
			continue
		}
		if !c.Check(ctRec.Level() == crpLevel, sigS+".GetEncryption|output-level", func() string {
			return fmt.Sprintf("level %d want %d", ctRec.Level(), crpLevel)
		}) {
			continue
		}
		ph := phase(ro, ctRec.Value[0], ctRec.Value[1], true, outKeys.ideal.Value.Q)
		d := maxAbs(obs.Centered(ro, subP(ro, ph, embedT(ro, t, wantT))))
		c.Count("noise_measurements", 1)
		c.Max("max_added_noise_log2_x100", int64(100*log2Big(d)))
		if c.Check(leF(d, float64(n)*(B+1)), sigS+".GetEncryption|not-an-encryption-of-the-shared-plaintext", func() string {
			return fmt.Sprintf("parties=%d level=%d: |phase - t^-1*pT|inf=2^%.1f bound %.0f", n, crpLevel, log2Big(d), float64(n)*(B+1))
		}) {
			w.verifyBGV(bp, w.benc, m.uvals, ctRec, outKeys.ideal, float64(n)*(B+1), sigS+".GetEncryption")
		}
	}
	checkFloor(c, sigE+".GenShare", e2sPool, nd.Sigma, nd.Sigma)
	checkFloor(c, sigS+".GenShare", s2ePool, nd.Sigma, nd.Sigma)
	w.checkPools("bgv-e2s", sigE+".GenShare", nd.Sigma, nd.Sigma)
	w.checkPools("bgv-s2e", sigS+".GenShare", nd.Sigma, nd.Sigma)
}

var _ = rlwe.NewScale
