package c16

import (
	"fmt"
	"math"
	"math/big"

	"github.com/tuneinsight/lattigo/v6/core/rlwe"
	"github.com/tuneinsight/lattigo/v6/ring"

	"verif/harness/eng"
	"verif/harness/gen"
	"verif/harness/obs"
	"verif/harness/ref"
)

// ---------------------------------------------------------------------------------------------
// parameter descriptors

type pcfg struct {
	Scheme  string   `json:"scheme"` // rlwe | bgv | ckks
	Ring    string   `json:"ring"`   // std | ci
	LogN    int      `json:"logN"`
	Q       []uint64 `json:"q"`
	P       []uint64 `json:"p"`
	QBits   []int    `json:"qbits"`
	PBits   []int    `json:"pbits"`
	T       uint64   `json:"t,omitempty"`
	LogS    int      `json:"logscale,omitempty"`
	NTT     bool     `json:"ntt"`
	Xs      string   `json:"xs"`
	Parties int      `json:"parties"`
	Sigma   float64  `json:"flood_sigma"`
	// audit extensions (empty / zero = the library defaults, tag unchanged)
	Xe          string  `json:"xe,omitempty"`                     // gauss-tight | gauss-wide | ternary
	FloodBoundX float64 `json:"flood_bound_over_sigma,omitempty"` // truncation bound of the flooding noise in units of sigma (0 = 6)
}

// xe returns the error distribution of the parameter set (nil = library default).
func (c pcfg) xe() ring.DistributionParameters {
	switch c.Xe {
	case "gauss-tight":
		return ring.DiscreteGaussian{Sigma: 1.5, Bound: 4}
	case "gauss-wide":
		return ring.DiscreteGaussian{Sigma: 12, Bound: 72}
	case "ternary":
		return ring.Ternary{P: 0.5}
	}
	return nil
}

func (c pcfg) flood() ring.DiscreteGaussian {
	if c.FloodBoundX > 0 {
		return ring.DiscreteGaussian{Sigma: c.Sigma, Bound: c.FloodBoundX * c.Sigma}
	}
	return flood(c.Sigma)
}

func (c pcfg) xs() ring.DistributionParameters {
	n := 1 << c.LogN
	switch c.Xs {
	case "ternary-p2/3":
		return ring.Ternary{P: 2.0 / 3}
	case "ternary-h":
		return ring.Ternary{H: min(32, n/2)}
	}
	return ring.Ternary{P: 0.5}
}

func (c pcfg) rlweLit() rlwe.ParametersLiteral {
	rt := ring.Standard
	if c.Ring == "ci" {
		rt = ring.ConjugateInvariant
	}
	return rlwe.ParametersLiteral{LogN: c.LogN, Q: c.Q, P: c.P, Xs: c.xs(), Xe: c.xe(), RingType: rt, NTTFlag: c.NTT}
}

func (c pcfg) tag() string {
	s := fmt.Sprintf("%s/%s/logN%d/q%v/p%v/t%d/s%d/ntt%v/%s/n%d/sg%g", c.Scheme, c.Ring, c.LogN, c.QBits, c.PBits, c.T, c.LogS, c.NTT, c.Xs, c.Parties, c.Sigma)
	if c.Xe != "" {
		s += "/xe-" + c.Xe
	}
	if c.FloodBoundX > 0 {
		s += fmt.Sprintf("/fb%g", c.FloodBoundX)
	}
	return s
}

func flood(sigma float64) ring.DiscreteGaussian {
	return ring.DiscreteGaussian{Sigma: sigma, Bound: 6 * sigma}
}

// pickT returns a prime t of the given bit size with t = 1 mod 2n and t != 1 mod 4n when exact
// is set (so that the plaintext ring has exactly degree n).
func pickT(r *eng.Rand, bits int, n int, exact bool) uint64 {
	for pos := 0; pos < 4; pos++ {
		for _, t := range gen.Primes(bits, uint64(2*n), 24, (pos+r.N(4))%4, nil) {
			if !exact || t%(uint64(4*n)) != 1 {
				return t
			}
		}
	}
	return 0
}

// ---------------------------------------------------------------------------------------------
// polynomial helpers (harness side; ring kernels are the ones judged by C01)

// red returns a copy of p with every coefficient reduced into [0,q_i) (shares may legitimately be
// lazily reduced; the harness never feeds such values to a kernel with a narrower domain).
func red(r *ring.Ring, p ring.Poly) ring.Poly {
	out := r.NewPoly()
	for i := 0; i <= r.Level(); i++ {
		q := r.SubRings[i].Modulus
		src := p.Coeffs[i]
		dst := out.Coeffs[i]
		for j := range dst {
			dst[j] = src[j] % q
		}
	}
	return out
}

// coef returns the reduced coefficient-domain representative of p.
func coef(r *ring.Ring, p ring.Poly, isNTT bool) ring.Poly {
	out := red(r, p)
	if isNTT {
		r.INTT(out, out)
	}
	return out
}

// mulS returns the coefficient-domain product p*s, s given in NTT+Montgomery form (secret-key storage).
func mulS(r *ring.Ring, p ring.Poly, isNTT bool, s ring.Poly) ring.Poly {
	out := red(r, p)
	if !isNTT {
		r.NTT(out, out)
	}
	r.MulCoeffsMontgomery(out, s, out)
	r.INTT(out, out)
	return out
}

// phase returns c0 + c1*s in the coefficient domain at the level of r.
func phase(r *ring.Ring, c0, c1 ring.Poly, isNTT bool, s ring.Poly) ring.Poly {
	out := mulS(r, c1, isNTT, s)
	r.Add(out, coef(r, c0, isNTT), out)
	return out
}

func subP(r *ring.Ring, a, b ring.Poly) ring.Poly {
	out := r.NewPoly()
	r.Sub(a, b, out)
	return out
}

func addP(r *ring.Ring, a, b ring.Poly) ring.Poly {
	out := r.NewPoly()
	r.Add(a, b, out)
	return out
}

// sumMod: exact reference sum of polynomials modulo each q_i (inputs possibly lazily reduced).
func sumMod(r *ring.Ring, ps []ring.Poly) ring.Poly {
	out := r.NewPoly()
	for i := 0; i <= r.Level(); i++ {
		q := r.SubRings[i].Modulus
		for _, p := range ps {
			for j := range out.Coeffs[i] {
				out.Coeffs[i][j] = ref.AddMod(out.Coeffs[i][j], p.Coeffs[i][j]%q, q)
			}
		}
	}
	return out
}

// eqMod: a == b modulo each q_i on rows 0..level of r.
func eqMod(r *ring.Ring, a, b ring.Poly) bool {
	if a.Level() < r.Level() || b.Level() < r.Level() {
		return false
	}
	for i := 0; i <= r.Level(); i++ {
		q := r.SubRings[i].Modulus
		for j := range a.Coeffs[i] {
			if a.Coeffs[i][j]%q != b.Coeffs[i][j]%q {
				return false
			}
		}
	}
	return true
}

func maxAbs(v []*big.Int) *big.Int {
	m := new(big.Int)
	for _, x := range v {
		if x.CmpAbs(m) > 0 {
			m.Abs(x)
		}
	}
	return m
}

func bigF(x *big.Int) float64 {
	f, _ := new(big.Float).SetInt(x).Float64()
	return f
}

func log2Big(x *big.Int) float64 { return obs.Log2Big(x) }

// leF: |x| <= bound (bound a float that may exceed 2^63).
func leF(x *big.Int, bound float64) bool {
	b, _ := new(big.Float).SetFloat64(math.Floor(bound)).Int(nil)
	return x.CmpAbs(b) <= 0
}

// ---------------------------------------------------------------------------------------------
// pooled statistics of smudging noise

type pool struct {
	sum, sum2 float64
	n         int
}

func (p *pool) add(v []*big.Int) {
	for _, x := range v {
		f := bigF(x)
		p.sum += f
		p.sum2 += f * f
		p.n++
	}
}

func (p *pool) addAt(v []*big.Int, keep func(j int) bool) {
	for j, x := range v {
		if keep(j) {
			f := bigF(x)
			p.sum += f
			p.sum2 += f * f
			p.n++
		}
	}
}

func (p *pool) std() float64 {
	if p.n == 0 {
		return 0
	}
	m := p.sum / float64(p.n)
	return math.Sqrt(math.Max(0, p.sum2/float64(p.n)-m*m))
}

// minPool is the smallest number of pooled coefficients for which the [nominal/2, ...] region is
// evaluated: for n independent samples P(s^2 < sigma^2/4) = P(chi2_n < n/4) < 1e-40 at n = 256.
const minPool = 256

// checkFloor: the pooled smudging noise must have an empirical standard deviation of at least
// half the requested one (lo) and at most twice the largest one a correct share can carry (hi; 0 = no upper test).
func checkFloor(c *eng.Ctx, sig string, p *pool, lo, hi float64) {
	if p.n < minPool || lo <= 0 {
		return
	}
	s := p.std()
	c.Count("smudging_pools_checked", 1)
	c.Count("smudging_coefficients_pooled", int64(p.n))
	c.Check(s >= lo/2, sig+"|smudging-noise-below-requested", func() string {
		return fmt.Sprintf("pooled coefficients=%d empirical std=%.4g requested sigma=%.4g", p.n, s, lo)
	})
	if hi > 0 {
		c.Check(s <= 2*hi, sig+"|smudging-noise-std-above-2x-nominal", func() string {
			return fmt.Sprintf("pooled coefficients=%d empirical std=%.4g nominal=%.4g", p.n, s, hi)
		})
	}
}

// ---------------------------------------------------------------------------------------------
// keys and parties

type keyset struct {
	params rlwe.Parameters
	n      int
	sk     []*rlwe.SecretKey // party shares
	ideal  *rlwe.SecretKey   // sum of the shares
}

func addSK(params rlwe.Parameters, acc, s *rlwe.SecretKey) {
	params.RingQ().Add(acc.Value.Q, s.Value.Q, acc.Value.Q)
	if params.RingP() != nil {
		params.RingP().Add(acc.Value.P, s.Value.P, acc.Value.P)
	}
}

func newKeyset(params rlwe.Parameters, n int) *keyset {
	kg := rlwe.NewKeyGenerator(params)
	ks := &keyset{params: params, n: n, ideal: rlwe.NewSecretKey(params)}
	for i := 0; i < n; i++ {
		s := kg.GenSecretKeyNew()
		ks.sk = append(ks.sk, s)
		addSK(params, ks.ideal, s)
	}
	return ks
}

func zeroKeyset(params rlwe.Parameters, n int) *keyset {
	ks := &keyset{params: params, n: n, ideal: rlwe.NewSecretKey(params)}
	for i := 0; i < n; i++ {
		ks.sk = append(ks.sk, rlwe.NewSecretKey(params))
	}
	return ks
}

// l1 norm and sup norm of the (centred) secret polynomial.
func skNorms(params rlwe.Parameters, s *rlwe.SecretKey) (l1, inf float64) {
	r := params.RingQ().AtLevel(0)
	p := r.NewPoly()
	copy(p.Coeffs[0], s.Value.Q.Coeffs[0])
	r.INTT(p, p)
	r.IMForm(p, p)
	q := r.SubRings[0].Modulus
	for _, x := range p.Coeffs[0] {
		v := float64(x)
		if x > q/2 {
			v = float64(q - x)
		}
		l1 += v
		inf = math.Max(inf, v)
	}
	return
}

func ciFactor(p rlwe.Parameters) float64 {
	if p.RingType() == ring.ConjugateInvariant {
		return 2
	}
	return 1
}

// errB: worst-case |e|_inf of one sample of a truncated discrete Gaussian.
func errB(d ring.DiscreteGaussian) float64 { return math.Floor(d.Bound + 0.5) }

// ksNoise returns the distribution the sk-key-switch protocol documents for its shares:
// sigma = sqrt(sigma_fresh^2 + sigma_flood^2), bound 6 sigma.
func ksNoise(params rlwe.Parameters, fl ring.DiscreteGaussian) ring.DiscreteGaussian {
	f := params.NoiseFreshSK()
	s := math.Sqrt(f*f + fl.Sigma*fl.Sigma)
	return ring.DiscreteGaussian{Sigma: s, Bound: 6 * s}
}

// pkEncBound: worst-case |c0 + c1*s|_inf of a public-key encryption of zero under a secret of l1
// norm hs (same derivation as the C03 monitor: u*e_pk + e0 + e1*s, divided by the first auxiliary
// prime and rounded when P is present).
func pkEncBound(params rlwe.Parameters, hs float64) float64 {
	B, _ := obs.ErrBound(params)
	_, hu := obs.SecretBound(params)
	cif := ciFactor(params)
	b := cif*hu*B + B + cif*hs*B
	if params.RingP() != nil {
		Pf := float64(params.P()[0])
		b = b/Pf + 2*(1+cif*hs)
	}
	return b
}

// freshBound: a-priori bound on the noise of the input ciphertexts the workloads encrypt, either
// with the public key (pkEncBound) or with the secret key. A secret-key encryption samples its
// error directly modulo Q, also when the parameters have auxiliary primes: its noise is one error
// sample (up to B), which exceeds the public-key bound when B is large and the ring small.
func freshBound(params rlwe.Parameters, hs float64) float64 {
	B, _ := obs.ErrBound(params)
	return 1 + math.Max(pkEncBound(params, hs), B)
}

// ---------------------------------------------------------------------------------------------
// aggregation plans

type aggOps[T any] struct {
	clone func(T) T
	add   func(a, b T, out *T) error
}

var planNames = []string{"fold", "fold-alias2", "perm", "tree", "perm-rev"}

// aggregate combines the shares following the named plan and returns the aggregate.
func aggregate[T any](rnd *eng.Rand, plan string, shares []T, ops aggOps[T]) (out T, err error) {
	n := len(shares)
	switch plan {
	case "fold": // in index order, accumulating in place on the first operand (in-tree pattern)
		acc := ops.clone(shares[0])
		for i := 1; i < n; i++ {
			if err = ops.add(acc, shares[i], &acc); err != nil {
				return acc, err
			}
		}
		return acc, nil
	case "fold-alias2": // accumulator is the second operand
		acc := ops.clone(shares[0])
		for i := 1; i < n; i++ {
			if err = ops.add(shares[i], acc, &acc); err != nil {
				return acc, err
			}
		}
		return acc, nil
	case "perm", "perm-rev":
		p := rnd.Perm(n)
		if plan == "perm-rev" {
			for i := range p {
				p[i] = n - 1 - i
			}
		}
		acc := ops.clone(shares[p[0]])
		for i := 1; i < n; i++ {
			if err = ops.add(acc, shares[p[i]], &acc); err != nil {
				return acc, err
			}
		}
		return acc, nil
	case "tree": // random binary tree over a random leaf order, fresh output at every node
		p := rnd.Perm(n)
		var rec func(idx []int) (T, error)
		rec = func(idx []int) (T, error) {
			if len(idx) == 1 {
				return shares[idx[0]], nil
			}
			k := 1 + rnd.N(len(idx)-1)
			l, e := rec(idx[:k])
			if e != nil {
				return l, e
			}
			rr, e := rec(idx[k:])
			if e != nil {
				return rr, e
			}
			o := ops.clone(l)
			e = ops.add(l, rr, &o)
			return o, e
		}
		return rec(p)
	}
	panic("unknown plan " + plan)
}

// pickPlans returns the plans exercised for n parties (always the in-tree fold plus others).
func pickPlans(rnd *eng.Rand, n int) []string {
	if n == 1 {
		return []string{"fold"}
	}
	if n == 2 {
		return []string{"fold", "fold-alias2", "perm-rev"}
	}
	out := []string{"fold", eng.Pick(rnd, "fold-alias2", "perm-rev"), "perm", "tree"}
	return out
}
