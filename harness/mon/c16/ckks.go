package c16

import (
	"fmt"
	"math"
	"math/big"

	"github.com/tuneinsight/lattigo/v6/core/rlwe"
	"github.com/tuneinsight/lattigo/v6/multiparty"
	"github.com/tuneinsight/lattigo/v6/multiparty/mpckks"
	"github.com/tuneinsight/lattigo/v6/ring"
	"github.com/tuneinsight/lattigo/v6/schemes/ckks"

	"verif/harness/eng"
	"verif/harness/obs"
	"verif/harness/ref"
)

// embedZ returns the coefficient-domain polynomial sum_k v_k X^(k*gap) at the level of r.
func embedZ(r *ring.Ring, v []*big.Int) ring.Poly {
	out := r.NewPoly()
	gap := r.N() / len(v)
	for i := 0; i <= r.Level(); i++ {
		q := r.SubRings[i].Modulus
		for k, x := range v {
			out.Coeffs[i][k*gap] = ref.ModU(x, q)
		}
	}
	return out
}

func dslotsOf(p rlwe.Parameters, logSlots int) int {
	d := 1 << logSlots
	if p.RingType() == ring.Standard {
		d <<= 1
	}
	return d
}

// fitsHalf: a + b < Q_level/2 ?
func fitsHalf(p rlwe.Parameters, level int, a *big.Int, b float64) bool {
	half := new(big.Int).Rsh(p.RingQ().ModulusAtLevel[level], 1)
	bb, _ := new(big.Float).SetFloat64(math.Ceil(b) + 2).Int(nil)
	return bb.Add(bb, a).Cmp(half) < 0
}

func pow2(k uint) *big.Int { return new(big.Int).Lsh(big.NewInt(1), k) }

// pickLogBound returns a mask size for n parties and the smallest level at which the harness'
// worst-case correctness condition  n*2^(logBound-1) + |pt| + noise < Q_level/2  holds (and the
// library's own minimum level), or ok=false.
func (w *world) pickLogBound(c *eng.Ctx, scale rlwe.Scale, ptMax *big.Int, noise float64) (logBound uint, minLevel int, ok bool) {
	n := w.cf.Parties
	params := w.params
	sig := "C16|mpckks.GetMinimumLevelForRefresh"
	if w.rnd.N(4) != 0 {
		lambda := eng.Pick(w.rnd, 128, 128, 64, 40, 16)
		var ml int
		var lb uint
		var lok bool
		if !c.Try(sig, func() { ml, lb, lok = mpckks.GetMinimumLevelForRefresh(lambda, scale, n, params.Q()) }) {
			return 0, 0, false
		}
		// independent model: logBound = lambda + ceil(log2 scale); minLevel = least level with Q_level >= 2^ceil(logBound+log2 n)
		wantLB := uint(lambda + int(math.Ceil(math.Log2(scale.Float64()))))
		need := pow2(uint(math.Ceil(float64(wantLB) + math.Log2(float64(n)))))
		wantML := -1
		for l := 0; l <= params.MaxLevel(); l++ {
			if params.RingQ().ModulusAtLevel[l].Cmp(need) >= 0 {
				wantML = l
				break
			}
		}
		c.Count("min_level_queries", 1)
		// the function accumulates float64 logarithms: a modulus within 2^-40 (relative) of the power
		// of two may fall on either side; anything else must agree with the exact comparison
		slack := new(big.Int).Rsh(need, 40)
		needLo, needHi := new(big.Int).Sub(need, slack), new(big.Int).Add(need, slack)
		if wantML < 0 && params.RingQ().ModulusAtLevel[params.MaxLevel()].Cmp(needLo) >= 0 && lok {
			// the whole chain is within that margin below the power of two: "the last level" is as
			// admissible as "none" (the worst-case correctness condition below is checked either way)
			wantML = params.MaxLevel()
			c.Count("min_level_queries_at_float_margin", 1)
		}
		if wantML < 0 {
			c.Check(!lok, sig+"|ok-although-chain-too-short", func() string {
				return fmt.Sprintf("lambda=%d parties=%d log2(scale)=%.1f: returned (%d,%d,%v), log2 Q=%d", lambda, n, math.Log2(scale.Float64()), ml, lb, lok, params.RingQ().ModulusAtLevel[params.MaxLevel()].BitLen())
			})
			return 0, 0, false
		}
		mlOK := lok && ml >= 0 && ml <= params.MaxLevel() && params.RingQ().ModulusAtLevel[ml].Cmp(needLo) >= 0 &&
			(ml == 0 || params.RingQ().ModulusAtLevel[ml-1].Cmp(needHi) < 0)
		if !c.Check(mlOK && lb == wantLB, sig+"|wrong-value", func() string {
			return fmt.Sprintf("lambda=%d parties=%d log2(scale)=%.3f: returned (minLevel=%d logBound=%d ok=%v), want (%d,%d,true)", lambda, n, math.Log2(scale.Float64()), ml, lb, lok, wantML, wantLB)
		}) {
			return 0, 0, false
		}
		logBound, minLevel = lb, ml
	} else {
		// arbitrary mask size: anything from a few bits above the message to what the chain can hold
		top := params.RingQ().ModulusAtLevel[params.MaxLevel()].BitLen() - 4 - bitsOf(n)
		lo := ptMax.BitLen() + 1
		if top <= lo {
			return 0, 0, false
		}
		logBound = uint(lo + w.rnd.N(top-lo))
		minLevel = 0
	}
	// worst-case correctness: n*2^(logBound-1) + |pt| + noise < Q/2 and 2^logBound <= Q (else GenShare refuses)
	sum := new(big.Int).Mul(big.NewInt(int64(n)), pow2(logBound-1))
	sum.Add(sum, ptMax)
	for l := minLevel; l <= params.MaxLevel(); l++ {
		if fitsHalf(params, l, sum, noise) && pow2(logBound).Cmp(params.RingQ().ModulusAtLevel[l]) <= 0 {
			return logBound, l, true
		}
	}
	return 0, 0, false
}

func bitsOf(n int) int {
	b := 0
	for n > 0 {
		b++
		n >>= 1
	}
	return b
}

// gapCoeffs extracts the dslots coefficients at positions k*gap of a centred coefficient vector.
func gapCoeffs(v []*big.Int, dslots int) []*big.Int {
	gap := len(v) / dslots
	out := make([]*big.Int, dslots)
	for k := range out {
		out[k] = v[k*gap]
	}
	return out
}

func runCKKSShare(c *eng.Ctx, cc caseCfg) {
	w := build(c, cc.P)
	if w == nil {
		return
	}
	w.setX(cc)
	c.Sample(cc)
	cp, n, params := w.cp, w.cf.Parties, w.params
	nd := ksNoise(params, w.fl)
	B := errB(nd)
	sigE, sigS := "C16|mpckks.EncToShareProtocol", "C16|mpckks.ShareToEncProtocol"
	e2sPool, s2ePool := &pool{}, &pool{}
	var e2s mpckks.EncToShareProtocol
	var s2e mpckks.ShareToEncProtocol
	var err1, err2 error
	if !c.Try(sigE+".New", func() {
		e2s, err1 = mpckks.NewEncToShareProtocol(cp, w.fl)
		s2e, err2 = mpckks.NewShareToEncProtocol(cp, w.fl)
	}) {
		return
	}
	if err1 != nil || err2 != nil {
		c.Violate(sigE+".New|error-on-admissible", fmt.Sprint(err1, err2), w.cf)
		return
	}
	freshB := freshBound(params, float64(n*params.N()))
	for _, ctLevel := range w.levels(params.MaxLevel()) {
		logSlots := w.pickLogSlots(cp.LogMaxSlots())
		m := w.newMessage(ctLevel, eng.Pick(w.rnd, "sk", "pk"), logSlots)
		ct := m.ct
		if m.eInMax > freshB {
			c.Violate("C16|harness|input-noise-above-a-priori-bound", fmt.Sprintf("%.0f > %.0f", m.eInMax, freshB), w.cf)
			return
		}
		logBound, minLevel, ok := w.pickLogBound(c, ct.Scale, m.ptMax, freshB+float64(n)*B)
		if !ok || minLevel > ctLevel {
			c.Count("levels_skipped_noise_budget", 1)
			continue
		}
		shareLevel := minLevel + w.rnd.N(ctLevel-minLevel+1)
		if w.rnd.N(3) == 0 {
			shareLevel = minLevel
		}
		// used receivers: the public share is allocated above the level it ends up at (the ciphertext's)
		allocAbove := w.x.Dirty && w.rnd.Bool()
		if allocAbove {
			shareLevel = ctLevel
		}
		ct0 := snapshot(ct)
		r := params.RingQ().AtLevel(shareLevel)
		dslots := dslotsOf(params, logSlots)
		gap := params.N() / dslots
		c.Distinct(fmt.Sprintf("ckks-e2s/%s/L%d/S%d/slots%d/lb%d", w.cf.tag(), ctLevel, shareLevel, logSlots, logBound), n > 1 || ctLevel < params.MaxLevel() || shareLevel < ctLevel || w.cf.Sigma > 4)
		c.Max("max_log_bound", int64(logBound))

		pub := make([]multiparty.KeySwitchShare, n)
		sec := make([]multiparty.AdditiveShareBigint, n)
		protos := make([]mpckks.EncToShareProtocol, n)
		pubPolys := make([]ring.Poly, n)
		eSum := make([]*big.Int, params.N())
		for j := range eSum {
			eSum[j] = new(big.Int)
		}
		half := pow2(logBound - 1)
		good := true
		for i := 0; i < n && good; i++ {
			protos[i] = inst(w, "ckks-e2s", i, e2s, mpckks.EncToShareProtocol.ShallowCopy)
			if allocAbove {
				pub[i] = protos[i].AllocateShare(params.MaxLevel())
				c.Count("x_shares_allocated_above_their_level", 1)
			} else {
				pub[i] = protos[i].AllocateShare(shareLevel)
			}
			w.dirtyPoly(params, pub[i].Value)
			sec[i] = mpckks.NewAdditiveShare(cp, logSlots)
			w.dirtyBig(sec[i].Value, int(logBound))
			var gerr error
			if !c.Try(sigE+".GenShare", func() { gerr = protos[i].GenShare(w.in.sk[i], logBound, ct, &sec[i], &pub[i]) }) {
				good = false
				break
			}
			if gerr != nil {
				c.Violate(sigE+".GenShare|error-on-admissible", fmt.Sprintf("logBound=%d level=%d log2Q=%d: %v", logBound, shareLevel, r.ModulusAtLevel[shareLevel].BitLen(), gerr), w.cf)
				good = false
				break
			}
			if pub[i].Level() != shareLevel {
				c.Violate(sigE+".GenShare|share-level", fmt.Sprintf("level %d want %d", pub[i].Level(), shareLevel), w.cf)
				good = false
				break
			}
			if len(sec[i].Value) != dslots {
				c.Violate(sigE+".GenShare|share-length", fmt.Sprintf("%d want %d", len(sec[i].Value), dslots), w.cf)
				good = false
				break
			}
			// masks lie in [-2^(logBound-1), 2^(logBound-1))
			for _, x := range sec[i].Value {
				if x.CmpAbs(half) > 0 {
					c.Violate(sigE+".GenShare|mask-outside-logBound", fmt.Sprintf("|mask|=2^%.1f logBound=%d", log2Big(x), logBound), w.cf)
					good = false
					break
				}
			}
			// public share = c1*s_i + e_i - M_i(X^gap)
			x := addP(r, coef(r, pub[i].Value, true), embedZ(r, sec[i].Value))
			e := obs.Centered(r, subP(r, x, mulS(r, ct.Value[1], true, w.in.sk[i].Value.Q)))
			mx := maxAbs(e)
			c.Count("share_noise_measurements", 1)
			c.Max("max_share_noise_log2_x100", int64(100*log2Big(mx)))
			if !c.Check(leF(mx, B), sigE+".GenShare|share-is-not-c1*s-mask+bounded-noise", func() string {
				return fmt.Sprintf("party %d/%d ct level=%d share level=%d slots=2^%d logBound=%d: residual 2^%.1f, bound %.0f", i, n, ctLevel, shareLevel, logSlots, logBound, log2Big(mx), B)
			}) {
				good = false
				break
			}
			e2sPool.add(e)
			w.ppool("ckks-e2s", i).add(e)
			for j := range eSum {
				eSum[j].Add(eSum[j], e[j])
			}
			pubPolys[i] = pub[i].Value
		}
		if !good {
			continue
		}
		c.Check(ct.Equal(ct0), sigE+".GenShare|input-ciphertext-modified", nil)
		// logBound is documented as the bit length of the masks: over >= 64 draws the largest one has
		// at least logBound-3 bits (P(all |M| < 2^(logBound-3)) = 4^-64)
		if n*dslots >= 64 && logBound >= 8 {
			mm := new(big.Int)
			for i := range sec {
				if x := maxAbs(sec[i].Value); x.Cmp(mm) > 0 {
					mm = x
				}
			}
			c.Check(mm.BitLen() >= int(logBound)-3, sigE+".GenShare|masks-shorter-than-logBound", func() string {
				return fmt.Sprintf("largest of %d masks has %d bits, logBound=%d", n*dslots, mm.BitLen(), logBound)
			})
		}
		if n > 1 && logBound >= 16 {
			same := true
			for k := range sec[0].Value {
				same = same && sec[0].Value[k].Cmp(sec[1].Value[k]) == 0
			}
			c.Check(!same, sigE+".GenShare|same-mask-twice", nil)
		}
		want := sumMod(r, pubPolys)
		var agg multiparty.KeySwitchShare
		for _, plan := range pickPlans(w.rnd, n) {
			var a multiparty.KeySwitchShare
			var aerr error
			if !c.Try(sigE+".AggregateShares", func() { a, aerr = aggregate(w.rnd, plan, pub, ksOps(e2s.AggregateShares)) }) {
				good = false
				break
			}
			if aerr != nil {
				c.Violate(sigE+".AggregateShares|error-on-admissible", aerr.Error(), w.cf)
				good = false
				break
			}
			c.Count("aggregation_orders", 1)
			c.Check(eqMod(r, a.Value, want), sigE+".AggregateShares|aggregate-differs-from-sum|"+planClass(plan), nil)
			agg = a
		}
		if !good {
			continue
		}
		holder := w.rnd.N(n)
		shape := eng.Pick(w.rnd, "alias", "fresh", "nil")
		var final [][]*big.Int
		cp2 := func(v []*big.Int) []*big.Int {
			o := make([]*big.Int, len(v))
			for i := range v {
				o[i] = new(big.Int).Set(v[i])
			}
			return o
		}
		for i := 0; i < n; i++ {
			if i != holder || shape == "nil" {
				final = append(final, cp2(sec[i].Value))
			}
		}
		outShare := mpckks.NewAdditiveShare(cp, logSlots)
		w.dirtyBig(outShare.Value, int(logBound))
		if !c.Try(sigE+".GetShare", func() {
			switch shape {
			case "alias":
				protos[holder].GetShare(&sec[holder], agg, ct, &sec[holder])
				outShare = sec[holder]
			case "fresh":
				protos[holder].GetShare(&sec[holder], agg, ct, &outShare)
			case "nil":
				protos[holder].GetShare(nil, agg, ct, &outShare)
			}
		}) {
			continue
		}
		final = append(final, cp2(outShare.Value))
		rec := make([]*big.Int, dslots)
		for k := range rec {
			rec[k] = new(big.Int)
			for _, f := range final {
				rec[k].Add(rec[k], f[k])
			}
		}
		// exact: sum of shares = (phase of the input + sum of the smudging noises) at positions k*gap
		phL := obs.Centered(r, phase(r, ct.Value[0], ct.Value[1], true, w.in.ideal.Value.Q))
		bad := -1
		for k := range rec {
			x := new(big.Int).Add(phL[k*gap], eSum[k*gap])
			if x.Cmp(rec[k]) != 0 {
				bad = k
				break
			}
		}
		c.Count("additive_sharings_checked", 1)
		if !c.Check(bad < 0, sigE+".GetShare|shares-do-not-sum-to-decryption|"+shape, func() string {
			x := new(big.Int).Add(phL[bad*gap], eSum[bad*gap])
			return fmt.Sprintf("coefficient %d: sum of shares=%v, c0+c1*s+sum(e_i)=%v (difference 2^%.1f; parties=%d ct level=%d share level=%d slots=2^%d logBound=%d log2Q=%d)", bad, rec[bad], x, log2Big(new(big.Int).Sub(rec[bad], x)), n, ctLevel, shareLevel, logSlots, logBound, r.ModulusAtLevel[shareLevel].BitLen())
		}) {
			continue
		}
		// within precision it is the message: decode the reconstructed plaintext with the single-party encoder
		{
			pt := ckks.NewPlaintext(cp, shareLevel)
			*pt.MetaData = *ct.MetaData
			emb := embedZ(r, rec)
			r.NTT(emb, emb)
			pt.Value.Copy(emb)
			have := make([]complex128, pt.Slots())
			tol := float64(2*pt.Slots())*(m.eInMax+float64(n)*B+1)/ct.Scale.Float64() + 1e-10
			if err := w.cenc.Decode(pt, have); err == nil && tol < 1.0/64 {
				worst := 0.0
				for i := range have {
					worst = math.Max(worst, cabs(have[i]-m.cvals[i]))
				}
				c.Check(worst <= tol, sigE+".GetShare|decoded-sum-differs-from-message", func() string {
					return fmt.Sprintf("max |diff|=%.3g tolerance=%.3g", worst, tol)
				})
			}
		}

		// ---- shares back to an encryption
		crpLevels := levelsFor(params.MaxLevel(), func(l int) bool { return fitsHalf(params, l, m.ptMax, freshB+2*float64(n)*B) })
		if len(crpLevels) == 0 {
			continue
		}
		crpLevel := crpLevels[0]
		if w.rnd.N(3) == 0 {
			crpLevel = crpLevels[w.rnd.N(len(crpLevels))]
		}
		outKeys := w.in
		if w.rnd.Bool() {
			outKeys = newKeyset(params, n)
		}
		ro := params.RingQ().AtLevel(crpLevel)
		crp := s2e.SampleCRP(crpLevel, crsFrom(w.rnd))
		c.Distinct(fmt.Sprintf("ckks-s2e/%s/L%d/slots%d", w.cf.tag(), crpLevel, logSlots), n > 1 || crpLevel < params.MaxLevel() || w.cf.Sigma > 4)
		addSh := make([]multiparty.AdditiveShareBigint, 0, n+1)
		for _, f := range final {
			addSh = append(addSh, multiparty.AdditiveShareBigint{Value: f})
		}
		if len(addSh) == n+1 {
			for k := range addSh[0].Value {
				addSh[0].Value[k].Add(addSh[0].Value[k], addSh[n].Value[k])
			}
			addSh = addSh[:n]
		}
		c0 := make([]multiparty.KeySwitchShare, n)
		c0Polys := make([]ring.Poly, n)
		good = true
		for i := 0; i < n && good; i++ {
			p := inst(w, "ckks-s2e", i, s2e, mpckks.ShareToEncProtocol.ShallowCopy)
			c0[i] = p.AllocateShare(crpLevel)
			w.dirtyPoly(params, c0[i].Value)
			var gerr error
			before := cp2(addSh[i].Value)
			if !c.Try(sigS+".GenShare", func() { gerr = p.GenShare(outKeys.sk[i], crp, ct.MetaData, addSh[i], &c0[i]) }) {
				good = false
				break
			}
			if gerr != nil {
				c.Violate(sigS+".GenShare|error-on-admissible", gerr.Error(), w.cf)
				good = false
				break
			}
			for k := range before {
				if before[k].Cmp(addSh[i].Value[k]) != 0 {
					c.Violate(sigS+".GenShare|secret-share-modified", "", w.cf)
					good = false
					break
				}
			}
			x := addP(ro, coef(ro, c0[i].Value, true), mulS(ro, crp.Value, true, outKeys.sk[i].Value.Q))
			e := obs.Centered(ro, subP(ro, x, embedZ(ro, addSh[i].Value)))
			mx := maxAbs(e)
			c.Count("share_noise_measurements", 1)
			if !c.Check(leF(mx, B), sigS+".GenShare|share-is-not--crp*s+share+bounded-noise", func() string {
				return fmt.Sprintf("party %d/%d level=%d slots=2^%d: residual 2^%.1f, bound %.0f", i, n, crpLevel, logSlots, log2Big(mx), B)
			}) {
				good = false
				break
			}
			s2ePool.add(e)
			w.ppool("ckks-s2e", i).add(e)
			c0Polys[i] = c0[i].Value
		}
		if !good {
			continue
		}
		wantC0 := sumMod(ro, c0Polys)
		var aggC0 multiparty.KeySwitchShare
		for _, plan := range pickPlans(w.rnd, n) {
			var a multiparty.KeySwitchShare
			var aerr error
			if !c.Try(sigS+".AggregateShares", func() { a, aerr = aggregate(w.rnd, plan, c0, ksOps(s2e.AggregateShares)) }) {
				good = false
				break
			}
			if aerr != nil {
				c.Violate(sigS+".AggregateShares|error-on-admissible", aerr.Error(), w.cf)
				good = false
				break
			}
			c.Count("aggregation_orders", 1)
			c.Check(eqMod(ro, a.Value, wantC0), sigS+".AggregateShares|aggregate-differs-from-sum|"+planClass(plan), nil)
			aggC0 = a
		}
		if !good {
			continue
		}
		// a level mismatch is refused with an error, not a panic
		if crpLevel > 0 {
			var merr error
			wrong := ckks.NewCiphertext(cp, 1, crpLevel-1)
			if c.Try(sigS+".GetEncryption|level-mismatch", func() { merr = s2e.GetEncryption(aggC0, crp, wrong) }) {
				c.Check(merr != nil, sigS+".GetEncryption|level-mismatch-accepted", nil)
			}
		}
		ctRec := ckks.NewCiphertext(cp, 1, crpLevel)
		w.dirtyCt(params, ctRec)
		*ctRec.MetaData = *ct.MetaData
		var rerr error
		if !c.Try(sigS+".GetEncryption", func() { rerr = s2e.GetEncryption(aggC0, crp, ctRec) }) {
			continue
		}
		if rerr != nil {
			c.Violate(sigS+".GetEncryption|error-on-admissible", rerr.Error(), w.cf)
			continue
		}
		ph := phase(ro, ctRec.Value[0], ctRec.Value[1], true, outKeys.ideal.Value.Q)
		d := maxAbs(obs.Centered(ro, subP(ro, ph, embedZ(ro, rec))))
		c.Count("noise_measurements", 1)
		c.Max("max_added_noise_log2_x100", int64(100*log2Big(d)))
		if c.Check(ctRec.Level() == crpLevel && leF(d, float64(n)*B), sigS+".GetEncryption|not-an-encryption-of-the-shared-plaintext", func() string {
			return fmt.Sprintf("parties=%d level=%d(got %d) slots=2^%d: |phase - sum of shares|inf=2^%.1f bound %.0f", n, crpLevel, ctRec.Level(), logSlots, log2Big(d), float64(n)*B)
		}) {
			tol := float64(2*ctRec.Slots())*(m.eInMax+2*float64(n)*B+1)/ctRec.Scale.Float64() + 1e-10
			w.verifyCKKS(cp, w.cenc, m.cvals, ctRec, outKeys.ideal, tol, sigS+".GetEncryption")
		}
	}
	checkFloor(c, sigE+".GenShare", e2sPool, nd.Sigma, nd.Sigma)
	checkFloor(c, sigS+".GenShare", s2ePool, nd.Sigma, nd.Sigma)
	w.checkPools("ckks-e2s", sigE+".GenShare", nd.Sigma, nd.Sigma)
	w.checkPools("ckks-s2e", sigS+".GenShare", nd.Sigma, nd.Sigma)
}

func cabs(z complex128) float64 { return math.Hypot(real(z), imag(z)) }
