package c16

// Audit extensions: dimensions of the property that the original workload did not vary. They are
// switched on per case through xopt (zero value = the original workload, random streams included)
// and reuse every oracle of the original families:
//
//   - history: protocol objects (and each party's ShallowCopy / ShallowCopy-of-ShallowCopy) live
//     across all rounds of a case, levels are visited in ascending or shuffled order, so that every
//     call sees the scratch buffers a previous call at another level / slot count / transform left;
//   - used receivers: shares, additive shares and output ciphertexts are pre-filled with uniform
//     residues and allocated above the level they end up at;
//   - error distribution of the parameter set (tight / wide Gaussian, ternary), flooding noise with a
//     truncation bound other than 6 sigma and sigmas other than {3.2, 2^10, 2^30};
//   - ckks scales far from the default one;
//   - smudging noise pooled per provenance of the instance (constructor, copy, copy of a copy).

import (
	"fmt"
	"math"
	"math/big"

	"github.com/tuneinsight/lattigo/v6/core/rlwe"
	"github.com/tuneinsight/lattigo/v6/ring"

	"verif/harness/eng"
)

type xopt struct {
	On         bool   `json:"on"`
	Persist    bool   `json:"persist,omitempty"`
	LevelOrder string `json:"level_order,omitempty"` // "" = descending | asc | shuffle
	Dirty      bool   `json:"dirty,omitempty"`
	Scales     bool   `json:"scales,omitempty"`
}

// levels returns 0..max in the order the case visits them.
func (w *world) levels(max int) []int {
	out := make([]int, 0, max+1)
	switch w.x.LevelOrder {
	case "asc":
		for l := 0; l <= max; l++ {
			out = append(out, l)
		}
	case "shuffle":
		for _, l := range w.rnd.Perm(max + 1) {
			out = append(out, l)
		}
	default:
		for l := max; l >= 0; l-- {
			out = append(out, l)
		}
	}
	return out
}

// prov: provenance of the protocol instance party i works with (0 = the constructor's, 1 = a
// ShallowCopy, 2 = a ShallowCopy of a ShallowCopy). alt selects the original rule of the
// key-switch families (i > 0 && i odd), otherwise i odd.
func (w *world) prov(i int) int {
	if w.x.On {
		return i % 3
	}
	return i % 2
}

var provName = []string{"constructor", "shallow-copy", "copy-of-copy"}

// inst returns party i's instance derived from base (cached across rounds when x.Persist).
func inst[T any](w *world, key string, i int, base T, cp func(T) T) T {
	pv := w.prov(i)
	if pv == 0 {
		return base
	}
	mk := func() T {
		x := base
		// a copy constructor that panics is reported under its own entry point (and the party falls
		// back to the instance it tried to copy)
		w.c.Try(fmt.Sprintf("C16|%s.ShallowCopy|copy-depth-%d", apiOf(key), pv), func() {
			for k := 0; k < pv; k++ {
				x = cp(x)
			}
		})
		return x
	}
	if !w.x.Persist {
		return mk()
	}
	k := fmt.Sprintf("inst/%s/%d", key, i)
	if v, ok := w.cache[k]; ok {
		w.c.Count("x_instances_reused_across_rounds", 1)
		return v.(T)
	}
	v := mk()
	w.cache[k] = v
	return v
}

// cached returns the protocol object built by mk, kept across rounds when x.Persist.
func cached[T any](w *world, key string, mk func() (T, error)) (T, error) {
	if !w.x.Persist {
		return mk()
	}
	k := "base/" + key
	if v, ok := w.cache[k]; ok {
		w.c.Count("x_protocols_reused_across_rounds", 1)
		return v.(T), nil
	}
	v, err := mk()
	if err == nil {
		w.cache[k] = v
	}
	return v, err
}

// garbage fills every row of p with uniform residues of the corresponding modulus (what a
// receiver that served an earlier call contains).
func garbage(rnd *eng.Rand, params rlwe.Parameters, p ring.Poly) {
	r := params.RingQ()
	for i := range p.Coeffs {
		q := r.SubRings[i].Modulus
		for j := range p.Coeffs[i] {
			p.Coeffs[i][j] = rnd.U64() % q
		}
	}
}

func (w *world) dirtyPoly(params rlwe.Parameters, p ring.Poly) {
	if w.x.Dirty {
		garbage(w.rnd, params, p)
		w.c.Count("x_used_receivers", 1)
	}
}

func (w *world) dirtyCt(params rlwe.Parameters, ct *rlwe.Ciphertext) {
	if w.x.Dirty {
		for i := range ct.Value {
			garbage(w.rnd, params, ct.Value[i])
		}
		w.c.Count("x_used_receivers", 1)
	}
}

func (w *world) dirtyBig(v []*big.Int, bits int) {
	if w.x.Dirty {
		for i := range v {
			x := new(big.Int).SetUint64(w.rnd.U64())
			x.Lsh(x, uint(w.rnd.N(bits+1)))
			if w.rnd.Bool() {
				x.Neg(x)
			}
			v[i].Set(x)
		}
		w.c.Count("x_used_receivers", 1)
	}
}

// ppool returns the smudging-noise pool of (entry point, provenance of the instance).
func (w *world) ppool(name string, i int) *pool {
	k := fmt.Sprintf("%s|%s", name, provName[w.prov(i)])
	p := w.pools[k]
	if p == nil {
		p = &pool{}
		w.pools[k] = p
		w.poolOrder = append(w.poolOrder, k)
	}
	return p
}

// checkPools applies the smudging floor to every per-provenance pool whose name starts with name.
func (w *world) checkPools(name string, sig string, lo, hi float64) {
	for _, k := range w.poolOrder {
		if len(k) > len(name) && k[:len(name)] == name && k[len(name)] == '|' {
			if w.pools[k].n >= minPool {
				w.c.Count("x_smudging_pools_by_provenance_"+k[len(name)+1:], 1)
			}
			checkFloor(w.c, sig+"|instance="+k[len(name)+1:], w.pools[k], lo, hi)
		}
	}
}

func (w *world) setX(cc caseCfg) {
	if cc.X != nil {
		w.x = *cc.X
	}
}

// ---------------------------------------------------------------------------------------------
// case generation of the audit families (own random stream: the original families keep theirs)

var xsigmas = []float64{1, 3.2, 8, 1024, 1 << 20, 1 << 30, 1 << 36}

func xpick(r *eng.Rand, ckksScheme bool) *xopt {
	x := &xopt{On: true}
	for !(x.Persist || x.Dirty || x.LevelOrder != "") {
		x.Persist = r.N(4) != 0
		x.Dirty = r.Bool()
		x.LevelOrder = eng.Pick(r, "", "asc", "asc", "shuffle")
	}
	if ckksScheme {
		x.Scales = r.Bool()
	}
	return x
}

// xparams varies what the original generators keep fixed: error distribution, flooding sigma and
// truncation bound, and (one case in six) a long chain with many auxiliary primes.
func xparams(r *eng.Rand, cf *pcfg, i int, minQ int, qbits []int) bool {
	cf.Xe = eng.Pick(r, "", "gauss-tight", "gauss-wide", "ternary")
	cf.Sigma = eng.Pick(r, xsigmas...)
	cf.FloodBoundX = eng.Pick(r, 0.0, 0.0, 2.0, 12.0)
	if cf.LogN > 8 {
		cf.LogN = 8 // the audit dimensions do not depend on N; keep the cases short
	}
	if i%3 == 0 {
		cf.LogN = 4 // smallest ring the library accepts
	}
	nq, np := minQ+r.N(4), r.N(3)
	if i%6 == 5 {
		nq, np = 7+r.N(4), 3+r.N(2)
		cf.LogN = min(cf.LogN, 6)
	}
	if !chain(r, cf, nq, np, qbits, []int{45, 55, 60, 61}) {
		return false
	}
	// The smudging noise of a share is observed modulo the ciphertext modulus: a sample that can reach Q/2 wraps
	// around and its measured deviation says nothing about the requested one (false alarm found at seed 7:
	// sigma = 2^36 under a single 36-bit prime). Keep the truncation bound below a quarter of the smallest prime.
	bx := cf.FloodBoundX
	if bx == 0 {
		bx = 6
	}
	for k := len(xsigmas) - 1; k >= 0 && bx*cf.Sigma >= math.Ldexp(1, minInt(cf.QBits)-2); k-- {
		if xsigmas[k] < cf.Sigma {
			cf.Sigma = xsigmas[k]
		}
	}
	return true
}

func xcases(tier string, seed int64, logNs []int, add func(kind string, i int, cc caseCfg, run func(c *eng.Ctx, cc caseCfg))) {
	r := eng.NewRand("c16-cases-x", seed)
	mul := 1
	if tier == "thorough" {
		mul = 8
	}
	for i := 0; i < 24*mul; i++ {
		cf := pcfg{Ring: "std", NTT: true, Xs: eng.Pick(r, "ternary-p0.5", "ternary-p2/3", "ternary-h")}
		cf.Scheme = eng.Pick(r, "rlwe", "rlwe", "bgv", "ckks")
		cf.LogN = eng.Pick(r, logNs...)
		cf.Parties = 1 + i%8
		switch cf.Scheme {
		case "rlwe":
			cf.NTT = r.Bool()
			cf.Ring = eng.Pick(r, "std", "std", "ci")
		case "ckks":
			cf.Ring = eng.Pick(r, "std", "std", "ci")
		}
		if !xparams(r, &cf, i, 1, []int{36, 45, 55, 58, 60, 61}) {
			continue
		}
		if cf.Scheme == "ckks" {
			cf.LogS = min(eng.Pick(r, 30, 40, 45), minInt(cf.QBits)-6)
		}
		if cf.Scheme == "bgv" && !pickBGVT(r, &cf) {
			continue
		}
		add("x-keyswitch", i, caseCfg{P: cf, X: xpick(r, false)}, runKeySwitch)
	}
	bgvX := func(i int) (pcfg, bool) {
		cf := pcfg{Scheme: "bgv", Ring: "std", NTT: true, Xs: eng.Pick(r, "ternary-p0.5", "ternary-p2/3", "ternary-h")}
		cf.LogN = eng.Pick(r, logNs...)
		cf.Parties = 1 + i%8
		if !xparams(r, &cf, i, 1, []int{45, 55, 58, 60, 61}) {
			return cf, false
		}
		return cf, pickBGVT(r, &cf)
	}
	ckksX := func(i int) (pcfg, bool) {
		cf := pcfg{Scheme: "ckks", Ring: eng.Pick(r, "std", "ci"), NTT: true, Xs: eng.Pick(r, "ternary-p0.5", "ternary-p2/3", "ternary-h")}
		cf.LogN = eng.Pick(r, logNs...)
		cf.Parties = 1 + i%8
		if !xparams(r, &cf, i, 2, []int{45, 55, 58, 60, 61}) {
			return cf, false
		}
		cf.LogS = min(eng.Pick(r, 30, 40, 45), minInt(cf.QBits)-6)
		return cf, true
	}
	for i := 0; i < 12*mul; i++ {
		if cf, ok := bgvX(i); ok {
			add("x-bgv-share", i, caseCfg{P: cf, X: xpick(r, false)}, runBGVShare)
		}
	}
	for i := 0; i < 20*mul; i++ {
		cf, ok := bgvX(i)
		if !ok {
			continue
		}
		cc := caseCfg{P: cf, X: xpick(r, false)}
		if i%4 == 3 {
			o := cf
			if !chain(r, &o, 1+r.N(4), r.N(3), []int{45, 55, 58, 60, 61}, []int{45, 55, 60, 61}) || o.Q[0] <= cf.T {
				continue
			}
			bad := false
			for _, q := range o.Q {
				bad = bad || q == cf.T
			}
			if bad {
				continue
			}
			o.Xe = eng.Pick(r, "", "gauss-wide")
			cc.Out = &o
		}
		add("x-bgv-refresh", i, cc, runBGVRefresh)
	}
	for i := 0; i < 12*mul; i++ {
		if cf, ok := ckksX(i); ok {
			add("x-ckks-share", i, caseCfg{P: cf, X: xpick(r, true)}, runCKKSShare)
		}
	}
	for i := 0; i < 24*mul; i++ {
		cf, ok := ckksX(i)
		if !ok {
			continue
		}
		cc := caseCfg{P: cf, X: xpick(r, true)}
		if i%4 == 3 {
			o := cf
			o.LogN = max(4, cf.LogN+eng.Pick(r, 0, 1, -1))
			if !chain(r, &o, 2+r.N(4), r.N(3), []int{45, 55, 58, 60, 61}, []int{45, 55, 60, 61}) {
				continue
			}
			o.LogS = min(eng.Pick(r, 30, 40, 45), minInt(o.QBits)-6)
			o.Xe = eng.Pick(r, "", "gauss-tight")
			cc.Out = &o
		}
		add("x-ckks-refresh", i, cc, runCKKSRefresh)
	}
	for i := 0; i < 12*mul; i++ {
		cf := pcfg{Ring: "std", NTT: true, Xs: "ternary-p0.5", LogN: eng.Pick(r, 4, 5, 6), Parties: 1 + i%4, Sigma: eng.Pick(r, 3.2, 1024)}
		cf.Scheme = []string{"rlwe", "bgv", "ckks"}[i%3]
		if cf.Scheme == "ckks" {
			cf.Ring = eng.Pick(r, "std", "ci")
		}
		if !chain(r, &cf, 3+r.N(2), r.N(2), []int{50, 55, 60}, []int{55, 61}) {
			continue
		}
		if cf.Scheme == "ckks" {
			cf.LogS = 40
		}
		if cf.Scheme == "bgv" && !pickBGVT(r, &cf) {
			continue
		}
		add("x-contract", i, caseCfg{P: cf}, runContract)
	}
}

var apiNames = map[string]string{
	"ks": "multiparty.KeySwitchProtocol", "pcks": "multiparty.PublicKeySwitchProtocol",
	"bgv-e2s": "mpbgv.EncToShareProtocol", "bgv-s2e": "mpbgv.ShareToEncProtocol", "bgv-rp": "mpbgv.RefreshProtocol", "bgv-mt": "mpbgv.MaskedTransformProtocol",
	"ckks-e2s": "mpckks.EncToShareProtocol", "ckks-s2e": "mpckks.ShareToEncProtocol", "ckks-rp": "mpckks.RefreshProtocol", "ckks-mt": "mpckks.MaskedLinearTransformationProtocol",
}

func apiOf(key string) string {
	for i := 0; i < len(key); i++ {
		if key[i] == '/' {
			key = key[:i]
			break
		}
	}
	if n, ok := apiNames[key]; ok {
		return n
	}
	return key
}
