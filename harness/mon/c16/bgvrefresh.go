package c16

import (
	"fmt"
	"math/big"

	"github.com/tuneinsight/lattigo/v6/core/rlwe"
	"github.com/tuneinsight/lattigo/v6/multiparty"
	"github.com/tuneinsight/lattigo/v6/multiparty/mpbgv"
	"github.com/tuneinsight/lattigo/v6/ring"
	"github.com/tuneinsight/lattigo/v6/schemes/bgv"

	"verif/harness/eng"
	"verif/harness/obs"
	"verif/harness/ref"
)

// tfunc is a Z_t-linear slot-wise transform together with its name.
type tfunc struct {
	name string
	f    func(v []uint64)
}

func mkTransforms(rnd *eng.Rand, n int, t uint64) []tfunc {
	perm := make([]int, n)
	for i := range perm {
		perm[i] = rnd.N(n) // a random map, not necessarily a bijection (as the in-tree test)
	}
	bij := rnd.Perm(n)
	cst := 2 + rnd.U64()%(t-2)
	a, b := 1+rnd.U64()%(t-1), 1+rnd.U64()%(t-1)
	return []tfunc{
		{"identity", func(v []uint64) {}},
		{"slot-map", func(v []uint64) {
			o := make([]uint64, len(v))
			for i := range v {
				o[i] = v[perm[i]]
			}
			copy(v, o)
		}},
		{"mul-const", func(v []uint64) {
			for i := range v {
				v[i] = ref.MulMod(v[i]%t, cst, t)
			}
		}},
		{"linear-2", func(v []uint64) {
			o := make([]uint64, len(v))
			for i := range v {
				o[i] = ref.AddMod(ref.MulMod(v[i]%t, a, t), ref.MulMod(v[bij[i]]%t, b, t), t)
			}
			copy(v, o)
		}},
	}
}

// applyT is the harness' model of Decode -> f -> Encode on a plaintext-ring polynomial, using the
// single-party encoder (plaintext side only) and the scale the protocol documents (the input
// ciphertext's).
func applyT(encIn, encOut *bgv.Encoder, ringT *ring.Ring, tr *mpbgv.MaskedTransformFunc, scale rlwe.Scale, p []uint64) []uint64 {
	if tr == nil {
		return append([]uint64(nil), p...)
	}
	v := make([]uint64, len(p))
	if tr.Decode {
		pp := ringT.NewPoly()
		copy(pp.Coeffs[0], p)
		if err := encIn.DecodeRingT(pp, scale, v); err != nil {
			panic(err)
		}
	} else {
		copy(v, p)
	}
	tr.Func(v)
	if tr.Encode {
		pp := ringT.NewPoly()
		if err := encOut.EncodeRingT(v, scale, pp); err != nil {
			panic(err)
		}
		return append([]uint64(nil), pp.Coeffs[0]...)
	}
	return v
}

func cloneRefresh(s multiparty.RefreshShare) multiparty.RefreshShare {
	return multiparty.RefreshShare{
		EncToShareShare: multiparty.KeySwitchShare{Value: *s.EncToShareShare.Value.CopyNew()},
		ShareToEncShare: multiparty.KeySwitchShare{Value: *s.ShareToEncShare.Value.CopyNew()},
		MetaData:        s.MetaData,
	}
}

func runBGVRefresh(c *eng.Ctx, cc caseCfg) {
	w := build(c, cc.P)
	if w == nil {
		return
	}
	w.setX(cc)
	c.Sample(cc)
	bpIn, n, t := w.bp, w.cf.Parties, w.bp.PlaintextModulus()
	bpOut := bpIn
	sameParams := cc.Out == nil
	if !sameParams {
		var err error
		bpOut, err = bgv.NewParametersFromLiteral(bgv.ParametersLiteral{LogN: cc.Out.LogN, Q: cc.Out.Q, P: cc.Out.P, Xs: cc.Out.xs(), Xe: cc.Out.xe(), PlaintextModulus: t})
		if err != nil {
			c.Inconclusive("output parameters rejected: " + err.Error())
			return
		}
	}
	pIn, pOut := bpIn.Parameters, bpOut.Parameters
	// a larger output ring is accepted by the constructor; the plaintext p(X) then reappears as
	// p(X^(N_out/N_in)). Only the transform-free protocol is defined there (the encoders of the two
	// parameter sets do not share a slot layout) and the output cannot alias the input.
	diffN := pOut.N() != pIn.N()
	encOut := bgv.NewEncoder(bpOut)
	ndIn, ndOut := ksNoise(pIn, w.fl), ksNoise(pOut, w.fl)
	BIn, BOut := errB(ndIn), errB(ndOut)
	ringT := bpIn.RingT()
	nT := ringT.N()
	outKeys := w.in
	if !sameParams {
		outKeys = newKeyset(pOut, n)
	}
	e2sPool, s2ePool := &pool{}, &pool{}
	freshB := freshBound(pIn, float64(n*pIn.N()))
	transforms := mkTransforms(w.rnd, nT, t)
	tbig := new(big.Int).SetUint64(t)

	rounds := 0
	for _, ctLevel := range w.levels(pIn.MaxLevel()) {
		lv := levelsFor(ctLevel, func(l int) bool { return budgetBGV(bpIn, l, freshB+float64(n)*(BIn+1)+1) })
		lo := levelsFor(pOut.MaxLevel(), func(l int) bool { return budgetBGV(bpOut, l, float64(n)*(BOut+1)+2) })
		if len(lv) == 0 || len(lo) == 0 {
			c.Count("levels_skipped_noise_budget", 1)
			continue
		}
		for rep := 0; rep < 2; rep++ {
			rounds++
			decLevel := lv[w.rnd.N(len(lv))]
			outLevel := lo[0]
			if rep == 1 {
				outLevel = lo[w.rnd.N(len(lo))]
				decLevel = lv[len(lv)-1]
			}
			// which entry point: Refresh (same parameters, no transform) or MaskedTransform
			useRefresh := sameParams && (rep == 0 && ctLevel%2 == 0)
			var tr *mpbgv.MaskedTransformFunc
			trName := "nil"
			if !useRefresh && w.rnd.N(5) != 0 && !diffN {
				tf := transforms[w.rnd.N(len(transforms))]
				tr = &mpbgv.MaskedTransformFunc{Decode: w.rnd.Bool(), Func: tf.f, Encode: w.rnd.Bool()}
				trName = fmt.Sprintf("%s/dec=%v/enc=%v", tf.name, tr.Decode, tr.Encode)
			}
			entry := "C16|mpbgv.MaskedTransformProtocol"
			if useRefresh {
				entry = "C16|mpbgv.RefreshProtocol"
			}
			m := w.newMessage(ctLevel, eng.Pick(w.rnd, "sk", "pk"), -1)
			ct := m.ct
			ct0 := snapshot(ct)
			c.Distinct(fmt.Sprintf("bgv-refresh/%s/same%v/L%d/D%d/O%d/%s/%v", w.cf.tag(), sameParams, ctLevel, decLevel, outLevel, trName, useRefresh), n > 1 || ctLevel < pIn.MaxLevel() || w.cf.Sigma > 4 || tr != nil || !sameParams)
			c.Count("transform_"+trName, 1)

			pT := ringT.NewPoly()
			if err := w.benc.EncodeRingT(m.uvals, ct.Scale, pT); err != nil {
				panic(err)
			}
			wantT := applyT(w.benc, encOut, ringT, tr, ct.Scale, pT.Coeffs[0])

			// protocol instances
			var rp mpbgv.RefreshProtocol
			var mt mpbgv.MaskedTransformProtocol
			var perr error
			if !c.Try(entry+".New", func() {
				if useRefresh {
					rp, perr = cached(w, "bgv-rp", func() (mpbgv.RefreshProtocol, error) { return mpbgv.NewRefreshProtocol(bpIn, w.fl) })
					mt = rp.MaskedTransformProtocol
				} else {
					mt, perr = cached(w, "bgv-mt", func() (mpbgv.MaskedTransformProtocol, error) {
						return mpbgv.NewMaskedTransformProtocol(bpIn, bpOut, w.fl)
					})
				}
			}) {
				return
			}
			if perr != nil {
				c.Violate(entry+".New|error-on-admissible", perr.Error(), w.cf)
				return
			}
			crp := mt.SampleCRP(outLevel, crsFrom(w.rnd))
			rIn := pIn.RingQ().AtLevel(decLevel)
			rOut := pOut.RingQ().AtLevel(outLevel)
			shares := make([]multiparty.RefreshShare, n)
			e2sPolys, s2ePolys := make([]ring.Poly, n), make([]ring.Poly, n)
			ok := true
			for i := 0; i < n && ok; i++ {
				var pm mpbgv.MaskedTransformProtocol
				if useRefresh && w.x.On {
					// the refresh protocol's own copy constructor and allocator
					rpi := inst(w, "bgv-rp", i, rp, func(x mpbgv.RefreshProtocol) mpbgv.RefreshProtocol { return x.ShallowCopy() })
					pm = rpi.MaskedTransformProtocol
					shares[i] = rpi.AllocateShare(decLevel, outLevel)
				} else {
					pm = inst(w, fmt.Sprintf("bgv-mt/%v", useRefresh), i, mt, mpbgv.MaskedTransformProtocol.ShallowCopy)
					shares[i] = pm.AllocateShare(decLevel, outLevel)
				}
				w.dirtyPoly(pIn, shares[i].EncToShareShare.Value)
				w.dirtyPoly(pOut, shares[i].ShareToEncShare.Value)
				var gerr error
				if !c.Try(entry+".GenShare", func() {
					if useRefresh {
						gerr = mpbgv.RefreshProtocol{MaskedTransformProtocol: pm}.GenShare(w.in.sk[i], ct, crp, &shares[i])
					} else {
						gerr = pm.GenShare(w.in.sk[i], outKeys.sk[i], ct, crp, tr, &shares[i])
					}
				}) {
					ok = false
					break
				}
				if gerr != nil {
					c.Violate(entry+".GenShare|error-on-admissible", gerr.Error(), w.cf)
					ok = false
					break
				}
				c.Check(shares[i].MetaData.Equal(ct.MetaData), entry+".GenShare|share-metadata", nil)
				// every third party sends its share over the wire
				if i%3 == 1 {
					if rt, wok := wireRefreshShare(c, shares[i]); wok {
						shares[i] = rt
					} else {
						ok = false
						break
					}
				}
				// decryption share - c1*s_i = e_i - t^-1*M_i : times t, centred = t*e_i - M_i
				x := subP(rIn, coef(rIn, shares[i].EncToShareShare.Value, true), mulS(rIn, ct.Value[1], true, w.in.sk[i].Value.Q))
				rIn.MulScalar(x, t, x)
				xs := obs.Centered(rIn, x)
				mask := make([]uint64, nT)
				e := make([]*big.Int, len(xs))
				gap := rIn.N() / nT
				formOK := true
				for j, v := range xs {
					mj := new(big.Int).Mod(new(big.Int).Neg(v), tbig) // M_j in [0,t)
					if j%gap != 0 {
						mj.SetUint64(0)
					} else {
						mask[j/gap] = mj.Uint64()
					}
					num := new(big.Int).Add(v, mj)
					qq, rr := new(big.Int).QuoRem(num, tbig, new(big.Int))
					if rr.Sign() != 0 {
						formOK = false
					}
					e[j] = qq
				}
				mx := maxAbs(e)
				c.Count("share_noise_measurements", 1)
				if !c.Check(formOK && leF(mx, BIn), entry+".GenShare|decryption-share-is-not-c1*s-mask+bounded-noise", func() string {
					return fmt.Sprintf("party %d/%d ct level=%d share level=%d: noise 2^%.1f bound %.0f sparse-form=%v", i, n, ctLevel, decLevel, log2Big(mx), BIn, formOK)
				}) {
					ok = false
					break
				}
				e2sPool.add(e)
				w.ppool("bgv-mt-e2s", i).add(e)
				// recryption share + crp*s_out,i = e'_i + t^-1*f(M_i)
				y := addP(rOut, coef(rOut, shares[i].ShareToEncShare.Value, true), mulS(rOut, crp.Value, true, outKeys.sk[i].Value.Q))
				fm := applyT(w.benc, encOut, ringT, tr, ct.Scale, mask)
				e2 := obs.Centered(rOut, subP(rOut, y, embedT(rOut, t, fm)))
				mx2 := maxAbs(e2)
				c.Count("share_noise_measurements", 1)
				if !c.Check(leF(mx2, BOut), entry+".GenShare|recryption-share-is-not--crp*s+f(mask)+bounded-noise", func() string {
					return fmt.Sprintf("party %d/%d out level=%d transform=%s: residual 2^%.1f bound %.0f", i, n, outLevel, trName, log2Big(mx2), BOut)
				}) {
					ok = false
					break
				}
				s2ePool.add(e2)
				w.ppool("bgv-mt-s2e", i).add(e2)
				e2sPolys[i], s2ePolys[i] = shares[i].EncToShareShare.Value, shares[i].ShareToEncShare.Value
			}
			if !ok {
				continue
			}
			c.Check(ct.Equal(ct0), entry+".GenShare|input-ciphertext-modified", nil)
			want1, want2 := sumMod(rIn, e2sPolys), sumMod(rOut, s2ePolys)
			ops := aggOps[multiparty.RefreshShare]{clone: cloneRefresh, add: func(a, b multiparty.RefreshShare, o *multiparty.RefreshShare) error {
				if useRefresh {
					return rp.AggregateShares(a, b, o)
				}
				return mt.AggregateShares(a, b, o)
			}}
			var agg multiparty.RefreshShare
			for _, plan := range pickPlans(w.rnd, n) {
				var a multiparty.RefreshShare
				var aerr error
				if !c.Try(entry+".AggregateShares", func() { a, aerr = aggregate(w.rnd, plan, shares, ops) }) {
					ok = false
					break
				}
				if aerr != nil {
					c.Violate(entry+".AggregateShares|error-on-admissible", aerr.Error(), w.cf)
					ok = false
					break
				}
				c.Count("aggregation_orders", 1)
				c.Check(eqMod(rIn, a.EncToShareShare.Value, want1) && eqMod(rOut, a.ShareToEncShare.Value, want2), entry+".AggregateShares|aggregate-differs-from-sum|"+planClass(plan), nil)
				agg = a
			}
			if !ok {
				continue
			}
			agg.MetaData = shares[0].MetaData

			// final step: in place (in-tree), out of place with the caller copying the metadata, out of
			// place into a freshly allocated ciphertext
			for _, shape := range []string{"inplace", "copy-metadata", "fresh-output"} {
				if diffN && shape == "inplace" {
					continue
				}
				src := snapshot(ct)
				var dst *rlwe.Ciphertext
				switch shape {
				case "inplace":
					dst = src
				case "copy-metadata":
					dst = bgv.NewCiphertext(bpOut, 1, eng.Pick(w.rnd, outLevel, pOut.MaxLevel(), 0))
					*dst.MetaData = *ct.MetaData
				case "fresh-output":
					dst = bgv.NewCiphertext(bpOut, 1, outLevel)
					if w.x.Dirty {
						dst = bgv.NewCiphertext(bpOut, 1, w.rnd.N(pOut.MaxLevel()+1))
					}
				}
				if shape != "inplace" {
					w.dirtyCt(pOut, dst)
				}
				var terr error
				sg := entry + ".Transform"
				if useRefresh {
					sg = entry + ".Finalize"
				}
				if !c.Try(sg, func() {
					if useRefresh {
						terr = rp.Finalize(src, crp, agg, dst)
					} else {
						terr = mt.Transform(src, tr, crp, agg, dst)
					}
				}) {
					continue
				}
				if terr != nil {
					c.Violate(sg+"|error-on-admissible", terr.Error(), w.cf)
					continue
				}
				if !c.Check(dst.Level() == outLevel && dst.Degree() == 1, sg+"|output-level", func() string {
					return fmt.Sprintf("level %d want %d (%s)", dst.Level(), outLevel, shape)
				}) {
					continue
				}
				if shape == "fresh-output" {
					// the output must describe itself: same plaintext metadata as the input (the transform
					// keeps the scale), whatever the freshly allocated ciphertext carried
					if !c.Check(dst.MetaData.Equal(ct.MetaData), sg+"|out-of-place|output-metadata-not-set-from-input", func() string {
						return fmt.Sprintf("input scale=%d output scale=%d (t=%d) transform=%s: decoding the output with its own metadata gives the message times %d/%d", ct.Scale.Uint64(), dst.Scale.Uint64(), t, trName, ct.Scale.Uint64(), dst.Scale.Uint64())
					}) {
						continue
					}
				}
				if shape != "inplace" {
					c.Check(src.Equal(ct0), sg+"|input-ciphertext-modified", nil)
				}
				ph := phase(rOut, dst.Value[0], dst.Value[1], true, outKeys.ideal.Value.Q)
				d := maxAbs(obs.Centered(rOut, subP(rOut, ph, embedT(rOut, t, wantT))))
				c.Count("noise_measurements", 1)
				c.Max("max_added_noise_log2_x100", int64(100*log2Big(d)))
				if !c.Check(leF(d, float64(n)*(BOut+1)+1), sg+"|not-a-fresh-encryption-of-f(message)", func() string {
					return fmt.Sprintf("shape=%s parties=%d ct level=%d dec level=%d out level=%d transform=%s scale=%d: |phase - t^-1*f(pT)|inf=2^%.1f bound %.0f (Q_out=2^%d)", shape, n, ctLevel, decLevel, outLevel, trName, ct.Scale.Uint64(), log2Big(d), float64(n)*(BOut+1)+1, rOut.ModulusAtLevel[outLevel].BitLen())
				}) {
					continue
				}
				c.Count("refresh_outputs_checked", 1)
				if diffN {
					continue
				}
				if tr == nil || (tr.Decode && tr.Encode) {
					want := append([]uint64(nil), m.uvals...)
					if tr != nil {
						tr.Func(want)
					}
					w.verifyBGV(bpOut, encOut, want, dst, outKeys.ideal, float64(n)*(BOut+1)+1, sg)
				}
			}
		}
	}
	checkFloor(c, "C16|mpbgv.MaskedTransformProtocol.GenShare|e2s", e2sPool, ndIn.Sigma, ndIn.Sigma)
	checkFloor(c, "C16|mpbgv.MaskedTransformProtocol.GenShare|s2e", s2ePool, ndOut.Sigma, ndOut.Sigma)
	w.checkPools("bgv-mt-e2s", "C16|mpbgv.MaskedTransformProtocol.GenShare|e2s", ndIn.Sigma, ndIn.Sigma)
	w.checkPools("bgv-mt-s2e", "C16|mpbgv.MaskedTransformProtocol.GenShare|s2e", ndOut.Sigma, ndOut.Sigma)
	_ = rounds
}

// wireRefreshShare returns the share after a MarshalBinary / UnmarshalBinary round trip.
func wireRefreshShare(c *eng.Ctx, sh multiparty.RefreshShare) (out multiparty.RefreshShare, ok bool) {
	sig := "C16|multiparty.RefreshShare.MarshalBinary"
	var b []byte
	var err error
	if !c.Try(sig, func() {
		b, err = sh.MarshalBinary()
		if err == nil {
			err = out.UnmarshalBinary(b)
		}
	}) {
		return out, false
	}
	if err != nil {
		c.Violate(sig+"|error-on-admissible", err.Error(), nil)
		return out, false
	}
	c.Count("refresh_shares_sent_over_the_wire", 1)
	same := out.MetaData.Equal(&sh.MetaData) && out.EncToShareShare.Value.Equal(&sh.EncToShareShare.Value) && out.ShareToEncShare.Value.Equal(&sh.ShareToEncShare.Value)
	return out, c.Check(same && len(b) == sh.BinarySize(), sig+"|round-trip-changes-the-share", func() string {
		return fmt.Sprintf("bytes=%d BinarySize=%d e2s level %d->%d s2e level %d->%d", len(b), sh.BinarySize(), sh.EncToShareShare.Level(), out.EncToShareShare.Level(), sh.ShareToEncShare.Level(), out.ShareToEncShare.Level())
	})
}
