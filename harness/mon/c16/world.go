package c16

import (
	"fmt"
	"math"
	"math/big"
	"math/cmplx"

	"github.com/tuneinsight/lattigo/v6/core/rlwe"
	"github.com/tuneinsight/lattigo/v6/ring"
	"github.com/tuneinsight/lattigo/v6/schemes/bgv"
	"github.com/tuneinsight/lattigo/v6/schemes/ckks"

	"verif/harness/eng"
	"verif/harness/obs"
	"verif/harness/ref"
)

// world = one parameter set + the parties' input key shares.
type world struct {
	c         *eng.Ctx
	cf        pcfg
	rnd       *eng.Rand
	params    rlwe.Parameters
	bp        bgv.Parameters
	cp        ckks.Parameters
	benc      *bgv.Encoder
	cenc      *ckks.Encoder
	in        *keyset
	pkIn      *rlwe.PublicKey
	fl        ring.DiscreteGaussian
	x         xopt           // audit options (zero value = the original workload)
	cache     map[string]any // protocol objects that live across rounds (x.Persist)
	pools     map[string]*pool
	poolOrder []string
}

func build(c *eng.Ctx, cf pcfg) *world {
	w := &world{c: c, cf: cf, rnd: c.Rand(), fl: cf.flood(), cache: map[string]any{}, pools: map[string]*pool{}}
	var err error
	switch cf.Scheme {
	case "rlwe":
		w.params, err = rlwe.NewParametersFromLiteral(cf.rlweLit())
	case "bgv":
		w.bp, err = bgv.NewParametersFromLiteral(bgv.ParametersLiteral{LogN: cf.LogN, Q: cf.Q, P: cf.P, Xs: cf.xs(), Xe: cf.xe(), PlaintextModulus: cf.T})
		if err == nil {
			w.params = w.bp.Parameters
			w.benc = bgv.NewEncoder(w.bp)
		}
	case "ckks":
		rt := ring.Standard
		if cf.Ring == "ci" {
			rt = ring.ConjugateInvariant
		}
		w.cp, err = ckks.NewParametersFromLiteral(ckks.ParametersLiteral{LogN: cf.LogN, Q: cf.Q, P: cf.P, Xs: cf.xs(), Xe: cf.xe(), RingType: rt, LogDefaultScale: cf.LogS})
		if err == nil {
			w.params = w.cp.Parameters
			w.cenc = ckks.NewEncoder(w.cp)
		}
	}
	if err != nil {
		c.Inconclusive("parameters rejected: " + err.Error())
		return nil
	}
	w.in = newKeyset(w.params, cf.Parties)
	w.pkIn = rlwe.NewKeyGenerator(w.params).GenPublicKeyNew(w.in.ideal)
	return w
}

// message = an encryption under the ideal input key together with what the harness knows about it.
type message struct {
	ct     *rlwe.Ciphertext
	pt     *rlwe.Plaintext
	ptCoef ring.Poly // coefficient-domain plaintext polynomial at the level of ct
	uvals  []uint64
	cvals  []complex128
	phIn   ring.Poly  // c0 + c1*s_ideal (coefficient domain)
	eIn    []*big.Int // phIn - ptCoef, centred
	eInMax float64
	ptMax  *big.Int // |plaintext polynomial|_inf
}

// newMessage encrypts a fresh random message at the given level (sk or pk encryption).
// logSlots is only used by ckks (-1 = maximum).
func (w *world) newMessage(level int, encKind string, logSlots int) *message {
	m := &message{}
	rnd := w.rnd
	params := w.params
	r := params.RingQ().AtLevel(level)
	switch w.cf.Scheme {
	case "rlwe":
		m.pt = rlwe.NewPlaintext(params, level)
		// small signed message scaled to the upper bits
		shift := uint(r.ModulusAtLevel[level].BitLen() / 2)
		for j := 0; j < params.N(); j++ {
			x := big.NewInt(int64(rnd.N(2049) - 1024))
			x.Lsh(x, shift)
			for i := 0; i <= level; i++ {
				m.pt.Value.Coeffs[i][j] = ref.ModU(x, r.SubRings[i].Modulus)
			}
		}
		if m.pt.IsNTT {
			r.NTT(m.pt.Value, m.pt.Value)
		}
	case "bgv":
		m.pt = bgv.NewPlaintext(w.bp, level)
		t := w.bp.PlaintextModulus()
		if rnd.N(4) != 0 {
			m.pt.Scale = w.bp.NewScale(1 + rnd.U64()%(t-1))
		}
		m.uvals = make([]uint64, w.bp.MaxSlots())
		for i := range m.uvals {
			m.uvals[i] = rnd.U64() % t
		}
		switch rnd.N(6) {
		case 0:
			for i := range m.uvals {
				m.uvals[i] = t - 1
			}
		case 1:
			m.uvals[rnd.N(len(m.uvals))] = 0
		}
		if err := w.benc.Encode(m.uvals, m.pt); err != nil {
			panic(err)
		}
	case "ckks":
		m.pt = ckks.NewPlaintext(w.cp, level)
		if logSlots >= 0 {
			m.pt.LogDimensions.Cols = logSlots
		}
		if w.x.Scales && rnd.N(2) == 0 {
			// scales far from the default one (what a circuit leaves behind before a rescale / after
			// several): default * 2^k, k in [-12, 12], not a power of two
			k := float64(rnd.N(25)-12) + rnd.F64()
			f := w.cp.DefaultScale().Float64() * math.Exp2(k)
			if lim := math.Exp2(float64(minInt(w.cf.QBits)) - 4); f > lim {
				f = lim * (0.5 + 0.5*rnd.F64())
			}
			if f < 1<<16 {
				f = (1 << 16) * (1 + rnd.F64())
			}
			m.pt.Scale = rlwe.NewScale(f)
			w.c.Count("x_scales_far_from_default", 1)
		} else if rnd.N(3) == 0 {
			// non-default scale (a little below / above the default one)
			f := w.cp.DefaultScale().Float64() * (0.5 + 1.25*rnd.F64())
			m.pt.Scale = rlwe.NewScale(f)
		}
		m.cvals = make([]complex128, m.pt.Slots())
		for i := range m.cvals {
			re, im := 2*rnd.F64()-1, 2*rnd.F64()-1
			if w.cf.Ring == "ci" {
				im = 0
			}
			m.cvals[i] = complex(re, im)
		}
		if err := w.cenc.Encode(m.cvals, m.pt); err != nil {
			panic(err)
		}
	}
	var enc *rlwe.Encryptor
	if encKind == "pk" {
		enc = rlwe.NewEncryptor(params, w.pkIn)
	} else {
		enc = rlwe.NewEncryptor(params, w.in.ideal)
	}
	ct, err := enc.EncryptNew(m.pt)
	if err != nil {
		panic(err)
	}
	m.ct = ct
	m.ptCoef = coef(r, m.pt.Value, m.pt.IsNTT)
	m.ptMax = maxAbs(obs.Centered(r, m.ptCoef))
	m.measure(w)
	return m
}

func (m *message) measure(w *world) {
	r := w.params.RingQ().AtLevel(m.ct.Level())
	m.phIn = phase(r, m.ct.Value[0], m.ct.Value[1], m.ct.IsNTT, w.in.ideal.Value.Q)
	m.eIn = obs.Diff(r, m.phIn, m.ptCoef)
	m.eInMax = bigF(maxAbs(m.eIn))
}

// reducedCopy returns a deep copy of ct with all coefficients in [0,q_i).
func reducedCopy(params rlwe.Parameters, ct *rlwe.Ciphertext) *rlwe.Ciphertext {
	r := params.RingQ().AtLevel(ct.Level())
	out := &rlwe.Ciphertext{}
	out.Value = make([]ring.Poly, len(ct.Value))
	for i := range ct.Value {
		out.Value[i] = red(r, ct.Value[i])
	}
	md := *ct.MetaData
	out.MetaData = &md
	return out
}

// verifyMessage decrypts ctOut with the library decryptor under skOut and compares with the
// message of m; noiseBound is the worst-case |noise|_inf the oracle derived for ctOut.
func (w *world) verifyMessage(m *message, ctOut *rlwe.Ciphertext, paramsOut rlwe.Parameters, skOut *rlwe.SecretKey, noiseBound float64, sig string) {
	c := w.c
	switch w.cf.Scheme {
	case "bgv":
		w.verifyBGV(w.bp, w.benc, m.uvals, ctOut, skOut, noiseBound, sig)
	case "ckks":
		// the plaintext itself must fit: |pt| + noise < Q_level/2
		half := new(big.Int).Rsh(paramsOut.RingQ().ModulusAtLevel[ctOut.Level()], 1)
		nb, _ := new(big.Float).SetFloat64(noiseBound + 2).Int(nil)
		if nb.Add(nb, m.ptMax).Cmp(half) >= 0 {
			c.Count("decode_skipped_noise_budget", 1)
			return
		}
		tol := float64(2*m.pt.Slots())*(noiseBound+1)/ctOut.Scale.Float64() + 1e-10
		w.verifyCKKS(w.cp, w.cenc, m.cvals, ctOut, skOut, tol, sig)
	default:
		c.Count("rlwe_phase_only", 1)
	}
}

func (w *world) verifyBGV(bp bgv.Parameters, enc *bgv.Encoder, want []uint64, ctOut *rlwe.Ciphertext, skOut *rlwe.SecretKey, noiseBound float64, sig string) {
	c := w.c
	Ql := bp.RingQ().ModulusAtLevel[ctOut.Level()]
	// decoding is exact as long as t*(|noise| + 1) < Q/2
	lim := new(big.Float).Quo(new(big.Float).SetInt(Ql), big.NewFloat(2*float64(bp.PlaintextModulus())))
	limf, _ := lim.Float64()
	if noiseBound+2 >= limf {
		c.Count("decode_skipped_noise_budget", 1)
		return
	}
	var have []uint64
	ok := c.Try(sig+"|decrypt-decode", func() {
		pt := rlwe.NewDecryptor(bp, skOut).DecryptNew(reducedCopy(bp.Parameters, ctOut))
		have = make([]uint64, bp.MaxSlots())
		if err := enc.Decode(pt, have); err != nil {
			panic(err)
		}
	})
	if !ok {
		return
	}
	c.Count("messages_decoded_exact", 1)
	bad := -1
	for i := range want {
		if have[i] != want[i] {
			bad = i
			break
		}
	}
	c.Check(bad < 0, sig+"|wrong-message", func() string {
		return fmt.Sprintf("slot %d: got %d want %d (t=%d level=%d scale=%d)", bad, have[bad], want[bad], bp.PlaintextModulus(), ctOut.Level(), ctOut.Scale.Uint64())
	})
}

func (w *world) verifyCKKS(cp ckks.Parameters, enc *ckks.Encoder, want []complex128, ctOut *rlwe.Ciphertext, skOut *rlwe.SecretKey, tol float64, sig string) {
	c := w.c
	if tol > 1.0/64 {
		c.Count("decode_skipped_noise_budget", 1)
		return
	}
	var have []complex128
	ok := c.Try(sig+"|decrypt-decode", func() {
		pt := rlwe.NewDecryptor(cp, skOut).DecryptNew(reducedCopy(cp.Parameters, ctOut))
		have = make([]complex128, pt.Slots())
		if err := enc.Decode(pt, have); err != nil {
			panic(err)
		}
	})
	if !ok {
		return
	}
	if len(have) != len(want) {
		c.Violate(sig+"|wrong-slot-count", fmt.Sprintf("got %d slots want %d", len(have), len(want)), nil)
		return
	}
	c.Count("messages_decoded_approx", 1)
	worst, wi := 0.0, 0
	for i := range want {
		if d := cmplx.Abs(have[i] - want[i]); d > worst || math.IsNaN(d) {
			worst, wi = d, i
			if math.IsNaN(d) {
				worst = math.Inf(1)
				break
			}
		}
	}
	if worst > 0 {
		c.Max("max_ckks_err_over_tol_x1000", int64(1000*worst/tol))
	}
	c.Check(worst <= tol, sig+"|wrong-message", func() string {
		return fmt.Sprintf("slot %d: got %v want %v |diff|=%.3g tolerance=%.3g (level=%d log2(scale)=%.2f slots=%d)", wi, have[wi], want[wi], worst, tol, ctOut.Level(), math.Log2(ctOut.Scale.Float64()), len(want))
	})
}

// pickLogSlots samples a slot count from 1 slot to the maximum (the maximum a third of the time).
func (w *world) pickLogSlots(maxLog int) int {
	if w.rnd.N(3) == 0 {
		return maxLog
	}
	return w.rnd.N(maxLog + 1)
}
