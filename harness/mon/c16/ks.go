package c16

import (
	"fmt"
	"math/big"

	"github.com/tuneinsight/lattigo/v6/core/rlwe"
	"github.com/tuneinsight/lattigo/v6/multiparty"
	"github.com/tuneinsight/lattigo/v6/ring"

	"verif/harness/eng"
	"verif/harness/obs"
)

func snapshot(ct *rlwe.Ciphertext) *rlwe.Ciphertext { return ct.CopyNew() }

// withoutC0 returns a view of ct whose degree-0 component is the empty polynomial (GenShare
// documents that ct.Value[0] is not used and may be nil/zero).
func withoutC0(ct *rlwe.Ciphertext) *rlwe.Ciphertext {
	return &rlwe.Ciphertext{Element: rlwe.Element[ring.Poly]{Value: []ring.Poly{{}, ct.Value[1]}, MetaData: ct.MetaData}}
}

// runKS runs the secret-key collective key switch of m to the target key set `out`.
func (w *world) runKS(m *message, target string, shareAtMax bool, ksPool *pool) {
	c, params, n := w.c, w.params, w.cf.Parties
	ct := m.ct
	level := ct.Level()
	r := params.RingQ().AtLevel(level)
	sig := "C16|multiparty.KeySwitchProtocol"
	var out *keyset
	if target == "zero" {
		out = zeroKeyset(params, n)
	} else {
		out = newKeyset(params, n)
	}
	nd := ksNoise(params, w.fl)
	B := errB(nd)
	ct0 := snapshot(ct)

	var proto multiparty.KeySwitchProtocol
	var err error
	if !c.Try(sig+".New", func() {
		proto, err = cached(w, "ks", func() (multiparty.KeySwitchProtocol, error) { return multiparty.NewKeySwitchProtocol(params, w.fl) })
	}) {
		return
	}
	if err != nil {
		c.Violate(sig+".New|error-on-admissible", err.Error(), w.cf)
		return
	}
	shareLevel := level
	if shareAtMax {
		shareLevel = params.MaxLevel()
	}
	c.Distinct(fmt.Sprintf("ks/%s/L%d/%s/max%v/ntt%v", w.cf.tag(), level, target, shareAtMax, ct.IsNTT), n > 1 || level < params.MaxLevel() || w.cf.Sigma > 4)
	shares := make([]multiparty.KeySwitchShare, n)
	polys := make([]ring.Poly, n)
	for i := 0; i < n; i++ {
		p := inst(w, "ks", i, proto, multiparty.KeySwitchProtocol.ShallowCopy)
		shares[i] = p.AllocateShare(shareLevel)
		w.dirtyPoly(params, shares[i].Value)
		in := ct
		if i%3 == 2 {
			in = withoutC0(ct)
		}
		if !c.Try(sig+".GenShare", func() { p.GenShare(w.in.sk[i], out.sk[i], in, &shares[i]) }) {
			return
		}
		if !c.Check(shares[i].Level() == level, sig+".GenShare|share-level", func() string {
			return fmt.Sprintf("share level %d, ciphertext level %d, allocated %d", shares[i].Level(), level, shareLevel)
		}) {
			return
		}
		// smudging noise of the share: share - c1*(s_in,i - s_out,i)
		delta := subP(r, w.in.sk[i].Value.Q, out.sk[i].Value.Q)
		e := obs.Centered(r, subP(r, coef(r, shares[i].Value, ct.IsNTT), mulS(r, ct.Value[1], ct.IsNTT, delta)))
		mx := maxAbs(e)
		c.Count("share_noise_measurements", 1)
		c.Max("max_share_noise_log2_x100", int64(100*log2Big(mx)))
		if !c.Check(leF(mx, B), sig+".GenShare|share-is-not-c1*(sIn-sOut)+bounded-noise", func() string {
			return fmt.Sprintf("party %d/%d level=%d ntt=%v target=%s: |share - c1*(sIn-sOut)|inf=2^%.1f, worst-case bound %.0f (sigma=%.4g)", i, n, level, ct.IsNTT, target, log2Big(mx), B, nd.Sigma)
		}) {
			return
		}
		ksPool.add(e)
		w.ppool("ks", i).add(e)
		polys[i] = shares[i].Value
	}
	c.Check(ct.Equal(ct0), sig+".GenShare|input-ciphertext-modified", nil)

	// aggregation orders
	want := sumMod(r, polys)
	ops := aggOps[multiparty.KeySwitchShare]{
		clone: func(s multiparty.KeySwitchShare) multiparty.KeySwitchShare {
			return multiparty.KeySwitchShare{Value: *s.Value.CopyNew()}
		},
		add: func(a, b multiparty.KeySwitchShare, o *multiparty.KeySwitchShare) error {
			return proto.AggregateShares(a, b, o)
		},
	}
	var agg multiparty.KeySwitchShare
	for _, plan := range pickPlans(w.rnd, n) {
		var a multiparty.KeySwitchShare
		var aerr error
		if !c.Try(sig+".AggregateShares", func() { a, aerr = aggregate(w.rnd, plan, shares, ops) }) {
			return
		}
		if aerr != nil {
			c.Violate(sig+".AggregateShares|error-on-admissible", aerr.Error(), w.cf)
			return
		}
		c.Count("aggregation_orders", 1)
		c.Check(eqMod(r, a.Value, want), sig+".AggregateShares|aggregate-differs-from-sum|"+planClass(plan), func() string {
			return fmt.Sprintf("plan=%s parties=%d level=%d", plan, n, level)
		})
		agg = a
	}

	// key switch, out of place and in place
	for _, inplace := range []bool{false, true} {
		src := snapshot(ct)
		var dst *rlwe.Ciphertext
		if inplace {
			dst = src
		} else {
			// a used receiver: other level, and one time in three the three components of a non-relinearised product
			dst = rlwe.NewCiphertext(params, eng.Pick(w.rnd, 1, 1, 2), eng.Pick(w.rnd, level, params.MaxLevel(), 0))
			w.dirtyCt(params, dst)
		}
		if !c.Try(sig+".KeySwitch", func() { proto.KeySwitch(src, agg, dst) }) {
			continue
		}
		s2 := fmt.Sprintf("%s.KeySwitch|inplace=%v", sig, inplace)
		if !c.Check(dst.Level() == level && dst.Degree() == 1, s2+"|output-level", func() string {
			return fmt.Sprintf("level %d want %d", dst.Level(), level)
		}) {
			continue
		}
		c.Check(dst.MetaData.Equal(ct.MetaData), s2+"|metadata", nil)
		c.Check(eqMod(r, dst.Value[1], ct.Value[1]) && eqMod(r, dst.Value[0], sumMod(r, []ring.Poly{ct.Value[0], want})), s2+"|not-c0+sum-of-shares", nil)
		phOut := phase(r, dst.Value[0], dst.Value[1], dst.IsNTT, out.ideal.Value.Q)
		d := maxAbs(obs.Diff(r, phOut, m.phIn))
		c.Count("noise_measurements", 1)
		c.Max("max_added_noise_log2_x100", int64(100*log2Big(d)))
		okN := c.Check(leF(d, float64(n)*B), s2+"|phase-under-target-key-moved-beyond-noise-bound", func() string {
			return fmt.Sprintf("parties=%d level=%d target=%s: |phase_out - phase_in|inf=2^%.1f, bound %d*%.0f (Q_level=2^%d)", n, level, target, log2Big(d), n, B, r.ModulusAtLevel[level].BitLen())
		})
		if okN {
			w.verifyMessage(m, dst, params, out.ideal, m.eInMax+float64(n)*B, s2)
		}
	}
}

func planClass(plan string) string {
	switch plan {
	case "fold":
		return "index-order"
	case "fold-alias2":
		return "out-aliases-second-operand"
	case "tree":
		return "tree"
	}
	return "permuted"
}

// runPCKS runs the collective public-key switch of m to the public key of a fresh secret.
func (w *world) runPCKS(m *message, sharedTarget bool, shareAtMax bool, pkPool *pool) {
	c, params, n := w.c, w.params, w.cf.Parties
	ct := m.ct
	level := ct.Level()
	r := params.RingQ().AtLevel(level)
	sig := "C16|multiparty.PublicKeySwitchProtocol"
	kg := rlwe.NewKeyGenerator(params)
	var skOut *rlwe.SecretKey
	if sharedTarget {
		skOut = newKeyset(params, 1+w.rnd.N(4)).ideal
	} else {
		skOut = kg.GenSecretKeyNew()
	}
	pk := kg.GenPublicKeyNew(skOut)
	hs, _ := skNorms(params, skOut)
	B := pkEncBound(params, hs) + errB(w.fl)
	ct0 := snapshot(ct)

	var proto multiparty.PublicKeySwitchProtocol
	var err error
	if !c.Try(sig+".New", func() {
		proto, err = cached(w, "pcks", func() (multiparty.PublicKeySwitchProtocol, error) {
			return multiparty.NewPublicKeySwitchProtocol(params, w.fl)
		})
	}) {
		return
	}
	if err != nil {
		c.Violate(sig+".New|error-on-admissible", err.Error(), w.cf)
		return
	}
	shareLevel := level
	if shareAtMax {
		shareLevel = params.MaxLevel()
	}
	c.Distinct(fmt.Sprintf("pcks/%s/L%d/shared%v/max%v/ntt%v", w.cf.tag(), level, sharedTarget, shareAtMax, ct.IsNTT), n > 1 || level < params.MaxLevel() || w.cf.Sigma > 4)
	shares := make([]multiparty.PublicKeySwitchShare, n)
	h0 := make([]ring.Poly, n)
	h1 := make([]ring.Poly, n)
	for i := 0; i < n; i++ {
		p := inst(w, "pcks", i, proto, multiparty.PublicKeySwitchProtocol.ShallowCopy)
		shares[i] = p.AllocateShare(shareLevel)
		if w.x.Dirty {
			w.dirtyPoly(params, shares[i].Value[0])
			w.dirtyPoly(params, shares[i].Value[1])
		}
		in := ct
		if i%3 == 2 {
			in = withoutC0(ct)
		}
		if !c.Try(sig+".GenShare", func() { p.GenShare(w.in.sk[i], pk, in, &shares[i]) }) {
			return
		}
		// share0 + share1*s_out - c1*s_i = fresh public-key encryption noise + flooding noise
		sh := shares[i]
		e := obs.Centered(r, subP(r, phase(r, sh.Value[0], sh.Value[1], ct.IsNTT, skOut.Value.Q), mulS(r, ct.Value[1], ct.IsNTT, w.in.sk[i].Value.Q)))
		mx := maxAbs(e)
		c.Count("share_noise_measurements", 1)
		c.Max("max_share_noise_log2_x100", int64(100*log2Big(mx)))
		if !c.Check(leF(mx, B), sig+".GenShare|share-is-not-Enc_pk(0)+c1*s+bounded-noise", func() string {
			return fmt.Sprintf("party %d/%d level=%d ntt=%v: |share0+share1*sOut-c1*s_i|inf=2^%.1f, worst-case bound %.0f", i, n, level, ct.IsNTT, log2Big(mx), B)
		}) {
			return
		}
		pkPool.add(e)
		w.ppool("pcks", i).add(e)
		h0[i], h1[i] = sh.Value[0], sh.Value[1]
	}
	c.Check(ct.Equal(ct0), sig+".GenShare|input-ciphertext-modified", nil)

	want0, want1 := sumMod(r, h0), sumMod(r, h1)
	ops := aggOps[multiparty.PublicKeySwitchShare]{
		clone: func(s multiparty.PublicKeySwitchShare) multiparty.PublicKeySwitchShare {
			return multiparty.PublicKeySwitchShare{Element: *s.Element.CopyNew()}
		},
		add: func(a, b multiparty.PublicKeySwitchShare, o *multiparty.PublicKeySwitchShare) error {
			return proto.AggregateShares(a, b, o)
		},
	}
	var agg multiparty.PublicKeySwitchShare
	for _, plan := range pickPlans(w.rnd, n) {
		var a multiparty.PublicKeySwitchShare
		var aerr error
		if !c.Try(sig+".AggregateShares", func() { a, aerr = aggregate(w.rnd, plan, shares, ops) }) {
			return
		}
		if aerr != nil {
			c.Violate(sig+".AggregateShares|error-on-admissible", aerr.Error(), w.cf)
			return
		}
		c.Count("aggregation_orders", 1)
		c.Check(eqMod(r, a.Value[0], want0) && eqMod(r, a.Value[1], want1), sig+".AggregateShares|aggregate-differs-from-sum|"+planClass(plan), func() string {
			return fmt.Sprintf("plan=%s parties=%d level=%d", plan, n, level)
		})
		agg = a
	}

	for _, inplace := range []bool{false, true} {
		src := snapshot(ct)
		var dst *rlwe.Ciphertext
		if inplace {
			dst = src
		} else {
			// a used receiver: other level, and one time in three the three components of a non-relinearised product
			dst = rlwe.NewCiphertext(params, eng.Pick(w.rnd, 1, 1, 2), eng.Pick(w.rnd, level, params.MaxLevel(), 0))
			w.dirtyCt(params, dst)
		}
		if !c.Try(sig+".KeySwitch", func() { proto.KeySwitch(src, agg, dst) }) {
			continue
		}
		s2 := fmt.Sprintf("%s.KeySwitch|inplace=%v", sig, inplace)
		if !c.Check(dst.Level() == level && dst.Degree() == 1, s2+"|output-level", func() string {
			return fmt.Sprintf("level %d want %d", dst.Level(), level)
		}) {
			continue
		}
		c.Check(dst.MetaData.Equal(ct.MetaData), s2+"|metadata", nil)
		c.Check(eqMod(r, dst.Value[1], want1) && eqMod(r, dst.Value[0], sumMod(r, []ring.Poly{ct.Value[0], want0})), s2+"|not-(c0+sum-h0,sum-h1)", nil)
		phOut := phase(r, dst.Value[0], dst.Value[1], dst.IsNTT, skOut.Value.Q)
		d := maxAbs(obs.Diff(r, phOut, m.phIn))
		c.Count("noise_measurements", 1)
		c.Max("max_added_noise_log2_x100", int64(100*log2Big(d)))
		okN := c.Check(leF(d, float64(n)*B), s2+"|phase-under-target-key-moved-beyond-noise-bound", func() string {
			return fmt.Sprintf("parties=%d level=%d: |phase_out - phase_in|inf=2^%.1f, bound %d*%.0f (Q_level=2^%d)", n, level, log2Big(d), n, B, r.ModulusAtLevel[level].BitLen())
		})
		if okN {
			w.verifyMessage(m, dst, params, skOut, m.eInMax+float64(n)*B, s2)
		}
	}
}

var _ = big.NewInt
