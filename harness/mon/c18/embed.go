package c18

import (
	"math"
	"math/cmplx"
)

// embedding is the harness' own model of the CKKS canonical embedding for n = 2^logSlots slots:
// a message is a real polynomial in Y of 2n coefficients c_0..c_{2n-1} (Y = X^{N/2n}); slot k is
// its value at w^{5^k}, w = exp(2*pi*i/4n). It is independent of lattigo's encoder (no FFT, plain
// O(n^2) sums) and is used to model what the bootstrapping circuit does to the *coefficients*.
type embedding struct {
	n    int
	root []complex128 // w^t, t in [0,4n)
	pow5 []int        // 5^k mod 4n
}

func newEmbedding(logSlots int) *embedding {
	n := 1 << logSlots
	e := &embedding{n: n, root: make([]complex128, 4*n), pow5: make([]int, n)}
	for t := range e.root {
		a := 2 * math.Pi * float64(t) / float64(4*n)
		e.root[t] = complex(math.Cos(a), math.Sin(a))
	}
	p := 1
	for k := 0; k < n; k++ {
		e.pow5[k] = p
		p = (p * 5) & (4*n - 1)
	}
	return e
}

// coeffs returns the 2n real coefficients whose embedding is v (len n).
func (e *embedding) coeffs(v []complex128) []float64 {
	n := e.n
	c := make([]float64, 2*n)
	m := 4*n - 1
	for j := 0; j < 2*n; j++ {
		var acc float64
		for k := 0; k < n; k++ {
			w := e.root[(j*e.pow5[k])&m]
			// Re(v * conj(w))
			acc += real(v[k])*real(w) + imag(v[k])*imag(w)
		}
		c[j] = acc / float64(n)
	}
	return c
}

// slots evaluates the polynomial with coefficients c (len 2n) at the n roots.
func (e *embedding) slots(c []float64) []complex128 {
	n := e.n
	v := make([]complex128, n)
	m := 4*n - 1
	for k := 0; k < n; k++ {
		var acc complex128
		for j := 0; j < 2*n; j++ {
			if c[j] != 0 {
				acc += complex(c[j], 0) * e.root[(j*e.pow5[k])&m]
			}
		}
		v[k] = acc
	}
	return v
}

// asinTaylor returns the Taylor polynomial of arcsin truncated at (odd) degree d evaluated at y,
// minus y (the correction added by the optional arcsine step). d <= 0: 0.
func asinTaylorMinusY(y float64, d int) float64 {
	if d < 3 {
		return 0
	}
	coef := 1.0
	pw := y
	var acc float64
	for i := 3; i <= d; i += 2 {
		coef *= float64((i-2)*(i-2)) / float64(i*(i-1))
		pw *= y * y
		acc += coef * pw
	}
	return acc
}

// distort models what the documented circuit does to one coefficient x (in units of q0): it returns
// g(x) - x where g(x) = asinTaylor_d(sin(2 pi x)) / (2 pi) (d = 0: no arcsine step). Evaluated without
// cancellation for small x.
func distort(x float64, invDeg int) float64 {
	t := 2 * math.Pi * x
	// sin(t) - t without cancellation: series for small t, direct otherwise
	var sm float64
	if math.Abs(t) < 0.25 {
		t2 := t * t
		term := t
		for i := 1; i <= 9; i++ {
			term *= -t2 / float64((2*i)*(2*i+1))
			sm += term
		}
	} else {
		sm = math.Sin(t) - t
	}
	y := t + sm
	return (sm + asinTaylorMinusY(y, invDeg)) / (2 * math.Pi)
}

// modelOutput returns the slot vector the documented circuit ideally produces for input slots v
// (sin / arcsine distortion applied coefficient-wise with x_j = c_j / ratio), and the largest
// |c_j|.
func (e *embedding) modelOutput(v []complex128, ratio float64, invDeg int) (w []complex128, maxCoeff float64) {
	c := e.coeffs(v)
	d := make([]float64, len(c))
	for j := range c {
		if a := math.Abs(c[j]); a > maxCoeff {
			maxCoeff = a
		}
		d[j] = ratio * distort(c[j]/ratio, invDeg)
	}
	dv := e.slots(d)
	w = make([]complex128, len(v))
	for k := range v {
		w[k] = v[k] + dv[k]
	}
	return
}

func maxAbsDiff(a, b []complex128) float64 {
	var m float64
	for i := range a {
		if d := cmplx.Abs(a[i] - b[i]); d > m || math.IsNaN(d) {
			m = d
			if math.IsNaN(d) {
				return math.Inf(1)
			}
		}
	}
	return m
}

func maxAbs(a []complex128) float64 {
	var m float64
	for i := range a {
		if d := cmplx.Abs(a[i]); d > m {
			m = d
		}
	}
	return m
}
