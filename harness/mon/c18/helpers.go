package c18

// Arithmetic helpers the bootstrapping circuit relies on, called the way the circuit calls them.
//
// bignum.DivRound(a, b, i): Evaluate (iterated mode) computes round(q1/2^logprec) with the receiver
// aliasing the dividend - bignum.DivRound(scale, prec, scale) - and decides from the result whether a
// reserved prime is required; the blind-rotation modulus switch uses the same aliased form. The result
// must be the quotient rounded to the nearest integer (ties away from zero) whether or not i is a.

import (
	"fmt"
	"math/big"

	"github.com/tuneinsight/lattigo/v6/utils/bignum"

	"verif/harness/eng"
)

func divRoundModel(a, b *big.Int) *big.Int {
	q, r := new(big.Int).QuoRem(a, b, new(big.Int))
	if new(big.Int).Lsh(new(big.Int).Abs(r), 1).CmpAbs(b) >= 0 {
		if a.Sign()*b.Sign() >= 0 {
			q.Add(q, big.NewInt(1))
		} else {
			q.Sub(q, big.NewInt(1))
		}
	}
	return q
}

func runDivRound(c *eng.Ctx) {
	rnd := c.Rand()
	big1 := func(bits int) *big.Int {
		x := new(big.Int)
		for x.BitLen() < bits {
			x.Lsh(x, 64).Or(x, new(big.Int).SetUint64(rnd.U64()))
		}
		return x.Rsh(x, uint(x.BitLen()-bits))
	}
	n := 0
	for _, bb := range []int{1, 2, 13, 28, 29, 45, 64, 65, 128, 200} {
		for rep := 0; rep < 24; rep++ {
			b := big1(bb)
			if b.Sign() == 0 {
				b.SetInt64(1)
			}
			half := new(big.Int).Rsh(b, 1)
			// dividends around every rounding boundary of the first quotients and far away
			as := []*big.Int{big.NewInt(0), big.NewInt(1), new(big.Int).Set(half), new(big.Int).Add(half, big.NewInt(1)), new(big.Int).Sub(b, big.NewInt(1)), new(big.Int).Set(b),
				new(big.Int).Add(b, half), new(big.Int).Add(new(big.Int).Add(b, half), big.NewInt(1)), new(big.Int).Mul(b, big.NewInt(3)), big1(bb + 1 + rnd.N(70)), big1(1 + rnd.N(bb))}
			if half.Sign() > 0 {
				as = append(as, new(big.Int).Sub(half, big.NewInt(1)), new(big.Int).Add(half, new(big.Int).Rsh(half, 1)))
			}
			for _, a := range as {
				for _, sa := range []int{1, -1} {
					for _, sb := range []int{1, -1} {
						x, y := new(big.Int).Set(a), new(big.Int).Set(b)
						if sa < 0 {
							x.Neg(x)
						}
						if sb < 0 {
							y.Neg(y)
						}
						want := divRoundModel(x, y)
						out := new(big.Int).SetInt64(12345)
						x0, y0 := new(big.Int).Set(x), new(big.Int).Set(y)
						if !c.Try("C18|bignum.DivRound", func() { bignum.DivRound(x, y, out) }) {
							return
						}
						n++
						if !c.Check(out.Cmp(want) == 0 && x.Cmp(x0) == 0 && y.Cmp(y0) == 0, "C18|bignum.DivRound|wrong-value|distinct-receiver", func() string {
							return fmt.Sprintf("DivRound(%v, %v) = %v, want %v (operands after: %v, %v)", x0, y0, out, want, x, y)
						}) {
							return
						}
						al := new(big.Int).Set(x0)
						if !c.Try("C18|bignum.DivRound", func() { bignum.DivRound(al, y, al) }) {
							return
						}
						n++
						if !c.Check(al.Cmp(want) == 0 && y.Cmp(y0) == 0, "C18|bignum.DivRound|wrong-value|receiver-is-the-dividend", func() string {
							return fmt.Sprintf("x := %v; DivRound(x, %v, x) -> %v, want %v", x0, y0, al, want)
						}) {
							return
						}
					}
				}
			}
		}
	}
	c.Eval(n)
	c.Count("divround_calls_judged", int64(n))
	c.Distinct("helpers/divround", true)
}

func helperCases() []eng.Case {
	return []eng.Case{{ID: "helpers/divround", Sig: "C18|bignum.DivRound", Run: runDivRound}}
}
