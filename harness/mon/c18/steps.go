package c18

// Coverage-audit extension: the exported *steps* of the bootstrapping evaluator, which the btp family
// only reaches through Bootstrap / BootstrapMany / Evaluate:
//
//	ScaleDown, ModUp, CoeffsToSlots, EvalMod, EvalModAndScale, SlotsToCoeffs   (kind steps)
//	PackAndSwitchN1ToN2, UnpackAndSwitchN2ToN1                                  (kind pack)
//
// Oracles
//   - the documented five-step circuit, called step by step on the original evaluator, must satisfy the
//     very checks the btp family applies to Evaluate (level, scale, message within the frozen floor of the
//     set), the level bookkeeping announced by the parameters object after every step, and must be
//     bit-identical to Evaluate on a ShallowCopy (the evaluation is deterministic);
//   - EvalModAndScale(s) in place of EvalMod must give s * message (the circuit is linear after the
//     modular reduction), within max(1,|s|) * threshold of the set; this pipeline runs on an evaluator
//     instantiated from *transported* objects (Parameters through JSON, EvaluationKeys through
//     WriteTo/ReadFrom), which must be accepted and must be the same keys;
//   - Unpack(Pack(cts)) is the identity on the messages, Pack -> Evaluate -> Unpack is bit-identical to
//     BootstrapMany, and the packed / unpacked shapes are the announced ones.

import (
	"bytes"
	"fmt"
	"math"
	"math/cmplx"

	"github.com/tuneinsight/lattigo/v6/circuits/ckks/bootstrapping"
	"github.com/tuneinsight/lattigo/v6/core/rlwe"
	"github.com/tuneinsight/lattigo/v6/ring"
	"github.com/tuneinsight/lattigo/v6/schemes/ckks"

	"verif/harness/eng"
)

// stepsEligible: the step-wise circuit is the whole of Evaluate only in the plain mode (no iterations,
// 64-bit precision) on a residual ring equal to the bootstrapping ring; sets whose matrices share a
// prime end in a triaged finding before anything can be compared.
func stepsEligible(cf cfg) bool {
	if cf.CI || cf.ResLogN != cf.BtpLogN || cf.Iter != nil || cf.ResLogScale > 60 || !cf.intervalOK() {
		return false
	}
	for _, g := range append(append([][]int{}, cf.C2S...), cf.S2C...) {
		if len(g) > 1 {
			return false
		}
	}
	_, ok := floors[cf.Name]
	return ok
}

func packEligible(cf cfg) bool {
	if cf.CI || cf.ResLogN == cf.BtpLogN || cf.Iter != nil || cf.ResLogScale > 60 || !cf.intervalOK() {
		return false
	}
	_, ok := floors[cf.Name]
	return ok
}

func stepsCases(tier string) []eng.Case {
	var out []eng.Case
	quickSteps := map[string]bool{"base-n8": true, "sparse16-noeph-n9": true, "slots2-n9": true, "arcsine3-n9": true, "sin-n9": true, "order-custom-n8": true}
	quickPack := map[string]bool{"n1lt-n9-d1-slots6": true, "n1lt-noeph-n9": true}
	rep := 1
	if tier == "thorough" {
		rep = 2
	}
	for _, cf := range namedConfigs() {
		cf := cf
		switch {
		case stepsEligible(cf) && (tier == "thorough" || quickSteps[cf.Name]):
			for i := 0; i < rep; i++ {
				i := i
				out = append(out, eng.Case{ID: fmt.Sprintf("steps/%s/%d", cf.Name, i), Sig: "C18|steps", Desc: cf, Run: func(c *eng.Ctx) { runSteps(c, cf, i) }})
			}
		case packEligible(cf) && (tier == "thorough" || quickPack[cf.Name]):
			for i := 0; i < rep; i++ {
				i := i
				out = append(out, eng.Case{ID: fmt.Sprintf("pack/%s/%d", cf.Name, i), Sig: "C18|pack", Desc: cf, Run: func(c *eng.Ctx) { runPack(c, cf, i) }})
			}
		}
	}
	return out
}

// ---- small helpers shared by the extension families

func (s *session) encryptVals(v []complex128, level int, scale rlwe.Scale, logSlots int) *rlwe.Ciphertext {
	pt := ckks.NewPlaintext(s.res, level)
	pt.Scale = scale
	pt.LogDimensions = ring.Dimensions{Rows: 0, Cols: logSlots}
	if err := s.ecd.Encode(v, pt); err != nil {
		panic(err)
	}
	ct, err := s.enc.EncryptNew(pt)
	if err != nil {
		panic(err)
	}
	return ct
}

func (s *session) decodeCt(ct *rlwe.Ciphertext, logSlots int) []complex128 {
	y := ct.CopyNew()
	y.LogDimensions = ring.Dimensions{Rows: 0, Cols: logSlots}
	out := make([]complex128, 1<<logSlots)
	if err := s.ecd.Decode(s.dec.DecryptNew(y), out); err != nil {
		panic(err)
	}
	return out
}

// modelAndThr: what the documented circuit ideally returns for the message ref, and the verdict
// threshold of the set (identical to the btp family).
func (s *session) modelAndThr(emb *embedding, ref []complex128) (model []complex128, thr, D float64) {
	model = ref
	if s.cf.Iter == nil {
		w, _ := emb.modelOutput(ref, math.Exp2(float64(s.cf.LogRatio)), s.cf.InvDeg)
		D = maxAbsDiff(w, ref)
		model = w
	}
	thr = math.Exp2(s.floor+marginBits) + 0.25*D
	return
}

func samePolys(a, b *rlwe.Ciphertext) bool {
	if a == nil || b == nil || len(a.Value) != len(b.Value) {
		return false
	}
	for i := range a.Value {
		if len(a.Value[i].Coeffs) != len(b.Value[i].Coeffs) {
			return false
		}
		for j := range a.Value[i].Coeffs {
			x, y := a.Value[i].Coeffs[j], b.Value[i].Coeffs[j]
			if len(x) != len(y) {
				return false
			}
			for k := range x {
				if x[k] != y[k] {
					return false
				}
			}
		}
	}
	return true
}

func sameMeta(a, b *rlwe.Ciphertext) bool {
	return a.Scale.Cmp(b.Scale) == 0 && a.IsNTT == b.IsNTT && a.IsMontgomery == b.IsMontgomery && a.IsBatched == b.IsBatched && a.LogDimensions == b.LogDimensions
}

// transported returns an evaluator instantiated from the parameters after a JSON round trip and the
// key bundle after a binary round trip (what a server that receives both actually holds).
func (s *session) transported() *bootstrapping.Evaluator {
	c := s.c
	var btp2 bootstrapping.Parameters
	var evk2 bootstrapping.EvaluationKeys
	var err error
	if !c.Try("C18|Parameters.MarshalBinary", func() {
		var data []byte
		if data, err = s.btp.MarshalBinary(); err == nil {
			err = btp2.UnmarshalBinary(data)
		}
	}) {
		return nil
	}
	if !c.Check(err == nil && s.btp.Equal(&btp2) && btp2.CircuitOrder == s.btp.CircuitOrder && btp2.EphemeralSecretWeight == s.btp.EphemeralSecretWeight,
		"C18|Parameters.MarshalBinary|round-trip-differs", func() string { return fmt.Sprintf("err=%v (config %s)", err, s.cf.Name) }) {
		return nil
	}
	var n1, n2 int64
	var buf bytes.Buffer
	if !c.Try("C18|EvaluationKeys.WriteTo", func() {
		if n1, err = s.evk.WriteTo(&buf); err == nil {
			size := buf.Len()
			c.Check(int(n1) == size && s.evk.BinarySize() == size, "C18|EvaluationKeys.WriteTo|BinarySize-or-count-differs-from-bytes-written", func() string {
				return fmt.Sprintf("WriteTo reported %d, BinarySize()=%d, %d bytes written", n1, s.evk.BinarySize(), size)
			})
			n2, err = evk2.ReadFrom(bytes.NewReader(buf.Bytes()))
		}
	}) {
		return nil
	}
	if !c.Check(err == nil && n1 == n2, "C18|EvaluationKeys.ReadFrom|error-or-count-on-own-output", func() string { return fmt.Sprintf("err=%v written=%d read=%d", err, n1, n2) }) {
		return nil
	}
	c.Count("bundles_transported", 1)
	// the same keys at the same levels (in particular the encapsulation keys stay at q0*p0)
	sameKey := func(a, b *rlwe.EvaluationKey) bool {
		if (a == nil) != (b == nil) {
			return false
		}
		return a == nil || (a.LevelQ() == b.LevelQ() && a.LevelP() == b.LevelP() && a.GadgetCiphertext.Equal(&b.GadgetCiphertext))
	}
	okKeys := sameKey(s.evk.EvkN1ToN2, evk2.EvkN1ToN2) && sameKey(s.evk.EvkN2ToN1, evk2.EvkN2ToN1) && sameKey(s.evk.EvkRealToCmplx, evk2.EvkRealToCmplx) &&
		sameKey(s.evk.EvkCmplxToReal, evk2.EvkCmplxToReal) && sameKey(s.evk.EvkDenseToSparse, evk2.EvkDenseToSparse) && sameKey(s.evk.EvkSparseToDense, evk2.EvkSparseToDense) &&
		evk2.MemEvaluationKeySet != nil
	if okKeys {
		a, _ := s.evk.GetRelinearizationKey()
		b, errb := evk2.GetRelinearizationKey()
		okKeys = errb == nil && sameKey(&a.EvaluationKey, &b.EvaluationKey)
		gl := s.evk.GetGaloisKeysList()
		okKeys = okKeys && len(gl) == len(evk2.GetGaloisKeysList())
		for _, g := range gl {
			ga, _ := s.evk.GetGaloisKey(g)
			gb, errg := evk2.GetGaloisKey(g)
			if errg != nil || gb.GaloisElement != ga.GaloisElement || gb.NthRoot != ga.NthRoot || !sameKey(&ga.EvaluationKey, &gb.EvaluationKey) {
				okKeys = false
				break
			}
		}
	}
	if !c.Check(okKeys, "C18|EvaluationKeys.ReadFrom|bundle-differs-after-round-trip", func() string { return "config " + s.cf.Name }) {
		return nil
	}
	var ev *bootstrapping.Evaluator
	if !c.Try("C18|NewEvaluator|transported-parameters-and-bundle", func() { ev, err = bootstrapping.NewEvaluator(btp2, &evk2) }) {
		return nil
	}
	if !c.Check(err == nil && ev != nil, "C18|NewEvaluator|transported-parameters-and-bundle|error", func() string { return fmt.Sprint(err) }) {
		return nil
	}
	return ev
}

// stepwise runs the five documented steps; scaling == 0 means EvalMod, anything else EvalModAndScale.
// Every intermediate level announced by the parameters object is checked.
func (s *session) stepwise(ev *bootstrapping.Evaluator, ct *rlwe.Ciphertext, scaling complex128, ref []complex128, logSlots int) (out *rlwe.Ciphertext) {
	c := s.c
	p2 := s.btp.BootstrappingParameters
	var err error
	fail := func(api string) bool {
		if err != nil {
			c.Violate("C18|Evaluator."+api+"|error-on-admissible", fmt.Sprintf("%v (config %s)", err, s.cf.Name), s.cf)
			return true
		}
		return false
	}
	// 1. ScaleDown
	var x *rlwe.Ciphertext
	var errScale *rlwe.Scale
	if !s.tryCall("C18|Evaluator.ScaleDown", "", func() { x, errScale, err = ev.ScaleDown(ct) }) || fail("ScaleDown") {
		return nil
	}
	c.Count("steps_called", 1)
	q0 := float64(s.res.Q()[0])
	target := q0 / math.Exp2(float64(s.cf.LogRatio))
	es := errScale.Float64()
	if !c.Check(x.Level() == 0 && math.Abs(es-1) <= 1.0/1024 && math.Abs(x.Scale.Float64()/target-1) <= 1.0/1024, "C18|Evaluator.ScaleDown|level-or-scale-differs-from-Q0-over-MessageRatio", func() string {
		return fmt.Sprintf("level %d, scale 2^%.6f, Q0/MessageRatio 2^%.6f, returned scale error %.9f (config %s)", x.Level(), x.Scale.Log2(), math.Log2(target), es, s.cf.Name)
	}) {
		return nil
	}
	// the message is untouched by ScaleDown (an exact integer multiplication + the new scale)
	if e := maxAbsDiff(s.decodeCt(x, logSlots), ref); !c.Check(e <= math.Exp2(-20), "C18|Evaluator.ScaleDown|message-changed", func() string {
		return fmt.Sprintf("max |decode(ScaleDown(ct)) - decode(ct)| = 2^%.1f (config %s)", math.Log2(e), s.cf.Name)
	}) {
		return nil
	}
	// 2. ModUp
	var y *rlwe.Ciphertext
	if !s.tryCall("C18|Evaluator.ModUp", "", func() { y, err = ev.ModUp(x) }) || fail("ModUp") {
		return nil
	}
	c.Count("steps_called", 1)
	if !c.Check(y.Level() == p2.MaxLevel() && y.Degree() == 1 && y.IsNTT, "C18|Evaluator.ModUp|output-level", func() string {
		return fmt.Sprintf("level %d, bootstrapping max level %d", y.Level(), p2.MaxLevel())
	}) {
		return nil
	}
	// 3. CoeffsToSlots
	var re, im *rlwe.Ciphertext
	if !s.tryCall("C18|Evaluator.CoeffsToSlots", "", func() { re, im, err = ev.CoeffsToSlots(y) }) || fail("CoeffsToSlots") {
		return nil
	}
	c.Count("steps_called", 1)
	lvl := p2.MaxLevel() - s.btp.DepthCoeffsToSlots()
	full := s.btp.LogMaxSlots() == p2.LogMaxSlots()
	if !c.Check(re != nil && re.Level() == lvl && (im != nil) == full && (im == nil || im.Level() == lvl) && lvl == s.btp.Mod1ParametersLiteral.LevelQ, "C18|Evaluator.CoeffsToSlots|levels-consumed-differ-from-DepthCoeffsToSlots", func() string {
		return fmt.Sprintf("max level %d, DepthCoeffsToSlots()=%d, Mod1 LevelQ=%d, output level %d, imaginary part present=%v (full packing=%v)", p2.MaxLevel(), s.btp.DepthCoeffsToSlots(), s.btp.Mod1ParametersLiteral.LevelQ, re.Level(), im != nil, full)
	}) {
		return nil
	}
	// 4. EvalMod / EvalModAndScale
	api := "EvalMod"
	mod := func(z *rlwe.Ciphertext) (o *rlwe.Ciphertext) {
		if scaling == 0 {
			o, err = ev.EvalMod(z)
		} else {
			o, err = ev.EvalModAndScale(z, scaling)
		}
		return
	}
	if scaling != 0 {
		api = "EvalModAndScale"
	}
	if !s.tryCall("C18|Evaluator."+api, "", func() {
		if re = mod(re); err == nil && im != nil {
			im = mod(im)
		}
	}) || fail(api) {
		return nil
	}
	c.Count("steps_called", 1)
	lvl -= s.btp.DepthEvalMod()
	ds := p2.DefaultScale()
	if !c.Check(re.Level() == lvl && (im == nil || im.Level() == lvl) && lvl == s.btp.SlotsToCoeffsParameters.LevelQ && re.Scale.Cmp(ds) == 0, "C18|Evaluator."+api+"|levels-consumed-differ-from-DepthEvalMod-or-scale", func() string {
		return fmt.Sprintf("DepthEvalMod()=%d, SlotsToCoeffs LevelQ=%d, output level %d, scale 2^%.4f (default 2^%.4f)", s.btp.DepthEvalMod(), s.btp.SlotsToCoeffsParameters.LevelQ, re.Level(), re.Scale.Log2(), ds.Log2())
	}) {
		return nil
	}
	// 5. SlotsToCoeffs
	if !s.tryCall("C18|Evaluator.SlotsToCoeffs", "", func() { out, err = ev.SlotsToCoeffs(re, im) }) || fail("SlotsToCoeffs") {
		return nil
	}
	c.Count("steps_called", 1)
	lvl -= s.btp.DepthSlotsToCoeffs()
	if !c.Check(out.Level() == lvl && lvl == s.res.MaxLevel() && lvl == ev.OutputLevel(), "C18|Evaluator.SlotsToCoeffs|levels-consumed-differ-from-DepthSlotsToCoeffs", func() string {
		return fmt.Sprintf("DepthSlotsToCoeffs()=%d, output level %d, OutputLevel()=%d", s.btp.DepthSlotsToCoeffs(), out.Level(), ev.OutputLevel())
	}) {
		return nil
	}
	wantScale := s.res.DefaultScale()
	c.Check(out.Scale.Cmp(wantScale) == 0, "C18|Evaluator.SlotsToCoeffs|output-scale", func() string {
		return fmt.Sprintf("scale 2^%.6f, residual default scale 2^%.6f (config %s)", out.Scale.Log2(), wantScale.Log2(), s.cf.Name)
	})
	return out
}

func runSteps(c *eng.Ctx, cf cfg, idx int) {
	s := newSession(c, cf)
	if s == nil {
		return
	}
	r := c.Rand()
	maxL := s.res.MaxLevel()
	level := eng.Pick(r, 0, maxL, r.N(maxL+1))
	if idx == 0 {
		level = eng.Pick(r, 0, maxL)
	}
	mag := eng.Pick(r, "unit", "mid", "max", "onehot")
	scaling := eng.Pick(r, complex(-1, 0), complex(0.5, 0), complex(2, 0), complex(0, 1), complex(0.6, -0.8))
	logSlots := s.btp.LogMaxSlots()
	emb := newEmbedding(logSlots)
	v := s.genValues(r, emb, mag, false)
	ct := s.encryptVals(v, level, s.res.DefaultScale(), logSlots)
	ref := s.decodeCt(ct, logSlots)
	model, thr, _ := s.modelAndThr(emb, ref)
	c.Sample(map[string]any{"kind": "steps", "config": cf, "level": level, "mag": mag, "scaling": fmt.Sprint(scaling)})
	c.Distinct(fmt.Sprintf("steps/%s/l%d/%s/%v", cf.Name, level, mag, scaling), true)

	// --- A: step by step on the original evaluator == the documented circuit
	out := s.stepwise(s.eval, ct.CopyNew(), 0, ref, logSlots)
	if out == nil {
		return
	}
	c.Count("stepwise_pipelines", 1)
	e := maxAbsDiff(s.decodeCt(out, logSlots), model)
	c.Count("precision_checks", 1)
	c.Check(e <= thr, "C18|Evaluator.SlotsToCoeffs|step-by-step-circuit|message-error-above-announced-precision", func() string {
		return fmt.Sprintf("max |out - model| = 2^%.2f > 2^%.2f (config %s, level %d, %s)", math.Log2(e), math.Log2(thr), cf.Name, level, mag)
	})
	// --- B: Evaluate on a ShallowCopy is the same deterministic circuit
	if cp := s.copyEval(); cp != nil {
		var z *rlwe.Ciphertext
		var err error
		if s.tryCall("C18|Evaluator.Evaluate", "|on-shallow-copy", func() { z, err = cp.Evaluate(ct.CopyNew()) }) {
			if err != nil {
				c.Violate("C18|Evaluator.Evaluate|error-on-admissible", fmt.Sprintf("%v (config %s)", err, cf.Name), cf)
			} else {
				c.Count("stepwise_vs_evaluate", 1)
				c.Check(samePolys(z, out) && sameMeta(z, out), "C18|Evaluator.Evaluate|differs-from-its-documented-steps", func() string {
					return fmt.Sprintf("Evaluate on a ShallowCopy and ScaleDown->ModUp->CoeffsToSlots->EvalMod->SlotsToCoeffs on the original give different ciphertexts for the same input (levels %d/%d, scales 2^%.4f/2^%.4f, config %s)", z.Level(), out.Level(), z.Scale.Log2(), out.Scale.Log2(), cf.Name)
				})
			}
		}
	}
	// --- C: EvalModAndScale on an evaluator built from transported parameters and keys
	ev2 := s.transported()
	if ev2 == nil {
		return
	}
	out2 := s.stepwise(ev2, ct.CopyNew(), scaling, ref, logSlots)
	if out2 == nil {
		return
	}
	c.Count("stepwise_pipelines", 1)
	c.Count("scaled_pipelines", 1)
	want := make([]complex128, len(model))
	for i := range model {
		want[i] = scaling * model[i]
	}
	e2 := maxAbsDiff(s.decodeCt(out2, logSlots), want)
	thr2 := thr * math.Max(1, cmplx.Abs(scaling))
	c.Count("precision_checks", 1)
	c.Max("max_scaled_pipeline_err_over_threshold_x1000", int64(1000*e2/thr2))
	c.Check(e2 <= thr2, "C18|Evaluator.EvalModAndScale|message-differs-from-scaling-times-model", func() string {
		return fmt.Sprintf("scaling %v: max |out - scaling*model| = 2^%.2f > 2^%.2f (config %s, level %d, %s)", scaling, math.Log2(e2), math.Log2(thr2), cf.Name, level, mag)
	})
}

// runPack: packing + ring switching called directly.
func runPack(c *eng.Ctx, cf cfg, idx int) {
	s := newSession(c, cf)
	if s == nil {
		return
	}
	r := c.Rand()
	maxLS := s.maxCtLogSlots()
	logSlots := r.N(maxLS + 1)
	if idx == 0 && maxLS > 0 {
		logSlots = r.N(maxLS) // strictly sparse: something is packed in the residual ring
	}
	batch := 2 + r.N(3)
	level := s.minLevel() // packing above the lowest level is a triaged finding
	emb := newEmbedding(logSlots)
	cts := make([]rlwe.Ciphertext, batch)
	refs := make([][]complex128, batch)
	for i := range cts {
		v := s.genValues(r, emb, eng.Pick(r, "unit", "mid", "max"), false)
		cts[i] = *s.encryptVals(v, level, s.res.DefaultScale(), logSlots)
		refs[i] = s.decodeCt(&cts[i], logSlots)
	}
	clone := func(in []rlwe.Ciphertext) []rlwe.Ciphertext {
		o := make([]rlwe.Ciphertext, len(in))
		for i := range in {
			o[i] = *in[i].CopyNew()
		}
		return o
	}
	c.Sample(map[string]any{"kind": "pack", "config": cf, "logSlots": logSlots, "batch": batch})
	c.Distinct(fmt.Sprintf("pack/%s/s%d/b%d", cf.Name, logSlots, batch), true)
	ev := s.eval
	if k := r.N(3); k > 0 {
		if ev = s.copyEval(); ev == nil {
			return
		}
		if k == 2 {
			// second generation: a copy of a copy
			first := ev
			if !c.Try("C18|Evaluator.ShallowCopy", func() { ev = first.ShallowCopy() }) {
				return
			}
			c.Count("calls_on_copy_of_copy", 1)
		}
	}
	N1, N2 := s.res.N(), s.btp.BootstrappingParameters.N()
	capacity := 1 << (s.btp.LogMaxSlots() - logSlots)
	wantPacked := (batch + capacity - 1) / capacity

	// --- Unpack(Pack(x)) == x on the messages
	var err error
	{
		var packed, back []rlwe.Ciphertext
		if !s.tryCall("C18|Evaluator.PackAndSwitchN1ToN2", "", func() {
			p, c1, c2, e := ev.PackAndSwitchN1ToN2(clone(cts))
			if err = e; err != nil {
				return
			}
			packed = p
			okShape := len(p) == wantPacked
			for i := range p {
				okShape = okShape && p[i].Value[0].N() == N2 && p[i].LogDimensions.Cols == s.btp.LogMaxSlots() && p[i].Level() == level
			}
			c.Check(okShape, "C18|Evaluator.PackAndSwitchN1ToN2|packed-shape", func() string {
				return fmt.Sprintf("%d ciphertexts of 2^%d slots -> %d packed (want %d) in the ring of degree %d with 2^%d slots", batch, logSlots, len(p), wantPacked, N2, s.btp.LogMaxSlots())
			})
			if !okShape {
				packed = nil
				return
			}
			back, err = ev.UnpackAndSwitchN2ToN1(clone(p), c1, c2)
		}) {
			return
		}
		if err != nil {
			c.Violate("C18|Evaluator.PackAndSwitchN1ToN2|error-on-admissible", fmt.Sprintf("%v (config %s, %d x 2^%d slots)", err, cf.Name, batch, logSlots), cf)
			return
		}
		if packed == nil {
			return
		}
		c.Count("pack_unpack_round_trips", 1)
		okShape := len(back) == batch
		for i := range back {
			okShape = okShape && back[i].Value[0].N() == N1 && back[i].LogDimensions.Cols == logSlots
		}
		if !c.Check(okShape, "C18|Evaluator.UnpackAndSwitchN2ToN1|unpacked-shape", func() string {
			return fmt.Sprintf("%d ciphertexts packed, %d unpacked", batch, len(back))
		}) {
			return
		}
		for i := range back {
			e := maxAbsDiff(s.decodeCt(&back[i], logSlots), refs[i])
			c.Max("max_pack_unpack_err_log2_plus_64", int64(64+math.Log2(e+1e-300)))
			c.Check(e <= math.Exp2(-15), "C18|Evaluator.UnpackAndSwitchN2ToN1|not-inverse-of-PackAndSwitchN1ToN2", func() string {
				return fmt.Sprintf("ciphertext %d/%d of 2^%d slots: max |unpack(pack(x)) - x| = 2^%.1f (config %s)", i, batch, logSlots, math.Log2(e), cf.Name)
			})
		}
	}
	// --- Pack -> Evaluate -> Unpack is BootstrapMany
	var outs, many []rlwe.Ciphertext
	if !s.tryCall("C18|Evaluator.UnpackAndSwitchN2ToN1", "", func() {
		p, c1, c2, e := ev.PackAndSwitchN1ToN2(clone(cts))
		if err = e; err != nil {
			return
		}
		for i := range p {
			var o *rlwe.Ciphertext
			if o, err = ev.Evaluate(&p[i]); err != nil {
				return
			}
			p[i] = *o
		}
		outs, err = ev.UnpackAndSwitchN2ToN1(p, c1, c2)
	}) {
		return
	}
	if err != nil {
		c.Violate("C18|Evaluator.UnpackAndSwitchN2ToN1|error-on-admissible", fmt.Sprintf("%v (config %s)", err, cf.Name), cf)
		return
	}
	if !s.tryCall("C18|Evaluator.BootstrapMany", "", func() { many, err = ev.BootstrapMany(clone(cts)) }) {
		return
	}
	if err != nil {
		c.Violate("C18|Evaluator.BootstrapMany|error-on-admissible", fmt.Sprintf("%v (config %s)", err, cf.Name), cf)
		return
	}
	c.Count("pack_evaluate_unpack_pipelines", 1)
	same := len(outs) == len(many) && len(outs) == batch
	for i := 0; same && i < len(outs); i++ {
		same = samePolys(&outs[i], &many[i]) && outs[i].LogDimensions == many[i].LogDimensions
	}
	c.Check(same, "C18|Evaluator.BootstrapMany|differs-from-Pack-Evaluate-Unpack", func() string {
		return fmt.Sprintf("%d outputs vs %d (config %s, %d x 2^%d slots)", len(outs), len(many), cf.Name, batch, logSlots)
	})
	if len(outs) != batch {
		return
	}
	for i := range outs {
		o := &outs[i]
		model, thr, _ := s.modelAndThr(emb, refs[i])
		if !c.Check(o.Level() == s.res.MaxLevel() && o.Value[0].N() == N1, "C18|Evaluator.UnpackAndSwitchN2ToN1|output-level", func() string {
			return fmt.Sprintf("output %d at level %d in the ring of degree %d", i, o.Level(), o.Value[0].N())
		}) {
			return
		}
		o.Scale = s.res.DefaultScale() // BootstrapMany's last step
		e := maxAbsDiff(s.decodeCt(o, logSlots), model)
		c.Count("precision_checks", 1)
		c.Check(e <= thr, "C18|Evaluator.UnpackAndSwitchN2ToN1|pack-evaluate-unpack|message-error-above-announced-precision", func() string {
			return fmt.Sprintf("ciphertext %d/%d: max |out - model| = 2^%.2f > 2^%.2f (config %s, 2^%d slots)", i, batch, math.Log2(e), math.Log2(thr), cf.Name, logSlots)
		})
	}
}
