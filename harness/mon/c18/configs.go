package c18

import (
	"fmt"
	"math"
	"slices"

	"github.com/tuneinsight/lattigo/v6/circuits/ckks/bootstrapping"
	"github.com/tuneinsight/lattigo/v6/circuits/ckks/mod1"
	"github.com/tuneinsight/lattigo/v6/core/rlwe"
	"github.com/tuneinsight/lattigo/v6/ring"
	"github.com/tuneinsight/lattigo/v6/schemes/ckks"
	"github.com/tuneinsight/lattigo/v6/utils"
)

// cfg is one named bootstrapping parameter set (residual parameters + bootstrapping literal), always
// at reduced ring degree. Zero / nil fields mean "library default".
type cfg struct {
	Name string `json:"name"`
	// residual parameters
	ResLogN     int   `json:"resLogN"`
	ResLogQ     []int `json:"resLogQ"`
	ResLogP     []int `json:"resLogP"`
	ResLogScale int   `json:"resLogScale"`
	ResH        int   `json:"resH"` // Hamming weight of the residual secret
	CI          bool  `json:"ci,omitempty"`
	// bootstrapping literal
	BtpLogN  int       `json:"btpLogN"`
	LogSlots int       `json:"logSlots,omitempty"` // 0: default LogN-1
	C2S      [][]int   `json:"c2s,omitempty"`
	S2C      [][]int   `json:"s2c,omitempty"`
	EvalMod  int       `json:"evalModLogScale,omitempty"`
	Eph      int       `json:"eph"` // ephemeral secret weight (explicit, 0 = no encapsulation)
	BtpH     int       `json:"btpH"`
	BtpLogP  []int     `json:"btpLogP,omitempty"`
	Iter     []float64 `json:"iter,omitempty"`
	Reserved int       `json:"reserved,omitempty"`
	Mod1Type int       `json:"mod1Type,omitempty"`
	LogRatio int       `json:"logMessageRatio"`
	K        int       `json:"k,omitempty"`
	Deg      int       `json:"mod1Degree,omitempty"`
	DblAngle int       `json:"doubleAngle"` // -1: default
	InvDeg   int       `json:"mod1InvDegree,omitempty"`
	Order    int       `json:"circuitOrder,omitempty"`
	// origin of the set (exported default literal it was reduced from), informational
	From string `json:"from,omitempty"`
	// Q0Above: the residual moduli are given explicitly, the generated ones except that Q[0] is the first
	// NTT-friendly prime ABOVE 2^ResLogQ[0] (generated chains start below the power of two at these sizes)
	Q0Above bool `json:"q0Above,omitempty"`
}

func (c cfg) k() int {
	if c.K == 0 {
		return bootstrapping.DefaultK
	}
	return c.K
}

func (c cfg) resLit() ckks.ParametersLiteral {
	lit := ckks.ParametersLiteral{
		LogN:            c.ResLogN,
		LogQ:            c.ResLogQ,
		LogP:            c.ResLogP,
		LogDefaultScale: c.ResLogScale,
		Xs:              ring.Ternary{H: c.ResH},
	}
	if c.CI {
		lit.RingType = ring.ConjugateInvariant
		lit.LogNthRoot = c.BtpLogN + 1
	} else if c.ResLogN != c.BtpLogN {
		lit.LogNthRoot = c.BtpLogN + 1
	}
	if c.Q0Above {
		lnr := max(c.ResLogN+1, lit.LogNthRoot)
		if c.CI {
			lnr = max(c.ResLogN+2, lit.LogNthRoot)
		}
		q, p, err := rlwe.GenModuli(lnr, c.ResLogQ, c.ResLogP)
		if err == nil {
			g := ring.NewNTTFriendlyPrimesGenerator(uint64(c.ResLogQ[0]), uint64(1)<<lnr)
			for {
				q0, err := g.NextUpstreamPrime()
				if err != nil {
					break
				}
				if !slices.Contains(q, q0) && !slices.Contains(p, q0) {
					q[0] = q0
					break
				}
			}
			lit.Q, lit.P, lit.LogQ, lit.LogP = q, p, nil, nil
		}
	}
	return lit
}

func (c cfg) btpLit() bootstrapping.ParametersLiteral {
	l := bootstrapping.ParametersLiteral{
		LogN:                  utils.Pointy(c.BtpLogN),
		Xs:                    ring.Ternary{H: c.BtpH},
		EphemeralSecretWeight: utils.Pointy(c.Eph),
		LogMessageRatio:       utils.Pointy(c.LogRatio),
		Mod1Type:              mod1.Type(c.Mod1Type),
	}
	if c.LogSlots != 0 {
		l.LogSlots = utils.Pointy(c.LogSlots)
	}
	if c.C2S != nil {
		l.CoeffsToSlotsFactorizationDepthAndLogScales = c.C2S
	}
	if c.S2C != nil {
		l.SlotsToCoeffsFactorizationDepthAndLogScales = c.S2C
	}
	if c.EvalMod != 0 {
		l.EvalModLogScale = utils.Pointy(c.EvalMod)
	}
	if c.BtpLogP != nil {
		l.LogP = c.BtpLogP
	}
	if c.Iter != nil {
		l.IterationsParameters = &bootstrapping.IterationsParameters{BootstrappingPrecision: append([]float64(nil), c.Iter...), ReservedPrimeBitSize: c.Reserved}
	}
	if c.K != 0 {
		l.K = utils.Pointy(c.K)
	}
	if c.Deg != 0 {
		l.Mod1Degree = utils.Pointy(c.Deg)
	}
	if c.DblAngle >= 0 {
		l.DoubleAngle = utils.Pointy(c.DblAngle)
	}
	if c.InvDeg != 0 {
		l.Mod1InvDegree = utils.Pointy(c.InvDeg)
	}
	return l
}

func (c cfg) build() (res ckks.Parameters, btp bootstrapping.Parameters, err error) {
	if res, err = ckks.NewParametersFromLiteral(c.resLit()); err != nil {
		return res, btp, fmt.Errorf("residual: %w", err)
	}
	if btp, err = bootstrapping.NewParametersFromLiteral(res, c.btpLit()); err != nil {
		return res, btp, fmt.Errorf("bootstrapping: %w", err)
	}
	btp.CircuitOrder = bootstrapping.CircuitOrder(c.Order)
	return
}

// effH is the Hamming weight of the secret under which the ciphertext is raised from q0 to Q.
func (c cfg) effH() int {
	if c.Eph > 0 {
		return c.Eph
	}
	if c.ResLogN == c.BtpLogN && !c.CI {
		return c.ResH
	}
	return c.BtpH
}

// kSigmas returns (K-1) in standard deviations of the integer part I = round((c0+c1 s)/q0): the
// circuit only reduces correctly when |I| <= K-1. Configurations are required to keep >= 8.5.
func (c cfg) kSigmas() float64 {
	return float64(c.k()-1) / math.Sqrt(float64(c.effH()+1)/12)
}

// intervalOK: the integer part stays inside [-(K-1), K-1] in the worst case ((h+1)/2 + 1 <= K-1) or
// with >= 8.5 standard deviations to spare.
func (c cfg) intervalOK() bool {
	return float64(c.effH()+1)/2+1 <= float64(c.k()-1) || c.kSigmas() >= 8.5
}

// logSlots of the bootstrapping parameters
func (c cfg) btpLogSlots() int {
	if c.LogSlots != 0 {
		return c.LogSlots
	}
	return c.BtpLogN - 1
}

func rep(v, n int) [][]int {
	o := make([][]int, n)
	for i := range o {
		o[i] = []int{v}
	}
	return o
}

// base returns the reduced-size work-horse set: residual {60,40,40}/61, default circuit, sparse main
// secret, ephemeral weight 32, message ratio corrected for the ring degree as the repo's tests do.
func base(name string, logN int) cfg {
	return cfg{Name: name, ResLogN: logN, ResLogQ: []int{60, 40, 40}, ResLogP: []int{61}, ResLogScale: 40, ResH: min(192, 1<<(logN-1)),
		BtpLogN: logN, Eph: 32, BtpH: min(192, 1<<(logN-1)), LogRatio: 8 + 16 - logN, DblAngle: -1}
}

// namedConfigs is the fixed list of parameter sets. Each exported default literal appears reduced to
// log N = 10 (same moduli sizes, circuit options and ephemeral weight; the dense ones keep H = N/2);
// the others switch one circuit option at a time on the small base set.
func namedConfigs() []cfg {
	var l []cfg
	add := func(c cfg) { l = append(l, c) }

	// ---- the eight exported defaults, reduced to log N = 10 (residual chain shortened to <= 4 primes
	// beyond the first to bound the cost; sizes kept)
	defaults := []struct {
		name  string
		logQ  []int
		logP  []int
		scale int
		dense bool
		c2s   [][]int
		s2c   [][]int
		em    int
		ratio int
		inv   int
	}{
		{"N16QP1546H192H32", []int{60, 40, 40, 40, 40}, []int{61, 61}, 40, false, nil, nil, 0, 8, 0},
		{"N16QP1547H192H32", []int{60, 45, 45, 45}, []int{61, 61}, 45, false, rep(58, 4), rep(42, 3), 0, 2, 7},
		{"N16QP1553H192H32", []int{55, 60, 60, 60}, []int{61, 61}, 30, false, rep(53, 4), [][]int{{30}, {30, 30}}, 55, 8, 0},
		{"N15QP768H192H32", []int{33, 50, 25}, []int{51, 51}, 25, false, rep(49, 2), [][]int{{30, 30}}, 50, 8, 0},
		{"N16QP1767H32768H32", []int{60, 40, 40, 40, 40}, []int{61, 61}, 40, true, nil, nil, 0, 8, 0},
		{"N16QP1788H32768H32", []int{60, 45, 45, 45}, []int{61, 61}, 45, true, rep(58, 4), rep(42, 3), 0, 2, 7},
		{"N16QP1793H32768H32", []int{55, 60, 60, 30}, []int{61, 61}, 30, true, rep(53, 4), [][]int{{30}, {30, 30}}, 55, 8, 0},
		{"N15QP880H16384H32", []int{40, 31, 31, 31}, []int{56, 56}, 31, true, rep(52, 2), [][]int{{30, 30}}, 55, 8, 0},
	}
	for _, d := range defaults {
		logN := 10
		h := 192
		if d.dense {
			h = 1 << (logN - 1)
		}
		ratio := d.ratio
		// the repo's tests raise the message ratio by (16 - logN) when they shrink the ring (the
		// coefficients of a message with unit slots grow like 1/sqrt(n)); possible only where q0/scale
		// leaves the room
		room := d.logQ[0] - d.scale
		if r := ratio + 16 - logN; r <= room-2 {
			ratio = r
		} else if room-2 > ratio {
			ratio = room - 2
		}
		add(cfg{Name: "def-" + d.name, From: d.name, ResLogN: logN, ResLogQ: d.logQ, ResLogP: d.logP, ResLogScale: d.scale, ResH: h,
			BtpLogN: logN, C2S: d.c2s, S2C: d.s2c, EvalMod: d.em, Eph: 32, BtpH: h, LogRatio: ratio, DblAngle: -1, InvDeg: d.inv})
	}

	// ---- ring degrees
	add(base("base-n8", 8))
	add(base("base-n9", 9))
	add(base("base-n10", 10))
	add(base("base-n11", 11))

	// ---- sparse bootstrapping slots (LogSlots < LogN-1)
	for _, ls := range []int{1, 2, 5, 7} {
		c := base(fmt.Sprintf("slots%d-n9", ls), 9)
		c.LogSlots = ls
		add(c)
	}

	// ---- residual ring smaller than the bootstrapping ring
	for _, d := range []int{1, 2, 4} {
		c := base(fmt.Sprintf("n1lt-n10-d%d", d), 10)
		c.ResLogN = 10 - d
		c.ResH = min(192, 1<<(c.ResLogN-1))
		add(c)
	}
	{
		c := base("n1lt-n9-d1-slots6", 9)
		c.ResLogN = 8
		c.ResH = 64
		c.LogSlots = 6
		add(c)
	}
	// ---- conjugate-invariant residual ring
	for _, logN := range []int{9, 10} {
		c := base(fmt.Sprintf("ci-n%d", logN), logN)
		c.CI = true
		c.ResLogN = logN - 1
		c.ResH = min(192, 1<<(c.ResLogN-1))
		add(c)
	}
	// ---- secrets: dense main secret with encapsulation, sparse main secret without, dense without
	{
		c := base("dense-eph32-n9", 9)
		c.ResH, c.BtpH = 256, 256
		add(c)
		c = base("sparse16-noeph-n9", 9)
		c.ResH, c.BtpH, c.Eph = 16, 16, 0
		add(c)
		c = base("eph8-k8-n9", 9)
		c.Eph, c.K, c.Deg = 8, 8, 30
		add(c)
		// dense secret, no encapsulation: needs a wide interval (K-1 >= 8.5 sigma of the integer part)
		c = base("dense-noeph-n8", 8)
		c.ResH, c.BtpH, c.Eph = 128, 128, 0
		c.Mod1Type, c.K, c.Deg, c.DblAngle = int(mod1.CosContinuous), 30, 63, 3
		add(c)
		// N1 < N2 without encapsulation: the raise happens under the (fresh) bootstrapping secret
		c = base("n1lt-noeph-n9", 9)
		c.ResLogN, c.ResH, c.BtpH, c.Eph = 8, 64, 16, 0
		add(c)
	}
	// ---- mod1 type / double angle / arcsine
	{
		c := base("sin-n9", 9)
		c.Mod1Type, c.Deg, c.DblAngle, c.K = int(mod1.SinContinuous), 127, 0, 14
		c.Eph = 24
		add(c)
		c = base("coscont-n9", 9)
		c.Mod1Type, c.Deg, c.DblAngle = int(mod1.CosContinuous), 63, 3
		add(c)
		for r := 0; r <= 3; r++ {
			c = base(fmt.Sprintf("cosdisc-r%d-n9", r), 9)
			c.Eph, c.K, c.DblAngle = 8, 8, r
			c.Deg = []int{63, 47, 30, 30}[r]
			if r == 0 {
				// without double angle the cosine is approximated on the whole [-K, K]: keep K small
				c.Eph, c.K = 4, 5
			}
			add(c)
		}
		for _, inv := range []int{3, 5, 7} {
			c = base(fmt.Sprintf("arcsine%d-n9", inv), 9)
			c.InvDeg, c.LogRatio = inv, 5
			add(c)
		}
		c = base("sin-arcsine-n9", 9)
		c.Mod1Type, c.Deg, c.DblAngle, c.K, c.Eph, c.InvDeg, c.LogRatio = int(mod1.SinContinuous), 127, 0, 14, 24, 7, 5
		add(c)
	}
	// ---- DFT depth splits
	{
		c := base("dft-c2s2-s2c1-n9", 9)
		c.C2S, c.S2C = rep(56, 2), rep(39, 1)
		add(c)
		c = base("dft-s2c-merged-n9", 9)
		c.C2S, c.S2C = rep(56, 3), [][]int{{30, 30}, {60}}
		add(c)
		c = base("dft-deep-n9", 9)
		c.C2S, c.S2C = rep(50, 5), rep(39, 4)
		add(c)
		c = base("dft-c2s1-n8", 8)
		c.C2S, c.S2C = rep(58, 1), rep(42, 1)
		add(c)
	}
	// ---- EvalMod scale, auxiliary primes
	{
		c := base("evalmod50-n9", 9)
		c.EvalMod = 50
		add(c)
		// first prime just above its power of two, EvalMod scale equal to that power (the shape of the shipped
		// N16QP1553 / N16QP1793 sets at log N = 16): the division by round(log2 Q0) must not be taken for granted
		c = base("q0above-n9", 9)
		c.Q0Above = true
		add(c)
		c = base("q0above-evalmod55-n9", 9)
		c.ResLogQ, c.EvalMod, c.Q0Above = []int{55, 40, 40}, 55, true
		c.LogRatio = min(c.LogRatio, 55-40-2)
		add(c)
		// no encapsulation together with a first prime below the EvalMod scale: ModUp then multiplies the raised
		// ciphertext by round(2^EvalModLogScale / Q0) > 1 on the branch that has no ephemeral key
		c = base("noeph-q0-55-n9", 9)
		c.ResLogQ = []int{55, 40, 40}
		c.ResH, c.BtpH, c.Eph = 16, 16, 0
		c.LogRatio = min(c.LogRatio, 55-40-2)
		add(c)
		c = base("logp1-n9", 9)
		c.BtpLogP = []int{61}
		add(c)
		c = base("logp55x3-n9", 9)
		c.BtpLogP = []int{55, 55, 55}
		add(c)
	}
	// ---- circuit order flags (the evaluation itself is the same circuit)
	{
		c := base("order-decode-first-n8", 8)
		c.Order = int(bootstrapping.DecodeThenModUp)
		add(c)
		c = base("order-custom-n8", 8)
		c.Order = int(bootstrapping.Custom)
		add(c)
	}
	// ---- iterations (META-BTS): plain, with a reserved prime, and in high-precision (scale 2^80) mode
	{
		c := base("iter1-reserved-n9", 9)
		c.Iter, c.Reserved = []float64{20}, 25
		add(c)
		c = base("hp80-iter1-noreserve-n9", 9)
		c.ResLogQ, c.ResLogScale = []int{60, 40, 40, 40}, 80
		c.Iter = []float64{25}
		add(c)
		c = base("hp80-n9", 9)
		c.ResLogQ, c.ResLogScale = []int{60, 40, 40, 40}, 80
		c.Iter, c.Reserved = []float64{25, 25}, 28
		add(c)
		c = base("hp80-noiter-n9", 9)
		c.ResLogQ, c.ResLogScale = []int{60, 40, 40, 40}, 80
		add(c)
	}
	return l
}

func configByName(name string) (cfg, bool) {
	for _, c := range namedConfigs() {
		if c.Name == name {
			return c, true
		}
	}
	return cfg{}, false
}
