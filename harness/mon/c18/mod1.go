package c18

import (
	"fmt"
	"math"

	"github.com/tuneinsight/lattigo/v6/circuits/ckks/mod1"
	"github.com/tuneinsight/lattigo/v6/circuits/ckks/polynomial"
	"github.com/tuneinsight/lattigo/v6/core/rlwe"
	"github.com/tuneinsight/lattigo/v6/ring"
	"github.com/tuneinsight/lattigo/v6/schemes/ckks"

	"verif/harness/eng"
)

type mod1Cfg struct {
	Name     string `json:"name"`
	LogN     int    `json:"logN"`
	Type     int    `json:"type"`
	K        int    `json:"k"`
	Deg      int    `json:"degree"`
	DblAngle int    `json:"doubleAngle"`
	InvDeg   int    `json:"invDegree"`
	LogRatio int    `json:"logMessageRatio"`
	LogScale int    `json:"logScale"`
}

func (m mod1Cfg) lit(levelQ int) mod1.ParametersLiteral {
	return mod1.ParametersLiteral{LevelQ: levelQ, LogScale: m.LogScale, Mod1Type: mod1.Type(m.Type), LogMessageRatio: m.LogRatio, K: m.K,
		Mod1Degree: m.Deg, DoubleAngle: m.DblAngle, Mod1InvDegree: m.InvDeg}
}

func mod1Configs() []mod1Cfg {
	cd, sc, cc := int(mod1.CosDiscrete), int(mod1.SinContinuous), int(mod1.CosContinuous)
	return []mod1Cfg{
		{"cosdisc-k16-d30-r3", 8, cd, 16, 30, 3, 0, 13, 60},
		{"cosdisc-k12-d30-r3", 8, cd, 12, 30, 3, 0, 8, 60},
		{"cosdisc-k8-d30-r2", 7, cd, 8, 30, 2, 0, 12, 60},
		{"cosdisc-k8-d47-r1", 7, cd, 8, 47, 1, 0, 12, 60},
		{"cosdisc-k5-d63-r0", 7, cd, 5, 63, 0, 0, 10, 60},
		{"cosdisc-k16-d30-r3-ratio14", 8, cd, 16, 30, 3, 0, 14, 60},
		{"cosdisc-k12-d30-r3-asin7", 8, cd, 12, 30, 3, 7, 4, 60},
		{"cosdisc-k12-d30-r3-asin3", 8, cd, 12, 30, 3, 3, 5, 60},
		{"sin-k14-d127", 8, sc, 14, 127, 0, 0, 8, 60},
		{"sin-k14-d127-asin7", 8, sc, 14, 127, 0, 7, 8, 60},
		{"sin-k6-d63", 7, sc, 6, 63, 0, 0, 8, 60},
		{"coscont-k16-d63-r3", 8, cc, 16, 63, 3, 0, 8, 60},
		{"coscont-k30-d63-r3", 7, cc, 30, 63, 3, 0, 8, 60},
		{"coscont-k325-d177-r4", 8, cc, 325, 177, 4, 0, 4, 60},
		{"coscont-k16-d127-r1", 7, cc, 16, 127, 1, 0, 8, 60},
	}
}

func mod1Cases(tier string, r *eng.Rand) []eng.Case {
	rep := 1
	if tier == "thorough" {
		rep = 6
	}
	if calibPath != "" {
		rep = 10
	}
	var out []eng.Case
	for _, m := range mod1Configs() {
		for i := 0; i < rep; i++ {
			m, i := m, i
			out = append(out, eng.Case{ID: fmt.Sprintf("mod1/%s/%d", m.Name, i), Sig: "C18|mod1", Desc: m, Run: func(c *eng.Ctx) { runMod1(c, m, i) }})
		}
	}
	return out
}

func runMod1(c *eng.Ctx, m mod1Cfg, idx int) {
	depth := m.lit(0).Depth()
	levelQ := depth + 1
	logQ := []int{60}
	for i := 0; i < levelQ; i++ {
		logQ = append(logQ, m.LogScale)
	}
	logQ = append(logQ, 53)
	params, err := ckks.NewParametersFromLiteral(ckks.ParametersLiteral{LogN: m.LogN, LogQ: logQ, LogP: []int{61, 61, 61}, LogDefaultScale: 45, Xs: ring.Ternary{H: min(64, 1<<(m.LogN-1))}})
	if err != nil {
		c.Violate("C18|mod1|ckks.NewParametersFromLiteral|error", err.Error(), m)
		return
	}
	var mp mod1.Parameters
	if !c.Try("C18|mod1.NewParametersFromLiteral", func() { mp, err = mod1.NewParametersFromLiteral(params, m.lit(levelQ)) }) {
		return
	}
	if err != nil {
		c.Violate("C18|mod1.NewParametersFromLiteral|error-on-admissible", err.Error(), m)
		return
	}
	c.Sample(map[string]any{"kind": "mod1", "config": m, "depth": depth})
	kgen := rlwe.NewKeyGenerator(params)
	sk := kgen.GenSecretKeyNew()
	ecd := ckks.NewEncoder(params)
	enc := rlwe.NewEncryptor(params, sk)
	dec := rlwe.NewDecryptor(params, sk)
	eval := ckks.NewEvaluator(params, rlwe.NewMemEvaluationKeySet(kgen.GenRelinearizationKeyNew(sk)))
	r := c.Rand()

	// inputs on the stated interval: k*Q + f, |k| <= K-1, |f| <= 1, Q = qDiff * MessageRatio
	K := mp.K - 1
	Q := mp.QDiff * mp.MessageRatio()
	n := params.MaxSlots()
	vals := make([]float64, n)
	fr := make([]float64, n)
	core := make([]bool, n) // |k| <= (K-1)/2: the approximations are markedly better near the origin
	for i := range vals {
		k := math.Round((2*r.F64() - 1) * K)
		f := 2*r.F64() - 1
		switch r.N(16) {
		case 0:
			k = K
		case 1:
			k = -K
		case 2:
			f = eng.Pick(r, 1.0, -1.0, 0.0)
		}
		vals[i], fr[i], core[i] = k*Q+f, f, math.Abs(k) <= math.Floor(K/2)
	}
	vals[0], fr[0], core[0] = K*Q+0.5, 0.5, false
	pt := ckks.NewPlaintext(params, params.MaxLevel())
	if err = ecd.Encode(vals, pt); err != nil {
		panic(err)
	}
	ct, err := enc.EncryptNew(pt)
	if err != nil {
		panic(err)
	}
	// the documented input normalisation (as the package's own test does)
	ok := c.Try("C18|mod1|input-normalisation", func() {
		scale := rlwe.NewScale(math.Exp2(math.Round(math.Log2(float64(params.Q()[0]) / mp.MessageRatio()))))
		scale = scale.Div(ct.Scale)
		if err = eval.ScaleUp(ct, rlwe.NewScale(math.Round(scale.Float64())), ct); err != nil {
			return
		}
		scale = mp.ScalingFactor().Div(ct.Scale)
		scale = scale.Div(rlwe.NewScale(mp.MessageRatio()))
		if err = eval.ScaleUp(ct, rlwe.NewScale(math.Round(scale.Float64())), ct); err != nil {
			return
		}
		if err = eval.Mul(ct, 1/(mp.K*mp.QDiff), ct); err != nil {
			return
		}
		err = eval.Rescale(ct, ct)
	})
	if !ok || err != nil {
		c.Inconclusive(fmt.Sprintf("mod1 input normalisation failed: %v", err))
		return
	}
	var out *rlwe.Ciphertext
	me := mod1.NewEvaluator(eval, polynomial.NewEvaluator(params, eval), mp)
	if !c.Try("C18|mod1.Evaluator.EvaluateNew", func() { out, err = me.EvaluateNew(ct) }) {
		return
	}
	if err != nil {
		c.Violate("C18|mod1.Evaluator.EvaluateNew|error-on-admissible", err.Error(), m)
		return
	}
	c.Count("mod1_evaluations", 1)
	c.Distinct(fmt.Sprintf("mod1/%s/%d", m.Name, idx), true)
	c.Check(out.Level() == levelQ-depth, "C18|mod1.Evaluator.EvaluateNew|levels-consumed-differ-from-Depth", func() string {
		return fmt.Sprintf("Depth()=%d, level %d -> %d", depth, levelQ, out.Level())
	})
	have := make([]float64, n)
	if err = ecd.Decode(dec.DecryptNew(out), have); err != nil {
		panic(err)
	}
	var worst, worstCore, worstD float64
	wi := 0
	for i := range have {
		dm := Q * distort(fr[i]/Q, m.InvDeg)
		e := math.Abs(have[i] - (fr[i] + dm))
		if math.IsNaN(e) {
			e = math.Inf(1)
		}
		if e > worst {
			worst, wi = e, i
		}
		if core[i] && e > worstCore {
			worstCore = e
		}
		worstD = math.Max(worstD, math.Abs(dm))
	}
	fl, okf := mod1Floors[m.Name]
	if calibPath != "" {
		appendCalib(fmt.Sprintf("mod1:%s\t%.2f\t%.2f\t%.2f\n", m.Name, math.Log2(worstCore+1e-300), math.Log2(worst+1e-300), math.Log2(worstD+1e-300)))
	}
	if !okf {
		c.Inconclusive("no frozen floor for mod1 configuration " + m.Name)
		return
	}
	thrCore, thr := math.Exp2(fl[0]+marginBits), math.Exp2(fl[1]+marginBits)
	c.Max("max_mod1_err_over_threshold_x1000", int64(1000*worst/thr))
	c.Check(worstCore <= thrCore, "C18|mod1.Evaluator.EvaluateNew|differs-from-x-mod-1-model|inner-half-of-interval", func() string {
		return fmt.Sprintf("integer parts |k| <= (K-1)/2: error 2^%.1f > 2^%.1f (floor 2^%.1f + %g bits) (%+v)", math.Log2(worstCore), math.Log2(thrCore), fl[0], marginBits, m)
	})
	c.Check(worst <= thr, "C18|mod1.Evaluator.EvaluateNew|differs-from-x-mod-1-model", func() string {
		return fmt.Sprintf("slot %d: input %.6f = k*Q + f with f=%.6f, output %.9f, model %.9f; error 2^%.1f > 2^%.1f (floor 2^%.1f + %g bits); sin distortion allowance of this input set 2^%.1f (%+v)",
			wi, vals[wi], fr[wi], have[wi], fr[wi]+Q*distort(fr[wi]/Q, m.InvDeg), math.Log2(worst), math.Log2(thr), fl[1], marginBits, math.Log2(worstD+1e-300), m)
	})
	// the property as stated: x mod 1 (scaled back) within the documented sin/arcsine error
	var worstRaw float64
	for i := range have {
		worstRaw = math.Max(worstRaw, math.Abs(have[i]-fr[i])-1.25*math.Abs(Q*distort(fr[i]/Q, m.InvDeg)))
	}
	c.Check(worstRaw <= thr, "C18|mod1.Evaluator.EvaluateNew|not-x-mod-1-on-stated-interval", func() string {
		return fmt.Sprintf("max (|out - (x mod 1)| - documented approximation error) = 2^%.1f > 2^%.1f (%+v)", math.Log2(worstRaw), math.Log2(thr), m)
	})
}
